(* C05: the pointer-level invariant [hinv] (HeapInv.v) lifted to the op-list interpreter of
   BuildOps.v for the sub-language
     { NewStruct, New{UInt8..64,Bit,Pointer,Void}List, NewData/NewText, SetUint8..64, SetBit,
       Struct.SetPtr and Message.SetRoot of handles of the same message (all three placements,
       overwrites, null and empty-struct inline words), read-only accessors }
   with "pool = table": the valid handles of the pool are the object table. *)
From CV Require Import Core.Builder Core.ReaderFacts Core.ArithFacts Core.BuilderFacts Core.AllocProofs
  Core.WritePtrProofs Core.HeapProofs Core.CopyProofs Core.BuildOps Core.BuildValid Core.BuildInv Core.HeapInv.
From Coq Require Import ZifyBool ZifyNat.
Open Scope Z_scope.

Ltac Zify.zify_post_hook ::= Z.div_mod_to_equations.

(* ------------------------------------------------------------------ allocation facts *)
Lemma segs_small_same_len m m' : (forall i, 0 <= i -> zlen (mem m' i) = zlen (mem m i)) -> segs_small m -> segs_small m'.
Proof.
  intros E S i. destruct (Z_lt_ge_dec i 0) as [L|G].
  - unfold mem, get_seg. replace (Z.to_nat i) with O by lia. pose proof (E 0 (Z.le_refl 0)) as X.
    unfold mem, get_seg in X. cbn [Z.to_nat] in X. rewrite X. apply (S 0).
  - rewrite E by lia. apply S.
Qed.

Lemma alloc_small m sid sz m1 s1 a :
  inv m -> segs_small m -> 0 <= sid < nsegs m -> 0 <= sz -> alloc m sid sz = Ok (m1, s1, a) -> segs_small m1.
Proof.
  intros Hinv Hsm Hs Hz E.
  destruct (alloc_keeps _ _ _ _ _ _ Hinv Hs Hz E) as (_ & I1 & N1 & S1 & AD & L1 & _ & _ & _ & MX).
  destruct Hinv as [Hwf Har].
  destruct (alloc_mem _ _ _ _ _ _ Hwf Har Hs Hz E) as (_ & _ & _ & _ & _ & _ & _ & _ & _ & A10 & _).
  intros i. destruct (Z.eq_dec i s1) as [->|Hne]; [exact MX|].
  destruct (Z_lt_ge_dec i 0) as [L|G].
  - unfold mem, get_seg. replace (Z.to_nat i) with O by lia.
    destruct (Z.eq_dec 0 s1) as [<-|H0]; [exact MX|]. pose proof (A10 0 (Z.le_refl 0) H0) as X. unfold mem, get_seg in X.
    cbn [Z.to_nat] in X. rewrite X. apply (Hsm 0).
  - rewrite A10 by lia. apply Hsm.
Qed.

(* a word of the zero-filled region an allocation appended *)
Lemma le_decode_zeros n : le_decode (repeat 0 n) = 0.
Proof. induction n as [|n IH]; [reflexivity|]. cbn [repeat le_decode]. rewrite IH. reflexivity. Qed.

Lemma skipn_repeat_local {A} (x : A) k n : skipn k (repeat x n) = repeat x (n - k).
Proof. revert n; induction k as [|k IH]; intros [|n]; cbn; auto. Qed.
Lemma firstn_repeat_local {A} (x : A) k n : (k <= n)%nat -> firstn k (repeat x n) = repeat x k.
Proof. revert n; induction k as [|k IH]; intros [|n] H; cbn; auto; try lia. f_equal. apply IH. lia. Qed.

Lemma sub_app_zeros d n b : zlen d <= b -> 0 <= b -> b + 8 <= zlen d + Z.of_nat n -> sub (d ++ repeat 0 n) b 8 = repeat 0 8.
Proof.
  intros H1 H0 H2. unfold sub, zlen in *. rewrite skipn_app. rewrite skipn_all2 by lia. cbn [app].
  rewrite skipn_repeat_local. rewrite firstn_repeat_local by lia. reflexivity.
Qed.

(* ------------------------------------------------------------------ writing one pointer slot *)
Lemma hinv_write_slot m objs pads m' q pads' :
  hinv m objs pads -> In q ((0, 0) :: flat_map slots objs) ->
  keeps m m' (Rword (fst q) (snd q)) -> inv m' -> segs_small m' -> nsegs m <= nsegs m' -> nsegs m' < 4294967296 ->
  (length pads' <= 1)%nat ->
  (forall p, In p pads' -> 0 < r_size p /\ zlen (mem m (r_seg p)) <= r_start p /\ in_msg (bm_data m') p) ->
  slot_ok (bm_data m') (pads ++ pads') objs q ->
  hinv m' objs (pads ++ pads').
Proof.
  intros H Hq K I' Sm' N' Hns' L1 PF SQ.
  destruct (slot_geometry _ _ _ _ H Hq) as (Q1 & Q2 & Q3 & Q4 & (rq & Rq1 & Rq2 & Rq3 & Rq4)).
  assert (G : grows (bm_data m) (bm_data m')) by (eapply keeps_grows; eauto).
  assert (InO : forall a, In a (regsO objs) -> in_msg (bm_data m) a).
  { intros a Ha. apply (hi_in _ _ _ H). unfold all_regs. apply in_or_app. left. exact Ha. }
  assert (InP : forall a, In a pads -> in_msg (bm_data m) a).
  { intros a Ha. apply (hi_in _ _ _ H). unfold all_regs. apply in_or_app. right. exact Ha. }
  constructor; auto.
  - intros x Hx. destruct (hi_good _ _ _ H x Hx) as [V Gx]. split; [exact V|eapply good_mono; eauto].
  - intros r Hr. unfold all_regs in Hr. apply in_app_or in Hr. destruct Hr as [Hr|Hr].
    + eapply in_msg_mono; eauto.
    + apply in_app_or in Hr. destruct Hr as [Hr|Hr]; [eapply in_msg_mono; eauto|apply PF; exact Hr].
  - intros r Hr. apply in_app_or in Hr. destruct Hr as [Hr|Hr]; [apply (hi_pads _ _ _ H); exact Hr|apply PF; exact Hr].
  - apply (hi_disjO _ _ _ H).
  - destruct pads' as [|p0 [|p1 ps]]; [rewrite app_nil_r; apply (hi_disjP _ _ _ H)| |cbn in L1; lia].
    apply ord_disjoint_snoc; [apply (hi_disjP _ _ _ H)|].
    intros a Ha. apply (fresh_disjoint m); auto. right. apply (PF p0). left. reflexivity.
  - intros a p Ha Hp. apply in_app_or in Hp. destruct Hp as [Hp|Hp]; [apply (hi_cross _ _ _ H); auto|].
    apply (fresh_disjoint m); auto. right. apply (PF p). exact Hp.
  - intros q' Hq'.
    destruct (slot_geometry _ _ _ _ H Hq') as (P1 & P2 & P3 & P4 & _).
    assert (DEC : (fst q' = fst q /\ snd q' = snd q) \/ ~ (fst q' = fst q /\ snd q' = snd q)) by lia.
    destruct DEC as [[E1 E2]|NE].
    + assert (Eq : q' = q) by (destruct q, q'; cbn in *; congruence). subst q'. exact SQ.
    + apply (slot_ok_frame m m' (Rword (fst q) (snd q)) pads objs); auto.
      * intros k Hk [X1 X2]. lia.
      * intros r Hr k Hk [X1 X2].
        pose proof (hi_cross _ _ _ H _ _ Rq1 Hr) as D. pose proof (hi_pads _ _ _ H r Hr) as Pz.
        destruct r as [rs rst rsz]. destruct rq as [qs qst qsz]. cbv [reg_disjoint r_seg r_start r_size] in *. lia.
      * intros x Hx. apply in_or_app. left. exact Hx.
      * apply incl_refl.
      * apply (hi_slots _ _ _ H). exact Hq'.
Qed.

(* the two inline encodings of writePtr: the null word and the empty struct (offset -1) *)
Definition empty_struct_word : Z := 4294967292.   (* rawStructPointer (-1) (mkOS 0 0) *)
Lemma empty_struct_word_eq : rawStructPointer (-1) (mkOS 0 0) = Some empty_struct_word.
Proof. reflexivity. Qed.

Lemma hinv_write_inline m objs pads m' q v :
  hinv m objs pads -> In q ((0, 0) :: flat_map slots objs) ->
  (v = 0 \/ v = empty_struct_word) ->
  writeRawPointer m (fst q) (snd q) v = Ok m' ->
  hinv m' objs pads.
Proof.
  intros H Hq Hv HW.
  destruct (slot_geometry _ _ _ _ H Hq) as (Q1 & Q2 & Q3 & Q4 & _).
  assert (Q0 : 0 <= fst q) by lia.
  destruct (writeRawPointer_keeps _ _ _ _ _ Q0 (hi_inv _ _ _ H) HW) as (K & I' & N & _).
  assert (W := HW). apply writeRawPointer_wrote in W; [|lia].
  assert (Sm' : segs_small m').
  { apply (segs_small_same_len m); [|apply (hi_small _ _ _ H)]. intros i Hi. apply (wrote_len _ _ _ _ _ i W Hi). }
  rewrite <- (app_nil_r pads).
  apply (hinv_write_slot m objs pads m' q []); auto; try lia.
  - rewrite N. apply (hi_nsegs _ _ _ H).
  - intros p [].
  - (* the new word *)
    assert (Hw64 : word64 v) by (destruct Hv as [-> | ->]; unfold word64, empty_struct_word; lia).
    assert (RD : word_at (bm_data m') (fst q) (snd q) = Some v).
    { apply word_at_mem; [rewrite N; exact Q1| |pose proof (hi_small _ _ _ H (fst q)); unfold maxSegmentSize in *; lia].
      apply (wrote_word_back m m'); auto. pose proof (hi_small _ _ _ H (fst q)). unfold maxSegmentSize in *. lia. }
    destruct Hv as [-> | ->].
    + rewrite app_nil_r. apply null_slot_ok. exact RD.
    + exists (GStruct (fst q) (snd q) 0 0), [mkReg (fst q) (snd q) 0]. split; [|split; [exact I|]].
      * unfold resolve_ptr. rewrite RD. unfold empty_struct_word.
        change (4294967292 =? 0) with false. change (f_A 4294967292 =? 3) with false. change (f_A 4294967292 =? 2) with false. cbv iota.
        unfold decode_obj. cbv zeta. change (f_A 4294967292 =? 0) with true. cbv iota.
        change (f_off 4294967292) with (-1). change (f_dw 4294967292) with 0. change (f_pc 4294967292) with 0.
        replace (snd q + 8 + 8 * -1) with (snd q) by lia. change (8 * (0 + 0)) with 0.
        rewrite in_seg_intro; [reflexivity| | | | |]; try lia.
        -- rewrite zlen_bm, N. exact Q1.
        -- rewrite seg_len_bm. rewrite (wrote_len _ _ _ _ _ (fst q) W) by lia. lia.
      * right. exists [], (mkReg (fst q) (snd q) 0). split; [reflexivity|]. split; [intros x []|left; reflexivity].
Qed.

(* ------------------------------------------------------------------ writePtr without copy *)
Lemma write_ptr_hinv f w objs pads q src w' :
  hinv (w_dst w) objs pads -> In q ((0, 0) :: flat_map slots objs) ->
  (p_valid src = false \/ In src objs /\ p_member src = false) ->
  write_ptr (S f) true w (fst q) (snd q) InDst src false = Ok w' ->
  nsegs (w_dst w') < 4294967296 ->
  exists pads', hinv (w_dst w') objs (pads ++ pads').
Proof.
  intros H Hq Hsrc HW Hns. unfold write_ptr in HW. cbn [write_ptr_gen] in HW.
  destruct (p_valid src) eqn:EV; cbn [negb] in HW.
  2:{ unfold lift0 in HW. destruct (writeRawPointer (w_dst w) (fst q) (snd q) 0) as [m'| |] eqn:EW; cbn [bind] in HW; try discriminate.
      apply Ok_inj in HW. subst w'. cbn [w_dst w_set_dst] in *. exists []. rewrite app_nil_r.
      apply (hinv_write_inline (w_dst w) objs pads m' q 0); auto. }
  destruct Hsrc as [X|[Hin Hmem]]; [discriminate|].
  destruct (hi_good _ _ _ H src Hin) as [_ G]. pose proof G as (Sh & _). unfold shape_ok in Sh.
  destruct (p_kind src) eqn:EK.
  - (* struct *)
    destruct (os_isZero (p_size src)) eqn:EZ.
    + rewrite empty_struct_word_eq in HW. cbn [of_opt_panic bind] in HW. unfold lift0 in HW.
      destruct (writeRawPointer (w_dst w) (fst q) (snd q) empty_struct_word) as [m'| |] eqn:EW; cbn [bind] in HW; try discriminate.
      apply Ok_inj in HW. subst w'. cbn [w_dst w_set_dst] in *. exists []. rewrite app_nil_r.
      apply (hinv_write_inline (w_dst w) objs pads m' q empty_struct_word); auto.
    + rewrite Hmem in HW. cbn [orb is_src bind] in HW.
      destruct (of_opt_panic (rawStructPointer 0 (p_size src))) as [raw| |] eqn:ER; cbn [bind] in HW; try discriminate.
      eapply (hinv_place (w_dst w) objs pads w q src raw w'); eauto.
      unfold raw_of. rewrite EK. exact ER.
  - (* list *)
    destruct Sh as (Hc & _). cbn [orb is_src bind] in HW. rewrite Hc in HW.
    destruct (list_raw src) as [raw| |] eqn:ER; cbn [bind] in HW; try discriminate.
    eapply (hinv_place (w_dst w) objs pads w q src raw w'); eauto.
    + intros X. rewrite EK in X. discriminate.
    + unfold raw_of. rewrite EK. exact ER.
  - destruct Sh.
Qed.

(* ------------------------------------------------------------------ constructors *)
Lemma hinv_alloc_obj m objs pads sid sz m1 s1 a h :
  hinv m objs pads -> 0 <= sid < nsegs m -> 0 <= sz -> alloc m sid sz = Ok (m1, s1, a) ->
  nsegs m1 < 4294967296 ->
  p_valid h = true -> p_seg h = s1 -> p_off h = a -> shape_ok h -> obj_bytes h = sz ->
  hinv m1 (objs ++ [h]) pads.
Proof.
  intros H Hs Hz EA Hns Hv Es Eo Sh Eb.
  pose proof (hi_inv _ _ _ H) as Hinv. pose proof Hinv as [Hwf Har].
  destruct (alloc_keeps _ _ _ _ _ _ Hinv Hs Hz EA) as (K & I1 & N1 & S1 & AD & L1 & _ & _ & _ & MX).
  pose proof (alloc_small _ _ _ _ _ _ Hinv (hi_small _ _ _ H) Hs Hz EA) as Sm1.
  pose proof (alloc_fresh _ _ _ _ _ _ Hwf Har Hs Hz EA) as AF. cbv zeta in AF.
  destruct AF as (_ & _ & A3 & _ & _ & A6 & _).
  pose proof (zlen_nonneg (mem m s1)) as Z0. pose proof (padToWord_nonneg sz) as P0. unfold maxSegmentSize in MX.
  assert (Gd : good (bm_data m1) h).
  { split; [exact Sh|]. split; [rewrite Es; lia|]. split.
    - unfold obj_reg. cbn [r_size]. rewrite Eb, Es, Eo. unfold blen in A3.
      apply in_seg_intro; rewrite ?zlen_bm, ?seg_len_bm; try lia.
    - rewrite Eo. lia. }
  apply (hinv_add_obj m objs pads m1 h); auto.
  - right. rewrite Es, Eo. lia.
  - intros q Hq. destruct (slot_in_obj _ _ _ Hv Gd Hq) as (S1' & S2 & S3 & _).
    unfold obj_reg in S3. cbn [r_size] in S3. rewrite Eb, Eo in *. rewrite Es in S1'.
    rewrite S1'. rewrite word_at_sub; try lia.
    unfold mem at 1. rewrite A6. fold (mem m s1). rewrite sub_app_zeros; try lia.
    now rewrite le_decode_zeros.
Qed.

Lemma list_alloc_eq h : p_valid h = true -> shape_ok h -> p_kind h = KList ->
  obj_bytes h = if p_bit h then bitListSize (p_len h)
                else (DataSize (p_size h) + 8 * PointerCount (p_size h)) * p_len h.
Proof.
  intros Hv Sh Ek. unfold obj_bytes, shape_ok in *. rewrite Ek in *. destruct Sh as (Hc & Hn & Hk).
  destruct Hk as [[Hb Hsz]|[Hb Hsz]]; rewrite Hb.
  - unfold list_allocSize. now rewrite Hv, Hb.
  - destruct Hsz as [Hsz|(d & Hsz & Hd)].
    + rewrite (list_alloc_plain h 0 1); auto; try lia. rewrite Hsz. reflexivity.
    + rewrite (list_alloc_plain h d 0); auto; try lia. rewrite Hsz. reflexivity.
Qed.

(* ------------------------------------------------------------------ pool = table *)
Definition objs_of (st : bstate) : list Ptr := filter p_valid (map snd (st_h st)).

Definition pool_ok (st : bstate) : Prop :=
  Forall (fun h => fst h = InDst /\ (p_valid (snd h) = true -> p_member (snd h) = false)) (st_h st).

Definition sinv (st : bstate) (pads : list region) : Prop :=
  hinv (w_dst (st_w st)) (objs_of st) pads /\ pool_ok st.

Lemma objs_of_push st w p : objs_of (hpush st w InDst p) = objs_of st ++ (if p_valid p then [p] else []).
Proof. unfold objs_of, hpush. cbn [st_h]. rewrite map_app, filter_app. cbn. destruct (p_valid p); reflexivity. Qed.

Lemma pool_ok_push st w p : pool_ok st -> (p_valid p = true -> p_member p = false) -> pool_ok (hpush st w InDst p).
Proof. intros H Hp. unfold pool_ok, hpush. cbn [st_h]. apply Forall_app. split; [exact H|]. repeat constructor; auto. Qed.

Lemma sinv_push_null st pads : sinv st pads -> sinv (hpush st (st_w st) InDst nullPtr) pads.
Proof.
  intros [H P]. split.
  - rewrite objs_of_push. cbn [p_valid nullPtr]. rewrite app_nil_r. exact H.
  - apply pool_ok_push; auto.
Qed.

(* a valid pool handle of the wanted kind is a table object *)
Lemma hget_obj st pads h : sinv st pads -> p_valid (snd (hget st h)) = true ->
  In (snd (hget st h)) (objs_of st) /\ p_member (snd (hget st h)) = false /\ fst (hget st h) = InDst.
Proof.
  intros [_ P] Hv. unfold hget in *.
  destruct (Nat.lt_ge_cases (Z.to_nat h) (length (st_h st))) as [L|G].
  - pose proof (nth_In (st_h st) (InDst, nullPtr) L) as Hin.
    unfold pool_ok in P. rewrite Forall_forall in P. destruct (P _ Hin) as [P1 P2].
    split; [|split; auto]. unfold objs_of. apply filter_In. split; [apply in_map; exact Hin|exact Hv].
  - rewrite nth_overflow in Hv by lia. discriminate Hv.
Qed.

(* the sub-language, as an executable predicate on ops *)
Definition width_b (n : Z) : bool := (n =? 1) || (n =? 2) || (n =? 4) || (n =? 8).
Definition ro_op (o : op) : bool :=
  match o with
  | OHasPtr _ _ | OUint _ _ _ | OBit _ _ | OUintAt _ _ _ | OBitAt _ _ | OText _ | OData _ | OInfo _ | ORLimit | OWalk _ _ _ _ => true
  | _ => false
  end.
Definition sub_op (o : bop) : bool :=
  match o with
  | BNewStruct _ dsz pc => (0 <=? dsz) && (0 <=? pc) && (pc <? 65536)
  | BNewPrim _ sz _ => (sz =? 0) || width_b sz
  | BNewBit _ _ | BNewPList _ _ | BNewVoid _ _ => true
  | BNewBytes _ v _ => zlen v <? 536870911
  | BSetUint _ off n _ => (0 <=? off) && width_b n
  | BSetBit _ n _ => 0 <=? n
  | BListSetUint _ _ n _ => width_b n
  | BBitSet _ _ _ => true
  | BSetPtr _ i _ => 0 <=? i
  | BSetRoot _ => true
  | BRead _ o => ro_op o
  | BRoundTrip _ _ _ | BDump _ => true
  | _ => false
  end.

Lemma alloc_ctor st pads sid sz m1 s1 a h :
  sinv st pads -> valid_sid st sid = true -> 0 <= sz -> alloc (w_dst (st_w st)) sid sz = Ok (m1, s1, a) ->
  nsegs m1 < 4294967296 ->
  h = mkPtr true s1 a (p_len h) (p_size h) maxDepth (p_kind h) false (p_bit h) false -> shape_ok h -> obj_bytes h = sz ->
  sinv (hpush st (w_set_dst (st_w st) m1) InDst h) pads.
Proof.
  intros [H P] Hv Hz EA Hns Eh Sh Eb. apply valid_sid_range in Hv.
  assert (V : p_valid h = true) by (rewrite Eh; reflexivity).
  split.
  - rewrite objs_of_push, V. cbn [hpush st_w w_dst w_set_dst].
    apply (hinv_alloc_obj (w_dst (st_w st)) (objs_of st) pads sid sz m1 s1 a h); auto; rewrite Eh; reflexivity.
  - apply pool_ok_push; auto. intros _. rewrite Eh. reflexivity.
Qed.

(* ------------------------------------------------------------------ every step of the sub-language *)
Lemma width_b_ok n : width_b n = true -> n = 1 \/ n = 2 \/ n = 4 \/ n = 8.
Proof. unfold width_b. lia. Qed.

Lemma sinv_same_segs st pads w2 :
  sinv st pads -> bm_segs (w_dst w2) = bm_segs (w_dst (st_w st)) -> bm_arena (w_dst w2) = bm_arena (w_dst (st_w st)) ->
  sinv (mkBSt w2 (st_h st)) pads.
Proof.
  intros [H P] E1 E2. split; [|exact P]. unfold objs_of. cbn [st_w st_h].
  destruct H as [Hi Hsm Hns Hg Hin Hpd HdO HdP Hcr Hs].
  assert (EM : forall i, mem (w_dst w2) i = mem (w_dst (st_w st)) i) by (intros i; unfold mem, get_seg; now rewrite E1).
  assert (ED : bm_data (w_dst w2) = bm_data (w_dst (st_w st))) by (unfold bm_data; now rewrite E1).
  constructor; auto; try (rewrite ED; auto).
  - destruct Hi as [A B]. split; [unfold bmsg_wf; now rewrite E1|unfold arena_wf; now rewrite E1, E2].
  - intros i. rewrite EM. apply Hsm.
  - unfold nsegs. rewrite E1. exact Hns.
Qed.

(* geometry of struct handles *)
Lemma struct_slots p : p_kind p = KStruct -> os_wf (p_size p) ->
  slots p = map (fun a => (p_seg p, a)) (zseq (p_off p + DataSize (p_size p)) 8 (Z.to_nat (PointerCount (p_size p)))).
Proof.
  intros Ek (Hd & Hm & Hp). unfold slots, tgt_of. rewrite Ek. cbn [children].
  replace (p_off p + 8 * (DataSize (p_size p) / 8)) with (p_off p + DataSize (p_size p)) by lia. reflexivity.
Qed.

Lemma struct_slot_in (ms : segs) p i : p_valid p = true -> good ms p -> seg_len ms (p_seg p) <= maxSegmentSize ->
  p_kind p = KStruct -> 0 <= i < PointerCount (p_size p) ->
  In (p_seg p, pointerAddress p i) (slots p).
Proof.
  intros Hv G Hsl Ek Hi. pose proof G as (Sh & _ & Hin & _). unfold shape_ok in Sh. rewrite Ek in Sh.
  rewrite struct_slots by auto. apply in_map. unfold zseq. apply in_map_iff. exists (Z.to_nat i). split; [|apply in_seq; lia].
  destruct Sh as (Hd & Hm & Hp). destruct (in_seg_elim _ _ _ _ Hin) as (G1 & G2 & G3 & G4 & G5).
  rewrite pointerAddress_eq; try lia.
  unfold obj_reg, obj_bytes in G4. rewrite Ek in G4. cbn [r_size] in G4.
  assert (TS : totalSize (p_size p) = DataSize (p_size p) + 8 * PointerCount (p_size p)) by (unfold totalSize, pointerSize, u32; lia).
  rewrite TS in G4. unfold padToWord, u32 in G4.
  (* the struct lies inside an addressable segment *)
  unfold maxSegmentSize in *. lia.
Qed.

Lemma struct_slots_after_data (ms : segs) p q : p_kind p = KStruct -> os_wf (p_size p) -> In q (slots p) ->
  p_off p + DataSize (p_size p) <= snd q.
Proof.
  intros Ek W Hq. rewrite struct_slots in Hq by auto. apply in_map_iff in Hq. destruct Hq as (a & <- & Ha).
  unfold zseq in Ha. apply in_map_iff in Ha. destruct Ha as (k & <- & _). cbn [snd]. lia.
Qed.

Lemma write_ptr_invalid_loc f strict w d o l src fc : p_valid src = false ->
  write_ptr f strict w d o l src fc = write_ptr f strict w d o InDst src fc.
Proof. intros Hv. destruct f; [reflexivity|]. unfold write_ptr. cbn [write_ptr_gen]. now rewrite Hv. Qed.

Lemma ro_step_handles c ms hs rl o rs' v : ro_op o = true -> step c all_fixes ms (mkRS hs rl) o = (rs', v) -> rs_handles rs' = hs.
Proof.
  intros Hr. destruct o; try discriminate Hr; cbn [step]; try (intros E; inversion E; reflexivity).
  destruct (walk _ _ _ _ _ _ _ _) as [t rl1]. intros E. inversion E. reflexivity.
Qed.

Theorem bstep_hinv e st pads o st' out :
  sinv st pads -> sub_op o = true -> bstep e st o = (Some st', out) ->
  nsegs (w_dst (st_w st')) < 4294967296 ->
  exists pads', sinv st' pads'.
Proof.
  intros S Hop. pose proof S as [H P]. unfold bstep. destruct o; try discriminate Hop; cbv zeta.
  - (* NewStruct *)
    destruct (negb (valid_sid st sid)) eqn:EV.
    { intros E _. injection E as <- _. exists pads. now apply sinv_push_null. }
    assert (Vs : valid_sid st sid = true) by (destruct (valid_sid st sid); auto; discriminate).
    unfold ctor, newStruct. destruct (negb (os_isValid (mkOS dsz pc))) eqn:EO; [discriminate|].
    unfold os_isValid in EO. cbn [DataSize PointerCount] in *.
    destruct (alloc (w_dst (st_w st)) sid _) as [[[m1 s1] a]| |] eqn:EA; cbn [bind]; try discriminate.
    intros E Hns. injection E as <- _. cbn [hpush st_w w_dst w_set_dst] in Hns. exists pads.
    cbn [sub_op] in Hop.
    eapply (alloc_ctor st pads sid _ m1 s1 a); eauto.
    + apply totalSize_nn.
    + unfold shape_ok. cbn [p_kind p_size]. unfold os_wf, padToWord, u32. cbn [DataSize PointerCount]. lia.
  - (* NewPrim *)
    destruct (negb (valid_sid st sid)) eqn:EV.
    { intros E _. injection E as <- _. exists pads. now apply sinv_push_null. }
    assert (Vs : valid_sid st sid = true) by (destruct (valid_sid st sid); auto; discriminate).
    unfold ctor, newPrimitiveList. destruct ((n <? 0) || (n >=? 536870912)) eqn:EN; [discriminate|].
    destruct (alloc (w_dst (st_w st)) sid _) as [[[m1 s1] a]| |] eqn:EA; cbn [bind]; try discriminate.
    intros E Hns. injection E as <- _. cbn [hpush st_w w_dst w_set_dst] in Hns. exists pads.
    cbn [sub_op] in Hop.
    assert (Hsz : sz = 0 \/ sz = 1 \/ sz = 2 \/ sz = 4 \/ sz = 8).
    { destruct (sz =? 0) eqn:E0; [left; lia|right]. apply width_b_ok. cbn in Hop. exact Hop. }
    assert (TU : timesUnchecked sz n = sz * n) by (unfold timesUnchecked, u32; nia).
    eapply (alloc_ctor st pads sid _ m1 s1 a); eauto.
    + rewrite TU. nia.
    + unfold shape_ok. cbn [p_kind p_comp p_len p_bit p_size]. split; [reflexivity|]. split; [lia|].
      right. split; [reflexivity|]. right. exists sz. split; [reflexivity|lia].
    + rewrite list_alloc_eq; cbn [p_valid p_kind p_bit p_size p_len DataSize PointerCount]; auto; try lia.
      unfold shape_ok. cbn [p_kind p_comp p_len p_bit p_size]. split; [reflexivity|]. split; [lia|].
      right. split; [reflexivity|]. right. exists sz. split; [reflexivity|lia].
  - (* NewBit *)
    destruct (negb (valid_sid st sid)) eqn:EV.
    { intros E _. injection E as <- _. exists pads. now apply sinv_push_null. }
    assert (Vs : valid_sid st sid = true) by (destruct (valid_sid st sid); auto; discriminate).
    unfold ctor, newBitList. destruct ((n <? 0) || (n >=? 536870912)) eqn:EN; [discriminate|].
    destruct (alloc (w_dst (st_w st)) sid _) as [[[m1 s1] a]| |] eqn:EA; cbn [bind]; try discriminate.
    intros E Hns. injection E as <- _. cbn [hpush st_w w_dst w_set_dst] in Hns. exists pads.
    assert (Sh : shape_ok (mkPtr true s1 a n (mkOS 0 0) maxDepth KList false true false)).
    { unfold shape_ok. cbn [p_kind p_comp p_len p_bit p_size]. split; [reflexivity|]. split; [lia|]. left. auto. }
    eapply (alloc_ctor st pads sid _ m1 s1 a); eauto; try (unfold bitListSize, u32; lia); try (rewrite list_alloc_eq; auto).
  - (* NewPList *)
    destruct (negb (valid_sid st sid)) eqn:EV.
    { intros E _. injection E as <- _. exists pads. now apply sinv_push_null. }
    assert (Vs : valid_sid st sid = true) by (destruct (valid_sid st sid); auto; discriminate).
    unfold ctor, newPointerList. destruct (times 8 n) as [total|] eqn:ET; [|discriminate].
    destruct (alloc (w_dst (st_w st)) sid total) as [[[m1 s1] a]| |] eqn:EA; cbn [bind]; try discriminate.
    intros E Hns. injection E as <- _. cbn [hpush st_w w_dst w_set_dst] in Hns. exists pads.
    unfold times in ET. cbv zeta in ET.
    destruct ((8 * n >? maxSegmentSize) || (8 * n <? 0)) eqn:EB; [discriminate|].
    assert (total = 8 * n) by congruence. subst total. unfold maxSegmentSize in EB.
    assert (Sh : shape_ok (mkPtr true s1 a n (mkOS 0 1) maxDepth KList false false false)).
    { unfold shape_ok. cbn [p_kind p_comp p_len p_bit p_size]. split; [reflexivity|]. split; [lia|]. right. split; [reflexivity|]. left. reflexivity. }
    eapply (alloc_ctor st pads sid _ m1 s1 a); eauto; try lia; try (rewrite list_alloc_eq; auto; cbn; lia).
  - (* NewVoid *)
    destruct (negb (valid_sid st sid)) eqn:EV.
    { intros E _. injection E as <- _. exists pads. now apply sinv_push_null. }
    assert (Vs : valid_sid st sid = true) by (destruct (valid_sid st sid); auto; discriminate).
    apply valid_sid_range in Vs.
    unfold newVoidList. destruct ((n <? 0) || (n >=? 536870912)) eqn:EN.
    { intros E _. injection E as <- _. exists pads. now apply sinv_push_null. }
    intros E Hns. injection E as <- _. exists pads.
    set (h := mkPtr true sid 0 n (mkOS 0 0) maxDepth KList false false false).
    assert (Sh : shape_ok h).
    { unfold shape_ok, h. cbn [p_kind p_comp p_len p_bit p_size]. split; [reflexivity|]. split; [lia|].
      right. split; [reflexivity|]. right. exists 0. split; [reflexivity|lia]. }
    assert (OB : obj_bytes h = 0).
    { rewrite list_alloc_eq; [|reflexivity|exact Sh|reflexivity]. unfold h. cbn [p_bit p_size p_len DataSize PointerCount]. lia. }
    split; [|apply pool_ok_push; auto].
    rewrite objs_of_push. cbn [p_valid h hpush st_w].
    apply (hinv_add_obj (w_dst (st_w st)) (objs_of st) pads (w_dst (st_w st)) h); auto;
      try apply keeps_refl; try apply (hi_inv _ _ _ H); try apply (hi_small _ _ _ H); try lia; try apply (hi_nsegs _ _ _ H).
    + split; [exact Sh|]. pose proof (hi_nsegs _ _ _ H). split; [cbn; lia|]. split; [|cbn; lia].
      unfold obj_reg. cbn [r_size]. rewrite OB. cbn [p_seg p_off h]. change (padToWord 0) with 0.
      apply in_seg_intro; rewrite ?zlen_bm, ?seg_len_bm; try lia. apply zlen_nonneg.
    + intros q Hq. unfold slots, tgt_of, h in Hq. cbn in Hq. destruct Hq.
  - (* NewBytes *)
    destruct (negb (valid_sid st sid)) eqn:EV.
    { intros E _. injection E as <- _. exists pads. now apply sinv_push_null. }
    assert (Vs : valid_sid st sid = true) by (destruct (valid_sid st sid); auto; discriminate).
    cbn [sub_op] in Hop. pose proof (zlen_nonneg v) as Zv.
    set (n := s32 (zlen v + (if nul then 1 else 0))).
    assert (En : n = zlen v + (if nul then 1 else 0)) by (unfold n; apply s32_id; destruct nul; lia).
    unfold ctor, newBytes. fold n. unfold newPrimitiveList.
    destruct ((n <? 0) || (n >=? 536870912)) eqn:EN; [discriminate|].
    destruct (alloc (w_dst (st_w st)) sid _) as [[[m1 s1] a]| |] eqn:EA; cbn [bind]; try discriminate.
    cbn [p_seg p_off].
    destruct (seg_write m1 s1 a v) as [m2| |] eqn:EW; cbn [bind]; try discriminate.
    intros E Hns. injection E as <- _. cbn [hpush st_w w_dst w_set_dst] in Hns. exists pads.
    set (h := mkPtr true s1 a n (mkOS 1 0) maxDepth KList false false false).
    assert (Sh : shape_ok h).
    { unfold shape_ok, h. cbn [p_kind p_comp p_len p_bit p_size]. split; [reflexivity|]. split; [lia|].
      right. split; [reflexivity|]. right. exists 1. split; [reflexivity|lia]. }
    assert (TU : timesUnchecked 1 n = n) by (unfold timesUnchecked, u32; lia).
    assert (OB : obj_bytes h = n).
    { rewrite list_alloc_eq; [|reflexivity|exact Sh|reflexivity]. unfold h. cbn [p_bit p_size p_len DataSize PointerCount]. lia. }
    assert (W : wrote m1 m2 s1 a v).
    { assert (Hz0 : 0 <= timesUnchecked 1 n) by (rewrite TU; lia).
      apply seg_write_wrote; auto; [|lia].
      destruct (alloc_keeps _ _ _ _ _ _ (hi_inv _ _ _ H) (valid_sid_range _ _ Vs) Hz0 EA) as (_ & _ & _ & X & _). lia. }
    assert (N12 : nsegs m2 = nsegs m1) by (unfold nsegs; apply (wrote_nsegs _ _ _ _ _ W)).
    assert (S1 : sinv (hpush st (w_set_dst (st_w st) m1) InDst h) pads).
    { apply (alloc_ctor st pads sid (timesUnchecked 1 n) m1 s1 a h); auto; try (rewrite TU; lia); try lia; try reflexivity; try (rewrite OB, TU; reflexivity). }
    destruct S1 as [H1 P1]. split; [|apply pool_ok_push; auto].
    rewrite objs_of_push in *. cbn [p_valid h hpush st_w w_dst w_set_dst] in *.
    apply (hinv_data_write m1 _ pads m2 h a v); auto.
    + apply in_or_app. right. left. reflexivity.
    + cbn [p_seg h]. destruct (hi_good _ _ _ H1 h ltac:(apply in_or_app; right; left; reflexivity)) as [_ (_ & X & _)]. cbn in X. lia.
    + cbn [p_off h]. lia.
    + cbn [p_off h]. unfold obj_reg. cbn [r_size]. rewrite OB. unfold padToWord, u32. destruct nul; lia.
    + intros q Hq. unfold slots, tgt_of, h in Hq. cbn in Hq. destruct Hq.
  - (* SetUint *)
    destruct (hget st h) as [l p] eqn:EH. cbn [sub_op] in Hop.
    unfold dset. destruct (set_in (st_w st) l _) as [w1| |] eqn:ES; intros E Hns; injection E as <- _;
      try (exists pads; exact S).
    exists pads.
    apply andb_prop in Hop. destruct Hop as [Ho1 Ho2].
    assert (Hoff : 0 <= off) by lia. assert (Hn : n = 1 \/ n = 2 \/ n = 4 \/ n = 8) by (apply width_b_ok; exact Ho2).
    (* only a valid struct handle of the message under construction gets this far *)
    assert (Hval : p_valid (as_struct p) = true).
    { unfold set_in in ES. destruct l.
      - unfold lift0, struct_set_uint, dataAddress in ES. destruct (negb (p_valid (as_struct p)) || _) eqn:EE; cbn [bind] in ES; [discriminate|].
        destruct (p_valid (as_struct p)); auto; discriminate.
      - unfold struct_set_uint, dataAddress in ES. destruct (negb (p_valid (as_struct p)) || _) eqn:EE; cbn [bind] in ES; [discriminate|].
        destruct (p_valid (as_struct p)); auto; discriminate. }
    assert (Eas : as_struct p = p /\ p_kind p = KStruct).
    { unfold as_struct, is_struct in *. destruct (p_valid p && _) eqn:EE; [|discriminate Hval].
      split; [reflexivity|]. destruct (p_kind p); auto; rewrite Bool.andb_false_r in EE; discriminate. }
    destruct Eas as [Eas Ek]. rewrite Eas in *.
    assert (HP : p = snd (hget st h)) by (rewrite EH; reflexivity).
    destruct (hget_obj st pads h S ltac:(rewrite <- HP; exact Hval)) as (Hin & Hmem & Hl). rewrite <- HP in Hin. rewrite EH in Hl. cbn in Hl. subst l.
    destruct (hi_good _ _ _ H p Hin) as [_ G]. pose proof G as (Sh & Gs & Gi & Go). unfold shape_ok in Sh. rewrite Ek in Sh.
    destruct Sh as (Hd & Hm & Hp'). destruct (in_seg_elim _ _ _ _ Gi) as (G1 & G2 & G3 & G4 & G5).
    assert (TS : totalSize (p_size p) = DataSize (p_size p) + 8 * PointerCount (p_size p)) by (unfold totalSize, pointerSize, u32; lia).
    unfold obj_reg, obj_bytes in G3, G4. rewrite Ek in G3, G4. cbn [r_size] in G3, G4. rewrite TS in G3, G4.
    assert (PW : padToWord (DataSize (p_size p) + 8 * PointerCount (p_size p)) = DataSize (p_size p) + 8 * PointerCount (p_size p)) by (unfold padToWord, u32; lia).
    rewrite PW in G3, G4. rewrite seg_len_bm in G4. pose proof (hi_small _ _ _ H (p_seg p)) as Hsm. unfold maxSegmentSize in Hsm.
    unfold set_in, lift0, struct_set_uint, dataAddress in ES.
    destruct (negb (p_valid p) || (u32 (off + n) >? DataSize (p_size p))) eqn:EE; cbn [bind] in ES; [discriminate|].
    destruct (addOffset (p_off p) off) as [addr|] eqn:EA; cbn [bind] in ES; [|discriminate].
    apply addOffset_spec in EA. destruct EA as [EA1 EA2].
    assert (Eu : u32 (off + n) = off + n) by (unfold u32; lia).
    assert (Ead : addr = p_off p + off) by (subst addr; unfold u32; lia).
    destruct (seg_write (w_dst (st_w st)) (p_seg p) addr _) as [m1| |] eqn:EW; cbn [bind] in ES; try discriminate.
    apply Ok_inj in ES. subst w1.
    assert (Ln : zlen (le_encode (Z.to_nat n) v) = n) by (apply zlen_le_encode; lia).
    apply seg_write_wrote in EW; [|lia|rewrite Ln; lia].
    split; [|exact P]. unfold objs_of. cbn [st_h st_w w_dst w_set_dst]. fold (objs_of st).
    apply (hinv_data_write (w_dst (st_w st)) (objs_of st) pads m1 p addr (le_encode (Z.to_nat n) v)); auto; try lia.
    + rewrite Ln. unfold obj_reg, obj_bytes. rewrite Ek. cbn [r_size]. rewrite TS, PW. lia.
    + intros q Hq. rewrite Ln. pose proof (struct_slots_after_data (bm_data (w_dst (st_w st))) p q Ek (conj Hd (conj Hm Hp')) Hq). lia.
  - (* SetBit *)
    destruct (hget st h) as [l p] eqn:EH. cbn [sub_op] in Hop.
    unfold dset. destruct (set_in (st_w st) l _) as [w1| |] eqn:ES; intros E Hns; injection E as <- _;
      try (exists pads; exact S).
    exists pads. assert (Hn0 : 0 <= n) by lia.
    assert (Hval : p_valid (as_struct p) = true).
    { unfold set_in in ES. destruct l.
      - unfold lift0, struct_set_bit in ES. destruct (negb (p_valid (as_struct p) && _)) eqn:EE; [discriminate|].
        destruct (p_valid (as_struct p)); auto; discriminate.
      - unfold struct_set_bit in ES. destruct (negb (p_valid (as_struct p) && _)) eqn:EE; [discriminate|].
        destruct (p_valid (as_struct p)); auto; discriminate. }
    assert (Eas : as_struct p = p /\ p_kind p = KStruct).
    { unfold as_struct, is_struct in *. destruct (p_valid p && _) eqn:EE; [|discriminate Hval].
      split; [reflexivity|]. destruct (p_kind p); auto; rewrite Bool.andb_false_r in EE; discriminate. }
    destruct Eas as [Eas Ek]. rewrite Eas in *.
    assert (HP : p = snd (hget st h)) by (rewrite EH; reflexivity).
    destruct (hget_obj st pads h S ltac:(rewrite <- HP; exact Hval)) as (Hin & Hmem & Hl). rewrite <- HP in Hin. rewrite EH in Hl. cbn in Hl. subst l.
    destruct (hi_good _ _ _ H p Hin) as [_ G]. pose proof G as (Sh & Gs & Gi & Go). unfold shape_ok in Sh. rewrite Ek in Sh.
    destruct Sh as (Hd & Hm & Hp'). destruct (in_seg_elim _ _ _ _ Gi) as (G1 & G2 & G3 & G4 & G5).
    assert (TS : totalSize (p_size p) = DataSize (p_size p) + 8 * PointerCount (p_size p)) by (unfold totalSize, pointerSize, u32; lia).
    unfold obj_reg, obj_bytes in G3, G4. rewrite Ek in G3, G4. cbn [r_size] in G3, G4. rewrite TS in G3, G4.
    assert (PW : padToWord (DataSize (p_size p) + 8 * PointerCount (p_size p)) = DataSize (p_size p) + 8 * PointerCount (p_size p)) by (unfold padToWord, u32; lia).
    rewrite PW in G3, G4. rewrite seg_len_bm in G4. pose proof (hi_small _ _ _ H (p_seg p)) as Hsm. unfold maxSegmentSize in Hsm.
    unfold set_in, lift0, struct_set_bit in ES.
    destruct (negb (p_valid p && (n <? u32 (DataSize (p_size p) * 8)))) eqn:EE; [discriminate|].
    assert (Hnb : n < DataSize (p_size p) * 8) by (unfold u32 in EE; destruct (p_valid p); cbn in EE; [lia|discriminate]).
    destruct (addOffset (p_off p) (bitOffset_offset n)) as [addr|] eqn:EA; [|discriminate].
    apply addOffset_spec in EA. destruct EA as [EA1 EA2]. unfold bitOffset_offset in *.
    assert (Ead : addr = p_off p + n / 8) by (subst addr; unfold u32; lia).
    destruct (readUintN _ addr 1) as [b| |]; cbn [bind] in ES; try discriminate.
    destruct (seg_write (w_dst (st_w st)) (p_seg p) addr _) as [m1| |] eqn:EW; cbn [bind] in ES; try discriminate.
    apply Ok_inj in ES. subst w1.
    apply seg_write_wrote in EW; [|lia|cbn; lia].
    split; [|exact P]. unfold objs_of. cbn [st_h st_w w_dst w_set_dst]. fold (objs_of st).
    apply (hinv_data_write (w_dst (st_w st)) (objs_of st) pads m1 p addr [set_bit_in b (n mod 8) v]); auto; try lia.
    + change (zlen [set_bit_in b (n mod 8) v]) with 1. unfold obj_reg, obj_bytes. rewrite Ek. cbn [r_size]. rewrite TS, PW. lia.
    + intros q Hq. change (zlen [set_bit_in b (n mod 8) v]) with 1.
      pose proof (struct_slots_after_data (bm_data (w_dst (st_w st))) p q Ek (conj Hd (conj Hm Hp')) Hq). lia.
  - (* UIntNList.Set *)
    destruct (hget st h) as [l p] eqn:EH. cbn [sub_op] in Hop.
    unfold dset. destruct (set_in (st_w st) l _) as [w1| |] eqn:ES; intros E Hns; injection E as <- _;
      try (exists pads; exact S).
    exists pads. assert (Hn : n = 1 \/ n = 2 \/ n = 4 \/ n = 8) by (apply width_b_ok; exact Hop).
    assert (PE : exists addr, primitiveElem true (as_list p) i (mkOS n 0) = Ok addr).
    { unfold set_in in ES. destruct l; [unfold lift0 in ES|]; unfold list_set_uint in ES;
        destruct (primitiveElem true (as_list p) i (mkOS n 0)) as [addr| |]; try discriminate; eauto. }
    destruct PE as [addr PE].
    assert (Hval : p_valid (as_list p) = true).
    { unfold primitiveElem in PE. destruct (p_valid (as_list p)); auto. cbn in PE. discriminate. }
    assert (Eas : as_list p = p /\ p_kind p = KList).
    { unfold as_list, is_list in *. destruct (p_valid p && _) eqn:EE; [|discriminate Hval].
      split; [reflexivity|]. destruct (p_kind p); auto; rewrite Bool.andb_false_r in EE; discriminate. }
    destruct Eas as [Eas Ek]. rewrite Eas in *.
    assert (HP : p = snd (hget st h)) by (rewrite EH; reflexivity).
    destruct (hget_obj st pads h S ltac:(rewrite <- HP; exact Hval)) as (Hin & Hmem & Hl). rewrite <- HP in Hin. rewrite EH in Hl. cbn in Hl. subst l.
    destruct (hi_good _ _ _ H p Hin) as [_ G]. pose proof G as (Sh & Gs & Gi & Go).
    pose proof Sh as Sh'. unfold shape_ok in Sh'. rewrite Ek in Sh'. destruct Sh' as (Hc & Hlen & Hk).
    (* the element address and the list's shape *)
    unfold primitiveElem in PE. rewrite Hval, Hc in PE. cbn [negb orb andb] in PE.
    destruct ((i <? 0) || (i >=? p_len p)) eqn:EI; [discriminate|].
    destruct (p_bit p) eqn:EB; [discriminate|]. cbn [orb] in PE.
    destruct (negb (os_eqb (p_size p) (mkOS n 0))) eqn:EO; [discriminate|]. cbn [orb] in PE.
    assert (Esz : p_size p = mkOS n 0).
    { unfold os_eqb in EO. cbn [DataSize PointerCount] in EO. destruct (p_size p) as [d c]. cbn in EO. f_equal; lia. }
    assert (TS : totalSize (p_size p) = n) by (rewrite Esz; unfold totalSize, pointerSize, u32; cbn; lia).
    rewrite TS in PE. destruct (element (p_off p) i n) as [a0|] eqn:EE; [|discriminate].
    apply Ok_inj in PE. subst a0.
    apply element_spec in EE. destruct EE as [Ead _].
    assert (OB : obj_bytes p = n * p_len p).
    { rewrite list_alloc_eq; auto. rewrite EB, Esz. cbn [DataSize PointerCount]. lia. }
    destruct (in_seg_elim _ _ _ _ Gi) as (G1 & G2 & G3 & G4 & G5). unfold obj_reg in G3, G4. cbn [r_size] in G3, G4. rewrite OB in G3, G4.
    unfold set_in, lift0, list_set_uint in ES. unfold primitiveElem in ES. rewrite Hval, Hc in ES. cbn [negb orb andb] in ES.
    rewrite EI, EB in ES. cbn [orb] in ES. rewrite EO in ES. cbn [orb] in ES. rewrite TS in ES.
    assert (EE2 : element (p_off p) i n = Some addr) by (apply element_spec; split; [exact Ead|unfold maxSegmentSize; pose proof (hi_small _ _ _ H (p_seg p)); unfold maxSegmentSize in *; rewrite seg_len_bm in G4; unfold padToWord, u32 in G4; nia]).
    rewrite EE2 in ES.
    destruct (seg_write (w_dst (st_w st)) (p_seg p) addr _) as [m1| |] eqn:EW; cbn [bind] in ES; try discriminate.
    apply Ok_inj in ES. subst w1.
    assert (Ln : zlen (le_encode (Z.to_nat n) v) = n) by (apply zlen_le_encode; lia).
    apply seg_write_wrote in EW; [|lia|rewrite Ln; lia].
    split; [|exact P]. unfold objs_of. cbn [st_h st_w w_dst w_set_dst]. fold (objs_of st).
    apply (hinv_data_write (w_dst (st_w st)) (objs_of st) pads m1 p addr (le_encode (Z.to_nat n) v)); auto; try lia.
    + rewrite Ln. unfold obj_reg. cbn [r_size]. rewrite OB.
      assert (K1 : i * n + n <= n * p_len p) by nia. assert (K2 : 0 <= n * p_len p <= 4294967288) by nia.
      set (k := n * p_len p) in *. clearbody k. unfold padToWord, u32. lia.
    + intros q Hq. exfalso. unfold slots, tgt_of, et_of in Hq. rewrite Ek, EB, Esz in Hq. cbn [PointerCount DataSize children] in Hq.
      change (0 =? 1) with false in Hq. cbv iota zeta in Hq.
      destruct Hn as [->|[->|[->| ->]]]; cbn in Hq; destruct Hq.
  - (* BitList.Set *)
    destruct (hget st h) as [l p] eqn:EH.
    unfold dset. destruct (set_in (st_w st) l _) as [w1| |] eqn:ES; intros E Hns; injection E as <- _;
      try (exists pads; exact S).
    exists pads.
    assert (Hval : p_valid (as_list p) = true /\ 0 <= i < p_len (as_list p) /\ p_bit (as_list p) = true).
    { unfold set_in in ES. destruct l; [unfold lift0 in ES|]; unfold bitlist_set in ES;
        destruct (negb (p_valid (as_list p)) || (i <? 0) || (i >=? p_len (as_list p))) eqn:E1; try discriminate;
        destruct (negb (p_bit (as_list p))) eqn:E2; try discriminate;
        (split; [destruct (p_valid (as_list p)); auto; discriminate|split; [lia|destruct (p_bit (as_list p)); auto; discriminate]]). }
    destruct Hval as (Hval & Hi & Hbit).
    assert (Eas : as_list p = p /\ p_kind p = KList).
    { unfold as_list, is_list in *. destruct (p_valid p && _) eqn:EE; [|discriminate Hval].
      split; [reflexivity|]. destruct (p_kind p); auto; rewrite Bool.andb_false_r in EE; discriminate. }
    destruct Eas as [Eas Ek]. rewrite Eas in *.
    assert (HP : p = snd (hget st h)) by (rewrite EH; reflexivity).
    destruct (hget_obj st pads h S ltac:(rewrite <- HP; exact Hval)) as (Hin & Hmem & Hl). rewrite <- HP in Hin. rewrite EH in Hl. cbn in Hl. subst l.
    destruct (hi_good _ _ _ H p Hin) as [_ G]. pose proof G as (Sh & Gs & Gi & Go).
    pose proof Sh as Sh'. unfold shape_ok in Sh'. rewrite Ek in Sh'. destruct Sh' as (Hc & Hlen & Hk).
    assert (OB : obj_bytes p = bitListSize (p_len p)) by (rewrite list_alloc_eq; auto; rewrite Hbit; reflexivity).
    destruct (in_seg_elim _ _ _ _ Gi) as (G1 & G2 & G3 & G4 & G5). unfold obj_reg in G3, G4. cbn [r_size] in G3, G4. rewrite OB in G3, G4.
    rewrite seg_len_bm in G4. pose proof (hi_small _ _ _ H (p_seg p)) as Hsm. unfold maxSegmentSize in Hsm.
    unfold bitListSize, padToWord, u32 in G3, G4.
    unfold set_in, lift0, bitlist_set in ES.
    destruct (negb (p_valid p) || (i <? 0) || (i >=? p_len p)); [discriminate|]. destruct (negb (p_bit p)); [discriminate|].
    unfold bitOffset_offset in ES.
    assert (Ead : u32 (p_off p + i / 8) = p_off p + i / 8) by (unfold u32; lia). rewrite Ead in ES.
    destruct (readUintN _ _ 1) as [b| |]; cbn [bind] in ES; try discriminate.
    destruct (seg_write (w_dst (st_w st)) (p_seg p) (p_off p + i / 8) _) as [m1| |] eqn:EW; cbn [bind] in ES; try discriminate.
    apply Ok_inj in ES. subst w1.
    apply seg_write_wrote in EW; [|lia|cbn; lia].
    split; [|exact P]. unfold objs_of. cbn [st_h st_w w_dst w_set_dst]. fold (objs_of st).
    apply (hinv_data_write (w_dst (st_w st)) (objs_of st) pads m1 p (p_off p + i / 8) [set_bit_in b (i mod 8) v]); auto; try lia.
    + change (zlen [set_bit_in b (i mod 8) v]) with 1. unfold obj_reg. cbn [r_size]. rewrite OB. unfold bitListSize, padToWord, u32. lia.
    + intros q Hq. exfalso. unfold slots, tgt_of, et_of in Hq. rewrite Ek, Hbit in Hq. cbn in Hq. destruct Hq.
  - (* SetPtr *)
    destruct (hget st h) as [l p] eqn:EH. destruct (hget st hs) as [ls q] eqn:EQ. cbn [sub_op] in Hop.
    destruct (is_src l) eqn:EL; [discriminate|].
    unfold pset. destruct (struct_set_ptr (e_fuel e) (st_w st) (as_struct p) i ls q) as [w1| |] eqn:ES; try discriminate.
    intros E Hns. injection E as <- _. cbn [st_w] in Hns.
    unfold struct_set_ptr in ES.
    destruct (negb (p_valid (as_struct p)) || (i >=? PointerCount (p_size (as_struct p)))) eqn:EE; [discriminate|].
    assert (Hval : p_valid (as_struct p) = true) by (destruct (p_valid (as_struct p)); auto; discriminate).
    assert (Eas : as_struct p = p /\ p_kind p = KStruct).
    { unfold as_struct, is_struct in *. destruct (p_valid p && _) eqn:EE2; [|discriminate Hval].
      split; [reflexivity|]. destruct (p_kind p); auto; rewrite Bool.andb_false_r in EE2; discriminate. }
    destruct Eas as [Eas Ek]. rewrite Eas in *.
    assert (HP : p = snd (hget st h)) by (rewrite EH; reflexivity).
    destruct (hget_obj st pads h S ltac:(rewrite <- HP; exact Hval)) as (Hin & _ & _). rewrite <- HP in Hin.
    destruct (hi_good _ _ _ H p Hin) as [_ G].
    assert (Hq0 : In (p_seg p, pointerAddress p i) ((0, 0) :: flat_map slots (objs_of st))).
    { right. apply in_flat_map. exists p. split; [exact Hin|].
      apply (struct_slot_in (bm_data (w_dst (st_w st)))); auto; [|lia].
      rewrite seg_len_bm. apply (hi_small _ _ _ H). }
    (* the source handle: null, or a table object of this message *)
    assert (HQ : q = snd (hget st hs)) by (rewrite EQ; reflexivity).
    assert (Hsrc : p_valid q = false \/ In q (objs_of st) /\ p_member q = false).
    { destruct (p_valid q) eqn:EVq; [right|left; reflexivity].
      destruct (hget_obj st pads hs S ltac:(rewrite <- HQ; exact EVq)) as (X1 & X2 & _). rewrite <- HQ in *. auto. }
    assert (ES' : write_ptr (e_fuel e) true (st_w st) (p_seg p) (pointerAddress p i) InDst q false = Ok w1).
    { destruct (p_valid q) eqn:EVq.
      - destruct (hget_obj st pads hs S ltac:(rewrite <- HQ; exact EVq)) as (_ & _ & X3). rewrite EQ in X3. cbn in X3. subst ls. exact ES.
      - rewrite <- (write_ptr_invalid_loc _ _ _ _ _ ls) by exact EVq. exact ES. }
    destruct (e_fuel e) as [|f]; [discriminate ES'|].
    destruct (write_ptr_hinv f (st_w st) (objs_of st) pads (p_seg p, pointerAddress p i) q w1 H Hq0 Hsrc ES' Hns) as [pads' H'].
    exists (pads ++ pads'). split; [exact H'|exact P].
  - (* SetRoot *)
    destruct (hget st hs) as [ls q] eqn:EQ.
    unfold pset. destruct (set_root (e_fuel e) (st_w st) ls q) as [w1| |] eqn:ES; try discriminate.
    intros E Hns. injection E as <- _. cbn [st_w] in Hns.
    unfold set_root, set_root_gen in ES.
    destruct (bm_segs (w_dst (st_w st))) as [|s0 r0] eqn:EB; [discriminate|].
    destruct (negb _); [discriminate|].
    assert (Hq0 : In (0, 0) ((0, 0) :: flat_map slots (objs_of st))) by (left; reflexivity).
    assert (HQ : q = snd (hget st hs)) by (rewrite EQ; reflexivity).
    assert (Hsrc : p_valid q = false \/ In q (objs_of st) /\ p_member q = false).
    { destruct (p_valid q) eqn:EVq; [right|left; reflexivity].
      destruct (hget_obj st pads hs S ltac:(rewrite <- HQ; exact EVq)) as (X1 & X2 & _). rewrite <- HQ in *. auto. }
    assert (ES' : write_ptr (e_fuel e) true (st_w st) 0 0 InDst q false = Ok w1).
    { destruct (p_valid q) eqn:EVq.
      - destruct (hget_obj st pads hs S ltac:(rewrite <- HQ; exact EVq)) as (_ & _ & X3). rewrite EQ in X3. cbn in X3. subst ls. exact ES.
      - rewrite <- (write_ptr_invalid_loc _ _ _ _ _ ls) by exact EVq. exact ES. }
    destruct (e_fuel e) as [|f]; [discriminate ES'|].
    destruct (write_ptr_hinv f (st_w st) (objs_of st) pads (0, 0) q w1 H Hq0 Hsrc ES' Hns) as [pads' H'].
    exists (pads ++ pads'). split; [exact H'|exact P].
  - (* read-only accessors *)
    cbn [sub_op] in Hop.
    set (l1 := match op_handle o with Some h => fst (hget st h) | None => l end).
    destruct (step (cfg_of e l1) all_fixes (w_segs (st_w st) l1) (mkRS (map snd (st_h st)) (w_rl (st_w st) l1)) o) as [rs' v0] eqn:EST.
    intros E Hns. injection E as <- _. exists pads.
    rewrite (ro_step_handles _ _ _ _ _ _ _ Hop EST). rewrite skipn_all2 by (rewrite map_length; lia). cbn [map]. rewrite app_nil_r.
    destruct (w_set_rl_dst (st_w st) l1 (rs_rl rs')) as (T1 & T2 & _).
    apply sinv_same_segs; auto.
  - (* round trip *)
    destruct (root _ _ _) as [r rl]. intros E _. injection E as <- _. exists pads. exact S.
  - (* dump *)
    destruct l; intros E _; injection E as <- _; exists pads; exact S.
Qed.

(* ------------------------------------------------------------------ op lists *)
Definition sub_prog (ops : list bop) : bool := forallb sub_op ops.
Definition seg_bound (st : bstate) : Prop := nsegs (w_dst (st_w st)) < 4294967296.

Theorem brun_hinv e : forall ops st pads,
  sinv st pads -> sub_prog ops = true -> Forall seg_bound (bstates e st ops) ->
  Forall (fun st' => exists pads', sinv st' pads') (bstates e st ops).
Proof.
  induction ops as [|o r IH]; intros st pads S Hp Hb; cbn [bstates] in *; constructor; eauto.
  cbn [sub_prog forallb] in Hp. apply andb_prop in Hp. destruct Hp as [Ho Hr].
  inversion Hb as [|? ? _ Hb']; subst.
  destruct (bstep e st o) as [[st1|] v] eqn:E; [|constructor].
  assert (B1 : seg_bound st1) by (destruct r; cbn [bstates] in Hb'; inversion Hb'; assumption).
  destruct (bstep_hinv e st pads o st1 v S Ho E B1) as [pads1 S1].
  eapply IH; eauto.
Qed.

(* ------------------------------------------------------------------ initial states *)
Lemma hinv_fresh m : inv m -> 0 < nsegs m < 4294967296 -> mem m 0 = repeat 0 8 ->
  (forall i, 0 < i -> mem m i = []) -> hinv m [] [].
Proof.
  intros Hi Hn H0 Hr.
  assert (Sm : segs_small m).
  { intros i. destruct (Z_le_gt_dec i 0) as [L|G].
    - assert (E : mem m i = mem m 0) by (unfold mem, get_seg; replace (Z.to_nat i) with O by lia; reflexivity).
      rewrite E, H0. cbn. unfold maxSegmentSize. lia.
    - rewrite Hr by lia. cbn. unfold maxSegmentSize. lia. }
  constructor; auto; try lia; try (intros i j Hij Hj; cbn in Hj; lia); try (intros ? []; fail); try (intros ? ? _ []; fail).
  - intros r [<-|[]]. unfold in_msg, root_reg. cbn [r_seg r_start r_size].
    apply in_seg_intro; rewrite ?zlen_bm, ?seg_len_bm; try lia. rewrite H0. cbn. lia.
  - intros q [<-|[]]. apply null_slot_ok. cbn [fst snd].
    rewrite word_at_sub; try lia; [|rewrite H0; cbn; lia]. rewrite H0. reflexivity.
Qed.

Definition all_empty (m : bmsg) : Prop := forall i, mem m i = [].

Lemma alloc_on_empty m sid sz m1 s1 a :
  inv m -> all_empty m -> 0 <= sid < nsegs m -> 0 <= sz -> alloc m sid sz = Ok (m1, s1, a) ->
  mem m1 s1 = repeat 0 (Z.to_nat (padToWord sz)) /\ 0 <= s1 < nsegs m1 /\ (forall i, 0 <= i -> i <> s1 -> mem m1 i = []).
Proof.
  intros [Hwf Har] He Hs Hz EA.
  pose proof (alloc_fresh _ _ _ _ _ _ Hwf Har Hs Hz EA) as AF. cbv zeta in AF.
  destruct AF as (A1 & _ & _ & _ & _ & A6 & _ & _ & _ & A10 & _).
  unfold all_empty, mem in *. split; [rewrite A6, (He s1); reflexivity|]. split; [unfold nsegs; exact A1|].
  intros i Hi Hne. rewrite A10 by assumption. apply He.
Qed.

Definition root_cap_ok (a : arena_spec) : Prop :=
  match a with ArRaw (c :: _) => 8 <= c < 4294967296 | ArRaw [] => False | _ => True end.

Lemma raw_all_empty k cs rl : all_empty (mkBM k (map (fun c => mkBS [] c) cs) [] rl).
Proof.
  intros i. unfold mem, get_seg. cbn [bm_segs].
  destruct (Nat.lt_ge_cases (Z.to_nat i) (length (map (fun c => mkBS [] c) cs))) as [L|G].
  - apply nth_In with (d := mkBS [] 0) in L. apply in_map_iff in L. destruct L as (c & <- & _). reflexivity.
  - rewrite nth_overflow by lia. reflexivity.
Qed.

Lemma create_hinv a rl m :
  arena_spec_wf a -> root_cap_ok a -> create a rl = Ok m -> nsegs m < 4294967296 -> hinv m [] [].
Proof.
  intros Hw Hr Hc Hn.
  assert (Fin : forall m1 m2 sid x, inv m1 -> all_empty m1 -> 0 < nsegs m1 -> alloc m1 0 8 = Ok (m2, sid, x) -> sid = 0 ->
                nsegs m2 < 4294967296 -> hinv m2 [] []).
  { intros m1 m2 sid x I1 E1 N1 EA Es Hn2. subst sid.
    assert (H08 : 0 <= 8) by lia. assert (H0 : 0 <= 0 < nsegs m1) by lia.
    destruct (alloc_on_empty _ _ _ _ _ _ I1 E1 H0 H08 EA) as (A1 & A2 & A3).
    destruct (alloc_new _ _ _ _ _ _ I1 H0 H08 EA) as (I2 & _).
    apply hinv_fresh; auto; [lia|]. intros i Hi. apply A3; lia. }
  unfold create in Hc.
  assert (NM : forall k caps, caps_ok caps -> new_message k caps rl = Ok m -> hinv m [] []).
  { intros k caps Hcaps. unfold new_message. cbv zeta.
    match goal with |- context [bind ?X _] => destruct X as [m1| |] eqn:E1; cbn [bind]; try discriminate end.
    assert (I1 : inv m1 /\ all_empty m1 /\ 0 < nsegs m1).
    { destruct caps as [|c [|c2 r]]; try discriminate.
      - destruct k.
        + apply Ok_inj in E1. subst m1. split; [apply (raw_inv ASingle [0] rl); [repeat constructor; lia|reflexivity]|].
          split; [apply (raw_all_empty ASingle [0] rl)|unfold nsegs, zlen; cbn; lia].
        + unfold allocSegment in E1. cbn [bm_arena bm_segs map multi_find] in E1.
          destruct (8 >? maxAllocSize) eqn:E8; [discriminate|].
          destruct (nextAlloc 0 maxInt64 8) as [n| |] eqn:EN; cbn [bind] in E1; try discriminate.
          apply Ok_inj in E1. cbn [fst app] in E1. subst m1.
          assert (Hn0 : 0 <= n) by (apply (nextAlloc_facts 0 maxInt64 8 n); auto; lia).
          split; [apply (raw_inv AMulti [n] rl); [repeat constructor; lia|discriminate]|].
          split; [apply (raw_all_empty AMulti [n] rl)|unfold nsegs, zlen; cbn; lia].
      - apply Ok_inj in E1. subst m1. split; [apply raw_inv; auto|]. split; [apply raw_all_empty|unfold nsegs, zlen; cbn; lia]. }
    destruct I1 as (I1 & E1' & N1).
    destruct (alloc m1 0 8) as [[[m2 sid] x]| |] eqn:EA; cbn [bind]; try discriminate.
    destruct (sid =? 0) eqn:Es; [|discriminate]. intros X. apply Ok_inj in X. subst m2.
    apply (Fin m1 m sid x); auto. lia. }
  destruct a as [[c|]|[c|]|cs]; cbn [arena_spec_wf root_cap_ok] in *.
  - apply (NM ASingle [c]); auto. repeat constructor. exact Hw.
  - apply (NM ASingle []); auto. constructor.
  - apply (NM AMulti [c]); auto. repeat constructor. exact Hw.
  - apply (NM AMulti []); auto. constructor.
  - destruct cs as [|c r]; [destruct Hr|].
    destruct (newStruct (raw_message AMulti (c :: r) rl) 0 (mkOS 8 0)) as [[m1 p]| |] eqn:EN; cbn [bind] in Hc; try discriminate.
    apply Ok_inj in Hc. cbn [fst] in Hc. subst m1.
    unfold newStruct in EN. cbn [os_isValid negb DataSize PointerCount] in EN.
    change (negb (8 <=? 65535 * 8)) with false in EN. cbv iota in EN.
    change (totalSize (mkOS (padToWord 8) 0)) with 8 in EN.
    destruct (alloc (raw_message AMulti (c :: r) rl) 0 8) as [[[m2 sid] x]| |] eqn:EA; cbn [bind] in EN; try discriminate.
    apply Ok_inj in EN. injection EN as -> _.
    pose proof (raw_inv AMulti (c :: r) rl Hw ltac:(discriminate)) as I0.
    assert (Es : sid = 0).
    { eapply alloc_in_place; [|exact EA]. unfold raw_message, get_seg, hasCapacity, blen, zlen, u32. cbn. inversion Hw; subst. lia. }
    apply (Fin (raw_message AMulti (c :: r) rl) m sid x); auto.
    + apply raw_all_empty.
    + unfold nsegs, raw_message, zlen. cbn [bm_segs map length]. lia.
Qed.

(* [heap_inv_sublang]: every arena configuration that has a root word, every program of the
   sub-language, every state the interpreter reaches while the message has fewer than 2^32
   segments: the pool is the object table and the pointer-level invariant holds *)
Theorem heap_inv_sublang a cfgd cfgs ncaps fuel src ops m :
  arena_spec_wf a -> root_cap_ok a -> create a (init_rlimit cfgd) = Ok m -> sub_prog ops = true ->
  let st0 := mkBSt (mkW m src (init_rlimit cfgs)) [] in
  Forall seg_bound (bstates (mkEnv cfgd cfgs ncaps fuel) st0 ops) ->
  Forall (fun st => exists pads, sinv st pads) (bstates (mkEnv cfgd cfgs ncaps fuel) st0 ops).
Proof.
  intros Ha Hr Hc Hp st0 Hb.
  assert (B0 : seg_bound st0) by (destruct ops; cbn [bstates] in Hb; inversion Hb; assumption).
  apply (brun_hinv _ ops st0 []); auto.
  split; [|constructor]. unfold objs_of. cbn. eapply create_hinv; eauto.
Qed.
