(* C16, closure of a deep copy inside one message - definitions and the frame lemmas.
   [CL m T P L0 N]: every pointer slot of the object table T (and the root slot) that lies in the
   area at or beyond the lengths L0 holds - in the sense of [slot_ok], i.e. as bytes of m - the
   null word, the inline empty struct, a capability index, or a pointer placed (through pads of P)
   to an entry of N.  The copy theorems of CopyClosure.v take N = the entries created by the call
   and L0 = the segment lengths before the call. *)
From CV Require Import Core.Builder Core.ReaderFacts Core.ArithFacts Core.BuilderFacts Core.AllocProofs
  Core.WritePtrProofs Core.HeapProofs Core.CopyProofs Core.BuildOps Core.BuildValid Core.BuildInv Core.HeapInv Core.ReadBridge
  Core.HeapOps Core.HeapCopy.
From Coq Require Import ZifyBool ZifyNat.
Open Scope Z_scope.

Ltac Zify.zify_post_hook ::= Z.div_mod_to_equations.

Definition CL (m : bmsg) (T : list Ptr) (P : list region) (L0 : Z -> Z) (N : list Ptr) : Prop :=
  forall s, In s ((0, 0) :: flat_map slots T) -> L0 (fst s) <= snd s -> slot_ok (bm_data m) P N s.

Definition lenf (m : bmsg) : Z -> Z := fun i => zlen (mem m i).

(* entries that start at or beyond the lengths L *)
Definition freshL (L : Z -> Z) (eo : list Ptr) : Prop := forall h, In h eo -> L (p_seg h) <= obj_start h.

Definition le_len (L0 : Z -> Z) (m : bmsg) : Prop := forall i, 0 <= i -> L0 i <= zlen (mem m i).

Lemma slot_ok_weaken (ms : segs) P N P' N' s : incl P P' -> incl N N' -> slot_ok ms P N s -> slot_ok ms P' N' s.
Proof.
  intros IP IN [S|[S|[(h & ps & raw & ol & Hh & Ips & Er & Hnz & Pl)|S]]].
  - left. exact S.
  - right. left. exact S.
  - right. right. left. exists h, ps, raw, ol. split; [apply IN, Hh|]. split; [intros x Hx; apply IP, Ips, Hx|].
    split; [exact Er|]. split; [exact Hnz|exact Pl].
  - right. right. right. exact S.
Qed.

Lemma CL_weaken m T P L0 N P' N' : incl P P' -> incl N N' -> CL m T P L0 N -> CL m T P' L0 N'.
Proof. intros IP IN C s Hs Ha. apply (slot_ok_weaken _ P N); auto. Qed.

Lemma CL_same_data m m' T P L0 N : bm_data m' = bm_data m -> CL m T P L0 N -> CL m' T P L0 N.
Proof. intros E C s Hs Ha. rewrite E. apply C; auto. Qed.

(* writes that spare every table slot and every pad *)
Lemma CL_frame m T P m' (R : Z -> Z -> Prop) L0 N :
  keeps m m' R -> nsegs m <= nsegs m' ->
  (forall q, In q ((0, 0) :: flat_map slots T) -> forall k, snd q <= k < snd q + 8 -> ~ R (fst q) k) ->
  (forall r, In r P -> forall k, r_start r <= k < r_start r + r_size r -> ~ R (r_seg r) k) ->
  CL m T P L0 N -> CL m' T P L0 N.
Proof.
  intros K Hn Hq Hp C s Hs Ha. apply (slot_ok_frame m m' R P N); auto; try apply incl_refl.
Qed.

(* a write of one table slot q, possibly with new entries and pads *)
Lemma CL_step m objs pads m' q L0 N eo ep :
  hinv m objs pads -> In q ((0, 0) :: flat_map slots objs) ->
  keeps m m' (Rword (fst q) (snd q)) -> nsegs m <= nsegs m' ->
  CL m objs pads L0 N ->
  (L0 (fst q) <= snd q -> slot_ok (bm_data m') (pads ++ ep) (N ++ eo) q) ->
  (forall s, In s (flat_map slots eo) -> L0 (fst s) <= snd s -> slot_ok (bm_data m') (pads ++ ep) (N ++ eo) s) ->
  CL m' (objs ++ eo) (pads ++ ep) L0 (N ++ eo).
Proof.
  intros H Hq K Hn C Sq Se s Hs Ha.
  assert (Hs' : In s ((0, 0) :: flat_map slots objs) \/ In s (flat_map slots eo)).
  { destruct Hs as [<-|Hs]; [left; left; reflexivity|]. rewrite flat_map_app in Hs. apply in_app_or in Hs.
    destruct Hs as [Hs|Hs]; [left; right; exact Hs|right; exact Hs]. }
  destruct Hs' as [Hs'|Hs']; [|apply Se; auto].
  destruct (slot_geometry _ _ _ _ H Hq) as (Q1 & Q2 & Q3 & Q4 & (rq & Rq1 & Rq2 & Rq3 & Rq4)).
  destruct (slot_geometry _ _ _ _ H Hs') as (P1 & P2 & P3 & P4 & _).
  assert (DEC : (fst s = fst q /\ snd s = snd q) \/ ~ (fst s = fst q /\ snd s = snd q)) by lia.
  destruct DEC as [[E1 E2]|NE].
  - assert (Eq : s = q) by (destruct q, s; cbn in *; congruence). subst s. apply Sq. exact Ha.
  - apply (slot_ok_frame m m' (Rword (fst q) (snd q)) pads N); auto.
    + intros k Hk [X1 X2]. lia.
    + intros r Hr k Hk [X1 X2].
      pose proof (hi_cross _ _ _ H _ _ Rq1 Hr) as D. pose proof (hi_pads _ _ _ H r Hr) as Pz.
      destruct r as [rs rst rsz]. destruct rq as [qs qst qsz]. cbv [reg_disjoint r_seg r_start r_size] in *. lia.
    + intros x Hx. apply in_or_app. left. exact Hx.
    + intros x Hx. apply in_or_app. left. exact Hx.
Qed.

(* a new table entry whose slots are null *)
Lemma CL_add_obj m objs pads m' h L0 N :
  keeps m m' Rnone -> nsegs m <= nsegs m' -> CL m objs pads L0 N ->
  (forall q, In q (slots h) -> word_at (bm_data m') (fst q) (snd q) = Some 0) ->
  CL m' (objs ++ [h]) pads L0 (N ++ [h]).
Proof.
  intros K Hn C Z s Hs Ha.
  assert (Hs' : In s ((0, 0) :: flat_map slots objs) \/ In s (slots h)).
  { destruct Hs as [<-|Hs]; [left; left; reflexivity|]. rewrite flat_map_app in Hs. apply in_app_or in Hs.
    destruct Hs as [Hs|Hs]; [left; right; exact Hs|]. cbn in Hs. rewrite app_nil_r in Hs. right. exact Hs. }
  destruct Hs' as [Hs'|Hs'].
  - apply (slot_ok_frame m m' Rnone pads N); auto.
    + apply incl_refl.
    + intros x Hx. apply in_or_app. left. exact Hx.
  - left. apply Z. exact Hs'.
Qed.

(* the slots of a freshly allocated object are null words (alloc zero-fills) *)
Lemma alloc_obj_null m objs pads sid sz m1 s1 a h :
  hinv m objs pads -> 0 <= sid < nsegs m -> 0 <= sz -> alloc m sid sz = Ok (m1, s1, a) ->
  nsegs m1 < 4294967296 ->
  p_valid h = true -> p_seg h = s1 -> p_off h = a -> shape_ok h -> obj_bytes h = sz ->
  (p_kind h = KList -> p_comp h = false) ->
  forall q, In q (slots h) -> word_at (bm_data m1) (fst q) (snd q) = Some 0.
Proof.
  intros H Hs Hz EA Hns Hv Es Eo Sh Eb Hnc.
  assert (Hc : p_comp h = false).
  { unfold shape_ok in Sh. destruct (p_kind h); [tauto|auto|contradiction]. }
  assert (OS : obj_start h = a) by (unfold obj_start; rewrite Hc; exact Eo).
  pose proof (hi_inv _ _ _ H) as Hinv. pose proof Hinv as [Hwf Har].
  destruct (alloc_keeps _ _ _ _ _ _ Hinv Hs Hz EA) as (K & I1 & N1 & S1 & AD & L1 & _ & _ & _ & MX).
  pose proof (alloc_fresh _ _ _ _ _ _ Hwf Har Hs Hz EA) as AF. cbv zeta in AF.
  destruct AF as (_ & _ & A3 & _ & _ & A6 & _).
  pose proof (zlen_nonneg (mem m s1)) as Z0. pose proof (padToWord_nonneg sz) as P0. unfold maxSegmentSize in MX.
  assert (Gd : good (bm_data m1) h).
  { split; [exact Sh|]. split; [rewrite Es; lia|]. split.
    - rewrite OS. unfold obj_reg. cbn [r_size]. rewrite Eb, Es. unfold blen in A3.
      apply in_seg_intro; rewrite ?zlen_bm, ?seg_len_bm; try lia.
    - rewrite Eo. lia. }
  intros q Hq. destruct (slot_in_obj _ _ _ Hv Gd Hq) as (S1' & S2 & S3 & _).
  unfold obj_reg in S3. cbn [r_size] in S3. rewrite Eb, OS, Eo in *. rewrite Es in S1'.
  rewrite S1'. rewrite word_at_sub; try lia.
  unfold mem at 1. rewrite A6. fold (mem m s1). rewrite sub_app_zeros; try lia.
  now rewrite le_decode_zeros.
Qed.

Lemma alloc_comp_null m objs pads sid sz m1 s1 a tag m2 h :
  hinv m objs pads -> 0 <= sid < nsegs m -> 0 <= sz -> alloc m sid sz = Ok (m1, s1, a) ->
  writeRawPointer m1 s1 a tag = Ok m2 -> rawStructPointer (p_len h) (p_size h) = Some tag ->
  nsegs m1 < 4294967296 ->
  p_valid h = true -> p_seg h = s1 -> p_off h = a + 8 -> shape_ok h -> obj_bytes h = sz ->
  p_kind h = KList -> p_comp h = true ->
  keeps m m2 Rnone /\
  forall q, In q (slots h) -> word_at (bm_data m2) (fst q) (snd q) = Some 0.
Proof.
  intros H Hs Hz EA EW Etag Hns Hv Es Eo Sh Eb Ek Hc.
  assert (OS : obj_start h = a) by (unfold obj_start; rewrite Hc; lia).
  assert (Hsz8 : 8 <= padToWord sz /\ word64 tag).
  { pose proof Sh as Sh'. unfold shape_ok in Sh'. rewrite Ek in Sh'. destruct Sh' as (Hn & [(X & _)|(_ & Hb & Hw & Ht)]); [congruence|].
    unfold obj_bytes in Eb. rewrite Ek in Eb. rewrite (list_alloc_comp h) in Eb by (auto; lia).
    assert (W0 : 0 <= wc_of h) by (unfold wc_of; destruct Hw as (Hd & Hm & Hp); lia).
    assert (K0 : 0 <= p_len h * wc_of h) by nia. split; [subst sz; unfold padToWord, u32; lia|].
    destruct (fields_tag (p_len h) (p_size h) Hw Hn) as (tag' & Etag' & T0 & _). unfold word64. congruence. }
  destruct Hsz8 as [Hsz8 Htag64].
  pose proof (hi_inv _ _ _ H) as Hinv. pose proof Hinv as [Hwf Har].
  destruct (alloc_keeps _ _ _ _ _ _ Hinv Hs Hz EA) as (K & I1 & N1 & S1 & AD & L1 & _ & _ & _ & MX).
  pose proof (alloc_fresh _ _ _ _ _ _ Hwf Har Hs Hz EA) as AF. cbv zeta in AF.
  destruct AF as (_ & _ & A3 & _ & _ & A6 & _).
  pose proof (zlen_nonneg (mem m s1)) as Z0. pose proof (padToWord_nonneg sz) as P0. unfold maxSegmentSize in MX.
  assert (S10 : 0 <= s1) by lia.
  destruct (writeRawPointer_keeps _ _ _ _ _ S10 I1 EW) as (K2 & I2 & N2 & _).
  assert (W := EW). apply writeRawPointer_wrote in W; [|lia].
  assert (L2 : forall i, 0 <= i -> zlen (mem m2 i) = zlen (mem m1 i)) by (intros i Hi; apply (wrote_len _ _ _ _ _ i W Hi)).
  assert (Gd1 : good (bm_data m1) h).
  { split; [exact Sh|]. split; [rewrite Es; lia|]. split.
    - rewrite OS. unfold obj_reg. cbn [r_size]. rewrite Eb, Es. unfold blen in A3.
      apply in_seg_intro; rewrite ?zlen_bm, ?seg_len_bm; try lia.
    - rewrite Eo. lia. }
  destruct (tag_in_reg _ _ Hv Gd1 Ek Hc) as [T1 T2]. unfold obj_reg in T2. cbn [r_size] in T2. rewrite Eb in T2.
  assert (K02 : keeps m m2 Rnone).
  { apply (keeps_step m m1 m2 Rnone (Rword s1 a)); auto. intros i k Hi Hk [X1 X2]. subst i. lia. }
  split; [exact K02|].
  intros q Hq. destruct (slot_in_obj _ _ _ Hv Gd1 Hq) as (S1' & S2 & S3 & _).
  unfold obj_reg in S3. cbn [r_size] in S3. rewrite Eb, OS, Eo in *. rewrite Es in S1'.
  rewrite S1'. rewrite word_at_sub; try lia; [|rewrite L2 by lia; lia].
  assert (E12 : sub (mem m2 s1) (snd q) 8 = sub (mem m1 s1) (snd q) 8).
  { apply (keeps_sub m1 m2 (Rword s1 a)); auto; try lia. intros k Hk [_ X]. lia. }
  rewrite E12. unfold mem at 1. rewrite A6. fold (mem m s1). rewrite sub_app_zeros; try lia.
  now rewrite le_decode_zeros.
Qed.

(* the three inline encodings: what the slot holds afterwards *)
Definition inline_word (v : Z) : Prop :=
  v = 0 \/ v = empty_struct_word \/ exists idx, 0 <= idx < 4294967296 /\ v = rawInterfacePointer idx.

Lemma write_inline_word m objs pads m' q v :
  hinv m objs pads -> In q ((0, 0) :: flat_map slots objs) -> inline_word v ->
  writeRawPointer m (fst q) (snd q) v = Ok m' ->
  (forall P N, slot_ok (bm_data m') P N q) /\ keeps m m' (Rword (fst q) (snd q)) /\ nsegs m' = nsegs m.
Proof.
  intros H Hq Hv HW.
  destruct (slot_geometry _ _ _ _ H Hq) as (Q1 & Q2 & Q3 & Q4 & _).
  assert (Q0 : 0 <= fst q) by lia.
  destruct (writeRawPointer_keeps _ _ _ _ _ Q0 (hi_inv _ _ _ H) HW) as (K & I' & N & _).
  assert (W := HW). apply writeRawPointer_wrote in W; [|lia].
  split; [|split; [exact K|exact N]].
  assert (Hw64 : word64 v).
  { destruct Hv as [-> |[-> |(idx & Hi & ->)]]; unfold word64, empty_struct_word; try lia.
    rewrite rawInterfacePointer_sum by assumption. lia. }
  assert (RD : word_at (bm_data m') (fst q) (snd q) = Some v).
  { apply word_at_mem; [rewrite N; exact Q1| |pose proof (hi_small _ _ _ H (fst q)); unfold maxSegmentSize in *; lia].
    apply (wrote_word_back m m'); auto. pose proof (hi_small _ _ _ H (fst q)). unfold maxSegmentSize in *. lia. }
  intros P N0. destruct Hv as [-> |[-> |(idx & Hi & ->)]]; [left; exact RD|right; left; exact RD|].
  right. right. right. exists idx. auto.
Qed.

Lemma write_ptr_inline f w q src fc w' :
  (p_valid src = false \/ p_kind src = KStruct /\ os_isZero (p_size src) = true \/
   p_kind src = KIface /\ 0 <= p_len src < 4294967296) ->
  write_ptr (S f) true w (fst q) (snd q) InDst src fc = Ok w' ->
  exists v, inline_word v /\ writeRawPointer (w_dst w) (fst q) (snd q) v = Ok (w_dst w').
Proof.
  intros Hsrc HW. unfold write_ptr in HW. cbn [write_ptr_gen] in HW.
  destruct (p_valid src) eqn:EV; cbn [negb] in HW.
  2:{ unfold lift0 in HW. destruct (writeRawPointer (w_dst w) (fst q) (snd q) 0) as [m'| |] eqn:EW; cbn [bind] in HW; try discriminate.
      apply Ok_inj in HW. subst w'. exists 0. split; [left; reflexivity|exact EW]. }
  destruct Hsrc as [X|[[EK0 EZ0]|[EKc Hidx]]]; [discriminate| |].
  - rewrite EK0, EZ0 in HW. rewrite empty_struct_word_eq in HW. cbn [of_opt_panic bind] in HW. unfold lift0 in HW.
    destruct (writeRawPointer (w_dst w) (fst q) (snd q) empty_struct_word) as [m'| |] eqn:EW; cbn [bind] in HW; try discriminate.
    apply Ok_inj in HW. subst w'. exists empty_struct_word. split; [right; left; reflexivity|exact EW].
  - rewrite EKc in HW. cbn [is_src] in HW. unfold lift0 in HW.
    destruct (writeRawPointer (w_dst w) (fst q) (snd q) (rawInterfacePointer (p_len src))) as [m'| |] eqn:EW; cbn [bind] in HW; try discriminate.
    apply Ok_inj in HW. subst w'. exists (rawInterfacePointer (p_len src)). split; [|exact EW].
    right. right. exists (p_len src). auto.
Qed.

(* a loop whose steps extend the tables, for any invariant relative to the extension *)
Lemma fold_threadX (I : world -> Prop) (T : world -> list Ptr -> list region -> Prop) l (f : world -> Z -> res world) :
  (forall wa j wb, In j l -> I wa -> f wa j = Ok wb -> I wb /\ nsegs (w_dst wa) <= nsegs (w_dst wb)) ->
  (forall wa eo ep, T wa eo ep -> I wa) ->
  (forall wa eo ep j wb, In j l -> T wa eo ep -> f wa j = Ok wb -> nsegs (w_dst wb) < B32 ->
     exists eo' ep', T wb (eo ++ eo') (ep ++ ep')) ->
  forall wa eo ep w2, T wa eo ep -> fold_res l wa f = Ok w2 -> nsegs (w_dst w2) < B32 ->
  exists eo' ep', T w2 (eo ++ eo') (ep ++ ep').
Proof.
  induction l as [|j r IH]; intros Hm HI Hs wa eo ep w2 T0 H Hb; cbn [fold_res] in H.
  - apply Ok_inj in H. subst. exists [], []. now rewrite !app_nil_r.
  - destruct (f wa j) as [wb| |] eqn:E; cbn [bind] in H; try discriminate.
    destruct (Hm wa j wb (or_introl eq_refl) (HI _ _ _ T0) E) as [Ib Nb].
    destruct (fold_mono I r f (fun wa j wb Hj => Hm wa j wb (or_intror Hj)) wb w2 Ib H) as [_ N2].
    destruct (Hs wa eo ep j wb (or_introl eq_refl) T0 E ltac:(lia)) as (eo1 & ep1 & T1).
    destruct (IH (fun wa j wb Hj => Hm wa j wb (or_intror Hj)) HI
                 (fun wa eo ep j wb Hj => Hs wa eo ep j wb (or_intror Hj)) wb (eo ++ eo1) (ep ++ ep1) w2) as (eo2 & ep2 & T2); auto.
    exists (eo1 ++ eo2), (ep1 ++ ep2). rewrite <- !app_assoc in T2. exact T2.
Qed.

Lemma freshL_app L eo eo' : freshL L eo -> freshL L eo' -> freshL L (eo ++ eo').
Proof. intros A B h Hh. apply in_app_or in Hh. destruct Hh; auto. Qed.

Lemma freshL_mono (L L' : Z -> Z) eo : (forall h, In h eo -> 0 <= p_seg h) -> (forall i, 0 <= i -> L i <= L' i) -> freshL L' eo -> freshL L eo.
Proof. intros Hs Hl F h Hh. specialize (F h Hh). specialize (Hl (p_seg h) (Hs h Hh)). lia. Qed.
