(* C05/C04 tree layer, part 1: the strict resolver of BuildValid.v (target of the table invariant
   [hinv]) and the resolver of the encoding specification (Spec/Spec.v [spec_resolve], strict
   mode) agree on every pointer word the former accepts, for ANY segment list (no byte range, no
   invariant needed): [resolve_ptr_spec].  Corollary over the table invariant: every pointer
   slot of every table object and the root word are resolved by the SPECIFICATION decoder to
   null, a capability, a zero-sized target, or exactly the specification target of ONE table
   object ([hinv_slot_spec]).  Proofs only; no new model definitions besides [conv]. *)
From CV Require Import Core.Builder Core.ReaderFacts Core.BuilderFacts Core.HeapProofs Core.BuildValid Core.HeapInv.
From CV Require Spec.Spec Spec.SpecProofs.
From Coq Require Import ZifyBool ZifyNat Lia.
Open Scope Z_scope.

Ltac Zify.zify_post_hook ::= Z.div_mod_to_equations.

Module S := CV.Spec.Spec.

Ltac inj H := apply (f_equal fst) in H; cbn [fst] in H; match type of H with _ = ?t => subst t end.

(* the specification target that corresponds to a target of the validator (byte addresses
   become word addresses; a capability index is the C field, 32 bits) *)
Definition conv (t : target) : S.target :=
  match t with
  | GNull => S.TgtNull
  | GCap i => S.TgtCap (i mod 4294967296)
  | GStruct s a dw pc => S.TgtStruct s (a / 8) dw pc
  | GList s a et n => S.TgtList s (a / 8) et n 0 0
  | GComp s a cnt dw pc => S.TgtList s (a / 8) 7 cnt dw pc
  | GBad _ => S.TgtNull
  end.

Lemma word_at_spec (ms : segs) sid off w :
  word_at ms sid off = Some w -> off mod 8 = 0 ->
  S.seg_at ms sid = Some (nth (Z.to_nat sid) ms []) /\
  S.in_words (nth (Z.to_nat sid) ms []) (off / 8) 1 = true /\
  S.word_at (nth (Z.to_nat sid) ms []) (off / 8) = w.
Proof.
  unfold word_at. cbv zeta. intros H Hm.
  destruct ((0 <=? sid) && (sid <? zlen ms)) eqn:E1; [|discriminate].
  destruct ((0 <=? off) && (off + 8 <=? zlen (nth (Z.to_nat sid) ms []))) eqn:E2; [|discriminate].
  assert (HH : le_decode (firstn 8 (skipn (Z.to_nat off) (nth (Z.to_nat sid) ms []))) = w) by congruence.
  clear H. unfold zlen in *.
  split; [|split].
  - unfold S.seg_at. unfold segs, seg in *. match goal with |- context [if ?c then None else _] => destruct c eqn:E3 end; [lia|reflexivity].
  - unfold S.in_words, S.blen. lia.
  - unfold S.word_at. rewrite <- HH. rewrite CV.Spec.SpecProofs.le_decode_firstn_skipn by lia.
    f_equal. lia.
Qed.

Lemma in_seg_spec (ms : segs) sid start size :
  in_seg ms sid start size = true ->
  S.seg_at ms sid = Some (nth (Z.to_nat sid) ms []) /\ 0 <= start /\ start mod 8 = 0 /\ 0 <= size /\
  start + size <= S.blen (nth (Z.to_nat sid) ms []).
Proof.
  unfold in_seg, seg_len, S.blen, zlen. intros H.
  split; [|lia].
  unfold S.seg_at. unfold segs, seg in *. match goal with |- context [if ?c then None else _] => destruct c eqn:E3 end; [lia|reflexivity].
Qed.

Lemma et_cases w : f_C w = 0 \/ f_C w = 1 \/ f_C w = 2 \/ f_C w = 3 \/ f_C w = 4 \/ f_C w = 5 \/ f_C w = 6 \/ f_C w = 7.
Proof. unfold f_C, two32. lia. Qed.

(* a struct / list pointer word (or tag word): same object *)
Lemma decode_obj_spec (ms : segs) sid base w t rs :
  decode_obj ms sid base w = (t, rs) -> is_bad t = false -> base mod 8 = 0 ->
  S.spec_obj true ms sid (base / 8 + S.off30 w) w = Some (conv t).
Proof.
  unfold decode_obj. cbv zeta. intros H Hb Hm.
  assert (EO : S.off30 w = f_off w) by reflexivity.
  assert (EA : S.ptr_kind w = f_A w) by reflexivity.
  unfold S.spec_obj. rewrite EA, EO.
  destruct (f_A w =? 0) eqn:EA0.
  - (* struct *)
    destruct (in_seg ms sid (base + 8 * f_off w) (8 * (f_dw w + f_pc w))) eqn:EI;
      [|inj H; discriminate].
    inj H. clear Hb. destruct (in_seg_spec _ _ _ _ EI) as (Sg & I1 & I2 & I3 & I4).
    rewrite Sg. change (S.st_dwords w) with (f_dw w). change (S.st_pcount w) with (f_pc w).
    assert (IW : S.in_words (nth (Z.to_nat sid) ms []) (base / 8 + f_off w) (f_dw w + f_pc w) = true)
      by (unfold S.in_words; lia).
    rewrite IW. cbn [conv]. do 2 f_equal. lia.
  - change (S.ls_esz w) with (f_C w). change (S.ls_count w) with (f_D w).
    destruct (f_C w <? 7) eqn:E7.
    + (* plain list *)
      destruct (in_seg ms sid (base + 8 * f_off w) ((f_D w * et_bits (f_C w) + 63) / 64 * 8)) eqn:EI;
        [|inj H; discriminate].
      inj H. clear Hb. destruct (in_seg_spec _ _ _ _ EI) as (Sg & I1 & I2 & I3 & I4).
      rewrite Sg. destruct (f_C w =? 7) eqn:E77; [lia|].
      assert (ND : 0 <= f_D w) by (unfold f_D; lia).
      assert (IB : S.in_bytes (nth (Z.to_nat sid) ms []) (base / 8 + f_off w) (S.list_bytes (f_C w) (f_D w)) = true).
      { unfold S.in_bytes. revert I4. generalize (S.blen (nth (Z.to_nat sid) ms [])). intros L I4.
        destruct (et_cases w) as [C|[C|[C|[C|[C|[C|[C|C]]]]]]]; rewrite C in *;
          unfold et_bits, S.list_bytes in *; cbn [Z.eqb Pos.eqb] in *; lia. }
      rewrite IB. cbn [conv]. do 2 f_equal. lia.
    + (* composite list *)
      destruct (in_seg ms sid (base + 8 * f_off w) (8 + 8 * f_D w)) eqn:EI; cbn [negb] in H;
        [|inj H; discriminate].
      destruct (word_at ms sid (base + 8 * f_off w)) as [tag|] eqn:EW; [|inj H; discriminate].
      destruct (f_A tag =? 0) eqn:ET; cbn [negb] in H; [|inj H; discriminate].
      destruct ((tag / 4) mod two30 * (f_dw tag + f_pc tag) =? f_D w) eqn:EC; cbn [negb] in H;
        [|inj H; discriminate].
      inj H. clear Hb. destruct (in_seg_spec _ _ _ _ EI) as (Sg & I1 & I2 & I3 & I4).
      destruct (word_at_spec _ _ _ _ EW I2) as (_ & _ & WS).
      rewrite Sg. destruct (f_C w =? 7) eqn:E77; [|pose proof (et_cases w); lia].
      replace ((base + 8 * f_off w) / 8) with (base / 8 + f_off w) in WS by lia.
      assert (IW : S.in_words (nth (Z.to_nat sid) ms []) (base / 8 + f_off w) (1 + f_D w) = true)
        by (unfold S.in_words; lia).
      rewrite IW, WS. change (S.ptr_kind tag) with (f_A tag). rewrite ET.
      change (S.tag_count tag) with ((tag / 4) mod two30).
      change (S.st_dwords tag) with (f_dw tag). change (S.st_pcount tag) with (f_pc tag).
      assert (IW2 : S.in_words (nth (Z.to_nat sid) ms []) (base / 8 + f_off w + 1)
                      ((tag / 4) mod two30 * (f_dw tag + f_pc tag)) = true).
      { unfold S.in_words. apply Z.eqb_eq in EC. rewrite EC. lia. }
      rewrite IW2, EC. cbn [negb orb andb conv]. do 2 f_equal. lia.
Qed.

(* THE BRIDGE: whatever the strict validator's resolver accepts at a word-aligned position, the
   specification's resolver (strict mode) resolves to the corresponding target.  Holds for every
   segment list. *)
Theorem resolve_ptr_spec (ms : segs) sid off t rs :
  resolve_ptr ms sid off = (t, rs) -> is_bad t = false -> off mod 8 = 0 ->
  S.spec_resolve true ms sid (off / 8) = Some (conv t).
Proof.
  unfold resolve_ptr. intros H Hb Hm.
  destruct (word_at ms sid off) as [w|] eqn:EW; [|inj H; discriminate].
  destruct (word_at_spec _ _ _ _ EW Hm) as (Sg & IW & WS).
  unfold S.spec_resolve. rewrite Sg, IW. cbn [negb]. rewrite WS.
  change (S.ptr_kind w) with (f_A w).
  destruct (w =? 0) eqn:E0.
  { inj H. assert (W0 : w = 0) by lia. rewrite W0. change (f_A 0 =? 2) with false. cbv iota. unfold S.spec_near. change (0 =? 0) with true. reflexivity. }
  cbv zeta in H.
  destruct (f_A w =? 3) eqn:E3.
  { destruct ((w / 4) mod two30 =? 0) eqn:EZ; [|inj H; discriminate].
    inj H. clear Hb. destruct (f_A w =? 2) eqn:E2; [lia|].
    unfold S.spec_near. rewrite E0. change (S.ptr_kind w) with (f_A w). rewrite E3.
    change (S.cap_zero w) with ((w / 4) mod two30). rewrite EZ. cbn [conv]. reflexivity. }
  destruct (f_A w =? 2) eqn:E2.
  - (* far *)
    change (S.far_seg w) with (f_seg w). change (S.far_off w) with (f_padoff w). change (S.far_two w) with (f_B w).
    destruct (f_B w =? 0) eqn:EB.
    + destruct (in_seg ms (f_seg w) (8 * f_padoff w) 8) eqn:EI; cbn [negb] in H; [|inj H; discriminate].
      destruct (word_at ms (f_seg w) (8 * f_padoff w)) as [pw|] eqn:EP; [|inj H; discriminate].
      destruct ((pw =? 0) || (2 <=? f_A pw)) eqn:EK; [inj H; discriminate|].
      destruct (decode_obj ms (f_seg w) (8 * f_padoff w + 8) pw) as [t0 rs0] eqn:ED.
      inj H.
      destruct (word_at_spec _ _ _ _ EP ltac:(lia)) as (Sg2 & IW2 & WS2).
      replace (8 * f_padoff w / 8) with (f_padoff w) in * by lia.
      rewrite Sg2, IW2, WS2. unfold S.spec_near. change (S.ptr_kind pw) with (f_A pw).
      destruct (pw =? 0) eqn:EP0; [discriminate|].
      assert (A01 : f_A pw = 0 \/ f_A pw = 1) by (unfold f_A in *; lia).
      destruct (f_A pw =? 3) eqn:EP3; [lia|]. destruct (f_A pw =? 2) eqn:EP2; [lia|].
      pose proof (decode_obj_spec _ _ _ _ _ _ ED Hb ltac:(lia)) as DS.
      replace ((8 * f_padoff w + 8) / 8) with (f_padoff w + 1) in DS by lia. exact DS.
    + destruct (in_seg ms (f_seg w) (8 * f_padoff w) 16) eqn:EI; cbn [negb] in H; [|inj H; discriminate].
      destruct (word_at ms (f_seg w) (8 * f_padoff w)) as [fw|] eqn:EP; [|inj H; discriminate].
      destruct (word_at ms (f_seg w) (8 * f_padoff w + 8)) as [tag|] eqn:EP'; [|inj H; discriminate].
      destruct ((f_A fw =? 2) && (f_B fw =? 0)) eqn:EF; cbn [negb] in H; [|inj H; discriminate].
      destruct ((2 <=? f_A tag) || negb (f_off tag =? 0)) eqn:ET; [inj H; discriminate|].
      destruct (decode_obj ms (f_seg fw) (8 * f_padoff fw) tag) as [t0 rs0] eqn:ED.
      inj H.
      destruct (word_at_spec _ _ _ _ EP ltac:(lia)) as (Sg2 & IW2 & WS2).
      destruct (word_at_spec _ _ _ _ EP' ltac:(lia)) as (_ & IW3 & WS3).
      replace (8 * f_padoff w / 8) with (f_padoff w) in * by lia.
      replace ((8 * f_padoff w + 8) / 8) with (f_padoff w + 1) in * by lia.
      rewrite Sg2.
      assert (IWW : S.in_words (nth (Z.to_nat (f_seg w)) ms []) (f_padoff w) 2 = true)
        by (unfold S.in_words in *; lia).
      rewrite IWW, WS2, WS3.
      change (S.ptr_kind fw) with (f_A fw). change (S.far_two fw) with (f_B fw).
      change (S.ptr_kind tag) with (f_A tag). change (S.off30 tag) with (f_off tag).
      change (S.far_seg fw) with (f_seg fw). change (S.far_off fw) with (f_padoff fw).
      rewrite EF.
      assert (A01 : f_A tag = 0 \/ f_A tag = 1) by (unfold f_A in *; lia).
      assert (O0 : f_off tag = 0) by lia.
      assert (C1 : ((f_A tag =? 0) || (f_A tag =? 1)) = true) by lia.
      rewrite C1, O0. cbn [andb Z.eqb].
      pose proof (decode_obj_spec _ _ _ _ _ _ ED Hb ltac:(lia)) as DS.
      change (S.off30 tag) with (f_off tag) in DS. rewrite O0 in DS.
      replace (8 * f_padoff fw / 8 + 0) with (f_padoff fw) in DS by lia. exact DS.
  - (* near *)
    unfold S.spec_near. rewrite E0. change (S.ptr_kind w) with (f_A w). rewrite E3, E2.
    pose proof (decode_obj_spec _ _ _ _ _ _ H Hb ltac:(lia)) as DS.
    replace ((off + 8) / 8) with (off / 8 + 1) in DS by lia. exact DS.
Qed.

(* the specification target of a table object *)
Definition spec_tgt_of (h : Ptr) : S.target := conv (tgt_of h).

(* every pointer slot of every table object and the root word, as the SPECIFICATION resolves it
   (strict mode): null / capability / struct / list, and when the target occupies storage it
   is exactly the specification target of one table object *)
Theorem hinv_slot_spec m objs pads q :
  hinv m objs pads -> In q ((0, 0) :: flat_map slots objs) ->
  exists t rs, resolve_ptr (bm_data m) (fst q) (snd q) = (t, rs) /\
    S.spec_resolve true (bm_data m) (fst q) (snd q / 8) = Some (conv t) /\ simple_target t /\
    (rs = [] /\ no_tag t \/ exists ps r, rs = ps ++ [r] /\ incl ps pads /\
        (r_size r = 0 /\ no_tag t \/ exists h, In h objs /\ r = obj_reg h /\ t = tgt_of h)).
Proof.
  intros H Hq.
  destruct (slot_geometry _ _ _ _ H Hq) as (Q1 & Q2 & Q3 & Q4 & _).
  destruct (hinv_slot_res _ _ _ _ H Hq) as (t & rs & ER & ST & Hr).
  assert (NB : is_bad t = false) by (destruct t; cbn in ST |- *; try reflexivity; contradiction).
  pose proof (resolve_ptr_spec _ _ _ _ _ ER NB Q3) as SR.
  exists t, rs. split; [exact ER|]. split; [exact SR|]. split; [exact ST|exact Hr].
Qed.
