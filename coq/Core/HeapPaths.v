(* C04's last sentence for builder states: every serialisation path - Marshal, Encoder, their
   packed forms, Unmarshal, UnmarshalPacked, the stream Decoders over any chunking - returns
   exactly the segments of the built message.  Composition of the table invariant (geometry),
   the bytes invariant (HeapBytes.v) and C14 / C13's all_paths_same_segments. *)
From CV Require Import Core.Builder Core.Reader Core.HeapProofs Core.HeapInv Core.HeapMarshal Core.HeapBytes.
From CV Require Packed.Packed Frame.Frame Frame.FramePacked Frame.FrameProofs Frame.FrameStream Frame.FramePackedProofs Frame.FramePackedThms.
Require Import ZArith List Lia. Import ListNotations.
Open Scope Z_scope.
Module F := CV.Frame.Frame.
Module FP := CV.Frame.FramePacked.

Theorem all_paths_states m objs pads mx :
  hinv m objs pads -> mb m -> nsegs m <= 512 -> FrameStream.max_ok mx ->
  F.len (FrameProofs.frame (bm_data m)) <= F.eff_max mx ->
  let segs := bm_data m in
  exists b p pe,
    F.marshal segs = F.Ok b /\ F.encode true segs = F.Ok b /\
    FP.marshal_packed segs = F.Ok p /\ F.encode_packed true segs = F.Ok pe /\
    F.unmarshal b = F.Ok segs /\
    FP.unmarshal_packed p = F.Ok segs /\
    (forall cs hc bc ru, concat cs = b ->
       exists st' log, F.decode1 (F.mkD (F.mkReader cs Packed.Packed.EOF) hc bc ru mx) = (st', F.DMsg segs, log)) /\
    (forall orc hc bc ru,
       exists st' log, FP.pdecode1 (F.mkD (FP.p_init orc pe) hc bc ru mx) = (st', F.DMsg segs, log)) /\
    FP.unmarshal_packed pe = F.Ok segs /\
    (forall orc hc bc ru,
       exists st' log, FP.pdecode1 (F.mkD (FP.p_init orc p) hc bc ru mx) = (st', F.DMsg segs, log)).
Proof.
  intros H Hb Hn Hmx Hl segs. subst segs.
  assert (Hn' : nsegs m <= 1073741823) by lia.
  destruct (hinv_frame_premises m objs pads H Hn') as [Hc Hs].
  apply FramePackedThms.all_paths_same_segments; [exact Hmx| |exact Hb].
  split; [|split; [exact Hs|exact Hl]].
  unfold FrameProofs.count_ok in Hc. unfold F.max_stream_segments. split; [lia|].
  change (F.len (bm_data m)) with (zlen (bm_data m)). rewrite zlen_bm. exact Hn.
Qed.
