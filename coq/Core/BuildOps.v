(* Builder-side API call sequences: an interpreter for op lists over a [world] (the message
   under construction + a read-only source message) and a pool of pointer handles, each
   handle tagged with the message it lives in.  This is what the correspondence harness
   (harness/cmd/c04) replays against the real builder API.  No proofs in this file. *)
From CV Require Export Core.Builder Core.ReadOps.
Open Scope Z_scope.

(* ------------------------------------------------------------------ message creation *)
Inductive arena_spec :=
| ArSingle (c : option Z)       (* capnp.NewMessage(capnp.SingleSegment(nil | make([]byte,0,c))) *)
| ArMulti (c : option Z)        (* capnp.NewMessage(capnp.MultiSegment(nil | [][]byte{make([]byte,0,c)})) *)
| ArRaw (cs : list Z).          (* &capnp.Message{Arena: capnp.MultiSegment(bufs)}; Segment(0); NewStruct(seg0,{8,0}) *)

Definition create (a : arena_spec) (rl : Z) : res bmsg :=
  match a with
  | ArSingle None => new_message ASingle [] rl
  | ArSingle (Some c) => new_message ASingle [c] rl
  | ArMulti None => new_message AMulti [] rl
  | ArMulti (Some c) => new_message AMulti [c] rl
  | ArRaw cs =>
    match cs with
    | [] => Err                                   (* Message.Segment(0) fails: no segment to allocate in *)
    | _ => do r <- newStruct (raw_message AMulti cs rl) 0 (mkOS 8 0); Ok (fst r)
    end
  end.

(* ------------------------------------------------------------------ ops *)
Inductive bop :=
| BNewStruct (sid dsz pc : Z)
| BNewPrim (sid sz n : Z)
| BNewBit (sid n : Z)
| BNewPList (sid n : Z)
| BNewComp (sid dsz pc n : Z)
| BNewVoid (sid n : Z)
| BNewBytes (sid : Z) (v : list Z) (nul : bool)     (* NewData / NewTextFromBytes *)
| BNewCap (sid idx : Z)                            (* NewInterface(seg, idx).ToPtr() *)
| BAddCap (client : Z)                             (* Message.AddCap(client) *)
| BSetUint (h off n v : Z) | BSetBit (h n : Z) (v : bool)
| BListSetUint (h i n v : Z) | BBitSet (h i : Z) (v : bool)
| BSetPtr (h i hs : Z) | BPLSet (h i hs : Z) | BSetStruct (h i hs : Z) | BCopyFrom (h hs : Z)
| BSetRoot (hs : Z)
| BRead (l : loc) (o : op)                         (* read-side op; [l] is used by root / rlimit only *)
| BRoundTrip (dcap pcap fuel : Z)                  (* walk of the root over the current bytes, fresh limits *)
| BDump (l : loc)
| BReopen.                                         (* Marshal; Unmarshal / Decoder.Decode; keep building in the decoded message *)

Inductive bval :=
| BV (v : oval)
| BVUnit (r : res unit)
| BVDump (segs : list (list Z * Z)) (caps : list Z) (refs : list Z) (rl : Z)
| BVTree (t : tree).

(* cfgd / cfgs: limits of the two messages; ncaps: size of the source's capability table *)
Record benv := mkEnv { e_cfgd : config; e_cfgs : config; e_ncaps : Z; e_fuel : nat }.
Record bstate := mkBSt { st_w : world; st_h : list (loc * Ptr) }.

Definition all_fixes := mkFix true true true.
Definition cfg_of (e : benv) (l : loc) : config := match l with InDst => e_cfgd e | InSrc => e_cfgs e end.
Definition hget (st : bstate) (h : Z) : loc * Ptr := nth (Z.to_nat h) (st_h st) (InDst, nullPtr).
Definition hpush (st : bstate) (w : world) (l : loc) (p : Ptr) : bstate := mkBSt w (st_h st ++ [(l, p)]).

Definition valid_sid (st : bstate) (sid : Z) : bool :=
  (0 <=? sid) && (sid <? zlen (bm_segs (w_dst (st_w st)))).

(* the handle a read op works on *)
Definition op_handle (o : op) : option Z :=
  match o with
  | ORoot | ORLimit | OReset _ | OResetLimit _ | OUnread _ => None
  | OSPtr h _ | OHasPtr h _ | OUint h _ _ | OBit h _ | OLStruct h _ | OPLAt h _ | OUintAt h _ _
  | OBitAt h _ | OText h | OData h | OInfo h | OWalk h _ _ _ => Some h
  end.

(* the source message seen as a message with cap = len, for the data setters *)
Definition src_bmsg (w : world) : bmsg :=
  mkBM AMulti (map (fun d => mkBS d (zlen d)) (w_src w)) [] (w_src_rl w).
Definition set_in (w : world) (l : loc) (f : bmsg -> res bmsg) : res world :=
  match l with
  | InDst => lift0 w (f (w_dst w))
  | InSrc => do m <- f (src_bmsg w); Ok (mkW (w_dst w) (bm_data m) (w_src_rl w))
  end.

(* what Interface.Client() of the source yields for a copied capability: the table entry, or
   nil (-1) outside the table; clients added by AddCap have negative ids <= -2 *)
Definition client_of (ncaps c : Z) : Z := if c <? 0 then c else if c <? ncaps then c else -1.
Definition count_z (x : Z) (l : list Z) : Z := zlen (filter (fun y => y =? x) l).

(* an allocating constructor: result handle, or stop *)
Definition ctor (st : bstate) (sid : Z) (r : res (bmsg * Ptr)) : option bstate * bval :=
  match r with
  | Ok (m, p) => (Some (hpush st (w_set_dst (st_w st) m) InDst p), BV (VPtr (Ok p)))
  | Err => (None, BV (VPtr Err))
  | Panic => (None, BV (VPtr Panic))
  end.

(* a data setter: state unchanged when it panics *)
Definition dset (st : bstate) (r : res world) : option bstate * bval :=
  match r with
  | Ok w => (Some (mkBSt w (st_h st)), BVUnit (Ok tt))
  | Err => (Some st, BVUnit Err)
  | Panic => (Some st, BVUnit Panic)
  end.

(* a pointer setter: the run stops at a failure (the real message may be partially updated) *)
Definition pset (st : bstate) (r : res world) : option bstate * bval :=
  match r with
  | Ok w => (Some (mkBSt w (st_h st)), BVUnit (Ok tt))
  | Err => (None, BVUnit Err)
  | Panic => (None, BVUnit Panic)
  end.

Definition bstep (e : benv) (st : bstate) (o : bop) : option bstate * bval :=
  let w := st_w st in
  let m := w_dst w in
  match o with
  | BNewStruct sid dsz pc =>
    if negb (valid_sid st sid) then (Some (hpush st w InDst nullPtr), BV (VPtr Err))
    else ctor st sid (newStruct m sid (mkOS dsz pc))
  | BNewPrim sid sz n =>
    if negb (valid_sid st sid) then (Some (hpush st w InDst nullPtr), BV (VPtr Err))
    else ctor st sid (newPrimitiveList m sid sz n)
  | BNewBit sid n =>
    if negb (valid_sid st sid) then (Some (hpush st w InDst nullPtr), BV (VPtr Err))
    else ctor st sid (newBitList m sid n)
  | BNewPList sid n =>
    if negb (valid_sid st sid) then (Some (hpush st w InDst nullPtr), BV (VPtr Err))
    else ctor st sid (newPointerList m sid n)
  | BNewComp sid dsz pc n =>
    if negb (valid_sid st sid) then (Some (hpush st w InDst nullPtr), BV (VPtr Err))
    else ctor st sid (newCompositeList m sid (mkOS dsz pc) n)
  | BNewVoid sid n =>
    if negb (valid_sid st sid) then (Some (hpush st w InDst nullPtr), BV (VPtr Err))
    else match newVoidList sid n with
         | Ok p => (Some (hpush st w InDst p), BV (VPtr (Ok p)))
         | Err => (Some (hpush st w InDst nullPtr), BV (VPtr Err))
         | Panic => (Some (hpush st w InDst nullPtr), BV (VPtr Panic))
         end
  | BNewBytes sid v nul =>
    if negb (valid_sid st sid) then (Some (hpush st w InDst nullPtr), BV (VPtr Err))
    else ctor st sid (newBytes m sid v nul)
  | BNewCap sid idx =>
    if negb (valid_sid st sid) then (Some (hpush st w InDst nullPtr), BV (VPtr Err))
    else let p := mkPtr true sid 0 idx (mkOS 0 0) 0 KIface false false false in
         (Some (hpush st w InDst p), BV (VPtr (Ok p)))
  | BAddCap c =>
    let m1 := mkBM (bm_arena m) (bm_segs m) (bm_caps m ++ [c]) (bm_rl m) in
    (Some (mkBSt (w_set_dst w m1) (st_h st)), BV (VNum (Ok (zlen (bm_caps m)))))
  | BSetUint h off n v =>
    let '(l, p) := hget st h in
    dset st (set_in w l (fun m0 => struct_set_uint m0 (as_struct p) off n v))
  | BSetBit h n v =>
    let '(l, p) := hget st h in
    dset st (set_in w l (fun m0 => struct_set_bit m0 (as_struct p) n v))
  | BListSetUint h i n v =>
    let '(l, p) := hget st h in
    dset st (set_in w l (fun m0 => list_set_uint m0 (as_list p) i n v))
  | BBitSet h i v =>
    let '(l, p) := hget st h in
    dset st (set_in w l (fun m0 => bitlist_set m0 (as_list p) i v))
  | BSetPtr h i hs =>
    let '(l, p) := hget st h in
    let '(ls, q) := hget st hs in
    if is_src l then (None, BVUnit Panic)          (* not modelled: pointer writes into the source *)
    else pset st (struct_set_ptr (e_fuel e) w (as_struct p) i ls q)
  | BPLSet h i hs =>
    let '(l, p) := hget st h in
    let '(ls, q) := hget st hs in
    if is_src l then (None, BVUnit Panic)
    else pset st (ptrlist_set (e_fuel e) w (as_list p) i ls q)
  | BSetStruct h i hs =>
    let '(l, p) := hget st h in
    let '(ls, q) := hget st hs in
    if is_src l then (None, BVUnit Panic)
    else pset st (list_set_struct (e_fuel e) w (as_list p) i ls (as_struct q))
  | BCopyFrom h hs =>
    let '(l, p) := hget st h in
    let '(ls, q) := hget st hs in
    if is_src l then (None, BVUnit Panic)
    else pset st (copy_struct (e_fuel e) true w (as_struct p) ls (as_struct q))
  | BSetRoot hs =>
    let '(ls, q) := hget st hs in
    pset st (set_root (e_fuel e) w ls q)
  | BRead l0 ro =>
    let l := match op_handle ro with Some h => fst (hget st h) | None => l0 end in
    let rs := mkRS (map snd (st_h st)) (w_rl w l) in
    let '(rs', v) := step (cfg_of e l) all_fixes (w_segs w l) rs ro in
    let newh := skipn (length (st_h st)) (rs_handles rs') in
    (Some (mkBSt (w_set_rl w l (rs_rl rs')) (st_h st ++ map (fun p => (l, p)) newh)), BV v)
  | BRoundTrip dcap pcap fuel =>
    let c := mkCfg 0 0 true true in
    let '(r, rl) := root c (bm_data m) (init_rlimit c) in
    (Some st, BVTree (fst (walk c all_fixes (bm_data m) dcap pcap (Z.to_nat fuel) rl r)))
  | BReopen =>
    (* the decoded message: the same segment bytes in a demuxed multi-segment arena whose
       buffers have cap = len (message.go demuxArena: data[:sz:sz]), an empty capability table
       and a fresh read limit; handles into the old message are dropped (null) *)
    let m1 := mkBM AMulti (map (fun d => mkBS d (zlen d)) (bm_data m)) [] (init_rlimit (e_cfgd e)) in
    (Some (mkBSt (w_set_dst w m1) (map (fun h => match fst h with InDst => (InDst, nullPtr) | InSrc => h end) (st_h st))),
     BVUnit (Ok tt))
  | BDump l =>
    match l with
    | InDst =>
      let caps := map (client_of (e_ncaps e)) (bm_caps m) in
      (Some st, BVDump (map (fun s => (bs_data s, bs_cap s)) (bm_segs m)) caps
                       (map (fun j => 1 + count_z j caps) (iota (Z.to_nat (e_ncaps e)))) (bm_rl m))
    | InSrc => (Some st, BVDump (map (fun d => (d, zlen d)) (w_src w)) [] [] (w_src_rl w))
    end
  end.

Fixpoint brun (e : benv) (st : bstate) (ops : list bop) : list bval :=
  match ops with
  | [] => []
  | o :: r => match bstep e st o with
              | (Some st1, v) => v :: brun e st1 r
              | (None, v) => [v]
              end
  end.

(* a whole case: create the destination message, then run the ops; None = creation failed *)
Definition run_build (a : arena_spec) (cfgd cfgs : config) (ncaps : Z) (fuel : Z) (src : segs) (ops : list bop)
  : option (list bval) :=
  match create a (init_rlimit cfgd) with
  | Ok m => Some (brun (mkEnv cfgd cfgs ncaps (Z.to_nat fuel)) (mkBSt (mkW m src (init_rlimit cfgs)) []) ops)
  | _ => None
  end.
