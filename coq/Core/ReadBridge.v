(* C05: from the words a pointer slot holds ([placed], HeapInv.v) to what the reader model's
   Segment.readPtr returns: the handle of the table object the slot points to (any read limit,
   any depth limit: an Ok result has exactly the object's fields). *)
From CV Require Import Core.Builder Core.ReaderFacts Core.ArithFacts Core.BuilderFacts Core.AllocProofs
  Core.WritePtrProofs Core.HeapProofs Core.CopyProofs Core.BuildOps Core.BuildValid Core.BuildInv Core.HeapInv.
From CV Require Core.ArithMore.
From Coq Require Import ZifyBool ZifyNat.
Open Scope Z_scope.

Ltac Zify.zify_post_hook ::= Z.div_mod_to_equations.

(* ------------------------------------------------------------------ words *)
Lemma read_of_word_at (ms : segs) sid off w :
  word_at ms sid off = Some w -> off + 8 < 4294967296 ->
  readRawPointer (nth (Z.to_nat sid) ms []) off = Ok w.
Proof.
  intros H Hl. unfold word_at in H. cbv zeta in H.
  destruct ((0 <=? sid) && (sid <? zlen ms)) eqn:E1; [|discriminate].
  destruct ((0 <=? off) && (off + 8 <=? zlen (nth (Z.to_nat sid) ms []))) eqn:E2; [|discriminate].
  unfold readRawPointer, readUintN, slice. cbv zeta. unfold addSizeUnchecked, u32.
  assert (H0 : (off + 8) mod 4294967296 = off + 8) by lia. rewrite H0.
  assert (C : (0 <=? off) && (off <=? off + 8) && (off + 8 <=? zlen (nth (Z.to_nat sid) ms [])) = true) by lia.
  rewrite C. cbn [bind]. replace (off + 8 - off) with 8 by lia. f_equal. change (Z.to_nat 8) with 8%nat. congruence.
Qed.

Lemma lookup_nth (ms : segs) i : 0 <= i < zlen ms -> lookup_segment ms i = Ok (nth (Z.to_nat i) ms []).
Proof. intros H. unfold lookup_segment. assert (C : (0 <=? i) && (i <? zlen ms) = true) by lia. now rewrite C. Qed.

(* ------------------------------------------------------------------ the reader resolves placed words *)
Lemma placed_resolves_to (ms : segs) dsid off tsid taddr raw oldlen pads :
  placed ms dsid off tsid taddr raw oldlen pads -> raw_ok raw ->
  off mod 8 = 0 -> 0 <= taddr <= 4294967288 -> taddr mod 8 = 0 ->
  0 <= tsid < zlen ms -> zlen ms <= 4294967296 ->
  (forall i, 0 <= i < zlen ms -> seg_len ms i <= 4294967288) ->
  (forall p, In p pads -> r_start p mod 8 = 0) ->
  resolves_to ms dsid off tsid taddr raw.
Proof.
  intros Pl (Rw & Rt & Ro & Rnz) Hoa Hta Htm Hts Hns Hsm Hpa.
  pose proof Rw as Rw'. unfold word64 in Rw'. destruct (raw_type raw Rt ltac:(lia)) as (T0 & T1 & T2).
  destruct Pl as [E W|padAddr Hne Epa W1 W2|psid padAddr Hne Hps Epa W1 W2 W3].
  - (* near *)
    subst tsid. destruct (word_at_range _ _ _ _ W) as (G1 & G2 & G3). pose proof (Hsm dsid G1) as Hl.
    destruct (nearPointerOffset_ok off taddr) as [N1 N2]; try lia.
    destruct (withOffset_roundtrip raw (nearPointerOffset off taddr) Rw N1 Rt) as (Q1 & Q2 & Q3 & Q4 & Q5 & Q6).
    cbv zeta in *. set (v := withOffset raw (nearPointerOffset off taddr)) in *.
    exists (off + 8), v. split.
    + intros strict. unfold resolveFarPointer. rewrite (read_of_word_at _ _ _ _ W) by lia. cbn [bind]. cbv zeta. rewrite Q2, T1, T2.
      unfold addSize. cbv zeta. destruct (off + 8 >? maxSegmentSize) eqn:E; [unfold maxSegmentSize in E; lia|]. reflexivity.
    + split; [exact Q1|]. split; [exact Q2|]. split; [exact Q4|]. split; [exact Q5|]. split; [exact Q6|].
      rewrite Q3. apply element_words; [unfold maxSegmentSize; lia|lia].
  - (* far *)
    destruct (word_at_range _ _ _ _ W1) as (G1 & G2 & G3). pose proof (Hsm dsid G1) as Hl.
    destruct (word_at_range _ _ _ _ W2) as (G4 & G5 & G6). pose proof (Hsm tsid G4) as Hlt.
    pose proof (Hpa _ (or_introl eq_refl)) as Pm. cbn [r_start] in Pm.
    destruct (nearPointerOffset_ok padAddr taddr) as [N1 N2]; try lia.
    destruct (withOffset_roundtrip raw (nearPointerOffset padAddr taddr) Rw N1 Rt) as (Q1 & Q2 & Q3 & Q4 & Q5 & Q6).
    cbv zeta in *. set (pv := withOffset raw (nearPointerOffset padAddr taddr)) in *.
    destruct (far_pointer_roundtrip tsid padAddr ltac:(lia) ltac:(lia)) as (F1 & F2 & F3 & F4).
    cbv zeta in *. set (fv := rawFarPointer tsid padAddr) in *.
    exists (padAddr + 8), pv. split.
    + intros strict. unfold resolveFarPointer. rewrite (read_of_word_at _ _ _ _ W1) by lia. cbn [bind]. cbv zeta. rewrite F2.
      change (farPointer =? doubleFarPointer) with false. change (farPointer =? farPointer) with true.
      cbv iota. rewrite F4. destruct (tsid =? dsid) eqn:E; [lia|].
      rewrite lookup_nth by lia. cbn [bind]. rewrite F3.
      replace (padAddr / 8 * 8) with padAddr by lia.
      rewrite regionInBounds_true by (unfold maxSegmentSize, seg_len in *; lia). cbn [negb].
      unfold addSize. cbv zeta. destruct (padAddr + 8 >? maxSegmentSize) eqn:E2; [unfold maxSegmentSize in E2; lia|].
      rewrite (read_of_word_at _ _ _ _ W2) by lia. reflexivity.
    + split; [exact Q1|]. split; [exact Q2|]. split; [exact Q4|]. split; [exact Q5|]. split; [exact Q6|].
      rewrite Q3. apply element_words; [unfold maxSegmentSize; lia|lia].
  - (* double far *)
    destruct (word_at_range _ _ _ _ W1) as (G1 & G2 & G3). pose proof (Hsm dsid G1) as Hl.
    destruct (word_at_range _ _ _ _ W2) as (G4 & G5 & G6). pose proof (Hsm psid G4) as Hlp.
    destruct (word_at_range _ _ _ _ W3) as (G7 & G8 & G9).
    pose proof (Hpa _ (or_introl eq_refl)) as Pm. cbn [r_start] in Pm.
    destruct (far_pointer_roundtrip tsid taddr ltac:(lia) ltac:(lia)) as (F1 & F2 & F3 & F4).
    cbv zeta in *. set (fv := rawFarPointer tsid taddr) in *.
    destruct (double_far_pointer_roundtrip psid padAddr ltac:(lia) ltac:(lia)) as (D1 & D2 & D3 & D4).
    cbv zeta in *. set (dv := rawDoubleFarPointer psid padAddr) in *.
    destruct (landingPadNearPointer_roundtrip fv raw F1 Rw F2 Rt) as (P1 & P2 & P3 & P4 & P5 & P6 & P7).
    cbv zeta in *.
    exists 0, (landingPadNearPointer fv raw). split.
    + intros strict. unfold resolveFarPointer. rewrite (read_of_word_at _ _ _ _ W1) by lia. cbn [bind]. cbv zeta. rewrite D2.
      change (doubleFarPointer =? doubleFarPointer) with true. cbv iota. rewrite D4.
      match goal with |- bind ?X _ = _ => assert (HPS : X = Ok (nth (Z.to_nat psid) ms [])) end.
      { destruct (psid =? dsid) eqn:E; [assert (EQ : psid = dsid) by lia; rewrite EQ; reflexivity|].
        apply lookup_nth. lia. }
      rewrite HPS. cbn [bind]. rewrite D3. replace (padAddr / 8 * 8) with padAddr by lia.
      rewrite regionInBounds_true by (unfold maxSegmentSize, seg_len in *; lia). cbn [negb].
      rewrite (read_of_word_at _ _ _ _ W2) by lia. cbn [bind]. rewrite F2. change (farPointer =? farPointer) with true. cbn [negb].
      unfold addSize. cbv zeta. destruct (padAddr + 8 >? maxSegmentSize) eqn:E2; [unfold maxSegmentSize in E2; lia|].
      rewrite (read_of_word_at _ _ _ _ W3) by lia. cbn [bind]. cbv zeta. rewrite Ro.
      assert (HT : (negb (pointerType raw =? structPointer) && negb (pointerType raw =? listPointer)) || negb (0 =? 0) = false).
      { destruct T0 as [-> | ->]; reflexivity. }
      rewrite HT. rewrite F4.
      match goal with |- bind ?X _ = _ => assert (HTS : X = Ok (nth (Z.to_nat tsid) ms [])) end.
      { destruct (tsid =? dsid) eqn:E3; [lia|]. apply lookup_nth. lia. }
      rewrite HTS. cbn [bind].
      assert (Hnz : (landingPadNearPointer fv raw =? 0) = false).
      { rewrite landingPadNearPointer_sum by (right; exact Rt).
        unfold ptr_offset, s32, u32 in *. cbv zeta in Ro.
        destruct (raw mod 4294967296 <? 2147483648) eqn:EE; lia. }
      rewrite Hnz. rewrite Bool.andb_false_r. reflexivity.
    + split; [exact P1|]. split; [exact P2|]. split; [exact P4|]. split; [exact P5|]. split; [exact P6|].
      unfold ArithMore.resolve in P7. rewrite P7. rewrite F3. f_equal. lia.
Qed.

(* ------------------------------------------------------------------ readPtr on a resolved table object *)
Lemma readStructPtr_inv sid s base val sp : readStructPtr sid s base val = Ok sp ->
  exists addr, element base (ptr_offset val) 8 = Some addr /\
    sp = mkPtr true sid addr 0 (structSize val) 0 KStruct false false false.
Proof.
  unfold readStructPtr. destruct (element base (ptr_offset val) 8) as [addr|]; [|discriminate].
  cbv zeta. destruct (negb _); [discriminate|]. intros H. apply Ok_inj in H. eauto.
Qed.

Lemma readListPtr_inv strict sid s base val lp : readListPtr strict sid s base val = Ok lp ->
  exists addr, element base (ptr_offset val) 8 = Some addr /\
    ((listType val = 7 /\ exists hdr, readRawPointer s addr = Ok hdr /\ pointerType hdr = structPointer /\
        addr + 8 <= maxSegmentSize /\ (strict = true -> 0 <= s32 (ptr_offset hdr)) /\
        (exists ts, times (totalSize (structSize hdr)) (s32 (ptr_offset hdr)) = Some ts /\
                    regionInBounds s (addr + 8) ts = true) /\
        lp = mkPtr true sid (addr + 8) (s32 (ptr_offset hdr)) (structSize hdr) 0 KList true false false) \/
     (listType val = 1 /\ lp = mkPtr true sid addr (numListElements val) (mkOS 0 0) 0 KList false true false) \/
     (listType val <> 7 /\ listType val <> 1 /\ exists es, elementSize val = Some es /\
        lp = mkPtr true sid addr (numListElements val) es 0 KList false false false)).
Proof.
  unfold readListPtr. destruct (element base (ptr_offset val) 8) as [addr|]; [|discriminate].
  destruct (totalListSize val) as [[lsize|]|]; try discriminate.
  destruct (negb _); [discriminate|]. cbv zeta.
  destruct (listType val =? 7) eqn:E7.
  - destruct (readRawPointer s addr) as [hdr| |] eqn:ER; cbn [bind]; try discriminate.
    destruct (addSize addr 8) as [addr'|] eqn:EA; [|discriminate]. apply addSize_spec in EA. destruct EA as [-> EA].
    destruct (negb (pointerType hdr =? structPointer)) eqn:EP; [discriminate|].
    destruct (strict && (s32 (ptr_offset hdr) <? 0)) eqn:ESt; [discriminate|].
    destruct (times _ _) as [ts|] eqn:ET; [|discriminate]. destruct (negb (regionInBounds s (addr + 8) ts)) eqn:ERB; [discriminate|].
    intros H. apply Ok_inj in H. exists addr. split; [reflexivity|]. left. split; [lia|].
    exists hdr. split; [exact ER|]. split; [lia|]. split; [exact EA|].
    split; [intros ->; cbn [andb] in ESt; lia|]. split; [|auto].
    exists ts. split; [exact ET|]. destruct (regionInBounds s (addr + 8) ts); [reflexivity|discriminate].
  - destruct (listType val =? 1) eqn:E1.
    + intros H. apply Ok_inj in H. exists addr. split; [reflexivity|]. right. left. split; [lia|auto].
    + destruct (elementSize val) as [es|] eqn:EE; [|discriminate].
      intros H. apply Ok_inj in H. exists addr. split; [reflexivity|]. right. right. split; [lia|]. split; [lia|]. eauto.
Qed.

(* the handle readPtr returns for the pointer to table object [h]: [h]'s fields, the depth limit
   one less than the reader's *)
Definition handle_of (h : Ptr) (depth : Z) : Ptr :=
  mkPtr true (p_seg h) (p_off h) (p_len h) (p_size h) (uint_dec depth) (p_kind h) (p_comp h) (p_bit h) false.

(* readPtr on a non-null struct / list word: the shapes of an Ok result *)
Lemma readPtr_inv strict (ms : segs) rl sid s off depth p rl' dsid dst base val :
  resolveFarPointer strict ms sid s off = Ok (dsid, dst, base, val) -> (val =? 0) = false ->
  readPtr strict ms rl sid s off depth = (Ok p, rl') ->
  (pointerType val = structPointer /\ exists sp, readStructPtr dsid dst base val = Ok sp /\
     p = mkPtr true (p_seg sp) (p_off sp) 0 (p_size sp) (uint_dec depth) KStruct false false false) \/
  (pointerType val = listPointer /\ exists lp, readListPtr strict dsid dst base val = Ok lp /\
     p = mkPtr true (p_seg lp) (p_off lp) (p_len lp) (p_size lp) (uint_dec depth) KList (p_comp lp) (p_bit lp) false) \/
  (pointerType val = otherPointer /\ otherPointerType val = 0 /\
   p = mkPtr true dsid 0 (capabilityIndex val) (mkOS 0 0) 0 KIface false false false).
Proof.
  intros R Hv0 HR. unfold readPtr in HR. rewrite R, Hv0 in HR.
  destruct (depth =? 0); [discriminate|]. cbv zeta in HR.
  destruct (pointerType val =? structPointer) eqn:ES.
  - left. split; [lia|]. destruct (readStructPtr dsid dst base val) as [sp| |]; try discriminate.
    exists sp. split; [reflexivity|]. destruct (canRead rl (struct_readSize sp)) as [ok rl1]. destruct ok; [|discriminate].
    apply (f_equal fst) in HR. cbn [fst] in HR. apply Ok_inj in HR. auto.
  - destruct (pointerType val =? listPointer) eqn:EL.
    + right. left. split; [lia|]. destruct (readListPtr strict dsid dst base val) as [lp| |]; try discriminate.
      exists lp. split; [reflexivity|]. destruct (canRead rl (list_readSize lp)) as [ok rl1]. destruct ok; [|discriminate].
      apply (f_equal fst) in HR. cbn [fst] in HR. apply Ok_inj in HR. auto.
    + right. right. destruct (pointerType val =? otherPointer) eqn:EO; [|discriminate].
      destruct (negb (otherPointerType val =? 0)) eqn:E0; [discriminate|].
      apply (f_equal fst) in HR. cbn [fst] in HR. apply Ok_inj in HR. split; [lia|]. split; [lia|auto].
Qed.

Lemma read_resolved_obj strict (ms : segs) rl sid off h raw depth p rl' :
  resolves_to ms sid off (p_seg h) (obj_start h) raw ->
  p_valid h = true -> good ms h -> tag_ok ms h -> raw_of h = Ok raw ->
  (p_kind h = KStruct -> os_isZero (p_size h) = false) ->
  readPtr strict ms rl sid (nth (Z.to_nat sid) ms []) off depth = (Ok p, rl') ->
  p = handle_of h depth.
Proof.
  intros (base & val & R & Vw & Vt & Vs & Vl & Vn & Ve) Hv (Sh & Hseg & Hin & Hoff) Htag Hraw Hnz HR.
  unfold handle_of. unfold raw_of, shape_ok in *.
  destruct (p_kind h) eqn:EK.
  - (* struct *)
    destruct Sh as (Hw & Hc & Hl & Hb). specialize (Hnz eq_refl).
    destruct (struct_pointer_roundtrip 0 (p_size h) ltac:(unfold off_ok; lia) Hw) as (raw' & Er & Rw & Rt & Ro & Rs).
    rewrite Er in Hraw. cbn [of_opt_panic] in Hraw. apply Ok_inj in Hraw. subst raw'.
    assert (Hv0 : (val =? 0) = false).
    { destruct (val =? 0) eqn:E; auto. assert (val = 0) by lia. subst val.
      rewrite Rs in Vs. rewrite <- Vs in Hnz. cbv in Hnz. discriminate. }
    destruct (readPtr_inv _ _ _ _ _ _ _ _ _ _ _ _ _ (R strict) Hv0 HR) as [(_ & sp & ES & ->)|[(X & _)|(X & _)]];
      try (rewrite Vt, Rt in X; discriminate X).
    destruct (readStructPtr_inv _ _ _ _ _ ES) as (addr & EA & ->). rewrite Ve in EA. apply (f_equal (fun o => match o with Some x => x | None => 0 end)) in EA.
    subst addr. cbn [p_seg p_off p_size]. rewrite Vs, Rs. unfold obj_start. rewrite Hc, Hl, Hb. reflexivity.
  - (* list *)
    destruct Sh as (Hn & [(Hc & Hk)|(Hc & Hb & Hw & Ht)]).
    + (* plain list *)
      assert (LR : exists et, list_raw h = Ok (rawListPointer 0 et (p_len h)) /\ 0 <= et < 7 /\
                     (et = 1 -> p_bit h = true /\ p_size h = mkOS 0 0) /\
                     (et <> 1 -> p_bit h = false /\ elementSize (rawListPointer 0 et (p_len h)) = Some (p_size h))).
      { assert (ES : forall et, 0 <= et < 8 -> elementSize (rawListPointer 0 et (p_len h)) =
                       (if et =? 0 then Some (mkOS 0 0) else if et =? 1 then Some (mkOS 0 0)
                        else if et =? 2 then Some (mkOS 1 0) else if et =? 3 then Some (mkOS 2 0)
                        else if et =? 4 then Some (mkOS 4 0) else if et =? 5 then Some (mkOS 8 0)
                        else if et =? 6 then Some (mkOS 0 1) else None)).
        { intros et He. destruct (list_pointer_roundtrip 0 et (p_len h) ltac:(unfold off_ok; lia) He Hn) as (_ & _ & _ & L4 & _).
          cbv zeta in L4. unfold elementSize. cbv zeta. rewrite L4. reflexivity. }
        destruct Hk as [[Hb Hsz]|[Hb Hsz]].
        - exists 1. unfold list_raw. rewrite Hv, Hc, Hb. cbn [negb]. split; [reflexivity|]. split; [lia|]. split; [auto|lia].
        - destruct Hsz as [Hsz|(d & Hsz & Hd)].
          + exists 6. unfold list_raw. rewrite Hv, Hc, Hb, Hsz. cbn [negb PointerCount DataSize].
            change ((1 =? 1) && (0 =? 0)) with true. cbv iota. split; [reflexivity|]. split; [lia|]. split; [lia|].
            intros _. split; [reflexivity|]. rewrite ES by lia. reflexivity.
          + unfold list_raw. rewrite Hv, Hc, Hb, Hsz. cbn [negb PointerCount DataSize].
            change (0 =? 1) with false. rewrite Bool.andb_false_l. change (0 =? 0) with true. cbn [negb]. cbv iota zeta.
            destruct Hd as [->|[->|[->|[->| ->]]]].
            * exists 0. split; [reflexivity|]. split; [lia|]. split; [lia|]. intros _. split; [reflexivity|]. rewrite ES by lia. reflexivity.
            * exists 2. split; [reflexivity|]. split; [lia|]. split; [lia|]. intros _. split; [reflexivity|]. rewrite ES by lia. reflexivity.
            * exists 3. split; [reflexivity|]. split; [lia|]. split; [lia|]. intros _. split; [reflexivity|]. rewrite ES by lia. reflexivity.
            * exists 4. split; [reflexivity|]. split; [lia|]. split; [lia|]. intros _. split; [reflexivity|]. rewrite ES by lia. reflexivity.
            * exists 5. split; [reflexivity|]. split; [lia|]. split; [lia|]. intros _. split; [reflexivity|]. rewrite ES by lia. reflexivity. }
      destruct LR as (et & L1 & L2 & L3 & L4). rewrite L1 in Hraw. apply Ok_inj in Hraw. subst raw.
      destruct (list_pointer_roundtrip 0 et (p_len h) ltac:(unfold off_ok; lia) ltac:(lia) Hn) as (Rw & Rt & Ro & Rl & Rn).
      cbv zeta in *. set (raw := rawListPointer 0 et (p_len h)) in *.
      assert (Hv0 : (val =? 0) = false).
      { destruct (val =? 0) eqn:E; auto. assert (val = 0) by lia. subst val. rewrite Rt in Vt. cbv in Vt. discriminate. }
      assert (HE : elementSize val = elementSize raw) by (unfold elementSize; now rewrite Vl).
      destruct (readPtr_inv _ _ _ _ _ _ _ _ _ _ _ _ _ (R strict) Hv0 HR) as [(X & _)|[(_ & lp & EL & ->)|(X & _)]];
        try (rewrite Vt, Rt in X; discriminate X).
      destruct (readListPtr_inv _ _ _ _ _ _ EL) as (addr & EA & D). rewrite Ve in EA.
      apply (f_equal (fun o => match o with Some x => x | None => 0 end)) in EA. subst addr.
      unfold obj_start. rewrite Hc.
      destruct D as [(X & _)|[(X & ->)|(X7 & X1 & es & Ees & ->)]].
      * rewrite Vl, Rl in X. lia.
      * rewrite Vl, Rl in X. destruct (L3 X) as [Hb Hsz]. cbn [p_seg p_off p_len p_size p_comp p_bit].
        rewrite Vn, Rn, Hb, Hsz. unfold obj_start. rewrite ?Hc. reflexivity.
      * rewrite Vl, Rl in X1. destruct (L4 X1) as [Hb Hes]. rewrite HE, Hes in Ees. apply (f_equal (fun o => match o with Some x => x | None => mkOS 0 0 end)) in Ees.
        subst es. cbn [p_seg p_off p_len p_size p_comp p_bit]. rewrite Vn, Rn, Hb. unfold obj_start. rewrite ?Hc. reflexivity.
    + (* composite list *)
      destruct (Htag EK Hc) as (tag & Etag & Wtag).
      assert (W0 : 0 <= wc_of h) by (unfold wc_of; destruct Hw as (Hd & Hm & Hp); lia).
      assert (K0 : 0 <= p_len h * wc_of h) by nia.
      assert (TW : totalWordCount (p_size h) = Some (wc_of h)).
      { unfold totalWordCount, dataWordCount, wc_of. destruct Hw as (Hd & Hm & Hp). rewrite Hm. cbn [Z.eqb].
        f_equal. apply s32_id. lia. }
      assert (S32 : s32 (p_len h * wc_of h) = p_len h * wc_of h) by (apply s32_id; lia).
      unfold list_raw in Hraw. rewrite Hv, Hc, TW in Hraw. cbn [negb] in Hraw. rewrite S32 in Hraw. apply Ok_inj in Hraw. subst raw.
      destruct (list_pointer_roundtrip 0 7 (p_len h * wc_of h) ltac:(unfold off_ok; lia) ltac:(lia) ltac:(lia)) as (Rw & Rt & Ro & Rl & Rn).
      cbv zeta in *. set (raw := rawListPointer 0 7 (p_len h * wc_of h)) in *.
      destruct (struct_pointer_roundtrip (p_len h) (p_size h) ltac:(unfold off_ok; lia) Hw) as (tag' & Et' & Tw & Tt & To & Ts).
      rewrite Etag in Et'. assert (tag' = tag) by congruence. subst tag'.
      assert (Hv0 : (val =? 0) = false).
      { destruct (val =? 0) eqn:E; auto. assert (val = 0) by lia. subst val. rewrite Rt in Vt. cbv in Vt. discriminate. }
      destruct (readPtr_inv _ _ _ _ _ _ _ _ _ _ _ _ _ (R strict) Hv0 HR) as [(X & _)|[(_ & lp & EL & ->)|(X & _)]];
        try (rewrite Vt, Rt in X; discriminate X).
      destruct (readListPtr_inv _ _ _ _ _ _ EL) as (addr & EA & D). rewrite Ve in EA.
      apply (f_equal (fun o => match o with Some x => x | None => 0 end)) in EA. subst addr.
      unfold obj_start in *. rewrite Hc in *.
      assert (Hoff8 : 8 <= p_off h <= 4294967288).
      { destruct (in_seg_elim _ _ _ _ Hin) as (G1 & G2 & _). lia. }
      destruct D as [(_ & hdr & ERd & _ & _ & _ & _ & ->)|[(X & _)|(X & _)]]; try (rewrite Vl, Rl in X; lia).
      rewrite (read_of_word_at _ _ _ _ Wtag) in ERd by lia. apply Ok_inj in ERd. subst hdr.
      cbn [p_seg p_off p_len p_size p_comp p_bit]. rewrite Ts, To, Hb. rewrite (s32_id (p_len h)) by lia.
      replace (p_off h - 8 + 8) with (p_off h) by lia. reflexivity.
  - destruct Sh.
Qed.

(* ------------------------------------------------------------------ readPtr at a slot of the table *)
Definition empty_handle (q : Z * Z) (depth : Z) : Ptr :=
  mkPtr true (fst q) (snd q) 0 (mkOS 0 0) (uint_dec depth) KStruct false false false.

(* [readPtr_view]: whatever Segment.readPtr returns for a pointer slot of a table object or the
   root word is the null handle, the empty struct at the slot, or a handle of a table object *)
Theorem read_slot strict m objs pads q rl depth p rl' :
  hinv m objs pads -> In q ((0, 0) :: flat_map slots objs) ->
  readPtr strict (bm_data m) rl (fst q) (nth (Z.to_nat (fst q)) (bm_data m) []) (snd q) depth = (Ok p, rl') ->
  p = nullPtr \/ p = empty_handle q depth \/ (exists h, In h objs /\ p = handle_of h depth) \/
  (exists idx, 0 <= idx < 4294967296 /\ p = mkPtr true (fst q) 0 idx (mkOS 0 0) 0 KIface false false false).
Proof.
  intros H Hq HR. destruct (slot_geometry _ _ _ _ H Hq) as (Q1 & Q2 & Q3 & Q4 & _).
  pose proof (hi_small _ _ _ H (fst q)) as Hsq. unfold maxSegmentSize in Hsq.
  assert (Near : forall w, word_at (bm_data m) (fst q) (snd q) = Some w -> w mod 4 = 0 \/ w mod 4 = 3 ->
            forall st, resolveFarPointer st (bm_data m) (fst q) (nth (Z.to_nat (fst q)) (bm_data m) []) (snd q) =
                       Ok (fst q, nth (Z.to_nat (fst q)) (bm_data m) [], snd q + 8, w)).
  { intros w W Hw st. unfold resolveFarPointer. rewrite (read_of_word_at _ _ _ _ W) by lia. cbn [bind]. cbv zeta.
    assert (PT : pointerType w = 0 \/ pointerType w = 3) by (unfold pointerType; cbv zeta; destruct Hw as [-> | ->]; auto).
    assert (PD : (pointerType w =? doubleFarPointer) = false) by (unfold doubleFarPointer; lia).
    assert (PF : (pointerType w =? farPointer) = false) by (unfold farPointer; lia).
    rewrite PD, PF.
    unfold addSize. cbv zeta. destruct (snd q + 8 >? maxSegmentSize) eqn:E; [unfold maxSegmentSize in E; lia|]. reflexivity. }
  destruct (hi_slots _ _ _ H q Hq) as [S|[S|[(h & ps & raw & oldlen & Hh & Ips & Er & Hnz & Pl)|(idx & Hi & S)]]].
  4:{ right. right. right. exists idx. split; [exact Hi|].
      destruct (interface_pointer_roundtrip idx Hi) as (I1 & I2 & I3 & I4). cbv zeta in *.
      assert (Hm : rawInterfacePointer idx mod 4 = 3) by (rewrite rawInterfacePointer_sum by assumption; lia).
      assert (Hv0 : (rawInterfacePointer idx =? 0) = false) by (rewrite rawInterfacePointer_sum by assumption; lia).
      destruct (readPtr_inv _ _ _ _ _ _ _ _ _ _ _ _ _ (Near _ S (or_intror Hm) strict) Hv0 HR) as [(X & _)|[(X & _)|(_ & _ & ->)]];
        try (rewrite I2 in X; discriminate X).
      rewrite I4. reflexivity. }
  - left. unfold readPtr in HR. rewrite (Near 0 S (or_introl eq_refl) strict) in HR. cbn in HR.
    apply (f_equal fst) in HR. cbn [fst] in HR. apply Ok_inj in HR. auto.
  - right. left.
    assert (Hv0 : (empty_struct_word =? 0) = false) by reflexivity.
    destruct (readPtr_inv _ _ _ _ _ _ _ _ _ _ _ _ _ (Near _ S (or_introl eq_refl) strict) Hv0 HR) as [(_ & sp & ES & ->)|[(X & _)|(X & _)]];
      try (cbv in X; discriminate X).
    destruct (readStructPtr_inv _ _ _ _ _ ES) as (addr & EA & ->).
    change (ptr_offset empty_struct_word) with (-1) in EA. apply element_spec in EA. destruct EA as [-> _].
    change (structSize empty_struct_word) with (mkOS 0 0). unfold empty_handle. cbn [p_seg p_off p_size].
    replace (snd q + 8 + -1 * 8) with (snd q) by lia. reflexivity.
  - right. right. left. exists h. split; [exact Hh|].
    destruct (hi_good _ _ _ H h Hh) as [V G]. pose proof (hi_tags _ _ _ H h Hh) as T.
    destruct (obj_decode (bm_data m) h V G T Hnz) as (raw' & Er' & Rw & _). rewrite Er in Er'. apply Ok_inj in Er'. subst raw'.
    pose proof G as (_ & Gs & Gi & Go). destruct (in_seg_elim _ _ _ _ Gi) as (T1 & T2 & T3 & T4 & T5).
    rewrite seg_len_bm in T4. pose proof (hi_small _ _ _ H (p_seg h)) as Hsh. unfold maxSegmentSize in Hsh.
    apply (read_resolved_obj strict (bm_data m) rl (fst q) (snd q) h raw depth p rl'); auto.
    apply (placed_resolves_to (bm_data m) (fst q) (snd q) (p_seg h) (obj_start h) raw oldlen ps); auto; try lia.
    + apply raw_word_ok. exact Rw.
    + rewrite zlen_bm. pose proof (hi_nsegs _ _ _ H). lia.
    + intros i Hi. rewrite seg_len_bm. pose proof (hi_small _ _ _ H i) as X. unfold maxSegmentSize in X. exact X.
    + intros x Hx. pose proof (hi_in _ _ _ H x ltac:(unfold all_regs; apply in_or_app; right; apply Ips; exact Hx)) as Ix.
      unfold in_msg in Ix. destruct (in_seg_elim _ _ _ _ Ix) as (_ & _ & _ & _ & Y5). exact Y5.
Qed.

(* ------------------------------------------------------------------ read back: the handle *)
(* after a pointer setter without copy (any placement, any kind of table object incl. composite
   lists), Segment.readPtr at the slot returns the handle of exactly the object set - for every
   read limit and depth limit for which it returns a handle at all *)
Theorem read_after_place m objs pads w q ht raw w' strict rl depth p rl' :
  w_dst w = m -> hinv m objs pads ->
  In q ((0, 0) :: flat_map slots objs) -> In ht objs ->
  (p_kind ht = KStruct -> os_isZero (p_size ht) = false) ->
  raw_of ht = Ok raw ->
  place w (fst q) (snd q) (p_seg ht) (obj_start ht) raw = Ok w' ->
  nsegs (w_dst w') < 4294967296 ->
  readPtr strict (bm_data (w_dst w')) rl (fst q) (nth (Z.to_nat (fst q)) (bm_data (w_dst w')) []) (snd q) depth = (Ok p, rl') ->
  p = handle_of ht depth.
Proof.
  intros Ew H Hq Hht Hnz Hraw Hpl Hns HR.
  destruct (hinv_place_full m objs pads w q ht raw w' Ew H Hq Hht Hnz Hraw Hpl Hns) as (pads' & H' & _ & _ & _ & Pl).
  set (m' := w_dst w') in *.
  destruct (hi_good _ _ _ H' ht Hht) as [V G]. pose proof (hi_tags _ _ _ H' ht Hht) as T.
  destruct (obj_decode (bm_data m') ht V G T Hnz) as (raw' & Er' & Rw & _). rewrite Hraw in Er'. apply Ok_inj in Er'. subst raw'.
  pose proof G as (_ & Gs & Gi & Go). destruct (in_seg_elim _ _ _ _ Gi) as (T1 & T2 & T3 & T4 & T5).
  rewrite seg_len_bm in T4. pose proof (hi_small _ _ _ H' (p_seg ht)) as Hsh. unfold maxSegmentSize in Hsh.
  destruct (slot_geometry _ _ _ _ H Hq) as (Q1 & Q2 & Q3 & Q4 & _).
  apply (read_resolved_obj strict (bm_data m') rl (fst q) (snd q) ht raw depth p rl'); auto.
  apply (placed_resolves_to (bm_data m') (fst q) (snd q) (p_seg ht) (obj_start ht) raw _ pads' Pl); auto; try lia.
  - apply raw_word_ok. exact Rw.
  - rewrite zlen_bm. lia.
  - intros i Hi. rewrite seg_len_bm. pose proof (hi_small _ _ _ H' i) as X. unfold maxSegmentSize in X. exact X.
  - intros x Hx. pose proof (hi_in _ _ _ H' x ltac:(unfold all_regs; apply in_or_app; right; apply in_or_app; right; exact Hx)) as Ix.
    unfold in_msg in Ix. destruct (in_seg_elim _ _ _ _ Ix) as (_ & _ & _ & _ & Y5). exact Y5.
Qed.

(* ------------------------------------------------------------------ the success half *)
(* what readPtr charges for the object *)
Definition read_cost (h : Ptr) : Z :=
  match p_kind h with KStruct => totalSize (p_size h) | KList => list_readSize h | KIface => 0 end.

Lemma list_readSize_eq a b : p_valid a = p_valid b -> p_size a = p_size b -> p_len a = p_len b -> list_readSize a = list_readSize b.
Proof. intros E1 E2 E3. unfold list_readSize. now rewrite E1, E2, E3. Qed.

(* [read_resolved_total]: with a non-zero depth limit and a read limit that covers the object,
   readPtr on a pointer to table object [h] returns the handle of [h] and charges its size *)
Lemma read_resolved_total strict (ms : segs) rl sid off h raw depth :
  resolves_to ms sid off (p_seg h) (obj_start h) raw ->
  p_valid h = true -> good ms h -> tag_ok ms h -> raw_of h = Ok raw ->
  (p_kind h = KStruct -> os_isZero (p_size h) = false) ->
  seg_len ms (p_seg h) <= 4294967288 -> depth <> 0 -> read_cost h <= rl ->
  readPtr strict ms rl sid (nth (Z.to_nat sid) ms []) off depth = (Ok (handle_of h depth), rl - read_cost h).
Proof.
  intros RT Hv (Sh & Hseg & Hin & Hoff) Htag Hraw Hnz Hsl Hd Hrl.
  destruct (in_seg_elim _ _ _ _ Hin) as (G1 & G2 & G3 & G4 & G5). unfold seg_len in *.
  unfold handle_of, read_cost in *. unfold raw_of, shape_ok in *.
  destruct (p_kind h) eqn:EK.
  - (* struct *)
    destruct Sh as (Hw & Hc & Hl & Hb). specialize (Hnz eq_refl).
    destruct (struct_pointer_roundtrip 0 (p_size h) ltac:(unfold off_ok; lia) Hw) as (raw' & Er & Rw & Rt & Ro & Rs).
    rewrite Er in Hraw. cbn [of_opt_panic] in Hraw. apply Ok_inj in Hraw. subst raw'.
    assert (OS : obj_start h = p_off h) by (unfold obj_start; now rewrite Hc).
    assert (RS : totalSize (p_size h) <= r_size (obj_reg h)).
    { unfold obj_reg, obj_bytes. rewrite EK. cbn [r_size]. rewrite (HeapInv.totalSize_wf _ Hw). destruct Hw as (Hd1 & Hd2 & Hd3). unfold padToWord, u32. lia. }
    rewrite (resolved_read_struct strict ms rl sid off (p_seg h) (obj_start h) raw depth RT Rt); rewrite ?Rs; auto.
    + rewrite OS, Hc, Hl, Hb. reflexivity.
    + apply regionInBounds_true; unfold maxSegmentSize; lia.
  - (* list *)
    destruct Sh as (Hn & [(Hc & Hk)|(Hc & Hb & Hw & Ht)]).
    + (* plain list *)
      assert (OS : obj_start h = p_off h) by (unfold obj_start; now rewrite Hc).
      assert (LR : exists et es, list_raw h = Ok (rawListPointer 0 et (p_len h)) /\ 0 <= et < 7 /\
                     elementSize (rawListPointer 0 et (p_len h)) = Some es /\
                     (et = 1 -> p_bit h = true /\ p_size h = mkOS 0 0) /\ (et <> 1 -> p_bit h = false /\ p_size h = es) /\
                     (if et =? 1 then bitListSize (p_len h) else timesUnchecked (totalSize es) (p_len h)) <= padToWord (list_allocSize h)).
      { assert (ES : forall et, 0 <= et < 8 -> elementSize (rawListPointer 0 et (p_len h)) =
                       (if et =? 0 then Some (mkOS 0 0) else if et =? 1 then Some (mkOS 0 0)
                        else if et =? 2 then Some (mkOS 1 0) else if et =? 3 then Some (mkOS 2 0)
                        else if et =? 4 then Some (mkOS 4 0) else if et =? 5 then Some (mkOS 8 0)
                        else if et =? 6 then Some (mkOS 0 1) else None)).
        { intros et He. destruct (list_pointer_roundtrip 0 et (p_len h) ltac:(unfold off_ok; lia) He Hn) as (_ & _ & _ & L4 & _).
          cbv zeta in L4. unfold elementSize. cbv zeta. rewrite L4. reflexivity. }
        assert (PL : forall d pc, p_bit h = false -> p_size h = mkOS d pc -> 0 <= d <= 8 -> (pc = 0 \/ pc = 1 /\ d = 0) ->
                     timesUnchecked (totalSize (mkOS d pc)) (p_len h) <= padToWord (list_allocSize h)).
        { intros d pc Hb Hsz Hdd Hp. rewrite (list_alloc_plain h d pc) by auto.
          assert (T : totalSize (mkOS d pc) = d + 8 * pc) by (unfold totalSize, pointerSize, u32; cbn [DataSize PointerCount]; lia).
          rewrite T. assert (K : 0 <= (d + 8 * pc) * p_len h <= 4294967288) by nia.
          unfold timesUnchecked, u32. set (k := (d + 8 * pc) * p_len h) in *.
          replace ((d + 8 * pc) * (p_len h mod 4294967296)) with k by (unfold k; rewrite Z.mod_small by lia; reflexivity).
          clearbody k. unfold padToWord, u32. lia. }
        destruct Hk as [[Hb Hsz]|[Hb Hsz]].
        - exists 1, (mkOS 0 0). unfold list_raw, list_allocSize. rewrite Hv, Hc, Hb. cbn [negb].
          split; [reflexivity|]. split; [lia|]. split; [rewrite ES by lia; reflexivity|]. split; [auto|]. split; [lia|].
          change (1 =? 1) with true. cbv iota. unfold padToWord, bitListSize, u32. lia.
        - destruct Hsz as [Hsz|(d & Hsz & Hdv)].
          + exists 6, (mkOS 0 1). unfold list_raw. rewrite Hv, Hc, Hb, Hsz. cbn [negb PointerCount DataSize].
            change ((1 =? 1) && (0 =? 0)) with true. cbv iota.
            split; [reflexivity|]. split; [lia|]. split; [rewrite ES by lia; reflexivity|]. split; [lia|]. split; [auto|].
            change (6 =? 1) with false. cbv iota. apply (PL 0 1); auto; lia.
          + assert (LRd : list_raw h = Ok (rawListPointer 0 (if d =? 0 then 0 else if d =? 1 then 2 else if d =? 2 then 3 else if d =? 4 then 4 else 5) (p_len h))).
            { unfold list_raw. rewrite Hv, Hc, Hb, Hsz. cbn [negb PointerCount DataSize].
              change (0 =? 1) with false. rewrite Bool.andb_false_l. change (0 =? 0) with true. cbn [negb]. cbv iota zeta.
              destruct Hdv as [->|[->|[->|[->| ->]]]]; reflexivity. }
            destruct Hdv as [->|[->|[->|[->| ->]]]]; cbn [Z.eqb] in LRd.
            * exists 0, (mkOS 0 0). split; [exact LRd|]. split; [lia|]. split; [rewrite ES by lia; reflexivity|]. split; [lia|]. split; [auto|]. change (0 =? 1) with false. cbv iota. apply (PL 0 0); auto; lia.
            * exists 2, (mkOS 1 0). split; [exact LRd|]. split; [lia|]. split; [rewrite ES by lia; reflexivity|]. split; [lia|]. split; [auto|]. change (2 =? 1) with false. cbv iota. apply (PL 1 0); auto; lia.
            * exists 3, (mkOS 2 0). split; [exact LRd|]. split; [lia|]. split; [rewrite ES by lia; reflexivity|]. split; [lia|]. split; [auto|]. change (3 =? 1) with false. cbv iota. apply (PL 2 0); auto; lia.
            * exists 4, (mkOS 4 0). split; [exact LRd|]. split; [lia|]. split; [rewrite ES by lia; reflexivity|]. split; [lia|]. split; [auto|]. change (4 =? 1) with false. cbv iota. apply (PL 4 0); auto; lia.
            * exists 5, (mkOS 8 0). split; [exact LRd|]. split; [lia|]. split; [rewrite ES by lia; reflexivity|]. split; [lia|]. split; [auto|]. change (5 =? 1) with false. cbv iota. apply (PL 8 0); auto; lia. }
      destruct LR as (et & es & L1 & L2 & Ees & L3 & L4 & Lsz). rewrite L1 in Hraw. apply Ok_inj in Hraw. subst raw.
      destruct (list_pointer_roundtrip 0 et (p_len h) ltac:(unfold off_ok; lia) ltac:(lia) Hn) as (Rw & Rt & Ro & Rl & Rn).
      cbv zeta in *. set (raw := rawListPointer 0 et (p_len h)) in *.
      set (lsize := if et =? 1 then bitListSize (p_len h) else timesUnchecked (totalSize es) (p_len h)) in *.
      assert (TL : totalListSize raw = Some (Some lsize)).
      { unfold totalListSize. cbv zeta. rewrite Rl, Rn, Ees. unfold lsize. destruct (et =? 1) eqn:E1; [reflexivity|].
        destruct (et =? 7) eqn:E7; [lia|reflexivity]. }
      assert (L0 : 0 <= lsize) by (unfold lsize, bitListSize, timesUnchecked, u32; destruct (et =? 1); lia).
      assert (RS : r_size (obj_reg h) = padToWord (list_allocSize h)) by (unfold obj_reg, obj_bytes; rewrite EK; reflexivity).
      rewrite (resolved_read_list strict ms rl sid off (p_seg h) (obj_start h) raw depth lsize es RT Rt ltac:(lia) TL Ees); auto.
      * rewrite Rl, Rn, OS, Hc. destruct (et =? 1) eqn:E1.
        -- destruct (L3 ltac:(lia)) as [Hb Hsz]. cbn [p_size p_bit]. rewrite Hb, Hsz. f_equal. f_equal.
           apply list_readSize_eq; cbn [p_valid p_size p_len]; auto.
        -- destruct (L4 ltac:(lia)) as [Hb Hsz]. cbn [p_size p_bit]. rewrite Hb, Hsz. f_equal. f_equal.
           apply list_readSize_eq; cbn [p_valid p_size p_len]; auto.
      * apply regionInBounds_true; unfold maxSegmentSize; lia.
      * rewrite Rl, Rn. destruct (et =? 1) eqn:E1.
        -- destruct (L3 ltac:(lia)) as [Hb Hsz]. erewrite list_readSize_eq; [exact Hrl| | |]; cbn [p_valid p_size p_len]; auto.
        -- destruct (L4 ltac:(lia)) as [Hb Hsz]. erewrite list_readSize_eq; [exact Hrl| | |]; cbn [p_valid p_size p_len]; auto.
    + (* composite list *)
      destruct (Htag EK Hc) as (tag & Etag & Wtag).
      assert (W0 : 0 <= wc_of h) by (unfold wc_of; destruct Hw as (Hd' & Hm & Hp); lia).
      assert (K0 : 0 <= p_len h * wc_of h) by nia.
      assert (TW : totalWordCount (p_size h) = Some (wc_of h)).
      { unfold totalWordCount, dataWordCount, wc_of. destruct Hw as (Hd' & Hm & Hp). rewrite Hm. cbn [Z.eqb]. f_equal. apply s32_id. lia. }
      assert (S32 : s32 (p_len h * wc_of h) = p_len h * wc_of h) by (apply s32_id; lia).
      unfold list_raw in Hraw. rewrite Hv, Hc, TW in Hraw. cbn [negb] in Hraw. rewrite S32 in Hraw. apply Ok_inj in Hraw. subst raw.
      destruct (list_pointer_roundtrip 0 7 (p_len h * wc_of h) ltac:(unfold off_ok; lia) ltac:(lia) ltac:(lia)) as (Rw & Rt & Ro & Rl & Rn).
      cbv zeta in *. set (raw := rawListPointer 0 7 (p_len h * wc_of h)) in *.
      destruct (struct_pointer_roundtrip (p_len h) (p_size h) ltac:(unfold off_ok; lia) Hw) as (tag' & Et' & Tw & Tt & To & Ts).
      rewrite Etag in Et'. assert (tag' = tag) by congruence. subst tag'.
      destruct RT as (base & val & R & Vw & Vt & Vs & Vl & Vn & Ve).
      unfold obj_start in *. rewrite Hc in *.
      assert (RSz : r_size (obj_reg h) = 8 + 8 * (p_len h * wc_of h)).
      { unfold obj_reg, obj_bytes. rewrite EK. cbn [r_size]. rewrite (list_alloc_comp h) by (auto; lia). unfold padToWord, u32. lia. }
      rewrite RSz in *.
      unfold readPtr. rewrite (R strict).
      assert (Hv0 : (val =? 0) = false).
      { destruct (val =? 0) eqn:E; auto. assert (val = 0) by lia. subst val. rewrite Rt in Vt. cbv in Vt. discriminate. }
      rewrite Hv0. destruct (depth =? 0) eqn:ED; [lia|]. cbv zeta. rewrite Vt, Rt.
      change (listPointer =? structPointer) with false. change (listPointer =? listPointer) with true. cbv iota.
      unfold readListPtr. rewrite Ve.
      assert (TL : totalListSize val = Some (Some (8 * (p_len h * wc_of h + 1)))).
      { unfold totalListSize. cbv zeta. rewrite Vl, Vn, Rl, Rn. change (7 =? 1) with false. change (7 =? 7) with true. cbv iota.
        rewrite (s32_id (p_len h * wc_of h + 1)) by lia. unfold times. cbv zeta.
        destruct ((8 * (p_len h * wc_of h + 1) >? maxSegmentSize) || (8 * (p_len h * wc_of h + 1) <? 0)) eqn:EB; [unfold maxSegmentSize in EB; lia|reflexivity]. }
      rewrite TL. rewrite regionInBounds_true by (unfold maxSegmentSize; lia). cbn [negb]. cbv zeta.
      rewrite Vl, Rl. change (7 =? 7) with true. cbv iota.
      rewrite (read_of_word_at _ _ _ _ Wtag) by lia. cbn [bind].
      unfold addSize. cbv zeta. destruct (p_off h - 8 + 8 >? maxSegmentSize) eqn:EM; [unfold maxSegmentSize in EM; lia|].
      rewrite Tt. change (structPointer =? structPointer) with true. cbn [negb]. cbv zeta.
      rewrite Ts, To. rewrite (s32_id (p_len h)) by lia.
      assert (Hneg : (p_len h <? 0) = false) by lia. rewrite Hneg, Bool.andb_false_r.
      rewrite (totalSize_wf _ Hw). fold (wc_of h).
      assert (TM : times (8 * wc_of h) (p_len h) = Some (8 * (p_len h * wc_of h))).
      { unfold times. cbv zeta. replace (8 * wc_of h * p_len h) with (8 * (p_len h * wc_of h)) by ring.
        destruct ((8 * (p_len h * wc_of h) >? maxSegmentSize) || (8 * (p_len h * wc_of h) <? 0)) eqn:EB; [unfold maxSegmentSize in EB; lia|reflexivity]. }
      rewrite TM. rewrite regionInBounds_true by (unfold maxSegmentSize; lia). cbn [negb].
      cbn [p_seg p_off p_len p_size p_comp p_bit].
      set (lp := mkPtr true (p_seg h) (p_off h - 8 + 8) (p_len h) (p_size h) 0 KList true false false).
      assert (LRS : list_readSize lp = list_readSize h) by (apply list_readSize_eq; cbn [lp p_valid p_size p_len]; auto).
      rewrite LRS. unfold canRead. destruct (rl >=? list_readSize h) eqn:EC; [|lia].
      rewrite ?Hc, ?Hb. replace (p_off h - 8 + 8) with (p_off h) by lia. reflexivity.
  - destruct Sh.
Qed.

(* [read_slot_total]: the success half of [read_slot].  With a non-zero depth limit and a read
   limit that covers every table object, Segment.readPtr at any pointer slot of any table object
   or at the root succeeds; for a slot holding the words of object [h] it returns the handle of
   [h] and charges [read_cost h] *)
Theorem read_slot_total strict m objs pads q rl depth :
  hinv m objs pads -> In q ((0, 0) :: flat_map slots objs) ->
  depth <> 0 -> 0 <= rl -> (forall h, In h objs -> read_cost h <= rl) ->
  exists p rl', readPtr strict (bm_data m) rl (fst q) (nth (Z.to_nat (fst q)) (bm_data m) []) (snd q) depth = (Ok p, rl') /\
    (p = nullPtr /\ rl' = rl \/ p = empty_handle q depth /\ rl' = rl \/
     (exists h, In h objs /\ p = handle_of h depth /\ rl' = rl - read_cost h) \/
     (exists idx, 0 <= idx < 4294967296 /\ p = mkPtr true (fst q) 0 idx (mkOS 0 0) 0 KIface false false false /\ rl' = rl)).
Proof.
  intros H Hq Hd Hrl0 Hrl. destruct (slot_geometry _ _ _ _ H Hq) as (Q1 & Q2 & Q3 & Q4 & _).
  pose proof (hi_small _ _ _ H (fst q)) as Hsq. unfold maxSegmentSize in Hsq.
  assert (Near : forall w, word_at (bm_data m) (fst q) (snd q) = Some w -> w mod 4 = 0 \/ w mod 4 = 3 ->
            forall st, resolveFarPointer st (bm_data m) (fst q) (nth (Z.to_nat (fst q)) (bm_data m) []) (snd q) =
                       Ok (fst q, nth (Z.to_nat (fst q)) (bm_data m) [], snd q + 8, w)).
  { intros w W Hw st. unfold resolveFarPointer. rewrite (read_of_word_at _ _ _ _ W) by lia. cbn [bind]. cbv zeta.
    assert (PT : pointerType w = 0 \/ pointerType w = 3) by (unfold pointerType; cbv zeta; destruct Hw as [-> | ->]; auto).
    assert (PD : (pointerType w =? doubleFarPointer) = false) by (unfold doubleFarPointer; lia).
    assert (PF : (pointerType w =? farPointer) = false) by (unfold farPointer; lia).
    rewrite PD, PF.
    unfold addSize. cbv zeta. destruct (snd q + 8 >? maxSegmentSize) eqn:E; [unfold maxSegmentSize in E; lia|]. reflexivity. }
  destruct (depth =? 0) eqn:ED; [lia|].
  destruct (hi_slots _ _ _ H q Hq) as [S|[S|[(h & ps & raw & oldlen & Hh & Ips & Er & Hnz & Pl)|(idx & Hi & S)]]].
  - exists nullPtr, rl. split; [|left; auto]. unfold readPtr. rewrite (Near 0 S (or_introl eq_refl) strict). reflexivity.
  - exists (empty_handle q depth), rl. split; [|right; left; auto].
    unfold readPtr. rewrite (Near _ S (or_introl eq_refl) strict).
    change (empty_struct_word =? 0) with false. cbv iota. rewrite ED. cbv zeta.
    change (pointerType empty_struct_word =? structPointer) with true. cbv iota.
    unfold readStructPtr. change (ptr_offset empty_struct_word) with (-1). change (structSize empty_struct_word) with (mkOS 0 0).
    assert (EE : element (snd q + 8) (-1) 8 = Some (snd q)) by (apply element_spec; unfold maxSegmentSize; lia). rewrite EE.
    change (totalSize (mkOS 0 0)) with 0. rewrite regionInBounds_true by (unfold maxSegmentSize; rewrite ?nth_bm_data; lia). cbn [negb].
    unfold canRead, struct_readSize. cbn [p_valid p_size p_seg p_off]. change (totalSize (mkOS 0 0)) with 0.
    destruct (rl >=? 0) eqn:EC; [|lia]. unfold empty_handle. replace (rl - 0) with rl by lia. reflexivity.
  - destruct (hi_good _ _ _ H h Hh) as [V G]. pose proof (hi_tags _ _ _ H h Hh) as T.
    destruct (obj_decode (bm_data m) h V G T Hnz) as (raw' & Er' & Rw & _). rewrite Er in Er'. apply Ok_inj in Er'. subst raw'.
    pose proof G as (_ & Gs & Gi & Go). destruct (in_seg_elim _ _ _ _ Gi) as (T1 & T2 & T3 & T4 & T5).
    rewrite seg_len_bm in T4. pose proof (hi_small _ _ _ H (p_seg h)) as Hsh. unfold maxSegmentSize in Hsh.
    exists (handle_of h depth), (rl - read_cost h). split; [|right; right; left; exists h; auto].
    apply (read_resolved_total strict (bm_data m) rl (fst q) (snd q) h raw depth); auto.
    + apply (placed_resolves_to (bm_data m) (fst q) (snd q) (p_seg h) (obj_start h) raw oldlen ps); auto; try lia.
      * apply raw_word_ok. exact Rw.
      * rewrite zlen_bm. pose proof (hi_nsegs _ _ _ H). lia.
      * intros i Hi. rewrite seg_len_bm. pose proof (hi_small _ _ _ H i) as X. unfold maxSegmentSize in X. exact X.
      * intros x Hx. pose proof (hi_in _ _ _ H x ltac:(unfold all_regs; apply in_or_app; right; apply Ips; exact Hx)) as Ix.
        unfold in_msg in Ix. destruct (in_seg_elim _ _ _ _ Ix) as (_ & _ & _ & _ & Y5). exact Y5.
    + rewrite seg_len_bm. lia.
  - exists (mkPtr true (fst q) 0 idx (mkOS 0 0) 0 KIface false false false), rl. split; [|right; right; right; exists idx; auto].
    destruct (interface_pointer_roundtrip idx Hi) as (I1 & I2 & I3 & I4). cbv zeta in *.
    assert (Hm : rawInterfacePointer idx mod 4 = 3) by (rewrite rawInterfacePointer_sum by assumption; lia).
    assert (Hv0 : (rawInterfacePointer idx =? 0) = false) by (rewrite rawInterfacePointer_sum by assumption; lia).
    unfold readPtr. rewrite (Near _ S (or_intror Hm) strict). rewrite Hv0, ED. cbv zeta. rewrite I2.
    change (otherPointer =? structPointer) with false. change (otherPointer =? listPointer) with false.
    change (otherPointer =? otherPointer) with true. cbv iota. rewrite I3, I4. reflexivity.
Qed.
