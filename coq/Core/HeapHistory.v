(* C04 / C16: history-level consequences of the frames.
   - the frame part of [hinv]: a write inside the region of one table entry leaves the bytes of
     every other table entry (objects, root word, landing pads) unchanged;
   - over any sequence of steps with frames: a byte no step touches keeps its value, the last
     write to a field is what is read back ([last_write_wins]);
   - independence of a copy and its source. *)
From CV Require Import Core.Builder Core.ReaderFacts Core.ArithFacts Core.BuilderFacts Core.AllocProofs
  Core.WritePtrProofs Core.HeapProofs Core.CopyProofs Core.BuildOps Core.BuildValid Core.BuildInv Core.HeapInv Core.ReadBridge
  Core.HeapOps Core.HeapCopy Core.HeapCopySrc Core.HeapSteps.
From Coq Require Import ZifyBool ZifyNat.
Open Scope Z_scope.

Ltac Zify.zify_post_hook ::= Z.div_mod_to_equations.

(* ------------------------------------------------------------------ the frame part of hinv *)
Definition inside (r : region) (R : Z -> Z -> Prop) : Prop :=
  forall i k, R i k -> i = r_seg r /\ r_start r <= k < r_start r + r_size r.

Definition reg_bytes (m : bmsg) (r : region) : list Z := sub (mem m (r_seg r)) (r_start r) (r_size r).

Lemma keeps_region m m' R r r' :
  keeps m m' R -> inside r R -> reg_disjoint r r' = true -> in_msg (bm_data m) r' ->
  reg_bytes m' r' = reg_bytes m r'.
Proof.
  intros K Hins D Hin. unfold in_msg in Hin. destruct (in_seg_elim _ _ _ _ Hin) as (G1 & G2 & G3 & G4 & _).
  rewrite seg_len_bm in G4. unfold reg_bytes. apply (keeps_sub m m' R); auto; try lia.
  intros k Hk X. destruct (Hins _ _ X) as [E1 E2]. unfold reg_disjoint in D. lia.
Qed.

(* [hinv_other_regions]: a step whose write set lies inside table entry number j (the root word
   for j = 0, else an object) leaves every other object, the root word and every landing pad
   byte for byte unchanged *)
Theorem hinv_other_regions m objs pads m' R j :
  hinv m objs pads -> keeps m m' R -> (j < length (regsO objs))%nat -> inside (nth j (regsO objs) root_reg) R ->
  (forall j', j' <> j -> (j' < length (regsO objs))%nat ->
     reg_bytes m' (nth j' (regsO objs) root_reg) = reg_bytes m (nth j' (regsO objs) root_reg)) /\
  (forall p, In p pads -> reg_bytes m' p = reg_bytes m p).
Proof.
  intros H K Hj Hins. pose proof (hi_disjO _ _ _ H) as D. unfold ord_disjoint in D.
  assert (Hr : In (nth j (regsO objs) root_reg) (regsO objs)) by (apply nth_In; exact Hj).
  split.
  - intros j' Hne Hj'.
    assert (Hr' : In (nth j' (regsO objs) root_reg) (regsO objs)) by (apply nth_In; exact Hj').
    apply (keeps_region m m' R (nth j (regsO objs) root_reg)); auto.
    + destruct (Nat.lt_ge_cases j j') as [L|G]; [apply D; auto|apply reg_disjoint_sym; apply D; auto; lia].
    + apply (hi_in _ _ _ H). unfold all_regs. apply in_or_app. left. exact Hr'.
  - intros p Hp. apply (keeps_region m m' R (nth j (regsO objs) root_reg)); auto.
    + apply (hi_cross _ _ _ H); auto.
    + apply (hi_in _ _ _ H). unfold all_regs. apply in_or_app. right. exact Hp.
Qed.

(* ------------------------------------------------------------------ sequences of steps *)
(* a run, abstractly: messages related by frames (every op of the interpreter has one: data
   setters [setter_frame] = exactly the field, writePtr [frame_all] = the pointer word,
   copyStruct [copy_struct_ptrs] = the destination's sections, allocation [alloc_keeps] = nothing) *)
Inductive chain : bmsg -> list (Z -> Z -> Prop) -> bmsg -> Prop :=
| ch_nil m : chain m [] m
| ch_cons m m1 m2 R Rs : keeps m m1 R -> nsegs m <= nsegs m1 -> chain m1 Rs m2 -> chain m (R :: Rs) m2.

Lemma chain_keeps m Rs m' : chain m Rs m' -> keeps m m' (fun i k => Exists (fun R => R i k) Rs).
Proof.
  induction 1 as [m|m m1 m2 R Rs K N C IH].
  - eapply keeps_weaken; [|apply keeps_refl]. intros i k _ _ X. exact X.
  - eapply keeps_weaken; [|eapply keeps_trans; [exact K|exact IH]].
    intros i k _ _ [X|X]; [left; exact X|right; exact X].
Qed.

(* a byte that no step of the run touches keeps its value *)
Theorem chain_untouched m Rs m' i k :
  chain m Rs m' -> 0 <= i -> 0 <= k < zlen (mem m i) -> Forall (fun R : Z -> Z -> Prop => ~ R i k) Rs ->
  nth (Z.to_nat k) (mem m' i) 0 = nth (Z.to_nat k) (mem m i) 0.
Proof.
  intros C Hi Hk F. apply (proj2 (chain_keeps _ _ _ C)); auto.
  intros X. apply Exists_exists in X. destruct X as (R & HR & X). rewrite Forall_forall in F. exact (F R HR X).
Qed.

(* [last_write_wins]: what a setter wrote into a field is what is read back after any number of
   later steps none of which touches the field - setters on other fields or objects, pointer
   setters, copies, allocations *)
Theorem last_write_wins m0 m1 Rs m' sid addr bs :
  wrote m0 m1 sid addr bs -> 0 <= sid -> zlen (mem m0 sid) < 4294967296 -> zlen (mem m' sid) < 4294967296 ->
  chain m1 Rs m' ->
  Forall (fun R : Z -> Z -> Prop => forall k, addr <= k < addr + zlen bs -> ~ R sid k) Rs ->
  slice (mem m' sid) addr (zlen bs) = Ok bs.
Proof.
  intros W Hs Hl Hl' C F.
  pose proof (wrote_slice_same _ _ _ _ _ W Hl) as S1.
  destruct (slice_sub _ _ _ _ S1) as (n & En & B0 & Bn & B1).
  assert (Ln : zlen bs = n) by (rewrite En at 1; apply sub_length; lia).
  pose proof (chain_keeps _ _ _ C) as K.
  assert (E : sub (mem m' sid) addr n = sub (mem m1 sid) addr n).
  { apply (keeps_sub m1 m' _ sid addr n K); auto; try lia.
    intros k Hk X. apply Exists_exists in X. destruct X as (R & HR & X). rewrite Forall_forall in F. apply (F R HR k); [lia|exact X]. }
  pose proof (proj1 K sid Hs) as Lm.
  rewrite Ln. rewrite slice_ok by lia. f_equal. rewrite E. symmetry. exact En.
Qed.

Lemma chain_nsegs m Rs m' : chain m Rs m' -> nsegs m <= nsegs m'.
Proof. induction 1; lia. Qed.

(* ------------------------------------------------------------------ the last pointer setter wins *)
Lemma placed_keeps m m' (R : Z -> Z -> Prop) d off t ta raw oldlen ps :
  placed (bm_data m) d off t ta raw oldlen ps -> keeps m m' R -> nsegs m <= nsegs m' ->
  (forall k, off <= k < off + 8 -> ~ R d k) ->
  (forall r, In r ps -> forall k, r_start r <= k < r_start r + r_size r -> ~ R (r_seg r) k) ->
  placed (bm_data m') d off t ta raw oldlen ps.
Proof.
  intros Pl K Hn Hq Hp.
  assert (W : forall i b w, word_at (bm_data m) i b = Some w -> (forall k, b <= k < b + 8 -> ~ R i k) ->
                word_at (bm_data m') i b = Some w).
  { intros i b w E HR. destruct (word_at_range _ _ _ _ E) as (G1 & G2 & G3). rewrite zlen_bm in G1. rewrite seg_len_bm in G3.
    rewrite <- E. apply (keeps_word m m' R); auto. }
  destruct Pl as [E W1|padAddr Hne Epa W1 W2|psid padAddr Hne Hps Epa W1 W2 W3].
  - apply PlNear; auto.
  - apply PlFar; auto. apply W; auto. intros k Hk. apply (Hp _ (or_introl eq_refl)). cbn [r_start r_size]. lia.
  - apply PlDfar; auto; apply W; auto; intros k Hk; apply (Hp _ (or_introl eq_refl)); cbn [r_start r_size]; lia.
Qed.

(* [last_pointer_wins]: the words a pointer setter stored for object [ht] at slot [q]; any number
   of later steps none of which touches the slot word or its landing pads (setters elsewhere,
   other pointer setters, copies, allocations); then Segment.readPtr at [q] still returns the
   handle of [ht] *)
Theorem last_pointer_wins m1 Rs m' objs' pads' q ht raw oldlen ps strict rl depth p rl' :
  placed (bm_data m1) (fst q) (snd q) (p_seg ht) (obj_start ht) raw oldlen ps ->
  chain m1 Rs m' ->
  Forall (fun R : Z -> Z -> Prop => (forall k, snd q <= k < snd q + 8 -> ~ R (fst q) k) /\
            (forall r, In r ps -> forall k, r_start r <= k < r_start r + r_size r -> ~ R (r_seg r) k)) Rs ->
  hinv m' objs' pads' -> In ht objs' -> incl ps pads' -> snd q mod 8 = 0 ->
  raw_of ht = Ok raw -> (p_kind ht = KStruct -> os_isZero (p_size ht) = false) ->
  readPtr strict (bm_data m') rl (fst q) (nth (Z.to_nat (fst q)) (bm_data m') []) (snd q) depth = (Ok p, rl') ->
  p = handle_of ht depth.
Proof.
  intros Pl C F H' Hht Ips Hqa Hraw Hnz HR.
  assert (Pl' : placed (bm_data m') (fst q) (snd q) (p_seg ht) (obj_start ht) raw oldlen ps).
  { apply (placed_keeps m1 m' (fun i k => Exists (fun R => R i k) Rs)); auto.
    - apply chain_keeps. exact C.
    - apply chain_nsegs with (Rs := Rs). exact C.
    - intros k Hk X. apply Exists_exists in X. destruct X as (R & HR' & X). rewrite Forall_forall in F. apply (proj1 (F R HR') k Hk X).
    - intros r Hr k Hk X. apply Exists_exists in X. destruct X as (R & HR' & X). rewrite Forall_forall in F. apply (proj2 (F R HR') r Hr k Hk X). }
  destruct (hi_good _ _ _ H' ht Hht) as [V G]. pose proof (hi_tags _ _ _ H' ht Hht) as T.
  destruct (obj_decode (bm_data m') ht V G T Hnz) as (raw' & Er' & Rw & _). rewrite Hraw in Er'. apply Ok_inj in Er'. subst raw'.
  pose proof G as (_ & Gs & Gi & Go). destruct (in_seg_elim _ _ _ _ Gi) as (T1 & T2 & T3 & T4 & T5).
  rewrite seg_len_bm in T4. pose proof (hi_small _ _ _ H' (p_seg ht)) as Hsh. unfold maxSegmentSize in Hsh.
  apply (read_resolved_obj strict (bm_data m') rl (fst q) (snd q) ht raw depth p rl'); auto.
  apply (placed_resolves_to (bm_data m') (fst q) (snd q) (p_seg ht) (obj_start ht) raw oldlen ps Pl'); auto; try lia.
  - apply raw_word_ok. exact Rw.
  - rewrite zlen_bm. pose proof (hi_nsegs _ _ _ H'). lia.
  - intros i Hi. rewrite seg_len_bm. pose proof (hi_small _ _ _ H' i) as X. unfold maxSegmentSize in X. exact X.
  - intros x Hx. pose proof (hi_in _ _ _ H' x ltac:(unfold all_regs; apply in_or_app; right; apply Ips; exact Hx)) as Ix.
    unfold in_msg in Ix. destruct (in_seg_elim _ _ _ _ Ix) as (_ & _ & _ & _ & Y5). exact Y5.
Qed.

(* ------------------------------------------------------------------ independence of a copy and its source *)
(* inside one message: a copy consists of table entries that did not exist before (copy_all:
   the tables are extended), so its regions are disjoint from every older object; a later write
   inside an older object (the source or anything else) leaves every byte of the copy unchanged,
   and a later write inside an object of the copy leaves every older object unchanged *)
Theorem copy_independent m objs eo pads m' R j :
  hinv m (objs ++ eo) pads -> keeps m m' R -> (j < length (regsO (objs ++ eo)))%nat ->
  inside (nth j (regsO (objs ++ eo)) root_reg) R ->
  (* the written entry is an old one: the copy is unchanged *)
  ((j <= length objs)%nat -> forall c, (length objs < c < length (regsO (objs ++ eo)))%nat ->
     reg_bytes m' (nth c (regsO (objs ++ eo)) root_reg) = reg_bytes m (nth c (regsO (objs ++ eo)) root_reg)) /\
  (* the written entry belongs to the copy: everything older is unchanged *)
  ((length objs < j)%nat -> forall o, (o <= length objs)%nat ->
     reg_bytes m' (nth o (regsO (objs ++ eo)) root_reg) = reg_bytes m (nth o (regsO (objs ++ eo)) root_reg)).
Proof.
  intros H K Hj Hins. destruct (hinv_other_regions m (objs ++ eo) pads m' R j H K Hj Hins) as [A _].
  split; intros Hjo x Hx; apply A; lia.
Qed.

(* between two messages: no op of the builder writes the source message ... *)
Theorem bstep_src_eq e st o st' out :
  dst_only st o -> bstep e st o = (Some st', out) -> w_src (st_w st') = w_src (st_w st).
Proof.
  intros Hdo. unfold bstep.
  assert (WP : forall f w d o l src fc w', write_ptr f true w d o l src fc = Ok w' -> w_src w' = w_src w).
  { intros f. exact (proj1 (src_pres true f) true). }
  assert (CP : forall f w dst l src w', copy_struct f true w dst l src = Ok w' -> w_src w' = w_src w).
  { intros f. exact (proj2 (src_pres true f) true). }
  assert (DS : forall h (F : bmsg -> res bmsg), fst (hget st h) = InDst ->
             dset st (set_in (st_w st) (fst (hget st h)) F) = (Some st', out) -> w_src (st_w st') = w_src (st_w st)).
  { intros h F El E. rewrite El in E. unfold dset, set_in in E.
    destruct (lift0 (st_w st) (F (w_dst (st_w st)))) as [w1| |] eqn:EL; injection E as <- _; auto.
    apply (lift0_src _ _ _ EL). }
  assert (PS : forall r, (forall w1, r = Ok w1 -> w_src w1 = w_src (st_w st)) -> pset st r = (Some st', out) -> w_src (st_w st') = w_src (st_w st)).
  { intros r Hr E. unfold pset in E. destruct r as [w1| |]; try discriminate. injection E as <- _. cbn [st_w]. auto. }
  destruct o; cbv zeta.
  1-5,7: (destruct (negb (valid_sid st sid)); [intros E; injection E as <- _; reflexivity|];
          unfold ctor; match goal with |- (match ?r with _ => _ end) = _ -> _ => destruct r as [[m1 p1]| |] end;
          intros E; try discriminate E; injection E as <- _; reflexivity).
  - destruct (negb (valid_sid st sid)); [intros E; injection E as <- _; reflexivity|].
    destruct (newVoidList sid n); intros E; injection E as <- _; reflexivity.
  - destruct (negb (valid_sid st sid)); intros E; injection E as <- _; reflexivity.
  - intros E. injection E as <- _. reflexivity.
  - destruct (hget st h) as [l p] eqn:EH. intros E. apply (DS h (fun m0 => struct_set_uint m0 (as_struct p) off n v)); [exact Hdo|rewrite EH; exact E].
  - destruct (hget st h) as [l p] eqn:EH. intros E. apply (DS h (fun m0 => struct_set_bit m0 (as_struct p) n v)); [exact Hdo|rewrite EH; exact E].
  - destruct (hget st h) as [l p] eqn:EH. intros E. apply (DS h (fun m0 => list_set_uint m0 (as_list p) i n v)); [exact Hdo|rewrite EH; exact E].
  - destruct (hget st h) as [l p] eqn:EH. intros E. apply (DS h (fun m0 => bitlist_set m0 (as_list p) i v)); [exact Hdo|rewrite EH; exact E].
  - destruct (hget st h) as [l p]. destruct (hget st hs) as [ls q]. destruct (is_src l); [discriminate|].
    apply PS. intros w1 E. unfold struct_set_ptr in E. destruct (negb _ || _); [discriminate|]. apply (WP _ _ _ _ _ _ _ _ E).
  - destruct (hget st h) as [l p]. destruct (hget st hs) as [ls q]. destruct (is_src l); [discriminate|].
    apply PS. intros w1 E. unfold ptrlist_set in E. destruct (primitiveElem _ _ _ _); cbn [bind] in E; try discriminate. apply (WP _ _ _ _ _ _ _ _ E).
  - destruct (hget st h) as [l p]. destruct (hget st hs) as [ls q]. destruct (is_src l); [discriminate|].
    apply PS. intros w1 E. unfold list_set_struct in E. destruct (p_bit _); [discriminate|].
    destruct (list_struct _ _ _); cbn [bind] in E; try discriminate. apply (CP _ _ _ _ _ _ E).
  - destruct (hget st h) as [l p]. destruct (hget st hs) as [ls q]. destruct (is_src l); [discriminate|].
    apply PS. intros w1 E. apply (CP _ _ _ _ _ _ E).
  - destruct (hget st hs) as [ls q]. apply PS. intros w1 E. unfold set_root, set_root_gen in E.
    destruct (bm_segs _); [discriminate|]. destruct (negb _); [discriminate|]. apply (WP _ _ _ _ _ _ _ _ E).
  - destruct (step _ _ _ _ _) as [rs' v0]. intros E. injection E as <- _. cbn [st_w].
    destruct (w_set_rl_dst (st_w st) (match op_handle o with Some h => fst (hget st h) | None => l end) (rs_rl rs')) as (_ & _ & T3). exact T3.
  - destruct (root _ _ _) as [r rl]. intros E. injection E as <- _. reflexivity.
  - destruct l; intros E; injection E as <- _; reflexivity.
  - intros E. injection E as <- _. reflexivity.
Qed.

(* ... and a data setter applied to a source handle does not write the message under construction *)
Theorem src_setter_dst w (F : bmsg -> res bmsg) w' : set_in w InSrc F = Ok w' -> w_dst w' = w_dst w.
Proof.
  unfold set_in. destruct (F (src_bmsg w)); cbn [bind]; try discriminate. intros H. apply Ok_inj in H. subst w'. reflexivity.
Qed.
