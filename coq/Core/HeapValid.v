(* C05: from the pointer-level invariant to the strict validity predicate:
     hinv m objs pads -> valid_message (bm_data m) = VOk.
   The worklist of [valid_message] visits every position at most once; positions are words of
   the message, so total_words + 2 units of fuel suffice (pigeonhole: NoDup_incl_length); every
   position it reaches is a table slot, whose pointer the invariant resolves; the regions it
   collects are table regions, pairwise equal or disjoint. *)
From CV Require Import Core.Builder Core.ReaderFacts Core.BuilderFacts Core.AllocProofs
  Core.WritePtrProofs Core.HeapProofs Core.BuildOps Core.BuildValid Core.BuildInv Core.HeapInv Core.HeapOps Core.HeapCopy Core.HeapSteps.
From Coq Require Import ZifyBool ZifyNat FinFun.
Open Scope Z_scope.

Ltac Zify.zify_post_hook ::= Z.div_mod_to_equations.

(* ------------------------------------------------------------------ all word positions *)
Definition seg_positions (sid : Z) (nwords : nat) : list (Z * Z) :=
  map (fun k => (sid, 8 * Z.of_nat k)) (seq 0 nwords).

Fixpoint all_pos_from (m : segs) (sid : Z) : list (Z * Z) :=
  match m with
  | [] => []
  | s :: r => seg_positions sid (Z.to_nat (zlen s / 8)) ++ all_pos_from r (sid + 1)
  end.
Definition all_positions (m : segs) : list (Z * Z) := all_pos_from m 0.

Lemma all_pos_length (m : segs) : forall sid, Z.of_nat (length (all_pos_from m sid)) = total_words m.
Proof.
  induction m as [|s r IH]; intros sid; cbn [all_pos_from total_words fold_right length]; [reflexivity|].
  rewrite app_length. unfold seg_positions. rewrite map_length, seq_length. rewrite Nat2Z.inj_add, IH.
  unfold total_words. pose proof (zlen_nonneg s). lia.
Qed.

Lemma in_all_pos (m : segs) : forall sid s a,
  sid <= s < sid + zlen m -> 0 <= a -> a mod 8 = 0 -> a + 8 <= zlen (nth (Z.to_nat (s - sid)) m []) ->
  In (s, a) (all_pos_from m sid).
Proof.
  induction m as [|x r IH]; intros sid s a Hs Ha Hm Hl; [unfold zlen in Hs; cbn in Hs; lia|].
  cbn [all_pos_from]. apply in_or_app.
  destruct (Z.eq_dec s sid) as [->|Hne].
  - left. replace (sid - sid) with 0 in Hl by lia. cbn [Z.to_nat nth] in Hl.
    unfold seg_positions. apply in_map_iff. exists (Z.to_nat (a / 8)). split; [f_equal; lia|].
    apply in_seq. lia.
  - right. apply IH; try lia.
    + unfold zlen in *. cbn [length] in Hs. lia.
    + replace (Z.to_nat (s - sid)) with (S (Z.to_nat (s - (sid + 1)))) in Hl by lia. exact Hl.
Qed.

(* ------------------------------------------------------------------ the worklist *)
Lemma mem_pos_false p l : ~ In p l -> mem_pos p l = false.
Proof.
  intros H. unfold mem_pos. destruct (existsb (pos_eqb p) l) eqn:E; auto.
  apply existsb_exists in E. destruct E as (x & Hx & Ex). unfold pos_eqb in Ex.
  exfalso. apply H. destruct p, x. cbn in Ex. assert (z = z1 /\ z0 = z2) as [-> ->] by lia. exact Hx.
Qed.

Lemma mem_pos_true_in p l : mem_pos p l = true -> In p l.
Proof.
  unfold mem_pos. intros E. apply existsb_exists in E. destruct E as (x & Hx & Ex). unfold pos_eqb in Ex.
  destruct p, x. cbn in Ex. assert (z = z1 /\ z0 = z2) as [-> ->] by lia. exact Hx.
Qed.

Lemma NoDup_app_local {A} (a b : list A) :
  NoDup a -> NoDup b -> (forall x, In x a -> In x b -> False) -> NoDup (a ++ b).
Proof.
  induction a as [|x a IH]; intros Ha Hb Hd; cbn [app]; [exact Hb|].
  inversion Ha as [|? ? Hx Ha']; subst. constructor.
  - intros X. apply in_app_or in X. destruct X as [X|X]; [contradiction|]. apply (Hd x); [left; reflexivity|exact X].
  - apply IH; auto. intros y Hy. apply Hd. right. exact Hy.
Qed.

Lemma NoDup_app_disj {A} (a b : list A) : NoDup (a ++ b) -> forall x, In x a -> In x b -> False.
Proof.
  induction a as [|y a IH]; intros H x Ha Hb; [destruct Ha|]. cbn [app] in H. inversion H as [|? ? Hy H']; subst.
  destruct Ha as [<-|Ha]; [apply Hy; apply in_or_app; right; exact Hb|]. eapply IH; eauto.
Qed.

Lemma mem_pos_in p l : In p l -> mem_pos p l = true.
Proof.
  intros H. unfold mem_pos. apply existsb_exists. exists p. split; [exact H|]. unfold pos_eqb. destruct p. cbn. lia.
Qed.

Lemma NoDup_app_l {A} (a b : list A) : NoDup (a ++ b) -> NoDup a.
Proof.
  induction a as [|x a IH]; intros H; [constructor|]. cbn [app] in H. inversion H as [|? ? Hx H']; subst.
  constructor; [intros X; apply Hx; apply in_or_app; left; exact X|apply IH; exact H'].
Qed.
Lemma NoDup_app_r {A} (a b : list A) : NoDup (a ++ b) -> NoDup b.
Proof. induction a as [|x a IH]; intros H; [exact H|]. cbn [app] in H. inversion H; subst. auto. Qed.

Section Worklist.
  Variable m : segs.
  Variable G : Z * Z -> Prop.
  Variable Rg : region -> Prop.
  Hypothesis G_pos : forall p, G p -> In p (all_positions m).
  Hypothesis G_res : forall p, G p -> exists t rs,
      resolve_ptr m (fst p) (snd p) = (t, rs) /\ is_bad t = false /\ NoDup (children t) /\
      (forall c, In c (children t) -> G c) /\ Forall Rg rs.

  Lemma collect_ok : forall fuel work visited acc,
    NoDup (work ++ visited) -> Forall G work -> incl visited (all_positions m) -> Forall Rg acc ->
    (length (all_positions m) - length visited < fuel)%nat ->
    exists acc', collect_regions m fuel work visited acc = (VOk, acc') /\ Forall Rg acc'.
  Proof.
    induction fuel as [|f IH]; intros work visited acc ND GW IV RA Hf.
    - destruct work as [|p rest]; [exists acc; split; [reflexivity|exact RA]|]. lia.
    - destruct work as [|p rest]; [exists acc; split; [reflexivity|exact RA]|].
      cbn [collect_regions].
      inversion GW as [|? ? Gp Grest]; subst.
      assert (Pnv : ~ In p visited).
      { cbn [app] in ND. inversion ND as [|? ? Hnin _]; subst. intros X. apply Hnin. apply in_or_app. right. exact X. }
      rewrite (mem_pos_false _ _ Pnv).
      destruct (G_res p Gp) as (t & rs & E & NB & NDc & Gc & Rrs). rewrite E.
      set (fresh := filter (fun c => negb (mem_pos c (p :: visited)) && negb (mem_pos c rest)) (children t)).
      assert (Hstep : exists acc', collect_regions m f (fresh ++ rest) (p :: visited) (rs ++ acc) = (VOk, acc') /\ Forall Rg acc').
      { apply IH.
        - (* NoDup ((fresh ++ rest) ++ p :: visited) *)
          cbn [app] in ND. inversion ND as [|? ? Hnin ND']; subst.
          rewrite <- app_assoc. apply NoDup_app_local.
          + apply NoDup_filter. exact NDc.
          + apply NoDup_app_local.
            * apply (NoDup_app_l _ _ ND').
            * constructor; [exact Pnv|apply (NoDup_app_r _ _ ND')].
            * intros x Hx [<-|Hv]; [apply Hnin; apply in_or_app; left; exact Hx|].
              apply (NoDup_app_disj _ _ ND' x Hx Hv).
          + intros x Hx Hx2. unfold fresh in Hx. apply filter_In in Hx. destruct Hx as [_ Hx].
            apply andb_prop in Hx. destruct Hx as [H1 H2].
            apply in_app_or in Hx2. destruct Hx2 as [Hr|Hpv].
            * rewrite (mem_pos_in _ _ Hr) in H2. discriminate H2.
            * rewrite (mem_pos_in _ _ Hpv) in H1. discriminate H1.
        - apply Forall_app. split; [|exact Grest]. apply Forall_forall. intros c Hc. unfold fresh in Hc.
          apply filter_In in Hc. apply Gc. apply Hc.
        - intros x [<-|Hx]; [apply G_pos; exact Gp|apply IV; exact Hx].
        - apply Forall_app. split; assumption.
        - assert (L : (length (p :: visited) <= length (all_positions m))%nat).
          { apply NoDup_incl_length.
            - constructor; [exact Pnv|]. cbn [app] in ND. inversion ND; subst. eapply NoDup_app_r; eauto.
            - intros x [<-|Hx]; [apply G_pos; exact Gp|apply IV; exact Hx]. }
          cbn [length] in *. lia. }
      destruct t; cbn in NB; try discriminate NB; exact Hstep.
  Qed.
End Worklist.

(* ------------------------------------------------------------------ children of decoded targets *)
Lemma NoDup_zseq start n : NoDup (zseq start 8 n).
Proof.
  unfold zseq. apply Injective_map_NoDup; [|apply seq_NoDup].
  intros x y E. lia.
Qed.

Lemma NoDup_pair_map (s : Z) (l : list Z) : NoDup l -> NoDup (map (fun a : Z => (s, a)) l).
Proof. intros H. apply Injective_map_NoDup; [|exact H]. intros x y E. congruence. Qed.

Lemma NoDup_flat_map_disj {A B} (f : A -> list B) (l : list A) :
  NoDup l -> (forall x, In x l -> NoDup (f x)) ->
  (forall x y z, In x l -> In y l -> x <> y -> In z (f x) -> In z (f y) -> False) ->
  NoDup (flat_map f l).
Proof.
  induction l as [|a l IH]; intros Hl Hf Hd; cbn [flat_map]; [constructor|].
  inversion Hl as [|? ? Ha Hl']; subst. apply NoDup_app_local.
  - apply Hf. left. reflexivity.
  - apply IH; auto.
    + intros x Hx. apply Hf. right. exact Hx.
    + intros x y z Hx Hy. apply Hd; right; assumption.
  - intros z Hz1 Hz2. apply in_flat_map in Hz2. destruct Hz2 as (y & Hy & Hz2).
    apply (Hd a y z); auto; [left; reflexivity|right; exact Hy|]. intros ->. contradiction.
Qed.

Lemma NoDup_comp_children sid addr cnt dw pc : 0 <= dw -> 0 <= pc -> NoDup (children (GComp sid addr cnt dw pc)).
Proof.
  intros Hd Hp. cbn [children]. apply NoDup_flat_map_disj.
  - unfold zseq. apply Injective_map_NoDup; [|apply seq_NoDup]. intros x y E. lia.
  - intros e _. apply NoDup_pair_map, NoDup_zseq.
  - intros e e' z He He' Hne Hz Hz'.
    unfold zseq in He, He'. apply in_map_iff in He. destruct He as (n & <- & _). apply in_map_iff in He'. destruct He' as (n' & <- & _).
    apply in_map_iff in Hz. destruct Hz as (a & <- & Ha). apply in_map_iff in Hz'. destruct Hz' as (a' & E & Ha').
    unfold zseq in Ha, Ha'. apply in_map_iff in Ha. destruct Ha as (k & <- & Hk). apply in_map_iff in Ha'. destruct Ha' as (k' & <- & Hk').
    apply in_seq in Hk. apply in_seq in Hk'.
    assert (E' : (0 + 1 * Z.of_nat n') * (dw + pc) + Z.of_nat k' = (0 + 1 * Z.of_nat n) * (dw + pc) + Z.of_nat k) by (apply (f_equal snd) in E; cbn [snd] in E; lia).
    assert (Z.of_nat n = Z.of_nat n') by nia. apply Hne. lia.
Qed.

Lemma decode_obj_children (ms : segs) sid base w t rs :
  decode_obj ms sid base w = (t, rs) -> simple_target t ->
  NoDup (children t) /\ (forall r, rs = [r] -> r_size r = 0 -> children t = []).
Proof.
  intros H S. unfold decode_obj in H. cbv zeta in H.
  destruct (f_A w =? 0).
  - destruct (in_seg ms sid _ _).
    2:{ inversion H; subst; cbn in S; contradiction. }
    apply pair_equal_spec in H. destruct H as [<- <-].
    cbn [children]. split; [apply NoDup_pair_map, NoDup_zseq|].
    intros r Er Hz. assert (Er' : r = mkReg sid (base + 8 * f_off w) (8 * (f_dw w + f_pc w))) by congruence.
    subst r. change (8 * (f_dw w + f_pc w) = 0) in Hz.
    assert (Hpc : f_pc w = 0) by (unfold f_dw, f_pc in *; lia). rewrite Hpc. reflexivity.
  - destruct (f_C w <? 7) eqn:E7.
    + destruct (in_seg ms sid _ _).
      2:{ inversion H; subst; cbn in S; contradiction. }
      apply pair_equal_spec in H. destruct H as [<- <-].
      cbn [children]. destruct (f_C w =? 6) eqn:E6; [|split; [constructor|reflexivity]].
      split; [apply NoDup_pair_map, NoDup_zseq|].
      intros r Er Hz. assert (Er' : r = mkReg sid (base + 8 * f_off w) ((f_D w * et_bits (f_C w) + 63) / 64 * 8)) by congruence.
      subst r. change ((f_D w * et_bits (f_C w) + 63) / 64 * 8 = 0) in Hz.
      assert (HC : f_C w = 6) by lia. rewrite HC in Hz. change (et_bits 6) with 64 in Hz.
      assert (HD : f_D w = 0) by (unfold f_D in *; lia). rewrite HD. reflexivity.
    + destruct (negb (in_seg ms sid _ _)); [inversion H; subst; cbn in S; contradiction|].
      destruct (word_at ms sid (base + 8 * f_off w)) as [tag|]; [|inversion H; subst; cbn in S; contradiction].
      destruct (negb (f_A tag =? 0)); [inversion H; subst; cbn in S; contradiction|].
      destruct (negb _); [inversion H; subst; cbn in S; contradiction|].
      apply pair_equal_spec in H. destruct H as [<- <-]. split.
      * apply NoDup_comp_children; unfold f_dw, f_pc, two32; lia.
      * intros r Er Hz. exfalso.
        assert (Er' : r = mkReg sid (base + 8 * f_off w) (8 + 8 * f_D w)) by congruence.
        subst r. change (8 + 8 * f_D w = 0) in Hz. unfold f_D in Hz. lia.
Qed.

Lemma resolve_children (ms : segs) s a t rs :
  resolve_ptr ms s a = (t, rs) -> simple_target t ->
  NoDup (children t) /\ (forall ps r, rs = ps ++ [r] -> r_size r = 0 -> children t = []) /\ (rs = [] -> children t = []).
Proof.
  intros H S. unfold resolve_ptr in H.
  destruct (word_at ms s a) as [w|]; [|inversion H; subst; cbn in S; contradiction].
  destruct (w =? 0); [inversion H; subst; split; [constructor|split; reflexivity]|].
  destruct (f_A w =? 3).
  { destruct (_ =? 0); inversion H; subst; [split; [constructor|split; reflexivity]|cbn in S; contradiction]. }
  destruct (f_A w =? 2).
  - cbv zeta in H. destruct (f_B w =? 0).
    + destruct (negb _); [inversion H; subst; cbn in S; contradiction|].
      destruct (word_at ms (f_seg w) (8 * f_padoff w)) as [pw|]; [|inversion H; subst; cbn in S; contradiction].
      destruct (_ || _); [inversion H; subst; cbn in S; contradiction|].
      destruct (decode_obj ms (f_seg w) (8 * f_padoff w + 8) pw) as [t0 rs0] eqn:ED. inversion H; subst.
      destruct (decode_obj_children _ _ _ _ _ _ ED S) as [N Z]. split; [exact N|]. split; [|discriminate].
      intros ps r E Hz. destruct (decode_obj_one _ _ _ _ _ _ ED S) as [r0 ->].
      apply (Z r0); [reflexivity|].
      match type of E with ?x :: [r0] = _ => change (x :: [r0]) with ([x] ++ [r0]) in E end.
      symmetry in E. apply app_inj_tail in E. destruct E as [_ E]. subst r. exact Hz.
    + destruct (negb _); [inversion H; subst; cbn in S; contradiction|].
      destruct (word_at ms (f_seg w) (8 * f_padoff w)) as [fw|]; [|inversion H; subst; cbn in S; contradiction].
      destruct (word_at ms (f_seg w) (8 * f_padoff w + 8)) as [tag|]; [|inversion H; subst; cbn in S; contradiction].
      destruct (negb _); [inversion H; subst; cbn in S; contradiction|].
      destruct (_ || _); [inversion H; subst; cbn in S; contradiction|].
      destruct (decode_obj ms (f_seg fw) (8 * f_padoff fw) tag) as [t0 rs0] eqn:ED. inversion H; subst.
      destruct (decode_obj_children _ _ _ _ _ _ ED S) as [N Z]. split; [exact N|]. split; [|discriminate].
      intros ps r E Hz. destruct (decode_obj_one _ _ _ _ _ _ ED S) as [r0 ->].
      apply (Z r0); [reflexivity|].
      match type of E with ?x :: [r0] = _ => change (x :: [r0]) with ([x] ++ [r0]) in E end.
      symmetry in E. apply app_inj_tail in E. destruct E as [_ E]. subst r. exact Hz.
  - destruct (decode_obj ms s (a + 8) w) as [t0 rs0] eqn:ED. inversion H; subst.
    destruct (decode_obj_children _ _ _ _ _ _ ED S) as [N Z]. split; [exact N|].
    split; [|intros X; destruct (decode_obj_one _ _ _ _ _ _ ED S) as [r0 Y]; rewrite Y in X; discriminate X].
    intros ps r E Hz. destruct (decode_obj_one _ _ _ _ _ _ ED S) as [r0 ->].
    apply (Z r0); [reflexivity|].
    change [r0] with ([] ++ [r0]) in E. symmetry in E. apply app_inj_tail in E. destruct E as [_ E]. subst r. exact Hz.
Qed.

(* ------------------------------------------------------------------ regions collected are table regions *)
Definition Rg (objs : list Ptr) (pads : list region) (r : region) : Prop :=
  r_size r = 0 \/ In r (all_regs objs pads).

Lemma reg_eqb_refl a : reg_eqb a a = true.
Proof. unfold reg_eqb. lia. Qed.

Lemma ord_disjoint_in l a b : ord_disjoint l -> In a l -> In b l -> reg_eqb a b = true \/ reg_disjoint a b = true.
Proof.
  intros D Ha Hb. destruct (In_nth _ _ root_reg Ha) as (i & Hi & <-). destruct (In_nth _ _ root_reg Hb) as (j & Hj & <-).
  destruct (lt_eq_lt_dec i j) as [[L|E]|L].
  - right. apply D; auto.
  - subst j. left. apply reg_eqb_refl.
  - right. apply reg_disjoint_sym. apply D; auto.
Qed.

Lemma regs_eq_or_disjoint m objs pads a b :
  hinv m objs pads -> Rg objs pads a -> Rg objs pads b -> reg_eqb a b = true \/ reg_disjoint a b = true.
Proof.
  intros H [Za|Ha] [Zb|Hb]; try (right; unfold reg_disjoint; lia).
  unfold all_regs in *. apply in_app_or in Ha. apply in_app_or in Hb.
  destruct Ha as [Ha|Ha]; destruct Hb as [Hb|Hb].
  - apply (ord_disjoint_in _ _ _ (hi_disjO _ _ _ H)); auto.
  - right. apply (hi_cross _ _ _ H); auto.
  - right. apply reg_disjoint_sym. apply (hi_cross _ _ _ H); auto.
  - apply (ord_disjoint_in _ _ _ (hi_disjP _ _ _ H)); auto.
Qed.

Lemma pairwise_ok_table m objs pads l : hinv m objs pads -> Forall (Rg objs pads) l -> pairwise_ok l = true.
Proof.
  intros H. induction 1 as [|a r Ha Hr IH]; [reflexivity|]. cbn [pairwise_ok]. rewrite IH. rewrite Bool.andb_true_r.
  apply forallb_forall. intros b Hb. rewrite Forall_forall in Hr.
  destruct (regs_eq_or_disjoint _ _ _ a b H Ha (Hr b Hb)) as [E|E]; rewrite E; [reflexivity|apply Bool.orb_true_r].
Qed.

(* ------------------------------------------------------------------ the theorem *)
Theorem hinv_valid m objs pads : hinv m objs pads -> valid_message (bm_data m) = VOk.
Proof.
  intros H. unfold valid_message.
  assert (A8 : forallb (fun s => zlen s mod 8 =? 0) (bm_data m) = true).
  { apply forallb_forall. intros s Hs. unfold bm_data in Hs. apply in_map_iff in Hs. destruct Hs as (b & <- & Hb).
    destruct (hi_inv _ _ _ H) as [Hwf _]. unfold bmsg_wf in Hwf. rewrite Forall_forall in Hwf.
    destruct (Hwf b Hb) as [_ X]. unfold blen in X. lia. }
  rewrite A8. cbn [negb].
  assert (R0 : in_seg (bm_data m) 0 0 8 = true).
  { apply (hi_in _ _ _ H root_reg). unfold all_regs, regsO. left. reflexivity. }
  rewrite R0. cbn [negb].
  set (G := fun q : Z * Z => In q ((0, 0) :: flat_map slots objs)).
  assert (Gpos : forall p, G p -> In p (all_positions (bm_data m))).
  { intros [s a] Hp. destruct (slot_geometry _ _ _ _ H Hp) as (Q1 & Q2 & Q3 & Q4 & _). cbn [fst snd] in *.
    unfold all_positions. apply in_all_pos; try lia.
    - rewrite zlen_bm. lia.
    - replace (s - 0) with s by lia. rewrite nth_bm_data. exact Q4. }
  assert (Gres : forall p, G p -> exists t rs,
      resolve_ptr (bm_data m) (fst p) (snd p) = (t, rs) /\ is_bad t = false /\ NoDup (children t) /\
      (forall c, In c (children t) -> G c) /\ Forall (Rg objs pads) rs).
  { intros p Hp. destruct (hinv_slot_res _ _ _ _ H Hp) as (t & rs & E & S & C).
    destruct (resolve_children _ _ _ _ _ E S) as (N & Z1 & Z2).
    exists t, rs. split; [exact E|]. split; [destruct t; cbn in *; auto; contradiction|]. split; [exact N|].
    destruct C as [[-> _]|(ps & r & -> & Ips & D)].
    - split; [intros c Hc; rewrite (Z2 eq_refl) in Hc; destruct Hc|constructor].
    - split.
      + destruct D as [[D _]|(h & Hh & -> & ->)].
        * intros c Hc. rewrite (Z1 ps r eq_refl D) in Hc. destruct Hc.
        * intros c Hc. unfold G. right. apply in_flat_map. exists h. split; [exact Hh|exact Hc].
      + apply Forall_app. split.
        * apply Forall_forall. intros x Hx. right. unfold all_regs. apply in_or_app. right. apply Ips. exact Hx.
        * constructor; [|constructor]. destruct D as [[D _]|(h & Hh & -> & _)]; [left; exact D|right].
          unfold all_regs, regsO. apply in_or_app. left. right. apply in_map. exact Hh. }
  destruct (collect_ok (bm_data m) G (Rg objs pads) Gpos Gres
              (Z.to_nat (total_words (bm_data m) + 2)) [(0, 0)] [] [mkReg 0 0 8]) as (acc & E & RA).
  - cbn. constructor; [intros []|constructor].
  - constructor; [left; reflexivity|constructor].
  - intros x [].
  - constructor; [|constructor]. right. unfold all_regs, regsO. left. reflexivity.
  - pose proof (all_pos_length (bm_data m) 0) as L. unfold all_positions. cbn [length]. lia.
  - rewrite E. rewrite (pairwise_ok_table _ _ _ _ H RA). reflexivity.
Qed.

(* [heap_inv_sublang_valid]: for every arena configuration with a root word, every program of
   the sub-language (executable predicate [sub_prog]) and every state the interpreter reaches
   while the message has fewer than 2^32 segments, the bytes of the message under construction
   pass the strict validity predicate *)
Theorem heap_inv_sublang_valid a cfgd cfgs ncaps fuel src ops m :
  arena_spec_wf a -> root_cap_ok a -> create a (init_rlimit cfgd) = Ok m -> sub_prog ops = true ->
  msg_ok src -> cfg_strict cfgs = true ->
  let st0 := mkBSt (mkW m src (init_rlimit cfgs)) [] in
  dst_run (mkEnv cfgd cfgs ncaps fuel) st0 ops ->
  Forall seg_bound (bstates (mkEnv cfgd cfgs ncaps fuel) st0 ops) ->
  Forall (fun st => valid_message (bm_data (w_dst (st_w st))) = VOk) (bstates (mkEnv cfgd cfgs ncaps fuel) st0 ops).
Proof.
  intros Ha Hr Hc Hp Hms Hcs st0 Hd Hb.
  pose proof (heap_inv_sublang a cfgd cfgs ncaps fuel src ops m Ha Hr Hc Hp Hms Hcs Hd Hb) as H.
  eapply Forall_impl; [|exact H]. intros st (objs & pads & Hs & _). eapply hinv_valid; eauto.
Qed.

(* non-vacuity: a program of the sub-language with a far pointer, and its final state is valid *)
Example sublang_example :
  sub_prog [BNewStruct 0 0 1; BNewStruct 1 8 0; BSetUint 1 0 8 258; BSetPtr 0 0 1; BSetRoot 0] = true /\
  arena_spec_wf (ArRaw [24; 16]) /\ root_cap_ok (ArRaw [24; 16]).
Proof. split; [reflexivity|]. split; [repeat constructor; lia|cbn; lia]. Qed.

Definition ex2_ops : list bop :=
  [BNewStruct 0 0 1; BNewComp 0 8 1 2; BSetPtr 0 0 1; BRead InDst (OLStruct 1 1); BSetUint 2 0 8 7;
   BNewStruct 0 8 0; BSetPtr 2 0 3; BNewPList 0 1; BPLSet 4 0 3; BListSetUint 1 0 8 9; BSetRoot 0;
   BRead InDst ORoot; BRead InDst (OSPtr 5 0); BRead InDst (OPLAt 4 0); BNewCap 0 3; BAddCap 7;
   BSetPtr 0 0 8; BReopen; BRead InDst ORoot;
   BNewPrim 0 2 3; BListSetUint 10 1 2 513; BRead InDst (OLStruct 10 1); BSetPtr 9 0 11;
   BNewStruct 0 8 2; BSetPtr 12 0 10; BNewComp 0 8 1 2; BSetStruct 13 1 12; BRead InDst (OLStruct 13 1); BSetPtr 12 1 14;
   BNewStruct 0 8 2; BCopyFrom 15 12; BSetRoot 15;
   BRead InSrc ORoot; BSetPtr 15 1 16; BRead InSrc (OSPtr 16 0); BSetPtr 15 0 17].
Definition ex2_env := mkEnv (mkCfg 0 0 true true) (mkCfg 0 0 true true) 0 64%nat.
Definition ex2_m : bmsg := mkBM AMulti [mkBS [0; 0; 0; 0; 0; 0; 0; 0] 1024] [] 67108864.
(* a source message: root -> struct (1 data word, 1 pointer) -> text "hi" *)
Definition ex2_src : segs :=
  [[0;0;0;0;1;0;1;0;  7;0;0;0;0;0;0;0;  1;0;0;0;26;0;0;0;  104;105;0;0;0;0;0;0]].
Definition ex2_st0 := mkBSt (mkW ex2_m ex2_src 100) [].
Lemma seg_bound_b l : forallb (fun st => nsegs (w_dst (st_w st)) <? 4294967296) l = true -> Forall seg_bound l.
Proof. intros H. apply Forall_forall. intros st Hst. rewrite forallb_forall in H. specialize (H st Hst). unfold seg_bound. lia. Qed.

(* non-vacuity: a program using every kind of op of the builder inside one message (composite
   list, member handles as containers and as sources, PointerList.Set, read handles, a
   capability, reopen, deep copies through SetPtr of a member with pointers, List.SetStruct and
   Struct.CopyFrom); the premises of [heap_inv_sublang_valid] hold and its conclusion agrees with
   the computed verdicts *)
Example sublang_example2 :
  create (ArMulti None) (init_rlimit (mkCfg 0 0 true true)) = Ok ex2_m /\
  sub_prog ex2_ops = true /\ msg_ok ex2_src /\ dst_run ex2_env ex2_st0 ex2_ops /\
  Forall seg_bound (bstates ex2_env ex2_st0 ex2_ops) /\
  map (fun st => valid_message (bm_data (w_dst (st_w st)))) (bstates ex2_env ex2_st0 ex2_ops) = repeat VOk 37.
Proof.
  split; [vm_compute; reflexivity|]. split; [reflexivity|].
  split; [repeat constructor; cbn; unfold maxSegmentSize; lia|].
  split; [vm_compute; repeat split; reflexivity|].
  split; [apply seg_bound_b; vm_compute; reflexivity|vm_compute; reflexivity].
Qed.

(* what a forced copy inside one message does, on one program (evaluated by the kernel; the general
   theorems [copy_all] / [copy_independent] do not state it): parent (handle 0, at 8) points to child
   (handle 1, at 24, data 7); CopyFrom of the parent into a new struct (handle 2, at 32) when the
   segment is 48 bytes long.  The copy's pointer slot then designates a NEW child at 48 (handle 3),
   the parent's still the old one at 24 (handle 4); writing 9 to the old child leaves the new one at
   7, writing 5 to the new one leaves the old one at 9. *)
Definition ex3_ops : list bop :=
  [BNewStruct 0 8 1; BNewStruct 0 8 0; BSetUint 1 0 8 7; BSetPtr 0 0 1; BSetRoot 0; BNewStruct 0 8 1;
   BCopyFrom 2 0; BRead InDst (OSPtr 2 0); BRead InDst (OSPtr 0 0);
   BSetUint 1 0 8 9; BRead InDst (OUint 3 0 8); BRead InDst (OUint 4 0 8);
   BSetUint 3 0 8 5; BRead InDst (OUint 3 0 8); BRead InDst (OUint 4 0 8)].
Definition bval_summary (v : bval) : Z :=
  match v with
  | BV (VPtr (Ok p)) => p_off p
  | BV (VNum (Ok n)) => n
  | BVUnit (Ok _) => 0
  | _ => -1
  end.
Example forced_copy_is_deep_example :
  sub_prog ex3_ops = true /\
  map bval_summary (brun ex2_env ex2_st0 ex3_ops) = [8; 24; 0; 0; 0; 32; 0; 48; 24; 0; 7; 9; 0; 5; 9].
Proof. split; vm_compute; reflexivity. Qed.
