(* C01: no read-side operation of the model panics, every pointer handed out designates a
   region inside the supplied segments, every byte list handed out is a sub-list of a segment.
   Standing assumptions (trusted base): [msg_ok m] (every segment has at most maxSegmentSize
   bytes, every byte is 0..255), 64-bit uint/int, the repaired configuration. *)
From CV Require Export Core.ReaderFacts.
From Coq Require Import ZifyBool.
Open Scope Z_scope.
Ltac Zify.zify_post_hook ::= Z.div_mod_to_equations.

Ltac pcbn := cbn [p_valid p_seg p_off p_len p_size p_depth p_kind p_comp p_bit p_member
                   fst snd andb orb negb bind].

(* ------------------------------------------------------------------ results *)
(* [res_sat r P]: r is not a panic, and a value satisfies P *)
Definition res_sat {A} (r : res A) (P : A -> Prop) : Prop :=
  match r with Ok a => P a | Err => True | Panic => False end.

Lemma res_sat_iff {A} (r : res A) P : res_sat r P <-> (r <> Panic /\ forall a, r = Ok a -> P a).
Proof.
  destruct r; cbn; split.
  - intros H. split; [discriminate|]. intros b E. inversion E. subst. assumption.
  - intros [_ H]. apply H. reflexivity.
  - intros _. split; [discriminate|]. intros b E. discriminate.
  - trivial.
  - intros [].
  - intros [H _]. apply H. reflexivity.
Qed.

Lemma res_sat_bind {A B} (r : res A) (f : A -> res B) (Q : A -> Prop) (P : B -> Prop) :
  res_sat r Q -> (forall a, Q a -> res_sat (f a) P) -> res_sat (bind r f) P.
Proof. destruct r; cbn; auto. Qed.

Lemma res_sat_weaken {A} (r : res A) (P Q : A -> Prop) :
  res_sat r P -> (forall a, P a -> Q a) -> res_sat r Q.
Proof. destruct r; cbn; auto. Qed.

(* ------------------------------------------------------------------ well-formed pointers *)
(* the object designated by p lies inside segment s *)
Definition wf_obj (s : seg) (p : Ptr) : Prop :=
  match p_kind p with
  | KStruct =>
      wf_size (p_size p) /\ 0 <= p_off p /\
      p_off p + DataSize (p_size p) + 8 * PointerCount (p_size p) <= zlen s
  | KList =>
      0 <= p_off p /\ 0 <= p_len p < 536870912 /\
      if p_bit p
      then p_size p = mkOS 0 0 /\ p_off p + (p_len p + 7) / 8 <= zlen s
      else wf_size (p_size p) /\ p_off p + p_len p * totalSize (p_size p) <= zlen s
  | KIface => True
  end.

Definition wf_ptr (m : segs) (p : Ptr) : Prop :=
  p_valid p = true -> 0 <= p_seg p < zlen m /\ wf_obj (seg_of m p) p.

Lemma wf_null m : wf_ptr m nullPtr.
Proof. unfold wf_ptr. cbn. discriminate. Qed.

Lemma wf_as_struct m p : wf_ptr m p -> wf_ptr m (as_struct p).
Proof. unfold as_struct. destruct (is_struct p); auto using wf_null. Qed.
Lemma wf_as_list m p : wf_ptr m p -> wf_ptr m (as_list p).
Proof. unfold as_list. destruct (is_list p); auto using wf_null. Qed.

(* the segment [s] with id [sid] of message m *)
Definition is_seg (m : segs) (sid : Z) (s : seg) : Prop :=
  0 <= sid < zlen m /\ s = nth (Z.to_nat sid) m [].

Lemma is_seg_ok m sid s : msg_ok m -> is_seg m sid s -> seg_ok s.
Proof. intros Hm [_ ->]. apply msg_ok_nth. assumption. Qed.

Lemma pick_seg m sid s d : is_seg m sid s ->
  res_sat (if d =? sid then Ok s else lookup_segment m d) (fun dst => is_seg m d dst).
Proof.
  intros Hs. destruct (d =? sid) eqn:E.
  - cbn. replace d with sid by lia. assumption.
  - destruct (lookup_segment m d) eqn:L; cbn; auto.
    + apply lookup_segment_spec in L. exact L.
    + exact (lookup_segment_nopanic _ _ L).
Qed.

(* ------------------------------------------------------------------ segment.go *)
Definition far_post (m : segs) (r : Z * seg * Z * Z) : Prop :=
  let '(dsid, dst, base, val) := r in
  is_seg m dsid dst /\ 0 <= base <= maxSegmentSize /\ 0 <= val < 18446744073709551616.

Lemma resolveFarPointer_safe strict m sid s paddr :
  msg_ok m -> is_seg m sid s -> 0 <= paddr -> paddr + 8 <= zlen s ->
  res_sat (resolveFarPointer strict m sid s paddr) (far_post m).
Proof.
  intros Hm Hs Hp He. pose proof (is_seg_ok m sid s Hm Hs) as Hok.
  unfold resolveFarPointer.
  destruct (readRawPointer_ok s paddr Hok Hp He) as [val [Ev Rv]]. rewrite Ev. cbn [bind]. cbv zeta.
  destruct (pointerType val =? doubleFarPointer) eqn:Edf.
  - (* double far *)
    eapply res_sat_bind; [apply (pick_seg m sid s _ Hs)|]. intros padSeg Hpad.
    pose proof (is_seg_ok m _ padSeg Hm Hpad) as Hpok.
    pose proof (farAddress_range val) as [Rfa _].
    destruct (regionInBounds padSeg (farAddress val) 16) eqn:Er; cbn [negb]; [|exact I].
    apply regionInBounds_spec in Er.
    destruct (readRawPointer_ok padSeg (farAddress val) Hpok ltac:(lia) ltac:(lia)) as [far [Ef Rf]].
    rewrite Ef. cbn [bind].
    destruct (pointerType far =? farPointer) eqn:Eft; cbn [negb]; [|exact I].
    destruct (addSize (farAddress val) 8) as [tagAddr|] eqn:Ea; [|exact I].
    apply addSize_spec in Ea. destruct Ea as [-> _].
    destruct (readRawPointer_ok padSeg (farAddress val + 8) Hpok ltac:(lia) ltac:(lia)) as [tag [Et Rt]].
    rewrite Et. cbn [bind].
    match goal with |- res_sat (if ?b then _ else _) _ => destruct b eqn:Etag end; [exact I|].
    eapply res_sat_bind; [apply (pick_seg m sid s _ Hs)|]. intros dst Hdst.
    cbv zeta. destruct (strict && (landingPadNearPointer far tag =? 0)).
    { (* repaired code: the equivalent non-zero encoding of "empty struct at word 0" *)
      change (rawStructPointer (-1) (mkOS 0 0)) with (Some 4294967292).
      unfold res_sat, far_post. split; [assumption|]. unfold wordSize, maxSegmentSize. lia. }
    cbn. split; [assumption|]. split; [unfold maxSegmentSize; lia|].
    apply landingPad_range; [apply pointerType_far; lia|assumption].
  - destruct (pointerType val =? farPointer) eqn:Efar.
    + (* far *)
      eapply res_sat_bind; [apply (pick_seg m sid s _ Hs)|]. intros dst Hdst.
      pose proof (is_seg_ok m _ dst Hm Hdst) as Hdok.
      pose proof (farAddress_range val) as [Rfa _].
      destruct (regionInBounds dst (farAddress val) 8) eqn:Er; cbn [negb]; [|exact I].
      apply regionInBounds_spec in Er.
      destruct (addSize (farAddress val) 8) as [base|] eqn:Ea; [|exact I].
      apply addSize_spec in Ea. destruct Ea as [-> Ea].
      destruct (readRawPointer_ok dst (farAddress val) Hdok ltac:(lia) ltac:(lia)) as [v [Evv Rvv]].
      rewrite Evv. cbn. split; [assumption|]. split; [lia|assumption].
    + (* near *)
      destruct (addSize paddr 8) as [base|] eqn:Ea; [|exact I].
      apply addSize_spec in Ea. destruct Ea as [-> Ea].
      cbn. split; [assumption|]. split; [lia|assumption].
Qed.

Lemma readStructPtr_safe m sid s base val :
  is_seg m sid s ->
  res_sat (readStructPtr sid s base val)
          (fun p => p_valid p = true /\ p_seg p = sid /\ p_kind p = KStruct /\ wf_obj s p).
Proof.
  intros Hs. unfold readStructPtr.
  destruct (element base (ptr_offset val) 8) as [addr|] eqn:Ee; [|exact I].
  apply element_spec in Ee. destruct Ee as [-> Ee]. cbv zeta.
  destruct (regionInBounds s _ _) eqn:Er; cbn [negb]; [|exact I].
  apply regionInBounds_spec in Er. pose proof (structSize_wf val) as Hw.
  rewrite totalSize_wf in Er by assumption.
  unfold res_sat, wf_obj. pcbn. repeat split; try reflexivity; try apply Hw; lia.
Qed.

Definition list_post (strict : bool) (sid : Z) (s : seg) (p : Ptr) : Prop :=
  p_valid p = true /\ p_seg p = sid /\ p_kind p = KList /\
  (strict = true -> wf_obj s p).

Lemma readListPtr_safe strict m sid s base val :
  msg_ok m -> is_seg m sid s -> 0 <= val < 18446744073709551616 ->
  res_sat (readListPtr strict sid s base val) (list_post strict sid s).
Proof.
  intros Hm Hs Rv. pose proof (is_seg_ok m sid s Hm Hs) as Hok.
  unfold readListPtr.
  destruct (element base (ptr_offset val) 8) as [addr|] eqn:Ee; [|exact I].
  apply element_spec in Ee. destruct Ee as [-> Ee].
  set (addr := base + ptr_offset val * 8) in *.
  pose proof (numListElements_range val Rv) as Rn.
  destruct (totalListSize val) as [[lsize|]|] eqn:Et; [| exact I | exact (totalListSize_total val Et)].
  destruct (regionInBounds s addr lsize) eqn:Er; cbn [negb]; [|exact I].
  apply regionInBounds_spec in Er. cbv zeta.
  unfold totalListSize in Et. cbv zeta in Et.
  destruct (listType val =? 7) eqn:E7.
  - (* composite *)
    destruct (listType val =? 1) eqn:E1; [lia|].
    inversion Et as [Et']; clear Et. apply times_spec in Et'. destruct Et' as [-> Et'].
    rewrite s32_id in * by lia.
    destruct (readRawPointer_ok s addr Hok ltac:(lia) ltac:(lia)) as [hdr [Eh Rh]].
    rewrite Eh. cbn [bind].
    destruct (addSize addr 8) as [addr'|] eqn:Ea; [|exact I].
    apply addSize_spec in Ea. destruct Ea as [-> Ea].
    destruct (pointerType hdr =? structPointer) eqn:Ept; cbn [negb]; [|exact I].
    pose proof (ptr_offset_range hdr) as Ro.
    rewrite (s32_id (ptr_offset hdr)) by lia.
    destruct (strict && (ptr_offset hdr <? 0)) eqn:Es; [exact I|].
    pose proof (structSize_wf hdr) as Hw.
    destruct (times (totalSize (structSize hdr)) (ptr_offset hdr)) as [tsize|] eqn:Etm; [|exact I].
    apply times_spec in Etm. destruct Etm as [-> Etm].
    match goal with |- context [regionInBounds ?a ?b ?c] => destruct (regionInBounds a b c) eqn:Er2 end;
      cbn [negb]; [|exact I].
    apply regionInBounds_spec in Er2.
    unfold res_sat, list_post, wf_obj. pcbn.
    split; [reflexivity|]. split; [reflexivity|]. split; [reflexivity|].
    intros ->. cbn [andb] in Es. repeat split; try apply Hw; lia.
  - destruct (listType val =? 1) eqn:E1.
    + (* bit list *)
      inversion Et as [Et']; clear Et. rewrite bitListSize_spec in Et' by lia. subst lsize.
      unfold res_sat, list_post, wf_obj. pcbn. repeat split; try reflexivity; lia.
    + destruct (elementSize val) as [es|] eqn:Ees; [|discriminate].
      inversion Et as [Et']; clear Et.
      pose proof (elementSize_wf val es Ees) as [Hw Hts].
      unfold timesUnchecked in Et'. rewrite (u32_id (numListElements val)) in Et' by lia.
      rewrite u32_id in Et' by nia. subst lsize.
      unfold res_sat, list_post, wf_obj. pcbn. repeat split; try reflexivity; try apply Hw; lia.
Qed.

Lemma readPtr_safe strict m rl sid s paddr depth :
  msg_ok m -> is_seg m sid s -> 0 <= paddr -> paddr + 8 <= zlen s ->
  res_sat (fst (readPtr strict m rl sid s paddr depth)) (fun p => strict = true -> wf_ptr m p).
Proof.
  intros Hm Hs Hp He. unfold readPtr.
  pose proof (resolveFarPointer_safe strict m sid s paddr Hm Hs Hp He) as Hr.
  destruct (resolveFarPointer strict m sid s paddr) as [[[[dsid dst] base] val]| |]; cbn [res_sat far_post] in Hr;
    [|exact I|exact Hr].
  destruct Hr as (Hd & Rb & Rv).
  destruct (val =? 0) eqn:E0; [cbn; intros _; apply wf_null|].
  destruct (depth =? 0) eqn:Ed; [exact I|]. cbv zeta.
  destruct (pointerType val =? structPointer) eqn:Est.
  { pose proof (readStructPtr_safe m dsid dst base val Hd) as Hsp.
    destruct (readStructPtr dsid dst base val) as [sp| |]; cbn [res_sat] in Hsp; [|exact I|exact Hsp].
    destruct Hsp as (Hv & Hsg & Hk & Hw).
    destruct (canRead rl (struct_readSize sp)) as [ok rl']. destruct ok; [|exact I].
    cbn [fst res_sat]. intros _. unfold wf_ptr. pcbn. intros _.
    destruct Hd as [Hd1 Hd2]. rewrite Hsg. split; [assumption|].
    unfold seg_of. pcbn. rewrite <- Hd2.
    unfold wf_obj in *. rewrite Hk in Hw. pcbn. exact Hw. }
  destruct (pointerType val =? listPointer) eqn:Elt.
  { pose proof (readListPtr_safe strict m dsid dst base val Hm Hd Rv) as Hlp.
    destruct (readListPtr strict dsid dst base val) as [lp| |]; cbn [res_sat] in Hlp; [|exact I|exact Hlp].
    destruct Hlp as (Hv & Hsg & Hk & Hw).
    destruct (canRead rl (list_readSize lp)) as [ok rl']. destruct ok; [|exact I].
    cbn [fst res_sat]. intros Hst. specialize (Hw Hst). unfold wf_ptr. pcbn. intros _.
    destruct Hd as [Hd1 Hd2]. rewrite Hsg. split; [assumption|].
    unfold seg_of. pcbn. rewrite <- Hd2.
    unfold wf_obj in *. rewrite Hk in Hw. pcbn. exact Hw. }
  destruct (pointerType val =? otherPointer) eqn:Eot; [|exact I].
  destruct (otherPointerType val =? 0); cbn [negb]; [|exact I].
  cbn [fst res_sat]. intros _. unfold wf_ptr. pcbn. intros _. split; [apply Hd|].
  unfold wf_obj. pcbn. exact I.
Qed.

(* Message.Root never panics, on any message whatsoever (any number of segments, any
   lengths up to maxSegmentSize, any bytes) and any limits *)
Lemma root_safe c m rl : msg_ok m -> cfg_root c = true ->
  res_sat (fst (root c m rl)) (fun p => cfg_strict c = true -> wf_ptr m p).
Proof.
  intros Hm Hc. unfold root.
  destruct (lookup_segment m 0) as [s0| |] eqn:L; [|exact I|exact I].
  apply lookup_segment_spec in L.
  destruct (regionInBounds s0 0 8) eqn:Er; cbn [negb].
  - apply regionInBounds_spec in Er. apply readPtr_safe; try assumption; lia.
  - rewrite Hc. exact I.
Qed.

(* as found (cfg_root = false): the only panic of Root is the empty-first-segment one *)
Lemma root_panic_iff c m rl : msg_ok m ->
  (fst (root c m rl) = Panic <-> (cfg_root c = false /\ 0 < zlen m /\ zlen (nth 0%nat m []) < 8)).
Proof.
  intros Hm. unfold root.
  destruct (lookup_segment m 0) as [s0| |] eqn:L.
  - apply lookup_segment_spec in L. destruct L as [L1 L2]. change (Z.to_nat 0) with 0%nat in L2. subst s0.
    destruct (regionInBounds (nth 0%nat m []) 0 8) eqn:Er; cbn [negb].
    + pose proof Er as Er'. apply regionInBounds_spec in Er.
      pose proof (readPtr_safe (cfg_strict c) m rl 0 (nth 0%nat m []) 0 (depth_limit c) Hm
                    ltac:(split; [lia|reflexivity]) ltac:(lia) ltac:(lia)) as H.
      split; [intros E; rewrite E in H; destruct H|lia].
    + apply regionInBounds_false in Er. unfold maxSegmentSize in Er.
      destruct (cfg_root c); cbn [fst]; split; try discriminate; try (intros (? & ? & ?); discriminate); try lia.
      intros _. repeat split; lia.
  - unfold lookup_segment in L. cbn [fst]. split; [discriminate|]. intros (_ & H & _).
    destruct (_ && _) eqn:E in L; [discriminate|]. lia.
  - exfalso. exact (lookup_segment_nopanic _ _ L).
Qed.


(* ------------------------------------------------------------------ accessors *)
Definition wf_struct (m : segs) (p : Ptr) : Prop :=
  wf_ptr m p /\ (p_valid p = true -> p_kind p = KStruct).
Definition wf_list (m : segs) (p : Ptr) : Prop :=
  wf_ptr m p /\ (p_valid p = true -> p_kind p = KList).

Lemma wf_struct_as_struct m p : wf_ptr m p -> wf_struct m (as_struct p).
Proof.
  intros H. unfold wf_struct, as_struct, is_struct.
  destruct (p_valid p) eqn:V; cbn [andb]; [|split; [apply wf_null|discriminate]].
  destruct (p_kind p) eqn:K; try (split; [apply wf_null|discriminate]).
  split; [assumption|]. intros _. assumption.
Qed.
Lemma wf_list_as_list m p : wf_ptr m p -> wf_list m (as_list p).
Proof.
  intros H. unfold wf_list, as_list, is_list.
  destruct (p_valid p) eqn:V; cbn [andb]; [|split; [apply wf_null|discriminate]].
  destruct (p_kind p) eqn:K; try (split; [apply wf_null|discriminate]).
  split; [assumption|]. intros _. assumption.
Qed.

Lemma wf_struct_inv m p : wf_struct m p -> p_valid p = true ->
  0 <= p_seg p < zlen m /\ wf_size (p_size p) /\ 0 <= p_off p /\
  p_off p + DataSize (p_size p) + 8 * PointerCount (p_size p) <= zlen (seg_of m p).
Proof.
  intros [Hw Hk] V. specialize (Hw V). specialize (Hk V). destruct Hw as [Hs Ho].
  unfold wf_obj in Ho. rewrite Hk in Ho. tauto.
Qed.

Lemma seg_of_ok m p : msg_ok m -> seg_ok (seg_of m p).
Proof. intros. unfold seg_of. apply msg_ok_nth. assumption. Qed.
Lemma seg_of_is_seg m p : 0 <= p_seg p < zlen m -> is_seg m (p_seg p) (seg_of m p).
Proof. intros. split; [assumption|reflexivity]. Qed.

Lemma pointerAddress_spec m p i : msg_ok m -> wf_struct m p -> p_valid p = true ->
  0 <= i < PointerCount (p_size p) ->
  pointerAddress p i = p_off p + DataSize (p_size p) + 8 * i.
Proof.
  intros Hm Hw V Hi. destruct (wf_struct_inv m p Hw V) as (Hs & Hz & Ho & He).
  destruct (seg_of_ok m p Hm) as [Hl _]. unfold wf_size in Hz.
  unfold pointerAddress.
  destruct (addSize (p_off p) (DataSize (p_size p))) as [ps|] eqn:Ea.
  - apply addSize_spec in Ea. destruct Ea as [-> _].
    destruct (element _ i 8) as [a|] eqn:Ee.
    + apply element_spec in Ee. lia.
    + apply element_none in Ee. lia.
  - apply addSize_none in Ea. lia.
Qed.

(* Struct.Ptr(i), i : uint16 *)
Lemma struct_ptr_safe c m rl p i : msg_ok m -> wf_struct m p -> 0 <= i ->
  res_sat (fst (struct_ptr c m rl p i)) (fun q => cfg_strict c = true -> wf_ptr m q).
Proof.
  intros Hm Hw Hi. unfold struct_ptr.
  destruct (p_valid p) eqn:V; cbn [negb orb]; [|cbn; intros _; apply wf_null].
  destruct (i >=? PointerCount (p_size p)) eqn:Ei; [cbn; intros _; apply wf_null|].
  destruct (wf_struct_inv m p Hw V) as (Hs & Hz & Ho & He). unfold wf_size in Hz.
  rewrite (pointerAddress_spec m p i Hm Hw V) by lia.
  apply readPtr_safe; try assumption; try lia. apply seg_of_is_seg. assumption.
Qed.

Lemma struct_hasptr_safe m p i : msg_ok m -> wf_struct m p -> 0 <= i ->
  struct_hasptr m p i <> Panic.
Proof.
  intros Hm Hw Hi. unfold struct_hasptr.
  destruct (p_valid p) eqn:V; cbn [negb orb]; [|discriminate].
  destruct (i >=? PointerCount (p_size p)) eqn:Ei; [discriminate|].
  destruct (wf_struct_inv m p Hw V) as (Hs & Hz & Ho & He). unfold wf_size in Hz.
  rewrite (pointerAddress_spec m p i Hm Hw V) by lia.
  destruct (readRawPointer_ok (seg_of m p) (p_off p + DataSize (p_size p) + 8 * i) (seg_of_ok m p Hm)
              ltac:(lia) ltac:(lia)) as [w [E _]].
  rewrite E. discriminate.
Qed.

(* Struct.UintN(off): the little-endian value of n bytes of the data section, 0 outside it.
   off : DataOffset is documented to be < 2^19. *)
Lemma struct_uint_spec m p off n : msg_ok m -> wf_struct m p -> p_valid p = true ->
  0 <= off < 524288 -> 0 <= n <= 8 ->
  struct_uint m p off n =
  Ok (if off + n <=? DataSize (p_size p) then le_decode (sub (seg_of m p) (p_off p + off) n) else 0).
Proof.
  intros Hm Hw V Ho Hn. destruct (wf_struct_inv m p Hw V) as (Hs & Hz & Hoff & He). unfold wf_size in Hz.
  destruct (seg_of_ok m p Hm) as [Hl Hb]. unfold maxSegmentSize in Hl.
  unfold struct_uint, dataAddress. rewrite V. cbn [negb orb].
  rewrite (u32_id (off + n)) by lia.
  destruct (off + n >? DataSize (p_size p)) eqn:E; cbn [bind].
  - destruct (off + n <=? DataSize (p_size p)) eqn:E2; [lia|reflexivity].
  - destruct (off + n <=? DataSize (p_size p)) eqn:E2; [|lia].
    destruct (addOffset (p_off p) off) as [a|] eqn:Ea; [|apply addOffset_none in Ea; lia].
    apply addOffset_spec in Ea. destruct Ea as [_ ->]. rewrite u32_id by lia. cbn [bind].
    apply readUintN_ok; try lia. split; assumption.
Qed.

Lemma struct_uint_safe m p off n : msg_ok m -> wf_struct m p ->
  0 <= off < 524288 -> 0 <= n <= 8 -> struct_uint m p off n <> Panic.
Proof.
  intros Hm Hw Ho Hn. destruct (p_valid p) eqn:V.
  - rewrite (struct_uint_spec m p off n) by assumption. discriminate.
  - unfold struct_uint, dataAddress. rewrite V. cbn. discriminate.
Qed.

(* exactly when the documented programmer-error panic of a data accessor fires *)
Lemma dataAddress_panic_iff p off sz :
  dataAddress p off sz = Panic <->
  (p_valid p = true /\ u32 (off + sz) <= DataSize (p_size p) /\ off >= 524288).
Proof.
  unfold dataAddress. destruct (p_valid p); cbn [negb orb].
  - destruct (_ >? _) eqn:E.
    + split; [discriminate|lia].
    + destruct (addOffset (p_off p) off) eqn:Ea.
      * apply addOffset_spec in Ea. split; [discriminate|lia].
      * apply addOffset_none in Ea. split; [intros _; repeat split; lia|reflexivity].
  - split; [discriminate|]. intros [H _]. discriminate.
Qed.

(* Struct.Bit(n): no panic for ANY bit offset n >= 0 (a struct's data section has fewer
   than 2^22 bits, so the byte offset of an in-range bit is below 2^19) *)
Lemma struct_bit_safe m p n : msg_ok m -> wf_struct m p -> 0 <= n -> struct_bit m p n <> Panic.
Proof.
  intros Hm Hw Hn. unfold struct_bit.
  destruct (p_valid p) eqn:V; cbn [andb negb]; [|discriminate].
  destruct (wf_struct_inv m p Hw V) as (Hs & Hz & Hoff & He). unfold wf_size in Hz.
  destruct (seg_of_ok m p Hm) as [Hl Hb]. unfold maxSegmentSize in Hl.
  rewrite (u32_id (DataSize (p_size p) * 8)) by lia.
  destruct (n <? DataSize (p_size p) * 8) eqn:E; cbn [negb]; [|discriminate].
  unfold bitOffset_offset.
  destruct (addOffset (p_off p) (n / 8)) as [a|] eqn:Ea; [|apply addOffset_none in Ea; lia].
  apply addOffset_spec in Ea. destruct Ea as [_ ->]. rewrite u32_id by lia.
  destruct (readUintN_ok (seg_of m p) (p_off p + n / 8) 1 (conj Hl Hb) ltac:(lia) ltac:(lia) ltac:(lia)) as [E1 _].
  rewrite E1. discriminate.
Qed.

(* ------------------------------------------------------------------ list accessors *)
Lemma wf_list_inv m p : wf_list m p -> p_valid p = true ->
  0 <= p_seg p < zlen m /\ 0 <= p_off p /\ 0 <= p_len p < 536870912 /\
  if p_bit p
  then p_size p = mkOS 0 0 /\ p_off p + (p_len p + 7) / 8 <= zlen (seg_of m p)
  else wf_size (p_size p) /\ p_off p + p_len p * totalSize (p_size p) <= zlen (seg_of m p).
Proof.
  intros [Hw Hk] V. specialize (Hw V). specialize (Hk V). destruct Hw as [Hs Ho].
  unfold wf_obj in Ho. rewrite Hk in Ho. tauto.
Qed.

Lemma list_len_valid p i : 0 <= i < list_len p -> p_valid p = true /\ 0 <= i < p_len p.
Proof. unfold list_len. destruct (p_valid p); intros; [split; [reflexivity|assumption]|lia]. Qed.

(* the address of element i of a (non-bit) list *)
Lemma list_element_spec m p i : msg_ok m -> wf_list m p -> p_valid p = true -> p_bit p = false ->
  0 <= i < p_len p ->
  element (p_off p) i (totalSize (p_size p)) = Some (p_off p + i * totalSize (p_size p)) /\
  0 <= p_off p + i * totalSize (p_size p) /\
  p_off p + i * totalSize (p_size p) + totalSize (p_size p) <= zlen (seg_of m p).
Proof.
  intros Hm Hw V Hb Hi. destruct (wf_list_inv m p Hw V) as (Hs & Ho & Hl & Hr). rewrite Hb in Hr.
  destruct Hr as [Hz Hr]. pose proof (totalSize_bound _ Hz) as Ht.
  destruct (seg_of_ok m p Hm) as [Hsl _].
  assert (i * totalSize (p_size p) + totalSize (p_size p) <= p_len p * totalSize (p_size p)) by nia.
  assert (0 <= i * totalSize (p_size p)) by nia.
  split; [|lia].
  destruct (element _ _ _) eqn:E.
  - apply element_spec in E. destruct E as [-> _]. reflexivity.
  - apply element_none in E. lia.
Qed.

(* List.Struct(i): panics exactly for an invalid list or an index outside [0, Len()) *)
Lemma list_struct_panic_iff fd p i :
  list_struct fd p i = Panic <-> (p_valid p = false \/ i < 0 \/ i >= p_len p).
Proof.
  unfold list_struct. destruct (p_valid p); cbn [negb orb].
  - destruct (i <? 0) eqn:E1; cbn [orb]; [split; [lia|reflexivity]|].
    destruct (i >=? p_len p) eqn:E2; [split; [lia|reflexivity]|].
    destruct (p_bit p); [split; [discriminate|intros [H|H]; [discriminate|lia]]|].
    destruct (element _ _ _); (split; [discriminate|intros [H|H]; [discriminate|lia]]).
  - split; [auto|reflexivity].
Qed.

Lemma list_struct_safe fd m p i : msg_ok m -> wf_list m p -> 0 <= i < list_len p ->
  res_sat (list_struct fd p i) (wf_struct m).
Proof.
  intros Hm Hw Hi. apply list_len_valid in Hi. destruct Hi as [V Hi].
  unfold list_struct. rewrite V. cbn [negb orb].
  destruct (i <? 0) eqn:E1; [lia|]. destruct (i >=? p_len p) eqn:E2; [lia|]. cbn [orb].
  destruct (p_bit p) eqn:Hb; [cbn; split; [apply wf_null|discriminate]|].
  destruct (list_element_spec m p i Hm Hw V Hb Hi) as (Ee & Ha & Hend). rewrite Ee.
  destruct (wf_list_inv m p Hw V) as (Hs & Ho & Hl & Hr). rewrite Hb in Hr. destruct Hr as [Hz Hr].
  cbn [res_sat]. split; [|reflexivity]. unfold wf_ptr. pcbn. intros _. split; [assumption|].
  unfold wf_obj, seg_of in *. pcbn. rewrite (totalSize_wf _ Hz) in *.
  repeat split; try apply Hz; lia.
Qed.

(* primitiveElem: same documented panic *)
Lemma primitiveElem_panic_iff fu p i exp :
  primitiveElem fu p i exp = Panic <-> (p_valid p = false \/ i < 0 \/ i >= p_len p).
Proof.
  unfold primitiveElem. destruct (p_valid p); cbn [negb orb].
  - destruct (i <? 0) eqn:E1; cbn [orb]; [split; [lia|reflexivity]|].
    destruct (i >=? p_len p) eqn:E2; [split; [lia|reflexivity]|].
    dif; [split; [discriminate|intros [H|H]; [discriminate|lia]]|].
    destruct (element _ _ _); [|split; [discriminate|intros [H|H]; [discriminate|lia]]].
    dif; [destruct (addSize _ _)|]; (split; [discriminate|intros [H|H]; [discriminate|lia]]).
  - split; [auto|reflexivity].
Qed.

Lemma primitiveElem_safe fu m p i exp : msg_ok m -> wf_list m p -> 0 <= i < list_len p ->
  0 <= DataSize exp -> 0 <= PointerCount exp -> (DataSize exp = 0 \/ PointerCount exp = 0) ->
  res_sat (primitiveElem fu p i exp)
          (fun a => 0 <= a /\ a + DataSize exp + 8 * PointerCount exp <= zlen (seg_of m p)).
Proof.
  intros Hm Hw Hi Hed Hep Hex. apply list_len_valid in Hi. destruct Hi as [V Hi].
  unfold primitiveElem. rewrite V. cbn [negb orb].
  destruct (i <? 0) eqn:E1; [lia|]. destruct (i >=? p_len p) eqn:E2; [lia|]. cbn [orb].
  destruct (p_bit p) eqn:Hb; cbn [orb]; [exact I|].
  destruct (list_element_spec m p i Hm Hw V Hb Hi) as (Ee & Ha & Hend).
  destruct (wf_list_inv m p Hw V) as (Hs & Ho & Hl & Hr). rewrite Hb in Hr. destruct Hr as [Hz Hr].
  rewrite (totalSize_wf _ Hz) in *. unfold wf_size in Hz.
  destruct (p_comp p) eqn:Hc; cbn [negb andb orb].
  - destruct (DataSize (p_size p) <? DataSize exp) eqn:Ed; cbn [orb]; [exact I|].
    destruct (PointerCount (p_size p) <? PointerCount exp) eqn:Ep; [exact I|].
    rewrite Ee. destruct fu; cbn [andb].
    + destruct (0 <? PointerCount exp) eqn:E0.
      * destruct (addSize _ _) as [a|] eqn:Eadd; [|exact I].
        apply addSize_spec in Eadd. destruct Eadd as [-> _]. cbn [res_sat]. lia.
      * cbn [res_sat]. lia.
    + cbn [res_sat]. lia.
  - unfold os_eqb. destruct (DataSize (p_size p) =? DataSize exp) eqn:Ed; cbn [andb negb]; [|exact I].
    destruct (PointerCount (p_size p) =? PointerCount exp) eqn:Ep; cbn [negb]; [|exact I].
    rewrite Ee. rewrite Bool.andb_false_r. cbn [andb orb res_sat]. lia.
Qed.

(* PointerList.At(i) *)
Lemma ptrlist_at_safe c fu m rl p i : msg_ok m -> wf_list m p -> 0 <= i < list_len p ->
  res_sat (fst (ptrlist_at c fu m rl p i)) (fun q => cfg_strict c = true -> wf_ptr m q).
Proof.
  intros Hm Hw Hi. unfold ptrlist_at.
  pose proof (primitiveElem_safe fu m p i (mkOS 0 1) Hm Hw Hi ltac:(cbn; lia) ltac:(cbn; lia)
                ltac:(left; reflexivity)) as H.
  destruct (primitiveElem fu p i (mkOS 0 1)) as [a| |]; cbn [res_sat] in H; [|exact I|exact H].
  cbn [DataSize PointerCount] in H.
  apply list_len_valid in Hi. destruct Hi as [V Hi].
  destruct (wf_list_inv m p Hw V) as (Hs & _).
  apply readPtr_safe; try assumption; try lia. apply seg_of_is_seg. assumption.
Qed.

(* UInt8/16/32/64 List.At(i) *)
Lemma list_uint_at_safe fu m p i n : msg_ok m -> wf_list m p -> 0 <= i < list_len p -> 0 <= n ->
  res_sat (list_uint_at fu m p i n)
          (fun v => v = 0 \/ exists a, 0 <= a /\ a + n <= zlen (seg_of m p) /\ v = le_decode (sub (seg_of m p) a n)).
Proof.
  intros Hm Hw Hi Hn. unfold list_uint_at.
  pose proof (primitiveElem_safe fu m p i (mkOS n 0) Hm Hw Hi ltac:(cbn; lia) ltac:(cbn; lia)
                ltac:(right; reflexivity)) as H.
  destruct (primitiveElem fu p i (mkOS n 0)) as [a| |]; cbn [res_sat] in H; [|left; reflexivity|exact H].
  cbn [DataSize PointerCount] in H.
  destruct (readUintN_ok (seg_of m p) a n (seg_of_ok m p Hm) ltac:(lia) ltac:(lia) ltac:(lia)) as [E _].
  rewrite E. cbn [res_sat]. right. exists a. repeat split; try lia.
Qed.

(* BitList.At(i), repaired (no struct-field offset limit) *)
Lemma bitlist_at_safe m p i : msg_ok m -> wf_list m p -> 0 <= i < list_len p ->
  bitlist_at true m p i <> Panic.
Proof.
  intros Hm Hw Hi. apply list_len_valid in Hi. destruct Hi as [V Hi].
  unfold bitlist_at. rewrite V. cbn [negb orb].
  destruct (i <? 0) eqn:E1; [lia|]. destruct (i >=? p_len p) eqn:E2; [lia|]. cbn [orb].
  destruct (p_bit p) eqn:Hb; cbn [negb]; [|discriminate]. cbv zeta.
  destruct (wf_list_inv m p Hw V) as (Hs & Ho & Hl & Hr). rewrite Hb in Hr. destruct Hr as [Hz Hr].
  destruct (seg_of_ok m p Hm) as [Hsl Hsb]. unfold maxSegmentSize in Hsl.
  unfold bitOffset_offset. rewrite u32_id by lia.
  destruct (readUintN_ok (seg_of m p) (p_off p + i / 8) 1 (conj Hsl Hsb) ltac:(lia) ltac:(lia) ltac:(lia)) as [E _].
  rewrite E. discriminate.
Qed.

Lemma bitlist_at_panic_iff m p i : msg_ok m -> wf_list m p ->
  (bitlist_at true m p i = Panic <-> (p_valid p = false \/ i < 0 \/ i >= p_len p)).
Proof.
  intros Hm Hw. split.
  - intros H. destruct (p_valid p) eqn:V; [|left; reflexivity]. right.
    destruct (Z_lt_ge_dec i 0); [left; assumption|]. destruct (Z_lt_ge_dec i (p_len p)); [|right; assumption].
    exfalso. apply (bitlist_at_safe m p i Hm Hw); [|assumption]. unfold list_len. rewrite V. lia.
  - intros H. unfold bitlist_at. destruct (p_valid p); cbn [negb orb]; [|reflexivity].
    destruct (i <? 0) eqn:E1; [reflexivity|]. destruct (i >=? p_len p) eqn:E2; [reflexivity|].
    destruct H as [H|H]; [discriminate|lia].
Qed.

(* ------------------------------------------------------------------ pointer.go: Text / Data *)
Lemma isOneByteList_inv m p : msg_ok m -> wf_ptr m p -> isOneByteList p = true ->
  0 <= p_off p /\ 0 <= p_len p < 536870912 /\ p_off p + p_len p <= zlen (seg_of m p).
Proof.
  intros Hm Hw H. unfold isOneByteList, is_list, os_isOneByte in H.
  destruct (p_valid p) eqn:V; [|discriminate]. destruct (p_kind p) eqn:K; try discriminate.
  cbn [andb] in H.
  destruct (DataSize (p_size p) =? 1) eqn:Ed; [|discriminate].
  destruct (PointerCount (p_size p) =? 0) eqn:Ep; [|discriminate].
  destruct (wf_list_inv m p (conj Hw (fun _ => K)) V) as (Hs & Ho & Hl & Hr).
  destruct (p_bit p).
  - destruct Hr as [Hsz _]. rewrite Hsz in Ed. cbn in Ed. discriminate.
  - destruct Hr as [Hz Hr]. rewrite (totalSize_wf _ Hz) in Hr. lia.
Qed.

(* Ptr.Data(): the bytes handed out are exactly the list's region of its segment *)
Lemma ptr_data_safe m p : msg_ok m -> wf_ptr m p ->
  res_sat (ptr_data m p) (fun o => match o with
                                   | None => True
                                   | Some b => b = sub (seg_of m p) (p_off p) (p_len p) /\
                                               0 <= p_off p /\ 0 <= p_len p /\
                                               p_off p + p_len p <= zlen (seg_of m p)
                                   end).
Proof.
  intros Hm Hw. unfold ptr_data. destruct (isOneByteList p) eqn:E; cbn [negb]; [|exact I].
  destruct (isOneByteList_inv m p Hm Hw E) as (Ho & Hl & He).
  destruct (seg_of_ok m p Hm) as [Hsl _]. unfold maxSegmentSize in Hsl.
  rewrite u32_id by lia. rewrite slice_ok by lia. cbn [bind res_sat]. repeat split; lia.
Qed.

Lemma firstn_app_exact {A} (l1 l2 : list A) : firstn (length l1) (l1 ++ l2) = l1.
Proof. induction l1 as [|x l IH]; cbn; [destruct l2; reflexivity|rewrite IH; reflexivity]. Qed.

(* Ptr.text(): the bytes handed out are the list's region without its last byte *)
Lemma ptr_text_safe m p : msg_ok m -> wf_ptr m p ->
  res_sat (ptr_text m p) (fun o => match o with
                                   | None => True
                                   | Some b => b = sub (seg_of m p) (p_off p) (p_len p - 1) /\
                                               0 <= p_off p /\ 0 < p_len p /\
                                               p_off p + p_len p <= zlen (seg_of m p)
                                   end).
Proof.
  intros Hm Hw. unfold ptr_text. destruct (isOneByteList p) eqn:E; cbn [negb]; [|exact I].
  destruct (isOneByteList_inv m p Hm Hw E) as (Ho & Hl & He).
  destruct (seg_of_ok m p Hm) as [Hsl _]. unfold maxSegmentSize in Hsl.
  rewrite u32_id by lia. rewrite slice_ok by lia. cbn [bind].
  pose proof (sub_length (seg_of m p) (p_off p) (p_len p) Ho ltac:(lia) He) as Hlen.
  destruct (rev (sub (seg_of m p) (p_off p) (p_len p))) as [|last r] eqn:Er; [exact I|].
  destruct (last =? 0); [|exact I]. cbn [res_sat].
  assert (sub (seg_of m p) (p_off p) (p_len p) = rev r ++ [last]) as Hb.
  { rewrite <- (rev_involutive (sub _ _ _)). rewrite Er. reflexivity. }
  assert (zlen (rev r) = p_len p - 1) as Hrl.
  { rewrite Hb in Hlen. unfold zlen in *. rewrite app_length in Hlen. cbn [length] in Hlen. lia. }
  pose proof (zlen_nonneg (rev r)) as Hnn.
  split; [|lia].
  rewrite <- (firstn_app_exact (rev r) [last]). rewrite <- Hb.
  unfold sub. rewrite firstn_firstn. f_equal. unfold zlen in Hrl. lia.
Qed.

(* ------------------------------------------------------------------ the generic walker *)
Fixpoint tree_ok (t : tree) : bool :=
  match t with
  | TPanic => false
  | TStruct _ ps => forallb tree_ok ps
  | TPtrs _ es => forallb tree_ok es
  | TComp _ _ es => forallb tree_ok es
  | _ => true
  end.

Lemma forallb_Forall {A} (f : A -> bool) l : Forall (fun x => f x = true) l -> forallb f l = true.
Proof. induction 1; cbn; [reflexivity|]. rewrite H, IHForall. reflexivity. Qed.

Lemma iter_rl_Forall {A} (P : A -> Prop) (f : Z -> Z -> A * Z) : forall n i rl,
  (forall j rl0, i <= j < i + Z.of_nat n -> P (fst (f j rl0))) ->
  Forall P (fst (iter_rl n i rl f)).
Proof.
  induction n as [|n IH]; intros i rl H; cbn [iter_rl].
  - constructor.
  - destruct (f i rl) as [a rl1] eqn:Ef.
    specialize (IH (i + 1) rl1 ltac:(intros j rl0 Hj; apply H; lia)).
    destruct (iter_rl n (i + 1) rl1 f) as [r rl2]. cbn [fst] in *.
    constructor; [|assumption]. specialize (H i rl ltac:(lia)). rewrite Ef in H. exact H.
Qed.

Lemma collect_nopanic {A} (f : Z -> res A) (d : A) n :
  (forall j, 0 <= j < Z.of_nat n -> f j <> Panic) -> collect n f d <> Panic.
Proof.
  unfold collect.
  assert (forall k i, (forall j, i <= j < i + Z.of_nat k -> f j <> Panic) ->
            (fix go (k : nat) (i : Z) {struct k} : res (list A) :=
               match k with
               | O => Ok []
               | S k' => do a <- f i; do r <- go k' (i + 1); Ok (a :: r)
               end) k i <> Panic) as G.
  { induction k as [|k IH]; intros i H; [discriminate|].
    specialize (IH (i + 1) ltac:(intros j Hj; apply H; lia)).
    specialize (H i ltac:(lia)).
    destruct (f i); cbn [bind]; [|discriminate|congruence].
    match goal with |- bind ?x _ <> _ => destruct x end; cbn [bind]; [discriminate|discriminate|congruence]. }
  intros H. apply G. intros j Hj. apply H. lia.
Qed.

Lemma cap_count_le n cap j : 0 <= j < Z.of_nat (cap_count n cap) -> 0 <= j < n.
Proof. unfold cap_count. lia. Qed.

Lemma walk_safe c fx m dcap pcap : msg_ok m -> cfg_strict c = true -> fx_bit fx = true ->
  forall fuel rl r, res_sat r (wf_ptr m) -> tree_ok (fst (walk c fx m dcap pcap fuel rl r)) = true.
Proof.
  intros Hm Hc Hfb. induction fuel as [|f IH]; intros rl r Hr.
  - destruct r as [p| |]; cbn [walk]; [|reflexivity|destruct Hr].
    destruct (p_valid p); reflexivity.
  - destruct r as [p| |]; cbn [walk]; [|reflexivity|destruct Hr]. cbn [res_sat] in Hr.
    destruct (p_valid p) eqn:V; cbn [negb]; [|reflexivity].
    destruct (p_kind p) eqn:K.
    + (* struct *)
      assert (wf_struct m p) as Hws by (split; [assumption|intros _; assumption]).
      destruct (wf_struct_inv m p Hws V) as (_ & Hz & _). unfold wf_size in Hz.
      pose proof (collect_nopanic (fun o => struct_uint m p o 1) 0 (cap_count (DataSize (p_size p)) dcap)) as Hcol.
      destruct (collect _ _ _) as [data| |]; [|reflexivity|].
      * match goal with |- context [iter_rl ?n ?i ?rl ?g] =>
          pose proof (iter_rl_Forall (fun t => tree_ok t = true) g n i rl) as Hit;
          destruct (iter_rl n i rl g) as [ps rl'] end.
        cbn [fst tree_ok]. apply forallb_Forall. apply Hit. intros j rl0 Hj.
        pose proof (struct_ptr_safe c m rl0 p j Hm Hws ltac:(lia)) as Hq.
        destruct (struct_ptr c m rl0 p j) as [q rl1]. cbn [fst] in Hq.
        apply IH. eapply res_sat_weaken; [exact Hq|]. intros a Ha. apply Ha. assumption.
      * exfalso. apply Hcol; [|reflexivity]. intros j Hj. apply cap_count_le in Hj.
        apply struct_uint_safe; try assumption; lia.
    + (* list *)
      assert (wf_list m p) as Hwl by (split; [assumption|intros _; assumption]).
      assert (forall j, 0 <= j < Z.of_nat (cap_count (p_len p) pcap) -> 0 <= j < list_len p) as Hidx.
      { intros j Hj. apply cap_count_le in Hj. unfold list_len. rewrite V. assumption. }
      cbv zeta. destruct (p_bit p) eqn:Hb.
      { pose proof (collect_nopanic (fun i => bitlist_at (fx_bit fx) m p i) false (cap_count (p_len p) pcap)) as Hcol.
        destruct (collect _ _ _); [reflexivity|reflexivity|].
        exfalso. apply Hcol; [|reflexivity]. intros j Hj. rewrite Hfb.
        apply bitlist_at_safe; auto. }
      destruct (p_comp p) eqn:Hcomp.
      { match goal with |- context [iter_rl ?n ?i ?rl ?g] =>
          pose proof (iter_rl_Forall (fun t => tree_ok t = true) g n i rl) as Hit;
          destruct (iter_rl n i rl g) as [ps rl'] end.
        cbn [fst tree_ok]. apply forallb_Forall. apply Hit. intros j rl0 Hj.
        apply IH. eapply res_sat_weaken; [apply (list_struct_safe (fx_depth fx) m p j Hm Hwl (Hidx j Hj))|].
        intros a [Ha _]. exact Ha. }
      destruct (0 <? PointerCount (p_size p)) eqn:Hpc.
      { match goal with |- context [iter_rl ?n ?i ?rl ?g] =>
          pose proof (iter_rl_Forall (fun t => tree_ok t = true) g n i rl) as Hit;
          destruct (iter_rl n i rl g) as [ps rl'] end.
        cbn [fst tree_ok]. apply forallb_Forall. apply Hit. intros j rl0 Hj.
        pose proof (ptrlist_at_safe c (fx_upgrade fx) m rl0 p j Hm Hwl (Hidx j Hj)) as Hq.
        destruct (ptrlist_at c (fx_upgrade fx) m rl0 p j) as [q rl1]. cbn [fst] in Hq.
        apply IH. eapply res_sat_weaken; [exact Hq|]. intros a Ha. apply Ha. assumption. }
      destruct (DataSize (p_size p) =? 0) eqn:Hw0; [reflexivity|].
      destruct (wf_list_inv m p Hwl V) as (_ & _ & _ & Hr'). rewrite Hb in Hr'. destruct Hr' as [[Hz _] _].
      pose proof (collect_nopanic (fun i => list_uint_at (fx_upgrade fx) m p i (DataSize (p_size p))) 0
                    (cap_count (p_len p) pcap)) as Hcol.
      destruct (collect _ _ _); [reflexivity|reflexivity|].
      exfalso. apply Hcol; [|reflexivity]. intros j Hj.
      pose proof (list_uint_at_safe (fx_upgrade fx) m p j (DataSize (p_size p)) Hm Hwl (Hidx j Hj) ltac:(lia)) as H.
      intros E. rewrite E in H. exact H.
    + reflexivity.
Qed.

(* ------------------------------------------------------------------ op lists *)
(* The documented argument domain of the read-side API, as an executable predicate evaluated
   on the state the op is applied to: pointer indices are uint16; data offsets are
   DataOffset < 2^19 and widths 1/2/4/8; bit offsets < 2^22; list indices are in
   [0, Len()) of the list the handle designates AT THAT POINT (an index outside is the
   documented programmer-error panic, see list_struct_panic_iff / primitiveElem_panic_iff /
   bitlist_at_panic_iff).  Handles themselves are unrestricted (an unknown handle is the
   zero Ptr). *)
Definition in_width (n : Z) : bool := (n =? 1) || (n =? 2) || (n =? 4) || (n =? 8).
Definition in_len (st : rstate) (h i : Z) : bool :=
  (0 <=? i) && (i <? list_len (as_list (handle st h))).

Definition op_dom (st : rstate) (o : op) : bool :=
  match o with
  | OSPtr _ i | OHasPtr _ i => (0 <=? i) && (i <? 65536)
  | OUint _ off n => (0 <=? off) && (off <? 524288) && in_width n
  | OBit _ n => (0 <=? n) && (n <? 4194304)
  | OLStruct h i | OPLAt h i | OBitAt h i => in_len st h i
  | OUintAt h i n => in_len st h i && in_width n
  | ORoot | OText _ | OData _ | OInfo _ | ORLimit | OWalk _ _ _ _ | OReset _ | OResetLimit _ | OUnread _ => true
  end.

Fixpoint run_dom (c : config) (fx : fixes) (m : segs) (st : rstate) (ops : list op) : bool :=
  match ops with
  | [] => true
  | o :: r => op_dom st o && run_dom c fx m (fst (step c fx m st o)) r
  end.

Definition oval_ok (v : oval) : Prop :=
  match v with
  | VPtr r => r <> Panic
  | VNum r => r <> Panic
  | VBool r => r <> Panic
  | VBytes r => r <> Panic
  | VTree t _ => tree_ok t = true
  end.

Definition state_wf (m : segs) (st : rstate) : Prop := Forall (wf_ptr m) (rs_handles st).

Lemma handle_wf m st h : state_wf m st -> wf_ptr m (handle st h).
Proof.
  unfold state_wf, handle. intros H.
  destruct (Nat.lt_ge_cases (Z.to_nat h) (length (rs_handles st))) as [L|G].
  - rewrite Forall_forall in H. apply H. apply nth_In. assumption.
  - rewrite nth_overflow by assumption. apply wf_null.
Qed.

Lemma push_wf m st r rl : state_wf m st -> res_sat r (wf_ptr m) -> state_wf m (push st r rl).
Proof.
  unfold state_wf, push. cbn [rs_handles]. intros H Hr. apply Forall_app. split; [assumption|].
  constructor; [|constructor]. destruct r; cbn [res_sat] in Hr; auto using wf_null.
Qed.

Lemma res_sat_nopanic {A} (r : res A) P : res_sat r P -> r <> Panic.
Proof. destruct r; cbn; [discriminate|discriminate|intros []]. Qed.

Lemma in_width_range n : in_width n = true -> 0 <= n <= 8.
Proof. unfold in_width. lia. Qed.

Lemma step_safe c fx m st o : msg_ok m -> cfg_strict c = true -> cfg_root c = true -> fx_bit fx = true ->
  state_wf m st -> op_dom st o = true ->
  state_wf m (fst (step c fx m st o)) /\ oval_ok (snd (step c fx m st o)).
Proof.
  intros Hm Hst Hrt Hfb Hwf Hd.
  pose proof (fun h => handle_wf m st h Hwf) as Hh.
  pose proof (fun h => wf_struct_as_struct m _ (Hh h)) as Hhs.
  pose proof (fun h => wf_list_as_list m _ (Hh h)) as Hhl.
  destruct o; cbn [step op_dom] in *; unfold in_len in *.
  - (* root *)
    pose proof (root_safe c m (rs_rl st) Hm Hrt) as H.
    destruct (root c m (rs_rl st)) as [r rl]. cbn [fst snd] in *.
    assert (res_sat r (wf_ptr m)) as H' by (eapply res_sat_weaken; [exact H|auto]).
    split; [apply push_wf; assumption|]. exact (res_sat_nopanic _ _ H').
  - (* Struct.Ptr *)
    pose proof (struct_ptr_safe c m (rs_rl st) _ i Hm (Hhs h) ltac:(lia)) as H.
    destruct (struct_ptr c m (rs_rl st) (as_struct (handle st h)) i) as [r rl]. cbn [fst snd] in *.
    assert (res_sat r (wf_ptr m)) as H' by (eapply res_sat_weaken; [exact H|auto]).
    split; [apply push_wf; assumption|]. exact (res_sat_nopanic _ _ H').
  - split; [assumption|]. cbn [snd oval_ok]. apply struct_hasptr_safe; auto. lia.
  - split; [assumption|]. cbn [snd oval_ok].
    apply andb_prop in Hd. destruct Hd as [Hd Hn]. apply in_width_range in Hn.
    apply struct_uint_safe; auto; lia.
  - split; [assumption|]. cbn [snd oval_ok]. apply struct_bit_safe; auto. lia.
  - (* List.Struct *)
    pose proof (list_struct_safe (fx_depth fx) m _ i Hm (Hhl h) ltac:(lia)) as H.
    cbn [fst snd].
    assert (res_sat (list_struct (fx_depth fx) (as_list (handle st h)) i) (wf_ptr m)) as H'
      by (eapply res_sat_weaken; [exact H|intros a [Ha _]; exact Ha]).
    split; [apply push_wf; assumption|]. exact (res_sat_nopanic _ _ H').
  - (* PointerList.At *)
    pose proof (ptrlist_at_safe c (fx_upgrade fx) m (rs_rl st) _ i Hm (Hhl h) ltac:(lia)) as H.
    destruct (ptrlist_at c (fx_upgrade fx) m (rs_rl st) (as_list (handle st h)) i) as [r rl]. cbn [fst snd] in *.
    assert (res_sat r (wf_ptr m)) as H' by (eapply res_sat_weaken; [exact H|auto]).
    split; [apply push_wf; assumption|]. exact (res_sat_nopanic _ _ H').
  - split; [assumption|]. cbn [snd oval_ok].
    apply andb_prop in Hd. destruct Hd as [Hd Hn]. apply in_width_range in Hn.
    eapply res_sat_nopanic. apply list_uint_at_safe; auto; lia.
  - split; [assumption|]. cbn [snd oval_ok]. rewrite Hfb. apply bitlist_at_safe; auto. lia.
  - split; [assumption|]. cbn [snd oval_ok]. eapply res_sat_nopanic. apply ptr_text_safe; auto.
  - split; [assumption|]. cbn [snd oval_ok]. eapply res_sat_nopanic. apply ptr_data_safe; auto.
  - split; [assumption|]. cbn [snd oval_ok]. discriminate.
  - split; [assumption|]. cbn [snd oval_ok]. discriminate.
  - (* walk *)
    pose proof (walk_safe c fx m dcap pcap Hm Hst Hfb (Z.to_nat fuel) (rs_rl st) (Ok (handle st h)) (Hh h)) as H.
    destruct (walk c fx m dcap pcap (Z.to_nat fuel) (rs_rl st) (Ok (handle st h))) as [t rl]. cbn [fst snd] in *.
    split; [exact Hwf|exact H].
  - (* reset: the handle pool is emptied *)
    split; [constructor|]. cbn [snd oval_ok]. discriminate.
  - (* ResetReadLimit / Unread: handles unchanged *)
    split; [exact Hwf|]. cbn [snd oval_ok]. discriminate.
  - split; [exact Hwf|]. cbn [snd oval_ok]. discriminate.
Qed.

(* All read-side API call sequences: no observation is a panic and every handle ever
   created designates a region inside the message. *)
Lemma run_safe_gen c fx m : msg_ok m -> cfg_strict c = true -> cfg_root c = true -> fx_bit fx = true ->
  forall ops st, state_wf m st -> run_dom c fx m st ops = true ->
  state_wf m (fst (run c fx m st ops)) /\ Forall oval_ok (snd (run c fx m st ops)).
Proof.
  intros Hm Hst Hrt Hfb. induction ops as [|o ops IH]; intros st Hwf Hd; cbn [run run_dom] in *.
  - split; [assumption|constructor].
  - apply andb_prop in Hd. destruct Hd as [Hd1 Hd2].
    destruct (step_safe c fx m st o Hm Hst Hrt Hfb Hwf Hd1) as [Hs Hv].
    destruct (step c fx m st o) as [st1 v]. cbn [fst snd] in *.
    destruct (IH st1 Hs Hd2) as [Hs2 Hvs].
    destruct (run c fx m st1 ops) as [st2 vs]. cbn [fst snd] in *.
    split; [assumption|constructor; assumption].
Qed.

Definition init_state (c : config) : rstate := mkRS [] (init_rlimit c).

Theorem run_safe c fx m ops : msg_ok m -> cfg_strict c = true -> cfg_root c = true -> fx_bit fx = true ->
  run_dom c fx m (init_state c) ops = true ->
  Forall oval_ok (run_ops c fx m ops) /\ state_wf m (fst (run c fx m (init_state c) ops)).
Proof.
  intros Hm Hst Hrt Hfb Hd.
  destruct (run_safe_gen c fx m Hm Hst Hrt Hfb ops (init_state c) ltac:(constructor) Hd) as [H1 H2].
  split; assumption.
Qed.

(* ------------------------------------------------------------------ accessor_safe *)
(* Every accessor of the read API applied to a well-formed receiver (any Ptr handed out by the
   reader, converted with Ptr.Struct() / Ptr.List()) with arguments in the documented domain:
   no panic; returned pointers are well-formed; returned bytes are a sub-list [sub seg a n]
   (= firstn n (skipn a seg)) of a supplied segment, never anything else. *)
Theorem accessor_safe c m p : msg_ok m -> cfg_strict c = true -> wf_ptr m p ->
  let s := as_struct p in let l := as_list p in
  (forall rl i, 0 <= i < 65536 -> res_sat (fst (struct_ptr c m rl s i)) (wf_ptr m)) /\
  (forall i, 0 <= i < 65536 -> struct_hasptr m s i <> Panic) /\
  (forall off n, 0 <= off < 524288 -> in_width n = true ->
     struct_uint m s off n <> Panic /\
     (p_valid s = true -> struct_uint m s off n =
        Ok (if off + n <=? DataSize (p_size s) then le_decode (sub (seg_of m s) (p_off s + off) n) else 0))) /\
  (forall n, 0 <= n < 4194304 -> struct_bit m s n <> Panic) /\
  (forall fd i, 0 <= i < list_len l -> res_sat (list_struct fd l i) (wf_ptr m)) /\
  (forall fu rl i, 0 <= i < list_len l -> res_sat (fst (ptrlist_at c fu m rl l i)) (wf_ptr m)) /\
  (forall fu i n, 0 <= i < list_len l -> in_width n = true ->
     res_sat (list_uint_at fu m l i n)
       (fun v => v = 0 \/ exists a, 0 <= a /\ a + n <= zlen (seg_of m l) /\ v = le_decode (sub (seg_of m l) a n))) /\
  (forall i, 0 <= i < list_len l -> bitlist_at true m l i <> Panic) /\
  res_sat (ptr_text m p) (fun o => match o with
                                   | None => True
                                   | Some b => b = sub (seg_of m p) (p_off p) (p_len p - 1) /\ 0 <= p_off p /\
                                               0 < p_len p /\ p_off p + p_len p <= zlen (seg_of m p)
                                   end) /\
  res_sat (ptr_data m p) (fun o => match o with
                                   | None => True
                                   | Some b => b = sub (seg_of m p) (p_off p) (p_len p) /\ 0 <= p_off p /\
                                               0 <= p_len p /\ p_off p + p_len p <= zlen (seg_of m p)
                                   end).
Proof.
  intros Hm Hc Hw s l.
  pose proof (wf_struct_as_struct m p Hw) as Hs. pose proof (wf_list_as_list m p Hw) as Hl.
  fold s in Hs. fold l in Hl.
  split; [|split; [|split; [|split; [|split; [|split; [|split; [|split; [|split]]]]]]]].
  - intros rl i Hi. eapply res_sat_weaken; [apply struct_ptr_safe; auto; lia|auto].
  - intros i Hi. apply struct_hasptr_safe; auto; lia.
  - intros off n Ho Hn. apply in_width_range in Hn. split.
    + apply struct_uint_safe; auto.
    + intros V. apply struct_uint_spec; auto.
  - intros n Hn. apply struct_bit_safe; auto; lia.
  - intros fd i Hi. eapply res_sat_weaken; [apply (list_struct_safe fd m l i); auto|]. intros a [Ha _]. exact Ha.
  - intros fu rl i Hi. eapply res_sat_weaken; [apply ptrlist_at_safe; auto|auto].
  - intros fu i n Hi Hn. apply in_width_range in Hn. apply list_uint_at_safe; auto. lia.
  - intros i Hi. apply bitlist_at_safe; auto.
  - apply ptr_text_safe; auto.
  - apply ptr_data_safe; auto.
Qed.

(* ------------------------------------------------------------------ as-found variants *)
(* F21 (cfg_root = false): Message.Root on a message whose first segment is empty panics *)
Example root_prefix_refuted : fst (root (mkCfg 0 0 true false) [[]] 64) = Panic.
Proof. vm_compute. reflexivity. Qed.

(* F02 (fx_bit = false): BitList.At panics for every index >= 2^22 of ANY valid bit list,
   however long (addOffset's struct-field limit) *)
Lemma bitlist_prefix_refuted m p i : p_valid p = true -> p_bit p = true ->
  4194304 <= i < p_len p -> bitlist_at false m p i = Panic.
Proof.
  intros V B Hi. unfold bitlist_at. rewrite V, B. cbn [negb orb].
  destruct (i <? 0) eqn:E1; [lia|]. destruct (i >=? p_len p) eqn:E2; [lia|]. cbn [orb]. cbv zeta.
  unfold bitOffset_offset. destruct (addOffset (p_off p) (i / 8)) eqn:Ea; [|reflexivity].
  apply addOffset_spec in Ea. lia.
Qed.

(* F06 (cfg_strict = false): with a traverse limit of 2^32 a composite tag with zero-sized
   elements and count -1 is accepted: Root hands out a list with Len() = -1 *)
Example strict_prefix_refuted :
  let m := [[1;0;0;0;7;0;0;0; 252;255;255;255;0;0;0;0]] in
  msg_ok m /\
  exists p, fst (root (mkCfg 4294967296 0 false true) m 4294967296) = Ok p /\ p_valid p = true /\ p_len p = -1.
Proof.
  split.
  - repeat constructor; cbn; try lia; unfold maxSegmentSize; lia.
  - eexists. vm_compute. repeat split.
Qed.
(* the repaired reader rejects the same message *)
Example strict_fixed_rejects :
  fst (root (mkCfg 4294967296 0 true true) [[1;0;0;0;7;0;0;0; 252;255;255;255;0;0;0;0]] 4294967296) = Err.
Proof. vm_compute. reflexivity. Qed.

(* the excluded programmer-error panics, together *)
Lemma index_panics fd fu p i exp :
  (list_struct fd p i = Panic <-> (p_valid p = false \/ i < 0 \/ i >= p_len p)) /\
  (primitiveElem fu p i exp = Panic <-> (p_valid p = false \/ i < 0 \/ i >= p_len p)).
Proof. split; [exact (list_struct_panic_iff fd p i)|exact (primitiveElem_panic_iff fu p i exp)]. Qed.

(* ------------------------------------------------------------------ non-vacuity (used by Properties_C01) *)
(* a struct with one data word, a text field "hi" and a composite list of two structs *)
Definition rd_ex_msg : segs :=
  [[0;0;0;0;1;0;2;0;  42;0;0;0;0;0;0;0;  5;0;0;0;26;0;0;0;  5;0;0;0;23;0;0;0;
    104;105;0;0;0;0;0;0;  8;0;0;0;1;0;0;0;  1;0;0;0;0;0;0;0;  2;0;0;0;0;0;0;0]].
Definition rd_ex_ops : list op :=
  [ORoot; OSPtr 0 0; OText 1; OSPtr 0 1; OLStruct 2 1; OUint 3 0 4; OWalk 0 8 8 10; ORLimit].
Definition rd_ex_cfg := mkCfg 1000 4 true true.
Definition rd_ex_fix := mkFix true true true.

Lemma rd_ex_hypotheses :
  msg_ok rd_ex_msg /\ run_dom rd_ex_cfg rd_ex_fix rd_ex_msg (init_state rd_ex_cfg) rd_ex_ops = true.
Proof.
  split; [|vm_compute; reflexivity].
  repeat constructor; cbn; try lia; unfold maxSegmentSize; lia.
Qed.

Lemma rd_ex_run :
  exists p0 p1 p2 p3,
  run_ops rd_ex_cfg rd_ex_fix rd_ex_msg rd_ex_ops =
  [VPtr (Ok p0); VPtr (Ok p1); VBytes (Ok (Some [104; 105])); VPtr (Ok p2); VPtr (Ok p3); VNum (Ok 2);
   VTree (TStruct [42;0;0;0;0;0;0;0]
            [TPrim 1 3 [104; 105; 0];
             TComp 2 (mkOS 8 0) [TStruct [1;0;0;0;0;0;0;0] []; TStruct [2;0;0;0;0;0;0;0] []]]) 938;
   VNum (Ok 938)].
Proof. do 4 eexists. vm_compute. reflexivity. Qed.
