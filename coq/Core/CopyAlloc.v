(* C02 for the deep copy (Core/Builder.v write_ptr / copy_struct, source in a second read-only
   message): the bytes appended to the destination are bounded by the traversal budget the copy
   consumes from the source.  Ghost counter: [tot m] = total length of the destination's
   segments; potential [Phi w] = tot (destination) + 5 * (remaining source budget).
     write_ptr  of src:   Phi w' <= Phi w + wcost src + 32 * slots src
     copy_struct from src: Phi w' <= Phi w + 32 * PointerCount (p_size src)
   where wcost src = the padded size of src's own copy + 16 (landing pad) and slots src the
   number of pointer slots of src.  Every object below the top level was charged its read size
   by readPtr; its copy takes at most that size + 15 (padding, composite tag) + a 16-byte pad,
   and its own pointer slots were paid for (8 bytes each) in its read size: 5 budget bytes +
   32 bytes per slot of the parent cover it.  Same standing assumptions as Core/CopySafe.v. *)
From CV Require Import Core.Builder Core.ReaderFacts Core.BuilderFacts Core.AllocProofs
                       Core.WritePtrProofs Core.HeapProofs Core.CopyProofs Core.LimitProofs Core.CopySafe.
From Coq Require Import ZifyBool ZifyNat.
Open Scope Z_scope.
Ltac Zify.zify_post_hook ::= Z.div_mod_to_equations.

(* ------------------------------------------------------------------ total size of a message *)
Fixpoint sumN (f : nat -> Z) (n : nat) : Z :=
  match n with O => 0 | S k => sumN f k + f k end.

Lemma sumN_ext f g n : (forall i, (i < n)%nat -> f i = g i) -> sumN f n = sumN g n.
Proof. induction n as [|n IH]; intros H; cbn [sumN]; [reflexivity|]. rewrite IH by (intros; apply H; lia). rewrite H by lia. reflexivity. Qed.

Lemma sumN_bump f g n k d : (k < n)%nat -> (forall i, (i < n)%nat -> i <> k -> g i = f i) -> g k = f k + d ->
  sumN g n = sumN f n + d.
Proof.
  induction n as [|n IH]; intros Hk H Hd; [lia|]. cbn [sumN].
  destruct (Nat.eq_dec k n) as [->|Hne].
  - rewrite (sumN_ext g f n) by (intros; apply H; lia). lia.
  - rewrite IH by (try lia; intros; apply H; lia). rewrite (H n) by lia. lia.
Qed.

Lemma sumN_tail f n n' : (n <= n')%nat -> (forall i, (n <= i < n')%nat -> f i = 0) -> sumN f n' = sumN f n.
Proof.
  induction n' as [|k IH]; intros Hle H.
  - replace n with 0%nat by lia. reflexivity.
  - destruct (Nat.eq_dec n (S k)) as [->|Hne]; [reflexivity|].
    cbn [sumN]. rewrite IH by (try lia; intros; apply H; lia). rewrite (H k) by lia. lia.
Qed.

Definition lenf (m : bmsg) : nat -> Z := fun i => zlen (mem m (Z.of_nat i)).
Definition tot (m : bmsg) : Z := sumN (lenf m) (length (bm_segs m)).

Lemma lenf_out m i : (length (bm_segs m) <= i)%nat -> lenf m i = 0.
Proof. intros H. unfold lenf, mem. rewrite get_seg_out by (unfold zlen; lia). reflexivity. Qed.

Lemma tot_upto m n : (length (bm_segs m) <= n)%nat -> tot m = sumN (lenf m) n.
Proof. intros H. unfold tot. symmetry. apply sumN_tail; [assumption|]. intros i Hi. apply lenf_out. lia. Qed.

Lemma tot_same m m' : nsegs m' = nsegs m -> (forall i, 0 <= i -> zlen (mem m' i) = zlen (mem m i)) -> tot m' = tot m.
Proof.
  intros Hn Hl. unfold tot. unfold nsegs, zlen in Hn. replace (length (bm_segs m')) with (length (bm_segs m)) by lia.
  apply sumN_ext. intros i _. unfold lenf. apply Hl. lia.
Qed.

Lemma tot_alloc m m' sid' pad :
  nsegs m <= nsegs m' -> 0 <= sid' < nsegs m' ->
  zlen (mem m' sid') = zlen (mem m sid') + pad ->
  (forall i, 0 <= i -> i <> sid' -> mem m' i = mem m i) -> tot m' = tot m + pad.
Proof.
  intros Hn Hs Hl Ho. unfold nsegs, zlen in Hn, Hs.
  rewrite (tot_upto m (length (bm_segs m'))) by lia. unfold tot.
  apply (sumN_bump _ _ _ (Z.to_nat sid')); [lia| |].
  - intros i Hi Hne. unfold lenf. rewrite Ho by lia. reflexivity.
  - unfold lenf. rewrite Z2Nat.id by lia. exact Hl.
Qed.

Lemma seg_write_tot m sid addr bs m' : dok m -> region_ok m sid addr (zlen bs) ->
  seg_write m sid addr bs = Ok m' -> tot m' = tot m.
Proof.
  intros Hd Hr E. destruct (seg_write_safe m sid addr bs Hd Hr) as (m2 & E2 & _ & N & L & _).
  rewrite E in E2. inversion E2; subst m2. apply tot_same; assumption.
Qed.

Lemma alloc_tot m sid sz m' sid' addr : dok m -> 0 <= sid < nsegs m -> 0 <= sz ->
  alloc m sid sz = Ok (m', sid', addr) -> tot m' = tot m + padToWord sz.
Proof.
  intros Hd Hs Hz E. destruct (alloc_safe m sid sz m' sid' addr Hd Hs Hz E) as (_ & [G _] & S1 & _ & A1 & A2 & _ & O & _).
  apply (tot_alloc m m' sid'); auto. lia.
Qed.

(* ------------------------------------------------------------------ the potential *)
Definition Phi (w : world) : Z := tot (w_dst w) + 5 * w_src_rl w.

Definition rpostk (w0 : world) (k : Z) (r : res world) : Prop :=
  match r with Panic => False | Err => True | Ok w' => wgood w0 w' /\ Phi w' <= Phi w0 + k end.

Lemma rpostk_rpost w k r : rpostk w k r -> rpost w r.
Proof. destruct r; cbn; tauto. Qed.
Lemma rpostk_weaken w k k' r : k <= k' -> rpostk w k r -> rpostk w k' r.
Proof. intros H. destruct r; cbn; auto. intros [G P]. split; [exact G|lia]. Qed.
Lemma rpostk_trans a b k1 k2 r : wgood a b -> Phi b <= Phi a + k1 -> rpostk b k2 r -> rpostk a (k1 + k2) r.
Proof. intros G P. destruct r; cbn; auto. intros [G2 P2]. split; [eapply wgood_trans; eauto|lia]. Qed.

Lemma lift0_write_k w sid addr v : dok (w_dst w) -> 0 <= w_src_rl w -> region_ok (w_dst w) sid addr 8 ->
  rpostk w 0 (lift0 w (writeRawPointer (w_dst w) sid addr v)).
Proof.
  intros Hd Hr Hreg. destruct (writeRaw_safe (w_dst w) sid addr v Hd Hreg) as (m' & E & D & N & L & _).
  rewrite E. cbn [lift0 bind rpostk]. split.
  - apply wgood_set_dst; auto. apply same_len_grows; auto.
  - unfold Phi. cbn [w_dst w_set_dst w_src_rl]. rewrite (tot_same _ _ N L). lia.
Qed.

Lemma place_k w dsid off tsid taddr raw : dok (w_dst w) -> 0 <= w_src_rl w ->
  region_ok (w_dst w) dsid off 8 -> 0 <= tsid < nsegs (w_dst w) ->
  rpostk w 16 (place w dsid off tsid taddr raw).
Proof.
  intros Hd Hr Hreg Ht. pose proof (place_safe w dsid off tsid taddr raw Hd Hr Hreg Ht) as PS.
  unfold place in *. cbv zeta in *.
  destruct (tsid =? dsid); [eapply rpostk_weaken; [|apply lift0_write_k; assumption]; lia|].
  destruct (hasCapacity (get_seg (w_dst w) tsid) 8) eqn:HC.
  - destruct (alloc (w_dst w) tsid 8) as [[[m1 s1] padAddr]| |] eqn:EA; cbn [bind] in *; [|exact I|exact PS].
    pose proof (alloc_in_place (w_dst w) tsid 8 m1 s1 padAddr HC EA) as ->.
    pose proof (alloc_tot (w_dst w) tsid 8 m1 tsid padAddr Hd Ht ltac:(lia) EA) as T1. change (padToWord 8) with 8 in T1.
    destruct (alloc_safe (w_dst w) tsid 8 m1 tsid padAddr Hd Ht ltac:(lia) EA) as (D1 & G1 & S1 & A0 & A1 & A2 & _).
    change (padToWord 8) with 8 in A2.
    destruct (writeRaw_safe m1 tsid padAddr (withOffset raw (nearPointerOffset padAddr taddr)) D1
                ltac:(unfold region_ok; lia)) as (m2 & E2 & D2 & N2 & L2 & _).
    rewrite E2 in *. cbn [bind] in *.
    pose proof (grows_trans _ _ _ G1 (same_len_grows _ _ N2 L2)) as G2.
    destruct (writeRaw_safe m2 dsid off (rawFarPointer tsid padAddr) D2 (region_grows _ _ _ _ _ G2 Hreg))
      as (m3 & E3 & D3 & N3 & L3 & _).
    rewrite E3 in *. cbn [lift0 bind rpost rpostk] in *. split; [exact PS|].
    unfold Phi. cbn [w_dst w_set_dst w_src_rl]. rewrite (tot_same _ _ N3 L3), (tot_same _ _ N2 L2). lia.
  - destruct Hreg as (Hds & Ho1 & Ho2).
    destruct (alloc (w_dst w) dsid 16) as [[[m1 psid] padAddr]| |] eqn:EA; cbn [bind] in *; [|exact I|exact PS].
    pose proof (alloc_tot (w_dst w) dsid 16 m1 psid padAddr Hd Hds ltac:(lia) EA) as T1. change (padToWord 16) with 16 in T1.
    destruct (alloc_safe (w_dst w) dsid 16 m1 psid padAddr Hd Hds ltac:(lia) EA) as (D1 & G1 & S1 & A0 & A1 & A2 & _).
    change (padToWord 16) with 16 in A2.
    destruct D1 as [I1 Sm1]. pose proof (Sm1 psid) as Sp. unfold maxSegmentSize in Sp.
    destruct (writeRaw_safe m1 psid padAddr (rawFarPointer tsid taddr) (conj I1 Sm1)
                ltac:(unfold region_ok; lia)) as (m2 & E2 & D2 & N2 & L2 & _).
    rewrite E2 in *. cbn [bind] in *.
    unfold addSizeUnchecked in *. rewrite (u32_id (padAddr + 8)) in * by lia.
    destruct (writeRaw_safe m2 psid (padAddr + 8) raw D2
                ltac:(unfold region_ok; rewrite N2, (L2 psid) by lia; lia)) as (m3 & E3 & D3 & N3 & L3 & _).
    rewrite E3 in *. cbn [bind] in *.
    pose proof (grows_trans _ _ _ G1 (grows_trans _ _ _ (same_len_grows _ _ N2 L2) (same_len_grows _ _ N3 L3))) as G3.
    destruct (writeRaw_safe m3 dsid off (rawDoubleFarPointer psid padAddr) D3
                (region_grows _ _ _ _ _ G3 (conj Hds (conj Ho1 Ho2)))) as (m4 & E4 & D4 & N4 & L4 & _).
    rewrite E4 in *. cbn [lift0 bind rpost rpostk] in *. split; [exact PS|].
    unfold Phi. cbn [w_dst w_set_dst w_src_rl].
    rewrite (tot_same _ _ N4 L4), (tot_same _ _ N3 L3), (tot_same _ _ N2 L2). lia.
Qed.

Lemma zlen_iota n : zlen (iota n) = Z.of_nat n.
Proof. unfold iota, zlen. rewrite map_length, seq_length. reflexivity. Qed.

Lemma fold_res_postk {A} (I : A -> Prop) (Ph : A -> Z) (c : Z) (f : A -> Z -> res A) : forall l a,
  (forall x b, In x l -> I b ->
     match f b x with Panic => False | Err => True | Ok b' => I b' /\ Ph b' <= Ph b + c end) -> I a ->
  match fold_res l a f with Panic => False | Err => True | Ok a' => I a' /\ Ph a' <= Ph a + c * zlen l end.
Proof.
  induction l as [|x l IH]; intros a Hf Ha; cbn [fold_res].
  - split; [exact Ha|]. unfold zlen. cbn [length]. lia.
  - pose proof (Hf x a (or_introl eq_refl) Ha) as H. destruct (f a x) as [b| |]; cbn [bind]; auto.
    destruct H as [Hb Pb].
    specialize (IH b ltac:(intros y c0 Hy; apply Hf; right; assumption) Hb).
    destruct (fold_res l b f); auto. destruct IH as [I2 P2]. split; [exact I2|].
    unfold zlen in *. cbn [length]. lia.
Qed.

(* ------------------------------------------------------------------ costs *)
(* what writePtr appends for the object itself: its padded copy and a landing pad *)
Definition wcost (p : Ptr) : Z :=
  if p_valid p then
    match p_kind p with
    | KStruct => padToWord (totalSize (mkOS (padToWord (DataSize (p_size p))) (PointerCount (p_size p)))) + 16
    | KList => padToWord (list_allocSize p) + 16
    | KIface => 0
    end
  else 0.

Lemma wcost_nonneg p : 0 <= wcost p.
Proof. unfold wcost. destruct (p_valid p); [|lia]. destruct (p_kind p); unfold padToWord, u32; lia. Qed.

Lemma list_alloc_facts m p : msg_ok m -> wf_list m p -> p_valid p = true -> shape_ok p ->
  0 <= list_allocSize p <= maxSegmentSize /\ list_allocSize p <= list_readSize p + 8.
Proof.
  intros Hm Hw V Hsh. destruct (wf_list_inv m p Hw V) as (Hs & Ho & Hl & Hr).
  specialize (Hsh V). rewrite (proj2 Hw V) in Hsh.
  destruct (seg_of_ok m p Hm) as [Hsl _]. unfold maxSegmentSize in *.
  unfold list_allocSize, list_readSize. rewrite V. cbn [negb]. cbv zeta.
  destruct (p_bit p) eqn:B.
  - destruct Hr as [Hz Hr]. rewrite Hz. change (totalSize (mkOS 0 0)) with 0. rewrite Z.eqb_refl.
    rewrite bitListSize_spec by lia. unfold wordSize.
    rewrite times_some by (unfold maxSegmentSize; lia). lia.
  - destruct Hr as [Hz Hr]. pose proof (totalSize_bound _ Hz) as Hb.
    set (ts := totalSize (p_size p)) in *.
    assert (0 <= ts * p_len p /\ ts * p_len p = p_len p * ts) as [Hnn Hcm] by nia.
    rewrite (times_some ts (p_len p)) by (unfold maxSegmentSize; lia).
    destruct (ts =? 0) eqn:E0.
    + assert (ts = 0) as E by lia. rewrite E in *. unfold wordSize.
      rewrite times_some by (unfold maxSegmentSize; lia).
      destruct (p_comp p); cbn [negb]; [rewrite u32_id by lia|]; lia.
    + rewrite (times_some ts (p_len p)) by (unfold maxSegmentSize; lia).
      destruct (p_comp p); cbn [negb]; [|lia]. destruct Hsh as (H8 & _). rewrite u32_id by lia. lia.
Qed.

(* the object's own copy costs at most its read size + 32 *)
Lemma wcost_le m p : msg_ok m -> wf_ptr m p -> shape_ok p -> wcost p <= readSize p + 32.
Proof.
  intros Hm Hw Hsh. unfold wcost, readSize. destruct (p_valid p) eqn:V; [|pose proof (readSize_nonneg p); unfold readSize in *; lia].
  destruct (Hw V) as [Hs Ho]. unfold wf_obj in Ho. destruct (p_kind p) eqn:K.
  - destruct Ho as (Hz & _). destruct (pad_size_wf _ Hz) as (Hzc & Hle & H8). cbv zeta in *.
    rewrite (totalSize_wf _ Hzc). cbn [DataSize PointerCount]. unfold struct_readSize. rewrite V.
    rewrite (totalSize_wf _ Hz). unfold wf_size in *. cbn [DataSize PointerCount] in *.
    unfold padToWord, u32 in *. lia.
  - destruct (list_alloc_facts m p Hm (conj Hw (fun _ => K)) V Hsh) as [H1 H2].
    pose proof (padToWord_facts _ H1). lia.
  - lia.
Qed.

(* ------------------------------------------------------------------ the copy, with the potential *)
Definition A_wp (f : nat) : Prop := forall w dsid off src fc,
  dok (w_dst w) -> msg_ok (w_src w) -> 0 <= w_src_rl w -> region_ok (w_dst w) dsid off 8 ->
  wf_ptr (w_src w) src -> shape_ok src ->
  rpostk w (wcost src + 32 * slots src) (write_ptr f true w dsid off InSrc src fc).
Definition A_cs (f : nat) : Prop := forall w dst src,
  dok (w_dst w) -> msg_ok (w_src w) -> 0 <= w_src_rl w -> dst_ok (w_dst w) dst ->
  wf_struct (w_src w) src ->
  rpostk w (32 * (if p_valid src then PointerCount (p_size src) else 0)) (copy_struct f true w dst InSrc src).

Lemma Phi_set_dst w m' : Phi (w_set_dst w m') = tot m' + 5 * w_src_rl w.
Proof. reflexivity. Qed.

Lemma acs_step f : A_wp f -> A_cs (S f).
Proof.
  intros IH w dst src Hd Hm Hr Hdst Hs. pose proof Hdst as (Vd & Zd & Rd). rewrite copy_struct_S. cbv zeta.
  rewrite Vd. cbn [negb]. destruct (p_valid src) eqn:Vs; cbn [negb].
  2:{ cbn [rpostk]. split; [apply wgood_refl; assumption|lia]. }
  cbn [w_segs]. change (nth (Z.to_nat (p_seg src)) (w_src w) []) with (seg_of (w_src w) src).
  destruct (src_data_slice _ src Hm Hs Vs) as [-> Ls]. cbn [bind].
  rewrite nth_bm_data. unfold wf_size in Zd.
  assert (region_ok (w_dst w) (p_seg dst) (p_off dst) (DataSize (p_size dst))) as Rdd
    by (destruct Rd as (R1 & R2 & R3); unfold region_ok; lia).
  destruct (dst_slice (w_dst w) (p_seg dst) (p_off dst) (DataSize (p_size dst)) Hd Rdd ltac:(lia)) as [-> Ld].
  cbn [bind].
  set (sd := sub (seg_of (w_src w) src) (p_off src) (DataSize (p_size src))) in *.
  set (dd := sub (mem (w_dst w) (p_seg dst)) (p_off dst) (DataSize (p_size dst))) in *.
  set (bs := firstn (Nat.min (length sd) (length dd)) sd ++ repeat 0 (length dd - Nat.min (length sd) (length dd))).
  assert (zlen bs = DataSize (p_size dst)) as Lb.
  { unfold bs, zlen in *. rewrite app_length, firstn_length, repeat_length. lia. }
  assert (region_ok (w_dst w) (p_seg dst) (p_off dst) (zlen bs)) as Rbs by (rewrite Lb; exact Rdd).
  destruct (seg_write_safe (w_dst w) (p_seg dst) (p_off dst) bs Hd Rbs) as (m1 & E1 & D1 & N1 & L1 & _).
  pose proof (seg_write_tot _ _ _ _ _ Hd Rbs E1) as T1. rewrite E1. cbn [lift0 bind].
  assert (wgood w (w_set_dst w m1)) as G1 by (apply wgood_set_dst; auto; apply same_len_grows; auto).
  destruct (wf_struct_inv _ src Hs Vs) as (Hsg & Hz & Ho & He). unfold wf_size in Hz.
  (* the common pointers: 32 each *)
  pose proof (fold_res_postk (wgood w) Phi 32
    (fun wa j =>
       let '(r, rl') := readPtr true (w_segs wa InSrc) (w_rl wa InSrc) (p_seg src)
                                (nth (Z.to_nat (p_seg src)) (w_segs wa InSrc) []) (pointerAddress src j) (p_depth src) in
       do q <- r; write_ptr f true (w_set_rl wa InSrc rl') (p_seg dst) (pointerAddress dst j) InSrc q true)
    (iota (Z.to_nat (Z.min (PointerCount (p_size src)) (PointerCount (p_size dst))))) (w_set_dst w m1)) as F1.
  match type of F1 with ?A -> ?B -> ?C => assert A as HA end.
  { intros j wa Hj (Da & Ga & Sa & Ra). apply in_iota in Hj. cbn [w_segs w_rl]. rewrite Sa.
    change (nth (Z.to_nat (p_seg src)) (w_src w) []) with (seg_of (w_src w) src).
    pose proof (pointerAddress_spec _ src j Hm Hs Vs ltac:(lia)) as PA.
    pose proof (readPtr_safe true (w_src w) (w_src_rl wa) (p_seg src) (seg_of (w_src w) src) (pointerAddress src j)
                  (p_depth src) Hm (seg_of_is_seg _ src Hsg) ltac:(lia) ltac:(lia)) as RS.
    pose proof (readPtr_charge true (w_src w) (w_src_rl wa) (p_seg src) (seg_of (w_src w) src) (pointerAddress src j)
                  (p_depth src) ltac:(lia)) as [RC RX].
    pose proof (readPtr_shape true (w_src w) (w_src_rl wa) (p_seg src) (seg_of (w_src w) src) (pointerAddress src j)
                  (p_depth src)) as RH.
    destruct (readPtr true (w_src w) (w_src_rl wa) (p_seg src) (seg_of (w_src w) src) (pointerAddress src j) (p_depth src))
      as [r rl']. cbn [fst snd] in *.
    destruct r as [q| |]; cbn [bind res_sat] in *; [|exact I|exact RS].
    assert (wgood w (w_set_rl wa InSrc rl')) as Gb.
    { split; [exact Da|]. split; [exact Ga|]. split; [exact Sa|]. cbn. lia. }
    pose proof (RS eq_refl) as Wq.
    pose proof (IH (w_set_rl wa InSrc rl') (p_seg dst) (pointerAddress dst j) q true) as C.
    cbn [w_set_rl w_dst w_src w_src_rl] in C.
    specialize (C Da ltac:(rewrite Sa; exact Hm) ltac:(lia)
                  ltac:(eapply region_grows; [exact Ga|]; apply dst_ptr_slot; auto; lia)
                  ltac:(rewrite Sa; exact Wq) (RH q eq_refl)).
    destruct (write_ptr f true _ (p_seg dst) (pointerAddress dst j) InSrc q true) as [w'| |];
      cbn [rpostk] in *; [|exact I|exact C].
    destruct C as [Gc Pc]. split; [eapply wgood_trans; eassumption|].
    pose proof (wcost_le _ q Hm Wq (RH q eq_refl)) as Wc.
    pose proof (slots_le_readSize _ q Hm Wq) as [Sl0 Sl].
    unfold Phi in *. cbn [w_set_rl w_dst w_src_rl] in Pc. lia. }
  specialize (F1 HA G1). clear HA.
  destruct (fold_res _ _ _) as [w2| |]; cbn [bind]; [|exact I|exact F1].
  destruct F1 as [G2 P2]. rewrite zlen_iota in P2.
  pose proof (fold_res_postk (wgood w) Phi 0
    (fun wa j => lift0 wa (writeRawPointer (w_dst wa) (p_seg dst) (pointerAddress dst j) 0))
    (map (fun k => PointerCount (p_size src) + k)
         (iota (Z.to_nat (PointerCount (p_size dst) - PointerCount (p_size src))))) w2) as F2.
  match type of F2 with ?A -> ?B -> ?C => assert A as HA end.
  { intros j wa Hj (Da & Ga & Sa & Ra). apply in_map_iff in Hj. destruct Hj as (k & <- & Hk). apply in_iota in Hk.
    pose proof (lift0_write_k wa (p_seg dst) (pointerAddress dst (PointerCount (p_size src) + k)) 0 Da ltac:(lia)
                  ltac:(eapply region_grows; [exact Ga|]; apply dst_ptr_slot; auto; lia)) as W.
    destruct (lift0 wa _) as [w'| |]; cbn [rpostk] in *; [|exact I|exact W].
    destruct W as [Gw Pw]. split; [|lia].
    eapply wgood_trans; [split; [exact Da|split; [exact Ga|split; [exact Sa|exact Ra]]]|exact Gw]. }
  specialize (F2 HA G2). clear HA.
  destruct (fold_res _ _ _) as [w3| |]; cbn [rpostk]; [|exact I|exact F2].
  destruct F2 as [G3 P3]. split; [exact G3|].
  rewrite Phi_set_dst in P2. unfold Phi at 2. rewrite <- T1. nia.
Qed.
