(* C02 for the deep copy (Core/Builder.v write_ptr / copy_struct, source in a second read-only
   message): the bytes appended to the destination are bounded by the traversal budget the copy
   consumes from the source.  Ghost counter: [tot m] = total length of the destination's
   segments; potential [Phi w] = tot (destination) + 5 * (remaining source budget).
     write_ptr  of src:   Phi w' <= Phi w + wcost src + 32 * slots src
     copy_struct from src: Phi w' <= Phi w + 32 * PointerCount (p_size src)
   where wcost src = the padded size of src's own copy + 16 (landing pad) and slots src the
   number of pointer slots of src.  Every object below the top level was charged its read size
   by readPtr; its copy takes at most that size + 15 (padding, composite tag) + a 16-byte pad,
   and its own pointer slots were paid for (8 bytes each) in its read size: 5 budget bytes +
   32 bytes per slot of the parent cover it.  Same standing assumptions as Core/CopySafe.v. *)
From CV Require Import Core.Builder Core.ReaderFacts Core.BuilderFacts Core.AllocProofs
                       Core.WritePtrProofs Core.HeapProofs Core.CopyProofs Core.LimitProofs Core.CopySafe.
From Coq Require Import ZifyBool ZifyNat.
Open Scope Z_scope.
Ltac Zify.zify_post_hook ::= Z.div_mod_to_equations.

(* ------------------------------------------------------------------ total size of a message *)
Fixpoint sumN (f : nat -> Z) (n : nat) : Z :=
  match n with O => 0 | S k => sumN f k + f k end.

Lemma sumN_ext f g n : (forall i, (i < n)%nat -> f i = g i) -> sumN f n = sumN g n.
Proof. induction n as [|n IH]; intros H; cbn [sumN]; [reflexivity|]. rewrite IH by (intros; apply H; lia). rewrite H by lia. reflexivity. Qed.

Lemma sumN_bump f g n k d : (k < n)%nat -> (forall i, (i < n)%nat -> i <> k -> g i = f i) -> g k = f k + d ->
  sumN g n = sumN f n + d.
Proof.
  induction n as [|n IH]; intros Hk H Hd; [lia|]. cbn [sumN].
  destruct (Nat.eq_dec k n) as [->|Hne].
  - rewrite (sumN_ext g f n) by (intros; apply H; lia). lia.
  - rewrite IH by (try lia; intros; apply H; lia). rewrite (H n) by lia. lia.
Qed.

Lemma sumN_tail f n n' : (n <= n')%nat -> (forall i, (n <= i < n')%nat -> f i = 0) -> sumN f n' = sumN f n.
Proof.
  induction n' as [|k IH]; intros Hle H.
  - replace n with 0%nat by lia. reflexivity.
  - destruct (Nat.eq_dec n (S k)) as [->|Hne]; [reflexivity|].
    cbn [sumN]. rewrite IH by (try lia; intros; apply H; lia). rewrite (H k) by lia. lia.
Qed.

Definition lenf (m : bmsg) : nat -> Z := fun i => zlen (mem m (Z.of_nat i)).
Definition tot (m : bmsg) : Z := sumN (lenf m) (length (bm_segs m)).

Lemma lenf_out m i : (length (bm_segs m) <= i)%nat -> lenf m i = 0.
Proof. intros H. unfold lenf, mem. rewrite get_seg_out by (unfold zlen; lia). reflexivity. Qed.

Lemma tot_upto m n : (length (bm_segs m) <= n)%nat -> tot m = sumN (lenf m) n.
Proof. intros H. unfold tot. symmetry. apply sumN_tail; [assumption|]. intros i Hi. apply lenf_out. lia. Qed.

Lemma tot_same m m' : nsegs m' = nsegs m -> (forall i, 0 <= i -> zlen (mem m' i) = zlen (mem m i)) -> tot m' = tot m.
Proof.
  intros Hn Hl. unfold tot. unfold nsegs, zlen in Hn. replace (length (bm_segs m')) with (length (bm_segs m)) by lia.
  apply sumN_ext. intros i _. unfold lenf. apply Hl. lia.
Qed.

Lemma tot_alloc m m' sid' pad :
  nsegs m <= nsegs m' -> 0 <= sid' < nsegs m' ->
  zlen (mem m' sid') = zlen (mem m sid') + pad ->
  (forall i, 0 <= i -> i <> sid' -> mem m' i = mem m i) -> tot m' = tot m + pad.
Proof.
  intros Hn Hs Hl Ho. unfold nsegs, zlen in Hn, Hs.
  rewrite (tot_upto m (length (bm_segs m'))) by lia. unfold tot.
  apply (sumN_bump _ _ _ (Z.to_nat sid')); [lia| |].
  - intros i Hi Hne. unfold lenf. rewrite Ho by lia. reflexivity.
  - unfold lenf. rewrite Z2Nat.id by lia. exact Hl.
Qed.

Lemma seg_write_tot m sid addr bs m' : dok m -> region_ok m sid addr (zlen bs) ->
  seg_write m sid addr bs = Ok m' -> tot m' = tot m.
Proof.
  intros Hd Hr E. destruct (seg_write_safe m sid addr bs Hd Hr) as (m2 & E2 & _ & N & L & _).
  rewrite E in E2. inversion E2; subst m2. apply tot_same; assumption.
Qed.

Lemma alloc_tot m sid sz m' sid' addr : dok m -> 0 <= sid < nsegs m -> 0 <= sz ->
  alloc m sid sz = Ok (m', sid', addr) -> tot m' = tot m + padToWord sz.
Proof.
  intros Hd Hs Hz E. destruct (alloc_safe m sid sz m' sid' addr Hd Hs Hz E) as (_ & [G _] & S1 & _ & A1 & A2 & _ & O & _).
  apply (tot_alloc m m' sid'); auto. lia.
Qed.

(* ------------------------------------------------------------------ the potential *)
Definition Phi (w : world) : Z := tot (w_dst w) + 5 * w_src_rl w.

Definition rpostk (w0 : world) (k : Z) (r : res world) : Prop :=
  match r with Panic => False | Err => True | Ok w' => wgood w0 w' /\ Phi w' <= Phi w0 + k end.

Lemma rpostk_rpost w k r : rpostk w k r -> rpost w r.
Proof. destruct r; cbn; tauto. Qed.
Lemma rpostk_weaken w k k' r : k <= k' -> rpostk w k r -> rpostk w k' r.
Proof. intros H. destruct r; cbn; auto. intros [G P]. split; [exact G|lia]. Qed.
Lemma rpostk_trans a b k1 k2 r : wgood a b -> Phi b <= Phi a + k1 -> rpostk b k2 r -> rpostk a (k1 + k2) r.
Proof. intros G P. destruct r; cbn; auto. intros [G2 P2]. split; [eapply wgood_trans; eauto|lia]. Qed.

Lemma lift0_write_k w sid addr v : dok (w_dst w) -> 0 <= w_src_rl w -> region_ok (w_dst w) sid addr 8 ->
  rpostk w 0 (lift0 w (writeRawPointer (w_dst w) sid addr v)).
Proof.
  intros Hd Hr Hreg. destruct (writeRaw_safe (w_dst w) sid addr v Hd Hreg) as (m' & E & D & N & L & _).
  rewrite E. cbn [lift0 bind rpostk]. split.
  - apply wgood_set_dst; auto. apply same_len_grows; auto.
  - unfold Phi. cbn [w_dst w_set_dst w_src_rl]. rewrite (tot_same _ _ N L). lia.
Qed.

Lemma place_k w dsid off tsid taddr raw : dok (w_dst w) -> 0 <= w_src_rl w ->
  region_ok (w_dst w) dsid off 8 -> 0 <= tsid < nsegs (w_dst w) ->
  rpostk w 16 (place w dsid off tsid taddr raw).
Proof.
  intros Hd Hr Hreg Ht. pose proof (place_safe w dsid off tsid taddr raw Hd Hr Hreg Ht) as PS.
  unfold place in *. cbv zeta in *.
  destruct (tsid =? dsid); [eapply rpostk_weaken; [|apply lift0_write_k; assumption]; lia|].
  destruct (hasCapacity (get_seg (w_dst w) tsid) 8) eqn:HC.
  - destruct (alloc (w_dst w) tsid 8) as [[[m1 s1] padAddr]| |] eqn:EA; cbn [bind] in *; [|exact I|exact PS].
    pose proof (alloc_in_place (w_dst w) tsid 8 m1 s1 padAddr HC EA) as ->.
    pose proof (alloc_tot (w_dst w) tsid 8 m1 tsid padAddr Hd Ht ltac:(lia) EA) as T1. change (padToWord 8) with 8 in T1.
    destruct (alloc_safe (w_dst w) tsid 8 m1 tsid padAddr Hd Ht ltac:(lia) EA) as (D1 & G1 & S1 & A0 & A1 & A2 & _).
    change (padToWord 8) with 8 in A2.
    destruct (writeRaw_safe m1 tsid padAddr (withOffset raw (nearPointerOffset padAddr taddr)) D1
                ltac:(unfold region_ok; lia)) as (m2 & E2 & D2 & N2 & L2 & _).
    rewrite E2 in *. cbn [bind] in *.
    pose proof (grows_trans _ _ _ G1 (same_len_grows _ _ N2 L2)) as G2.
    destruct (writeRaw_safe m2 dsid off (rawFarPointer tsid padAddr) D2 (region_grows _ _ _ _ _ G2 Hreg))
      as (m3 & E3 & D3 & N3 & L3 & _).
    rewrite E3 in *. cbn [lift0 bind rpost rpostk] in *. split; [exact PS|].
    unfold Phi. cbn [w_dst w_set_dst w_src_rl]. rewrite (tot_same _ _ N3 L3), (tot_same _ _ N2 L2). lia.
  - destruct Hreg as (Hds & Ho1 & Ho2).
    destruct (alloc (w_dst w) dsid 16) as [[[m1 psid] padAddr]| |] eqn:EA; cbn [bind] in *; [|exact I|exact PS].
    pose proof (alloc_tot (w_dst w) dsid 16 m1 psid padAddr Hd Hds ltac:(lia) EA) as T1. change (padToWord 16) with 16 in T1.
    destruct (alloc_safe (w_dst w) dsid 16 m1 psid padAddr Hd Hds ltac:(lia) EA) as (D1 & G1 & S1 & A0 & A1 & A2 & _).
    change (padToWord 16) with 16 in A2.
    destruct D1 as [I1 Sm1]. pose proof (Sm1 psid) as Sp. unfold maxSegmentSize in Sp.
    destruct (writeRaw_safe m1 psid padAddr (rawFarPointer tsid taddr) (conj I1 Sm1)
                ltac:(unfold region_ok; lia)) as (m2 & E2 & D2 & N2 & L2 & _).
    rewrite E2 in *. cbn [bind] in *.
    unfold addSizeUnchecked in *. rewrite (u32_id (padAddr + 8)) in * by lia.
    destruct (writeRaw_safe m2 psid (padAddr + 8) raw D2
                ltac:(unfold region_ok; rewrite N2, (L2 psid) by lia; lia)) as (m3 & E3 & D3 & N3 & L3 & _).
    rewrite E3 in *. cbn [bind] in *.
    pose proof (grows_trans _ _ _ G1 (grows_trans _ _ _ (same_len_grows _ _ N2 L2) (same_len_grows _ _ N3 L3))) as G3.
    destruct (writeRaw_safe m3 dsid off (rawDoubleFarPointer psid padAddr) D3
                (region_grows _ _ _ _ _ G3 (conj Hds (conj Ho1 Ho2)))) as (m4 & E4 & D4 & N4 & L4 & _).
    rewrite E4 in *. cbn [lift0 bind rpost rpostk] in *. split; [exact PS|].
    unfold Phi. cbn [w_dst w_set_dst w_src_rl].
    rewrite (tot_same _ _ N4 L4), (tot_same _ _ N3 L3), (tot_same _ _ N2 L2). lia.
Qed.

Lemma zlen_iota n : zlen (iota n) = Z.of_nat n.
Proof. unfold iota, zlen. rewrite map_length, seq_length. reflexivity. Qed.

Lemma fold_res_postk {A} (I : A -> Prop) (Ph : A -> Z) (c : Z) (f : A -> Z -> res A) : forall l a,
  (forall x b, In x l -> I b ->
     match f b x with Panic => False | Err => True | Ok b' => I b' /\ Ph b' <= Ph b + c end) -> I a ->
  match fold_res l a f with Panic => False | Err => True | Ok a' => I a' /\ Ph a' <= Ph a + c * zlen l end.
Proof.
  induction l as [|x l IH]; intros a Hf Ha; cbn [fold_res].
  - split; [exact Ha|]. unfold zlen. cbn [length]. lia.
  - pose proof (Hf x a (or_introl eq_refl) Ha) as H. destruct (f a x) as [b| |]; cbn [bind]; auto.
    destruct H as [Hb Pb].
    specialize (IH b ltac:(intros y c0 Hy; apply Hf; right; assumption) Hb).
    destruct (fold_res l b f); auto. destruct IH as [I2 P2]. split; [exact I2|].
    unfold zlen in *. cbn [length]. lia.
Qed.

(* ------------------------------------------------------------------ costs *)
(* what writePtr appends for the object itself: its padded copy and a landing pad *)
Definition wcost (p : Ptr) : Z :=
  if p_valid p then
    match p_kind p with
    | KStruct => padToWord (totalSize (mkOS (padToWord (DataSize (p_size p))) (PointerCount (p_size p)))) + 16
    | KList => padToWord (list_allocSize p) + 16
    | KIface => 0
    end
  else 0.

Lemma wcost_nonneg p : 0 <= wcost p.
Proof. unfold wcost. destruct (p_valid p); [|lia]. destruct (p_kind p); unfold padToWord, u32; lia. Qed.

Lemma list_alloc_facts m p : msg_ok m -> wf_list m p -> p_valid p = true -> shape_ok p ->
  0 <= list_allocSize p <= maxSegmentSize /\ list_allocSize p <= list_readSize p + 8.
Proof.
  intros Hm Hw V Hsh. destruct (wf_list_inv m p Hw V) as (Hs & Ho & Hl & Hr).
  specialize (Hsh V). rewrite (proj2 Hw V) in Hsh.
  destruct (seg_of_ok m p Hm) as [Hsl _]. unfold maxSegmentSize in *.
  unfold list_allocSize, list_readSize. rewrite V. cbn [negb]. cbv zeta.
  destruct (p_bit p) eqn:B.
  - destruct Hr as [Hz Hr]. rewrite Hz. change (totalSize (mkOS 0 0)) with 0. rewrite Z.eqb_refl.
    rewrite bitListSize_spec by lia. unfold wordSize.
    rewrite times_some by (unfold maxSegmentSize; lia). lia.
  - destruct Hr as [Hz Hr]. pose proof (totalSize_bound _ Hz) as Hb.
    set (ts := totalSize (p_size p)) in *.
    assert (0 <= ts * p_len p /\ ts * p_len p = p_len p * ts) as [Hnn Hcm] by nia.
    rewrite (times_some ts (p_len p)) by (unfold maxSegmentSize; lia).
    destruct (ts =? 0) eqn:E0.
    + assert (ts = 0) as E by lia. rewrite E in *. unfold wordSize.
      rewrite times_some by (unfold maxSegmentSize; lia).
      destruct (p_comp p); cbn [negb]; [rewrite u32_id by lia|]; lia.
    + rewrite (times_some ts (p_len p)) by (unfold maxSegmentSize; lia).
      destruct (p_comp p); cbn [negb]; [|lia]. destruct Hsh as (H8 & _). rewrite u32_id by lia. lia.
Qed.

(* the object's own copy costs at most its read size + 32 *)
Lemma wcost_le m p : msg_ok m -> wf_ptr m p -> shape_ok p -> wcost p <= readSize p + 32.
Proof.
  intros Hm Hw Hsh. unfold wcost, readSize. destruct (p_valid p) eqn:V; [|pose proof (readSize_nonneg p); unfold readSize in *; lia].
  destruct (Hw V) as [Hs Ho]. unfold wf_obj in Ho. destruct (p_kind p) eqn:K.
  - destruct Ho as (Hz & _). destruct (pad_size_wf _ Hz) as (Hzc & Hle & H8). cbv zeta in *.
    rewrite (totalSize_wf _ Hzc). cbn [DataSize PointerCount]. unfold struct_readSize. rewrite V.
    rewrite (totalSize_wf _ Hz). unfold wf_size in *. cbn [DataSize PointerCount] in *.
    unfold padToWord, u32 in *. lia.
  - destruct (list_alloc_facts m p Hm (conj Hw (fun _ => K)) V Hsh) as [H1 H2].
    pose proof (padToWord_facts _ H1). lia.
  - lia.
Qed.

(* ------------------------------------------------------------------ the copy, with the potential *)
Definition A_wp (f : nat) : Prop := forall w dsid off src fc,
  dok (w_dst w) -> msg_ok (w_src w) -> 0 <= w_src_rl w -> region_ok (w_dst w) dsid off 8 ->
  wf_ptr (w_src w) src -> shape_ok src ->
  rpostk w (wcost src + 32 * slots src) (write_ptr f true w dsid off InSrc src fc).
Definition A_cs (f : nat) : Prop := forall w dst src,
  dok (w_dst w) -> msg_ok (w_src w) -> 0 <= w_src_rl w -> dst_ok (w_dst w) dst ->
  wf_struct (w_src w) src ->
  rpostk w (32 * (if p_valid src then PointerCount (p_size src) else 0)) (copy_struct f true w dst InSrc src).

Lemma Phi_set_dst w m' : Phi (w_set_dst w m') = tot m' + 5 * w_src_rl w.
Proof. reflexivity. Qed.

Lemma acs_step f : A_wp f -> A_cs (S f).
Proof.
  intros IH w dst src Hd Hm Hr Hdst Hs. pose proof Hdst as (Vd & Zd & Rd). rewrite copy_struct_S. cbv zeta.
  rewrite Vd. cbn [negb]. destruct (p_valid src) eqn:Vs; cbn [negb].
  2:{ cbn [rpostk]. split; [apply wgood_refl; assumption|lia]. }
  cbn [w_segs]. change (nth (Z.to_nat (p_seg src)) (w_src w) []) with (seg_of (w_src w) src).
  destruct (src_data_slice _ src Hm Hs Vs) as [-> Ls]. cbn [bind].
  rewrite nth_bm_data. unfold wf_size in Zd.
  assert (region_ok (w_dst w) (p_seg dst) (p_off dst) (DataSize (p_size dst))) as Rdd
    by (destruct Rd as (R1 & R2 & R3); unfold region_ok; lia).
  destruct (dst_slice (w_dst w) (p_seg dst) (p_off dst) (DataSize (p_size dst)) Hd Rdd ltac:(lia)) as [-> Ld].
  cbn [bind].
  set (sd := sub (seg_of (w_src w) src) (p_off src) (DataSize (p_size src))) in *.
  set (dd := sub (mem (w_dst w) (p_seg dst)) (p_off dst) (DataSize (p_size dst))) in *.
  set (bs := firstn (Nat.min (length sd) (length dd)) sd ++ repeat 0 (length dd - Nat.min (length sd) (length dd))).
  assert (zlen bs = DataSize (p_size dst)) as Lb.
  { unfold bs, zlen in *. rewrite app_length, firstn_length, repeat_length. lia. }
  assert (region_ok (w_dst w) (p_seg dst) (p_off dst) (zlen bs)) as Rbs by (rewrite Lb; exact Rdd).
  destruct (seg_write_safe (w_dst w) (p_seg dst) (p_off dst) bs Hd Rbs) as (m1 & E1 & D1 & N1 & L1 & _).
  pose proof (seg_write_tot _ _ _ _ _ Hd Rbs E1) as T1. rewrite E1. cbn [lift0 bind].
  assert (wgood w (w_set_dst w m1)) as G1 by (apply wgood_set_dst; auto; apply same_len_grows; auto).
  destruct (wf_struct_inv _ src Hs Vs) as (Hsg & Hz & Ho & He). unfold wf_size in Hz.
  (* the common pointers: 32 each *)
  pose proof (fold_res_postk (wgood w) Phi 32
    (fun wa j =>
       let '(r, rl') := readPtr true (w_segs wa InSrc) (w_rl wa InSrc) (p_seg src)
                                (nth (Z.to_nat (p_seg src)) (w_segs wa InSrc) []) (pointerAddress src j) (p_depth src) in
       do q <- r; write_ptr f true (w_set_rl wa InSrc rl') (p_seg dst) (pointerAddress dst j) InSrc q true)
    (iota (Z.to_nat (Z.min (PointerCount (p_size src)) (PointerCount (p_size dst))))) (w_set_dst w m1)) as F1.
  match type of F1 with ?A -> ?B -> ?C => assert A as HA end.
  { intros j wa Hj (Da & Ga & Sa & Ra). apply in_iota in Hj. cbn [w_segs w_rl]. rewrite Sa.
    change (nth (Z.to_nat (p_seg src)) (w_src w) []) with (seg_of (w_src w) src).
    pose proof (pointerAddress_spec _ src j Hm Hs Vs ltac:(lia)) as PA.
    pose proof (readPtr_safe true (w_src w) (w_src_rl wa) (p_seg src) (seg_of (w_src w) src) (pointerAddress src j)
                  (p_depth src) Hm (seg_of_is_seg _ src Hsg) ltac:(lia) ltac:(lia)) as RS.
    pose proof (readPtr_charge true (w_src w) (w_src_rl wa) (p_seg src) (seg_of (w_src w) src) (pointerAddress src j)
                  (p_depth src) ltac:(lia)) as [RC RX].
    pose proof (readPtr_shape true (w_src w) (w_src_rl wa) (p_seg src) (seg_of (w_src w) src) (pointerAddress src j)
                  (p_depth src)) as RH.
    destruct (readPtr true (w_src w) (w_src_rl wa) (p_seg src) (seg_of (w_src w) src) (pointerAddress src j) (p_depth src))
      as [r rl']. cbn [fst snd] in *.
    destruct r as [q| |]; cbn [bind res_sat] in *; [|exact I|exact RS].
    assert (wgood w (w_set_rl wa InSrc rl')) as Gb.
    { split; [exact Da|]. split; [exact Ga|]. split; [exact Sa|]. cbn. lia. }
    pose proof (RS eq_refl) as Wq.
    pose proof (IH (w_set_rl wa InSrc rl') (p_seg dst) (pointerAddress dst j) q true) as C.
    cbn [w_set_rl w_dst w_src w_src_rl] in C.
    specialize (C Da ltac:(rewrite Sa; exact Hm) ltac:(lia)
                  ltac:(eapply region_grows; [exact Ga|]; apply dst_ptr_slot; auto; lia)
                  ltac:(rewrite Sa; exact Wq) (RH q eq_refl)).
    destruct (write_ptr f true _ (p_seg dst) (pointerAddress dst j) InSrc q true) as [w'| |];
      cbn [rpostk] in *; [|exact I|exact C].
    destruct C as [Gc Pc]. split; [eapply wgood_trans; eassumption|].
    pose proof (wcost_le _ q Hm Wq (RH q eq_refl)) as Wc.
    pose proof (slots_le_readSize _ q Hm Wq) as [Sl0 Sl].
    unfold Phi in *. cbn [w_set_rl w_dst w_src_rl] in Pc. lia. }
  specialize (F1 HA G1). clear HA.
  destruct (fold_res _ _ _) as [w2| |]; cbn [bind]; [|exact I|exact F1].
  destruct F1 as [G2 P2]. rewrite zlen_iota in P2.
  pose proof (fold_res_postk (wgood w) Phi 0
    (fun wa j => lift0 wa (writeRawPointer (w_dst wa) (p_seg dst) (pointerAddress dst j) 0))
    (map (fun k => PointerCount (p_size src) + k)
         (iota (Z.to_nat (PointerCount (p_size dst) - PointerCount (p_size src))))) w2) as F2.
  match type of F2 with ?A -> ?B -> ?C => assert A as HA end.
  { intros j wa Hj (Da & Ga & Sa & Ra). apply in_map_iff in Hj. destruct Hj as (k & <- & Hk). apply in_iota in Hk.
    pose proof (lift0_write_k wa (p_seg dst) (pointerAddress dst (PointerCount (p_size src) + k)) 0 Da ltac:(lia)
                  ltac:(eapply region_grows; [exact Ga|]; apply dst_ptr_slot; auto; lia)) as W.
    destruct (lift0 wa _) as [w'| |]; cbn [rpostk] in *; [|exact I|exact W].
    destruct W as [Gw Pw]. split; [|lia].
    eapply wgood_trans; [split; [exact Da|split; [exact Ga|split; [exact Sa|exact Ra]]]|exact Gw]. }
  specialize (F2 HA G2). clear HA.
  destruct (fold_res _ _ _) as [w3| |]; cbn [rpostk]; [|exact I|exact F2].
  destruct F2 as [G3 P3]. split; [exact G3|].
  rewrite Phi_set_dst in P2. unfold Phi at 2. rewrite <- T1. nia.
Qed.

Lemma slots_nonneg m p : msg_ok m -> wf_ptr m p -> 0 <= slots p.
Proof. intros Hm Hw. apply (slots_le_readSize m p Hm Hw). Qed.

Lemma awp_step f : A_cs f -> A_wp (S f).
Proof.
  intros IH w dsid off src fc Hd Hm Hr Hreg Hs Hsh. rewrite write_ptr_S.
  pose proof (wcost_nonneg src) as Wn. pose proof (slots_nonneg _ src Hm Hs) as Sn.
  destruct (p_valid src) eqn:V; cbn [negb].
  2:{ eapply rpostk_weaken; [|apply lift0_write_k; assumption]. lia. }
  pose proof (Hs V) as [Hseg Hobj]. specialize (Hsh V). unfold wf_obj in Hobj.
  destruct (p_kind src) eqn:K.
  - (* struct *)
    destruct Hobj as (Hz & Ho & He).
    destruct (os_isZero (p_size src)).
    { destruct (rawStructPointer (-1) (mkOS 0 0)) eqn:E; [|vm_compute in E; discriminate].
      cbn [of_opt_panic bind]. eapply rpostk_weaken; [|apply lift0_write_k; assumption]. lia. }
    cbn [is_src]. rewrite Bool.orb_true_r. cbn [orb]. cbv zeta.
    destruct (pad_size_wf _ Hz) as (Hzc & Hle & H8). cbv zeta in Hzc, Hle, H8.
    assert (wcost src = padToWord (totalSize (mkOS (padToWord (DataSize (p_size src))) (PointerCount (p_size src)))) + 16)
      as Ew by (unfold wcost; rewrite V, K; reflexivity).
    assert (slots src = PointerCount (p_size src)) as Es by (unfold slots; rewrite V, K; reflexivity).
    set (csz := mkOS (padToWord (DataSize (p_size src))) (PointerCount (p_size src))) in *.
    pose proof (alloc_nopanic (w_dst w) dsid (totalSize csz)) as NP.
    destruct (alloc (w_dst w) dsid (totalSize csz)) as [[[m1 nsid] naddr]| |] eqn:EA; cbn [bind];
      [|exact I|congruence].
    pose proof (totalSize_bound _ Hzc) as Hts.
    pose proof (alloc_tot (w_dst w) dsid (totalSize csz) m1 nsid naddr Hd (proj1 Hreg) ltac:(lia) EA) as T1.
    destruct (alloc_safe (w_dst w) dsid (totalSize csz) m1 nsid naddr Hd (proj1 Hreg) ltac:(lia) EA)
      as (D1 & G1 & S1 & A0 & A1 & A2 & A3 & _).
    assert (wgood w (w_set_dst w m1)) as Gw1 by (apply wgood_set_dst; auto).
    set (dstp := mkPtr true nsid naddr 0 csz maxDepth KStruct false false false).
    pose proof (IH (w_set_dst w m1) dstp src D1 Hm Hr) as C.
    assert (dst_ok m1 dstp) as Hdo.
    { split; [reflexivity|]. split; [exact Hzc|]. unfold dstp, region_ok. cbn [p_seg p_off p_size].
      rewrite (totalSize_wf _ Hzc) in *. lia. }
    specialize (C Hdo (conj Hs (fun _ => K))). rewrite V in C.
    destruct (copy_struct f true (w_set_dst w m1) dstp InSrc src) as [w2| |]; cbn [bind]; [|exact I|exact C].
    cbn [rpostk] in C. destruct C as [C P2]. rewrite Phi_set_dst in P2.
    pose proof (wgood_trans _ _ _ Gw1 C) as G2. destruct G2 as (D2 & Gr2 & S2 & R2).
    destruct (rawStructPointer_some 0 (p_size dstp) H8) as [raw ->]. cbn [of_opt_panic bind].
    eapply rpostk_weaken; [|eapply (rpostk_trans w w2 (padToWord (totalSize csz) + 32 * PointerCount (p_size src)) 16);
                             [split; [exact D2|split; [exact Gr2|split; [exact S2|exact R2]]]| |]].
    + lia.
    + unfold Phi at 2. lia.
    + apply place_k; auto; try lia.
      * eapply region_grows; eassumption.
      * unfold dstp. cbn [p_seg]. destruct Gr2 as [Gn _]. cbn [w_dst w_set_dst] in *.
        destruct C as (_ & [Gn2 _] & _). cbn [w_dst w_set_dst] in Gn2. lia.
  - (* list *)
    destruct Hobj as (Ho & Hl & Hr').
    cbn [is_src]. rewrite Bool.orb_true_r.
    destruct (seg_of_ok (w_src w) src Hm) as [Hsl _].
    assert (wcost src = padToWord (list_allocSize src) + 16) as Ew by (unfold wcost; rewrite V, K; reflexivity).
    assert (slots src = if p_bit src then 0 else p_len src * PointerCount (p_size src)) as Es
      by (unfold slots; rewrite V, K; reflexivity).
    set (content := if p_bit src then (p_len src + 7) / 8 else p_len src * totalSize (p_size src)).
    assert (0 <= content /\ p_off src + content <= zlen (seg_of (w_src w) src)) as [Hc0 Hc1].
    { unfold content. destruct (p_bit src); [lia|]. destruct Hr' as [Hz Hr']. pose proof (totalSize_bound _ Hz). split; [nia|lia]. }
    assert (list_allocSize src = if p_comp src then content + 8 else content) as Hsz.
    { unfold list_allocSize, content. rewrite V. cbn [negb].
      destruct (p_bit src) eqn:B.
      - destruct (p_comp src); [destruct Hsh as (_ & _ & X); discriminate X|]. apply bitListSize_spec. lia.
      - destruct Hr' as [Hz Hr']. pose proof (totalSize_bound _ Hz).
        rewrite Z.mul_comm. rewrite times_some by (rewrite Z.mul_comm; nia). rewrite (Z.mul_comm (totalSize _)).
        destruct (p_comp src); cbn [negb]; [|reflexivity]. destruct Hsh as (H8 & _). unfold maxSegmentSize in Hsl.
        apply u32_id. lia. }
    pose proof (alloc_nopanic (w_dst w) dsid (list_allocSize src)) as NP.
    destruct (alloc (w_dst w) dsid (list_allocSize src)) as [[[m1 nsid] naddr]| |] eqn:EA; cbn [bind];
      [|exact I|congruence].
    assert (0 <= list_allocSize src) as Hsz0 by (rewrite Hsz; destruct (p_comp src); lia).
    pose proof (alloc_tot (w_dst w) dsid (list_allocSize src) m1 nsid naddr Hd (proj1 Hreg) Hsz0 EA) as T1.
    destruct (alloc_safe (w_dst w) dsid (list_allocSize src) m1 nsid naddr Hd (proj1 Hreg) Hsz0 EA)
      as (D1 & G1 & S1 & A0 & A1 & A2 & A3 & _).
    assert (wgood w (w_set_dst w m1)) as Gw1 by (apply wgood_set_dst; auto).
    match goal with |- rpostk w ?KK (bind (bind _ ?K1) ?K0) =>
      assert (forall w2 doff, wgood w w2 -> Phi w2 <= Phi w + padToWord (list_allocSize src) ->
                0 <= doff -> naddr <= doff ->
                doff + content <= zlen (mem m1 nsid) -> grows m1 (w_dst w2) ->
                (if p_comp src then doff = naddr + 8 else doff = naddr) ->
                rpostk w KK (bind (K1 (w2, doff, content)) K0)) as Htail end.
    { intros w2 doff Gw2 Pw2 Hd0 Hd1 Hd2 Gm Hdo. cbv beta iota zeta.
      destruct Gw2 as (D2 & Gr2 & S2 & R2).
      set (dstl := mkPtr true nsid doff (p_len src) (p_size src) maxDepth KList (p_comp src) (p_bit src) false).
      assert (region_ok (w_dst w2) nsid doff content) as Rl.
      { eapply region_grows; [exact Gm|]. unfold region_ok. lia. }
      assert (rpostk w2 (32 * slots src)
                     (if p_bit src || (PointerCount (p_size src) =? 0)
                      then copy_bytes w2 InSrc (p_seg src) (p_off src) nsid doff content
                      else fold_res (iota (Z.to_nat (list_len src))) w2
                             (fun wa i => do de <- list_struct true dstl i; do se <- list_struct true src i;
                                          copy_struct f true wa de InSrc se))) as H3.
      { destruct (p_bit src || (PointerCount (p_size src) =? 0)) eqn:Ebp.
        - unfold copy_bytes. cbn [w_segs]. rewrite S2.
          change (nth (Z.to_nat (p_seg src)) (w_src w) []) with (seg_of (w_src w) src).
          unfold maxSegmentSize in Hsl. rewrite slice_ok by lia. cbn [bind].
          assert (region_ok (w_dst w2) nsid doff (zlen (sub (seg_of (w_src w) src) (p_off src) content))) as Rb
            by (rewrite sub_length by lia; exact Rl).
          destruct (seg_write_safe (w_dst w2) nsid doff (sub (seg_of (w_src w) src) (p_off src) content) D2 Rb)
            as (m3 & E3 & D3 & N3 & L3 & _).
          pose proof (seg_write_tot _ _ _ _ _ D2 Rb E3) as T3. rewrite E3.
          cbn [lift0 bind rpostk]. split; [apply wgood_set_dst; auto; try lia; apply same_len_grows; auto|].
          rewrite Phi_set_dst, T3. unfold Phi. lia.
        - assert (p_bit src = false) as B by (destruct (p_bit src); [discriminate|reflexivity]).
          unfold content in *. rewrite B in *. destruct Hr' as [Hz Hr'].
          pose proof (totalSize_bound _ Hz) as Hts. pose proof (totalSize_wf _ Hz) as Ets.
          pose proof (fold_res_postk (wgood w2) Phi (32 * PointerCount (p_size src))
            (fun wa i => do de <- list_struct true dstl i; do se <- list_struct true src i;
                         copy_struct f true wa de InSrc se)
            (iota (Z.to_nat (list_len src))) w2) as FF.
          match type of FF with ?A -> ?B -> ?C => assert A as HA end.
          { intros i wa Hi (Da & Ga & Sa & Ra). apply in_iota in Hi.
            assert (0 <= i < p_len src) as Hi' by (unfold list_len in Hi; rewrite V in Hi; lia).
            assert (i * totalSize (p_size src) + totalSize (p_size src) <= p_len src * totalSize (p_size src)) as Hie by nia.
            assert (0 <= i * totalSize (p_size src)) as Hi0 by nia.
            destruct D1 as [I1 Sm1]. pose proof (Sm1 nsid) as Smn.
            destruct (list_struct_at dstl i eq_refl B Hi' ltac:(cbn [p_off p_size dstl]; lia)) as [dd ->].
            cbn [bind p_seg p_off p_size dstl].
            pose proof (list_struct_safe true (w_src w) src i Hm (conj Hs (fun _ => K))
                          ltac:(unfold list_len; rewrite V; lia)) as Hse.
            assert (forall se, list_struct true src i = Ok se ->
                      (if p_valid se then PointerCount (p_size se) else 0) <= PointerCount (p_size src)) as Hpc.
            { intros se. unfold list_struct. destruct (_ || _ || _); [discriminate|]. unfold wf_size in Hz.
              destruct (p_bit src); [intros X; inversion X; cbn; lia|].
              destruct (element _ _ _); intros X; inversion X; cbn; lia. }
            destruct (list_struct true src i) as [se| |]; cbn [bind res_sat] in *; [|exact I|exact Hse].
            pose proof (IH wa (mkPtr true nsid (doff + i * totalSize (p_size src)) 0 (p_size src) dd KStruct false false true)
                          se Da ltac:(rewrite Sa, S2; exact Hm) ltac:(lia)) as C.
            specialize (C ltac:(split; [reflexivity|]; split; [exact Hz|]; cbn [p_seg p_off p_size];
                                eapply region_grows; [exact Ga|]; destruct Rl as (Q1 & Q2 & Q3); unfold region_ok;
                                rewrite <- Ets; lia)
                          ltac:(rewrite Sa, S2; exact Hse)).
            destruct (copy_struct f true wa _ InSrc se) as [w'| |]; cbn [rpostk] in *; [|exact I|exact C].
            destruct C as [Gc Pc]. split.
            - eapply wgood_trans; [split; [exact Da|split; [exact Ga|split; [exact Sa|exact Ra]]]|exact Gc].
            - specialize (Hpc se eq_refl). lia. }
          specialize (FF HA (wgood_refl w2 D2 ltac:(lia))). clear HA.
          destruct (fold_res _ _ _) as [w3| |]; cbn [rpostk]; [|exact I|exact FF].
          destruct FF as [G3 P3]. split; [exact G3|]. rewrite zlen_iota in P3.
          rewrite Es. unfold list_len in P3. rewrite V in P3. unfold wf_size in Hz. nia. }
      match goal with |- rpostk w _ (bind (bind ?X _) _) => change X with
        (if p_bit src || (PointerCount (p_size src) =? 0)
         then copy_bytes w2 InSrc (p_seg src) (p_off src) nsid doff content
         else fold_res (iota (Z.to_nat (list_len src))) w2
                (fun wa i => do de <- list_struct true dstl i; do se <- list_struct true src i;
                             copy_struct f true wa de InSrc se)) end.
      destruct (if p_bit src || (PointerCount (p_size src) =? 0) then _ else _) as [w3| |]; cbn [bind];
        [|exact I|exact H3].
      cbn [rpostk] in H3. destruct H3 as [H3 P3]. fold dstl.
      pose proof (wgood_trans _ _ _ (conj D2 (conj Gr2 (conj S2 R2))) H3) as G3.
      destruct G3 as (D3 & Gr3 & S3 & R3).
      assert (shape_ok dstl) as Hshl.
      { intros _. cbn [p_kind p_comp p_bit p_size p_off dstl].
        destruct (p_comp src); [|exact Hsh]. destruct Hsh as (_ & X & Y). split; [lia|]. split; assumption. }
      pose proof (list_raw_shape dstl eq_refl eq_refl Hshl) as NR.
      destruct (list_raw dstl) as [raw| |]; cbn [bind]; [|exact I|congruence].
      eapply rpostk_weaken; [|eapply (rpostk_trans w w3 (padToWord (list_allocSize src) + 32 * slots src) 16);
                               [split; [exact D3|split; [exact Gr3|split; [exact S3|exact R3]]]| |]].
      - lia.
      - lia.
      - apply place_k; auto; try lia.
        + eapply region_grows; eassumption.
        + cbn [p_seg dstl]. destruct H3 as (_ & [Gn3 _] & _). destruct Gm as [Gnm _]. lia. }
    destruct (p_comp src) eqn:C.
    + destruct Hsh as (H8 & _). unfold maxSegmentSize in Hsl.
      cbn [w_segs w_set_dst w_src w_dst]. rewrite (u32_id (p_off src - 8)) by lia.
      change (nth (Z.to_nat (p_seg src)) (w_src w) []) with (seg_of (w_src w) src).
      destruct (readRawPointer_ok (seg_of (w_src w) src) (p_off src - 8) (seg_of_ok _ src Hm) ltac:(lia) ltac:(lia))
        as [tag [-> _]]. cbn [bind].
      rewrite Hsz in A2, A3.
      destruct (writeRaw_safe m1 nsid naddr tag D1 ltac:(unfold region_ok; lia)) as (m2 & -> & D2 & N2 & L2 & _).
      cbn [lift0 bind].
      destruct (addSize naddr 8) as [o|] eqn:Eo; [|exact I]. apply addSize_spec in Eo. destruct Eo as [-> _].
      cbn [bind]. rewrite Hsz at 1. replace (u32 (content + 8 - 8)) with content by (rewrite u32_id; lia).
      apply Htail; try lia.
      * cbn [w_set_dst]. eapply wgood_trans; [exact Gw1|].
        apply wgood_set_dst; auto. apply same_len_grows; auto.
      * unfold Phi. cbn [w_dst w_set_dst w_src_rl]. rewrite (tot_same _ _ N2 L2). lia.
      * cbn [w_dst w_set_dst]. apply same_len_grows; auto.
    + cbn [bind]. rewrite Hsz at 1. rewrite Hsz in A2, A3. apply Htail; try lia; auto.
      * unfold Phi. cbn [w_dst w_set_dst w_src_rl]. lia.
      * apply grows_refl.
  - (* capability *)
    cbn [is_src]. cbv zeta.
    set (m1 := mkBM (bm_arena (w_dst w)) (bm_segs (w_dst w)) (bm_caps (w_dst w) ++ [p_len src]) (bm_rl (w_dst w))).
    pose proof (lift0_write_k (mkW m1 (w_src w) (w_src_rl w)) dsid off
                  (rawInterfacePointer (u32 (zlen (bm_caps (w_dst w))))) (dok_caps _ _ Hd) Hr Hreg) as H.
    cbn [w_dst] in H. unfold lift0 in *.
    destruct (writeRawPointer m1 dsid off _) as [m'| |]; cbn [bind rpostk] in *; auto.
    destruct H as [G P]. split; [exact G|]. unfold Phi in *. cbn [w_dst w_src_rl w_set_dst] in *.
    change (tot m1) with (tot (w_dst w)) in P. lia.
Qed.

Theorem copy_alloc_all : forall f, A_wp f /\ A_cs f.
Proof.
  induction f as [|f [IHw IHc]].
  - split; intros ?; intros; [rewrite write_ptr_O|rewrite copy_struct_O]; exact I.
  - split; [apply awp_step; assumption|apply acs_step; assumption].
Qed.

Lemma sumN_le f g n : (forall i, (i < n)%nat -> f i <= g i) -> sumN f n <= sumN g n.
Proof. induction n as [|n IH]; intros H; cbn [sumN]; [lia|]. specialize (IH ltac:(intros; apply H; lia)). specialize (H n ltac:(lia)). lia. Qed.
Lemma grows_tot m m' : grows m m' -> tot m <= tot m'.
Proof.
  intros [Gn Gl]. unfold nsegs, zlen in Gn. rewrite (tot_upto m (length (bm_segs m'))) by lia. unfold tot.
  apply sumN_le. intros i _. unfold lenf. apply Gl. lia.
Qed.

(* copy_alloc: bytes appended to the destination by a cross-message writePtr / copyStruct.
   [tot dst' - tot dst] <= own padded copy + landing pad + 32 per pointer slot of the source
   object + 5 x (source traversal budget consumed); the destination never shrinks and the
   budget never grows.  For an object the reader handed out, own copy + pad <= readSize + 32
   and 32 x slots <= 4 x readSize, so the whole copy appends at most
   5 x (readSize src + budget consumed) + 32 bytes: no amplification beyond 5 T + 32. *)
Theorem write_ptr_alloc f w dsid off src fc w' :
  dok (w_dst w) -> msg_ok (w_src w) -> 0 <= w_src_rl w -> region_ok (w_dst w) dsid off 8 ->
  wf_ptr (w_src w) src -> shape_ok src ->
  write_ptr f true w dsid off InSrc src fc = Ok w' ->
  0 <= w_src_rl w' <= w_src_rl w /\
  0 <= tot (w_dst w') - tot (w_dst w) <= wcost src + 32 * slots src + 5 * (w_src_rl w - w_src_rl w') /\
  tot (w_dst w') - tot (w_dst w) <= 5 * (readSize src + (w_src_rl w - w_src_rl w')) + 32.
Proof.
  intros Hd Hm Hr Hreg Hs Hsh E. destruct (copy_alloc_all f) as [H _].
  specialize (H w dsid off src fc Hd Hm Hr Hreg Hs Hsh). rewrite E in H. destruct H as [(D & G & S & R) P].
  pose proof (grows_tot _ _ G). pose proof (wcost_le _ src Hm Hs Hsh). pose proof (slots_le_readSize _ src Hm Hs).
  unfold Phi in P. repeat split; lia.
Qed.

Theorem copy_struct_alloc f w dst src w' :
  dok (w_dst w) -> msg_ok (w_src w) -> 0 <= w_src_rl w -> dst_ok (w_dst w) dst ->
  wf_struct (w_src w) src -> p_valid src = true ->
  copy_struct f true w dst InSrc src = Ok w' ->
  0 <= w_src_rl w' <= w_src_rl w /\
  0 <= tot (w_dst w') - tot (w_dst w) <= 32 * PointerCount (p_size src) + 5 * (w_src_rl w - w_src_rl w').
Proof.
  intros Hd Hm Hr Hdst Hs V E. destruct (copy_alloc_all f) as [_ H].
  specialize (H w dst src Hd Hm Hr Hdst Hs). rewrite E, V in H. destruct H as [(D & G & S & R) P].
  pose proof (grows_tot _ _ G). unfold Phi in P. repeat split; lia.
Qed.
