(* L1: the read side of segment.go / struct.go / list.go / pointer.go / message.go, following
   the Go code step by step.  A message is a list of segments (byte lists); all memory
   access goes through [slice], which returns [Panic] exactly where Go's
   s.data[base:end] would (read-side segments have cap = len).
   No proofs in this file. *)
From CV Require Export Core.Arith.
Open Scope Z_scope.

(* ------------------------------------------------------------------ results *)
Inductive res (A : Type) : Type :=
| Ok (a : A)
| Err            (* the Go function returned a non-nil error *)
| Panic.         (* the Go code would panic (slice out of range, explicit panic, nil call) *)
Arguments Ok {A} a.
Arguments Err {A}.
Arguments Panic {A}.

Definition bind {A B} (r : res A) (f : A -> res B) : res B :=
  match r with Ok a => f a | Err => Err | Panic => Panic end.
Notation "'do' x <- r ; k" := (bind r (fun x => k)) (at level 200, x pattern, r at level 100, k at level 200).

Definition of_opt_err {A} (o : option A) : res A := match o with Some a => Ok a | None => Err end.
Definition of_opt_panic {A} (o : option A) : res A := match o with Some a => Ok a | None => Panic end.

(* ------------------------------------------------------------------ memory *)
Definition seg := list Z.
Definition segs := list seg.

Definition zlen {A} (l : list A) : Z := Z.of_nat (length l).

(* Message.Segment(id): error when id >= NumSegments *)
Definition lookup_segment (m : segs) (id : Z) : res seg :=
  if (0 <=? id) && (id <? zlen m) then Ok (nth (Z.to_nat id) m []) else Err.

Definition regionInBounds (s : seg) (base sz : Z) : bool :=
  match addSize base sz with
  | None => false
  | Some e => e <=? zlen s
  end.

(* s.data[base : base.addSizeUnchecked(sz)] *)
Definition slice (s : seg) (base sz : Z) : res (list Z) :=
  let e := addSizeUnchecked base sz in
  if (0 <=? base) && (base <=? e) && (e <=? zlen s)
  then Ok (firstn (Z.to_nat (e - base)) (skipn (Z.to_nat base) s))
  else Panic.

Fixpoint le_decode (l : list Z) : Z :=
  match l with [] => 0 | b :: r => b + 256 * le_decode r end.

Definition readUintN (s : seg) (addr n : Z) : res Z :=
  do b <- slice s addr n; Ok (le_decode b).
Definition readRawPointer (s : seg) (addr : Z) : res Z := readUintN s addr 8.

(* ------------------------------------------------------------------ pointers *)
Inductive pkind := KStruct | KList | KIface.

(* Ptr / Struct / List / Interface share one record; [p_valid = false] is the nil segment.
   p_len is the list length (int32) or the capability id. *)
Record Ptr := mkPtr {
  p_valid : bool; p_seg : Z; p_off : Z; p_len : Z; p_size : ObjectSize;
  p_depth : Z;               (* uint *)
  p_kind : pkind;
  p_comp : bool;             (* isCompositeList *)
  p_bit : bool;              (* isBitList *)
  p_member : bool            (* isListMember *)
}.
Definition nullPtr : Ptr := mkPtr false 0 0 0 (mkOS 0 0) 0 KStruct false false false.

Definition uint_dec (d : Z) : Z := u64 (d - 1).     (* depthLimit - 1 on a 64-bit uint *)

Definition is_struct (p : Ptr) := p_valid p && match p_kind p with KStruct => true | _ => false end.
Definition is_list (p : Ptr) := p_valid p && match p_kind p with KList => true | _ => false end.
Definition is_iface (p : Ptr) := p_valid p && match p_kind p with KIface => true | _ => false end.

(* Ptr.Struct(), Ptr.List(): the zero value when the kind differs *)
Definition as_struct (p : Ptr) : Ptr := if is_struct p then p else nullPtr.
Definition as_list (p : Ptr) : Ptr := if is_list p then p else nullPtr.

(* ------------------------------------------------------------------ read limit *)
(* Message.canRead: one successful CAS iteration *)
Definition canRead (rl sz : Z) : bool * Z :=
  if rl >=? sz then (true, rl - sz) else (false, 0).

Definition struct_readSize (p : Ptr) : Z := if p_valid p then totalSize (p_size p) else 0.
Definition list_readSize (p : Ptr) : Z :=
  if p_valid p then
    let e := totalSize (p_size p) in
    let e := if e =? 0 then wordSize else e in
    match times e (p_len p) with Some sz => sz | None => maxSegmentSize end
  else 0.

(* ------------------------------------------------------------------ segment.go *)

(* resolveFarPointer: (destination segment id, base, resolved pointer word).
   [strict]: the repaired code does not hand a synthesised word 0 (double-far landing pad
   describing a zero-sized struct at word 0 of the target segment) to readPtr, where it would
   be taken for the null pointer, but its equivalent non-zero encoding: base 8, struct pointer
   with offset -1 and empty sections (as found: the word 0 is returned; see
   Spec/SpecExamples.dfar_zero_struct_refuted). *)
Definition resolveFarPointer (strict : bool) (m : segs) (sid : Z) (s : seg) (paddr : Z) : res (Z * seg * Z * Z) :=
  do val <- readRawPointer s paddr;
  let pt := pointerType val in
  if pt =? doubleFarPointer then
    let psid := farSegment val in
    do padSeg <- (if psid =? sid then Ok s else lookup_segment m psid);
    let padAddr := farAddress val in
    if negb (regionInBounds padSeg padAddr 16) then Err else
    do far <- readRawPointer padSeg padAddr;
    if negb (pointerType far =? farPointer) then Err else
    match addSize padAddr 8 with
    | None => Err
    | Some tagAddr =>
      do tag <- readRawPointer padSeg tagAddr;
      let tpt := pointerType tag in
      if (negb (tpt =? structPointer) && negb (tpt =? listPointer)) || negb (ptr_offset tag =? 0) then Err else
      let dsid := farSegment far in
      do dst <- (if dsid =? sid then Ok s else lookup_segment m dsid);
      let near := landingPadNearPointer far tag in
      if strict && (near =? 0)
      then match rawStructPointer (-1) (mkOS 0 0) with
           | Some v => Ok (dsid, dst, wordSize, v)
           | None => Panic
           end
      else Ok (dsid, dst, 0, near)
    end
  else if pt =? farPointer then
    let dsid := farSegment val in
    do dst <- (if dsid =? sid then Ok s else lookup_segment m dsid);
    let padAddr := farAddress val in
    if negb (regionInBounds dst padAddr 8) then Err else
    match addSize padAddr 8 with
    | None => Err
    | Some base => do v <- readRawPointer dst padAddr; Ok (dsid, dst, base, v)
    end
  else
    match addSize paddr 8 with
    | None => Err
    | Some base => Ok (sid, s, base, val)
    end.

Definition readStructPtr (sid : Z) (s : seg) (base val : Z) : res Ptr :=
  match element base (ptr_offset val) 8 with
  | None => Err
  | Some addr =>
    let sz := structSize val in
    if negb (regionInBounds s addr (totalSize sz)) then Err
    else Ok (mkPtr true sid addr 0 sz 0 KStruct false false false)
  end.

(* [strict_tag]: the repaired code rejects a composite tag with a negative element count
   (defect F06 as found: the count is only checked through times(), which accepts a
   negative count when the element size is zero). *)
Definition readListPtr (strict_tag : bool) (sid : Z) (s : seg) (base val : Z) : res Ptr :=
  match element base (ptr_offset val) 8 with
  | None => Err
  | Some addr =>
    match totalListSize val with
    | None => Panic
    | Some None => Err
    | Some (Some lsize) =>
      if negb (regionInBounds s addr lsize) then Err else
      let lt := listType val in
      if lt =? 7 then
        do hdr <- readRawPointer s addr;
        match addSize addr 8 with
        | None => Err
        | Some addr' =>
          if negb (pointerType hdr =? structPointer) then Err else
          let sz := structSize hdr in
          let n := s32 (ptr_offset hdr) in
          if strict_tag && (n <? 0) then Err else
          match times (totalSize sz) n with
          | None => Err
          | Some tsize =>
            if negb (regionInBounds s addr' tsize) then Err
            else Ok (mkPtr true sid addr' n sz 0 KList true false false)
          end
        end
      else if lt =? 1 then
        Ok (mkPtr true sid addr (numListElements val) (mkOS 0 0) 0 KList false true false)
      else
        match elementSize val with
        | None => Panic
        | Some es => Ok (mkPtr true sid addr (numListElements val) es 0 KList false false false)
        end
    end
  end.

(* Segment.readPtr; the read limit is threaded through *)
Definition readPtr (strict_tag : bool) (m : segs) (rl : Z) (sid : Z) (s : seg) (paddr depth : Z)
  : res Ptr * Z :=
  match resolveFarPointer strict_tag m sid s paddr with
  | Err => (Err, rl)
  | Panic => (Panic, rl)
  | Ok (dsid, dst, base, val) =>
    if val =? 0 then (Ok nullPtr, rl)
    else if depth =? 0 then (Err, rl)
    else
      let pt := pointerType val in
      if pt =? structPointer then
        match readStructPtr dsid dst base val with
        | Ok sp =>
          let '(ok, rl') := canRead rl (struct_readSize sp) in
          if ok then (Ok (mkPtr true (p_seg sp) (p_off sp) 0 (p_size sp) (uint_dec depth) KStruct false false false), rl')
          else (Err, rl')
        | Err => (Err, rl)
        | Panic => (Panic, rl)
        end
      else if pt =? listPointer then
        match readListPtr strict_tag dsid dst base val with
        | Ok lp =>
          let '(ok, rl') := canRead rl (list_readSize lp) in
          if ok then (Ok (mkPtr true (p_seg lp) (p_off lp) (p_len lp) (p_size lp) (uint_dec depth) KList
                                 (p_comp lp) (p_bit lp) false), rl')
          else (Err, rl')
        | Err => (Err, rl)
        | Panic => (Panic, rl)
        end
      else if pt =? otherPointer then
        if negb (otherPointerType val =? 0) then (Err, rl)
        else (Ok (mkPtr true dsid 0 (capabilityIndex val) (mkOS 0 0) 0 KIface false false false), rl)
      else (Err, rl)
  end.

(* ------------------------------------------------------------------ message.go *)
Definition defaultDepthLimit := 64.
Definition defaultTraverseLimit := 67108864.

(* cfg_strict: composite tags with a negative count are rejected (repair of F06);
   cfg_root: Root reports an error when the first segment cannot hold the root pointer
   (repair of F21; as found, PointerList{}.At(0) panics "list element out of bounds") *)
Record config := mkCfg { cfg_T : Z; cfg_D : Z; cfg_strict : bool; cfg_root : bool }.
Definition init_rlimit (c : config) : Z := if cfg_T c =? 0 then defaultTraverseLimit else cfg_T c.
Definition depth_limit (c : config) : Z := if cfg_D c =? 0 then defaultDepthLimit else cfg_D c.

(* the segment a valid pointer lives in *)
Definition seg_of (m : segs) (p : Ptr) : seg := nth (Z.to_nat (p_seg p)) m [].

(* Message.Root: Segment(0), root() 1-element pointer list, At(0) *)
Definition root (c : config) (m : segs) (rl : Z) : res Ptr * Z :=
  match lookup_segment m 0 with
  | Ok s0 =>
    if negb (regionInBounds s0 0 8)
    then ((if cfg_root c then Err else Panic), rl)
    else readPtr (cfg_strict c) m rl 0 s0 0 (depth_limit c)
  | _ => (Err, rl)
  end.

(* ------------------------------------------------------------------ struct.go *)
Definition pointerAddress (p : Ptr) (i : Z) : Z :=
  match addSize (p_off p) (DataSize (p_size p)) with
  | Some ps => match element ps i 8 with Some a => a | None => 4294967295 end
  | None => match element 4294967295 i 8 with Some a => a | None => 4294967295 end
  end.

(* Struct.Ptr(i) *)
Definition struct_ptr (c : config) (m : segs) (rl : Z) (p : Ptr) (i : Z) : res Ptr * Z :=
  if negb (p_valid p) || (i >=? PointerCount (p_size p)) then (Ok nullPtr, rl)
  else readPtr (cfg_strict c) m rl (p_seg p) (seg_of m p) (pointerAddress p i) (p_depth p).

(* Struct.HasPtr(i) *)
Definition struct_hasptr (m : segs) (p : Ptr) (i : Z) : res bool :=
  if negb (p_valid p) || (i >=? PointerCount (p_size p)) then Ok false
  else do v <- readRawPointer (seg_of m p) (pointerAddress p i); Ok (negb (v =? 0)).

(* Struct.dataAddress(off, sz): Size(off)+sz > DataSize in uint32 *)
Definition dataAddress (p : Ptr) (off sz : Z) : res (option Z) :=
  if negb (p_valid p) || (u32 (off + sz) >? DataSize (p_size p)) then Ok None
  else match addOffset (p_off p) off with Some a => Ok (Some a) | None => Panic end.

(* Struct.Uint8/16/32/64(off): n = width in bytes *)
Definition struct_uint (m : segs) (p : Ptr) (off n : Z) : res Z :=
  do a <- dataAddress p off n;
  match a with
  | None => Ok 0
  | Some addr => readUintN (seg_of m p) addr n
  end.

(* Struct.Bit(n) *)
Definition struct_bit (m : segs) (p : Ptr) (n : Z) : res bool :=
  if negb (p_valid p && (n <? u32 (DataSize (p_size p) * 8))) then Ok false
  else match addOffset (p_off p) (bitOffset_offset n) with
       | None => Panic
       | Some addr => do b <- readUintN (seg_of m p) addr 1; Ok (Z.testbit b (n mod 8))
       end.

(* ------------------------------------------------------------------ list.go *)
Definition list_len (p : Ptr) : Z := if p_valid p then p_len p else 0.

(* List.Struct(i).  [fix_depth]: the repaired code does not let depthLimit-1 wrap below 0
   (defect F03 as found: uint underflow lifts the depth limit). *)
Definition list_struct (fix_depth : bool) (p : Ptr) (i : Z) : res Ptr :=
  if negb (p_valid p) || (i <? 0) || (i >=? p_len p) then Panic
  else if p_bit p then Ok nullPtr
  else match element (p_off p) i (totalSize (p_size p)) with
       | None => Ok nullPtr
       | Some addr =>
         Ok (mkPtr true (p_seg p) addr 0 (p_size p)
                   (if fix_depth && (p_depth p =? 0) then 0 else uint_dec (p_depth p))
                   KStruct false false true)
       end.

(* List.primitiveElem(i, expected).  [fix_upgrade]: the repaired code addresses the pointer
   section of a struct-list element when a pointer is expected (defect F05 as found: the
   element's first data word is used). *)
Definition primitiveElem (fix_upgrade : bool) (p : Ptr) (i : Z) (exp : ObjectSize) : res Z :=
  if negb (p_valid p) || (i <? 0) || (i >=? p_len p) then Panic
  else if p_bit p
          || (negb (p_comp p) && negb (os_eqb (p_size p) exp))
          || (p_comp p && ((DataSize (p_size p) <? DataSize exp) || (PointerCount (p_size p) <? PointerCount exp)))
  then Err
  else match element (p_off p) i (totalSize (p_size p)) with
       | None => Err
       | Some addr =>
         if fix_upgrade && p_comp p && (0 <? PointerCount exp)
         then match addSize addr (DataSize (p_size p)) with Some a => Ok a | None => Err end
         else Ok addr
       end.

(* PointerList.At(i) *)
Definition ptrlist_at (c : config) (fix_upgrade : bool) (m : segs) (rl : Z) (p : Ptr) (i : Z) : res Ptr * Z :=
  match primitiveElem fix_upgrade p i (mkOS 0 1) with
  | Ok addr => readPtr (cfg_strict c) m rl (p_seg p) (seg_of m p) addr (p_depth p)
  | Err => (Err, rl)
  | Panic => (Panic, rl)
  end.

(* UInt8List/16/32/64 .At(i): error => 0 *)
Definition list_uint_at (fix_upgrade : bool) (m : segs) (p : Ptr) (i n : Z) : res Z :=
  match primitiveElem fix_upgrade p i (mkOS n 0) with
  | Ok addr => readUintN (seg_of m p) addr n
  | Err => Ok 0
  | Panic => Panic
  end.

(* BitList.At(i).  [fix_bit]: the repaired code computes the byte address without the
   struct-field offset limit (defect F02 as found: addOffset panics for i >= 2^22). *)
Definition bitlist_at (fix_bit : bool) (m : segs) (p : Ptr) (i : Z) : res bool :=
  if negb (p_valid p) || (i <? 0) || (i >=? p_len p) then Panic
  else if negb (p_bit p) then Ok false
  else
    let o := bitOffset_offset i in
    let a := if fix_bit then Some (u32 (p_off p + o)) else addOffset (p_off p) o in
    match a with
    | None => Panic
    | Some addr => do b <- readUintN (seg_of m p) addr 1; Ok (Z.testbit b (i mod 8))
    end.

(* ------------------------------------------------------------------ pointer.go *)
Definition isOneByteList (p : Ptr) : bool :=
  is_list p && os_isOneByte (p_size p) && negb (p_comp p).

(* Ptr.text(): bytes without the NUL, or not-ok *)
Definition ptr_text (m : segs) (p : Ptr) : res (option (list Z)) :=
  if negb (isOneByteList p) then Ok None
  else do b <- slice (seg_of m p) (p_off p) (u32 (p_len p));
       match rev b with
       | [] => Ok None
       | last :: r => if last =? 0 then Ok (Some (rev r)) else Ok None
       end.

(* Ptr.Data(): nil when not a byte list *)
Definition ptr_data (m : segs) (p : Ptr) : res (option (list Z)) :=
  if negb (isOneByteList p) then Ok None
  else do b <- slice (seg_of m p) (p_off p) (u32 (p_len p)); Ok (Some b).
