(* Basic facts about the write-side model: segment tables, byte writes, little-endian
   encode/decode, and the frame property of the data setters ([setter_frame]). *)
From CV Require Import Core.Builder Core.ReaderFacts.
From Coq Require Import ZifyBool ZifyNat.
Open Scope Z_scope.

Ltac Zify.zify_post_hook ::= Z.div_mod_to_equations.

Lemma Ok_inj {A} (a b : A) : Ok a = Ok b -> a = b.
Proof. now intros [= ->]. Qed.

(* ------------------------------------------------------------------ well-formed builder messages *)
Definition seg_wf (s : bseg) : Prop := blen s <= bs_cap s /\ blen s mod 8 = 0.
Definition bmsg_wf (m : bmsg) : Prop := Forall seg_wf (bm_segs m).

Lemma blen_nonneg s : 0 <= blen s.
Proof. unfold blen. apply zlen_nonneg. Qed.

Lemma zlen_app {A} (a b : list A) : zlen (a ++ b) = zlen a + zlen b.
Proof. unfold zlen. rewrite app_length. lia. Qed.

Lemma zlen_repeat {A} (x : A) n : zlen (repeat x n) = Z.of_nat n.
Proof. unfold zlen. now rewrite repeat_length. Qed.

Lemma zlen_map {A B} (f : A -> B) l : zlen (map f l) = zlen l.
Proof. unfold zlen. now rewrite map_length. Qed.

(* ------------------------------------------------------------------ set_nth / get_seg / put_seg *)
Lemma set_nth_length {A} n (l : list A) x : length (set_nth n l x) = length l.
Proof. revert n; induction l as [|y l IH]; intros [|n]; cbn; auto. Qed.

Lemma nth_set_nth_same {A} n (l : list A) x d : (n < length l)%nat -> nth n (set_nth n l x) d = x.
Proof. revert n; induction l as [|y l IH]; intros [|n] H; cbn in *; try lia; auto. apply IH. lia. Qed.

Lemma nth_set_nth_other {A} n k (l : list A) x d : n <> k -> nth k (set_nth n l x) d = nth k l d.
Proof.
  revert n k; induction l as [|y l IH]; intros [|n] [|k] H; cbn; auto; try congruence.
Qed.

Lemma Forall_set_nth {A} (P : A -> Prop) n l x : Forall P l -> P x -> Forall P (set_nth n l x).
Proof.
  intros H; revert n; induction H as [|y l Hy Hl IH]; intros [|n] Hx; cbn; constructor; auto.
Qed.

Lemma get_put_same m id s : 0 <= id < zlen (bm_segs m) -> get_seg (put_seg m id s) id = s.
Proof.
  intros H. unfold get_seg, put_seg. cbn [bm_segs]. apply nth_set_nth_same. unfold zlen in H. lia.
Qed.

Lemma get_put_other m id id' s : 0 <= id -> 0 <= id' -> id <> id' -> get_seg (put_seg m id s) id' = get_seg m id'.
Proof.
  intros H1 H2 H3. unfold get_seg, put_seg. cbn [bm_segs]. apply nth_set_nth_other. lia.
Qed.

Lemma put_seg_nsegs m id s : zlen (bm_segs (put_seg m id s)) = zlen (bm_segs m).
Proof. unfold put_seg, zlen. cbn [bm_segs]. now rewrite set_nth_length. Qed.

Lemma put_seg_fields m id s :
  bm_arena (put_seg m id s) = bm_arena m /\ bm_caps (put_seg m id s) = bm_caps m /\ bm_rl (put_seg m id s) = bm_rl m.
Proof. now unfold put_seg. Qed.

Lemma put_seg_wf m id s : bmsg_wf m -> seg_wf s -> bmsg_wf (put_seg m id s).
Proof. intros. unfold bmsg_wf, put_seg. cbn [bm_segs]. now apply Forall_set_nth. Qed.

Lemma get_seg_wf m id : bmsg_wf m -> seg_wf (get_seg m id).
Proof.
  intros H. unfold get_seg. destruct (Nat.lt_ge_cases (Z.to_nat id) (length (bm_segs m))) as [L|L].
  - unfold bmsg_wf in H. rewrite Forall_forall in H. apply H. now apply nth_In.
  - rewrite nth_overflow by lia. unfold seg_wf, blen, zlen. cbn. lia.
Qed.

Lemma get_seg_out m id : zlen (bm_segs m) <= id -> get_seg m id = mkBS [] 0.
Proof. intros H. unfold get_seg. apply nth_overflow. unfold zlen in H. lia. Qed.

(* ------------------------------------------------------------------ le_encode / le_decode *)
Lemma le_encode_length n v : length (le_encode n v) = n.
Proof. revert v; induction n; intros; cbn; auto. Qed.

Lemma le_decode_encode n v : 0 <= v < 256 ^ Z.of_nat n -> le_decode (le_encode n v) = v.
Proof.
  revert v; induction n as [|n IH]; intros v H.
  - cbn in *. lia.
  - cbn [le_encode le_decode]. rewrite IH.
    + lia.
    + rewrite Nat2Z.inj_succ, Z.pow_succ_r in H by lia. lia.
Qed.

Lemma le_decode_encode_mod n v : le_decode (le_encode n v) = v mod 256 ^ Z.of_nat n.
Proof.
  revert v; induction n as [|n IH]; intros v.
  - cbn. now rewrite Z.mod_1_r.
  - cbn [le_encode le_decode]. rewrite IH. rewrite Nat2Z.inj_succ, Z.pow_succ_r by lia.
    assert (0 < 256 ^ Z.of_nat n) by (apply Z.pow_pos_nonneg; lia).
    rewrite (Z.mul_comm 256). rewrite Z.rem_mul_r by lia. lia.
Qed.

Lemma le_encode_bytes n v : Forall (fun b => 0 <= b < 256) (le_encode n v).
Proof. revert v; induction n; intros; cbn; constructor; auto. lia. Qed.

(* ------------------------------------------------------------------ write_bytes *)
Lemma nth_firstn_lt {A} k n (l : list A) d : (k < n)%nat -> nth k (firstn n l) d = nth k l d.
Proof.
  revert k l; induction n as [|n IH]; intros k l H; [lia|].
  destruct l as [|y l]; [now destruct k|]. destruct k as [|k]; cbn; auto. apply IH. lia.
Qed.

Lemma nth_skipn_add {A} k n (l : list A) d : nth k (skipn n l) d = nth (n + k) l d.
Proof.
  revert l; induction n as [|n IH]; intros l; cbn; auto.
  destruct l as [|y l]; [now destruct k|]. apply IH.
Qed.

Lemma write_bytes_length d addr bs :
  0 <= addr -> addr + zlen bs <= zlen d -> length (write_bytes d addr bs) = length d.
Proof.
  intros H1 H2. unfold write_bytes, zlen in *. rewrite !app_length, firstn_length, skipn_length. lia.
Qed.

(* byte k of the result: the new byte inside the range, the old byte outside *)
Lemma write_bytes_nth d addr bs k x :
  0 <= addr -> addr + zlen bs <= zlen d ->
  nth k (write_bytes d addr bs) x =
  if (Z.to_nat addr <=? k)%nat && (k <? Z.to_nat addr + length bs)%nat
  then nth (k - Z.to_nat addr) bs x else nth k d x.
Proof.
  intros H1 H2. unfold write_bytes, zlen in *.
  assert (L : length (firstn (Z.to_nat addr) d) = Z.to_nat addr) by (rewrite firstn_length; lia).
  destruct (Nat.ltb_spec k (Z.to_nat addr)) as [A|A].
  - rewrite app_nth1 by lia. rewrite nth_firstn_lt by lia.
    destruct (Nat.leb_spec (Z.to_nat addr) k); try lia. reflexivity.
  - rewrite app_nth2 by lia. rewrite L.
    destruct (Nat.leb_spec (Z.to_nat addr) k); try lia. cbn [andb].
    destruct (Nat.ltb_spec k (Z.to_nat addr + length bs)) as [B|B].
    + rewrite app_nth1 by lia. reflexivity.
    + rewrite app_nth2 by lia. rewrite nth_skipn_add. f_equal. lia.
Qed.

(* the bytes in [base, base+n) *)
Lemma sub_write_same d addr bs :
  0 <= addr -> addr + zlen bs <= zlen d -> sub (write_bytes d addr bs) addr (zlen bs) = bs.
Proof.
  intros H1 H2. unfold sub, write_bytes, zlen in *.
  rewrite skipn_app. rewrite skipn_all2 by (rewrite firstn_length; lia).
  rewrite firstn_length. replace (Z.to_nat addr - Nat.min (Z.to_nat addr) (length d))%nat with O by lia.
  cbn [skipn app]. rewrite Nat2Z.id. rewrite firstn_app. rewrite firstn_all.
  replace (length bs - length bs)%nat with O by lia. cbn. now rewrite app_nil_r.
Qed.

Lemma sub_write_disjoint d addr bs base n :
  0 <= addr -> addr + zlen bs <= zlen d -> 0 <= base -> 0 <= n ->
  base + n <= addr \/ addr + zlen bs <= base ->
  sub (write_bytes d addr bs) base n = sub d base n.
Proof.
  intros H1 H2 H3 H4 H5. unfold sub.
  apply nth_ext with (d := 0) (d' := 0).
  - rewrite !firstn_length, !skipn_length. rewrite write_bytes_length by assumption. reflexivity.
  - intros k Hk. rewrite firstn_length, skipn_length in Hk.
    rewrite write_bytes_length in Hk by assumption.
    rewrite !nth_firstn_lt by lia. rewrite !nth_skipn_add. rewrite write_bytes_nth by assumption.
    unfold zlen in *.
    destruct (Nat.leb_spec (Z.to_nat addr) (Z.to_nat base + k)); cbn [andb]; auto.
    destruct (Nat.ltb_spec (Z.to_nat base + k) (Z.to_nat addr + length bs)); auto. lia.
Qed.

(* ------------------------------------------------------------------ seg_write *)
Lemma seg_write_ok m sid addr bs m' :
  zlen bs < 4294967296 ->
  seg_write m sid addr bs = Ok m' ->
  0 <= addr /\ addr + zlen bs <= blen (get_seg m sid) /\
  m' = put_seg m sid (mkBS (write_bytes (bs_data (get_seg m sid)) addr bs) (bs_cap (get_seg m sid))).
Proof.
  unfold seg_write, addSizeUnchecked. intros Hl H.
  destruct ((0 <=? addr) && (addr <=? u32 (addr + zlen bs)) && (u32 (addr + zlen bs) <=? blen (get_seg m sid))) eqn:E;
    [|discriminate].
  injection H as <-.
  assert (Hz := zlen_nonneg bs). unfold u32 in E.
  assert (Hb := blen_nonneg (get_seg m sid)).
  repeat split; lia.
Qed.

Lemma seg_write_not_err m sid addr bs : seg_write m sid addr bs <> Err.
Proof. unfold seg_write. destruct (_ && _ && _); discriminate. Qed.

(* ------------------------------------------------------------------ memory view *)
Definition mem (m : bmsg) (sid : Z) : list Z := bs_data (get_seg m sid).

Lemma seg_of_bm_data m p : seg_of (bm_data m) p = mem m (p_seg p).
Proof.
  unfold seg_of, bm_data, mem, get_seg.
  change (@nil Z) with (bs_data (mkBS [] 0)). apply map_nth.
Qed.

Lemma nth_bm_data m i : nth (Z.to_nat i) (bm_data m) [] = mem m i.
Proof.
  unfold bm_data, mem, get_seg. change (@nil Z) with (bs_data (mkBS [] 0)). apply map_nth.
Qed.

Lemma set_nth_overflow {A} n (l : list A) x : (length l <= n)%nat -> set_nth n l x = l.
Proof. revert n; induction l as [|y l IH]; intros [|n] H; cbn in *; auto; try lia. f_equal. apply IH. lia. Qed.

(* [wrote m m' sid addr bs]: m' is m with the bytes bs stored at [addr, addr+|bs|) of segment
   sid and nothing else changed (no other byte of any segment, no length, no capacity) *)
Definition wrote (m m' : bmsg) (sid addr : Z) (bs : list Z) : Prop :=
  0 <= addr /\ addr + zlen bs <= zlen (mem m sid) /\
  mem m' sid = write_bytes (mem m sid) addr bs /\
  (forall i, 0 <= i -> i <> sid -> get_seg m' i = get_seg m i) /\
  bs_cap (get_seg m' sid) = bs_cap (get_seg m sid) /\
  zlen (mem m' sid) = zlen (mem m sid) /\
  zlen (bm_segs m') = zlen (bm_segs m) /\
  bm_arena m' = bm_arena m /\ bm_caps m' = bm_caps m /\ bm_rl m' = bm_rl m.

Lemma seg_write_wrote m sid addr bs m' :
  0 <= sid -> zlen bs < 4294967296 -> seg_write m sid addr bs = Ok m' -> wrote m m' sid addr bs.
Proof.
  intros Hsid Hl H. apply seg_write_ok in H; auto. destruct H as (H1 & H2 & ->).
  unfold wrote, mem. fold (blen (get_seg m sid)).
  set (s' := mkBS (write_bytes (bs_data (get_seg m sid)) addr bs) (bs_cap (get_seg m sid))).
  assert (Hlen : length (write_bytes (bs_data (get_seg m sid)) addr bs) = length (bs_data (get_seg m sid)))
    by (apply write_bytes_length; unfold blen in H2; lia).
  destruct (Z_lt_ge_dec sid (zlen (bm_segs m))) as [L|G].
  - rewrite get_put_same by lia. rewrite put_seg_nsegs. unfold s'. cbn [bs_data bs_cap].
    repeat split; auto; try lia.
    + intros i Hi Hne. apply get_put_other; lia.
    + unfold zlen. now rewrite Hlen.
  - (* a segment outside the message: only the empty write passes the bounds check *)
    assert (E : get_seg m sid = mkBS [] 0) by (apply get_seg_out; lia).
    assert (Hp : put_seg m sid s' = m).
    { unfold put_seg. rewrite set_nth_overflow by (unfold zlen in G; lia). now destruct m. }
    rewrite Hp. rewrite E in *. unfold blen, zlen in H2. cbn in H2.
    assert (bs = []) by (destruct bs; cbn in *; [reflexivity|lia]). subst bs.
    assert (addr = 0) by (cbn in H2; lia). subst addr.
    cbn. repeat split; auto; lia.
Qed.

(* reads outside the written range, or in another segment, see the old bytes *)
Lemma slice_write_disjoint d addr bs base n :
  0 <= addr -> addr + zlen bs <= zlen d -> 0 <= n < 4294967296 ->
  base + n <= addr \/ addr + zlen bs <= base ->
  slice (write_bytes d addr bs) base n = slice d base n.
Proof.
  intros H1 H2 H3 H4. unfold slice. cbv zeta.
  assert (L : zlen (write_bytes d addr bs) = zlen d) by (unfold zlen; rewrite write_bytes_length; auto).
  rewrite L. unfold addSizeUnchecked, u32.
  destruct ((0 <=? base) && (base <=? (base + n) mod 4294967296) && ((base + n) mod 4294967296 <=? zlen d)) eqn:E; auto.
  f_equal. assert (Hz := zlen_nonneg bs).
  assert ((base + n) mod 4294967296 = base + n) by lia.
  change (firstn (Z.to_nat ((base + n) mod 4294967296 - base)) (skipn (Z.to_nat base) (write_bytes d addr bs)))
    with (sub (write_bytes d addr bs) base ((base + n) mod 4294967296 - base)).
  rewrite sub_write_disjoint by lia. reflexivity.
Qed.

Theorem wrote_slice_other m m' sid addr bs sid' base n :
  wrote m m' sid addr bs -> 0 <= sid' -> 0 <= n < 4294967296 ->
  sid' <> sid \/ base + n <= addr \/ addr + zlen bs <= base ->
  slice (mem m' sid') base n = slice (mem m sid') base n.
Proof.
  intros (W1 & W2 & W3 & W4 & _) Hs Hn Hd.
  destruct (Z.eq_dec sid' sid) as [->|Hne].
  - rewrite W3. apply slice_write_disjoint; auto. destruct Hd as [Hd|Hd]; [congruence|exact Hd].
  - unfold mem. rewrite W4 by assumption. reflexivity.
Qed.

Corollary wrote_readUintN_other m m' sid addr bs sid' base n :
  wrote m m' sid addr bs -> 0 <= sid' -> 0 <= n < 4294967296 ->
  sid' <> sid \/ base + n <= addr \/ addr + zlen bs <= base ->
  readUintN (mem m' sid') base n = readUintN (mem m sid') base n.
Proof. intros. unfold readUintN. erewrite wrote_slice_other; eauto. Qed.

(* reading back exactly the written range *)
Lemma wrote_slice_same m m' sid addr bs :
  wrote m m' sid addr bs -> zlen (mem m sid) < 4294967296 ->
  slice (mem m' sid) addr (zlen bs) = Ok bs.
Proof.
  intros (W1 & W2 & W3 & _ & _ & W6 & _) Hl.
  assert (Hz := zlen_nonneg bs).
  rewrite slice_ok by lia. rewrite W3, sub_write_same by lia. reflexivity.
Qed.

(* ------------------------------------------------------------------ setter_frame: integers *)
Definition width_ok (n : Z) : Prop := n = 1 \/ n = 2 \/ n = 4 \/ n = 8.

Lemma zlen_le_encode n v : 0 <= n -> zlen (le_encode (Z.to_nat n) v) = n.
Proof. intros. unfold zlen. rewrite le_encode_length. lia. Qed.

(* SetUint8/16/32/64: exactly the n bytes of the field change; reading the field back yields
   the value (truncated to the width, as the Go conversion does); every read of any other
   location - another segment, or a byte range of the same segment that does not overlap the
   field - is unchanged, and so are all lengths, capacities and the capability table *)
Theorem struct_set_uint_frame m p off n v m' :
  width_ok n -> 0 <= p_seg p -> zlen (mem m (p_seg p)) < 4294967296 ->
  struct_set_uint m p off n v = Ok m' ->
  exists addr, dataAddress p off n = Ok (Some addr) /\
    wrote m m' (p_seg p) addr (le_encode (Z.to_nat n) v) /\
    struct_uint (bm_data m') p off n = Ok (v mod 256 ^ n).
Proof.
  intros Hn Hs Hl. unfold struct_set_uint, struct_uint.
  destruct (dataAddress p off n) as [[addr|]| |] eqn:ED; cbn [bind]; try discriminate.
  intros HW. exists addr. split; [reflexivity|].
  assert (Hn0 : 0 <= n < 4294967296) by (destruct Hn as [->|[->|[->| ->]]]; lia).
  apply seg_write_wrote in HW; auto; [|rewrite zlen_le_encode; lia].
  split; [exact HW|].
  rewrite seg_of_bm_data. unfold readUintN.
  pose proof (wrote_slice_same _ _ _ _ _ HW Hl) as R. rewrite zlen_le_encode in R by lia.
  rewrite R. cbn [bind]. rewrite le_decode_encode_mod. rewrite Z2Nat.id by lia. reflexivity.
Qed.

(* the same for the typed list setters UInt8List..UInt64List.Set *)
Theorem list_set_uint_frame m p i n v m' :
  width_ok n -> 0 <= p_seg p -> zlen (mem m (p_seg p)) < 4294967296 ->
  list_set_uint m p i n v = Ok m' ->
  exists addr, primitiveElem true p i (mkOS n 0) = Ok addr /\
    wrote m m' (p_seg p) addr (le_encode (Z.to_nat n) v) /\
    list_uint_at true (bm_data m') p i n = Ok (v mod 256 ^ n).
Proof.
  intros Hn Hs Hl. unfold list_set_uint, list_uint_at.
  destruct (primitiveElem true p i (mkOS n 0)) as [addr| |] eqn:EP; try discriminate.
  intros HW. exists addr. split; [reflexivity|].
  assert (Hn0 : 0 <= n < 4294967296) by (destruct Hn as [->|[->|[->| ->]]]; lia).
  apply seg_write_wrote in HW; auto; [|rewrite zlen_le_encode; lia].
  split; [exact HW|].
  rewrite seg_of_bm_data. unfold readUintN.
  pose proof (wrote_slice_same _ _ _ _ _ HW Hl) as R. rewrite zlen_le_encode in R by lia.
  rewrite R. cbn [bind]. rewrite le_decode_encode_mod. rewrite Z2Nat.id by lia. reflexivity.
Qed.

(* frame for the accessors themselves: a struct field / list element read at another location *)
Corollary struct_uint_other m m' sid addr bs q off n :
  wrote m m' sid addr bs -> 0 <= p_seg q -> 0 <= n < 4294967296 ->
  (forall a, dataAddress q off n = Ok (Some a) -> p_seg q <> sid \/ a + n <= addr \/ addr + zlen bs <= a) ->
  struct_uint (bm_data m') q off n = struct_uint (bm_data m) q off n.
Proof.
  intros HW Hs Hn Hd. unfold struct_uint. destruct (dataAddress q off n) as [[a|]| |]; cbn [bind]; auto.
  rewrite !seg_of_bm_data. eapply wrote_readUintN_other; eauto.
Qed.

Corollary list_uint_at_other m m' sid addr bs q i n :
  wrote m m' sid addr bs -> 0 <= p_seg q -> 0 <= n < 4294967296 ->
  (forall a, primitiveElem true q i (mkOS n 0) = Ok a -> p_seg q <> sid \/ a + n <= addr \/ addr + zlen bs <= a) ->
  list_uint_at true (bm_data m') q i n = list_uint_at true (bm_data m) q i n.
Proof.
  intros HW Hs Hn Hd. unfold list_uint_at. destruct (primitiveElem true q i (mkOS n 0)) as [a| |]; auto.
  rewrite !seg_of_bm_data. eapply wrote_readUintN_other; eauto.
Qed.

Corollary readRawPointer_other m m' sid addr bs sid' a :
  wrote m m' sid addr bs -> 0 <= sid' ->
  sid' <> sid \/ a + 8 <= addr \/ addr + zlen bs <= a ->
  readRawPointer (mem m' sid') a = readRawPointer (mem m sid') a.
Proof. intros. unfold readRawPointer. eapply wrote_readUintN_other; eauto. lia. Qed.

(* ------------------------------------------------------------------ setter_frame: bits *)
Definition zrange (n : nat) : list Z := map Z.of_nat (seq 0 n).
Lemma in_zrange x n : 0 <= x < Z.of_nat n -> In x (zrange n).
Proof.
  intros H. unfold zrange. apply in_map_iff. exists (Z.to_nat x). split; [lia|].
  apply in_seq. lia.
Qed.

(* set_bit_in on a byte: exhaustive over the 256 x 8 x 2 cases (the whole domain) *)
Definition sbi_check : bool :=
  forallb (fun b => forallb (fun k => forallb (fun v =>
    (0 <=? set_bit_in b k v) && (set_bit_in b k v <? 256) &&
    forallb (fun j => Bool.eqb (Z.testbit (set_bit_in b k v) j) (if j =? k then v else Z.testbit b j)) (zrange 8))
    [true; false]) (zrange 8)) (zrange 256).
Lemma sbi_check_ok : sbi_check = true.
Proof. vm_compute. reflexivity. Qed.

Lemma set_bit_in_spec b k v : 0 <= b < 256 -> 0 <= k < 8 ->
  0 <= set_bit_in b k v < 256 /\
  forall j, 0 <= j < 8 -> Z.testbit (set_bit_in b k v) j = if j =? k then v else Z.testbit b j.
Proof.
  intros Hb Hk. pose proof sbi_check_ok as C. unfold sbi_check in C.
  rewrite forallb_forall in C. specialize (C b (in_zrange b 256 Hb)).
  rewrite forallb_forall in C. specialize (C k (in_zrange k 8 Hk)).
  rewrite forallb_forall in C. specialize (C v ltac:(destruct v; cbn; auto)).
  apply andb_prop in C. destruct C as [C1 C2]. apply andb_prop in C1. destruct C1 as [C0 C1].
  split; [lia|]. intros j Hj. rewrite forallb_forall in C2.
  specialize (C2 j (in_zrange j 8 Hj)). now apply Bool.eqb_prop in C2.
Qed.

Lemma readUintN_1 s addr : 0 <= addr -> addr + 1 <= zlen s -> zlen s < 4294967296 -> bytes_ok s ->
  exists b, readUintN s addr 1 = Ok b /\ 0 <= b < 256 /\ sub s addr 1 = [b].
Proof.
  intros H1 H2 H3 Hb. unfold readUintN. rewrite slice_ok by lia. cbn [bind].
  assert (L : zlen (sub s addr 1) = 1) by (apply sub_length; lia).
  destruct (sub s addr 1) as [|x [|y r]] eqn:E; unfold zlen in L; cbn in L; try lia.
  exists x. cbn [le_decode]. split; [f_equal; lia|]. split; [|reflexivity].
  pose proof (bytes_ok_sub s addr 1 Hb) as B. rewrite E in B. inversion B; subst. lia.
Qed.

(* a one-byte write read back *)
Lemma wrote_byte_back m m' sid addr x :
  wrote m m' sid addr [x] -> zlen (mem m sid) < 4294967296 -> readUintN (mem m' sid) addr 1 = Ok x.
Proof.
  intros HW Hl. unfold readUintN. pose proof (wrote_slice_same _ _ _ _ _ HW Hl) as R.
  change (zlen [x]) with 1 in R. rewrite R. cbn. f_equal. lia.
Qed.

(* Struct.SetBit: one byte is rewritten, in it exactly bit n mod 8 takes the value v;
   Struct.Bit reads v back *)
Theorem struct_set_bit_frame m p n v m' :
  0 <= p_seg p -> zlen (mem m (p_seg p)) < 4294967296 -> bytes_ok (mem m (p_seg p)) ->
  struct_set_bit m p n v = Ok m' ->
  exists addr b, addOffset (p_off p) (bitOffset_offset n) = Some addr /\
    readUintN (mem m (p_seg p)) addr 1 = Ok b /\ 0 <= b < 256 /\
    wrote m m' (p_seg p) addr [set_bit_in b (n mod 8) v] /\
    (forall j, 0 <= j < 8 -> Z.testbit (set_bit_in b (n mod 8) v) j = if j =? n mod 8 then v else Z.testbit b j) /\
    struct_bit (bm_data m') p n = Ok v.
Proof.
  intros Hs Hl Hb. unfold struct_set_bit, struct_bit.
  destruct (negb (p_valid p && (n <? u32 (DataSize (p_size p) * 8)))) eqn:EV; [discriminate|].
  destruct (addOffset (p_off p) (bitOffset_offset n)) as [addr|] eqn:EA; [|discriminate].
  rewrite nth_bm_data.
  destruct (readUintN (mem m (p_seg p)) addr 1) as [b| |] eqn:ER; cbn [bind]; try discriminate.
  intros HW. apply seg_write_wrote in HW; auto; [|cbn; lia].
  destruct HW as (W1 & W2 & W') . change (zlen [set_bit_in b (n mod 8) v]) with 1 in W2.
  destruct (readUintN_1 (mem m (p_seg p)) addr W1 W2 Hl Hb) as (b' & R1 & R2 & _).
  rewrite ER in R1. apply Ok_inj in R1. subst b'.
  assert (HW : wrote m m' (p_seg p) addr [set_bit_in b (n mod 8) v]) by (unfold wrote; tauto).
  assert (Hk : 0 <= n mod 8 < 8) by lia.
  destruct (set_bit_in_spec b (n mod 8) v R2 Hk) as [S1 S2].
  exists addr, b.
  split; [first [exact EA|reflexivity]|]. split; [first [exact ER|reflexivity]|]. split; [lia|]. split; [exact HW|]. split; [exact S2|].
  rewrite seg_of_bm_data, (wrote_byte_back _ _ _ _ _ HW Hl). cbn [bind].
  rewrite S2 by lia. now rewrite Z.eqb_refl.
Qed.

(* BitList.Set *)
Theorem bitlist_set_frame m p i v m' :
  0 <= p_seg p -> zlen (mem m (p_seg p)) < 4294967296 -> bytes_ok (mem m (p_seg p)) ->
  bitlist_set m p i v = Ok m' ->
  let addr := u32 (p_off p + bitOffset_offset i) in
  exists b, readUintN (mem m (p_seg p)) addr 1 = Ok b /\ 0 <= b < 256 /\
    wrote m m' (p_seg p) addr [set_bit_in b (i mod 8) v] /\
    (forall j, 0 <= j < 8 -> Z.testbit (set_bit_in b (i mod 8) v) j = if j =? i mod 8 then v else Z.testbit b j) /\
    bitlist_at true (bm_data m') p i = Ok v.
Proof.
  intros Hs Hl Hb. unfold bitlist_set, bitlist_at. cbv zeta.
  destruct (negb (p_valid p) || (i <? 0) || (i >=? p_len p)) eqn:EV; [discriminate|].
  destruct (negb (p_bit p)) eqn:EB; [discriminate|].
  rewrite nth_bm_data. set (addr := u32 (p_off p + bitOffset_offset i)).
  destruct (readUintN (mem m (p_seg p)) addr 1) as [b| |] eqn:ER; cbn [bind]; try discriminate.
  intros HW. apply seg_write_wrote in HW; auto; [|cbn; lia].
  destruct HW as (W1 & W2 & W'). change (zlen [set_bit_in b (i mod 8) v]) with 1 in W2.
  destruct (readUintN_1 (mem m (p_seg p)) addr W1 W2 Hl Hb) as (b' & R1 & R2 & _).
  rewrite ER in R1. apply Ok_inj in R1. subst b'.
  assert (HW : wrote m m' (p_seg p) addr [set_bit_in b (i mod 8) v]) by (unfold wrote; tauto).
  assert (Hk : 0 <= i mod 8 < 8) by lia.
  destruct (set_bit_in_spec b (i mod 8) v R2 Hk) as [S1 S2].
  exists b.
  split; [first [exact ER|reflexivity]|]. split; [lia|]. split; [exact HW|]. split; [exact S2|].
  rewrite seg_of_bm_data. fold addr. rewrite (wrote_byte_back _ _ _ _ _ HW Hl). cbn [bind].
  rewrite S2 by lia. now rewrite Z.eqb_refl.
Qed.

(* [setter_frame]: every data setter is one bounded write.  Whatever setter succeeded, the
   message afterwards is [wrote] of the old one at a range inside the setter's field, so by
   [wrote_slice_other] / [wrote_readUintN_other] / [struct_uint_other] / [list_uint_at_other] /
   [readRawPointer_other] every read that does not overlap that range is unchanged. *)
Inductive data_setter :=
| DSUint (p : Ptr) (off n v : Z) | DSBit (p : Ptr) (n : Z) (v : bool)
| DSListUint (p : Ptr) (i n v : Z) | DSListBit (p : Ptr) (i : Z) (v : bool).

Definition run_setter (m : bmsg) (s : data_setter) : res bmsg :=
  match s with
  | DSUint p off n v => struct_set_uint m p off n v
  | DSBit p n v => struct_set_bit m p n v
  | DSListUint p i n v => list_set_uint m p i n v
  | DSListBit p i v => bitlist_set m p i v
  end.
Definition setter_ptr (s : data_setter) : Ptr :=
  match s with DSUint p _ _ _ | DSBit p _ _ | DSListUint p _ _ _ | DSListBit p _ _ => p end.
Definition setter_width (s : data_setter) : Z :=
  match s with DSUint _ _ n _ | DSListUint _ _ n _ => n | _ => 1 end.
Definition setter_width_ok (s : data_setter) : Prop :=
  match s with DSUint _ _ n _ | DSListUint _ _ n _ => width_ok n | _ => True end.

Theorem setter_frame m s m' :
  setter_width_ok s -> 0 <= p_seg (setter_ptr s) ->
  zlen (mem m (p_seg (setter_ptr s))) < 4294967296 -> bytes_ok (mem m (p_seg (setter_ptr s))) ->
  run_setter m s = Ok m' ->
  exists addr bs, zlen bs = setter_width s /\ wrote m m' (p_seg (setter_ptr s)) addr bs.
Proof.
  intros Hw Hs Hl Hb H. destruct s as [p off n v|p n v|p i n v|p i v]; cbn in *.
  - destruct (struct_set_uint_frame _ _ _ _ _ _ Hw Hs Hl H) as (a & _ & W & _).
    exists a, (le_encode (Z.to_nat n) v). split; [|exact W].
    apply zlen_le_encode. destruct Hw as [->|[->|[->| ->]]]; lia.
  - destruct (struct_set_bit_frame _ _ _ _ _ Hs Hl Hb H) as (a & b & _ & _ & _ & W & _).
    exists a, [set_bit_in b (n mod 8) v]. split; [reflexivity|exact W].
  - destruct (list_set_uint_frame _ _ _ _ _ _ Hw Hs Hl H) as (a & _ & W & _).
    exists a, (le_encode (Z.to_nat n) v). split; [|exact W].
    apply zlen_le_encode. destruct Hw as [->|[->|[->| ->]]]; lia.
  - destruct (bitlist_set_frame _ _ _ _ _ Hs Hl Hb H) as (b & _ & _ & W & _).
    eexists _, [set_bit_in b (i mod 8) v]. split; [reflexivity|exact W].
Qed.
