(* Basic facts about the write-side model: segment tables, byte writes, little-endian
   encode/decode, and the frame property of the data setters ([setter_frame]). *)
From CV Require Import Core.Builder Core.ReaderFacts.
From Coq Require Import ZifyBool ZifyNat.
Open Scope Z_scope.

Ltac Zify.zify_post_hook ::= Z.div_mod_to_equations.

Lemma Ok_inj {A} (a b : A) : Ok a = Ok b -> a = b.
Proof. now intros [= ->]. Qed.

(* ------------------------------------------------------------------ well-formed builder messages *)
Definition seg_wf (s : bseg) : Prop := blen s <= bs_cap s /\ blen s mod 8 = 0.
Definition bmsg_wf (m : bmsg) : Prop := Forall seg_wf (bm_segs m).

Lemma blen_nonneg s : 0 <= blen s.
Proof. unfold blen. apply zlen_nonneg. Qed.

Lemma zlen_app {A} (a b : list A) : zlen (a ++ b) = zlen a + zlen b.
Proof. unfold zlen. rewrite app_length. lia. Qed.

Lemma zlen_repeat {A} (x : A) n : zlen (repeat x n) = Z.of_nat n.
Proof. unfold zlen. now rewrite repeat_length. Qed.

Lemma zlen_map {A B} (f : A -> B) l : zlen (map f l) = zlen l.
Proof. unfold zlen. now rewrite map_length. Qed.

(* ------------------------------------------------------------------ set_nth / get_seg / put_seg *)
Lemma set_nth_length {A} n (l : list A) x : length (set_nth n l x) = length l.
Proof. revert n; induction l as [|y l IH]; intros [|n]; cbn; auto. Qed.

Lemma nth_set_nth_same {A} n (l : list A) x d : (n < length l)%nat -> nth n (set_nth n l x) d = x.
Proof. revert n; induction l as [|y l IH]; intros [|n] H; cbn in *; try lia; auto. apply IH. lia. Qed.

Lemma nth_set_nth_other {A} n k (l : list A) x d : n <> k -> nth k (set_nth n l x) d = nth k l d.
Proof.
  revert n k; induction l as [|y l IH]; intros [|n] [|k] H; cbn; auto; try congruence.
Qed.

Lemma Forall_set_nth {A} (P : A -> Prop) n l x : Forall P l -> P x -> Forall P (set_nth n l x).
Proof.
  intros H; revert n; induction H as [|y l Hy Hl IH]; intros [|n] Hx; cbn; constructor; auto.
Qed.

Lemma get_put_same m id s : 0 <= id < zlen (bm_segs m) -> get_seg (put_seg m id s) id = s.
Proof.
  intros H. unfold get_seg, put_seg. cbn [bm_segs]. apply nth_set_nth_same. unfold zlen in H. lia.
Qed.

Lemma get_put_other m id id' s : 0 <= id -> 0 <= id' -> id <> id' -> get_seg (put_seg m id s) id' = get_seg m id'.
Proof.
  intros H1 H2 H3. unfold get_seg, put_seg. cbn [bm_segs]. apply nth_set_nth_other. lia.
Qed.

Lemma put_seg_nsegs m id s : zlen (bm_segs (put_seg m id s)) = zlen (bm_segs m).
Proof. unfold put_seg, zlen. cbn [bm_segs]. now rewrite set_nth_length. Qed.

Lemma put_seg_fields m id s :
  bm_arena (put_seg m id s) = bm_arena m /\ bm_caps (put_seg m id s) = bm_caps m /\ bm_rl (put_seg m id s) = bm_rl m.
Proof. now unfold put_seg. Qed.

Lemma put_seg_wf m id s : bmsg_wf m -> seg_wf s -> bmsg_wf (put_seg m id s).
Proof. intros. unfold bmsg_wf, put_seg. cbn [bm_segs]. now apply Forall_set_nth. Qed.

Lemma get_seg_wf m id : bmsg_wf m -> seg_wf (get_seg m id).
Proof.
  intros H. unfold get_seg. destruct (Nat.lt_ge_cases (Z.to_nat id) (length (bm_segs m))) as [L|L].
  - unfold bmsg_wf in H. rewrite Forall_forall in H. apply H. now apply nth_In.
  - rewrite nth_overflow by lia. unfold seg_wf, blen, zlen. cbn. lia.
Qed.

Lemma get_seg_out m id : zlen (bm_segs m) <= id -> get_seg m id = mkBS [] 0.
Proof. intros H. unfold get_seg. apply nth_overflow. unfold zlen in H. lia. Qed.

(* ------------------------------------------------------------------ le_encode / le_decode *)
Lemma le_encode_length n v : length (le_encode n v) = n.
Proof. revert v; induction n; intros; cbn; auto. Qed.

Lemma le_decode_encode n v : 0 <= v < 256 ^ Z.of_nat n -> le_decode (le_encode n v) = v.
Proof.
  revert v; induction n as [|n IH]; intros v H.
  - cbn in *. lia.
  - cbn [le_encode le_decode]. rewrite IH.
    + lia.
    + rewrite Nat2Z.inj_succ, Z.pow_succ_r in H by lia. lia.
Qed.

Lemma le_decode_encode_mod n v : le_decode (le_encode n v) = v mod 256 ^ Z.of_nat n.
Proof.
  revert v; induction n as [|n IH]; intros v.
  - cbn. now rewrite Z.mod_1_r.
  - cbn [le_encode le_decode]. rewrite IH. rewrite Nat2Z.inj_succ, Z.pow_succ_r by lia.
    assert (0 < 256 ^ Z.of_nat n) by (apply Z.pow_pos_nonneg; lia).
    rewrite (Z.mul_comm 256). rewrite Z.rem_mul_r by lia. lia.
Qed.

Lemma le_encode_bytes n v : Forall (fun b => 0 <= b < 256) (le_encode n v).
Proof. revert v; induction n; intros; cbn; constructor; auto. lia. Qed.

(* ------------------------------------------------------------------ write_bytes *)
Lemma nth_firstn_lt {A} k n (l : list A) d : (k < n)%nat -> nth k (firstn n l) d = nth k l d.
Proof.
  revert k l; induction n as [|n IH]; intros k l H; [lia|].
  destruct l as [|y l]; [now destruct k|]. destruct k as [|k]; cbn; auto. apply IH. lia.
Qed.

Lemma nth_skipn_add {A} k n (l : list A) d : nth k (skipn n l) d = nth (n + k) l d.
Proof.
  revert l; induction n as [|n IH]; intros l; cbn; auto.
  destruct l as [|y l]; [now destruct k|]. apply IH.
Qed.

Lemma write_bytes_length d addr bs :
  0 <= addr -> addr + zlen bs <= zlen d -> length (write_bytes d addr bs) = length d.
Proof.
  intros H1 H2. unfold write_bytes, zlen in *. rewrite !app_length, firstn_length, skipn_length. lia.
Qed.

(* byte k of the result: the new byte inside the range, the old byte outside *)
Lemma write_bytes_nth d addr bs k x :
  0 <= addr -> addr + zlen bs <= zlen d ->
  nth k (write_bytes d addr bs) x =
  if (Z.to_nat addr <=? k)%nat && (k <? Z.to_nat addr + length bs)%nat
  then nth (k - Z.to_nat addr) bs x else nth k d x.
Proof.
  intros H1 H2. unfold write_bytes, zlen in *.
  assert (L : length (firstn (Z.to_nat addr) d) = Z.to_nat addr) by (rewrite firstn_length; lia).
  destruct (Nat.ltb_spec k (Z.to_nat addr)) as [A|A].
  - rewrite app_nth1 by lia. rewrite nth_firstn_lt by lia.
    destruct (Nat.leb_spec (Z.to_nat addr) k); try lia. reflexivity.
  - rewrite app_nth2 by lia. rewrite L.
    destruct (Nat.leb_spec (Z.to_nat addr) k); try lia. cbn [andb].
    destruct (Nat.ltb_spec k (Z.to_nat addr + length bs)) as [B|B].
    + rewrite app_nth1 by lia. reflexivity.
    + rewrite app_nth2 by lia. rewrite nth_skipn_add. f_equal. lia.
Qed.

(* the bytes in [base, base+n) *)
Lemma sub_write_same d addr bs :
  0 <= addr -> addr + zlen bs <= zlen d -> sub (write_bytes d addr bs) addr (zlen bs) = bs.
Proof.
  intros H1 H2. unfold sub, write_bytes, zlen in *.
  rewrite skipn_app. rewrite skipn_all2 by (rewrite firstn_length; lia).
  rewrite firstn_length. replace (Z.to_nat addr - Nat.min (Z.to_nat addr) (length d))%nat with O by lia.
  cbn [skipn app]. rewrite Nat2Z.id. rewrite firstn_app. rewrite firstn_all.
  replace (length bs - length bs)%nat with O by lia. cbn. now rewrite app_nil_r.
Qed.

Lemma sub_write_disjoint d addr bs base n :
  0 <= addr -> addr + zlen bs <= zlen d -> 0 <= base -> 0 <= n ->
  base + n <= addr \/ addr + zlen bs <= base ->
  sub (write_bytes d addr bs) base n = sub d base n.
Proof.
  intros H1 H2 H3 H4 H5. unfold sub.
  apply nth_ext with (d := 0) (d' := 0).
  - rewrite !firstn_length, !skipn_length. rewrite write_bytes_length by assumption. reflexivity.
  - intros k Hk. rewrite firstn_length, skipn_length in Hk.
    rewrite write_bytes_length in Hk by assumption.
    rewrite !nth_firstn_lt by lia. rewrite !nth_skipn_add. rewrite write_bytes_nth by assumption.
    unfold zlen in *.
    destruct (Nat.leb_spec (Z.to_nat addr) (Z.to_nat base + k)); cbn [andb]; auto.
    destruct (Nat.ltb_spec (Z.to_nat base + k) (Z.to_nat addr + length bs)); auto. lia.
Qed.

(* ------------------------------------------------------------------ seg_write *)
Lemma seg_write_ok m sid addr bs m' :
  zlen bs < 4294967296 ->
  seg_write m sid addr bs = Ok m' ->
  0 <= addr /\ addr + zlen bs <= blen (get_seg m sid) /\
  m' = put_seg m sid (mkBS (write_bytes (bs_data (get_seg m sid)) addr bs) (bs_cap (get_seg m sid))).
Proof.
  unfold seg_write, addSizeUnchecked. intros Hl H.
  destruct ((0 <=? addr) && (addr <=? u32 (addr + zlen bs)) && (u32 (addr + zlen bs) <=? blen (get_seg m sid))) eqn:E;
    [|discriminate].
  injection H as <-.
  assert (Hz := zlen_nonneg bs). unfold u32 in E.
  assert (Hb := blen_nonneg (get_seg m sid)).
  repeat split; lia.
Qed.

Lemma seg_write_not_err m sid addr bs : seg_write m sid addr bs <> Err.
Proof. unfold seg_write. destruct (_ && _ && _); discriminate. Qed.
