(* C16, the closure theorem of a deep copy inside one message.
   [copy_all] of HeapCopy.v (tables only grow) is re-proved with the conclusion that matters for
   "deep": by mutual induction on the fuel of writePtr / copyStruct,
     - every table entry created by the call starts at or beyond the segment lengths before the call
       ([freshL]), and
     - every pointer slot lying in the area at or beyond given lengths L0 holds null, the inline
       empty struct, a capability index or a pointer placed to an entry of the set N extended by
       the new entries ([CL]), provided it was so before and every slot of the area that is
       written is written by a copying writePtr.
   With L0 = the lengths before the call and N = [] this is the closure [copy_closure]: the slot
   written designates the first new entry h, and every slot of every new entry designates a new
   entry (or nothing): no object of the copy, at any depth, is an object that existed before. *)
From CV Require Import Core.Builder Core.ReaderFacts Core.ArithFacts Core.BuilderFacts Core.AllocProofs
  Core.WritePtrProofs Core.HeapProofs Core.CopyProofs Core.BuildOps Core.BuildValid Core.BuildInv Core.HeapInv Core.ReadBridge
  Core.HeapOps Core.HeapCopy Core.HeapHistory Core.HeapFrames Core.CopyClosureBase.
From Coq Require Import ZifyBool ZifyNat.
Open Scope Z_scope.

Ltac Zify.zify_post_hook ::= Z.div_mod_to_equations.

Definition X_wp (f : nat) : Prop := forall w objs pads q src fc w' L0 N,
  tinv w objs pads -> In q ((0, 0) :: flat_map slots objs) -> view objs src ->
  CL (w_dst w) objs pads L0 N -> le_len L0 (w_dst w) ->
  (L0 (fst q) <= snd q -> fc || p_member src = true) ->
  write_ptr f true w (fst q) (snd q) InDst src fc = Ok w' -> nsegs (w_dst w') < B32 ->
  exists eo ep, tinv w' (objs ++ eo) (pads ++ ep) /\
    CL (w_dst w') (objs ++ eo) (pads ++ ep) L0 (N ++ eo) /\ freshL (lenf (w_dst w)) eo.

Definition X_cs (f : nat) : Prop := forall w objs pads dst src w' L0 N,
  tinv w objs pads -> view objs dst -> (p_valid dst = true -> p_kind dst = KStruct) ->
  view objs src -> (p_valid src = true -> p_kind src = KStruct) ->
  CL (w_dst w) objs pads L0 N -> le_len L0 (w_dst w) ->
  copy_struct f true w dst InDst src = Ok w' -> nsegs (w_dst w') < B32 ->
  exists eo ep, tinv w' (objs ++ eo) (pads ++ ep) /\
    CL (w_dst w') (objs ++ eo) (pads ++ ep) L0 (N ++ eo) /\ freshL (lenf (w_dst w)) eo.

(* ------------------------------------------------------------------ small steps *)
Lemma x_none w objs pads L0 N L : tinv w objs pads -> CL (w_dst w) objs pads L0 N ->
  exists eo ep, tinv w (objs ++ eo) (pads ++ ep) /\ CL (w_dst w) (objs ++ eo) (pads ++ ep) L0 (N ++ eo) /\ freshL L eo.
Proof. intros T C. exists [], []. rewrite !app_nil_r. split; [exact T|]. split; [exact C|]. intros h []. Qed.

Lemma CL_wrote_nil m T P m' sid addr L0 N :
  0 <= sid -> wrote m m' sid addr [] -> CL m T P L0 N -> CL m' T P L0 N.
Proof.
  intros Hs W C. pose proof (wrote_keeps _ _ _ _ _ W Hs) as K. change (zlen (@nil Z)) with 0 in K.
  assert (Nn : nsegs m' = nsegs m) by (unfold nsegs; apply (wrote_nsegs _ _ _ _ _ W)).
  apply (CL_frame m T P m' (fun i k => i = sid /\ addr <= k < addr + 0)); auto; try lia;
    try (intros q _ k _ [_ X]; lia).
Qed.

Lemma freshL_hinv m T P (L L' : Z -> Z) eo :
  hinv m T P -> incl eo T -> (forall i, 0 <= i -> L i <= L' i) -> freshL L' eo -> freshL L eo.
Proof.
  intros H I Hl F. apply (freshL_mono L L'); auto. intros h Hh.
  destruct (obj_bounds _ _ _ _ H (I h Hh)) as (B1 & _). lia.
Qed.

Lemma x_inline f w objs pads q src fc w' L0 N :
  tinv w objs pads -> In q ((0, 0) :: flat_map slots objs) -> CL (w_dst w) objs pads L0 N ->
  (p_valid src = false \/ p_kind src = KStruct /\ os_isZero (p_size src) = true \/
   p_kind src = KIface /\ 0 <= p_len src < 4294967296) ->
  write_ptr (S f) true w (fst q) (snd q) InDst src fc = Ok w' ->
  tinv w' objs pads /\ CL (w_dst w') objs pads L0 N.
Proof.
  intros [H C] Hq C0 Hsrc HW.
  destruct (write_ptr_inline f w q src fc w' Hsrc HW) as (v & Hv & EW).
  pose proof (hinv_write_inline (w_dst w) objs pads (w_dst w') q v H Hq Hv EW) as H'.
  destruct (write_inline_word (w_dst w) objs pads (w_dst w') q v H Hq Hv EW) as (Sq & K & Nn).
  split; [split; [exact H'|exact C]|].
  pose proof (CL_step (w_dst w) objs pads (w_dst w') q L0 N [] [] H Hq K ltac:(lia) C0) as X.
  rewrite !app_nil_r in X. apply X.
  - intros _. apply Sq.
  - intros s [].
Qed.

Lemma x_placed f w objs pads q src w' L0 N :
  tinv w objs pads -> In q ((0, 0) :: flat_map slots objs) -> CL (w_dst w) objs pads L0 N ->
  ~ (L0 (fst q) <= snd q) ->
  p_valid src = true -> In (core src) objs -> p_member src = false ->
  write_ptr (S f) true w (fst q) (snd q) InDst src false = Ok w' -> nsegs (w_dst w') < B32 ->
  exists ep, tinv w' objs (pads ++ ep) /\ CL (w_dst w') objs (pads ++ ep) L0 N.
Proof.
  intros [H C] Hq C0 Hna Hv Hin Hm HW Hb.
  destruct (write_ptr_hinv_gen f w objs pads q src false w' H Hq) as [pads' H']; auto.
  exists pads'. split; [split; [exact H'|exact C]|].
  destruct (slot_geometry _ _ _ _ H Hq) as (Q1 & _).
  assert (Vs : view objs src) by (right; left; split; auto).
  destruct (obj_bounds _ _ _ _ H Hin) as (B1 & _). cbn [core p_seg] in B1.
  assert (Sz : sz_ok src).
  { intros _. destruct (view_sz_seg _ _ _ _ H Vs Hv) as [[_ Es]|[Ek|[Wf _]]]; [rewrite Es; apply wf_size_00| |exact Wf].
    exfalso. destruct (core_facts src) as (_ & _ & _ & _ & _ & _ & C7).
    destruct (hi_good _ _ _ H _ Hin) as [_ (Sh & _)]. apply (proj1 C7) in Sh. unfold shape_ok in Sh. rewrite Ek in Sh. exact Sh. }
  destruct (frame_all true (S f)) as [FW _].
  destruct (FW true w (fst q) (snd q) InDst src false w' (hi_inv _ _ _ H) Q1 Sz (fun _ _ => B1) HW) as (K & _ & Nn & _).
  pose proof (CL_step (w_dst w) objs pads (w_dst w') q L0 N [] pads' H Hq K Nn C0) as X.
  rewrite !app_nil_r in X. apply X.
  - intros Ha. contradiction.
  - intros s [].
Qed.

(* ------------------------------------------------------------------ copyStruct *)
Lemma xs_step f : X_wp f -> X_cs (S f).
Proof.
  intros QW w objs pads dst src w' L0 N [H C] Vd Kd Vs Ks C0 LE HW Hb.
  unfold copy_struct in HW. cbn [copy_struct_gen] in HW.
  destruct (p_valid dst) eqn:Hvd; cbn [negb] in HW; [|discriminate].
  destruct (p_valid src) eqn:Hvs; cbn [negb] in HW.
  2:{ apply Ok_inj in HW. subst w'. apply x_none; [split; auto|exact C0]. }
  specialize (Kd eq_refl). specialize (Ks eq_refl).
  cbn [w_segs] in HW. rewrite !nth_bm_data in HW.
  destruct (struct_view_slots _ _ _ src H Vs Hvs Ks) as [Ns SrcSl].
  set (ns := PointerCount (p_size src)) in *. set (nd := PointerCount (p_size dst)) in *.
  destruct (slice (mem (w_dst w) (p_seg src)) (p_off src) (DataSize (p_size src))) as [sd| |] eqn:ESl; cbn [bind] in HW; try discriminate.
  destruct (struct_view_geom _ _ _ dst H Vd Hvd Kd) as [[E0d Sgd]|(hd & Hind & Esegd & D0d & P0d & Olod & Ohid & Hsepd & Hsld)].
  - (* the empty struct as destination: nothing is written *)
    assert (End : nd = 0) by (unfold nd; rewrite E0d; reflexivity).
    rewrite E0d in HW. cbn [DataSize] in HW.
    destruct (slice (mem (w_dst w) (p_seg dst)) (p_off dst) 0) as [dd| |] eqn:ESd; cbn [bind] in HW; try discriminate.
    apply slice_zero in ESd. subst dd. cbn [length] in HW. rewrite Nat.min_0_r in HW. cbn [firstn Nat.sub repeat app] in HW.
    unfold lift0 in HW.
    destruct (seg_write (w_dst w) (p_seg dst) (p_off dst) []) as [m1| |] eqn:EW; cbn [bind] in HW; try discriminate.
    apply seg_write_wrote in EW; [|lia|cbn; lia].
    rewrite End in HW. replace (Z.min ns 0) with 0 in HW by lia. change (Z.to_nat 0) with O in HW.
    change (iota 0) with (@nil Z) in HW. cbn [fold_res bind] in HW.
    replace (Z.to_nat (0 - ns)) with O in HW by lia. change (iota 0) with (@nil Z) in HW. cbn [map fold_res] in HW.
    apply Ok_inj in HW. subst w'. apply x_none.
    + split; [|exact C]. cbn [w_dst w_set_dst].
      apply (hinv_wrote_nil (w_dst w) objs pads m1 (p_seg dst) (p_off dst)); auto.
    + cbn [w_dst w_set_dst]. apply (CL_wrote_nil (w_dst w) objs pads m1 (p_seg dst) (p_off dst)); auto.
  - (* a destination with geometry *)
    destruct (obj_bounds _ _ _ _ H Hind) as (B1 & B2 & B3 & B4 & B5). rewrite Esegd in *.
    set (DSd := DataSize (p_size dst)) in *.
    assert (DstSl : forall j, 0 <= j < nd -> forall eo, In (p_seg dst, pointerAddress dst j) ((0, 0) :: flat_map slots (objs ++ eo))).
    { intros j Hj eo. apply slots_app. right. apply in_flat_map. exists hd. split; [exact Hind|].
      rewrite pointerAddress_eq by (unfold maxSegmentSize; fold DSd; lia). apply Hsld. exact Hj. }
    rewrite (slice_ok (mem (w_dst w) (p_seg dst)) (p_off dst) DSd) in HW by lia. cbn [bind] in HW.
    set (dd := sub (mem (w_dst w) (p_seg dst)) (p_off dst) DSd) in *.
    assert (Ldd : length dd = Z.to_nat DSd).
    { pose proof (sub_length (mem (w_dst w) (p_seg dst)) (p_off dst) DSd ltac:(lia) ltac:(lia) ltac:(lia)) as X. unfold zlen in X. fold dd in X. lia. }
    set (bs := firstn (Nat.min (length sd) (length dd)) sd ++ repeat 0 (length dd - Nat.min (length sd) (length dd))) in *.
    assert (Lb : zlen bs = DSd).
    { unfold bs, zlen. rewrite app_length, firstn_length, repeat_length. lia. }
    unfold lift0 in HW.
    destruct (seg_write (w_dst w) (p_seg dst) (p_off dst) bs) as [m1| |] eqn:EW; cbn [bind] in HW; try discriminate.
    apply seg_write_wrote in EW; [|lia|lia].
    assert (Hsl0 : forall x, In x (slots hd) -> p_off dst + zlen bs <= snd x \/ snd x + 8 <= p_off dst).
    { intros x Hx. apply (Hsepd x (p_off dst) (p_off dst + zlen bs)); auto; lia. }
    assert (H1 : hinv m1 objs pads).
    { apply (hinv_data_write (w_dst w) objs pads m1 hd (p_off dst) bs); auto; try lia.
      rewrite Esegd. exact EW. }
    assert (N1 : nsegs m1 = nsegs (w_dst w)) by (unfold nsegs; apply (wrote_nsegs _ _ _ _ _ EW)).
    assert (Kw : keeps (w_dst w) m1 (fun i k => i = p_seg dst /\ p_off dst <= k < p_off dst + zlen bs))
      by (apply (wrote_keeps _ _ _ _ _ EW); lia).
    assert (C1 : CL m1 objs pads L0 N).
    { destruct (data_range_avoids (w_dst w) objs pads hd (p_off dst) (p_off dst + zlen bs) H Hind) as (A1 & A2 & _); auto; try lia.
      rewrite Esegd in A1, A2.
      apply (CL_frame (w_dst w) objs pads m1 (fun i k => i = p_seg dst /\ p_off dst <= k < p_off dst + zlen bs) L0 N Kw); auto; lia. }
    set (w1 := w_set_dst w m1) in *.
    set (step1 := fun (wa : world) (j : Z) =>
           let '(r, rl') := readPtr true (bm_data (w_dst wa)) (w_rl wa InDst) (p_seg src)
                                    (nth (Z.to_nat (p_seg src)) (bm_data (w_dst wa)) []) (pointerAddress src j) (p_depth src) in
           do q <- r; write_ptr_gen true f true (w_set_rl wa InDst rl') (p_seg dst) (pointerAddress dst j) InDst q true) in *.
    set (step2 := fun (wa : world) (j : Z) => lift0 wa (writeRawPointer (w_dst wa) (p_seg dst) (pointerAddress dst j) 0)) in *.
    set (l1 := iota (Z.to_nat (Z.min ns nd))) in *. set (l2 := map (fun k => ns + k) (iota (Z.to_nat (nd - ns)))) in *.
    destruct (fold_res l1 w1 step1) as [w2| |] eqn:EL1; cbn [bind] in HW; try discriminate.
    set (I := fun wa : world => inv (w_dst wa) /\ 0 <= p_seg dst < nsegs (w_dst wa)).
    assert (I1 : I w1).
    { split; [exact (hi_inv _ _ _ H1)|]. unfold w1. cbn [w_dst w_set_dst]. lia. }
    (* frames of the two loops *)
    assert (Fm1' : forall wa j wb, I wa -> step1 wa j = Ok wb ->
               (I wb /\ nsegs (w_dst wa) <= nsegs (w_dst wb)) /\ keeps (w_dst wa) (w_dst wb) (Rword (p_seg dst) (pointerAddress dst j))).
    { intros wa j wb [Ia Ra] E. unfold step1 in E.
      destruct (readPtr _ _ _ _ _ _ _) as [r rl'] eqn:ER. destruct r as [qq| |]; cbn [bind] in E; try discriminate.
      destruct (frame_all true f) as [FW _].
      assert (G0 := FW true (w_set_rl wa InDst rl') (p_seg dst) (pointerAddress dst j) InDst qq true wb Ia Ra
                      (readPtr_size_wf _ _ _ _ _ _ _ _ _ ER) ltac:(discriminate) E).
      destruct G0 as (K0 & Ib & Nb & _). change (nsegs (w_dst (w_set_rl wa InDst rl'))) with (nsegs (w_dst wa)) in Nb.
      split; [split; [split; [exact Ib|lia]|exact Nb]|exact K0]. }
    assert (Fm1 : forall wa j wb, In j l1 -> I wa -> step1 wa j = Ok wb -> I wb /\ nsegs (w_dst wa) <= nsegs (w_dst wb)).
    { intros wa j wb _ Ia E. exact (proj1 (Fm1' wa j wb Ia E)). }
    assert (Fm2 : forall wa j wb, In j l2 -> I wa -> step2 wa j = Ok wb -> I wb /\ nsegs (w_dst wa) <= nsegs (w_dst wb)).
    { intros wa j wb _ [Ia Ra] E. unfold step2, lift0 in E.
      destruct (writeRawPointer (w_dst wa) (p_seg dst) (pointerAddress dst j) 0) as [mb| |] eqn:EWb; cbn [bind] in E; try discriminate.
      apply Ok_inj in E. subst wb. unfold I. cbn [w_dst w_set_dst].
      destruct (writeRawPointer_keeps _ _ _ _ _ (proj1 Ra) Ia EWb) as (_ & Ib & Nb & _). split; [split; [exact Ib|lia]|lia]. }
    destruct (fold_mono I l1 step1 Fm1 w1 w2 I1 EL1) as [I2 N12].
    destruct (fold_mono I l2 step2 Fm2 w2 w' I2 HW) as [_ N2'].
    set (Lw := lenf (w_dst w)).
    set (T := fun (wa : world) (eo : list Ptr) (ep : list region) =>
                tinv wa (objs ++ eo) (pads ++ ep) /\ CL (w_dst wa) (objs ++ eo) (pads ++ ep) L0 (N ++ eo) /\
                freshL Lw eo /\ le_len Lw (w_dst wa)).
    assert (TI : forall wa eo ep, T wa eo ep -> I wa).
    { intros wa eo ep [[Ha _] _]. split; [exact (hi_inv _ _ _ Ha)|].
      destruct (obj_bounds _ _ _ _ Ha (in_or_app _ _ _ (or_introl Hind))) as (X & _). rewrite Esegd in X. exact X. }
    (* the pointer loop threads the tables *)
    destruct (fold_threadX I T l1 step1 Fm1 TI) with (wa := w1) (eo := @nil Ptr) (ep := @nil region) (w2 := w2)
      as (eo1 & ep1 & T2); auto; try lia.
    { intros wa eo ep j wb Hj Ta E Hbb. pose proof Ta as [[Ha Ca] [CLa [Fa La]]].
      destruct (Fm1' wa j wb (TI _ _ _ Ta) E) as [_ Kab].
      unfold step1 in E. apply in_iota in Hj.
      destruct (readPtr _ _ _ _ _ _ _) as [r rl'] eqn:ER. destruct r as [qq| |]; cbn [bind] in E; try discriminate.
      destruct (SrcSl j ltac:(lia)) as [Sg0 Sin].
      assert (Vq : view (objs ++ eo) qq).
      { apply (view_of_read (w_dst wa) (objs ++ eo) (pads ++ ep) (p_seg src, pointerAddress src j) (p_depth src)); auto; [cbn [fst]; lia|].
        apply (read_slot true (w_dst wa) (objs ++ eo) (pads ++ ep) (p_seg src, pointerAddress src j) (w_rl wa InDst) (p_depth src) qq rl'); auto.
        apply slots_app. exact Sin. }
      assert (LEa : le_len L0 (w_dst wa)).
      { intros i Hi. specialize (LE i Hi). specialize (La i Hi). unfold Lw, lenf in La. lia. }
      destruct (QW (w_set_rl wa InDst rl') (objs ++ eo) (pads ++ ep) (p_seg dst, pointerAddress dst j) qq true wb L0 (N ++ eo))
        as (eo' & ep' & T' & CL' & F'); auto.
      - apply tinv_set_rl. split; auto.
      - apply DstSl. lia.
      - exists eo', ep'. rewrite <- !app_assoc in T'. rewrite <- !app_assoc in CL'. destruct T' as [Hb' Cb'].
        split; [split; [exact Hb'|exact Cb']|]. split; [exact CL'|].
        assert (Lab : forall i, 0 <= i -> zlen (mem (w_dst wa) i) <= zlen (mem (w_dst wb) i)) by (intros i Hi; apply (proj1 Kab i Hi)).
        split.
        + apply freshL_app; [exact Fa|].
          apply (freshL_hinv (w_dst wb) (objs ++ eo ++ eo') (pads ++ ep ++ ep') Lw (lenf (w_dst wa))); auto.
          * intros x Hx. apply in_or_app. right. apply in_or_app. right. exact Hx.
        + intros i Hi. specialize (La i Hi). specialize (Lab i Hi). lia. }
    { unfold T. rewrite !app_nil_r. split; [split; [exact H1|exact C]|]. split; [exact C1|]. split; [intros h []|].
      intros i Hi. unfold Lw, lenf, w1. cbn [w_dst w_set_dst]. apply (proj1 Kw i Hi). }
    cbn [app] in T2.
    (* the tail of the destination's pointer section is set to null *)
    exists eo1, ep1.
    assert (T3 : T w' eo1 ep1).
    { apply (fold_res_inv (fun wa => T wa eo1 ep1) l2 step2 w2 w'); auto.
      intros j wa wb Hj [[Ha Ca] [CLa [Fa La]]] E. unfold step2, lift0 in E.
      destruct (writeRawPointer (w_dst wa) (p_seg dst) (pointerAddress dst j) 0) as [mb| |] eqn:EWb; cbn [bind] in E; try discriminate.
      apply Ok_inj in E. subst wb. cbn [w_dst w_set_dst].
      unfold l2 in Hj. apply in_map_iff in Hj. destruct Hj as (k & <- & Hk). apply in_iota in Hk.
      assert (Hsq : In (p_seg dst, pointerAddress dst (ns + k)) ((0, 0) :: flat_map slots (objs ++ eo1))) by (apply DstSl; lia).
      pose proof (hinv_write_inline (w_dst wa) (objs ++ eo1) (pads ++ ep1) mb (p_seg dst, pointerAddress dst (ns + k)) 0 Ha Hsq (or_introl eq_refl) EWb) as Hb'.
      destruct (write_inline_word (w_dst wa) (objs ++ eo1) (pads ++ ep1) mb (p_seg dst, pointerAddress dst (ns + k)) 0 Ha Hsq (or_introl eq_refl) EWb) as (Sq & Kq & Nq).
      split; [split; [exact Hb'|exact Ca]|]. split; [|split; [exact Fa|]].
      - pose proof (CL_step (w_dst wa) (objs ++ eo1) (pads ++ ep1) mb (p_seg dst, pointerAddress dst (ns + k)) L0 (N ++ eo1) [] [] Ha Hsq Kq ltac:(lia) CLa) as X.
        rewrite !app_nil_r in X. apply X; [intros _; apply Sq|intros s []].
      - intros i Hi. eapply Z.le_trans; [apply (La i Hi)|apply (proj1 Kq i Hi)]. }
    destruct T3 as [T3 [C3 [F3 _]]]. split; [exact T3|]. split; [exact C3|exact F3].
Qed.

(* ------------------------------------------------------------------ writePtr: the struct copy *)
Lemma xstruct_copy f : X_cs f -> forall w objs pads q src fc w' L0 N,
  tinv w objs pads -> In q ((0, 0) :: flat_map slots objs) -> view objs src ->
  p_valid src = true -> p_kind src = KStruct -> os_isZero (p_size src) = false ->
  fc || p_member src = true ->
  CL (w_dst w) objs pads L0 N -> le_len L0 (w_dst w) ->
  write_ptr (S f) true w (fst q) (snd q) InDst src fc = Ok w' -> nsegs (w_dst w') < B32 ->
  exists h eo ep, tinv w' (objs ++ h :: eo) (pads ++ ep) /\ fresh_target w w' q h /\
    CL (w_dst w') (objs ++ h :: eo) (pads ++ ep) L0 (N ++ h :: eo) /\ freshL (lenf (w_dst w)) (h :: eo) /\
    slot_ok (bm_data (w_dst w')) (pads ++ ep) [h] q.
Proof.
  intros QC w objs pads q src fc w' L0 N [H C] Hq Vs Hv Ek EZ Hcp C0 LE HW Hb. unfold B32 in *.
  pose proof (struct_wf _ _ _ src H Vs Hv Ek) as [Wd Wp].
  destruct (slot_geometry _ _ _ _ H Hq) as (Q1 & Q2 & Q3 & Q4 & _).
  set (DS := DataSize (p_size src)) in *. set (pc := PointerCount (p_size src)) in *.
  unfold write_ptr in HW. cbn [write_ptr_gen] in HW. rewrite Hv, Ek, EZ in HW. cbn [negb is_src] in HW.
  assert (Ecp : fc || false || p_member src = true) by (destruct fc, (p_member src); auto).
  rewrite Ecp in HW. cbn [bind] in HW. fold DS pc in HW.
  set (csz := mkOS (padToWord DS) pc) in *.
  assert (PW : padToWord DS mod 8 = 0 /\ DS <= padToWord DS <= DS + 7) by (unfold padToWord, u32; lia).
  assert (TS : totalSize csz = padToWord DS + 8 * pc) by (unfold totalSize, pointerSize, u32, csz; cbn [DataSize PointerCount]; lia).
  rewrite TS in HW.
  destruct (alloc (w_dst w) (fst q) (padToWord DS + 8 * pc)) as [[[m1 nsid] naddr]| |] eqn:EA; cbn [bind] in HW; try discriminate.
  set (dstp := mkPtr true nsid naddr 0 csz maxDepth KStruct false false false) in *.
  destruct (copy_struct_gen true f true (w_set_dst w m1) dstp InDst src) as [w2| |] eqn:EC; cbn [bind] in HW; try discriminate.
  unfold dstp in HW. cbn [p_size p_seg p_off] in HW. fold dstp in HW.
  destruct (of_opt_panic (rawStructPointer 0 csz)) as [raw| |] eqn:ER; cbn [bind] in HW; try discriminate.
  assert (Hz : 0 <= padToWord DS + 8 * pc) by lia.
  pose proof (hi_inv _ _ _ H) as Hinv.
  destruct (alloc_keeps _ _ _ _ _ _ Hinv Q1 Hz EA) as (K1 & I1 & N1 & S1 & AD & L1 & _ & _ & _ & MX).
  unfold maxSegmentSize in MX. pose proof (zlen_nonneg (mem (w_dst w) nsid)) as Z0.
  destruct (frame_all true f) as [_ FC].
  assert (Wc : wf_size csz) by (unfold wf_size, csz; cbn [DataSize PointerCount]; lia).
  assert (Ho : 0 <= p_off dstp <= 4294967295).
  { unfold dstp. cbn [p_off]. pose proof (padToWord_nonneg (padToWord DS + 8 * pc)). lia. }
  assert (G2 := FC true (w_set_dst w m1) dstp InDst src w2 I1 S1 Wc Ho (fun _ => conj Wd Wp) EC).
  destruct G2 as (_ & I2 & N2 & _). cbn [w_dst w_set_dst] in N2.
  destruct (place_keeps w2 (fst q) (snd q) nsid naddr raw w' I2 ltac:(lia) ltac:(lia) HW) as (_ & _ & N3 & _).
  (* the copy joins the table *)
  assert (H1 : hinv m1 (objs ++ [core dstp]) pads).
  { apply (hinv_alloc_obj (w_dst w) objs pads (fst q) (padToWord DS + 8 * pc) m1 nsid naddr (core dstp)); auto; try reflexivity; try lia.
    all: unfold shape_ok, obj_bytes, core, dstp, os_wf; cbn [p_kind p_size p_comp p_len p_bit]; try exact TS; try discriminate.
    all: try (unfold csz; cbn [DataSize PointerCount]; split; [lia|]; split; [reflexivity|]; split; reflexivity). }
  assert (Z1 : forall s, In s (slots (core dstp)) -> word_at (bm_data m1) (fst s) (snd s) = Some 0).
  { apply (alloc_obj_null (w_dst w) objs pads (fst q) (padToWord DS + 8 * pc) m1 nsid naddr (core dstp)); auto; try reflexivity; try lia.
    all: unfold shape_ok, obj_bytes, core, dstp, os_wf; cbn [p_kind p_size p_comp p_len p_bit]; try exact TS; try discriminate.
    all: try (unfold csz; cbn [DataSize PointerCount]; split; [lia|]; split; [reflexivity|]; split; reflexivity). }
  assert (C1 : CL m1 (objs ++ [core dstp]) pads L0 (N ++ [core dstp])) by (apply (CL_add_obj (w_dst w)); auto).
  assert (Lm1 : forall i, 0 <= i -> zlen (mem (w_dst w) i) <= zlen (mem m1 i)) by (intros i Hi; apply (proj1 K1); exact Hi).
  assert (T2 : exists eo ep, tinv w2 ((objs ++ [core dstp]) ++ eo) (pads ++ ep) /\
                 CL (w_dst w2) ((objs ++ [core dstp]) ++ eo) (pads ++ ep) L0 ((N ++ [core dstp]) ++ eo) /\ freshL (lenf m1) eo).
  { apply (QC (w_set_dst w m1) (objs ++ [core dstp]) pads dstp src w2 L0 (N ++ [core dstp])); auto; unfold B32; try lia.
    - split; [exact H1|apply cores_snoc; exact C].
    - right. left. split; [reflexivity|]. apply in_or_app. right. left. reflexivity.
    - apply view_app. exact Vs.
    - intros i Hi. cbn [w_dst w_set_dst]. specialize (LE i Hi). specialize (Lm1 i Hi). lia. }
  destruct T2 as (eo & ep & [H2 C2] & CL2 & F2).
  (* the pointer to the copy *)
  assert (Hq2 : In q ((0, 0) :: flat_map slots ((objs ++ [core dstp]) ++ eo))) by (apply slots_app, slots_app; exact Hq).
  assert (Hd2 : In (core dstp) ((objs ++ [core dstp]) ++ eo)).
  { apply in_or_app. left. apply in_or_app. right. left. reflexivity. }
  assert (Hnz : p_kind (core dstp) = KStruct -> os_isZero (p_size (core dstp)) = false).
  { unfold core, dstp; cbn [p_size]; intros _; unfold os_isZero, csz in *; cbn [DataSize PointerCount]; fold DS pc in EZ; lia. }
  assert (Hraw : raw_of (core dstp) = Ok raw) by (unfold raw_of, core, dstp; cbn [p_kind p_size]; exact ER).
  destruct (hinv_place_full (w_dst w2) ((objs ++ [core dstp]) ++ eo) (pads ++ ep) w2 q (core dstp) raw w') as (pads' & H' & Rs' & Kp & _ & Pl);
    auto; try lia.
  assert (Sh : slot_ok (bm_data (w_dst w')) pads' [core dstp] q).
  { right. right. left. exists (core dstp), pads', raw, (fun i => zlen (mem (w_dst w2) i)).
    split; [left; reflexivity|]. split; [apply incl_refl|]. split; [exact Hraw|]. split; [exact Hnz|exact Pl]. }
  pose proof (CL_step (w_dst w2) ((objs ++ [core dstp]) ++ eo) (pads ++ ep) (w_dst w') q L0 ((N ++ [core dstp]) ++ eo) [] pads' H2 Hq2 Kp N3 CL2) as X.
  rewrite !app_nil_r in X.
  exists (core dstp), eo, (ep ++ pads').
  change (core dstp :: eo) with ([core dstp] ++ eo). rewrite !app_assoc.
  split; [split; [exact H'|exact C2]|]. split.
  { split; [|exists pads'; exact Rs']. unfold obj_start, core, dstp. cbn [p_comp p_off p_seg]. exact AD. }
  split.
  { apply X; [|intros s []]. intros _. apply (slot_ok_weaken _ pads' [core dstp]); auto.
    - intros x Hx. apply in_or_app. right. exact Hx.
    - intros x [<-|[]]. apply in_or_app. left. apply in_or_app. right. left. reflexivity. }
  split.
  { apply freshL_app.
    - intros h [<-|[]]. unfold lenf, obj_start, core, dstp. cbn [p_comp p_off p_seg]. lia.
    - apply (freshL_hinv (w_dst w2) ((objs ++ [core dstp]) ++ eo) (pads ++ ep) (lenf (w_dst w)) (lenf m1)); auto.
      intros x Hx. apply in_or_app. right. exact Hx. }
  apply (slot_ok_weaken _ pads' [core dstp]); auto.
  - intros x Hx. apply in_or_app. right. exact Hx.
  - apply incl_refl.
Qed.

(* ------------------------------------------------------------------ writePtr: the list copy *)
Lemma xlist_copy f : X_cs f -> forall w objs pads q src w' L0 N,
  tinv w objs pads -> In q ((0, 0) :: flat_map slots objs) ->
  p_valid src = true -> p_kind src = KList -> In (core src) objs ->
  CL (w_dst w) objs pads L0 N -> le_len L0 (w_dst w) ->
  write_ptr (S f) true w (fst q) (snd q) InDst src true = Ok w' -> nsegs (w_dst w') < B32 ->
  exists h eo ep, tinv w' (objs ++ h :: eo) (pads ++ ep) /\ fresh_target w w' q h /\
    CL (w_dst w') (objs ++ h :: eo) (pads ++ ep) L0 (N ++ h :: eo) /\ freshL (lenf (w_dst w)) (h :: eo) /\
    slot_ok (bm_data (w_dst w')) (pads ++ ep) [h] q.
Proof.
  intros QC w objs pads q src w' L0 N [H C] Hq Hv Ek Hin C0 LE HW Hb. unfold B32 in *.
  destruct (core_facts src) as (C1 & C2 & C3 & C4 & C5 & C6 & C7).
  destruct (list_obj_facts _ _ _ _ H Hin ltac:(cbn [core p_kind]; exact Ek)) as (Sz & Wf & Fc & Fs).
  rewrite C6 in Sz, Fc. cbn [core p_comp p_len p_off p_size p_bit] in Wf, Fc, Fs. rewrite C3 in Fs.
  change (wc_of (core src)) with (wc_of src) in Fc.
  assert (OB : obj_bytes src = list_allocSize src) by (unfold obj_bytes; now rewrite Ek).
  rewrite OB in Sz, Fc. set (sz := list_allocSize src) in *.
  destruct (hi_good _ _ _ H _ Hin) as [_ Gd]. pose proof Gd as (Sh & _ & Gi & _). apply (proj1 C7) in Sh.
  pose proof (hi_tags _ _ _ H _ Hin) as Tg.
  destruct (obj_bounds _ _ _ _ H Hin) as (B1 & B2 & B3 & B4 & B5). rewrite C5 in B2, B3, B4. rewrite C1 in B4. cbn [core p_seg p_off] in B1, B3, B4, B5.
  assert (RS : r_size (obj_reg src) = padToWord sz) by (unfold obj_reg; cbn [r_size]; now rewrite OB).
  rewrite RS in B4.
  destruct (slot_geometry _ _ _ _ H Hq) as (Q1 & Q2 & Q3 & Q4 & _).
  pose proof (hi_inv _ _ _ H) as Hinv.
  unfold write_ptr in HW. cbn [write_ptr_gen] in HW. rewrite Hv, Ek in HW. cbn [negb orb bind] in HW. fold sz in HW.
  destruct (alloc (w_dst w) (fst q) sz) as [[[m1 nsid] naddr]| |] eqn:EA; cbn [bind] in HW; try discriminate.
  destruct (alloc_keeps _ _ _ _ _ _ Hinv Q1 (proj1 Sz) EA) as (K1 & I1 & N1 & S1 & AD & L1 & _ & _ & _ & MX).
  unfold maxSegmentSize in MX. pose proof (zlen_nonneg (mem (w_dst w) nsid)) as Z0.
  pose proof (padToWord_nonneg sz) as PZ.
  set (dl0 := fun (cb : bool) (doff : Z) => mkPtr true nsid doff (p_len src) (p_size src) maxDepth KList cb (p_bit src) false).
  set (I := fun wa : world => inv (w_dst wa) /\ 0 <= nsid < nsegs (w_dst wa)).
  (* what follows the creation of the new list object *)
  assert (Tail : forall cb w2 doff sz' w3, cb = p_comp src -> let dl := dl0 cb in
     (nsegs (w_dst w2) < 4294967296 -> tinv w2 (objs ++ [core (dl doff)]) pads) ->
     (nsegs (w_dst w2) < 4294967296 -> CL (w_dst w2) (objs ++ [core (dl doff)]) pads L0 (N ++ [core (dl doff)])) ->
     I w2 -> nsegs (w_dst w) <= nsegs (w_dst w2) ->
     (forall i, 0 <= i -> zlen (mem (w_dst w) i) <= zlen (mem (w_dst w2) i)) ->
     0 <= sz' -> doff + sz' <= obj_start (dl doff) + padToWord sz -> p_off src + sz' <= zlen (mem (w_dst w) (p_seg src)) ->
     obj_start (dl doff) = naddr -> obj_start (dl doff) <= doff -> 0 <= doff <= 4294967288 ->
     (if p_bit src || (PointerCount (p_size src) =? 0)
      then copy_bytes w2 InDst (p_seg src) (p_off src) nsid doff sz'
      else fold_res (iota (Z.to_nat (list_len src))) w2
             (fun wa i => do de <- list_struct true (dl doff) i; do se <- list_struct true src i;
                          copy_struct_gen true f true wa de InDst se)) = Ok w3 ->
     (do raw <- list_raw (dl doff); place w3 (fst q) (snd q) nsid naddr raw) = Ok w' ->
     exists h eo ep, tinv w' (objs ++ h :: eo) (pads ++ ep) /\ fresh_target w w' q h /\
       CL (w_dst w') (objs ++ h :: eo) (pads ++ ep) L0 (N ++ h :: eo) /\ freshL (lenf (w_dst w)) (h :: eo) /\
       slot_ok (bm_data (w_dst w')) (pads ++ ep) [h] q).
  { intros cb w2 doff sz' w3 Ecb dl T2 CLp0 I2 N02 Lm Hs0 Hrd Hrs Eos Hod Hdo E3 EP. subst cb.
    set (cd := core (dl doff)) in *.
    set (estep := fun (wa : world) (i : Z) => do de <- list_struct true (dl doff) i; do se <- list_struct true src i;
                                               copy_struct_gen true f true wa de InDst se) in *.
    destruct (list_raw (dl doff)) as [raw| |] eqn:ER; cbn [bind] in EP; try discriminate.
    (* frame of one element step *)
    assert (Fe' : forall wa i wb, I wa -> estep wa i = Ok wb ->
              (I wb /\ nsegs (w_dst wa) <= nsegs (w_dst wb)) /\ forall k, 0 <= k -> zlen (mem (w_dst wa) k) <= zlen (mem (w_dst wb) k)).
    { intros wa i wb [Ia Ra] E. unfold estep in E.
      destruct (list_struct true (dl doff) i) as [de| |] eqn:ED; cbn [bind] in E; try discriminate.
      destruct (list_struct true src i) as [se| |] eqn:ESe; cbn [bind] in E; try discriminate.
      destruct (p_valid de) eqn:Vde.
      2:{ destruct f; cbn [copy_struct_gen] in E; [discriminate|]. rewrite Vde in E. discriminate. }
      destruct (list_struct_facts _ _ _ ED Vde) as (F1 & F2 & F3 & _). unfold dl, dl0 in F1, F2, F3. cbn [p_seg p_size p_off] in F1, F2, F3.
      destruct (frame_all true f) as [_ FC].
      assert (Wde : wf_size (p_size de)) by (rewrite F2; exact Wf).
      assert (Rde : 0 <= p_seg de < nsegs (w_dst wa)) by (rewrite F1; exact Ra).
      assert (Ode : 0 <= p_off de <= 4294967295) by lia.
      assert (Sse : sz_ok se).
      { intros Vse. destruct (list_struct_facts _ _ _ ESe Vse) as (_ & X & _). rewrite X. exact Wf. }
      destruct (FC true wa de InDst se wb Ia Rde Wde Ode Sse E) as (Kab & Ib & Nb & _).
      split; [split; [split; [exact Ib|lia]|exact Nb]|]. intros k Hk. apply (proj1 Kab k Hk). }
    assert (Fe : forall wa i wb, In i (iota (Z.to_nat (list_len src))) -> I wa -> estep wa i = Ok wb -> I wb /\ nsegs (w_dst wa) <= nsegs (w_dst wb)).
    { intros wa i wb _ Ia E. exact (proj1 (Fe' wa i wb Ia E)). }
    (* frame of the middle part, then the bounds *)
    assert (M3 : I w3 /\ nsegs (w_dst w2) <= nsegs (w_dst w3)).
    { destruct (p_bit src || (PointerCount (p_size src) =? 0)) eqn:EBP.
      - unfold copy_bytes in E3. destruct (slice _ _ _) as [b| |] eqn:ES; cbn [bind] in E3; try discriminate.
        unfold lift0 in E3. destruct (seg_write (w_dst w2) nsid doff b) as [m3| |] eqn:EW; cbn [bind] in E3; try discriminate.
        apply Ok_inj in E3. subst w3. destruct I2 as [Ia Ra].
        apply seg_write_wrote in EW; [|lia|apply (slice_len _ _ _ _ ES)].
        assert (Nm3 : nsegs m3 = nsegs (w_dst w2)) by (unfold nsegs; apply (wrote_nsegs _ _ _ _ _ EW)).
        unfold I. cbn [w_dst w_set_dst]. split; [split; [apply (wrote_inv _ _ _ _ _ EW); [lia|exact Ia]|lia]|lia].
      - apply (fold_mono I (iota (Z.to_nat (list_len src))) estep) with (wa := w2); auto. }
    destruct M3 as [[I3 R3] N23].
    destruct (place_keeps w3 (fst q) (snd q) nsid naddr raw w' I3 ltac:(lia) R3 EP) as (_ & _ & N3' & _).
    destruct (T2 ltac:(lia)) as [H2 Cc2].
    assert (CLp := CLp0 ltac:(lia)).
    assert (Hcd : In cd (objs ++ [cd])) by (apply in_or_app; right; left; reflexivity).
    assert (ROcd : r_size (obj_reg cd) = padToWord sz).
    { unfold obj_reg, obj_bytes, cd, core, dl, dl0. cbn [r_size p_kind]. unfold list_allocSize. cbn [p_valid p_bit p_size p_len p_comp negb].
      unfold sz, list_allocSize. rewrite Hv. reflexivity. }
    (* data or elements *)
    assert (T3 : exists eo ep, tinv w3 ((objs ++ [cd]) ++ eo) (pads ++ ep) /\
                   CL (w_dst w3) ((objs ++ [cd]) ++ eo) (pads ++ ep) L0 ((N ++ [cd]) ++ eo) /\ freshL (lenf (w_dst w2)) eo).
    { destruct (p_bit src || (PointerCount (p_size src) =? 0)) eqn:EBP.
      - unfold copy_bytes in E3. cbn [w_segs] in E3. rewrite nth_bm_data in E3.
        pose proof (hi_small _ _ _ H2 (p_seg src)) as SmS. unfold maxSegmentSize in SmS.
        pose proof (Lm (p_seg src) ltac:(lia)) as LmS.
        rewrite (slice_ok (mem (w_dst w2) (p_seg src)) (p_off src) sz') in E3 by lia. cbn [bind] in E3.
        set (b := sub (mem (w_dst w2) (p_seg src)) (p_off src) sz') in *.
        assert (Lb : zlen b = sz') by (apply sub_length; lia).
        unfold lift0 in E3. destruct (seg_write (w_dst w2) nsid doff b) as [m3| |] eqn:EW; cbn [bind] in E3; try discriminate.
        apply Ok_inj in E3. subst w3. apply seg_write_wrote in EW; [|lia|lia].
        assert (SN : slots cd = []).
        { destruct (list_obj_facts _ _ _ _ H2 Hcd eq_refl) as (_ & _ & _ & X). apply X.
          unfold cd, core, dl, dl0. cbn [p_bit p_size]. destruct (p_bit src); [left; reflexivity|right]. cbn [orb] in EBP. lia. }
        assert (Pcd : p_seg cd = nsid) by reflexivity.
        assert (Ocd : p_off cd = doff) by reflexivity.
        apply x_none.
        + split; [|exact Cc2]. cbn [w_dst w_set_dst].
          apply (hinv_data_write (w_dst w2) (objs ++ [cd]) pads m3 cd doff b); auto.
          * rewrite Pcd. lia.
          * rewrite Ocd. lia.
          * rewrite Lb, ROcd. exact Hrd.
          * intros x Hx. rewrite SN in Hx. destruct Hx.
        + cbn [w_dst w_set_dst].
          assert (Kw : keeps (w_dst w2) m3 (fun i k => i = p_seg cd /\ doff <= k < doff + zlen b))
            by (apply (wrote_keeps _ _ _ _ _ EW); lia).
          destruct (data_range_avoids (w_dst w2) (objs ++ [cd]) pads cd doff (doff + zlen b) H2 Hcd) as (A1 & A2 & _).
          * rewrite Ocd. lia.
          * rewrite Lb, ROcd. exact Hrd.
          * intros x Hx. rewrite SN in Hx. destruct Hx.
          * apply (CL_frame (w_dst w2) (objs ++ [cd]) pads m3 (fun i k => i = p_seg cd /\ doff <= k < doff + zlen b) L0 (N ++ [cd]) Kw); auto.
            all: try (unfold nsegs; rewrite (wrote_nsegs _ _ _ _ _ EW); lia).
      - (* the elements are copied one by one *)
        set (T := fun (wa : world) (eo : list Ptr) (ep : list region) =>
                    tinv wa ((objs ++ [cd]) ++ eo) (pads ++ ep) /\
                    CL (w_dst wa) ((objs ++ [cd]) ++ eo) (pads ++ ep) L0 ((N ++ [cd]) ++ eo) /\
                    freshL (lenf (w_dst w2)) eo /\ le_len (lenf (w_dst w2)) (w_dst wa)).
        assert (TI : forall wa eo ep, T wa eo ep -> I wa).
        { intros wa eo ep [[Ha _] _]. split; [exact (hi_inv _ _ _ Ha)|].
          destruct (obj_bounds _ _ _ _ Ha (in_or_app _ _ _ (or_introl Hcd))) as (X & _). unfold cd, core, dl, dl0 in X. cbn [p_seg] in X. exact X. }
        destruct (fold_threadX I T (iota (Z.to_nat (list_len src))) estep Fe TI)
          with (wa := w2) (eo := @nil Ptr) (ep := @nil region) (w2 := w3) as (eo1 & ep1 & T3); auto; try lia.
        + intros wa eo ep i wb _ Ta E Hbb. pose proof Ta as [[Ha Ca] [CLa [Fa La]]].
          destruct (Fe' wa i wb (TI _ _ _ Ta) E) as [_ Lab].
          unfold estep in E.
          destruct (list_struct true (dl doff) i) as [de| |] eqn:ED; cbn [bind] in E; try discriminate.
          destruct (list_struct true src i) as [se| |] eqn:ESe; cbn [bind] in E; try discriminate.
          destruct (list_struct_view ((objs ++ [cd]) ++ eo) (dl doff) i de) as [Vde Kde]; auto.
          { apply in_or_app. left. exact Hcd. }
          destruct (list_struct_view ((objs ++ [cd]) ++ eo) src i se) as [Vse Kse]; auto.
          { apply in_or_app. left. apply in_or_app. left. exact Hin. }
          assert (LEa : le_len L0 (w_dst wa)).
          { intros k Hk. specialize (LE k Hk). specialize (Lm k Hk). specialize (La k Hk). unfold lenf in La. lia. }
          destruct (QC wa ((objs ++ [cd]) ++ eo) (pads ++ ep) de se wb L0 ((N ++ [cd]) ++ eo)) as (eo' & ep' & T' & CL' & F'); auto.
          * split; auto.
          * intros X. apply Kde. exact X.
          * intros X. apply Kse. exact X.
          * exists eo', ep'. rewrite <- !app_assoc in T'. rewrite <- !app_assoc in CL'. destruct T' as [Hb' Cb'].
            unfold T. rewrite <- !app_assoc.
            split; [split; [exact Hb'|exact Cb']|]. split; [exact CL'|]. split.
            -- apply freshL_app; [exact Fa|].
               apply (freshL_hinv (w_dst wb) (objs ++ [cd] ++ eo ++ eo') (pads ++ ep ++ ep') (lenf (w_dst w2)) (lenf (w_dst wa))); auto.
               intros x Hx. apply in_or_app. right. apply in_or_app. right. apply in_or_app. right. exact Hx.
            -- intros k Hk. eapply Z.le_trans; [apply (La k Hk)|apply (Lab k Hk)].
        + unfold T. rewrite !app_nil_r. split; [split; auto|]. split; [exact CLp|]. split; [intros h []|].
          intros k Hk. unfold lenf. lia.
        + unfold B32. lia.
        + cbn [app] in T3. exists eo1, ep1. destruct T3 as [T3 [CT3 [F3 _]]]. split; [exact T3|]. split; [exact CT3|exact F3]. }
    destruct T3 as (eo & ep & [H3 Cc3] & CL3 & F3).
    (* the pointer to the new list *)
    assert (Hq3 : In q ((0, 0) :: flat_map slots ((objs ++ [cd]) ++ eo))) by (apply slots_app, slots_app; exact Hq).
    assert (Hcd3 : In cd ((objs ++ [cd]) ++ eo)) by (apply in_or_app; left; exact Hcd).
    assert (Hnz : p_kind cd = KStruct -> os_isZero (p_size cd) = false) by (unfold cd, core, dl, dl0; cbn [p_kind]; discriminate).
    assert (Hraw : raw_of cd = Ok raw) by (unfold raw_of, cd, core, dl, dl0; cbn [p_kind]; exact ER).
    assert (EP' : place w3 (fst q) (snd q) (p_seg cd) (obj_start cd) raw = Ok w').
    { change (obj_start cd) with (obj_start (dl doff)). rewrite Eos. unfold cd, core, dl, dl0. cbn [p_seg]. exact EP. }
    destruct (hinv_place_full (w_dst w3) ((objs ++ [cd]) ++ eo) (pads ++ ep) w3 q cd raw w') as (pads' & H' & Rs' & Kp & _ & Pl); auto; try lia.
    assert (Shq : slot_ok (bm_data (w_dst w')) pads' [cd] q).
    { right. right. left. exists cd, pads', raw, (fun i => zlen (mem (w_dst w3) i)).
      split; [left; reflexivity|]. split; [apply incl_refl|]. split; [exact Hraw|]. split; [exact Hnz|exact Pl]. }
    pose proof (CL_step (w_dst w3) ((objs ++ [cd]) ++ eo) (pads ++ ep) (w_dst w') q L0 ((N ++ [cd]) ++ eo) [] pads' H3 Hq3 Kp N3' CL3) as X.
    rewrite !app_nil_r in X.
    exists cd, eo, (ep ++ pads').
    change (cd :: eo) with ([cd] ++ eo). rewrite !app_assoc.
    split; [split; [exact H'|exact Cc3]|]. split.
    { split; [|exists pads'; exact Rs']. change (obj_start cd) with (obj_start (dl doff)). rewrite Eos.
      unfold cd, core, dl, dl0. cbn [p_seg]. exact AD. }
    split.
    { apply X; [|intros s []]. intros _. apply (slot_ok_weaken _ pads' [cd]); auto.
      - intros x Hx. apply in_or_app. right. exact Hx.
      - intros x [<-|[]]. apply in_or_app. left. apply in_or_app. right. left. reflexivity. }
    split.
    { apply freshL_app.
      - intros h [<-|[]]. change (obj_start cd) with (obj_start (dl doff)). rewrite Eos. unfold lenf, cd, core, dl, dl0. cbn [p_seg]. lia.
      - apply (freshL_hinv (w_dst w3) ((objs ++ [cd]) ++ eo) (pads ++ ep) (lenf (w_dst w)) (lenf (w_dst w2))); auto.
        intros x Hx. apply in_or_app. right. exact Hx. }
    apply (slot_ok_weaken _ pads' [cd]); auto.
    - intros x Hx. apply in_or_app. right. exact Hx.
    - apply incl_refl. }
  assert (PS : sz <= padToWord sz <= sz + 7) by (unfold padToWord, u32; lia).
  assert (ShD : forall doff, shape_ok (core (dl0 (p_comp src) doff))).
  { intros doff. unfold shape_ok in *. unfold core, dl0. cbn [p_kind p_len p_comp p_bit p_size]. rewrite Ek in Sh.
    unfold wc_of in *. cbn [p_size]. exact Sh. }
  assert (ObD : forall doff, obj_bytes (core (dl0 (p_comp src) doff)) = sz).
  { intros doff. unfold obj_bytes, core, dl0. cbn [p_kind]. unfold sz, list_allocSize. cbn [p_valid p_bit p_size p_len p_comp negb].
    rewrite Hv. reflexivity. }
  assert (Lm1 : forall i, 0 <= i -> zlen (mem (w_dst w) i) <= zlen (mem m1 i)) by (intros i Hi; apply (proj1 K1); exact Hi).
  cbn [w_segs w_dst w_set_dst] in HW. rewrite nth_bm_data in HW.
  destruct (p_comp src) eqn:Hc.
  - (* composite list: the tag word is copied first *)
    destruct (Fc eq_refl) as (Esz & K0 & Hoff8).
    destruct (Tg Ek Hc) as (tag & Etag & Wtag). cbn [core p_len p_size p_seg p_off] in Etag, Wtag.
    assert (OS : obj_start src = p_off src - 8) by (unfold obj_start; now rewrite Hc).
    rewrite OS in B2, B3, B4.
    assert (U8 : u32 (p_off src - 8) = p_off src - 8) by (unfold u32; lia). rewrite U8 in HW.
    assert (RT : readRawPointer (mem m1 (p_seg src)) (p_off src - 8) = Ok tag).
    { rewrite <- nth_bm_data. apply read_of_word_at; [|lia]. rewrite <- Wtag.
      apply (keeps_word (w_dst w) m1 Rnone); auto; try lia; try (intros k _ X; exact X). }
    rewrite RT in HW. cbn [bind] in HW. unfold lift0 in HW.
    destruct (writeRawPointer m1 nsid naddr tag) as [m2| |] eqn:EW; cbn [bind] in HW; try discriminate.
    destruct (addSize naddr 8) as [o|] eqn:EO; [|discriminate]. apply addSize_spec in EO. destruct EO as [-> EO].
    cbn [bind] in HW. cbv beta iota in HW.
    match type of HW with context [bind (if p_bit src || _ then ?A else ?B) _] =>
      destruct (if p_bit src || (PointerCount (p_size src) =? 0) then A else B) as [w3| |] eqn:E3 end;
      cbn [bind] in HW; try discriminate.
    cbv beta iota in HW. cbn [p_comp p_off p_seg] in HW.
    assert (S10 : 0 <= nsid) by lia.
    destruct (writeRawPointer_keeps _ _ _ _ _ S10 I1 EW) as (K2 & I2 & N2 & _).
    assert (W2 := EW). apply writeRawPointer_wrote in W2; [|lia].
    assert (U2 : u32 (sz - 8) = sz - 8) by (unfold u32; lia).
    assert (U3 : u32 (naddr + 8 - 8) = naddr) by (unfold u32; lia). rewrite U3 in HW.
    apply (Tail true (w_set_dst (w_set_dst w m1) m2) (naddr + 8) (u32 (sz - 8)) w3); auto; cbv zeta; cbn [w_dst w_set_dst]; try lia.
    + intros Hb2. split; [|apply cores_snoc; exact C].
      apply (hinv_alloc_comp (w_dst w) objs pads (fst q) sz m1 nsid naddr tag m2 (core (dl0 true (naddr + 8)))); auto; try reflexivity; try lia.
    + intros Hb2. destruct (alloc_comp_null (w_dst w) objs pads (fst q) sz m1 nsid naddr tag m2 (core (dl0 true (naddr + 8)))) as [K02 Z2]; auto; try reflexivity; try lia.
      apply (CL_add_obj (w_dst w)); auto. lia.
    + unfold I. cbn [w_dst w_set_dst]. split; [exact I2|lia].
    + intros i Hi. rewrite (wrote_len _ _ _ _ _ i W2 Hi). apply Lm1. exact Hi.
    + unfold obj_start, dl0. cbn [p_comp p_off]. lia.
    + unfold obj_start, dl0. cbn [p_comp p_off]. lia.
    + unfold obj_start, dl0. cbn [p_comp p_off]. lia.
  - (* plain list *)
    assert (OS : obj_start src = p_off src) by (unfold obj_start; now rewrite Hc).
    rewrite OS in B2, B3, B4.
    cbn [bind] in HW. cbv beta iota in HW.
    match type of HW with context [bind (if p_bit src || _ then ?A else ?B) _] =>
      destruct (if p_bit src || (PointerCount (p_size src) =? 0) then A else B) as [w3| |] eqn:E3 end;
      cbn [bind] in HW; try discriminate.
    cbv beta iota in HW. cbn [p_comp p_off p_seg] in HW.
    apply (Tail false (w_set_dst w m1) naddr sz w3); auto; cbv zeta; cbn [w_dst w_set_dst]; try lia.
    + intros Hb2. split; [|apply cores_snoc; exact C].
      apply (hinv_alloc_obj (w_dst w) objs pads (fst q) sz m1 nsid naddr (core (dl0 false naddr))); auto; try reflexivity; try lia.
    + intros Hb2. apply (CL_add_obj (w_dst w)); auto.
      apply (alloc_obj_null (w_dst w) objs pads (fst q) sz m1 nsid naddr (core (dl0 false naddr))); auto; try reflexivity; try lia.
    + unfold I. cbn [w_dst w_set_dst]. split; [exact I1|lia].
    + unfold obj_start, dl0. cbn [p_comp p_off]. lia.
    + unfold obj_start, dl0. cbn [p_comp p_off]. lia.
Qed.

(* ------------------------------------------------------------------ writePtr, all branches *)
Lemma xp_step f : X_cs f -> X_wp (S f).
Proof.
  intros QC w objs pads q src fc w' L0 N [H C] Hq Vs C0 LE Hfc HW Hb.
  assert (INL : (p_valid src = false \/ p_kind src = KStruct /\ os_isZero (p_size src) = true \/
                 p_kind src = KIface /\ 0 <= p_len src < 4294967296) ->
                exists eo ep, tinv w' (objs ++ eo) (pads ++ ep) /\
                  CL (w_dst w') (objs ++ eo) (pads ++ ep) L0 (N ++ eo) /\ freshL (lenf (w_dst w)) eo).
  { intros Hsrc. destruct (x_inline f w objs pads q src fc w' L0 N (conj H C) Hq C0 Hsrc HW) as [T' C'].
    apply x_none; auto. }
  assert (PLC : p_valid src = true -> In (core src) objs -> p_member src = false -> fc = false ->
                exists eo ep, tinv w' (objs ++ eo) (pads ++ ep) /\
                  CL (w_dst w') (objs ++ eo) (pads ++ ep) L0 (N ++ eo) /\ freshL (lenf (w_dst w)) eo).
  { intros Hv Hin Hm Hf. subst fc.
    destruct (x_placed f w objs pads q src w' L0 N (conj H C) Hq C0) as (ep & T' & C'); auto.
    { intros Ha. specialize (Hfc Ha). rewrite Hm in Hfc. discriminate. }
    exists [], ep. rewrite !app_nil_r. split; [exact T'|]. split; [exact C'|]. intros h []. }
  destruct (p_valid src) eqn:Hv; [|apply INL; auto].
  pose proof Vs as Vs0.
  destruct Vs as [V|[[M V]|[(hl & i & Hhl & MA)|[(Ek & Esz & _)|(Ek & Hl & _)]]]]; [congruence| | | |].
  - (* a handle of a table object *)
    destruct fc; [|apply PLC; auto].
    destruct (p_kind src) eqn:Ek.
    + destruct (os_isZero (p_size src)) eqn:EZ; [apply INL; auto|].
      destruct (xstruct_copy f QC w objs pads q src true w' L0 N) as (h & eo & ep & T & _ & CLr & Fr & _); auto; [split; auto|].
      exists (h :: eo), ep. auto.
    + destruct (xlist_copy f QC w objs pads q src w' L0 N) as (h & eo & ep & T & _ & CLr & Fr & _); auto; [split; auto|].
      exists (h :: eo), ep. auto.
    + exfalso. destruct (core_facts src) as (_ & _ & _ & _ & _ & _ & C7).
      destruct (hi_good _ _ _ H _ V) as [_ (Sh & _)]. apply (proj1 C7) in Sh. unfold shape_ok in Sh. rewrite Ek in Sh. exact Sh.
  - (* a list member *)
    destruct MA as (_ & _ & _ & _ & _ & _ & _ & Ek & Hm).
    destruct (os_isZero (p_size src)) eqn:EZ; [apply INL; auto|].
    destruct (xstruct_copy f QC w objs pads q src fc w' L0 N) as (h & eo & ep & T & _ & CLr & Fr & _); auto;
      [split; auto|rewrite Hm; apply Bool.orb_true_r|].
    exists (h :: eo), ep. auto.
  - apply INL. right. left. split; [exact Ek|]. rewrite Esz. reflexivity.
  - apply INL. right. right. auto.
Qed.

(* [closure_all]: the strengthened [copy_all] *)
Theorem closure_all : forall f, X_wp f /\ X_cs f.
Proof.
  induction f as [|f [IW IC]].
  - split.
    + intros w objs pads q src fc w' L0 N _ _ _ _ _ _ HW. discriminate HW.
    + intros w objs pads dst src w' L0 N _ _ _ _ _ _ _ HW. discriminate HW.
  - split; [apply xp_step; exact IC|apply xs_step; exact IW].
Qed.

(* ------------------------------------------------------------------ the closure *)
(* nothing of the table lies at or beyond the current lengths *)
Lemma CL_initial m objs pads : hinv m objs pads -> CL m objs pads (lenf m) [].
Proof.
  intros H s Hs Ha. exfalso. destruct (slot_geometry _ _ _ _ H Hs) as (_ & _ & _ & Q4 & _). unfold lenf in Ha. lia.
Qed.

Lemma le_len_refl m : le_len (lenf m) m.
Proof. intros i _. unfold lenf. lia. Qed.

(* the slots of an entry that starts beyond L lie beyond L *)
Lemma fresh_slots m T P (L : Z -> Z) eo s :
  hinv m T P -> incl eo T -> freshL L eo -> In s (flat_map slots eo) -> L (fst s) <= snd s.
Proof.
  intros H I F Hs. apply in_flat_map in Hs. destruct Hs as (h & Hh & Hs).
  destruct (hi_good _ _ _ H h (I h Hh)) as [V G]. destruct (slot_in_obj _ _ _ V G Hs) as (S1 & S2 & _).
  specialize (F h Hh). assert (OS : obj_start h <= p_off h) by (unfold obj_start; destruct (p_comp h); lia).
  rewrite S1. lia.
Qed.

(* the set of new entries is closed under "the pointer stored in a slot": every slot of a new
   entry holds null, the inline empty struct, a capability index, or a pointer (through pads)
   to a new entry *)
Definition closed (m : bmsg) (P : list region) (eo : list Ptr) : Prop :=
  forall s, In s (flat_map slots eo) -> slot_ok (bm_data m) P eo s.

(* [copy_closure]: a copying writePtr inside one message (forceCopy - set by copyStruct for every
   pointer it copies, so SetStruct, CopyFrom and everything below them - or a list-member source;
   non-empty struct or list), for every fuel, arena configuration and table: the tables grow by
   h :: eo with
   (1) the slot written holds a pointer placed to h, and resolves to h ([fresh_target]);
   (2) every new entry starts at or beyond the end its segment had before the call (a segment that
       did not exist had length 0), hence - [hinv] for the extended table - is disjoint from every
       older entry, the source included;
   (3) h :: eo is closed: every pointer slot of every new entry designates a new entry or nothing.
   So no object reachable from the written slot, at any depth, existed before the call. *)
Theorem copy_closure f w objs pads q src fc w' :
  tinv w objs pads -> In q ((0, 0) :: flat_map slots objs) -> view objs src ->
  p_valid src = true -> p_kind src <> KIface -> (p_kind src = KStruct -> os_isZero (p_size src) = false) ->
  fc || p_member src = true ->
  write_ptr (S f) true w (fst q) (snd q) InDst src fc = Ok w' -> nsegs (w_dst w') < B32 ->
  exists h eo ep, tinv w' (objs ++ h :: eo) (pads ++ ep) /\ fresh_target w w' q h /\
    slot_ok (bm_data (w_dst w')) (pads ++ ep) [h] q /\
    freshL (lenf (w_dst w)) (h :: eo) /\
    closed (w_dst w') (pads ++ ep) (h :: eo).
Proof.
  intros [H C] Hq Vs Hv Hni Hnz Hcp HW Hb. destruct (closure_all f) as [_ QC].
  pose proof (CL_initial _ _ _ H) as C0. pose proof (le_len_refl (w_dst w)) as LE.
  assert (Fin : forall h eo ep, tinv w' (objs ++ h :: eo) (pads ++ ep) /\ fresh_target w w' q h /\
            CL (w_dst w') (objs ++ h :: eo) (pads ++ ep) (lenf (w_dst w)) ([] ++ h :: eo) /\ freshL (lenf (w_dst w)) (h :: eo) /\
            slot_ok (bm_data (w_dst w')) (pads ++ ep) [h] q ->
          tinv w' (objs ++ h :: eo) (pads ++ ep) /\ fresh_target w w' q h /\
            slot_ok (bm_data (w_dst w')) (pads ++ ep) [h] q /\ freshL (lenf (w_dst w)) (h :: eo) /\
            closed (w_dst w') (pads ++ ep) (h :: eo)).
  { intros h eo ep (T & FT & CLr & Fr & Sq). split; [exact T|]. split; [exact FT|]. split; [exact Sq|]. split; [exact Fr|].
    intros s Hs. cbn [app] in CLr. apply CLr.
    - right. rewrite flat_map_app. apply in_or_app. right. exact Hs.
    - apply (fresh_slots (w_dst w') (objs ++ h :: eo) (pads ++ ep) (lenf (w_dst w)) (h :: eo)); auto.
      + exact (proj1 T).
      + intros x Hx. apply in_or_app. right. exact Hx. }
  pose proof Vs as Vs0.
  destruct Vs as [V|[[M V]|[(hl & i & Hhl & MA)|[(Ek & Esz & _)|(Ek & Hl & _)]]]]; [congruence| | | |].
  - rewrite M in Hcp. rewrite Bool.orb_false_r in Hcp. subst fc.
    destruct (p_kind src) eqn:Ek.
    + destruct (xstruct_copy f QC w objs pads q src true w' (lenf (w_dst w)) []) as (h & eo & ep & X); auto; [split; auto|].
      exists h, eo, ep. apply Fin. exact X.
    + destruct (xlist_copy f QC w objs pads q src w' (lenf (w_dst w)) []) as (h & eo & ep & X); auto; [split; auto|].
      exists h, eo, ep. apply Fin. exact X.
    + congruence.
  - destruct MA as (_ & _ & _ & _ & _ & _ & _ & Ek & Hm).
    destruct (xstruct_copy f QC w objs pads q src fc w' (lenf (w_dst w)) []) as (h & eo & ep & X); auto; [split; auto|].
    exists h, eo, ep. apply Fin. exact X.
  - exfalso. specialize (Hnz Ek). rewrite Esz in Hnz. discriminate.
  - congruence.
Qed.
