(* L1: the write side — message.go alloc/allocSegment/arenas/nextAlloc, struct.go NewStruct,
   setters, copyStruct, list.go New*List / SetStruct / raw, segment.go writePtr — following
   the Go code step by step.  A message under construction is a list of segments, each with
   its bytes (len) and its capacity; the source of a cross-message copy is a second,
   read-only message with its own read limit.  No proofs in this file. *)
From CV Require Export Core.Reader.
Open Scope Z_scope.

Record bseg := mkBS { bs_data : list Z; bs_cap : Z }.
Inductive arena_kind := ASingle | AMulti.

(* the destination message: arena, segments, capability table (each entry: the client it
   refers to, as an abstract id), read limit (copying within one message reads it) *)
Record bmsg := mkBM { bm_arena : arena_kind; bm_segs : list bseg; bm_caps : list Z; bm_rl : Z }.

Definition bm_data (m : bmsg) : segs := map bs_data (bm_segs m).
Definition blen (s : bseg) : Z := zlen (bs_data s).

Definition maxAllocSize := maxSegmentSize.
Definition maxInt64 := 9223372036854775807.

Definition hasCapacity (s : bseg) (sz : Z) : bool := sz <=? u32 (bs_cap s - blen s).

Fixpoint grow (fuel : nat) (new want : Z) : Z :=
  match fuel with
  | O => new
  | S f => if (0 <? new) && (new <? want) then grow f (s64 (new + new / 4)) want else new
  end.

(* nextAlloc(curr, max int64, req Size) (int, error) *)
Definition nextAlloc (curr max req : Z) : res Z :=
  if req =? 0 then Ok 0
  else if req >? maxAllocSize then Err
  else
    let padreq := padToWord req in
    let want := s64 (curr + padreq) in
    if (want <=? curr) || (want >? max) then Err
    else
      let double := s64 (curr + curr) in
      if want <? 1024 then
        let next := (1024 - curr + 7) / 8 * 8 in
        if next <? curr then Ok ((curr + 7) / 8 * 8) else Ok next
      else if want >? double then Ok padreq
      else
        let new := grow 400 curr want in
        (* the loop has left: 400 iterations are never used up (from curr >= 512 the value
           doubles every 4 iterations and wraps negative after < 220); kept as an error outcome
           so that no theorem depends on it *)
        if (0 <? new) && (new <? want) then Err
        else if new <=? 0 then Ok padreq
        else
          let delta := new - curr in
          if delta >? maxAllocSize then Ok maxAllocSize else Ok ((delta + 7) / 8 * 8).

Fixpoint set_nth {A} (n : nat) (l : list A) (x : A) : list A :=
  match l, n with
  | [], _ => []
  | _ :: r, O => x :: r
  | y :: r, S n' => y :: set_nth n' r x
  end.

Definition get_seg (m : bmsg) (id : Z) : bseg := nth (Z.to_nat id) (bm_segs m) (mkBS [] 0).
Definition put_seg (m : bmsg) (id : Z) (s : bseg) : bmsg :=
  mkBM (bm_arena m) (set_nth (Z.to_nat id) (bm_segs m) s) (bm_caps m) (bm_rl m).

(* first segment with capacity, with the running total of capacities *)
Fixpoint multi_find (l : list bseg) (id total sz : Z) : option Z * Z :=
  match l with
  | [] => (None, total)
  | s :: r => if hasCapacity s sz then (Some id, total) else multi_find r (id + 1) (total + bs_cap s) sz
  end.

(* Message.allocSegment(sz) -> Arena.Allocate: the id of a segment with cap-len >= sz *)
Definition allocSegment (m : bmsg) (sz : Z) : res (bmsg * Z) :=
  if sz >? maxAllocSize then Err else
  match bm_arena m with
  | ASingle =>
    let s := get_seg m 0 in
    if negb (blen s mod 8 =? 0) then Err
    else if hasCapacity s sz then Ok (m, 0)
    else do inc <- nextAlloc (blen s) maxAllocSize sz;
         Ok (put_seg m 0 (mkBS (bs_data s) (bs_cap s + inc)), 0)
  | AMulti =>
    match multi_find (bm_segs m) 0 0 sz with
    | (Some id, _) => Ok (m, id)
    | (None, total) =>
      do n <- nextAlloc total maxInt64 sz;
      Ok (mkBM (bm_arena m) (bm_segs m ++ [mkBS [] n]) (bm_caps m) (bm_rl m), zlen (bm_segs m))
    end
  end.

(* alloc(s, sz): (message, segment id, address) of sz zero-filled bytes *)
Definition alloc (m : bmsg) (sid : Z) (sz : Z) : res (bmsg * Z * Z) :=
  if sz >? maxAllocSize then Err else
  let sz := padToWord sz in
  do ms <- (if hasCapacity (get_seg m sid) sz then Ok (m, sid) else allocSegment m sz);
  let '(m1, sid1) := ms in
  let s := get_seg m1 sid1 in
  let addr := blen s in
  match addSize addr sz with
  | None => Err
  | Some _ => Ok (put_seg m1 sid1 (mkBS (bs_data s ++ repeat 0 (Z.to_nat sz)) (bs_cap s)), sid1, addr)
  end.

(* ------------------------------------------------------------------ byte writes *)
Fixpoint le_encode (n : nat) (v : Z) : list Z :=
  match n with O => [] | S n' => (v mod 256) :: le_encode n' (v / 256) end.

Definition write_bytes (d : list Z) (addr : Z) (bs : list Z) : list Z :=
  firstn (Z.to_nat addr) d ++ bs ++ skipn (Z.to_nat addr + length bs) d.

(* s.slice(addr, n) then a write: panics like slice *)
Definition seg_write (m : bmsg) (sid addr : Z) (bs : list Z) : res bmsg :=
  let s := get_seg m sid in
  let e := addSizeUnchecked addr (zlen bs) in
  if (0 <=? addr) && (addr <=? e) && (e <=? blen s)
  then Ok (put_seg m sid (mkBS (write_bytes (bs_data s) addr bs) (bs_cap s)))
  else Panic.

Definition writeRawPointer (m : bmsg) (sid addr v : Z) : res bmsg := seg_write m sid addr (le_encode 8 v).

(* ------------------------------------------------------------------ constructors *)
Definition maxDepth := 18446744073709551615.

Definition newStruct (m : bmsg) (sid : Z) (sz : ObjectSize) : res (bmsg * Ptr) :=
  if negb (os_isValid sz) then Err else
  let sz := mkOS (padToWord (DataSize sz)) (PointerCount sz) in
  do r <- alloc m sid (totalSize sz);
  let '(m1, s1, addr) := r in
  Ok (m1, mkPtr true s1 addr 0 sz maxDepth KStruct false false false).

Definition newPrimitiveList (m : bmsg) (sid : Z) (sz n : Z) : res (bmsg * Ptr) :=
  if (n <? 0) || (n >=? 536870912) then Err else
  do r <- alloc m sid (timesUnchecked sz n);
  let '(m1, s1, addr) := r in
  Ok (m1, mkPtr true s1 addr n (mkOS sz 0) maxDepth KList false false false).

Definition newCompositeList (m : bmsg) (sid : Z) (sz : ObjectSize) (n : Z) : res (bmsg * Ptr) :=
  if negb (os_isValid sz) then Err else
  if (n <? 0) || (n >=? 536870912) then Err else
  let sz := mkOS (padToWord (DataSize sz)) (PointerCount sz) in
  match times (totalSize sz) n with
  | None => Err
  | Some total =>
    if total >? maxSegmentSize - 8 then Err else
    do r <- alloc m sid (u32 (8 + total));
    let '(m1, s1, addr) := r in
    do tag <- of_opt_panic (rawStructPointer n sz);
    do m2 <- writeRawPointer m1 s1 addr tag;
    Ok (m2, mkPtr true s1 (addSizeUnchecked addr 8) n sz maxDepth KList true false false)
  end.

Definition newBitList (m : bmsg) (sid n : Z) : res (bmsg * Ptr) :=
  if (n <? 0) || (n >=? 536870912) then Err else
  do r <- alloc m sid (bitListSize n);
  let '(m1, s1, addr) := r in
  Ok (m1, mkPtr true s1 addr n (mkOS 0 0) maxDepth KList false true false).

Definition newPointerList (m : bmsg) (sid n : Z) : res (bmsg * Ptr) :=
  match times 8 n with
  | None => Err
  | Some total =>
    do r <- alloc m sid total;
    let '(m1, s1, addr) := r in
    Ok (m1, mkPtr true s1 addr n (mkOS 0 1) maxDepth KList false false false)
  end.

(* NewVoidList panics for n out of range *)
Definition newVoidList (sid n : Z) : res Ptr :=
  if (n <? 0) || (n >=? 536870912) then Panic
  else Ok (mkPtr true sid 0 n (mkOS 0 0) maxDepth KList false false false).

(* NewData(v) / NewTextFromBytes(v) (extra NUL): a byte list filled with v *)
Definition newBytes (m : bmsg) (sid : Z) (v : list Z) (nul : bool) : res (bmsg * Ptr) :=
  let n := s32 (zlen v + (if nul then 1 else 0)) in
  do r <- newPrimitiveList m sid 1 n;
  let '(m1, p) := r in
  do m2 <- seg_write m1 (p_seg p) (p_off p) v;
  Ok (m2, p).

(* ------------------------------------------------------------------ setters *)
(* SetUint8/16/32/64: panic outside the data section *)
Definition struct_set_uint (m : bmsg) (p : Ptr) (off n v : Z) : res bmsg :=
  do a <- dataAddress p off n;
  match a with
  | None => Panic
  | Some addr => seg_write m (p_seg p) addr (le_encode (Z.to_nat n) v)
  end.

Definition set_bit_in (b : Z) (k : Z) (v : bool) : Z :=
  if v then (if Z.testbit b k then b else b + 2 ^ k) else (if Z.testbit b k then b - 2 ^ k else b).

Definition struct_set_bit (m : bmsg) (p : Ptr) (n : Z) (v : bool) : res bmsg :=
  if negb (p_valid p && (n <? u32 (DataSize (p_size p) * 8))) then Panic
  else match addOffset (p_off p) (bitOffset_offset n) with
       | None => Panic
       | Some addr =>
         do b <- readUintN (nth (Z.to_nat (p_seg p)) (bm_data m) []) addr 1;
         seg_write m (p_seg p) addr [set_bit_in b (n mod 8) v]
       end.

(* typed list setters: UIntNList.Set panics on size mismatch *)
Definition list_set_uint (m : bmsg) (p : Ptr) (i n v : Z) : res bmsg :=
  match primitiveElem true p i (mkOS n 0) with
  | Ok addr => seg_write m (p_seg p) addr (le_encode (Z.to_nat n) v)
  | _ => Panic
  end.

Definition bitlist_set (m : bmsg) (p : Ptr) (i : Z) (v : bool) : res bmsg :=
  if negb (p_valid p) || (i <? 0) || (i >=? p_len p) then Panic
  else if negb (p_bit p) then Panic
  else
    let addr := u32 (p_off p + bitOffset_offset i) in
    do b <- readUintN (nth (Z.to_nat (p_seg p)) (bm_data m) []) addr 1;
    seg_write m (p_seg p) addr [set_bit_in b (i mod 8) v].

(* ------------------------------------------------------------------ List.raw / allocSize *)
(* raw list pointer with zero offset; panics on invalid sizes *)
Definition list_raw (p : Ptr) : res Z :=
  if negb (p_valid p) then Ok 0
  else if p_comp p then
    match totalWordCount (p_size p) with
    | None => Panic
    | Some wc => Ok (rawListPointer 0 7 (s32 (p_len p * wc)))
    end
  else if p_bit p then Ok (rawListPointer 0 1 (p_len p))
  else if (PointerCount (p_size p) =? 1) && (DataSize (p_size p) =? 0) then Ok (rawListPointer 0 6 (p_len p))
  else if negb (PointerCount (p_size p) =? 0) then Panic
  else
    let d := DataSize (p_size p) in
    if d =? 0 then Ok (rawListPointer 0 0 (p_len p))
    else if d =? 1 then Ok (rawListPointer 0 2 (p_len p))
    else if d =? 2 then Ok (rawListPointer 0 3 (p_len p))
    else if d =? 4 then Ok (rawListPointer 0 4 (p_len p))
    else if d =? 8 then Ok (rawListPointer 0 5 (p_len p))
    else Panic.

Definition list_allocSize (p : Ptr) : Z :=
  if negb (p_valid p) then 0
  else if p_bit p then bitListSize (p_len p)
  else
    let sz := match times (totalSize (p_size p)) (p_len p) with Some x => x | None => 4294967295 end in
    if negb (p_comp p) then sz else u32 (sz + 8).

(* ------------------------------------------------------------------ writePtr / copyStruct *)
(* A pointer value handed to writePtr lives either in the destination message or in the
   (read-only) source message of a cross-message copy. *)
Record world := mkW { w_dst : bmsg; w_src : segs; w_src_rl : Z }.
Inductive loc := InDst | InSrc.

Definition w_segs (w : world) (l : loc) : segs := match l with InDst => bm_data (w_dst w) | InSrc => w_src w end.
Definition w_rl (w : world) (l : loc) : Z := match l with InDst => bm_rl (w_dst w) | InSrc => w_src_rl w end.
Definition w_set_rl (w : world) (l : loc) (rl : Z) : world :=
  match l with
  | InDst => mkW (mkBM (bm_arena (w_dst w)) (bm_segs (w_dst w)) (bm_caps (w_dst w)) rl) (w_src w) (w_src_rl w)
  | InSrc => mkW (w_dst w) (w_src w) rl
  end.
Definition w_set_dst (w : world) (m : bmsg) : world := mkW m (w_src w) (w_src_rl w).

Definition lift {A} (w : world) (r : res (bmsg * A)) : res (world * A) :=
  do x <- r; let '(m, a) := x in Ok (w_set_dst w m, a).
Definition lift0 (w : world) (r : res bmsg) : res world := do m <- r; Ok (w_set_dst w m).

(* copy data bytes [n] from (loc, seg, off) to dst (seg, off) *)
Definition copy_bytes (w : world) (l : loc) (ssid soff : Z) (dsid doff n : Z) : res world :=
  do b <- slice (nth (Z.to_nat ssid) (w_segs w l) []) soff n;
  lift0 w (seg_write (w_dst w) dsid doff b).

Definition iota (n : nat) : list Z := map Z.of_nat (seq 0 n).

Fixpoint fold_res {A} (l : list Z) (a : A) (f : A -> Z -> res A) : res A :=
  match l with
  | [] => Ok a
  | x :: r => do a' <- f a x; fold_res r a' f
  end.

Definition is_src (l : loc) : bool := match l with InSrc => true | InDst => false end.

(* the final switch of writePtr: near / far with landing pad / double-far.
   The target (tsid, taddr) is in the destination message. *)
Definition place (w : world) (dsid off : Z) (tsid taddr raw : Z) : res world :=
  let m := w_dst w in
  if tsid =? dsid then
    lift0 w (writeRawPointer m dsid off (withOffset raw (nearPointerOffset off taddr)))
  else if hasCapacity (get_seg m tsid) 8 then
    do r <- alloc m tsid 8;
    let '(m1, _, padAddr) := r in
    do m2 <- writeRawPointer m1 tsid padAddr (withOffset raw (nearPointerOffset padAddr taddr));
    lift0 w (writeRawPointer m2 dsid off (rawFarPointer tsid padAddr))
  else
    do r <- alloc m dsid 16;
    let '(m1, psid, padAddr) := r in
    do m2 <- writeRawPointer m1 psid padAddr (rawFarPointer tsid taddr);
    do m3 <- writeRawPointer m2 psid (addSizeUnchecked padAddr 8) raw;
    lift0 w (writeRawPointer m3 dsid off (rawDoubleFarPointer psid padAddr)).

(* capability table entries: the source's entry i is recorded as the abstract client id i.
   [strict] is passed to readPtr (composite tag check). Fuel exhaustion returns [Err] and is
   excluded by the theorems (fuel > source depth limit). *)
(* [fix_pad]: the repaired code describes the copy of a struct whose data size is not a whole
   number of words (List.Struct(i) of a 1/2/4-byte list: a list member, so it is copied) with
   the data size padded to a word, so that the pointer written is well formed and the value is
   the element zero-extended; as found, rawStructPointer(0, st.size) panics "data size not
   aligned by word" *)
Fixpoint write_ptr_gen (fix_pad : bool) (fuel : nat) (strict : bool) (w : world) (dsid off : Z) (l : loc) (src : Ptr)
         (forceCopy : bool) {struct fuel} : res world :=
  match fuel with
  | O => Err
  | S f =>
    if negb (p_valid src) then lift0 w (writeRawPointer (w_dst w) dsid off 0) else
    match p_kind src with
    | KIface =>
      if is_src l then
        let m := w_dst w in
        let c := zlen (bm_caps m) in
        let m1 := mkBM (bm_arena m) (bm_segs m) (bm_caps m ++ [p_len src]) (bm_rl m) in
        lift0 w (writeRawPointer m1 dsid off (rawInterfacePointer (u32 c)))
      else lift0 w (writeRawPointer (w_dst w) dsid off (rawInterfacePointer (p_len src)))
    | KStruct =>
      if os_isZero (p_size src) then
        do v <- of_opt_panic (rawStructPointer (-1) (mkOS 0 0));
        lift0 w (writeRawPointer (w_dst w) dsid off v)
      else
        do r <- (if forceCopy || is_src l || p_member src then
                   let csz := if fix_pad then mkOS (padToWord (DataSize (p_size src))) (PointerCount (p_size src))
                              else p_size src in
                   do a <- alloc (w_dst w) dsid (totalSize csz);
                   let '(m1, nsid, naddr) := a in
                   let dstp := mkPtr true nsid naddr 0 csz maxDepth KStruct false false false in
                   do w2 <- copy_struct_gen fix_pad f strict (w_set_dst w m1) dstp l src;
                   Ok (w2, dstp)
                 else Ok (w, src));
        let '(w', st) := r in
        do raw <- of_opt_panic (rawStructPointer 0 (p_size st));
        place w' dsid off (p_seg st) (p_off st) raw
    | KList =>
      do r <- (if forceCopy || is_src l then
                 let sz := list_allocSize src in
                 do a <- alloc (w_dst w) dsid sz;
                 let '(m1, nsid, naddr) := a in
                 let w1 := w_set_dst w m1 in
                 do x <- (if p_comp src then
                            do tag <- readRawPointer (nth (Z.to_nat (p_seg src)) (w_segs w1 l) []) (u32 (p_off src - 8));
                            do w2 <- lift0 w1 (writeRawPointer (w_dst w1) nsid naddr tag);
                            match addSize naddr 8 with
                            | None => Err
                            | Some o => Ok (w2, o, u32 (sz - 8))
                            end
                          else Ok (w1, naddr, sz));
                 let '(w2, doff, sz') := x in
                 let dstl := mkPtr true nsid doff (p_len src) (p_size src) maxDepth KList (p_comp src) (p_bit src) false in
                 do w3 <- (if p_bit src || (PointerCount (p_size src) =? 0) then
                             copy_bytes w2 l (p_seg src) (p_off src) nsid doff sz'
                           else
                             fold_res (iota (Z.to_nat (list_len src))) w2
                               (fun wa i =>
                                  do de <- list_struct true dstl i;
                                  do se <- list_struct true src i;
                                  copy_struct_gen fix_pad f strict wa de l se));
                 Ok (w3, dstl)
               else Ok (w, src));
      let '(w', lst) := r in
      let taddr := if p_comp lst then u32 (p_off lst - 8) else p_off lst in
      do raw <- list_raw lst;
      place w' dsid off (p_seg lst) taddr raw
    end
  end

with copy_struct_gen (fix_pad : bool) (fuel : nat) (strict : bool) (w : world) (dst : Ptr) (l : loc) (src : Ptr) {struct fuel} : res world :=
  match fuel with
  | O => Err
  | S f =>
    if negb (p_valid dst) then Panic
    else if negb (p_valid src) then Ok w
    else
      do srcData <- slice (nth (Z.to_nat (p_seg src)) (w_segs w l) []) (p_off src) (DataSize (p_size src));
      do dstData <- slice (nth (Z.to_nat (p_seg dst)) (bm_data (w_dst w)) []) (p_off dst) (DataSize (p_size dst));
      let n := Nat.min (length srcData) (length dstData) in
      do w1 <- lift0 w (seg_write (w_dst w) (p_seg dst) (p_off dst)
                                  (firstn n srcData ++ repeat 0 (length dstData - n)));
      let ns := PointerCount (p_size src) in
      let nd := PointerCount (p_size dst) in
      do w2 <- fold_res (iota (Z.to_nat (Z.min ns nd))) w1
                 (fun wa j =>
                    let '(r, rl') := readPtr strict (w_segs wa l) (w_rl wa l) (p_seg src)
                                             (nth (Z.to_nat (p_seg src)) (w_segs wa l) [])
                                             (pointerAddress src j) (p_depth src) in
                    do q <- r;
                    write_ptr_gen fix_pad f strict (w_set_rl wa l rl') (p_seg dst) (pointerAddress dst j) l q true);
      fold_res (map (fun k => ns + k) (iota (Z.to_nat (nd - ns)))) w2
               (fun wa j => lift0 wa (writeRawPointer (w_dst wa) (p_seg dst) (pointerAddress dst j) 0))
  end.

Definition write_ptr := write_ptr_gen true.
Definition copy_struct := copy_struct_gen true.
Definition write_ptr_asfound := write_ptr_gen false.
Definition copy_struct_asfound := copy_struct_gen false.

(* Struct.SetPtr(i, src): panics outside the pointer section *)
Definition struct_set_ptr (fuel : nat) (w : world) (p : Ptr) (i : Z) (l : loc) (src : Ptr) : res world :=
  if negb (p_valid p) || (i >=? PointerCount (p_size p)) then Panic
  else write_ptr fuel true w (p_seg p) (pointerAddress p i) l src false.

(* PointerList.Set(i, v) *)
Definition ptrlist_set (fuel : nat) (w : world) (p : Ptr) (i : Z) (l : loc) (src : Ptr) : res world :=
  do addr <- primitiveElem true p i (mkOS 0 1);
  write_ptr fuel true w (p_seg p) addr l src false.

(* List.SetStruct(i, s) *)
Definition list_set_struct (fuel : nat) (w : world) (p : Ptr) (i : Z) (l : loc) (src : Ptr) : res world :=
  if p_bit p then Err
  else do e <- list_struct true p i; copy_struct fuel true w e l src.

(* Message.SetRoot(p).  [fix_root]: the repaired code reports an error when the first segment
   cannot hold the root pointer (as found: PointerList{}.Set(0, p) panics "list element out of
   bounds"; only reachable with a hand-made Message, NewMessage always allocates the root word) *)
Definition set_root_gen (fix_root : bool) (fuel : nat) (w : world) (l : loc) (src : Ptr) : res world :=
  let m := w_dst w in
  match bm_segs m with
  | [] => Err
  | s0 :: _ =>
    if negb (regionInBounds (bs_data s0) 0 8) then (if fix_root then Err else Panic)
    else write_ptr fuel true w 0 0 l src false
  end.
Definition set_root := set_root_gen true.
Definition set_root_asfound := set_root_gen false.

(* a Message value over a pre-sized arena, without NewMessage (no root word allocated):
   &capnp.Message{Arena: MultiSegment(bufs)} with empty buffers of the given capacities *)
Definition raw_message (k : arena_kind) (caps : list Z) (T : Z) : bmsg :=
  mkBM k (map (fun c => mkBS [] c) caps) [] T.

(* NewMessage(arena): first segment allocated if the arena is empty, root word allocated *)
Definition new_message (k : arena_kind) (caps : list Z) (T : Z) : res bmsg :=
  let m0 := mkBM k (map (fun c => mkBS [] c) caps) [] T in
  do m1 <- (match caps with
            | [] => match k with
                    | ASingle => Ok (mkBM k [mkBS [] 0] [] T)   (* SingleSegment(nil): NumSegments = 1 *)
                    | AMulti => do r <- allocSegment m0 8; Ok (fst r)
                    end
            | [_] => Ok m0
            | _ => Err        (* "new message: arena not empty": more than one segment *)
            end);
  do r <- alloc m1 0 8;
  let '(m2, sid, _) := r in
  if sid =? 0 then Ok m2 else Err.
