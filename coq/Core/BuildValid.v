(* A strict validity predicate for finished messages and a spec-style tree decoder, written
   from the encoding document (capnproto.org/encoding.html) with / and mod only; it does not
   use the pointer extractors of Arith.v nor the reader model.  It is run (extracted) on the
   bytes the real builder produced (C05) and is the target of the [heap_inv] theorems.

   valid_message m = VOk  iff  every segment is word aligned and, for every pointer word
   reachable from the root:  it resolves inside its target segment;  a far pointer's landing
   pad is one in-bounds non-far struct/list pointer;  a double-far pad is an in-bounds far
   pointer (B=0) followed by a struct/list tag with zero offset;  a composite list pointer's
   word count equals count * element words of its tag;  and all objects and landing pads
   reached occupy pairwise disjoint regions (the same object may be reached twice).
   No proofs in this file. *)
From CV Require Export Core.ReadOps.
Open Scope Z_scope.

Definition two30 := 1073741824.
Definition two32 := 4294967296.

(* the 64-bit little-endian word at byte offset [off] of segment [sid], if inside *)
Definition word_at (m : segs) (sid off : Z) : option Z :=
  if (0 <=? sid) && (sid <? zlen m) then
    let s := nth (Z.to_nat sid) m [] in
    if (0 <=? off) && (off + 8 <=? zlen s)
    then Some (le_decode (firstn 8 (skipn (Z.to_nat off) s)))
    else None
  else None.

Definition seg_len (m : segs) (sid : Z) : Z := zlen (nth (Z.to_nat sid) m []).

(* pointer fields, as the encoding document draws them *)
Definition f_A (w : Z) := w mod 4.
Definition f_off (w : Z) := let o := (w / 4) mod two30 in if o <? two30 / 2 then o else o - two30.
Definition f_dw (w : Z) := (w / two32) mod 65536.
Definition f_pc (w : Z) := (w / 281474976710656) mod 65536.
Definition f_C (w : Z) := (w / two32) mod 8.
Definition f_D (w : Z) := (w / 34359738368) mod 536870912.
Definition f_B (w : Z) := (w / 4) mod 2.
Definition f_padoff (w : Z) := (w / 8) mod 536870912.
Definition f_seg (w : Z) := (w / two32) mod two32.

Record region := mkReg { r_seg : Z; r_start : Z; r_size : Z }.
Definition reg_eqb (a b : region) := (r_seg a =? r_seg b) && (r_start a =? r_start b) && (r_size a =? r_size b).
Definition reg_disjoint (a b : region) :=
  (r_size a =? 0) || (r_size b =? 0) || negb (r_seg a =? r_seg b)
  || (r_start a + r_size a <=? r_start b) || (r_start b + r_size b <=? r_start a).

(* what a pointer word designates *)
Inductive target :=
| GNull
| GCap (idx : Z)
| GStruct (sid addr dw pc : Z)
| GList (sid addr et n : Z)                 (* et in 0..6 *)
| GComp (sid addr cnt dw pc : Z)            (* addr = first element, after the tag *)
| GBad (why : Z).

(* bits per element of the non-composite element types *)
Definition et_bits (et : Z) : Z :=
  if et =? 0 then 0 else if et =? 1 then 1 else if et =? 2 then 8 else if et =? 3 then 16
  else if et =? 4 then 32 else 64.

Definition in_seg (m : segs) (sid start size : Z) : bool :=
  (0 <=? sid) && (sid <? zlen m) && (0 <=? start) && (0 <=? size) && (start + size <=? seg_len m sid)
  && (start mod 8 =? 0).

(* a struct / list pointer word [w] whose offset is relative to [base] in segment [sid] *)
Definition decode_obj (m : segs) (sid base w : Z) : target * list region :=
  let addr := base + 8 * f_off w in
  if f_A w =? 0 then
    let sz := 8 * (f_dw w + f_pc w) in
    if in_seg m sid addr sz then (GStruct sid addr (f_dw w) (f_pc w), [mkReg sid addr sz]) else (GBad 1, [])
  else
    let et := f_C w in
    let n := f_D w in
    if et <? 7 then
      let sz := (n * et_bits et + 63) / 64 * 8 in
      if in_seg m sid addr sz then (GList sid addr et n, [mkReg sid addr sz]) else (GBad 2, [])
    else
      if negb (in_seg m sid addr (8 + 8 * n)) then (GBad 3, []) else
      match word_at m sid addr with
      | None => (GBad 3, [])
      | Some tag =>
        if negb (f_A tag =? 0) then (GBad 4, []) else
        let cnt := (tag / 4) mod two30 in
        if negb (cnt * (f_dw tag + f_pc tag) =? n) then (GBad 5, [])
        else (GComp sid (addr + 8) cnt (f_dw tag) (f_pc tag), [mkReg sid addr (8 + 8 * n)])
      end.

(* the pointer word at (sid, off): target and the regions (landing pads, object) it uses *)
Definition resolve_ptr (m : segs) (sid off : Z) : target * list region :=
  match word_at m sid off with
  | None => (GBad 0, [])
  | Some w =>
    if w =? 0 then (GNull, []) else
    let a := f_A w in
    if a =? 3 then
      if (w / 4) mod two30 =? 0 then (GCap (w / two32), []) else (GBad 6, [])
    else if a =? 2 then
      let pseg := f_seg w in
      let poff := 8 * f_padoff w in
      if f_B w =? 0 then
        if negb (in_seg m pseg poff 8) then (GBad 7, []) else
        match word_at m pseg poff with
        | None => (GBad 7, [])
        | Some pw =>
          if (pw =? 0) || (2 <=? f_A pw) then (GBad 8, [])
          else let '(t, rs) := decode_obj m pseg (poff + 8) pw in (t, mkReg pseg poff 8 :: rs)
        end
      else
        if negb (in_seg m pseg poff 16) then (GBad 9, []) else
        match word_at m pseg poff, word_at m pseg (poff + 8) with
        | Some fw, Some tag =>
          if negb ((f_A fw =? 2) && (f_B fw =? 0)) then (GBad 10, [])
          else if (2 <=? f_A tag) || negb (f_off tag =? 0) then (GBad 11, [])
          else
            (* the tag's offset is zero: decoding it relative to the target address itself *)
            let '(t, rs) := decode_obj m (f_seg fw) (8 * f_padoff fw) tag in
            (t, mkReg pseg poff 16 :: rs)
        | _, _ => (GBad 9, [])
        end
    else decode_obj m sid (off + 8) w
  end.

Definition is_bad (t : target) : bool := match t with GBad _ => true | _ => false end.

(* positions of the pointer words inside an object *)
Definition zseq (start step : Z) (n : nat) : list Z := map (fun i => start + step * Z.of_nat i) (seq 0 n).
Definition children (t : target) : list (Z * Z) :=
  match t with
  | GStruct sid addr dw pc => map (fun a => (sid, a)) (zseq (addr + 8 * dw) 8 (Z.to_nat pc))
  | GList sid addr et n => if et =? 6 then map (fun a => (sid, a)) (zseq addr 8 (Z.to_nat n)) else []
  | GComp sid addr cnt dw pc =>
    flat_map (fun e => map (fun a => (sid, a)) (zseq (addr + 8 * (e * (dw + pc) + dw)) 8 (Z.to_nat pc)))
             (zseq 0 1 (Z.to_nat cnt))
  | _ => []
  end.

Definition pos_eqb (a b : Z * Z) := (fst a =? fst b) && (snd a =? snd b).
Definition mem_pos (p : Z * Z) (l : list (Z * Z)) := existsb (pos_eqb p) l.

Inductive verdict := VOk | VBad (why : Z) | VFuel.

(* worklist traversal of the pointer words reachable from the root *)
Fixpoint collect_regions (m : segs) (fuel : nat) (work visited : list (Z * Z)) (acc : list region)
  : verdict * list region :=
  match work with
  | [] => (VOk, acc)
  | p :: rest =>
    match fuel with
    | O => (VFuel, acc)
    | S f =>
      if mem_pos p visited then collect_regions m f rest visited acc else
      let '(t, rs) := resolve_ptr m (fst p) (snd p) in
      match t with
      | GBad why => (VBad why, acc)
      | _ =>
        let fresh := filter (fun c => negb (mem_pos c (p :: visited)) && negb (mem_pos c rest)) (children t) in
        collect_regions m f (fresh ++ rest) (p :: visited) (rs ++ acc)
      end
    end
  end.

Fixpoint pairwise_ok (l : list region) : bool :=
  match l with
  | [] => true
  | a :: r => forallb (fun b => reg_eqb a b || reg_disjoint a b) r && pairwise_ok r
  end.

Definition total_words (m : segs) : Z := fold_right (fun s a => zlen s / 8 + a) 0 m.

(* fuel: a position enters the work list at most once (children already visited or already
   queued are not queued again; the children of one object are distinct words), and every
   position is a word of the message, so total_words + 2 steps always suffice *)
Definition valid_message (m : segs) : verdict :=
  if negb (forallb (fun s => zlen s mod 8 =? 0) m) then VBad 20 else
  if negb (in_seg m 0 0 8) then VBad 21 else
  match collect_regions m (Z.to_nat (total_words m + 2)) [(0, 0)] [] [mkReg 0 0 8] with
  | (VOk, rs) => if pairwise_ok rs then VOk else VBad 30
  | (v, _) => v
  end.

(* ------------------------------------------------------------------ spec-style tree *)
Definition bytes_at (m : segs) (sid off n : Z) : list Z :=
  firstn (Z.to_nat n) (skipn (Z.to_nat off) (nth (Z.to_nat sid) m [])).

Fixpoint spec_tree (m : segs) (fuel : nat) (sid off : Z) : tree :=
  let '(t, _) := resolve_ptr m sid off in
  match t with
  | GNull => TNull
  | GBad _ => TErr
  | GCap i => match fuel with O => TFuel | S _ => TCap i end
  | GStruct s addr dw pc =>
    match fuel with
    | O => TFuel
    | S f => TStruct (bytes_at m s addr (8 * dw))
                     (map (fun a => spec_tree m f s a) (zseq (addr + 8 * dw) 8 (Z.to_nat pc)))
    end
  | GList s addr et n =>
    match fuel with
    | O => TFuel
    | S f =>
      if et =? 6 then TPtrs n (map (fun a => spec_tree m f s a) (zseq addr 8 (Z.to_nat n)))
      else if et =? 1 then
        TBits n (map (fun i => Z.testbit (nth O (bytes_at m s (addr + i / 8) 1) 0) (i mod 8)) (zseq 0 1 (Z.to_nat n)))
      else if et =? 0 then TPrim 0 n []
      else let w := et_bits et / 8 in
           TPrim w n (map (fun i => le_decode (bytes_at m s (addr + w * i) w)) (zseq 0 1 (Z.to_nat n)))
    end
  | GComp s addr cnt dw pc =>
    match fuel with
    | O => TFuel
    | S f =>
      TComp cnt (mkOS (8 * dw) pc)
            (map (fun e =>
                    let ea := addr + 8 * (e * (dw + pc)) in
                    match f with
                    | O => TFuel
                    | S f' => TStruct (bytes_at m s ea (8 * dw))
                                      (map (fun a => spec_tree m f' s a) (zseq (ea + 8 * dw) 8 (Z.to_nat pc)))
                    end)
                 (zseq 0 1 (Z.to_nat cnt)))
    end
  end.

Definition spec_root_tree (m : segs) (fuel : Z) : tree := spec_tree m (Z.to_nat fuel) 0 0.
