(* Read-side API call sequences: an interpreter for op lists over a pool of pointer handles
   (what the correspondence harness replays against the Go accessors), and a generic
   recursive walker (the shape of every recursive consumer: copy, canonicalise, equal,
   text, extract). No proofs in this file. *)
From CV Require Export Core.Reader.
Open Scope Z_scope.

(* which repairs are in effect (all true = the repaired code) *)
Record fixes := mkFix { fx_depth : bool; fx_upgrade : bool; fx_bit : bool }.

Inductive tree :=
| TNull | TErr | TPanic | TFuel
| TCap (idx : Z)
| TStruct (data : list Z) (ptrs : list tree)
| TPtrs (len : Z) (elems : list tree)             (* pointer list *)
| TComp (len : Z) (sz : ObjectSize) (elems : list tree)  (* composite list *)
| TPrim (width : Z) (len : Z) (vals : list Z)     (* void (width 0) / 1/2/4/8-byte lists *)
| TBits (len : Z) (vals : list bool).

(* iterate f over 0..n-1 threading the read limit; stop collecting at a Panic *)
Fixpoint iter_rl {A} (n : nat) (i : Z) (rl : Z) (f : Z -> Z -> A * Z) : list A * Z :=
  match n with
  | O => ([], rl)
  | S n' => let '(a, rl1) := f i rl in
            let '(r, rl2) := iter_rl n' (i + 1) rl1 f in (a :: r, rl2)
  end.

Definition collect {A} (n : nat) (f : Z -> res A) (d : A) : res (list A) :=
  (fix go (k : nat) (i : Z) : res (list A) :=
     match k with
     | O => Ok []
     | S k' => do a <- f i; do r <- go k' (i + 1); Ok (a :: r)
     end) n 0.

Definition cap_count (n cap : Z) : nat := Z.to_nat (Z.min (Z.max n 0) cap).

(* walk: struct data via Uint8 for the first [dcap] bytes, first [pcap] pointers / elements *)
Fixpoint walk (c : config) (fx : fixes) (m : segs) (dcap pcap : Z) (fuel : nat) (rl : Z) (r : res Ptr)
  : tree * Z :=
  match r with
  | Err => (TErr, rl)
  | Panic => (TPanic, rl)
  | Ok p =>
    if negb (p_valid p) then (TNull, rl) else
    match fuel with
    | O => (TFuel, rl)
    | S f =>
      match p_kind p with
      | KIface => (TCap (p_len p), rl)
      | KStruct =>
        match collect (cap_count (DataSize (p_size p)) dcap) (fun o => struct_uint m p o 1) 0 with
        | Panic => (TPanic, rl) | Err => (TErr, rl)
        | Ok data =>
          let '(ps, rl') := iter_rl (cap_count (PointerCount (p_size p)) pcap) 0 rl
                              (fun i rl0 => let '(q, rl1) := struct_ptr c m rl0 p i in walk c fx m dcap pcap f rl1 q) in
          (TStruct data ps, rl')
        end
      | KList =>
        let n := cap_count (p_len p) pcap in
        if p_bit p then
          match collect n (fun i => bitlist_at (fx_bit fx) m p i) false with
          | Ok bs => (TBits (p_len p) bs, rl) | Err => (TErr, rl) | Panic => (TPanic, rl)
          end
        else if p_comp p then
          let '(es, rl') := iter_rl n 0 rl
                              (fun i rl0 => walk c fx m dcap pcap f rl0 (list_struct (fx_depth fx) p i)) in
          (TComp (p_len p) (p_size p) es, rl')
        else if 0 <? PointerCount (p_size p) then
          let '(es, rl') := iter_rl n 0 rl
                              (fun i rl0 => let '(q, rl1) := ptrlist_at c (fx_upgrade fx) m rl0 p i in
                                            walk c fx m dcap pcap f rl1 q) in
          (TPtrs (p_len p) es, rl')
        else
          let w := DataSize (p_size p) in
          if w =? 0 then (TPrim 0 (p_len p) [], rl) else
          match collect n (fun i => list_uint_at (fx_upgrade fx) m p i w) 0 with
          | Ok vs => (TPrim w (p_len p) vs, rl) | Err => (TErr, rl) | Panic => (TPanic, rl)
          end
      end
    end
  end.

(* ------------------------------------------------------------------ op lists *)
Inductive op :=
| ORoot
| OSPtr (h i : Z) | OHasPtr (h i : Z) | OUint (h off n : Z) | OBit (h n : Z)
| OLStruct (h i : Z) | OPLAt (h i : Z) | OUintAt (h i n : Z) | OBitAt (h i : Z)
| OText (h : Z) | OData (h : Z) | OInfo (h : Z) | ORLimit
| OWalk (h dcap pcap fuel : Z)
(* Message.Reset(arena) with an arena holding the same segment bytes (a message value reused
   for the next message: Message.Reset, Decoder.ReuseBuffer): every pointer obtained so far is
   invalidated (the handle pool is emptied) and the traversal budget is re-armed by
   Message.initReadLimit: the configured TraverseLimit, or the 64 MiB default when it is 0.
   [fixed] = false is the seeded variant that re-arms with the default whatever was configured.
   The observation is the budget after the reset. *)
| OReset (fixed : bool)
(* the application-controlled budget API (message.go): Message.ResetReadLimit(limit uint64) sets
   the remaining budget, Message.Unread(sz Size) adds to it (atomic.AddUint64: wraps at 2^64).
   Handles are unaffected; the observation is the budget afterwards.  The traversal bound then
   holds per budget epoch (between two such calls), see LimitProofs.traversal_bound_epochs. *)
| OResetLimit (n : Z)
| OUnread (n : Z).

Inductive oval :=
| VPtr (r : res Ptr)
| VNum (r : res Z)
| VBool (r : res bool)
| VBytes (r : res (option (list Z)))
| VTree (t : tree) (rl : Z).

Record rstate := mkRS { rs_handles : list Ptr; rs_rl : Z }.

Definition handle (st : rstate) (h : Z) : Ptr := nth (Z.to_nat h) (rs_handles st) nullPtr.

Definition push (st : rstate) (r : res Ptr) (rl : Z) : rstate :=
  mkRS (rs_handles st ++ [match r with Ok p => p | _ => nullPtr end]) rl.

Definition reset_limit (fixed : bool) (c : config) : Z :=
  if fixed then init_rlimit c else defaultTraverseLimit.

Definition step (c : config) (fx : fixes) (m : segs) (st : rstate) (o : op) : rstate * oval :=
  match o with
  | ORoot => let '(r, rl) := root c m (rs_rl st) in (push st r rl, VPtr r)
  | OSPtr h i => let '(r, rl) := struct_ptr c m (rs_rl st) (as_struct (handle st h)) i in (push st r rl, VPtr r)
  | OHasPtr h i => (st, VBool (struct_hasptr m (as_struct (handle st h)) i))
  | OUint h off n => (st, VNum (struct_uint m (as_struct (handle st h)) off n))
  | OBit h n => (st, VBool (struct_bit m (as_struct (handle st h)) n))
  | OLStruct h i => let r := list_struct (fx_depth fx) (as_list (handle st h)) i in (push st r (rs_rl st), VPtr r)
  | OPLAt h i => let '(r, rl) := ptrlist_at c (fx_upgrade fx) m (rs_rl st) (as_list (handle st h)) i in
                 (push st r rl, VPtr r)
  | OUintAt h i n => (st, VNum (list_uint_at (fx_upgrade fx) m (as_list (handle st h)) i n))
  | OBitAt h i => (st, VBool (bitlist_at (fx_bit fx) m (as_list (handle st h)) i))
  | OText h => (st, VBytes (ptr_text m (handle st h)))
  | OData h => (st, VBytes (ptr_data m (handle st h)))
  | OInfo h => (st, VPtr (Ok (handle st h)))
  | ORLimit => (st, VNum (Ok (rs_rl st)))
  | OWalk h dcap pcap fuel =>
    let '(t, rl) := walk c fx m dcap pcap (Z.to_nat fuel) (rs_rl st) (Ok (handle st h)) in
    (mkRS (rs_handles st) rl, VTree t rl)
  | OReset fixed => (mkRS [] (reset_limit fixed c), VNum (Ok (reset_limit fixed c)))
  | OResetLimit n => (mkRS (rs_handles st) (u64 n), VNum (Ok (u64 n)))
  | OUnread n => (mkRS (rs_handles st) (u64 (rs_rl st + u32 n)), VNum (Ok (u64 (rs_rl st + u32 n))))
  end.

Fixpoint run (c : config) (fx : fixes) (m : segs) (st : rstate) (ops : list op) : rstate * list oval :=
  match ops with
  | [] => (st, [])
  | o :: r => let '(st1, v) := step c fx m st o in
              let '(st2, vs) := run c fx m st1 r in (st2, v :: vs)
  end.

Definition run_ops (c : config) (fx : fixes) (m : segs) (ops : list op) : list oval :=
  snd (run c fx m (mkRS [] (init_rlimit c)) ops).
