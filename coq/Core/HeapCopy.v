(* C05: the copy paths of writePtr / copyStruct inside one message keep the table invariant
   (mutual induction threading the object and pad tables). *)
From CV Require Import Core.Builder Core.ReaderFacts Core.ArithFacts Core.BuilderFacts Core.AllocProofs
  Core.WritePtrProofs Core.HeapProofs Core.CopyProofs Core.BuildOps Core.BuildValid Core.BuildInv Core.HeapInv Core.ReadBridge
  Core.HeapOps.
From Coq Require Import ZifyBool ZifyNat.
Open Scope Z_scope.

Ltac Zify.zify_post_hook ::= Z.div_mod_to_equations.

Definition B32 : Z := 4294967296.

(* the table invariant of a world: the message under construction satisfies [hinv] for the
   tables, and the table holds handle cores *)
Definition tinv (w : world) (objs : list Ptr) (pads : list region) : Prop :=
  hinv (w_dst w) objs pads /\ cores objs.

Lemma tinv_set_rl w rl objs pads : tinv w objs pads -> tinv (w_set_rl w InDst rl) objs pads.
Proof.
  intros [H C]. split; [|exact C].
  apply (hinv_same_data (w_dst w)); auto; try reflexivity; exact (hi_inv _ _ _ H).
Qed.

Lemma nsegs_set_rl w rl : nsegs (w_dst (w_set_rl w InDst rl)) = nsegs (w_dst w).
Proof. reflexivity. Qed.

Lemma tinv_ext w objs pads : tinv w objs pads -> exists eo ep, tinv w (objs ++ eo) (pads ++ ep).
Proof. intros T. exists [], []. now rewrite !app_nil_r. Qed.

(* a write of no bytes *)
Lemma hinv_wrote_nil m objs pads m' sid addr :
  hinv m objs pads -> 0 <= sid -> wrote m m' sid addr [] -> hinv m' objs pads.
Proof.
  intros H Hs W. pose proof (wrote_keeps _ _ _ _ _ W Hs) as K. change (zlen (@nil Z)) with 0 in K.
  assert (N : nsegs m' = nsegs m) by (unfold nsegs; apply (wrote_nsegs _ _ _ _ _ W)).
  apply (hinv_frame m objs pads m' (fun i k => i = sid /\ addr <= k < addr + 0)); auto.
  - apply (wrote_inv _ _ _ _ _ W Hs (hi_inv _ _ _ H)).
  - apply (segs_small_same_len m); [|apply (hi_small _ _ _ H)]. intros i Hi. apply (wrote_len _ _ _ _ _ i W Hi).
  - lia.
  - rewrite N. apply (hi_nsegs _ _ _ H).
  - intros q _ k _ [_ X]. lia.
  - intros r _ k _ [_ X]. lia.
  - intros h _ _ _ k _ [_ X]. lia.
Qed.

(* ------------------------------------------------------------------ loops *)
Lemma fold_mono (I : world -> Prop) l (f : world -> Z -> res world) :
  (forall wa j wb, In j l -> I wa -> f wa j = Ok wb -> I wb /\ nsegs (w_dst wa) <= nsegs (w_dst wb)) ->
  forall wa w2, I wa -> fold_res l wa f = Ok w2 -> I w2 /\ nsegs (w_dst wa) <= nsegs (w_dst w2).
Proof.
  induction l as [|j r IH]; intros Hf wa w2 Ha H; cbn [fold_res] in H.
  - apply Ok_inj in H. subst. split; [exact Ha|lia].
  - destruct (f wa j) as [wb| |] eqn:E; cbn [bind] in H; try discriminate.
    destruct (Hf wa j wb (or_introl eq_refl) Ha E) as [Ib Nb].
    destruct (IH (fun wa j wb Hj => Hf wa j wb (or_intror Hj)) wb w2 Ib H) as [I2 N2]. split; [exact I2|lia].
Qed.

(* a loop whose steps extend the tables; the bound on the number of segments is known for the
   final state only and travels backwards through the monotone frame [I] *)
Lemma fold_thread (I : world -> Prop) objs0 pads0 l (f : world -> Z -> res world) :
  (forall wa j wb, In j l -> I wa -> f wa j = Ok wb -> I wb /\ nsegs (w_dst wa) <= nsegs (w_dst wb)) ->
  (forall wa eo ep, tinv wa (objs0 ++ eo) (pads0 ++ ep) -> I wa) ->
  (forall wa eo ep j wb, In j l -> tinv wa (objs0 ++ eo) (pads0 ++ ep) -> f wa j = Ok wb -> nsegs (w_dst wb) < B32 ->
     exists eo' ep', tinv wb (objs0 ++ eo ++ eo') (pads0 ++ ep ++ ep')) ->
  forall wa eo ep w2, tinv wa (objs0 ++ eo) (pads0 ++ ep) -> fold_res l wa f = Ok w2 -> nsegs (w_dst w2) < B32 ->
  exists eo' ep', tinv w2 (objs0 ++ eo ++ eo') (pads0 ++ ep ++ ep').
Proof.
  induction l as [|j r IH]; intros Hm HI Hs wa eo ep w2 T H Hb; cbn [fold_res] in H.
  - apply Ok_inj in H. subst. exists [], []. now rewrite !app_nil_r.
  - destruct (f wa j) as [wb| |] eqn:E; cbn [bind] in H; try discriminate.
    destruct (Hm wa j wb (or_introl eq_refl) (HI _ _ _ T) E) as [Ib Nb].
    destruct (fold_mono I r f (fun wa j wb Hj => Hm wa j wb (or_intror Hj)) wb w2 Ib H) as [_ N2].
    destruct (Hs wa eo ep j wb (or_introl eq_refl) T E ltac:(lia)) as (eo1 & ep1 & T1).
    destruct (IH (fun wa j wb Hj => Hm wa j wb (or_intror Hj)) HI
                 (fun wa eo ep j wb Hj => Hs wa eo ep j wb (or_intror Hj)) wb (eo ++ eo1) (ep ++ ep1) w2) as (eo2 & ep2 & T2); auto.
    exists (eo1 ++ eo2), (ep1 ++ ep2). rewrite <- !app_assoc in T2. exact T2.
Qed.

(* ------------------------------------------------------------------ small facts *)
Lemma slice_zero s base b : slice s base 0 = Ok b -> b = [].
Proof.
  unfold slice. cbv zeta. unfold addSizeUnchecked, u32.
  destruct ((0 <=? base) && (base <=? (base + 0) mod 4294967296) && ((base + 0) mod 4294967296 <=? zlen s)) eqn:E; [|discriminate].
  intros H. apply Ok_inj in H. subst b.
  replace ((base + 0) mod 4294967296 - base) with 0 by lia. reflexivity.
Qed.

Lemma slots_app q objs eo : In q ((0, 0) :: flat_map slots objs) -> In q ((0, 0) :: flat_map slots (objs ++ eo)).
Proof. intros [<-|H]; [left; reflexivity|right]. rewrite flat_map_app. apply in_or_app. left. exact H. Qed.

Lemma view_app objs eo p : view objs p -> view (objs ++ eo) p.
Proof. apply view_incl. intros x Hx. apply in_or_app. left. exact Hx. Qed.

Lemma cores_app objs eo : cores objs -> cores eo -> cores (objs ++ eo).
Proof. intros A B h Hh. apply in_app_or in Hh. destruct Hh; auto. Qed.

(* the size of a struct view is a legal struct size *)
Lemma struct_wf m objs pads p :
  hinv m objs pads -> view objs p -> p_valid p = true -> p_kind p = KStruct -> wf_size (p_size p).
Proof.
  intros H V Hv Ek. unfold wf_size.
  destruct V as [V|[[M V]|[(h & i & Hh & MA)|[(_ & V & _)|(V & _)]]]]; try congruence.
  - destruct (core_facts p) as (_ & _ & _ & _ & _ & _ & C7).
    destruct (hi_good _ _ _ H _ V) as [_ (Sh & _)]. apply (proj1 C7) in Sh. unfold shape_ok in Sh. rewrite Ek in Sh.
    destruct Sh as ((Hd & Hm & Hp) & _). lia.
  - destruct MA as (Hk & Hb & Hi & _ & _ & _ & Esz & _ & _). rewrite Esz.
    destruct (hi_good _ _ _ H _ Hh) as [_ (Sh & _)]. unfold shape_ok in Sh. rewrite Hk in Sh.
    destruct Sh as (_ & [(_ & [[X _]|[_ [Hs|(d & Hs & Hd)]]])|(_ & _ & (Hd & _ & Hp) & _)]).
    + congruence.
    + rewrite Hs. cbn. lia.
    + rewrite Hs. cbn. lia.
    + lia.
  - rewrite V. cbn. lia.
Qed.

(* ------------------------------------------------------------------ the statements *)
Definition Q_wp (f : nat) : Prop := forall w objs pads q src fc w',
  tinv w objs pads -> In q ((0, 0) :: flat_map slots objs) -> view objs src ->
  write_ptr f true w (fst q) (snd q) InDst src fc = Ok w' -> nsegs (w_dst w') < B32 ->
  exists eo ep, tinv w' (objs ++ eo) (pads ++ ep).

Definition Q_cs (f : nat) : Prop := forall w objs pads dst src w',
  tinv w objs pads -> view objs dst -> (p_valid dst = true -> p_kind dst = KStruct) ->
  view objs src -> (p_valid src = true -> p_kind src = KStruct) ->
  copy_struct f true w dst InDst src = Ok w' -> nsegs (w_dst w') < B32 ->
  exists eo ep, tinv w' (objs ++ eo) (pads ++ ep).

(* ------------------------------------------------------------------ copyStruct *)
(* where the pointer slots of a struct view are *)
Lemma struct_view_slots m objs pads p :
  hinv m objs pads -> view objs p -> p_valid p = true -> p_kind p = KStruct ->
  0 <= PointerCount (p_size p) /\
  forall j, 0 <= j < PointerCount (p_size p) ->
    0 <= p_seg p < nsegs m /\ In (p_seg p, pointerAddress p j) ((0, 0) :: flat_map slots objs).
Proof.
  intros H V Hv Ek.
  destruct (struct_view_geom _ _ _ p H V Hv Ek) as [[E0 _]|(ho & Hin & Eseg & D0 & P0 & Olo & Ohi & _ & Hsl)].
  - rewrite E0. cbn [PointerCount]. split; [lia|]. intros j Hj. lia.
  - split; [exact P0|]. intros j Hj.
    destruct (obj_bounds _ _ _ _ H Hin) as (B1 & B2 & B3 & B4 & B5). rewrite Eseg in *.
    split; [exact B1|]. right. apply in_flat_map. exists ho. split; [exact Hin|].
    rewrite pointerAddress_eq by (unfold maxSegmentSize; lia). apply Hsl. exact Hj.
Qed.

Lemma cs_step f : Q_wp f -> Q_cs (S f).
Proof.
  intros QW w objs pads dst src w' [H C] Vd Kd Vs Ks HW Hb.
  unfold copy_struct in HW. cbn [copy_struct_gen] in HW.
  destruct (p_valid dst) eqn:Hvd; cbn [negb] in HW; [|discriminate].
  destruct (p_valid src) eqn:Hvs; cbn [negb] in HW.
  2:{ apply Ok_inj in HW. subst w'. apply tinv_ext. split; auto. }
  specialize (Kd eq_refl). specialize (Ks eq_refl).
  cbn [w_segs] in HW. rewrite !nth_bm_data in HW.
  destruct (struct_view_slots _ _ _ src H Vs Hvs Ks) as [Ns SrcSl].
  set (ns := PointerCount (p_size src)) in *. set (nd := PointerCount (p_size dst)) in *.
  destruct (slice (mem (w_dst w) (p_seg src)) (p_off src) (DataSize (p_size src))) as [sd| |] eqn:ESl; cbn [bind] in HW; try discriminate.
  destruct (struct_view_geom _ _ _ dst H Vd Hvd Kd) as [[E0d Sgd]|(hd & Hind & Esegd & D0d & P0d & Olod & Ohid & Hsepd & Hsld)].
  - (* the empty struct as destination: nothing is written *)
    assert (End : nd = 0) by (unfold nd; rewrite E0d; reflexivity).
    rewrite E0d in HW. cbn [DataSize] in HW.
    destruct (slice (mem (w_dst w) (p_seg dst)) (p_off dst) 0) as [dd| |] eqn:ESd; cbn [bind] in HW; try discriminate.
    apply slice_zero in ESd. subst dd. cbn [length] in HW. rewrite Nat.min_0_r in HW. cbn [firstn Nat.sub repeat app] in HW.
    unfold lift0 in HW.
    destruct (seg_write (w_dst w) (p_seg dst) (p_off dst) []) as [m1| |] eqn:EW; cbn [bind] in HW; try discriminate.
    apply seg_write_wrote in EW; [|lia|cbn; lia].
    rewrite End in HW. replace (Z.min ns 0) with 0 in HW by lia. change (Z.to_nat 0) with O in HW.
    change (iota 0) with (@nil Z) in HW. cbn [fold_res bind] in HW.
    replace (Z.to_nat (0 - ns)) with O in HW by lia. change (iota 0) with (@nil Z) in HW. cbn [map fold_res] in HW.
    apply Ok_inj in HW. subst w'. apply tinv_ext. split; [|exact C]. cbn [w_dst w_set_dst].
    apply (hinv_wrote_nil (w_dst w) objs pads m1 (p_seg dst) (p_off dst)); auto.
  - (* a destination with geometry *)
    destruct (obj_bounds _ _ _ _ H Hind) as (B1 & B2 & B3 & B4 & B5). rewrite Esegd in *.
    set (DSd := DataSize (p_size dst)) in *.
    assert (DstSl : forall j, 0 <= j < nd -> forall eo, In (p_seg dst, pointerAddress dst j) ((0, 0) :: flat_map slots (objs ++ eo))).
    { intros j Hj eo. apply slots_app. right. apply in_flat_map. exists hd. split; [exact Hind|].
      rewrite pointerAddress_eq by (unfold maxSegmentSize; fold DSd; lia). apply Hsld. exact Hj. }
    rewrite (slice_ok (mem (w_dst w) (p_seg dst)) (p_off dst) DSd) in HW by lia. cbn [bind] in HW.
    set (dd := sub (mem (w_dst w) (p_seg dst)) (p_off dst) DSd) in *.
    assert (Ldd : length dd = Z.to_nat DSd).
    { pose proof (sub_length (mem (w_dst w) (p_seg dst)) (p_off dst) DSd ltac:(lia) ltac:(lia) ltac:(lia)) as X. unfold zlen in X. fold dd in X. lia. }
    set (bs := firstn (Nat.min (length sd) (length dd)) sd ++ repeat 0 (length dd - Nat.min (length sd) (length dd))) in *.
    assert (Lb : zlen bs = DSd).
    { unfold bs, zlen. rewrite app_length, firstn_length, repeat_length. lia. }
    unfold lift0 in HW.
    destruct (seg_write (w_dst w) (p_seg dst) (p_off dst) bs) as [m1| |] eqn:EW; cbn [bind] in HW; try discriminate.
    apply seg_write_wrote in EW; [|lia|lia].
    assert (H1 : hinv m1 objs pads).
    { apply (hinv_data_write (w_dst w) objs pads m1 hd (p_off dst) bs); auto; try lia.
      - rewrite Esegd. exact EW.
      - intros x Hx. apply (Hsepd x (p_off dst) (p_off dst + zlen bs)); auto; lia. }
    set (w1 := w_set_dst w m1) in *.
    set (step1 := fun (wa : world) (j : Z) =>
           let '(r, rl') := readPtr true (bm_data (w_dst wa)) (w_rl wa InDst) (p_seg src)
                                    (nth (Z.to_nat (p_seg src)) (bm_data (w_dst wa)) []) (pointerAddress src j) (p_depth src) in
           do q <- r; write_ptr_gen true f true (w_set_rl wa InDst rl') (p_seg dst) (pointerAddress dst j) InDst q true) in *.
    set (step2 := fun (wa : world) (j : Z) => lift0 wa (writeRawPointer (w_dst wa) (p_seg dst) (pointerAddress dst j) 0)) in *.
    set (l1 := iota (Z.to_nat (Z.min ns nd))) in *. set (l2 := map (fun k => ns + k) (iota (Z.to_nat (nd - ns)))) in *.
    destruct (fold_res l1 w1 step1) as [w2| |] eqn:EL1; cbn [bind] in HW; try discriminate.
    set (I := fun wa : world => inv (w_dst wa) /\ 0 <= p_seg dst < nsegs (w_dst wa)).
    assert (I1 : I w1).
    { split; [exact (hi_inv _ _ _ H1)|]. unfold w1. cbn [w_dst w_set_dst].
      assert (N : nsegs m1 = nsegs (w_dst w)) by (unfold nsegs; apply (wrote_nsegs _ _ _ _ _ EW)). lia. }
    (* frames of the two loops *)
    assert (Fm1 : forall wa j wb, In j l1 -> I wa -> step1 wa j = Ok wb -> I wb /\ nsegs (w_dst wa) <= nsegs (w_dst wb)).
    { intros wa j wb _ [Ia Ra] E. unfold step1 in E.
      destruct (readPtr _ _ _ _ _ _ _) as [r rl'] eqn:ER. destruct r as [qq| |]; cbn [bind] in E; try discriminate.
      destruct (frame_all true f) as [FW _].
      assert (G0 := FW true (w_set_rl wa InDst rl') (p_seg dst) (pointerAddress dst j) InDst qq true wb Ia Ra
                      (readPtr_size_wf _ _ _ _ _ _ _ _ _ ER) ltac:(discriminate) E).
      destruct G0 as (_ & Ib & Nb & _). change (nsegs (w_dst (w_set_rl wa InDst rl'))) with (nsegs (w_dst wa)) in Nb.
      split; [split; [exact Ib|lia]|exact Nb]. }
    assert (Fm2 : forall wa j wb, In j l2 -> I wa -> step2 wa j = Ok wb -> I wb /\ nsegs (w_dst wa) <= nsegs (w_dst wb)).
    { intros wa j wb _ [Ia Ra] E. unfold step2, lift0 in E.
      destruct (writeRawPointer (w_dst wa) (p_seg dst) (pointerAddress dst j) 0) as [mb| |] eqn:EWb; cbn [bind] in E; try discriminate.
      apply Ok_inj in E. subst wb. unfold I. cbn [w_dst w_set_dst].
      destruct (writeRawPointer_keeps _ _ _ _ _ (proj1 Ra) Ia EWb) as (_ & Ib & Nb & _). split; [split; [exact Ib|lia]|lia]. }
    destruct (fold_mono I l1 step1 Fm1 w1 w2 I1 EL1) as [I2 N12].
    destruct (fold_mono I l2 step2 Fm2 w2 w' I2 HW) as [_ N2'].
    (* the pointer loop threads the tables *)
    destruct (fold_thread I objs pads l1 step1 Fm1) with (wa := w1) (eo := @nil Ptr) (ep := @nil region) (w2 := w2)
      as (eo1 & ep1 & T2); auto; try lia.
    { intros wa eo ep [Ha _]. split; [exact (hi_inv _ _ _ Ha)|].
      destruct (obj_bounds _ _ _ _ Ha (in_or_app _ _ _ (or_introl Hind))) as (X & _). rewrite Esegd in X. exact X. }
    { intros wa eo ep j wb Hj [Ha Ca] E Hbb. unfold step1 in E. apply in_iota in Hj.
      destruct (readPtr _ _ _ _ _ _ _) as [r rl'] eqn:ER. destruct r as [qq| |]; cbn [bind] in E; try discriminate.
      destruct (SrcSl j ltac:(lia)) as [Sg0 Sin].
      assert (Vq : view (objs ++ eo) qq).
      { apply (view_of_read (w_dst wa) (objs ++ eo) (pads ++ ep) (p_seg src, pointerAddress src j) (p_depth src)); auto; [cbn [fst]; lia|].
        apply (read_slot true (w_dst wa) (objs ++ eo) (pads ++ ep) (p_seg src, pointerAddress src j) (w_rl wa InDst) (p_depth src) qq rl'); auto.
        apply slots_app. exact Sin. }
      destruct (QW (w_set_rl wa InDst rl') (objs ++ eo) (pads ++ ep) (p_seg dst, pointerAddress dst j) qq true wb) as (eo' & ep' & T'); auto.
      - apply tinv_set_rl. split; auto.
      - apply DstSl. lia.
      - exists eo', ep'. rewrite <- !app_assoc in T'. exact T'. }
    { rewrite !app_nil_r. split; [exact H1|exact C]. }
    cbn [app] in T2.
    (* the tail of the destination's pointer section is set to null *)
    exists eo1, ep1.
    apply (fold_res_inv (fun wa => tinv wa (objs ++ eo1) (pads ++ ep1)) l2 step2 w2 w'); auto.
    intros j wa wb Hj [Ha Ca] E. unfold step2, lift0 in E.
    destruct (writeRawPointer (w_dst wa) (p_seg dst) (pointerAddress dst j) 0) as [mb| |] eqn:EWb; cbn [bind] in E; try discriminate.
    apply Ok_inj in E. subst wb. split; [|exact Ca]. cbn [w_dst w_set_dst].
    unfold l2 in Hj. apply in_map_iff in Hj. destruct Hj as (k & <- & Hk). apply in_iota in Hk.
    apply (hinv_write_inline (w_dst wa) (objs ++ eo1) (pads ++ ep1) mb (p_seg dst, pointerAddress dst (ns + k)) 0); auto.
    apply DstSl. lia.
Qed.

(* ------------------------------------------------------------------ writePtr: the struct copy *)
(* what a copying writePtr adds besides keeping the invariant: the first new table entry [h] is the
   copy - it starts at the old end of its segment (position 0 of a segment that did not exist), and
   the pointer slot written resolves to exactly [h] afterwards *)
Definition fresh_target (w w' : world) (q : Z * Z) (h : Ptr) : Prop :=
  obj_start h = zlen (mem (w_dst w) (p_seg h)) /\
  exists pads', resolve_ptr (bm_data (w_dst w')) (fst q) (snd q) = (tgt_of h, pads' ++ [obj_reg h]).

Lemma struct_copy f : Q_cs f -> forall w objs pads q src fc w',
  tinv w objs pads -> In q ((0, 0) :: flat_map slots objs) -> view objs src ->
  p_valid src = true -> p_kind src = KStruct -> os_isZero (p_size src) = false ->
  fc || p_member src = true ->
  write_ptr (S f) true w (fst q) (snd q) InDst src fc = Ok w' -> nsegs (w_dst w') < B32 ->
  exists h eo ep, tinv w' (objs ++ h :: eo) (pads ++ ep) /\ fresh_target w w' q h.
Proof.
  intros QC w objs pads q src fc w' [H C] Hq Vs Hv Ek EZ Hcp HW Hb. unfold B32 in *.
  pose proof (struct_wf _ _ _ src H Vs Hv Ek) as [Wd Wp].
  destruct (slot_geometry _ _ _ _ H Hq) as (Q1 & Q2 & Q3 & Q4 & _).
  set (DS := DataSize (p_size src)) in *. set (pc := PointerCount (p_size src)) in *.
  unfold write_ptr in HW. cbn [write_ptr_gen] in HW. rewrite Hv, Ek, EZ in HW. cbn [negb is_src] in HW.
  assert (Ecp : fc || false || p_member src = true) by (destruct fc, (p_member src); auto).
  rewrite Ecp in HW. cbn [bind] in HW. fold DS pc in HW.
  set (csz := mkOS (padToWord DS) pc) in *.
  assert (PW : padToWord DS mod 8 = 0 /\ DS <= padToWord DS <= DS + 7) by (unfold padToWord, u32; lia).
  assert (TS : totalSize csz = padToWord DS + 8 * pc) by (unfold totalSize, pointerSize, u32, csz; cbn [DataSize PointerCount]; lia).
  rewrite TS in HW.
  destruct (alloc (w_dst w) (fst q) (padToWord DS + 8 * pc)) as [[[m1 nsid] naddr]| |] eqn:EA; cbn [bind] in HW; try discriminate.
  set (dstp := mkPtr true nsid naddr 0 csz maxDepth KStruct false false false) in *.
  destruct (copy_struct_gen true f true (w_set_dst w m1) dstp InDst src) as [w2| |] eqn:EC; cbn [bind] in HW; try discriminate.
  unfold dstp in HW. cbn [p_size p_seg p_off] in HW. fold dstp in HW.
  destruct (of_opt_panic (rawStructPointer 0 csz)) as [raw| |] eqn:ER; cbn [bind] in HW; try discriminate.
  assert (Hz : 0 <= padToWord DS + 8 * pc) by lia.
  pose proof (hi_inv _ _ _ H) as Hinv.
  destruct (alloc_keeps _ _ _ _ _ _ Hinv Q1 Hz EA) as (K1 & I1 & N1 & S1 & AD & L1 & _ & _ & _ & MX).
  unfold maxSegmentSize in MX. pose proof (zlen_nonneg (mem (w_dst w) nsid)) as Z0.
  (* frames: the number of segments only grows, so the final bound covers the intermediate states *)
  destruct (frame_all true f) as [_ FC].
  assert (Wc : wf_size csz) by (unfold wf_size, csz; cbn [DataSize PointerCount]; lia).
  assert (Ho : 0 <= p_off dstp <= 4294967295).
  { unfold dstp. cbn [p_off]. pose proof (padToWord_nonneg (padToWord DS + 8 * pc)). lia. }
  assert (G2 := FC true (w_set_dst w m1) dstp InDst src w2 I1 S1 Wc Ho (fun _ => conj Wd Wp) EC).
  destruct G2 as (_ & I2 & N2 & _). cbn [w_dst w_set_dst] in N2.
  destruct (place_keeps w2 (fst q) (snd q) nsid naddr raw w' I2 ltac:(lia) ltac:(lia) HW) as (_ & _ & N3 & _).
  (* the copy joins the table *)
  assert (H1 : hinv m1 (objs ++ [core dstp]) pads).
  { apply (hinv_alloc_obj (w_dst w) objs pads (fst q) (padToWord DS + 8 * pc) m1 nsid naddr (core dstp)); auto; try reflexivity; try lia.
    all: unfold shape_ok, obj_bytes, core, dstp, os_wf; cbn [p_kind p_size p_comp p_len p_bit]; try exact TS; try discriminate.
    all: try (unfold csz; cbn [DataSize PointerCount]; split; [lia|]; split; [reflexivity|]; split; reflexivity). }
  assert (T2 : exists eo ep, tinv w2 ((objs ++ [core dstp]) ++ eo) (pads ++ ep)).
  { apply (QC (w_set_dst w m1) (objs ++ [core dstp]) pads dstp src w2); auto; unfold B32; try lia.
    - split; [exact H1|apply cores_snoc; exact C].
    - right. left. split; [reflexivity|]. apply in_or_app. right. left. reflexivity.
    - apply view_app. exact Vs. }
  destruct T2 as (eo & ep & [H2 C2]).
  (* the pointer to the copy *)
  assert (Hq2 : In q ((0, 0) :: flat_map slots ((objs ++ [core dstp]) ++ eo))) by (apply slots_app, slots_app; exact Hq).
  assert (Hd2 : In (core dstp) ((objs ++ [core dstp]) ++ eo)).
  { apply in_or_app. left. apply in_or_app. right. left. reflexivity. }
  destruct (hinv_place_full (w_dst w2) ((objs ++ [core dstp]) ++ eo) (pads ++ ep) w2 q (core dstp) raw w') as (pads' & H' & Rs' & _);
    auto; try lia.
  all: try (unfold core, dstp; cbn [p_size]; intros _; unfold os_isZero, csz in *; cbn [DataSize PointerCount]; fold DS pc in EZ; lia).
  all: try (unfold raw_of, core, dstp; cbn [p_kind p_size]; exact ER).
  exists (core dstp), eo, (ep ++ pads'). split.
  - change (core dstp :: eo) with ([core dstp] ++ eo). rewrite !app_assoc. split; [exact H'|exact C2].
  - split; [|exists pads'; exact Rs']. unfold obj_start, core, dstp. cbn [p_comp p_off p_seg]. exact AD.
Qed.

(* ------------------------------------------------------------------ writePtr: the list copy *)
Lemma flat_map_nil {A B} (l : list A) : flat_map (fun _ : A => @nil B) l = [].
Proof. induction l; auto. Qed.

(* sizes of a table list *)
Lemma list_obj_facts m objs pads h :
  hinv m objs pads -> In h objs -> p_kind h = KList ->
  0 <= obj_bytes h <= 4294967288 /\ wf_size (p_size h) /\
  (p_comp h = true -> obj_bytes h = 8 + 8 * (p_len h * wc_of h) /\ 0 <= p_len h * wc_of h /\ 8 <= p_off h) /\
  (p_bit h = true \/ PointerCount (p_size h) = 0 -> slots h = []).
Proof.
  intros H Hh Ek. destruct (hi_good _ _ _ H h Hh) as [V G]. pose proof G as (Sh & _ & Gi & _).
  destruct (in_seg_elim _ _ _ _ Gi) as (G1 & G2 & G3 & G4 & G5). rewrite seg_len_bm in G4.
  pose proof (hi_small _ _ _ H (p_seg h)) as Hsm. unfold maxSegmentSize in Hsm.
  unfold shape_ok in Sh. rewrite Ek in Sh. destruct Sh as (Hn & [(Hc & Hk)|(Hc & Hb & Hw & Ht)]).
  - assert (OB := list_alloc_eq h V (proj1 G) Ek Hc).
    destruct Hk as [[Hb Hsz]|[Hb Hsz]]; rewrite Hb in OB.
    + rewrite OB. unfold bitListSize, u32. split; [lia|]. split; [rewrite Hsz; unfold wf_size; cbn; lia|]. split; [congruence|].
      intros _. unfold slots, tgt_of, et_of. rewrite Ek, Hc, Hb. reflexivity.
    + destruct Hsz as [Hsz|(d & Hsz & Hd)]; rewrite Hsz in OB; cbn [DataSize PointerCount] in OB.
      * rewrite OB. split; [lia|]. split; [rewrite Hsz; unfold wf_size; cbn; lia|]. split; [congruence|].
        intros [X|X]; [congruence|rewrite Hsz in X; discriminate X].
      * assert (K : 0 <= d * p_len h <= 4294967288) by nia.
        rewrite OB. replace ((d + 8 * 0) * p_len h) with (d * p_len h) by ring.
        split; [lia|]. split; [rewrite Hsz; unfold wf_size; cbn; lia|]. split; [congruence|].
        intros _. unfold slots, tgt_of, et_of. rewrite Ek, Hc, Hb, Hsz. cbn [PointerCount DataSize children].
        change (0 =? 1) with false. cbv iota zeta.
        destruct Hd as [->|[->|[->|[->| ->]]]]; reflexivity.
  - assert (W0 : 0 <= wc_of h) by (unfold wc_of; destruct Hw as (Hd & Hm & Hp); lia).
    assert (K0 : 0 <= p_len h * wc_of h) by nia.
    assert (OB : obj_bytes h = 8 + 8 * (p_len h * wc_of h)).
    { unfold obj_bytes. rewrite Ek. apply list_alloc_comp; auto; lia. }
    rewrite OB. split; [lia|]. split; [destruct Hw as (Hd & Hm & Hp); unfold wf_size; lia|].
    split.
    + intros _. split; [reflexivity|]. split; [exact K0|]. unfold obj_start in G2. rewrite Hc in G2. lia.
    + intros [X|X]; [congruence|]. unfold slots, tgt_of. rewrite Ek, Hc, X. cbn [children Z.to_nat zseq seq map].
      apply flat_map_nil.
Qed.

(* List.Struct(i) of a table list is a view *)
Lemma list_struct_view objs p i e :
  In (core p) objs -> p_valid p = true -> p_kind p = KList -> list_struct true p i = Ok e ->
  view objs e /\ (p_valid e = true -> p_kind e = KStruct /\ p_seg e = p_seg p /\ p_size e = p_size p).
Proof.
  intros Hin Hv Ek ELS. unfold list_struct in ELS. rewrite Hv in ELS. cbn [negb orb] in ELS.
  destruct ((i <? 0) || (i >=? p_len p)) eqn:EI; [discriminate|].
  destruct (p_bit p) eqn:EB; [apply Ok_inj in ELS; subst e; split; [apply view_null|discriminate]|].
  destruct (element (p_off p) i (totalSize (p_size p))) as [a0|] eqn:EE; [|apply Ok_inj in ELS; subst e; split; [apply view_null|discriminate]].
  apply element_spec in EE. destruct EE as [Ead _]. apply Ok_inj in ELS. subst e. split.
  - right. right. left. exists (core p), i. split; [exact Hin|].
    unfold member_at. cbn [core p_kind p_bit p_len p_valid p_seg p_off p_size p_member]. repeat split; auto; lia.
  - intros _. cbn. auto.
Qed.

Lemma list_copy f : Q_cs f -> forall w objs pads q src w',
  tinv w objs pads -> In q ((0, 0) :: flat_map slots objs) ->
  p_valid src = true -> p_kind src = KList -> In (core src) objs ->
  write_ptr (S f) true w (fst q) (snd q) InDst src true = Ok w' -> nsegs (w_dst w') < B32 ->
  exists h eo ep, tinv w' (objs ++ h :: eo) (pads ++ ep) /\ fresh_target w w' q h.
Proof.
  intros QC w objs pads q src w' [H C] Hq Hv Ek Hin HW Hb. unfold B32 in *.
  destruct (core_facts src) as (C1 & C2 & C3 & C4 & C5 & C6 & C7).
  destruct (list_obj_facts _ _ _ _ H Hin ltac:(cbn [core p_kind]; exact Ek)) as (Sz & Wf & Fc & Fs).
  rewrite C6 in Sz, Fc. cbn [core p_comp p_len p_off p_size p_bit] in Wf, Fc, Fs. rewrite C3 in Fs.
  change (wc_of (core src)) with (wc_of src) in Fc.
  assert (OB : obj_bytes src = list_allocSize src) by (unfold obj_bytes; now rewrite Ek).
  rewrite OB in Sz, Fc. set (sz := list_allocSize src) in *.
  destruct (hi_good _ _ _ H _ Hin) as [_ Gd]. pose proof Gd as (Sh & _ & Gi & _). apply (proj1 C7) in Sh.
  pose proof (hi_tags _ _ _ H _ Hin) as Tg.
  destruct (obj_bounds _ _ _ _ H Hin) as (B1 & B2 & B3 & B4 & B5). rewrite C5 in B2, B3, B4. rewrite C1 in B4. cbn [core p_seg p_off] in B1, B3, B4, B5.
  assert (RS : r_size (obj_reg src) = padToWord sz) by (unfold obj_reg; cbn [r_size]; now rewrite OB).
  rewrite RS in B4.
  destruct (slot_geometry _ _ _ _ H Hq) as (Q1 & Q2 & Q3 & Q4 & _).
  pose proof (hi_inv _ _ _ H) as Hinv.
  unfold write_ptr in HW. cbn [write_ptr_gen] in HW. rewrite Hv, Ek in HW. cbn [negb orb bind] in HW. fold sz in HW.
  destruct (alloc (w_dst w) (fst q) sz) as [[[m1 nsid] naddr]| |] eqn:EA; cbn [bind] in HW; try discriminate.
  destruct (alloc_keeps _ _ _ _ _ _ Hinv Q1 (proj1 Sz) EA) as (K1 & I1 & N1 & S1 & AD & L1 & _ & _ & _ & MX).
  unfold maxSegmentSize in MX. pose proof (zlen_nonneg (mem (w_dst w) nsid)) as Z0.
  pose proof (padToWord_nonneg sz) as PZ.
  set (dl0 := fun (cb : bool) (doff : Z) => mkPtr true nsid doff (p_len src) (p_size src) maxDepth KList cb (p_bit src) false).
  set (I := fun wa : world => inv (w_dst wa) /\ 0 <= nsid < nsegs (w_dst wa)).
  (* what follows the creation of the new list object *)
  assert (Tail : forall cb w2 doff sz' w3, cb = p_comp src -> let dl := dl0 cb in
     (nsegs (w_dst w2) < 4294967296 -> tinv w2 (objs ++ [core (dl doff)]) pads) -> I w2 -> nsegs (w_dst w) <= nsegs (w_dst w2) ->
     (forall i, 0 <= i -> zlen (mem (w_dst w) i) <= zlen (mem (w_dst w2) i)) ->
     0 <= sz' -> doff + sz' <= obj_start (dl doff) + padToWord sz -> p_off src + sz' <= zlen (mem (w_dst w) (p_seg src)) ->
     obj_start (dl doff) = naddr -> obj_start (dl doff) <= doff -> 0 <= doff <= 4294967288 ->
     (if p_bit src || (PointerCount (p_size src) =? 0)
      then copy_bytes w2 InDst (p_seg src) (p_off src) nsid doff sz'
      else fold_res (iota (Z.to_nat (list_len src))) w2
             (fun wa i => do de <- list_struct true (dl doff) i; do se <- list_struct true src i;
                          copy_struct_gen true f true wa de InDst se)) = Ok w3 ->
     (do raw <- list_raw (dl doff); place w3 (fst q) (snd q) nsid naddr raw) = Ok w' ->
     exists h eo ep, tinv w' (objs ++ h :: eo) (pads ++ ep) /\ fresh_target w w' q h).
  { intros cb w2 doff sz' w3 Ecb dl T2 I2 N02 Lm Hs0 Hrd Hrs Eos Hod Hdo E3 EP. subst cb.
    set (cd := core (dl doff)) in *.
    set (estep := fun (wa : world) (i : Z) => do de <- list_struct true (dl doff) i; do se <- list_struct true src i;
                                               copy_struct_gen true f true wa de InDst se) in *.
    destruct (list_raw (dl doff)) as [raw| |] eqn:ER; cbn [bind] in EP; try discriminate.
    (* frame of the middle part, then the bounds *)
    assert (M3 : I w3 /\ nsegs (w_dst w2) <= nsegs (w_dst w3)).
    { destruct (p_bit src || (PointerCount (p_size src) =? 0)) eqn:EBP.
      - unfold copy_bytes in E3. destruct (slice _ _ _) as [b| |] eqn:ES; cbn [bind] in E3; try discriminate.
        unfold lift0 in E3. destruct (seg_write (w_dst w2) nsid doff b) as [m3| |] eqn:EW; cbn [bind] in E3; try discriminate.
        apply Ok_inj in E3. subst w3. destruct I2 as [Ia Ra].
        apply seg_write_wrote in EW; [|lia|apply (slice_len _ _ _ _ ES)].
        assert (N : nsegs m3 = nsegs (w_dst w2)) by (unfold nsegs; apply (wrote_nsegs _ _ _ _ _ EW)).
        unfold I. cbn [w_dst w_set_dst]. split; [split; [apply (wrote_inv _ _ _ _ _ EW); [lia|exact Ia]|lia]|lia].
      - apply (fold_mono I (iota (Z.to_nat (list_len src))) estep) with (wa := w2); auto.
        intros wa i wb _ [Ia Ra] E. unfold estep in E.
        destruct (list_struct true (dl doff) i) as [de| |] eqn:ED; cbn [bind] in E; try discriminate.
        destruct (list_struct true src i) as [se| |] eqn:ESe; cbn [bind] in E; try discriminate.
        destruct (p_valid de) eqn:Vde.
        2:{ destruct f; cbn [copy_struct_gen] in E; [discriminate|]. rewrite Vde in E. discriminate. }
        destruct (list_struct_facts _ _ _ ED Vde) as (F1 & F2 & F3 & _). unfold dl, dl0 in F1, F2, F3. cbn [p_seg p_size p_off] in F1, F2, F3.
        destruct (frame_all true f) as [_ FC].
        assert (Wde : wf_size (p_size de)) by (rewrite F2; exact Wf).
        assert (Rde : 0 <= p_seg de < nsegs (w_dst wa)) by (rewrite F1; exact Ra).
        assert (Ode : 0 <= p_off de <= 4294967295) by lia.
        assert (Sse : sz_ok se).
        { intros Vse. destruct (list_struct_facts _ _ _ ESe Vse) as (_ & X & _). rewrite X. exact Wf. }
        destruct (FC true wa de InDst se wb Ia Rde Wde Ode Sse E) as (_ & Ib & Nb & _).
        split; [split; [exact Ib|lia]|exact Nb]. }
    destruct M3 as [[I3 R3] N23].
    destruct (place_keeps w3 (fst q) (snd q) nsid naddr raw w' I3 ltac:(lia) R3 EP) as (_ & _ & N3' & _).
    destruct (T2 ltac:(lia)) as [H2 Cc2].
    assert (Hcd : In cd (objs ++ [cd])) by (apply in_or_app; right; left; reflexivity).
    assert (ROcd : r_size (obj_reg cd) = padToWord sz).
    { unfold obj_reg, obj_bytes, cd, core, dl, dl0. cbn [r_size p_kind]. unfold list_allocSize. cbn [p_valid p_bit p_size p_len p_comp negb].
      unfold sz, list_allocSize. rewrite Hv. reflexivity. }
    (* data or elements *)
    assert (T3 : exists eo ep, tinv w3 ((objs ++ [cd]) ++ eo) (pads ++ ep)).
    { destruct (p_bit src || (PointerCount (p_size src) =? 0)) eqn:EBP.
      - unfold copy_bytes in E3. cbn [w_segs] in E3. rewrite nth_bm_data in E3.
        pose proof (hi_small _ _ _ H2 (p_seg src)) as SmS. unfold maxSegmentSize in SmS.
        pose proof (Lm (p_seg src) ltac:(lia)) as LmS.
        rewrite (slice_ok (mem (w_dst w2) (p_seg src)) (p_off src) sz') in E3 by lia. cbn [bind] in E3.
        set (b := sub (mem (w_dst w2) (p_seg src)) (p_off src) sz') in *.
        assert (Lb : zlen b = sz') by (apply sub_length; lia).
        unfold lift0 in E3. destruct (seg_write (w_dst w2) nsid doff b) as [m3| |] eqn:EW; cbn [bind] in E3; try discriminate.
        apply Ok_inj in E3. subst w3. apply seg_write_wrote in EW; [|lia|lia].
        apply tinv_ext. split; [|exact Cc2]. cbn [w_dst w_set_dst].
        apply (hinv_data_write (w_dst w2) (objs ++ [cd]) pads m3 cd doff b); auto.
        + unfold cd, core, dl, dl0. cbn [p_seg]. lia.
        + unfold cd, core, dl, dl0. cbn [p_off]. lia.
        + rewrite Lb, ROcd. exact Hrd.
        + intros x Hx. exfalso.
          assert (SN : slots cd = []).
          { destruct (list_obj_facts _ _ _ _ H2 Hcd eq_refl) as (_ & _ & _ & X). apply X.
            unfold cd, core, dl, dl0. cbn [p_bit p_size]. destruct (p_bit src); [left; reflexivity|right]. cbn [orb] in EBP. lia. }
          rewrite SN in Hx. destruct Hx.
      - (* the elements are copied one by one *)
        destruct (fold_thread I (objs ++ [cd]) pads (iota (Z.to_nat (list_len src))) estep)
          with (wa := w2) (eo := @nil Ptr) (ep := @nil region) (w2 := w3) as (eo1 & ep1 & T3); auto; try lia.
        + intros wa i wb _ [Ia Ra] E. unfold estep in E.
          destruct (list_struct true (dl doff) i) as [de| |] eqn:ED; cbn [bind] in E; try discriminate.
          destruct (list_struct true src i) as [se| |] eqn:ESe; cbn [bind] in E; try discriminate.
          destruct (p_valid de) eqn:Vde.
          2:{ destruct f; cbn [copy_struct_gen] in E; [discriminate|]. rewrite Vde in E. discriminate. }
          destruct (list_struct_facts _ _ _ ED Vde) as (F1 & F2 & F3 & _). unfold dl, dl0 in F1, F2, F3. cbn [p_seg p_size p_off] in F1, F2, F3.
          destruct (frame_all true f) as [_ FC].
          assert (Wde : wf_size (p_size de)) by (rewrite F2; exact Wf).
          assert (Rde : 0 <= p_seg de < nsegs (w_dst wa)) by (rewrite F1; exact Ra).
          assert (Ode : 0 <= p_off de <= 4294967295) by lia.
          assert (Sse : sz_ok se).
          { intros Vse. destruct (list_struct_facts _ _ _ ESe Vse) as (_ & X & _). rewrite X. exact Wf. }
          destruct (FC true wa de InDst se wb Ia Rde Wde Ode Sse E) as (_ & Ib & Nb & _).
          split; [split; [exact Ib|lia]|exact Nb].
        + intros wa eo ep [Ha _]. split; [exact (hi_inv _ _ _ Ha)|].
          destruct (obj_bounds _ _ _ _ Ha (in_or_app _ _ _ (or_introl Hcd))) as (X & _). unfold cd, core, dl, dl0 in X. cbn [p_seg] in X. exact X.
        + intros wa eo ep i wb _ [Ha Ca] E Hbb. unfold estep in E.
          destruct (list_struct true (dl doff) i) as [de| |] eqn:ED; cbn [bind] in E; try discriminate.
          destruct (list_struct true src i) as [se| |] eqn:ESe; cbn [bind] in E; try discriminate.
          destruct (list_struct_view ((objs ++ [cd]) ++ eo) (dl doff) i de) as [Vde Kde]; auto.
          { apply in_or_app. left. exact Hcd. }
          destruct (list_struct_view ((objs ++ [cd]) ++ eo) src i se) as [Vse Kse]; auto.
          { apply in_or_app. left. apply in_or_app. left. exact Hin. }
          destruct (QC wa ((objs ++ [cd]) ++ eo) (pads ++ ep) de se wb) as (eo' & ep' & T'); auto.
          * split; auto.
          * intros X. apply Kde. exact X.
          * intros X. apply Kse. exact X.
          * exists eo', ep'. rewrite <- !app_assoc in T'. rewrite <- !app_assoc. exact T'.
        + rewrite !app_nil_r. split; auto.
        + unfold B32. lia.
        + cbn [app] in T3. exists eo1, ep1. exact T3. }
    destruct T3 as (eo & ep & [H3 Cc3]).
    (* the pointer to the new list *)
    assert (Hq3 : In q ((0, 0) :: flat_map slots ((objs ++ [cd]) ++ eo))) by (apply slots_app, slots_app; exact Hq).
    assert (Hcd3 : In cd ((objs ++ [cd]) ++ eo)) by (apply in_or_app; left; exact Hcd).
    destruct (hinv_place_full (w_dst w3) ((objs ++ [cd]) ++ eo) (pads ++ ep) w3 q cd raw w') as (pads' & H' & Rs' & _); auto; try lia.
    all: try (unfold cd, core, dl, dl0; cbn [p_kind]; discriminate).
    all: try (unfold raw_of, cd, core, dl, dl0; cbn [p_kind]; exact ER).
    all: try (change (obj_start cd) with (obj_start (dl doff)); rewrite Eos; unfold cd, core, dl, dl0; cbn [p_seg]; exact EP).
    exists cd, eo, (ep ++ pads'). split.
    - change (cd :: eo) with ([cd] ++ eo). rewrite !app_assoc. split; [exact H'|exact Cc3].
    - split; [|exists pads'; exact Rs']. change (obj_start cd) with (obj_start (dl doff)). rewrite Eos.
      unfold cd, core, dl, dl0. cbn [p_seg]. exact AD. }
  assert (PS : sz <= padToWord sz <= sz + 7) by (unfold padToWord, u32; lia).
  assert (ShD : forall doff, shape_ok (core (dl0 (p_comp src) doff))).
  { intros doff. unfold shape_ok in *. unfold core, dl0. cbn [p_kind p_len p_comp p_bit p_size]. rewrite Ek in Sh.
    unfold wc_of in *. cbn [p_size]. exact Sh. }
  assert (ObD : forall doff, obj_bytes (core (dl0 (p_comp src) doff)) = sz).
  { intros doff. unfold obj_bytes, core, dl0. cbn [p_kind]. unfold sz, list_allocSize. cbn [p_valid p_bit p_size p_len p_comp negb].
    rewrite Hv. reflexivity. }
  assert (Lm1 : forall i, 0 <= i -> zlen (mem (w_dst w) i) <= zlen (mem m1 i)) by (intros i Hi; apply (proj1 K1); exact Hi).
  cbn [w_segs w_dst w_set_dst] in HW. rewrite nth_bm_data in HW.
  destruct (p_comp src) eqn:Hc.
  - (* composite list: the tag word is copied first *)
    destruct (Fc eq_refl) as (Esz & K0 & Hoff8).
    destruct (Tg Ek Hc) as (tag & Etag & Wtag). cbn [core p_len p_size p_seg p_off] in Etag, Wtag.
    assert (OS : obj_start src = p_off src - 8) by (unfold obj_start; now rewrite Hc).
    rewrite OS in B2, B3, B4.
    assert (U8 : u32 (p_off src - 8) = p_off src - 8) by (unfold u32; lia). rewrite U8 in HW.
    assert (RT : readRawPointer (mem m1 (p_seg src)) (p_off src - 8) = Ok tag).
    { rewrite <- nth_bm_data. apply read_of_word_at; [|lia]. rewrite <- Wtag.
      apply (keeps_word (w_dst w) m1 Rnone); auto; try lia; try (intros k _ X; exact X). }
    rewrite RT in HW. cbn [bind] in HW. unfold lift0 in HW.
    destruct (writeRawPointer m1 nsid naddr tag) as [m2| |] eqn:EW; cbn [bind] in HW; try discriminate.
    destruct (addSize naddr 8) as [o|] eqn:EO; [|discriminate]. apply addSize_spec in EO. destruct EO as [-> EO].
    cbn [bind] in HW. cbv beta iota in HW.
    match type of HW with context [bind (if p_bit src || _ then ?A else ?B) _] =>
      destruct (if p_bit src || (PointerCount (p_size src) =? 0) then A else B) as [w3| |] eqn:E3 end;
      cbn [bind] in HW; try discriminate.
    cbv beta iota in HW. cbn [p_comp p_off p_seg] in HW.
    assert (S10 : 0 <= nsid) by lia.
    destruct (writeRawPointer_keeps _ _ _ _ _ S10 I1 EW) as (K2 & I2 & N2 & _).
    assert (W2 := EW). apply writeRawPointer_wrote in W2; [|lia].
    assert (U2 : u32 (sz - 8) = sz - 8) by (unfold u32; lia).
    assert (U3 : u32 (naddr + 8 - 8) = naddr) by (unfold u32; lia). rewrite U3 in HW.
    apply (Tail true (w_set_dst (w_set_dst w m1) m2) (naddr + 8) (u32 (sz - 8)) w3); auto; cbv zeta; cbn [w_dst w_set_dst]; try lia.
    + intros Hb2. split; [|apply cores_snoc; exact C].
      apply (hinv_alloc_comp (w_dst w) objs pads (fst q) sz m1 nsid naddr tag m2 (core (dl0 true (naddr + 8)))); auto; try reflexivity; try lia.
    + unfold I. cbn [w_dst w_set_dst]. split; [exact I2|lia].
    + intros i Hi. rewrite (wrote_len _ _ _ _ _ i W2 Hi). apply Lm1. exact Hi.
    + unfold obj_start, dl0. cbn [p_comp p_off]. lia.
    + unfold obj_start, dl0. cbn [p_comp p_off]. lia.
    + unfold obj_start, dl0. cbn [p_comp p_off]. lia.
  - (* plain list *)
    assert (OS : obj_start src = p_off src) by (unfold obj_start; now rewrite Hc).
    rewrite OS in B2, B3, B4.
    cbn [bind] in HW. cbv beta iota in HW.
    match type of HW with context [bind (if p_bit src || _ then ?A else ?B) _] =>
      destruct (if p_bit src || (PointerCount (p_size src) =? 0) then A else B) as [w3| |] eqn:E3 end;
      cbn [bind] in HW; try discriminate.
    cbv beta iota in HW. cbn [p_comp p_off p_seg] in HW.
    apply (Tail false (w_set_dst w m1) naddr sz w3); auto; cbv zeta; cbn [w_dst w_set_dst]; try lia.
    + intros Hb2. split; [|apply cores_snoc; exact C].
      apply (hinv_alloc_obj (w_dst w) objs pads (fst q) sz m1 nsid naddr (core (dl0 false naddr))); auto; try reflexivity; try lia.
    + unfold I. cbn [w_dst w_set_dst]. split; [exact I1|lia].
    + unfold obj_start, dl0. cbn [p_comp p_off]. lia.
    + unfold obj_start, dl0. cbn [p_comp p_off]. lia.
Qed.

(* ------------------------------------------------------------------ writePtr, all branches *)
Lemma wp_step f : Q_cs f -> Q_wp (S f).
Proof.
  intros QC w objs pads q src fc w' [H C] Hq Vs HW Hb.
  assert (NC : (p_valid src = false \/ In (core src) objs /\ p_member src = false /\ fc = false \/
                p_kind src = KStruct /\ os_isZero (p_size src) = true \/
                p_kind src = KIface /\ 0 <= p_len src < 4294967296) ->
               exists eo ep, tinv w' (objs ++ eo) (pads ++ ep)).
  { intros Hsrc. destruct (write_ptr_hinv_gen f w objs pads q src fc w' H Hq Hsrc HW Hb) as [pads' H'].
    exists [], pads'. rewrite app_nil_r. split; auto. }
  destruct (p_valid src) eqn:Hv; [|apply NC; auto].
  pose proof Vs as Vs0.
  destruct Vs as [V|[[M V]|[(hl & i & Hhl & MA)|[(Ek & Esz & _)|(Ek & Hl & _)]]]]; [congruence| | | |].
  - (* a handle of a table object *)
    destruct fc; [|apply NC; auto].
    destruct (p_kind src) eqn:Ek.
    + destruct (os_isZero (p_size src)) eqn:EZ; [apply NC; auto|].
      destruct (struct_copy f QC w objs pads q src true w') as (h & eo & ep & T & _); auto; [split; auto|]. exists (h :: eo), ep. exact T.
    + destruct (list_copy f QC w objs pads q src w') as (h & eo & ep & T & _); auto; [split; auto|]. exists (h :: eo), ep. exact T.
    + exfalso. destruct (core_facts src) as (_ & _ & _ & _ & _ & _ & C7).
      destruct (hi_good _ _ _ H _ V) as [_ (Sh & _)]. apply (proj1 C7) in Sh. unfold shape_ok in Sh. rewrite Ek in Sh. exact Sh.
  - (* a list member *)
    destruct MA as (_ & _ & _ & _ & _ & _ & _ & Ek & Hm).
    destruct (os_isZero (p_size src)) eqn:EZ; [apply NC; auto|].
    destruct (struct_copy f QC w objs pads q src fc w') as (h & eo & ep & T & _); auto; [split; auto|rewrite Hm; apply Bool.orb_true_r|].
    exists (h :: eo), ep. exact T.
  - apply NC. right. right. left. split; [exact Ek|]. rewrite Esz. reflexivity.
  - apply NC. right. right. right. auto.
Qed.

(* [copy_all]: writePtr and copyStruct inside one message, with any view of the table as source
   and any pointer slot / struct view as destination, for every forceCopy, keep the table
   invariant; the tables only grow *)
Theorem copy_all : forall f, Q_wp f /\ Q_cs f.
Proof.
  induction f as [|f [IW IC]].
  - split.
    + intros w objs pads q src fc w' _ _ _ HW. discriminate HW.
    + intros w objs pads dst src w' _ _ _ _ _ HW. discriminate HW.
  - split; [apply wp_step; exact IC|apply cs_step; exact IW].
Qed.

(* [forced_copy_fresh]: what a COPYING writePtr inside one message does, at every level of the
   recursion.  Whenever writePtr copies - forceCopy (every pointer copied by copyStruct), or the
   source is a list member - and the source is a non-empty struct or a list, the tables grow by
   at least one entry [h], the copy: it starts at the old end of its segment (so it is none of the
   older objects, the source included: the invariant for [objs ++ h :: eo] makes it disjoint from
   all of them) and the slot written resolves to exactly [h].  Since copyStruct writes every
   pointer of the copy through writePtr with forceCopy, the same holds for every pointer slot
   below: no slot of a copy designates an object that existed before the call. *)
Theorem forced_copy_fresh f w objs pads q src fc w' :
  tinv w objs pads -> In q ((0, 0) :: flat_map slots objs) -> view objs src ->
  p_valid src = true -> p_kind src <> KIface -> (p_kind src = KStruct -> os_isZero (p_size src) = false) ->
  fc || p_member src = true ->
  write_ptr (S f) true w (fst q) (snd q) InDst src fc = Ok w' -> nsegs (w_dst w') < B32 ->
  exists h eo ep, tinv w' (objs ++ h :: eo) (pads ++ ep) /\ fresh_target w w' q h.
Proof.
  intros [H C] Hq Vs Hv Hni Hnz Hcp HW Hb. destruct (copy_all f) as [_ QC].
  pose proof Vs as Vs0.
  destruct Vs as [V|[[M V]|[(hl & i & Hhl & MA)|[(Ek & Esz & _)|(Ek & Hl & _)]]]]; [congruence| | | |].
  - rewrite M in Hcp. rewrite Bool.orb_false_r in Hcp. subst fc.
    destruct (p_kind src) eqn:Ek.
    + apply (struct_copy f QC w objs pads q src true w'); auto. split; auto.
    + apply (list_copy f QC w objs pads q src w'); auto. split; auto.
    + congruence.
  - destruct MA as (_ & _ & _ & _ & _ & _ & _ & Ek & Hm).
    apply (struct_copy f QC w objs pads q src fc w'); auto. split; auto.
  - exfalso. specialize (Hnz Ek). rewrite Esz in Hnz. discriminate.
  - congruence.
Qed.
