(* C05: the copy paths of writePtr / copyStruct inside one message keep the table invariant
   (mutual induction threading the object and pad tables). *)
From CV Require Import Core.Builder Core.ReaderFacts Core.ArithFacts Core.BuilderFacts Core.AllocProofs
  Core.WritePtrProofs Core.HeapProofs Core.CopyProofs Core.BuildOps Core.BuildValid Core.BuildInv Core.HeapInv Core.ReadBridge
  Core.HeapOps.
From Coq Require Import ZifyBool ZifyNat.
Open Scope Z_scope.

Ltac Zify.zify_post_hook ::= Z.div_mod_to_equations.
