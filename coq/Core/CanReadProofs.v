(* traversal_bound_conc: invariants of the canRead CAS loop over ALL interleavings, and
   termination of every schedule. *)
From CV Require Export Core.CanRead.
From Coq Require Import ZifyBool.
Open Scope Z_scope.

(* ------------------------------------------------------------------ lists *)
Lemma zlen_nonneg' {A} (l : list A) : 0 <= zlen l.
Proof. unfold zlen. lia. Qed.

Lemma upd_length {A} (x : A) : forall l n, length (upd n x l) = length l.
Proof. induction l as [|y l IH]; intros [|n]; cbn; auto. Qed.

Lemma sumZ_upd {A} (f : A -> Z) (x : A) : forall l n old, nth_error l n = Some old ->
  sumZ f (upd n x l) = sumZ f l - f old + f x.
Proof.
  induction l as [|y l IH]; intros [|n] old H; cbn in H; try discriminate.
  - inversion H; subst. cbn. lia.
  - cbn [upd sumZ fold_right]. specialize (IH n old H). unfold sumZ in IH. lia.
Qed.

Lemma Forall_upd {A} (P : A -> Prop) (x : A) : forall l n, Forall P l -> P x -> Forall P (upd n x l).
Proof.
  induction l as [|y l IH]; intros [|n] H Hx; cbn; auto; inversion H; subst; constructor; auto.
Qed.

Lemma nth_error_Forall {A} (P : A -> Prop) l n x : Forall P l -> nth_error l n = Some x -> P x.
Proof. intros H E. rewrite Forall_forall in H. apply H. eapply nth_error_In. eassumption. Qed.

Lemma nth_error_upd_same {A} (x : A) : forall l n, (n < length l)%nat -> nth_error (upd n x l) n = Some x.
Proof. induction l as [|y l IH]; intros [|n] H; cbn in *; try lia; auto. apply IH. lia. Qed.
Lemma nth_error_upd_other {A} (x : A) : forall l n k, n <> k -> nth_error (upd n x l) k = nth_error l k.
Proof. induction l as [|y l IH]; intros [|n] [|k] H; cbn; auto; try congruence. Qed.

(* ------------------------------------------------------------------ the accounting invariant *)
Definition th_ok (th : thread) : Prop := Forall (fun sz => 0 <= sz) (t_pending th).

Definition cinv (T0 : Z) (cf : cconf) : Prop :=
  Forall th_ok (c_threads cf) /\
  0 <= c_rlimit cf /\ 0 <= granted cf /\
  c_rlimit cf + granted cf <= T0 /\
  (nrefused cf = 0 -> c_rlimit cf + granted cf = T0).

Lemma cinv_init T0 reqs : 0 <= T0 -> Forall (Forall (fun sz => 0 <= sz)) reqs -> cinv T0 (cinit T0 reqs).
Proof.
  intros HT Hr. unfold cinv, cinit, granted, nrefused. cbn [c_rlimit c_threads].
  assert (forall l, sumZ th_granted (map (fun l => mkTh Idle l []) l) = 0) as G
    by (induction l; cbn; auto; rewrite IHl; reflexivity).
  rewrite G. split; [|lia].
  induction Hr; cbn; constructor; auto.
Qed.

(* the result of one step, by cases *)
Lemma cstep_cases cf tid cf' : cstep cf tid = Some cf' ->
  exists th sz rest, nth_error (c_threads cf) tid = Some th /\ t_pending th = sz :: rest /\
  ((* Load *)
   (t_pc th = Idle /\
    cf' = mkCC (c_rlimit cf) (upd tid (mkTh (Loaded (c_rlimit cf)) (sz :: rest) (t_done th)) (c_threads cf))) \/
   (* successful CAS: the request returns *)
   (exists ok new, t_pc th = Loaded (c_rlimit cf) /\ canRead (c_rlimit cf) sz = (ok, new) /\
    cf' = mkCC new (upd tid (mkTh Idle rest ((sz, ok) :: t_done th)) (c_threads cf))) \/
   (* failed CAS: retry *)
   (exists curr, t_pc th = Loaded curr /\ curr <> c_rlimit cf /\
    cf' = mkCC (c_rlimit cf) (upd tid (mkTh Idle (sz :: rest) (t_done th)) (c_threads cf)))).
Proof.
  unfold cstep. destruct (nth_error (c_threads cf) tid) as [th|] eqn:En; [|discriminate].
  destruct (t_pending th) as [|sz rest] eqn:Ep; [discriminate|].
  intros H. exists th, sz, rest. split; [reflexivity|]. split; [exact Ep|].
  destruct (t_pc th) as [|curr] eqn:Epc.
  - left. inversion H. auto.
  - right. destruct (canRead curr sz) as [ok new] eqn:Ec.
    destruct (c_rlimit cf =? curr) eqn:E.
    + left. assert (curr = c_rlimit cf) as -> by lia. exists ok, new. inversion H. auto.
    + right. exists curr. inversion H. repeat split; auto. lia.
Qed.

Lemma th_refused_nonneg t : 0 <= th_refused t.
Proof.
  unfold th_refused. induction (t_done t) as [|[a b] d IHd]; cbn; [lia|]. unfold sumZ in IHd. destruct b; lia.
Qed.
Lemma nrefused_nonneg l : 0 <= sumZ th_refused l.
Proof. induction l as [|t l IH]; cbn; [lia|]. pose proof (th_refused_nonneg t). unfold sumZ in IH. lia. Qed.

Lemma th_granted_same pc1 pend th : th_granted (mkTh pc1 pend (t_done th)) = th_granted th.
Proof. reflexivity. Qed.
Lemma th_refused_same pc1 pend th : th_refused (mkTh pc1 pend (t_done th)) = th_refused th.
Proof. reflexivity. Qed.
Lemma th_granted_cons pc1 pend sz ok th :
  th_granted (mkTh pc1 pend ((sz, ok) :: t_done th)) = (if ok then sz else 0) + th_granted th.
Proof. reflexivity. Qed.
Lemma th_refused_cons pc1 pend sz ok th :
  th_refused (mkTh pc1 pend ((sz, ok) :: t_done th)) = (if ok then 0 else 1) + th_refused th.
Proof. reflexivity. Qed.

Lemma cinv_step T0 cf tid cf' : cinv T0 cf -> cstep cf tid = Some cf' -> cinv T0 cf'.
Proof.
  intros (Hth & Hr & Hg & Hle & Heq) Hs.
  destruct (cstep_cases cf tid cf' Hs) as (th & sz & rest & En & Ep & Hc).
  pose proof (nth_error_Forall _ _ _ _ Hth En) as Hok. unfold th_ok in Hok. rewrite Ep in Hok.
  assert (0 <= sz) as Hsz by (inversion Hok; assumption).
  assert (Forall (fun sz => 0 <= sz) rest) as Hrest by (inversion Hok; assumption).
  pose proof (nrefused_nonneg (c_threads cf)) as Hnn. pose proof (th_refused_nonneg th) as Hnt.
  destruct Hc as [[Hpc ->] | [(ok & new & Hpc & Hcr & ->) | (curr & Hpc & Hne & ->)]];
    unfold cinv, granted, nrefused in *; cbn [c_rlimit c_threads].
  - rewrite !(sumZ_upd _ _ _ _ _ En), th_granted_same, th_refused_same.
    split; [apply Forall_upd; [assumption|exact Hok]|].
    split; [lia|]. split; [lia|]. split; [lia|]. intros H. assert (sumZ th_refused (c_threads cf) = 0) as H' by lia. specialize (Heq H'). lia.
  - rewrite !(sumZ_upd _ _ _ _ _ En), th_granted_cons, th_refused_cons.
    split; [apply Forall_upd; [assumption|exact Hrest]|].
    unfold canRead in Hcr. destruct (c_rlimit cf >=? sz) eqn:E; inversion Hcr; subst ok new.
    + split; [lia|]. split; [lia|]. split; [lia|]. intros H.
      assert (sumZ th_refused (c_threads cf) = 0) as H' by lia. specialize (Heq H'). lia.
    + split; [lia|]. split; [lia|]. split; [lia|]. intros H. exfalso. lia.
  - rewrite !(sumZ_upd _ _ _ _ _ En), th_granted_same, th_refused_same.
    split; [apply Forall_upd; [assumption|exact Hok]|].
    split; [lia|]. split; [lia|]. split; [lia|]. intros H. assert (sumZ th_refused (c_threads cf) = 0) as H' by lia. specialize (Heq H'). lia.
Qed.

(* traversal_bound_conc: for EVERY interleaving (any number of threads, any schedule) of
   requests with sizes >= 0 from initial budget T0 >= 0:
   - the sizes of all granted requests never exceed T0;
   - as long as no request has been refused, budget + granted = T0 exactly;
   - the budget never goes negative. *)
Theorem traversal_bound_conc T0 reqs cf : 0 <= T0 -> Forall (Forall (fun sz => 0 <= sz)) reqs ->
  reach (cinit T0 reqs) cf ->
  0 <= c_rlimit cf /\ 0 <= granted cf <= T0 /\ c_rlimit cf + granted cf <= T0 /\
  (nrefused cf = 0 -> c_rlimit cf + granted cf = T0).
Proof.
  intros HT Hr Hre.
  assert (cinv T0 cf) as (H1 & H2 & H3 & H4 & H5).
  { induction Hre; [apply cinv_init; assumption|eapply cinv_step; eassumption]. }
  repeat split; try assumption; lia.
Qed.

Lemma exec_reach cf0 : forall sched cf cf', reach cf0 cf -> exec cf sched = Some cf' -> reach cf0 cf'.
Proof.
  induction sched as [|tid r IH]; intros cf cf' Hr H; cbn in H.
  - inversion H; subst. assumption.
  - destruct (cstep cf tid) as [cf1|] eqn:E; [|discriminate].
    eapply IH; [|eassumption]. eapply reach_step; eassumption.
Qed.

(* ------------------------------------------------------------------ termination *)
(* A CAS fails only when the value the thread loaded is stale, and the shared word only
   changes when some request RETURNS (a successful CAS); so every failed CAS is paid for by
   another thread's completed request.  Measure: pending requests, then per-thread phase
   (stale-loaded 3 > idle 2 > fresh-loaded 1 > finished 0). *)
Definition th_score (rl : Z) (th : thread) : Z :=
  match t_pending th with
  | [] => 0
  | _ => match t_pc th with Idle => 2 | Loaded c => if c =? rl then 1 else 3 end
  end.
Definition score (cf : cconf) : Z := sumZ (th_score (c_rlimit cf)) (c_threads cf).
Definition nthreads (cf : cconf) : Z := zlen (c_threads cf).
Definition measure (cf : cconf) : Z := npending cf * (3 * nthreads cf + 1) + score cf.

Lemma th_score_range rl th : 0 <= th_score rl th <= 3.
Proof. unfold th_score. destruct (t_pending th); [lia|]. destruct (t_pc th); [lia|]. destruct (_ =? _); lia. Qed.
Lemma score_range rl l : 0 <= sumZ (th_score rl) l <= 3 * zlen l.
Proof.
  induction l as [|t l IH]; cbn [sumZ fold_right]; [cbn; lia|].
  pose proof (th_score_range rl t). unfold sumZ in IH. unfold zlen in *. cbn [length]. lia.
Qed.
Lemma npending_nonneg l : 0 <= sumZ (fun th => zlen (t_pending th)) l.
Proof.
  induction l as [|t l IH]; cbn [sumZ fold_right]; [lia|]. unfold sumZ in IH. unfold zlen in *. lia.
Qed.
Lemma measure_nonneg cf : 0 <= measure cf.
Proof.
  unfold measure, score, nthreads, npending.
  pose proof (score_range (c_rlimit cf) (c_threads cf)). pose proof (npending_nonneg (c_threads cf)).
  pose proof (zlen_nonneg' (c_threads cf)). nia.
Qed.

(* the shared word changes only when a request returns *)
Lemma rlimit_changes_only_by_return cf tid cf' : cstep cf tid = Some cf' ->
  c_rlimit cf' <> c_rlimit cf -> npending cf' = npending cf - 1.
Proof.
  intros Hs Hne. destruct (cstep_cases cf tid cf' Hs) as (th & sz & rest & En & Ep & Hc).
  destruct Hc as [[Hpc ->] | [(ok & new & Hpc & Hcr & ->) | (curr & Hpc & Hne' & ->)]];
    cbn [c_rlimit] in Hne; try congruence.
  unfold npending. cbn [c_threads]. rewrite (sumZ_upd _ _ _ _ _ En). cbn [t_pending]. rewrite Ep.
  unfold zlen. cbn [length]. lia.
Qed.

(* a CAS fails only on a stale value *)
Lemma cas_fails_only_when_stale cf tid cf' th : cstep cf tid = Some cf' ->
  nth_error (c_threads cf) tid = Some th ->
  forall curr, t_pc th = Loaded curr -> npending cf' = npending cf -> curr <> c_rlimit cf.
Proof.
  intros Hs En curr Hpc Hnp. destruct (cstep_cases cf tid cf' Hs) as (th' & sz & rest & En' & Ep & Hc).
  rewrite En in En'. inversion En'; subst th'.
  destruct Hc as [[Hpc' _] | [(ok & new & Hpc' & Hcr & ->) | (curr' & Hpc' & Hne' & _)]]; try congruence.
  exfalso. unfold npending in Hnp. cbn [c_threads] in Hnp. rewrite (sumZ_upd _ _ _ _ _ En) in Hnp.
  cbn [t_pending] in Hnp. rewrite Ep in Hnp. unfold zlen in Hnp. cbn [length] in Hnp. lia.
Qed.

Lemma measure_decreases cf tid cf' : cstep cf tid = Some cf' -> measure cf' < measure cf.
Proof.
  intros Hs. destruct (cstep_cases cf tid cf' Hs) as (th & sz & rest & En & Ep & Hc).
  pose proof (score_range (c_rlimit cf) (c_threads cf)) as Hsc.
  pose proof (npending_nonneg (c_threads cf)) as Hnp. pose proof (zlen_nonneg' (c_threads cf)) as Hk.
  destruct Hc as [[Hpc ->] | [(ok & new & Hpc & Hcr & ->) | (curr & Hpc & Hne & ->)]];
    unfold measure, score, nthreads, npending in *; cbn [c_rlimit c_threads];
    unfold zlen at 2; rewrite upd_length; fold (zlen (c_threads cf)).
  - rewrite !(sumZ_upd _ _ _ _ _ En).
    unfold th_score at 2 3. cbn [t_pending t_pc]. rewrite Ep, Hpc. rewrite Z.eqb_refl. lia.
  - pose proof (score_range new (upd tid (mkTh Idle rest ((sz, ok) :: t_done th)) (c_threads cf))) as Hs'.
    unfold zlen in Hs' at 1. rewrite upd_length in Hs'. fold (zlen (c_threads cf)) in Hs'.
    rewrite (sumZ_upd (fun th0 => zlen (t_pending th0)) _ _ _ _ En).
    cbn [t_pending]. rewrite Ep. unfold zlen at 2 3. cbn [length].
    set (K := 3 * zlen (c_threads cf) + 1) in *.
    set (P := sumZ (fun th0 => zlen (t_pending th0)) (c_threads cf)) in *.
    set (S' := sumZ (th_score new) _) in *. set (S0 := sumZ (th_score (c_rlimit cf)) _) in *.
    replace (P - Z.of_nat (S (length rest)) + Z.of_nat (length rest)) with (P - 1) by lia. nia.
  - rewrite !(sumZ_upd _ _ _ _ _ En).
    unfold th_score at 2 3. cbn [t_pending t_pc]. rewrite Ep, Hpc.
    destruct (curr =? c_rlimit cf) eqn:E; [lia|]. lia.
Qed.

(* every schedule is finite: at most [measure] steps can be taken from a configuration,
   whatever the interleaving (so every thread's retry loop terminates) *)
Theorem canread_terminates : forall sched cf cf', exec cf sched = Some cf' ->
  Z.of_nat (length sched) + measure cf' <= measure cf.
Proof.
  induction sched as [|tid r IH]; intros cf cf' H; cbn [exec length] in H |- *.
  - inversion H; subst. lia.
  - destruct (cstep cf tid) as [cf1|] eqn:E; [|discriminate].
    pose proof (measure_decreases cf tid cf1 E). specialize (IH cf1 cf' H). lia.
Qed.

Corollary schedule_length_bound sched cf cf' : exec cf sched = Some cf' ->
  Z.of_nat (length sched) <= measure cf.
Proof. intros H. pose proof (canread_terminates sched cf cf' H). pose proof (measure_nonneg cf'). lia. Qed.

(* ------------------------------------------------------------------ solo progress *)
(* once the other threads stop, a thread completes its current request within three of its
   own steps (failed CAS on a stale value, Load, successful CAS) *)
Definition completes (cf : cconf) (tid : nat) (th : thread) (sz : Z) (rest : list Z) (n : nat) : Prop :=
  exists cf' th' ok, exec cf (repeat tid n) = Some cf' /\ nth_error (c_threads cf') tid = Some th' /\
                     t_pending th' = rest /\ t_done th' = (sz, ok) :: t_done th.

Lemma nth_error_lt {A} (l : list A) n x : nth_error l n = Some x -> (n < length l)%nat.
Proof. intros H. apply nth_error_Some. congruence. Qed.

Lemma solo_fresh cf tid th sz rest : nth_error (c_threads cf) tid = Some th ->
  t_pending th = sz :: rest -> t_pc th = Loaded (c_rlimit cf) -> completes cf tid th sz rest 1.
Proof.
  intros En Ep Hpc. unfold completes. cbn [repeat exec]. unfold cstep. rewrite En, Ep, Hpc.
  destruct (canRead (c_rlimit cf) sz) as [ok new]. rewrite Z.eqb_refl.
  eexists. eexists. exists ok. split; [reflexivity|]. cbn [c_threads].
  rewrite nth_error_upd_same by (eapply nth_error_lt; eassumption). repeat split.
Qed.

Lemma solo_idle cf tid th sz rest : nth_error (c_threads cf) tid = Some th ->
  t_pending th = sz :: rest -> t_pc th = Idle -> completes cf tid th sz rest 2.
Proof.
  intros En Ep Hpc. unfold completes. cbn [repeat exec]. unfold cstep at 1. rewrite En, Ep, Hpc.
  set (cf1 := mkCC _ _).
  destruct (solo_fresh cf1 tid (mkTh (Loaded (c_rlimit cf)) (sz :: rest) (t_done th)) sz rest) as (cf' & th' & ok & H1 & H2 & H3 & H4).
  - subst cf1. cbn [c_threads]. apply nth_error_upd_same. eapply nth_error_lt; eassumption.
  - reflexivity.
  - reflexivity.
  - cbn [repeat exec] in H1. exists cf', th', ok. repeat split; assumption.
Qed.

Lemma solo_stale cf tid th sz rest curr : nth_error (c_threads cf) tid = Some th ->
  t_pending th = sz :: rest -> t_pc th = Loaded curr -> curr <> c_rlimit cf -> completes cf tid th sz rest 3.
Proof.
  intros En Ep Hpc Hne. unfold completes. cbn [repeat exec]. unfold cstep at 1. rewrite En, Ep, Hpc.
  destruct (canRead curr sz) as [ok0 new0]. destruct (c_rlimit cf =? curr) eqn:E; [lia|].
  set (cf1 := mkCC _ _).
  destruct (solo_idle cf1 tid (mkTh Idle (sz :: rest) (t_done th)) sz rest) as (cf' & th' & ok & H1 & H2 & H3 & H4).
  - subst cf1. cbn [c_threads]. apply nth_error_upd_same. eapply nth_error_lt; eassumption.
  - reflexivity.
  - reflexivity.
  - cbn [repeat exec] in H1. exists cf', th', ok. repeat split; assumption.
Qed.

Theorem solo_progress cf tid th sz rest : nth_error (c_threads cf) tid = Some th ->
  t_pending th = sz :: rest -> exists n, (n <= 3)%nat /\ completes cf tid th sz rest n.
Proof.
  intros En Ep. destruct (t_pc th) as [|curr] eqn:Hpc.
  - exists 2%nat. split; [lia|]. apply solo_idle; assumption.
  - destruct (Z.eq_dec curr (c_rlimit cf)) as [->|Hne].
    + exists 1%nat. split; [lia|]. apply solo_fresh; assumption.
    + exists 3%nat. split; [lia|]. eapply solo_stale; eassumption.
Qed.

(* non-vacuity: three threads, one schedule with a failed CAS; the invariant instance *)
Example conc_example :
  let cf0 := cinit 20 [[8; 8]; [8]; [16]] in
  match exec cf0 [0; 1; 1; 0; 0; 0; 2; 2; 0; 0]%nat with
  | Some cf => c_rlimit cf = 0 /\ granted cf = 16 /\ nrefused cf = 2 /\ npending cf = 0
  | None => False
  end.
Proof. vm_compute. repeat split. Qed.
