(* L0, hand-written, continued: the remaining pure integer functions that gotrans translates
   (rawpointer.go resolve; segment.go inBounds/regionInBounds as functions of len(s.data);
   struct.go pointerAddress/bitInData/dataAddress as functions of the Struct's off/size and of
   seg != nil; message.go: the pure step of canRead's compare-and-swap loop).
   Same conventions as Core/Arith.v; tied to the Go source by Gen/GoArithAgree.v. *)
From CV Require Export Core.Arith.
Open Scope Z_scope.

(* (off pointerOffset).resolve(base address) = base.element(int32(off), wordSize) *)
Definition resolve (off base : Z) : option Z := element base off 8.

(* len is len(s.data), an int (64 bit); address(len(s.data)) truncates it to 32 bits *)
Definition inBounds (len addr : Z) : bool := addr <? u32 len.
Definition regionInBounds (len base sz : Z) : bool :=
  match addSize base sz with Some e => e <=? u32 len | None => false end.

(* Struct.pointerAddress(i uint16): both ok results are dropped by the Go code, a failed
   addSize/element yields 0xffffffff *)
Definition pointerAddress (off : Z) (size : ObjectSize) (i : Z) : Z :=
  let x := off + DataSize size + 8 * i in
  if x >? maxSegmentSize then 4294967295 else x.

Definition bitInData (seg_ok : bool) (size : ObjectSize) (bit : Z) : bool :=
  seg_ok && (bit <? u32 (DataSize size * 8)).

(* Struct.dataAddress(off DataOffset, sz Size): outer None = the panic of addOffset
   (off >= 1<<19 although the wrapped sum off+sz is inside the data section),
   inner None = ok is false *)
Definition dataAddress (seg_nil : bool) (p_off : Z) (size : ObjectSize) (off sz : Z) : option (option Z) :=
  if seg_nil || (u32 (off + sz) >? DataSize size) then Some None
  else match addOffset p_off off with Some a => Some (Some a) | None => None end.

(* canRead: one iteration of the CAS loop, (value loaded, sz) -> (value stored, result) *)
Definition canRead_step (curr sz : Z) : Z * bool :=
  if curr >=? sz then (curr - sz, true) else (0, false).
