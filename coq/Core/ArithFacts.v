(* Spec-level facts about the L0 pointer codec of Core/Arith.v:
   - [ptr_fields_spec]: every extractor equals the bit field the encoding spec names, for all
     64-bit words;
   - round-trip facts: the constructors followed by the extractors give the arguments back, for
     in-range arguments (needed by the builder proofs, C04/C05). *)
From Coq Require Import ZArith Lia Bool ZifyBool.
From CV Require Import Base.Bits Core.Arith Core.ArithMore.
Open Scope Z_scope.
Ltac Zify.zify_post_hook ::= Z.div_mod_to_equations.

(* bits lo .. lo+n-1 of w, and the two's complement reading of an n-bit field *)
Definition bits (w lo n : Z) : Z := (w / 2 ^ lo) mod 2 ^ n.
Definition signed (n x : Z) : Z := if x <? 2 ^ (n - 1) then x else x - 2 ^ n.

Definition word64 (w : Z) := 0 <= w < 18446744073709551616.

Ltac unw := unfold u8, u16, u32, u64, s32, s64 in *.
Ltac pows :=
  repeat match goal with
         | |- context [2 ^ ?k] => let v := eval vm_compute in (2 ^ k) in change (2 ^ k) with v
         | H : context [2 ^ ?k] |- _ => let v := eval vm_compute in (2 ^ k) in change (2 ^ k) with v in H
         end.
Ltac split_ifs :=
  repeat match goal with
         | |- context [if ?c then _ else _] => let E := fresh "E" in destruct c eqn:E
         end.

(* ------------------------------------------------------------------ field specifications *)

Lemma pointerType_spec : forall w,
  pointerType w = if bits w 0 2 =? 2 then bits w 0 3 else bits w 0 2.
Proof.
  intro w. unfold pointerType, bits. cbn [Z.sub]. pows. rewrite Z.div_1_r. reflexivity.
Qed.

Lemma ptr_offset_spec : forall w, ptr_offset w = signed 30 (bits w 2 30).
Proof.
  intro w. unfold ptr_offset, signed, bits. cbn [Z.sub Z.pos_sub Z.pred_double Pos.pred_double]. pows.
  unw. cbv zeta. split_ifs; lia.
Qed.

Lemma structSize_spec : forall w, structSize w = mkOS (8 * bits w 32 16) (bits w 48 16).
Proof.
  intro w. unfold structSize, timesUnchecked, bits. pows. f_equal. unw. lia.
Qed.

Lemma listType_spec : forall w, listType w = bits w 32 3.
Proof. intro w. unfold listType, bits. pows. reflexivity. Qed.

Lemma numListElements_spec : forall w, word64 w -> numListElements w = bits w 35 29.
Proof.
  intros w Hw. unfold word64 in Hw. unfold numListElements, bits. pows. unw. cbv zeta. split_ifs; lia.
Qed.

Lemma farAddress_spec : forall w, farAddress w = 8 * bits w 3 29.
Proof. intro w. unfold farAddress, bits. pows. unw. lia. Qed.

Lemma farSegment_spec : forall w, farSegment w = bits w 32 32.
Proof. intro w. unfold farSegment, bits. pows. reflexivity. Qed.

Lemma capabilityIndex_spec : forall w, capabilityIndex w = bits w 32 32.
Proof. intro w. unfold capabilityIndex, bits. pows. reflexivity. Qed.

Lemma otherPointerType_spec : forall w, otherPointerType w = bits w 2 30.
Proof. intro w. unfold otherPointerType, bits. pows. unw. lia. Qed.

Theorem ptr_fields_spec : forall w, word64 w ->
  pointerType w = (if bits w 0 2 =? 2 then bits w 0 3 else bits w 0 2) /\
  ptr_offset w = signed 30 (bits w 2 30) /\
  structSize w = mkOS (8 * bits w 32 16) (bits w 48 16) /\
  listType w = bits w 32 3 /\
  numListElements w = bits w 35 29 /\
  farAddress w = 8 * bits w 3 29 /\
  farSegment w = bits w 32 32 /\
  capabilityIndex w = bits w 32 32 /\
  otherPointerType w = bits w 2 30.
Proof.
  intros w Hw.
  repeat split;
    auto using pointerType_spec, ptr_offset_spec, structSize_spec, listType_spec,
      numListElements_spec, farAddress_spec, farSegment_spec, capabilityIndex_spec,
      otherPointerType_spec.
Qed.

(* ranges of the extracted fields *)
Lemma pointerType_cases : forall w,
  pointerType w = structPointer \/ pointerType w = listPointer \/ pointerType w = farPointer \/
  pointerType w = doubleFarPointer \/ pointerType w = otherPointer.
Proof.
  intro w. unfold pointerType, structPointer, listPointer, farPointer, doubleFarPointer, otherPointer.
  cbv zeta. split_ifs; lia.
Qed.
Lemma ptr_offset_range : forall w, -536870912 <= ptr_offset w < 536870912.
Proof. intro w. unfold ptr_offset. unw. cbv zeta. split_ifs; lia. Qed.
Lemma listType_range : forall w, 0 <= listType w < 8.
Proof. intro w. unfold listType. lia. Qed.
Lemma numListElements_range : forall w, word64 w -> 0 <= numListElements w < 536870912.
Proof. intros w Hw. unfold word64 in Hw. unfold numListElements. unw. cbv zeta. split_ifs; lia. Qed.
Lemma structSize_range : forall w,
  0 <= DataSize (structSize w) <= 524280 /\ DataSize (structSize w) mod 8 = 0 /\
  0 <= PointerCount (structSize w) < 65536.
Proof. intro w. unfold structSize, timesUnchecked. cbn [DataSize PointerCount]. unw. lia. Qed.
Lemma farAddress_range : forall w, 0 <= farAddress w <= 4294967288 /\ farAddress w mod 8 = 0.
Proof. intro w. unfold farAddress. unw. lia. Qed.
Lemma farSegment_range : forall w, 0 <= farSegment w < 4294967296.
Proof. intro w. unfold farSegment. unw. lia. Qed.

(* ------------------------------------------------------------------ constructors as sums *)

(* a struct/list size the encoding can represent *)
Definition os_wf (sz : ObjectSize) : Prop :=
  0 <= DataSize sz <= 524280 /\ DataSize sz mod 8 = 0 /\ 0 <= PointerCount sz < 65536.
Definition off_ok (off : Z) : Prop := -536870912 <= off < 536870912.

Lemma off_field : forall off, u32 (u32 off * 4) = (off mod 1073741824) * 2 ^ 2.
Proof. intro off. pows. unw. lia. Qed.

Lemma rawStructPointer_sum : forall off sz, os_wf sz ->
  rawStructPointer off sz =
  Some (PointerCount sz * 281474976710656 + (DataSize sz / 8) * 4294967296 + (off mod 1073741824) * 4).
Proof.
  intros off [ds pc] (Hd & Hm & Hp). cbn [DataSize PointerCount] in *.
  unfold rawStructPointer, dataWordCount. cbn [DataSize PointerCount].
  rewrite Hm. cbn [Z.eqb]. f_equal. unfold structPointer. rewrite Z.lor_0_l, off_field.
  assert (HB : u64 (u64 (s32 (ds / 8)) * 4294967296) = (ds / 8) * 2 ^ 32)
    by (pows; unw; cbv zeta; split_ifs; lia).
  assert (HC : u64 (pc * 281474976710656) = pc * 2 ^ 48) by (pows; unw; lia).
  rewrite HB, HC.
  rewrite (lor_small_shift_add (ds / 8) _ 32) by (pows; lia).
  rewrite (lor_small_shift_add pc _ 48) by (pows; lia).
  pows. lia.
Qed.

Lemma rawListPointer_sum : forall off lt len, 0 <= lt < 8 -> 0 <= len < 536870912 ->
  rawListPointer off lt len =
  len * 34359738368 + lt * 4294967296 + (off mod 1073741824) * 4 + 1.
Proof.
  intros off lt len Hl Hn. unfold rawListPointer, listPointer. rewrite off_field.
  assert (HB : u64 (lt * 4294967296) = lt * 2 ^ 32) by (pows; unw; lia).
  assert (HC : u64 (u64 len * 34359738368) = len * 2 ^ 35) by (pows; unw; lia).
  rewrite HB, HC.
  rewrite (lor_small_shift_add _ 1 2) by (pows; lia).
  rewrite (lor_small_shift_add lt _ 32) by (pows; lia).
  rewrite (lor_small_shift_add len _ 35) by (pows; lia).
  pows. lia.
Qed.

Lemma rawInterfacePointer_sum : forall cap, 0 <= cap < 4294967296 ->
  rawInterfacePointer cap = cap * 4294967296 + 3.
Proof.
  intros cap Hc. unfold rawInterfacePointer, otherPointer.
  assert (HB : u64 (cap * 4294967296) = cap * 2 ^ 32) by (pows; unw; lia).
  rewrite HB, lor_small_shift_add by (pows; lia). pows. lia.
Qed.

Lemma rawFarPointer_sum : forall seg off, 0 <= seg < 4294967296 -> 0 <= off < 4294967296 ->
  rawFarPointer seg off = seg * 4294967296 + off / 8 * 8 + 2.
Proof.
  intros seg off Hs Ho. unfold rawFarPointer, farPointer.
  assert (HB : u64 (seg * 4294967296) = seg * 2 ^ 32) by (pows; unw; lia).
  rewrite HB. change (off / 8 * 8) with (off / 8 * 2 ^ 3).
  rewrite (lor_small_shift_add (off / 8) _ 3) by (pows; lia).
  rewrite (lor_small_shift_add seg _ 32) by (pows; lia).
  pows. lia.
Qed.

Lemma rawDoubleFarPointer_sum : forall seg off, 0 <= seg < 4294967296 -> 0 <= off < 4294967296 ->
  rawDoubleFarPointer seg off = seg * 4294967296 + off / 8 * 8 + 6.
Proof.
  intros seg off Hs Ho. unfold rawDoubleFarPointer, doubleFarPointer.
  assert (HB : u64 (seg * 4294967296) = seg * 2 ^ 32) by (pows; unw; lia).
  rewrite HB. change (off / 8 * 8) with (off / 8 * 2 ^ 3).
  rewrite (lor_small_shift_add (off / 8) _ 3) by (pows; lia).
  rewrite (lor_small_shift_add seg _ 32) by (pows; lia).
  pows. lia.
Qed.

Lemma withOffset_sum : forall p off,
  withOffset p off = p / 4294967296 * 4294967296 + (off mod 1073741824) * 4 + p mod 4.
Proof.
  intros p off. unfold withOffset.
  assert (HA : u32 (s32 (off * 4)) = (off mod 1073741824) * 2 ^ 2)
    by (pows; unw; cbv zeta; split_ifs; lia).
  rewrite HA. change 4294967296 with (2 ^ 32). change 4 with (2 ^ 2) at 1.
  rewrite lor_hi_lo_mid by (pows; lia). pows. lia.
Qed.

(* the landing pad of a double-far pointer: far is a far pointer word (far mod 8 = 2) or the
   tag is a struct/list pointer word (tag mod 4 < 2): the fields do not overlap *)
Lemma landingPadNearPointer_sum : forall far tag, far mod 8 = 2 \/ tag mod 4 < 2 ->
  landingPadNearPointer far tag =
  tag / 4294967296 * 4294967296 + (u32 far / 4 * 4) / 2 + tag mod 4.
Proof.
  intros far tag [H|H]; unfold landingPadNearPointer.
  - assert (HA : u32 far / 4 * 4 / 2 = (u32 far / 8) * 2 ^ 2) by (pows; unw; lia).
    rewrite HA. change 4294967296 with (2 ^ 32). change 4 with (2 ^ 2) at 1.
    rewrite lor_hi_lo_mid by (pows; unw; lia). reflexivity.
  - assert (HA : u32 far / 4 * 4 / 2 = (u32 far / 4) * 2 ^ 1) by (pows; unw; lia).
    rewrite HA. change 4294967296 with (2 ^ 32).
    rewrite lor_hi_lo_mid by (pows; unw; lia). reflexivity.
Qed.

(* ------------------------------------------------------------------ round trips *)

Theorem struct_pointer_roundtrip : forall off sz, off_ok off -> os_wf sz ->
  exists p, rawStructPointer off sz = Some p /\ word64 p /\
    pointerType p = structPointer /\ ptr_offset p = off /\ structSize p = sz.
Proof.
  intros off sz Ho Hs. rewrite rawStructPointer_sum by assumption.
  destruct sz as [ds pc]. destruct Hs as (Hd & Hm & Hp). cbn [DataSize PointerCount] in *.
  unfold off_ok in Ho. eexists. split; [reflexivity|].
  set (p := pc * 281474976710656 + ds / 8 * 4294967296 + off mod 1073741824 * 4).
  assert (Hp1 : p mod 4294967296 = off mod 1073741824 * 4) by (subst p; lia).
  assert (Hp2 : p / 4294967296 = pc * 65536 + ds / 8) by (subst p; lia).
  repeat split.
  - subst p; lia.
  - subst p; lia.
  - unfold pointerType, structPointer. cbv zeta. split_ifs; lia.
  - unfold ptr_offset. unw. cbv zeta. rewrite Hp1. split_ifs; lia.
  - unfold structSize, timesUnchecked. rewrite Hp2. f_equal; unw; lia.
Qed.

Theorem list_pointer_roundtrip : forall off lt len, off_ok off -> 0 <= lt < 8 -> 0 <= len < 536870912 ->
  let p := rawListPointer off lt len in
  word64 p /\ pointerType p = listPointer /\ ptr_offset p = off /\
  listType p = lt /\ numListElements p = len.
Proof.
  intros off lt len Ho Hl Hn. rewrite rawListPointer_sum by assumption.
  unfold off_ok in Ho.
  set (p := len * 34359738368 + lt * 4294967296 + off mod 1073741824 * 4 + 1).
  assert (Hp1 : p mod 4294967296 = off mod 1073741824 * 4 + 1) by (subst p; lia).
  assert (Hp2 : p / 4294967296 = len * 8 + lt) by (subst p; lia).
  cbv zeta. repeat split.
  - subst p; lia.
  - subst p; lia.
  - unfold pointerType, listPointer. cbv zeta. split_ifs; lia.
  - unfold ptr_offset. unw. cbv zeta. rewrite Hp1. split_ifs; lia.
  - unfold listType. rewrite Hp2. lia.
  - unfold numListElements. unw. cbv zeta.
    assert (Hp3 : p / 34359738368 = len) by (subst p; lia). rewrite Hp3. split_ifs; lia.
Qed.

Theorem interface_pointer_roundtrip : forall cap, 0 <= cap < 4294967296 ->
  let p := rawInterfacePointer cap in
  word64 p /\ pointerType p = otherPointer /\ otherPointerType p = 0 /\ capabilityIndex p = cap.
Proof.
  intros cap Hc. rewrite rawInterfacePointer_sum by assumption. cbv zeta.
  unfold word64, pointerType, otherPointer, otherPointerType, capabilityIndex. unw. cbv zeta.
  repeat split; split_ifs; lia.
Qed.

Theorem far_pointer_roundtrip : forall seg off, 0 <= seg < 4294967296 -> 0 <= off < 4294967296 ->
  let p := rawFarPointer seg off in
  word64 p /\ pointerType p = farPointer /\ farAddress p = off / 8 * 8 /\ farSegment p = seg.
Proof.
  intros seg off Hs Ho. rewrite rawFarPointer_sum by assumption. cbv zeta.
  unfold word64, pointerType, farPointer, farAddress, farSegment. unw. cbv zeta.
  repeat split; split_ifs; lia.
Qed.

Theorem double_far_pointer_roundtrip : forall seg off, 0 <= seg < 4294967296 -> 0 <= off < 4294967296 ->
  let p := rawDoubleFarPointer seg off in
  word64 p /\ pointerType p = doubleFarPointer /\ farAddress p = off / 8 * 8 /\ farSegment p = seg.
Proof.
  intros seg off Hs Ho. rewrite rawDoubleFarPointer_sum by assumption. cbv zeta.
  unfold word64, pointerType, doubleFarPointer, farAddress, farSegment. unw. cbv zeta.
  repeat split; split_ifs; lia.
Qed.

Corollary far_pointer_roundtrip_aligned : forall seg off,
  0 <= seg < 4294967296 -> 0 <= off < 4294967296 -> off mod 8 = 0 ->
  farAddress (rawFarPointer seg off) = off /\ farAddress (rawDoubleFarPointer seg off) = off.
Proof.
  intros seg off Hs Ho Ha.
  destruct (far_pointer_roundtrip seg off Hs Ho) as (_ & _ & H1 & _).
  destruct (double_far_pointer_roundtrip seg off Hs Ho) as (_ & _ & H2 & _).
  cbv zeta in *. lia.
Qed.

(* withOffset replaces the offset and keeps everything else of a struct or list pointer *)
Theorem withOffset_roundtrip : forall p off, word64 p -> off_ok off -> p mod 4 < 2 ->
  let q := withOffset p off in
  word64 q /\ pointerType q = pointerType p /\ ptr_offset q = off /\
  structSize q = structSize p /\ listType q = listType p /\
  numListElements q = numListElements p.
Proof.
  intros p off Hp Ho Ht. rewrite withOffset_sum. unfold word64, off_ok in *. cbv zeta.
  set (q := p / 4294967296 * 4294967296 + off mod 1073741824 * 4 + p mod 4).
  assert (Hq1 : q mod 4294967296 = off mod 1073741824 * 4 + p mod 4) by (subst q; lia).
  assert (Hq2 : q / 4294967296 = p / 4294967296) by (subst q; lia).
  assert (Hq3 : q / 34359738368 = p / 34359738368) by (subst q; lia).
  assert (Hq4 : q / 281474976710656 = p / 281474976710656) by (subst q; lia).
  repeat split.
  - subst q; lia.
  - subst q; lia.
  - unfold pointerType. cbv zeta. assert (q mod 4 = p mod 4) by (subst q; lia).
    assert (q mod 8 = (off mod 2) * 4 + p mod 4) by (subst q; lia). split_ifs; lia.
  - unfold ptr_offset. unw. cbv zeta. rewrite Hq1. split_ifs; lia.
  - unfold structSize. rewrite Hq2, Hq4. reflexivity.
  - unfold listType. rewrite Hq2. reflexivity.
  - unfold numListElements. rewrite Hq3. reflexivity.
Qed.

(* double-far landing pad: far is the far-pointer word of the pad (type farPointer), tag the
   struct/list pointer word after it. The result decodes to tag's type and sizes with far's
   address (in words, from the start of the segment) as offset. *)
Theorem landingPadNearPointer_roundtrip : forall far tag, word64 far -> word64 tag ->
  pointerType far = farPointer -> tag mod 4 < 2 ->
  let q := landingPadNearPointer far tag in
  word64 q /\ pointerType q = pointerType tag /\ ptr_offset q = farAddress far / 8 /\
  structSize q = structSize tag /\ listType q = listType tag /\
  numListElements q = numListElements tag /\
  resolve (ptr_offset q) 0 = Some (farAddress far).
Proof.
  intros far tag Hf Ht Hfp Htt. rewrite landingPadNearPointer_sum by (right; assumption).
  unfold word64 in *. cbv zeta.
  assert (Hf8 : far mod 8 = 2).
  { unfold pointerType, farPointer in Hfp. cbv zeta in Hfp.
    destruct (far mod 4 =? 2) eqn:E; lia. }
  set (q := tag / 4294967296 * 4294967296 + u32 far / 4 * 4 / 2 + tag mod 4).
  assert (Hq1 : q mod 4294967296 = (u32 far / 8) * 4 + tag mod 4) by (subst q; unw; lia).
  assert (Hq2 : q / 4294967296 = tag / 4294967296) by (subst q; unw; lia).
  assert (Hq3 : q / 34359738368 = tag / 34359738368) by (subst q; unw; lia).
  assert (Hq4 : q / 281474976710656 = tag / 281474976710656) by (subst q; unw; lia).
  assert (Hoff : ptr_offset q = farAddress far / 8).
  { unfold ptr_offset, farAddress. unw. cbv zeta. rewrite Hq1. split_ifs; lia. }
  repeat split.
  - subst q; unw; lia.
  - subst q; unw; lia.
  - unfold pointerType. cbv zeta. assert (q mod 4 = tag mod 4) by (subst q; unw; lia).
    split_ifs; lia.
  - exact Hoff.
  - unfold structSize. rewrite Hq2, Hq4. reflexivity.
  - unfold listType. rewrite Hq2. reflexivity.
  - unfold numListElements. rewrite Hq3. reflexivity.
  - rewrite Hoff. pose proof (farAddress_range far) as [Hr Hm].
    unfold resolve, element, maxSegmentSize. cbv zeta.
    split_ifs; [lia|]. f_equal. lia.
Qed.

(* non-vacuity: the hypotheses of the round-trip theorems are satisfiable *)
Example roundtrip_hyps_satisfiable :
  off_ok (-3) /\ os_wf (mkOS 16 2) /\ word64 (rawListPointer (-3) 7 5) /\
  pointerType (rawFarPointer 1 8) = farPointer /\ (rawListPointer 0 2 1) mod 4 < 2.
Proof. unfold off_ok, os_wf, word64. cbn [DataSize PointerCount]. vm_compute. intuition congruence. Qed.
