(* [write_read_ptr]: the pointer word(s) that segment.go writePtr stores for an in-message
   target - near pointer, far pointer + landing pad, double-far pointer + two-word pad, chosen
   by the same capacity test as the code - are resolved by the reader model to exactly that
   target; only the pointer word and freshly allocated pad words change. *)
From CV Require Import Core.Builder Core.ReaderFacts Core.ArithFacts Core.BuilderFacts Core.AllocProofs.
From CV Require Core.ArithMore.
From Coq Require Import ZifyBool ZifyNat.
Open Scope Z_scope.

Ltac Zify.zify_post_hook ::= Z.div_mod_to_equations.

(* ------------------------------------------------------------------ words *)
Lemma writeRawPointer_wrote m sid addr v m' :
  0 <= sid -> writeRawPointer m sid addr v = Ok m' -> wrote m m' sid addr (le_encode 8 v).
Proof. intros Hs H. unfold writeRawPointer in H. apply seg_write_wrote in H; auto. cbn. lia. Qed.

Lemma wrote_word_back m m' sid addr v :
  wrote m m' sid addr (le_encode 8 v) -> word64 v -> zlen (mem m sid) < 4294967296 ->
  readRawPointer (mem m' sid) addr = Ok v.
Proof.
  intros HW Hv Hl. unfold readRawPointer, readUintN.
  pose proof (wrote_slice_same _ _ _ _ _ HW Hl) as R. change (zlen (le_encode 8 v)) with 8 in R.
  rewrite R. cbn [bind]. f_equal. apply (le_decode_encode 8). unfold word64 in Hv.
  change (256 ^ Z.of_nat 8) with 18446744073709551616. exact Hv.
Qed.

Lemma slice_app_prefix d t base n :
  0 <= base -> 0 <= n -> base + n <= zlen d -> zlen (d ++ t) < 4294967296 ->
  slice (d ++ t) base n = slice d base n.
Proof.
  intros H1 H2 H3 H4. rewrite zlen_app in H4. assert (Ht := zlen_nonneg t).
  rewrite !slice_ok by (rewrite ?zlen_app; lia). f_equal. unfold sub.
  rewrite skipn_app. rewrite firstn_app. unfold zlen in *.
  replace (Z.to_nat n - length (skipn (Z.to_nat base) d))%nat with O by (rewrite skipn_length; lia).
  cbn [firstn]. now rewrite app_nil_r.
Qed.

Lemma readRawPointer_app_prefix d t a :
  0 <= a -> a + 8 <= zlen d -> zlen (d ++ t) < 4294967296 ->
  readRawPointer (d ++ t) a = readRawPointer d a.
Proof. intros. unfold readRawPointer, readUintN. rewrite slice_app_prefix by lia. reflexivity. Qed.

(* a word of the freshly appended zero region *)
Lemma zlen_mem_blen m i : zlen (mem m i) = blen (get_seg m i).
Proof. reflexivity. Qed.

(* all segments are addressable *)
Definition segs_small (m : bmsg) : Prop := forall i, zlen (mem m i) <= maxSegmentSize.

(* ------------------------------------------------------------------ alloc used by place *)
Lemma alloc_in_place m sid sz m' sid' addr :
  hasCapacity (get_seg m sid) (padToWord sz) = true ->
  alloc m sid sz = Ok (m', sid', addr) -> sid' = sid.
Proof.
  intros HC. unfold alloc. destruct (sz >? maxAllocSize); [discriminate|]. rewrite HC. cbn [bind].
  destruct (addSize _ _); [|discriminate]. now intros [= _ <- _].
Qed.

(* what place needs to know about an allocation: old words are still readable, the new
   region is inside the segment *)
Lemma alloc_mem m sid sz m' sid' addr :
  bmsg_wf m -> arena_wf m -> 0 <= sid < zlen (bm_segs m) -> 0 <= sz ->
  alloc m sid sz = Ok (m', sid', addr) ->
  (forall i, 0 <= i -> exists t, mem m' i = mem m i ++ t) /\
  zlen (mem m' sid') = addr + padToWord sz /\ addr = zlen (mem m sid') /\ addr mod 8 = 0 /\
  0 <= sid' < zlen (bm_segs m') /\ zlen (bm_segs m) <= zlen (bm_segs m') <= zlen (bm_segs m) + 1 /\
  bmsg_wf m' /\ arena_wf m' /\ zlen (mem m' sid') <= maxSegmentSize /\
  (forall i, 0 <= i -> i <> sid' -> mem m' i = mem m i) /\
  bm_caps m' = bm_caps m /\ bm_rl m' = bm_rl m /\ bm_arena m' = bm_arena m.
Proof.
  intros Hwf Har Hsid Hsz H. apply alloc_fresh in H; auto. cbv zeta in H.
  destruct H as (A1 & A2 & A3 & A4 & A5 & A6 & A7 & A8 & A9 & A10 & A11 & A12 & A13 & A14 & A15 & A16 & A17).
  unfold mem. repeat split; auto; try lia.
  intros i Hi. destruct (Z.eq_dec i sid') as [->|Hne].
  - eexists. exact A6.
  - exists []. rewrite app_nil_r. apply A10; auto.
Qed.

(* ------------------------------------------------------------------ the target a pointer word designates *)
(* [resolves_to ms sid off tsid taddr raw]: the reader model resolves the pointer at (sid, off)
   to a struct / list pointer word [val] with the type and size fields of [raw] whose offset,
   applied to the base the reader computed, is the address taddr of segment tsid. *)
Definition resolves_to (ms : segs) (sid off tsid taddr raw : Z) : Prop :=
  exists base val,
    (forall strict, resolveFarPointer strict ms sid (nth (Z.to_nat sid) ms []) off = Ok (tsid, nth (Z.to_nat tsid) ms [], base, val)) /\
    word64 val /\ pointerType val = pointerType raw /\ structSize val = structSize raw /\
    listType val = listType raw /\ numListElements val = numListElements raw /\
    element base (ptr_offset val) 8 = Some taddr.

(* a non-null struct / list pointer word with zero offset (writePtr never places the zero word:
   zero-sized structs are encoded inline with offset -1, list words have the type bit set) *)
Definition raw_ok (raw : Z) : Prop := word64 raw /\ raw mod 4 < 2 /\ ptr_offset raw = 0 /\ raw <> 0.

Lemma raw_type raw : raw mod 4 < 2 -> 0 <= raw ->
  (pointerType raw = structPointer \/ pointerType raw = listPointer) /\
  (pointerType raw =? doubleFarPointer) = false /\ (pointerType raw =? farPointer) = false.
Proof.
  intros H H0. unfold pointerType, structPointer, listPointer, doubleFarPointer, farPointer. cbv zeta.
  destruct (raw mod 4 =? 2) eqn:E; lia.
Qed.

Lemma nearPointerOffset_ok paddr addr :
  0 <= paddr <= 4294967288 -> 0 <= addr <= 4294967288 -> paddr mod 8 = 0 -> addr mod 8 = 0 ->
  off_ok (nearPointerOffset paddr addr) /\ paddr + 8 + (nearPointerOffset paddr addr) * 8 = addr.
Proof. intros. unfold nearPointerOffset, off_ok, s32. cbv zeta. split_ifs; lia. Qed.

Lemma element_words base off x : 0 <= x <= maxSegmentSize -> base + off * 8 = x -> element base off 8 = Some x.
Proof.
  intros H1 H2. unfold element. cbv zeta.
  destruct ((base + off * 8 >? maxSegmentSize) || (base + off * 8 <? 0)) eqn:E; [lia|]. f_equal. lia.
Qed.

(* ------------------------------------------------------------------ near *)
Lemma place_near m dsid off taddr raw m' :
  0 <= dsid -> segs_small m -> raw_ok raw ->
  off mod 8 = 0 -> taddr mod 8 = 0 -> 0 <= taddr <= zlen (mem m dsid) ->
  writeRawPointer m dsid off (withOffset raw (nearPointerOffset off taddr)) = Ok m' ->
  resolves_to (bm_data m') dsid off dsid taddr raw /\
  wrote m m' dsid off (le_encode 8 (withOffset raw (nearPointerOffset off taddr))).
Proof.
  intros Hd Hsm (Rw & Rt & Ro & Rnz) Ho Ht Hta H.
  apply writeRawPointer_wrote in H; auto. split; [|exact H].
  pose proof (Hsm dsid) as Hl. unfold maxSegmentSize in Hl.
  destruct H as (W1 & W2 & Wr). change (zlen (le_encode 8 _)) with 8 in W2.
  assert (HW : wrote m m' dsid off (le_encode 8 (withOffset raw (nearPointerOffset off taddr)))) by (unfold wrote; tauto).
  destruct (nearPointerOffset_ok off taddr) as [N1 N2]; try lia.
  destruct (withOffset_roundtrip raw (nearPointerOffset off taddr) Rw N1 Rt) as (Q1 & Q2 & Q3 & Q4 & Q5 & Q6).
  cbv zeta in *.
  set (v := withOffset raw (nearPointerOffset off taddr)) in *.
  assert (Rd : readRawPointer (mem m' dsid) off = Ok v) by (apply (wrote_word_back m m'); auto; lia).
  unfold word64 in Rw. destruct (raw_type raw Rt ltac:(lia)) as (_ & T1 & T2).
  exists (off + 8), v. rewrite !nth_bm_data. split.
  - intros strict. unfold resolveFarPointer. rewrite Rd. cbn [bind]. cbv zeta. rewrite Q2, T1, T2.
    unfold addSize. cbv zeta. destruct (off + 8 >? maxSegmentSize) eqn:E; [unfold maxSegmentSize in E; lia|]. reflexivity.
  - split; [exact Q1|]. split; [exact Q2|]. split; [exact Q4|]. split; [exact Q5|]. split; [exact Q6|].
    rewrite Q3. apply element_words; [unfold maxSegmentSize; lia|lia].
Qed.

Lemma write_bytes_app_right d t k bs : 0 <= k ->
  write_bytes (d ++ t) (zlen d + k) bs = d ++ write_bytes t k bs.
Proof.
  intros Hk. unfold write_bytes, zlen.
  replace (Z.to_nat (Z.of_nat (length d) + k)) with (length d + Z.to_nat k)%nat by lia.
  rewrite firstn_app_2. rewrite skipn_app. rewrite skipn_all2 by lia.
  replace (length d + Z.to_nat k + length bs - length d)%nat with (Z.to_nat k + length bs)%nat by lia.
  cbn [app]. now rewrite <- app_assoc.
Qed.

Lemma write_bytes_app_left d t a bs : 0 <= a -> a + zlen bs <= zlen d ->
  write_bytes (d ++ t) a bs = write_bytes d a bs ++ t.
Proof.
  intros Ha Hl. unfold write_bytes, zlen in *.
  rewrite firstn_app, skipn_app.
  replace (Z.to_nat a - length d)%nat with O by lia.
  replace (Z.to_nat a + length bs - length d)%nat with O by lia.
  cbn [firstn skipn]. rewrite app_nil_r. now rewrite <- !app_assoc.
Qed.

(* ------------------------------------------------------------------ far, double far *)
Lemma lookup_segment_bm m i : 0 <= i < zlen (bm_segs m) -> lookup_segment (bm_data m) i = Ok (mem m i).
Proof.
  intros H. unfold lookup_segment. unfold bm_data at 1. rewrite zlen_map.
  destruct ((0 <=? i) && (i <? zlen (bm_segs m))) eqn:E; [|lia]. now rewrite nth_bm_data.
Qed.

Lemma wrote_nsegs m m' sid a bs : wrote m m' sid a bs -> zlen (bm_segs m') = zlen (bm_segs m).
Proof. intros H. apply H. Qed.
Lemma wrote_len m m' sid a bs i : wrote m m' sid a bs -> 0 <= i -> zlen (mem m' i) = zlen (mem m i).
Proof.
  intros (_ & _ & _ & W4 & _ & W6 & _) Hi. destruct (Z.eq_dec i sid) as [->|Hne]; [exact W6|].
  unfold mem. now rewrite W4.
Qed.
Lemma wrote_mem_other m m' sid a bs i : wrote m m' sid a bs -> 0 <= i -> i <> sid -> mem m' i = mem m i.
Proof. intros (_ & _ & _ & W4 & _) Hi Hne. unfold mem. now rewrite W4. Qed.

Lemma regionInBounds_true s base sz :
  base + sz <= maxSegmentSize -> base + sz <= zlen s -> regionInBounds s base sz = true.
Proof. intros. apply regionInBounds_spec. lia. Qed.

Definition place_pre (m : bmsg) (dsid off tsid taddr raw : Z) : Prop :=
  bmsg_wf m /\ arena_wf m /\ segs_small m /\ raw_ok raw /\
  0 <= dsid < zlen (bm_segs m) /\ 0 <= tsid < zlen (bm_segs m) /\ zlen (bm_segs m) < 4294967296 /\
  0 <= off /\ off mod 8 = 0 /\ off + 8 <= zlen (mem m dsid) /\
  0 <= taddr /\ taddr mod 8 = 0 /\ taddr <= zlen (mem m tsid).

Lemma padToWord_8 : padToWord 8 = 8. Proof. reflexivity. Qed.
Lemma padToWord_16 : padToWord 16 = 16. Proof. reflexivity. Qed.

(* [write_read_ptr] for the placement switch of writePtr: whichever of the three encodings the
   capacity test selects, the reader resolves the pointer word at (dsid, off) to (tsid, taddr)
   with raw's type and size fields.  Frame: every segment keeps its old bytes as a prefix,
   except the 8 bytes of the pointer word itself; pads are appended to their segments. *)
Theorem place_resolves w dsid off tsid taddr raw w' :
  place_pre (w_dst w) dsid off tsid taddr raw ->
  place w dsid off tsid taddr raw = Ok w' ->
  resolves_to (bm_data (w_dst w')) dsid off tsid taddr raw /\
  w_src w' = w_src w /\ w_src_rl w' = w_src_rl w /\
  bm_caps (w_dst w') = bm_caps (w_dst w) /\ bm_rl (w_dst w') = bm_rl (w_dst w) /\
  (exists pw, forall i, 0 <= i -> exists t,
     mem (w_dst w') i = (if i =? dsid then write_bytes (mem (w_dst w) i) off (le_encode 8 pw)
                         else mem (w_dst w) i) ++ t).
Proof.
  intros (Hwf & Har & Hsm & Hraw & Hd & Ht & Hn & Ho0 & Ho & Hol & Ht0 & Hta & Htl).
  set (m := w_dst w) in *. unfold place. fold m.
  destruct (tsid =? dsid) eqn:ETD.
  - (* near *)
    assert (tsid = dsid) by lia. subst tsid. unfold lift0.
    destruct (writeRawPointer m dsid off _) as [m'| |] eqn:EW; cbn [bind]; try discriminate.
    intros H. apply Ok_inj in H. subst w'. cbn [w_dst w_set_dst w_src w_src_rl].
    destruct (place_near m dsid off taddr raw m') as [R W]; auto; try lia.
    split; [exact R|]. destruct W as (W1 & W2 & W3 & W4 & W5 & W6 & W7 & W8 & W9 & W10).
    repeat split; auto. eexists. intros i Hi. exists []. rewrite app_nil_r.
    destruct (i =? dsid) eqn:E; [assert (i = dsid) by lia; subst i; exact W3|].
    unfold mem. rewrite W4 by lia. reflexivity.
  - destruct (hasCapacity (get_seg m tsid) 8) eqn:EC.
    + (* far pointer, landing pad next to the target *)
      destruct (alloc m tsid 8) as [[[m1 s1] padAddr]| |] eqn:EA; cbn [bind]; try discriminate.
      assert (s1 = tsid) by (eapply alloc_in_place; [rewrite padToWord_8; exact EC|exact EA]). subst s1.
      destruct (alloc_mem m tsid 8 m1 tsid padAddr Hwf Har Ht ltac:(lia) EA)
        as (A1 & A2 & A3 & A4 & A5 & A6 & A7 & A8 & A9 & A10 & A11 & A12 & A13).
      rewrite padToWord_8 in A2.
      destruct (writeRawPointer m1 tsid padAddr _) as [m2| |] eqn:EW2; cbn [bind]; try discriminate.
      unfold lift0.
      destruct (writeRawPointer m2 dsid off _) as [m3| |] eqn:EW3; cbn [bind]; try discriminate.
      intros H. apply Ok_inj in H. subst w'. cbn [w_dst w_set_dst w_src w_src_rl].
      apply writeRawPointer_wrote in EW2; [|lia]. apply writeRawPointer_wrote in EW3; [|lia].
      pose proof (Hsm tsid) as Hlt. pose proof (Hsm dsid) as Hld. unfold maxSegmentSize in *.
      assert (Hpa : 0 <= padAddr <= 4294967288) by (pose proof (zlen_nonneg (mem m tsid)); lia).
      destruct (nearPointerOffset_ok padAddr taddr) as [N1 N2]; try lia.
      destruct Hraw as (Rw & Rt & Ro & Rnz).
      destruct (withOffset_roundtrip raw (nearPointerOffset padAddr taddr) Rw N1 Rt) as (Q1 & Q2 & Q3 & Q4 & Q5 & Q6).
      cbv zeta in *. set (pv := withOffset raw (nearPointerOffset padAddr taddr)) in *.
      destruct (far_pointer_roundtrip tsid padAddr ltac:(lia) ltac:(lia)) as (F1 & F2 & F3 & F4).
      cbv zeta in *. set (fv := rawFarPointer tsid padAddr) in *.
      (* memory of the final message *)
      assert (M2d : mem m2 dsid = mem m dsid).
      { rewrite (wrote_mem_other _ _ _ _ _ dsid EW2) by lia. apply A10; lia. }
      assert (Rfar : readRawPointer (mem m3 dsid) off = Ok fv).
      { apply (wrote_word_back m2 m3); auto. rewrite M2d. lia. }
      assert (Rpad : readRawPointer (mem m3 tsid) padAddr = Ok pv).
      { rewrite (wrote_mem_other _ _ _ _ _ tsid EW3) by lia.
        apply (wrote_word_back m1 m2); auto. lia. }
      assert (L3 : zlen (mem m3 tsid) = padAddr + 8).
      { rewrite (wrote_len _ _ _ _ _ tsid EW3) by lia. rewrite (wrote_len _ _ _ _ _ tsid EW2) by lia. exact A2. }
      assert (N3 : zlen (bm_segs m3) = zlen (bm_segs m1)).
      { rewrite (wrote_nsegs _ _ _ _ _ EW3). apply (wrote_nsegs _ _ _ _ _ EW2). }
      unfold word64 in Rw. destruct (raw_type raw Rt ltac:(lia)) as (_ & T1 & T2).
      split.
      { exists (padAddr + 8), pv. rewrite !nth_bm_data. split.
        - intros strict. unfold resolveFarPointer. rewrite Rfar. cbn [bind]. cbv zeta. rewrite F2.
          change (farPointer =? doubleFarPointer) with false. change (farPointer =? farPointer) with true.
          cbv iota. rewrite F4. destruct (tsid =? dsid) eqn:E; [lia|].
          rewrite lookup_segment_bm by lia. cbn [bind]. rewrite F3.
          replace (padAddr / 8 * 8) with padAddr by lia.
          rewrite regionInBounds_true by (unfold maxSegmentSize; lia). cbn [negb].
          unfold addSize. cbv zeta. destruct (padAddr + 8 >? maxSegmentSize) eqn:E2; [unfold maxSegmentSize in E2; lia|].
          rewrite Rpad. reflexivity.
        - split; [exact Q1|]. split; [exact Q2|]. split; [exact Q4|]. split; [exact Q5|]. split; [exact Q6|].
          rewrite Q3. apply element_words; [unfold maxSegmentSize; lia|lia]. }
      destruct EW2 as (V1 & V2 & V3 & V4 & V5 & V6 & V7 & V8 & V9 & V10).
      destruct EW3 as (X1 & X2 & X3 & X4 & X5 & X6 & X7 & X8 & X9 & X10).
      split; [reflexivity|]. split; [reflexivity|]. split; [congruence|]. split; [congruence|].
      exists fv. intros i Hi. destruct (i =? dsid) eqn:E.
      * assert (i = dsid) by lia. subst i. exists []. rewrite app_nil_r. rewrite X3.
        f_equal. exact M2d.
      * destruct (Z.eq_dec i tsid) as [->|Hne].
        -- unfold mem at 1. rewrite X4 by lia. fold (mem m2 tsid). rewrite V3.
           destruct (A1 tsid ltac:(lia)) as [t Et]. rewrite Et.
           (* the pad word lies in the appended part *)
           exists (write_bytes t 0 (le_encode 8 pv)).
           unfold write_bytes. change (length (le_encode 8 pv)) with 8%nat.
           assert (Lm : length (mem m tsid) = Z.to_nat padAddr) by (unfold zlen in A3; lia).
           rewrite firstn_app, skipn_app. rewrite Lm.
           rewrite firstn_all2 by lia. rewrite skipn_all2 by lia.
           replace (Z.to_nat padAddr - Z.to_nat padAddr)%nat with O by lia.
           replace (Z.to_nat padAddr + 8 - Z.to_nat padAddr)%nat with 8%nat by lia.
           cbn [firstn skipn app Z.to_nat]. rewrite <- app_assoc. reflexivity.
        -- exists []. rewrite app_nil_r. unfold mem at 1. rewrite X4 by lia. rewrite V4 by lia.
           apply A10; lia.
    + (* double far *)
      destruct (alloc m dsid 16) as [[[m1 psid] padAddr]| |] eqn:EA; cbn [bind]; try discriminate.
      destruct (alloc_mem m dsid 16 m1 psid padAddr Hwf Har Hd ltac:(lia) EA)
        as (A1 & A2 & A3 & A4 & A5 & A6 & A7 & A8 & A9 & A10 & A11 & A12 & A13).
      rewrite padToWord_16 in A2.
      destruct (writeRawPointer m1 psid padAddr _) as [m2| |] eqn:EW2; cbn [bind]; try discriminate.
      destruct (writeRawPointer m2 psid (addSizeUnchecked padAddr 8) raw) as [m3| |] eqn:EW3; cbn [bind]; try discriminate.
      unfold lift0.
      destruct (writeRawPointer m3 dsid off _) as [m4| |] eqn:EW4; cbn [bind]; try discriminate.
      intros H. apply Ok_inj in H. subst w'. cbn [w_dst w_set_dst w_src w_src_rl].
      apply writeRawPointer_wrote in EW2; [|lia]. apply writeRawPointer_wrote in EW3; [|lia].
      apply writeRawPointer_wrote in EW4; [|lia].
      pose proof (Hsm tsid) as Hlt. pose proof (Hsm dsid) as Hld. unfold maxSegmentSize in *.
      assert (Hpz := zlen_nonneg (mem m psid)).
      assert (Hpa : 0 <= padAddr <= 4294967288 - 16) by lia.
      assert (EP8 : addSizeUnchecked padAddr 8 = padAddr + 8) by (unfold addSizeUnchecked, u32; lia).
      rewrite EP8 in *.
      destruct Hraw as (Rw & Rt & Ro & Rnz).
      destruct (far_pointer_roundtrip tsid taddr ltac:(lia) ltac:(lia)) as (F1 & F2 & F3 & F4).
      cbv zeta in *. set (fv := rawFarPointer tsid taddr) in *.
      destruct (double_far_pointer_roundtrip psid padAddr ltac:(lia) ltac:(lia)) as (D1 & D2 & D3 & D4).
      cbv zeta in *. set (dv := rawDoubleFarPointer psid padAddr) in *.
      destruct (landingPadNearPointer_roundtrip fv raw F1 Rw F2 Rt) as (P1 & P2 & P3 & P4 & P5 & P6 & P7).
      cbv zeta in *.
      (* lengths *)
      assert (L1 : zlen (mem m1 psid) = padAddr + 16) by exact A2.
      assert (L2 : zlen (mem m2 psid) = padAddr + 16) by (rewrite (wrote_len _ _ _ _ _ psid EW2) by lia; exact L1).
      assert (L3 : zlen (mem m3 psid) = padAddr + 16) by (rewrite (wrote_len _ _ _ _ _ psid EW3) by lia; exact L2).
      assert (L4 : zlen (mem m4 psid) = padAddr + 16) by (rewrite (wrote_len _ _ _ _ _ psid EW4) by lia; exact L3).
      assert (Ld1 : zlen (mem m1 dsid) >= off + 8).
      { destruct (A1 dsid ltac:(lia)) as [t Et]. rewrite Et, zlen_app. pose proof (zlen_nonneg t). lia. }
      assert (Ld3 : zlen (mem m3 dsid) = zlen (mem m1 dsid)).
      { rewrite (wrote_len _ _ _ _ _ dsid EW3) by lia. apply (wrote_len _ _ _ _ _ dsid EW2). lia. }
      assert (Lds : zlen (mem m1 dsid) <= 4294967288).
      { destruct (Z.eq_dec dsid psid) as [->|Hne]; [lia|]. rewrite A10 by lia. lia. }
      (* the pointer word does not overlap the pad: the pad starts at the old end of its segment *)
      assert (Hsep : dsid <> psid \/ off + 8 <= padAddr).
      { destruct (Z.eq_dec dsid psid) as [->|Hne]; [right; lia|left; exact Hne]. }
      assert (Rd : readRawPointer (mem m4 dsid) off = Ok dv).
      { apply (wrote_word_back m3 m4); auto. lia. }
      assert (Rfar : readRawPointer (mem m4 psid) padAddr = Ok fv).
      { rewrite (readRawPointer_other _ _ _ _ _ psid padAddr EW4) by (change (zlen (le_encode 8 dv)) with 8; lia).
        rewrite (readRawPointer_other _ _ _ _ _ psid padAddr EW3) by (change (zlen (le_encode 8 raw)) with 8; lia).
        apply (wrote_word_back m1 m2); auto. lia. }
      assert (Rtag : readRawPointer (mem m4 psid) (padAddr + 8) = Ok raw).
      { rewrite (readRawPointer_other _ _ _ _ _ psid (padAddr + 8) EW4) by (change (zlen (le_encode 8 dv)) with 8; lia).
        apply (wrote_word_back m2 m3); auto. lia. }
      assert (N4 : zlen (bm_segs m4) = zlen (bm_segs m1)).
      { rewrite (wrote_nsegs _ _ _ _ _ EW4), (wrote_nsegs _ _ _ _ _ EW3). apply (wrote_nsegs _ _ _ _ _ EW2). }
      unfold word64 in Rw. destruct (raw_type raw Rt ltac:(lia)) as (T0 & T1 & T2).
      split.
      { exists 0, (landingPadNearPointer fv raw). rewrite !nth_bm_data. split.
        - intros strict. unfold resolveFarPointer. rewrite Rd. cbn [bind]. cbv zeta. rewrite D2.
          change (doubleFarPointer =? doubleFarPointer) with true. cbv iota. rewrite D4.
          match goal with |- bind ?X _ = _ => assert (HPS : X = Ok (mem m4 psid)) end.
          { destruct (psid =? dsid) eqn:E; [assert (EQ : psid = dsid) by lia; rewrite EQ; reflexivity|].
            apply lookup_segment_bm. lia. }
          rewrite HPS. cbn [bind]. rewrite D3. replace (padAddr / 8 * 8) with padAddr by lia.
          rewrite regionInBounds_true by (unfold maxSegmentSize; lia). cbn [negb].
          rewrite Rfar. cbn [bind]. rewrite F2. change (farPointer =? farPointer) with true. cbn [negb].
          unfold addSize. cbv zeta. destruct (padAddr + 8 >? maxSegmentSize) eqn:E2; [unfold maxSegmentSize in E2; lia|].
          rewrite Rtag. cbn [bind]. cbv zeta. rewrite Ro.
          assert (HT : (negb (pointerType raw =? structPointer) && negb (pointerType raw =? listPointer)) || negb (0 =? 0) = false).
          { destruct T0 as [-> | ->]; reflexivity. }
          rewrite HT. rewrite F4.
          destruct (tsid =? dsid) eqn:E3; [lia|]. rewrite lookup_segment_bm by lia. cbn [bind].
          (* the repaired reader's special case (pad resolving to the zero word) does not arise:
             the tag written is not the zero word *)
          assert (Hnz : (landingPadNearPointer fv raw =? 0) = false).
          { rewrite landingPadNearPointer_sum by (right; exact Rt).
            unfold ptr_offset, s32, u32 in *. cbv zeta in Ro.
            destruct (raw mod 4294967296 <? 2147483648) eqn:EE; lia. }
          rewrite Hnz. rewrite Bool.andb_false_r. reflexivity.
        - split; [exact P1|]. split; [exact P2|]. split; [exact P4|]. split; [exact P5|]. split; [exact P6|].
          unfold ArithMore.resolve in P7. rewrite P7. rewrite F3. f_equal. lia. }
      destruct EW2 as (V1 & V2 & V3 & V4 & V5 & V6 & V7 & V8 & V9 & V10).
      destruct EW3 as (X1 & X2 & X3 & X4 & X5 & X6 & X7 & X8 & X9 & X10).
      destruct EW4 as (Y1 & Y2 & Y3 & Y4 & Y5 & Y6 & Y7 & Y8 & Y9 & Y10).
      split; [reflexivity|]. split; [reflexivity|]. split; [congruence|]. split; [congruence|].
      exists dv. intros i Hi.
      (* every segment: old bytes, with the pointer word replaced, then possibly pad words *)
      assert (Hpre : forall j, 0 <= j -> exists t, mem m3 j = mem m j ++ t).
      { intros j Hj. destruct (A1 j Hj) as [t Et]. destruct (Z.eq_dec j psid) as [->|Hne].
        - rewrite X3, V3, Et.
          assert (Lm : length (mem m psid) = Z.to_nat padAddr) by (unfold zlen in A3; lia).
          exists (write_bytes (write_bytes t 0 (le_encode 8 fv)) 8 (le_encode 8 raw)).
          rewrite A3. replace (zlen (mem m psid)) with (zlen (mem m psid) + 0) at 1 by lia.
          rewrite write_bytes_app_right by lia. rewrite write_bytes_app_right by lia. reflexivity.
        - exists t. unfold mem at 1. rewrite X4 by lia. rewrite V4 by lia. exact Et. }
      destruct (Hpre i Hi) as [t Et].
      destruct (i =? dsid) eqn:E.
      * assert (i = dsid) by lia. subst i. rewrite Y3, Et. exists t.
        apply write_bytes_app_left; [lia|change (zlen (le_encode 8 dv)) with 8; lia].
      * exists t. unfold mem at 1. rewrite Y4 by lia. exact Et.
Qed.

(* ------------------------------------------------------------------ readPtr on a resolved pointer *)
(* struct target: Segment.readPtr returns a Struct at exactly (tsid, taddr) with raw's size *)
Theorem resolved_read_struct strict ms rl sid off tsid taddr raw depth :
  resolves_to ms sid off tsid taddr raw ->
  pointerType raw = structPointer -> os_isZero (structSize raw) = false ->
  regionInBounds (nth (Z.to_nat tsid) ms []) taddr (totalSize (structSize raw)) = true ->
  depth <> 0 -> totalSize (structSize raw) <= rl ->
  readPtr strict ms rl sid (nth (Z.to_nat sid) ms []) off depth =
  (Ok (mkPtr true tsid taddr 0 (structSize raw) (uint_dec depth) KStruct false false false),
   rl - totalSize (structSize raw)).
Proof.
  intros (base & val & R & Vw & Vt & Vs & _ & _ & Ve) Hst Hnz Hin Hd Hrl.
  unfold readPtr. rewrite (R strict).
  assert (Hv0 : (val =? 0) = false).
  { destruct (val =? 0) eqn:E; auto. assert (val = 0) by lia. subst val.
    rewrite <- Vs in Hnz. cbv in Hnz. discriminate. }
  rewrite Hv0. destruct (depth =? 0) eqn:ED; [lia|]. cbv zeta. rewrite Vt, Hst.
  change (structPointer =? structPointer) with true. cbv iota.
  unfold readStructPtr. rewrite Ve, Vs, Hin. cbn [negb].
  unfold canRead, struct_readSize. cbn [p_valid p_size p_seg p_off].
  destruct (rl >=? totalSize (structSize raw)) eqn:E; [reflexivity|lia].
Qed.

(* non-composite list target (element types 0..6) *)
Theorem resolved_read_list strict ms rl sid off tsid taddr raw depth lsize es :
  resolves_to ms sid off tsid taddr raw ->
  pointerType raw = listPointer -> listType raw <> 7 ->
  totalListSize raw = Some (Some lsize) -> elementSize raw = Some es ->
  regionInBounds (nth (Z.to_nat tsid) ms []) taddr lsize = true ->
  depth <> 0 ->
  let lp := if listType raw =? 1
            then mkPtr true tsid taddr (numListElements raw) (mkOS 0 0) 0 KList false true false
            else mkPtr true tsid taddr (numListElements raw) es 0 KList false false false in
  list_readSize lp <= rl ->
  readPtr strict ms rl sid (nth (Z.to_nat sid) ms []) off depth =
  (Ok (mkPtr true tsid taddr (numListElements raw) (p_size lp) (uint_dec depth) KList false (p_bit lp) false),
   rl - list_readSize lp).
Proof.
  intros (base & val & R & Vw & Vt & Vs & Vl & Vn & Ve) Hlt H7 Hts Hes Hin Hd lp Hrl.
  unfold readPtr. rewrite (R strict).
  assert (Hv0 : (val =? 0) = false).
  { destruct (val =? 0) eqn:E; auto. assert (val = 0) by lia. subst val.
    rewrite Hlt in Vt. cbv in Vt. discriminate. }
  rewrite Hv0. destruct (depth =? 0) eqn:ED; [lia|]. cbv zeta. rewrite Vt, Hlt.
  change (listPointer =? structPointer) with false. change (listPointer =? listPointer) with true. cbv iota.
  assert (HT : totalListSize val = totalListSize raw).
  { unfold totalListSize, elementSize. now rewrite Vl, Vn. }
  assert (HE : elementSize val = elementSize raw) by (unfold elementSize; now rewrite Vl).
  unfold readListPtr. rewrite Ve, HT, Hts, Hin. cbn [negb]. cbv zeta. rewrite Vl, Vn, HE, Hes.
  destruct (listType raw =? 7) eqn:E7; [lia|].
  subst lp. destruct (listType raw =? 1) eqn:E1.
  - cbn [p_size p_bit] in *. unfold canRead.
    match goal with |- context [if ?c then _ else _] => destruct c eqn:EC end; [reflexivity|lia].
  - cbn [p_size p_bit] in *. unfold canRead.
    match goal with |- context [if ?c then _ else _] => destruct c eqn:EC end; [reflexivity|lia].
Qed.

(* [write_read_ptr], struct instance: placing a struct of size sz and reading the pointer back *)
Corollary write_read_ptr_struct w dsid off tsid taddr sz raw w' strict depth :
  place_pre (w_dst w) dsid off tsid taddr raw ->
  rawStructPointer 0 sz = Some raw -> os_wf sz -> os_isZero sz = false ->
  taddr + totalSize sz <= zlen (mem (w_dst w) tsid) ->
  place w dsid off tsid taddr raw = Ok w' ->
  depth <> 0 -> totalSize sz <= bm_rl (w_dst w') ->
  readPtr strict (bm_data (w_dst w')) (bm_rl (w_dst w')) dsid (mem (w_dst w') dsid) off depth =
  (Ok (mkPtr true tsid taddr 0 sz (uint_dec depth) KStruct false false false), bm_rl (w_dst w') - totalSize sz).
Proof.
  intros Hpre Hraw Hwf Hnz Hin Hpl Hd Hrl.
  destruct (struct_pointer_roundtrip 0 sz ltac:(unfold off_ok; lia) Hwf) as (p & Ep & Pw & Pt & Po & Ps).
  rewrite Hraw in Ep. apply (f_equal (fun o => match o with Some x => x | None => 0 end)) in Ep. subst p.
  destruct (place_resolves _ _ _ _ _ _ _ Hpre Hpl) as (R & _ & _ & _ & _ & (pw & Hfr)).
  rewrite <- (nth_bm_data (w_dst w') dsid).
  rewrite <- Ps. apply resolved_read_struct; auto; try (rewrite Ps; assumption).
  rewrite Ps. rewrite nth_bm_data.
  destruct Hpre as (_ & _ & Hsm & _ & Hd' & Ht & _ & Ho0 & _ & Hol & _).
  pose proof (Hsm tsid) as Hs1. apply regionInBounds_true; [lia|].
  destruct (Hfr tsid ltac:(lia)) as [t Et]. rewrite Et, zlen_app.
  pose proof (zlen_nonneg t).
  destruct (tsid =? dsid) eqn:E; [|lia].
  assert (tsid = dsid) by lia. subst tsid.
  unfold zlen at 1. rewrite write_bytes_length; [unfold zlen in *; lia|lia|].
  change (zlen (le_encode 8 pw)) with 8. exact Hol.
Qed.
