(* [alloc_fresh]: allocation hands out fresh, zero-filled, word-aligned storage inside
   len <= cap and changes no existing byte, for every arena kind and all capacities
   (message.go alloc / allocSegment / SingleSegment.Allocate / MultiSegment.Allocate /
   nextAlloc). *)
From CV Require Import Core.Builder Core.ReaderFacts Core.BuilderFacts.
From Coq Require Import ZifyBool ZifyNat.
Open Scope Z_scope.

Ltac Zify.zify_post_hook ::= Z.div_mod_to_equations.

(* ------------------------------------------------------------------ padToWord / nextAlloc *)
Lemma padToWord_facts sz : 0 <= sz <= maxSegmentSize ->
  sz <= padToWord sz < sz + 8 /\ padToWord sz mod 8 = 0 /\ padToWord sz <= maxSegmentSize.
Proof. unfold padToWord, u32, maxSegmentSize. lia. Qed.

(* nextAlloc: a multiple of the word size, at least the padded request *)
Theorem nextAlloc_facts curr max req r :
  0 <= curr < 9223372036854775808 -> 0 <= req ->
  nextAlloc curr max req = Ok r ->
  r mod 8 = 0 /\ 0 <= r /\ (req = 0 -> r = 0) /\ (0 < req -> padToWord req <= r).
Proof.
  intros Hc Hr. unfold nextAlloc.
  destruct (req =? 0) eqn:E0; [intros H; apply Ok_inj in H; subst r; lia|].
  destruct (req >? maxAllocSize) eqn:E1; [discriminate|].
  assert (Hp := padToWord_facts req). unfold maxAllocSize in *.
  assert (Hp' : req <= padToWord req < req + 8 /\ padToWord req mod 8 = 0 /\ padToWord req <= maxSegmentSize)
    by (apply Hp; lia).
  clear Hp. destruct Hp' as (Hp1 & Hp2 & Hp3).
  set (padreq := padToWord req) in *.
  assert (Hw : s64 (curr + padreq) = curr + padreq \/ s64 (curr + padreq) < 0).
  { unfold s64, maxSegmentSize in *. cbv zeta.
    destruct ((curr + padreq) mod 18446744073709551616 <? 9223372036854775808) eqn:E; lia. }
  set (want := s64 (curr + padreq)) in *.
  destruct ((want <=? curr) || (want >? max)) eqn:E2; [discriminate|].
  assert (Hwant : want = curr + padreq) by lia.
  cbv zeta.
  destruct (want <? 1024) eqn:E3.
  { destruct ((1024 - curr + 7) / 8 * 8 <? curr) eqn:E4; intros H; apply Ok_inj in H; subst r; lia. }
  destruct (want >? s64 (curr + curr)) eqn:E4; [intros H; apply Ok_inj in H; subst r; lia|].
  set (new := grow 400 curr want).
  destruct ((0 <? new) && (new <? want)) eqn:E5; [discriminate|].
  destruct (new <=? 0) eqn:E6; [intros H; apply Ok_inj in H; subst r; lia|].
  destruct (new - curr >? maxSegmentSize) eqn:E7; intros H; apply Ok_inj in H; subst r; unfold maxSegmentSize in *; lia.
Qed.

(* ------------------------------------------------------------------ hasCapacity *)
Lemma hasCapacity_true s sz : seg_wf s -> hasCapacity s sz = true -> blen s + sz <= bs_cap s.
Proof. unfold hasCapacity, seg_wf, u32. intros [H1 H2] H. lia. Qed.

(* ------------------------------------------------------------------ multi-segment search *)
Lemma multi_find_some l : forall id total sz j t,
  0 <= id -> multi_find l id total sz = (Some j, t) ->
  id <= j < id + zlen l /\ hasCapacity (nth (Z.to_nat (j - id)) l (mkBS [] 0)) sz = true.
Proof.
  induction l as [|s l IH]; intros id total sz j t Hid H; cbn [multi_find] in H; [discriminate|].
  destruct (hasCapacity s sz) eqn:E.
  - injection H as <- <-. replace (id - id) with 0 by lia. cbn. unfold zlen. cbn [length]. split; [lia|assumption].
  - apply IH in H; [|lia]. destruct H as [H1 H2]. unfold zlen in *. cbn [length]. split; [lia|].
    replace (Z.to_nat (j - id)) with (S (Z.to_nat (j - (id + 1)))) by lia. exact H2.
Qed.

Lemma multi_find_none l : forall id total sz t,
  Forall seg_wf l -> 0 <= total -> multi_find l id total sz = (None, t) -> 0 <= t.
Proof.
  induction l as [|s l IH]; intros id total sz t Hwf Ht H; cbn [multi_find] in H.
  - now injection H as <-.
  - destruct (hasCapacity s sz); [discriminate|]. inversion Hwf as [|? ? Hs Hl]; subst.
    apply IH in H; auto. destruct Hs as [Hs _]. assert (0 <= blen s) by apply blen_nonneg. lia.
Qed.

(* ------------------------------------------------------------------ allocSegment *)
(* a single-segment arena always has exactly its one segment *)
Definition arena_wf (m : bmsg) : Prop := bm_arena m = ASingle -> zlen (bm_segs m) = 1.

Lemma get_seg_app_old m s i : 0 <= i < zlen (bm_segs m) ->
  nth (Z.to_nat i) (bm_segs m ++ [s]) (mkBS [] 0) = get_seg m i.
Proof. intros H. unfold get_seg. apply app_nth1. unfold zlen in H. lia. Qed.

Lemma allocSegment_spec m sz m' id :
  bmsg_wf m -> arena_wf m -> 0 <= sz ->
  allocSegment m sz = Ok (m', id) ->
  0 <= id < zlen (bm_segs m') /\ bmsg_wf m' /\ arena_wf m' /\
  blen (get_seg m' id) + sz <= bs_cap (get_seg m' id) /\
  (forall i, 0 <= i -> bs_data (get_seg m' i) = bs_data (get_seg m i)) /\
  (forall i, 0 <= i -> i <> id -> get_seg m' i = get_seg m i) /\
  bs_cap (get_seg m id) <= bs_cap (get_seg m' id) /\
  zlen (bm_segs m) <= zlen (bm_segs m') <= zlen (bm_segs m) + 1 /\
  bm_arena m' = bm_arena m /\ bm_caps m' = bm_caps m /\ bm_rl m' = bm_rl m.
Proof.
  intros Hwf Har Hsz. unfold allocSegment.
  destruct (sz >? maxAllocSize) eqn:E0; [discriminate|].
  destruct (bm_arena m) eqn:EA.
  - (* single segment *)
    assert (H1 : zlen (bm_segs m) = 1) by (apply Har; assumption).
    assert (Hs := get_seg_wf m 0 Hwf).
    destruct (negb (blen (get_seg m 0) mod 8 =? 0)) eqn:E1; [discriminate|].
    destruct (hasCapacity (get_seg m 0) sz) eqn:E2.
    + intros [= <- <-]. apply hasCapacity_true in E2; auto.
      repeat split; auto; lia.
    + destruct (nextAlloc (blen (get_seg m 0)) maxAllocSize sz) as [inc| |] eqn:EN; cbn [bind]; try discriminate.
      intros [= <- <-].
      assert (Hb := blen_nonneg (get_seg m 0)).
      assert (Hsmall : sz <= maxSegmentSize) by (unfold maxAllocSize in E0; lia).
      assert (Hlen : blen (get_seg m 0) < 9223372036854775808).
      { (* nextAlloc succeeded: want = len + padreq <= max *)
        unfold nextAlloc in EN. destruct (sz =? 0) eqn:Z0.
        - unfold hasCapacity in E2. assert (sz = 0) by lia. subst sz.
          unfold u32 in E2. lia.
        - destruct (sz >? maxAllocSize); [discriminate|].
          destruct ((s64 (blen (get_seg m 0) + padToWord sz) <=? blen (get_seg m 0))
                    || (s64 (blen (get_seg m 0) + padToWord sz) >? maxAllocSize)) eqn:EW; [discriminate|].
          unfold maxAllocSize, maxSegmentSize in EW.
          assert (HP := padToWord_facts sz). unfold maxSegmentSize in *.
          unfold s64 in EW. cbv zeta in EW.
          destruct ((blen (get_seg m 0) + padToWord sz) mod 18446744073709551616 <? 9223372036854775808) eqn:E9; lia. }
      destruct (nextAlloc_facts _ _ _ _ (conj Hb Hlen) Hsz EN) as (N1 & N2 & N3 & N4).
      assert (HP := padToWord_facts sz (conj Hsz Hsmall)).
      set (s' := mkBS (bs_data (get_seg m 0)) (bs_cap (get_seg m 0) + inc)).
      assert (Hs' : seg_wf s').
      { destruct Hs as [Hs1 Hs2]. unfold seg_wf, s', blen in *. cbn [bs_data bs_cap]. lia. }
      rewrite put_seg_nsegs. repeat split; try lia.
      * apply put_seg_wf; assumption.
      * unfold arena_wf. rewrite put_seg_nsegs. destruct (put_seg_fields m 0 s') as (-> & _ & _). auto.
      * rewrite get_put_same by lia. unfold s', blen. cbn [bs_data bs_cap].
        destruct Hs as [Hs1 _]. unfold blen in *.
        destruct (Z.eq_dec sz 0); lia.
      * intros i Hi. destruct (Z.eq_dec i 0) as [->|Hne].
        -- rewrite get_put_same by lia. reflexivity.
        -- rewrite get_put_other by lia. reflexivity.
      * intros i Hi Hne. rewrite get_put_other by lia. reflexivity.
      * rewrite get_put_same by lia. unfold s'. cbn [bs_cap]. lia.
      * destruct (put_seg_fields m 0 s') as (F & _ & _). rewrite F. exact EA.
  - (* multi segment *)
    destruct (multi_find (bm_segs m) 0 0 sz) as [[j|] total] eqn:EM.
    + intros [= <- <-]. apply multi_find_some in EM; [|lia]. destruct EM as [M1 M2].
      replace (j - 0) with j in M2 by lia.
      assert (Hs := get_seg_wf m j Hwf). fold (get_seg m j) in M2.
      apply hasCapacity_true in M2; auto. repeat split; auto; lia.
    + assert (Ht : 0 <= total) by (apply (multi_find_none (bm_segs m) 0 0 sz total Hwf (Z.le_refl 0) EM)).
      destruct (nextAlloc total maxInt64 sz) as [n| |] eqn:EN; cbn [bind]; try discriminate.
      intros [= <- <-]. cbn [bm_segs bm_arena bm_caps bm_rl].
      assert (Hsmall : sz <= maxSegmentSize) by (unfold maxAllocSize in E0; lia).
      assert (Htot : total < 9223372036854775808).
      { unfold nextAlloc in EN. destruct (sz =? 0) eqn:Z0.
        - (* sz = 0 always has capacity when a segment exists; with no segment total = 0 *)
          assert (sz = 0) by lia. subst sz.
          destruct (bm_segs m) as [|s0 l] eqn:ES.
          + cbn in EM. injection EM as <-. lia.
          + cbn [multi_find] in EM. unfold hasCapacity in EM.
            assert (Hs0 : seg_wf s0).
            { unfold bmsg_wf in Hwf. rewrite ES in Hwf. now inversion Hwf. }
            destruct Hs0 as [Hs0 _]. unfold u32 in EM.
            destruct (0 <=? (bs_cap s0 - blen s0) mod 4294967296) eqn:EE; [discriminate|lia].
        - destruct (sz >? maxAllocSize); [discriminate|].
          destruct ((s64 (total + padToWord sz) <=? total) || (s64 (total + padToWord sz) >? maxInt64)) eqn:EW; [discriminate|].
          unfold maxInt64 in EW.
          assert (HP := padToWord_facts sz). unfold maxSegmentSize in *.
          unfold s64 in EW. cbv zeta in EW.
          destruct ((total + padToWord sz) mod 18446744073709551616 <? 9223372036854775808) eqn:E9; lia. }
      destruct (nextAlloc_facts _ _ _ _ (conj Ht Htot) Hsz EN) as (N1 & N2 & N3 & N4).
      assert (HP := padToWord_facts sz (conj Hsz Hsmall)).
      assert (Hz := zlen_nonneg (bm_segs m)).
      assert (Hz1 : zlen [mkBS [] n] = 1) by reflexivity.
      rewrite !zlen_app, Hz1.
      assert (Hnew : get_seg (mkBM AMulti (bm_segs m ++ [mkBS [] n]) (bm_caps m) (bm_rl m)) (zlen (bm_segs m)) = mkBS [] n).
      { unfold get_seg. cbn [bm_segs]. rewrite app_nth2 by (unfold zlen; lia).
        unfold zlen. rewrite Nat2Z.id, Nat.sub_diag. reflexivity. }
      assert (Hold : forall i, 0 <= i -> i <> zlen (bm_segs m) ->
                get_seg (mkBM AMulti (bm_segs m ++ [mkBS [] n]) (bm_caps m) (bm_rl m)) i = get_seg m i).
      { intros i Hi Hne. unfold get_seg. cbn [bm_segs].
        destruct (Z_lt_ge_dec i (zlen (bm_segs m))) as [L|G].
        - apply app_nth1. unfold zlen in L. lia.
        - rewrite !nth_overflow; auto; [unfold zlen in *; lia|].
          rewrite app_length. cbn [length]. unfold zlen in *. lia. }
      repeat split; try lia.
      * unfold bmsg_wf. cbn [bm_segs]. apply Forall_app. split; [exact Hwf|].
        constructor; [|constructor]. unfold seg_wf, blen, zlen. cbn. lia.
      * unfold arena_wf. cbn [bm_arena]. discriminate.
      * rewrite Hnew. unfold blen, zlen. cbn. destruct (Z.eq_dec sz 0); lia.
      * intros i Hi. destruct (Z.eq_dec i (zlen (bm_segs m))) as [->|Hne].
        -- rewrite Hnew. rewrite get_seg_out by lia. reflexivity.
        -- rewrite Hold by assumption. reflexivity.
      * intros i Hi Hne. apply Hold; assumption.
      * rewrite Hnew. rewrite get_seg_out by lia. cbn [bs_cap]. lia.
Qed.

(* ------------------------------------------------------------------ alloc *)
(* alloc(s, sz): the region is [addr, addr + padToWord sz) of segment sid', it starts at the
   segment's old length (0 for a segment created by this call), is word aligned, zero filled
   and inside len <= cap; no byte that existed before changes (all other segments keep their
   data, the chosen one is extended at its end; single-segment regrowth only raises the
   capacity); segment count, lengths and capacities only grow. *)
Theorem alloc_fresh m sid sz m' sid' addr :
  bmsg_wf m -> arena_wf m -> 0 <= sid < zlen (bm_segs m) -> 0 <= sz ->
  alloc m sid sz = Ok (m', sid', addr) ->
  let n := padToWord sz in
  0 <= sid' < zlen (bm_segs m') /\
  addr = blen (get_seg m sid') /\ addr mod 8 = 0 /\ n mod 8 = 0 /\ sz <= n /\
  bs_data (get_seg m' sid') = bs_data (get_seg m sid') ++ repeat 0 (Z.to_nat n) /\
  addr + n = blen (get_seg m' sid') /\
  blen (get_seg m' sid') <= bs_cap (get_seg m' sid') /\
  blen (get_seg m' sid') <= maxSegmentSize /\
  (forall i, 0 <= i -> i <> sid' -> bs_data (get_seg m' i) = bs_data (get_seg m i)) /\
  (forall i, 0 <= i -> bs_cap (get_seg m i) <= bs_cap (get_seg m' i)) /\
  zlen (bm_segs m) <= zlen (bm_segs m') <= zlen (bm_segs m) + 1 /\
  bmsg_wf m' /\ arena_wf m' /\
  bm_arena m' = bm_arena m /\ bm_caps m' = bm_caps m /\ bm_rl m' = bm_rl m.
Proof.
  intros Hwf Har Hsid Hsz. unfold alloc.
  destruct (sz >? maxAllocSize) eqn:E0; [discriminate|].
  assert (Hsmall : sz <= maxSegmentSize) by (unfold maxAllocSize in E0; lia).
  destruct (padToWord_facts sz (conj Hsz Hsmall)) as (P1 & P2 & P3).
  set (n := padToWord sz) in *.
  assert (Hpick : forall m1 sid1,
            (if hasCapacity (get_seg m sid) n then Ok (m, sid) else allocSegment m n) = Ok (m1, sid1) ->
            0 <= sid1 < zlen (bm_segs m1) /\ bmsg_wf m1 /\ arena_wf m1 /\
            blen (get_seg m1 sid1) + n <= bs_cap (get_seg m1 sid1) /\
            (forall i, 0 <= i -> bs_data (get_seg m1 i) = bs_data (get_seg m i)) /\
            (forall i, 0 <= i -> bs_cap (get_seg m i) <= bs_cap (get_seg m1 i)) /\
            zlen (bm_segs m) <= zlen (bm_segs m1) <= zlen (bm_segs m) + 1 /\
            bm_arena m1 = bm_arena m /\ bm_caps m1 = bm_caps m /\ bm_rl m1 = bm_rl m).
  { intros m1 sid1. destruct (hasCapacity (get_seg m sid) n) eqn:EH.
    - intros [= <- <-]. assert (Hs := get_seg_wf m sid Hwf).
      apply hasCapacity_true in EH; auto. repeat split; auto; lia.
    - intros HA. apply allocSegment_spec in HA; auto; [|lia].
      destruct HA as (A1 & A2 & A3 & A4 & A5 & A6 & A6' & A7 & A8 & A9 & A10).
      repeat split; auto; try lia.
      intros i Hi. destruct (Z.eq_dec i sid1) as [->|Hne]; [exact A6'|].
      rewrite A6 by assumption. lia. }
  destruct (if hasCapacity (get_seg m sid) n then Ok (m, sid) else allocSegment m n) as [[m1 sid1]| |] eqn:EP;
    cbn [bind]; try discriminate.
  destruct (Hpick m1 sid1 eq_refl) as (K1 & K2 & K3 & K4 & K5 & K6 & K7 & K8 & K9 & K10).
  destruct (addSize (blen (get_seg m1 sid1)) n) as [e|] eqn:EA; [|discriminate].
  intros [= <- <- <-]. apply addSize_spec in EA.
  assert (Hs1 := get_seg_wf m1 sid1 K2). destruct Hs1 as [S1 S2].
  assert (Hb := blen_nonneg (get_seg m1 sid1)).
  set (s' := mkBS (bs_data (get_seg m1 sid1) ++ repeat 0 (Z.to_nat n)) (bs_cap (get_seg m1 sid1))).
  assert (Hlen' : blen s' = blen (get_seg m1 sid1) + n).
  { unfold s', blen. cbn [bs_data]. rewrite zlen_app, zlen_repeat. lia. }
  assert (Hs' : seg_wf s') by (unfold seg_wf; rewrite Hlen'; unfold s'; cbn [bs_cap]; lia).
  assert (Hblen : blen (get_seg m1 sid1) = blen (get_seg m sid1)) by (unfold blen; rewrite K5 by lia; reflexivity).
  rewrite put_seg_nsegs. cbv zeta. rewrite get_put_same by lia.
  destruct (put_seg_fields m1 sid1 s') as (F1 & F2 & F3).
  repeat split; try lia; try congruence.
  - unfold s'. cbn [bs_data]. rewrite K5 by lia. reflexivity.
  - destruct Hs' as [W _]. exact W.
  - intros i Hi Hne. rewrite get_put_other by lia. apply K5. assumption.
  - intros i Hi. destruct (Z.eq_dec i sid1) as [->|Hne].
    + rewrite get_put_same by lia. unfold s'. cbn [bs_cap]. apply K6. lia.
    + rewrite get_put_other by lia. apply K6. assumption.
  - apply put_seg_wf; assumption.
  - unfold arena_wf. rewrite put_seg_nsegs, F1. exact K3.
Qed.
