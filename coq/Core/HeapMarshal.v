(* C04 / C05: the segments of every builder state the invariant describes meet the premises of
   C14's frame theorems (count and segment sizes), so Marshal / Encode / Unmarshal round-trip them. *)
From CV Require Import Core.Builder Core.ReaderFacts Core.BuilderFacts Core.AllocProofs Core.WritePtrProofs Core.HeapProofs
  Core.BuildOps Core.BuildValid Core.BuildInv Core.BuildExamples Core.HeapInv Core.HeapOps.
From CV Require Frame.Frame Frame.FrameProofs Frame.FrameThms.
From Coq Require Import ZifyBool ZifyNat.
Open Scope Z_scope.

Lemma hinv_frame_premises m objs pads : hinv m objs pads -> nsegs m <= 1073741823 ->
  FrameProofs.count_ok (bm_data m) /\ FrameProofs.segs_ok (bm_data m).
Proof.
  intros H Hn. split.
  - unfold FrameProofs.count_ok, Frame.len. change (Z.of_nat (length (bm_data m))) with (zlen (bm_data m)). rewrite zlen_bm.
    pose proof (hi_in _ _ _ H root_reg ltac:(unfold all_regs, regsO; left; reflexivity)) as I0.
    unfold in_msg, root_reg in I0. cbn [r_seg r_start r_size] in I0. destruct (in_seg_elim _ _ _ _ I0) as (G1 & _).
    rewrite zlen_bm in G1. lia.
  - unfold FrameProofs.segs_ok. apply Forall_forall. intros s Hs.
    destruct (In_nth _ _ [] Hs) as (k & Hk & <-).
    replace k with (Z.to_nat (Z.of_nat k)) by lia. rewrite nth_bm_data.
    unfold FrameProofs.seg_ok, Frame.len, Frame.max_segment_size, Frame.two32.
    change (Z.of_nat (length (mem m (Z.of_nat k)))) with (zlen (mem m (Z.of_nat k))).
    pose proof (hi_small _ _ _ H (Z.of_nat k)) as Sm. unfold maxSegmentSize in Sm.
    destruct (hi_inv _ _ _ H) as [Hwf _]. pose proof (get_seg_wf m (Z.of_nat k) Hwf) as [_ A8]. unfold blen in A8.
    split; [exact A8|]. change (2 ^ 32 - 8) with 4294967288. exact Sm.
Qed.

(* [marshal_roundtrip_states]: Marshal of the segments succeeds, the repaired Encoder writes the
   same bytes, and Unmarshal (also with trailing bytes) returns exactly the segments *)
Theorem marshal_roundtrip_states m objs pads : hinv m objs pads -> nsegs m <= 1073741823 ->
  exists b, Frame.marshal (bm_data m) = Frame.Ok b /\ Frame.encode true (bm_data m) = Frame.Ok b /\
            Frame.unmarshal b = Frame.Ok (bm_data m) /\ forall junk, Frame.unmarshal (b ++ junk) = Frame.Ok (bm_data m).
Proof.
  intros H Hn. destruct (hinv_frame_premises m objs pads H Hn) as [Hc Hs].
  destruct (FrameProofs.unmarshal_roundtrip (bm_data m) Hc Hs) as (b & M & U & J).
  destruct (FrameThms.encode_is_marshal (bm_data m) Hc Hs) as [M2 E2].
  exists b. split; [exact M|]. split; [|split; [exact U|exact J]]. rewrite E2. rewrite M2 in M. exact M.
Qed.

(* for Properties_C05.v *)
Lemma ex_prog_op_wf : Forall op_wf ex_prog /\ arena_spec_wf (ArRaw [32; 8]).
Proof. split; [repeat constructor; cbn; lia|repeat constructor; lia]. Qed.
