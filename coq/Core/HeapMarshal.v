(* C04 / C05: the segments of every builder state the invariant describes meet the premises of
   C14's frame theorems (count and segment sizes), so Marshal / Encode / Unmarshal round-trip them. *)
From CV Require Import Core.Builder Core.ReaderFacts Core.BuilderFacts Core.AllocProofs Core.WritePtrProofs Core.HeapProofs
  Core.BuildOps Core.BuildValid Core.BuildInv Core.BuildExamples Core.HeapInv Core.HeapOps.
From CV Require Frame.Frame Frame.FrameProofs Frame.FrameThms.
From Coq Require Import ZifyBool ZifyNat.
Open Scope Z_scope.

Lemma hinv_frame_premises m objs pads : hinv m objs pads -> nsegs m <= 1073741823 ->
  FrameProofs.count_ok (bm_data m) /\ FrameProofs.segs_ok (bm_data m).
Proof.
  intros H Hn. split.
  - unfold FrameProofs.count_ok, Frame.len. change (Z.of_nat (length (bm_data m))) with (zlen (bm_data m)). rewrite zlen_bm.
    pose proof (hi_in _ _ _ H root_reg ltac:(unfold all_regs, regsO; left; reflexivity)) as I0.
    unfold in_msg, root_reg in I0. cbn [r_seg r_start r_size] in I0. destruct (in_seg_elim _ _ _ _ I0) as (G1 & _).
    rewrite zlen_bm in G1. lia.
  - unfold FrameProofs.segs_ok. apply Forall_forall. intros s Hs.
    destruct (In_nth _ _ [] Hs) as (k & Hk & <-).
    replace k with (Z.to_nat (Z.of_nat k)) by lia. rewrite nth_bm_data.
    unfold FrameProofs.seg_ok, Frame.len, Frame.max_segment_size, Frame.two32.
    change (Z.of_nat (length (mem m (Z.of_nat k)))) with (zlen (mem m (Z.of_nat k))).
    pose proof (hi_small _ _ _ H (Z.of_nat k)) as Sm. unfold maxSegmentSize in Sm.
    destruct (hi_inv _ _ _ H) as [Hwf _]. pose proof (get_seg_wf m (Z.of_nat k) Hwf) as [_ A8]. unfold blen in A8.
    split; [exact A8|]. change (2 ^ 32 - 8) with 4294967288. exact Sm.
Qed.

(* [marshal_roundtrip_states]: Marshal of the segments succeeds, the repaired Encoder writes the
   same bytes, and Unmarshal (also with trailing bytes) returns exactly the segments *)
Theorem marshal_roundtrip_states m objs pads : hinv m objs pads -> nsegs m <= 1073741823 ->
  exists b, Frame.marshal (bm_data m) = Frame.Ok b /\ Frame.encode true (bm_data m) = Frame.Ok b /\
            Frame.unmarshal b = Frame.Ok (bm_data m) /\ forall junk, Frame.unmarshal (b ++ junk) = Frame.Ok (bm_data m).
Proof.
  intros H Hn. destruct (hinv_frame_premises m objs pads H Hn) as [Hc Hs].
  destruct (FrameProofs.unmarshal_roundtrip (bm_data m) Hc Hs) as (b & M & U & J).
  destruct (FrameThms.encode_is_marshal (bm_data m) Hc Hs) as [M2 E2].
  exists b. split; [exact M|]. split; [|split; [exact U|exact J]]. rewrite E2. rewrite M2 in M. exact M.
Qed.

(* for Properties_C05.v *)
Lemma ex_prog_op_wf : Forall op_wf ex_prog /\ arena_spec_wf (ArRaw [32; 8]).
Proof. split; [repeat constructor; cbn; lia|repeat constructor; lia]. Qed.

(* ------------------------------------------------------------------ text / data read-back *)
Lemma firstn_app_zeros (v : list Z) k n : (length v <= n)%nat -> (n <= length v + k)%nat ->
  firstn n (v ++ repeat 0 k) = v ++ repeat 0 (n - length v).
Proof.
  intros H1 H2. rewrite firstn_app. rewrite firstn_all2 by lia. f_equal.
  assert (E : forall a b, (a <= b)%nat -> firstn a (repeat 0 b) = repeat 0 a).
  { induction a as [|a IH]; intros [|b] Hab; cbn; auto; try lia. f_equal. apply IH. lia. }
  apply E. lia.
Qed.

(* [new_bytes_read_back]: NewData(v) / NewTextFromBytes(v) and Ptr.Data() / Ptr.Text() on the
   bytes of the new message: the data that was written (with the terminating NUL for a text) *)
Theorem new_bytes_read_back m sid v nul m' p :
  inv m -> 0 <= sid < nsegs m -> zlen v < 536870911 ->
  newBytes m sid v nul = Ok (m', p) ->
  ptr_data (bm_data m') p = Ok (Some (if nul then v ++ [0] else v)) /\
  (nul = true -> ptr_text (bm_data m') p = Ok (Some v)).
Proof.
  intros [Hwf Har] Hs Hv. pose proof (zlen_nonneg v) as Zv.
  set (n := s32 (zlen v + (if nul then 1 else 0))).
  assert (En : n = zlen v + (if nul then 1 else 0)) by (unfold n; apply s32_id; destruct nul; lia).
  unfold newBytes. fold n. unfold newPrimitiveList.
  destruct ((n <? 0) || (n >=? 536870912)) eqn:EN; [discriminate|].
  destruct (alloc m sid _) as [[[m1 s1] a]| |] eqn:EA; cbn [bind]; try discriminate. cbn [p_seg p_off].
  destruct (seg_write m1 s1 a v) as [m2| |] eqn:EW; cbn [bind]; try discriminate.
  intros E. apply Ok_inj in E. assert (m2 = m') by congruence. subst m2.
  assert (Ep : p = mkPtr true s1 a n (mkOS 1 0) maxDepth KList false false false) by congruence. subst p.
  assert (Hn0 : zlen v <= n <= zlen v + 1) by (rewrite En; destruct nul; lia).
  clearbody n.
  assert (TU : timesUnchecked 1 n = n) by (unfold timesUnchecked, u32; lia).
  rewrite TU in EA.
  assert (Hn00 : 0 <= n) by lia.
  pose proof (alloc_fresh _ _ _ _ _ _ Hwf Har Hs Hn00 EA) as AF. cbv zeta in AF.
  destruct AF as (A1 & A2 & _ & _ & A5 & A6 & A7 & _ & A9 & _). unfold maxSegmentSize, blen in *.
  apply seg_write_wrote in EW; [|lia|lia].
  destruct EW as (_ & _ & W3 & _).
  assert (M1 : mem m1 s1 = mem m s1 ++ repeat 0 (Z.to_nat (padToWord n))) by exact A6.
  assert (Ea : a = zlen (mem m s1)) by exact A2.
  assert (M' : mem m' s1 = mem m s1 ++ write_bytes (repeat 0 (Z.to_nat (padToWord n))) 0 v).
  { rewrite W3, M1. rewrite Ea. rewrite <- (write_bytes_app_right (mem m s1) _ 0 v) by lia. f_equal. lia. }
  assert (WB : write_bytes (repeat 0 (Z.to_nat (padToWord n))) 0 v = v ++ repeat 0 (Z.to_nat (padToWord n) - length v)).
  { unfold write_bytes. cbn [Z.to_nat firstn app Nat.add]. f_equal.
    assert (Esk : forall k b, skipn k (repeat 0 b) = repeat 0 (b - k)) by (induction k; intros [|b]; cbn; auto).
    apply Esk. }
  rewrite WB in M'.
  assert (SL : slice (mem m' s1) a n = Ok (v ++ repeat 0 (Z.to_nat n - length v))).
  { assert (PN : n <= padToWord n <= 4294967288) by (unfold padToWord, u32; lia).
    assert (ZL : zlen (mem m' s1) = zlen (mem m s1) + padToWord n).
    { rewrite M', !zlen_app. unfold zlen. rewrite repeat_length. unfold zlen in *. lia. }
    pose proof (zlen_nonneg (mem m s1)) as Z0. change (bs_data (get_seg m1 s1)) with (mem m1 s1) in A7, A9.
    rewrite slice_ok by lia.
    f_equal. unfold sub. rewrite M', Ea. unfold zlen. rewrite Nat2Z.id. rewrite skipn_app, skipn_all2 by lia.
    rewrite Nat.sub_diag. cbn [skipn app]. apply firstn_app_zeros; unfold zlen in *; lia. }
  assert (IB : isOneByteList (mkPtr true s1 a n (mkOS 1 0) maxDepth KList false false false) = true) by reflexivity.
  assert (U : u32 n = n) by (unfold u32; lia).
  unfold ptr_data, ptr_text. rewrite IB. cbn [negb]. unfold seg_of. cbn [p_seg p_off p_len]. rewrite nth_bm_data, U, SL. cbn [bind].
  assert (Ln : (Z.to_nat n - length v = if nul then 1 else 0)%nat) by (unfold zlen in *; destruct nul; lia).
  rewrite Ln. split.
  - destruct nul; [reflexivity|]. cbn [repeat]. now rewrite app_nil_r.
  - intros ->. cbn [repeat]. rewrite rev_app_distr. cbn [rev app]. change (0 =? 0) with true. cbv iota. now rewrite rev_involutive.
Qed.
