(* Frame and freshness of the pointer-writing operations (writePtr incl. its copy branches,
   copyStruct): no byte that existed before changes except the pointer word / the destination
   struct itself; everything else they write lies in storage allocated during the call;
   segments, lengths and capacities only grow and the message stays well formed.
   Consequences: [copy_fresh] (independence of a copy from its source) and the allocation part
   of [heap_inv] (objects allocated at different times are disjoint). *)
From CV Require Import Core.Builder Core.ReaderFacts Core.ArithFacts Core.BuilderFacts Core.AllocProofs Core.WritePtrProofs.
From Coq Require Import ZifyBool ZifyNat.
Open Scope Z_scope.

Ltac Zify.zify_post_hook ::= Z.div_mod_to_equations.

Definition nsegs (m : bmsg) : Z := zlen (bm_segs m).
Definition inv (m : bmsg) : Prop := bmsg_wf m /\ arena_wf m.

(* [keeps m m' R]: every segment of m is a prefix of the corresponding segment of m', except
   for the bytes at positions R *)
Definition keeps (m m' : bmsg) (R : Z -> Z -> Prop) : Prop :=
  (forall i, 0 <= i -> zlen (mem m i) <= zlen (mem m' i)) /\
  (forall i k, 0 <= i -> 0 <= k < zlen (mem m i) -> ~ R i k ->
     nth (Z.to_nat k) (mem m' i) 0 = nth (Z.to_nat k) (mem m i) 0).

Definition Rnone : Z -> Z -> Prop := fun _ _ => False.
Definition Rword (sid off : Z) : Z -> Z -> Prop := fun i k => i = sid /\ off <= k < off + 8.

Lemma keeps_refl m R : keeps m m R.
Proof. split; intros; try lia; reflexivity. Qed.

Lemma keeps_weaken m m' (R R' : Z -> Z -> Prop) :
  (forall i k, 0 <= i -> 0 <= k < zlen (mem m i) -> R i k -> R' i k) -> keeps m m' R -> keeps m m' R'.
Proof. intros H [K1 K2]. split; [exact K1|]. intros i k Hi Hk Hn. apply K2; auto. Qed.

Lemma keeps_trans a b c (R1 R2 : Z -> Z -> Prop) :
  keeps a b R1 -> keeps b c R2 -> keeps a c (fun i k => R1 i k \/ R2 i k).
Proof.
  intros [A1 A2] [B1 B2]. split.
  - intros i Hi. specialize (A1 i Hi). specialize (B1 i Hi). lia.
  - intros i k Hi Hk Hn. rewrite B2.
    + apply A2; auto.
    + assumption.
    + specialize (A1 i Hi). lia.
    + intro X. apply Hn. now right.
Qed.

(* the second step only touches R1 or positions that did not exist at the start *)
Lemma keeps_step a b c (R1 R2 : Z -> Z -> Prop) :
  keeps a b R1 -> keeps b c R2 ->
  (forall i k, 0 <= i -> 0 <= k < zlen (mem a i) -> R2 i k -> R1 i k) ->
  keeps a c R1.
Proof.
  intros HA HB H. eapply keeps_weaken; [|eapply keeps_trans; eauto].
  intros i k Hi Hk [X|X]; auto.
Qed.

(* ------------------------------------------------------------------ invariant in get_seg form *)
Lemma bmsg_wf_iff m : bmsg_wf m <-> (forall i, 0 <= i -> seg_wf (get_seg m i)).
Proof.
  split.
  - intros H i _. now apply get_seg_wf.
  - intros H. unfold bmsg_wf. apply Forall_forall. intros s Hs.
    destruct (In_nth _ _ (mkBS [] 0) Hs) as (n & Hn & <-).
    specialize (H (Z.of_nat n) ltac:(lia)). unfold get_seg in H. now rewrite Nat2Z.id in H.
Qed.

Lemma wrote_inv m m' sid a bs : wrote m m' sid a bs -> 0 <= sid -> inv m -> inv m'.
Proof.
  intros (W1 & W2 & W3 & W4 & W5 & W6 & W7 & W8 & W9 & W10) Hs [Hwf Har]. split.
  - apply bmsg_wf_iff. intros i Hi. destruct (Z.eq_dec i sid) as [->|Hne].
    + pose proof (get_seg_wf m sid Hwf) as [S1 S2]. unfold seg_wf, blen in *. unfold mem in W6.
      rewrite W6, W5. lia.
    + rewrite W4 by assumption. now apply get_seg_wf.
  - unfold arena_wf in *. rewrite W7, W8. exact Har.
Qed.

Lemma wrote_keeps m m' sid a bs :
  wrote m m' sid a bs -> 0 <= sid -> keeps m m' (fun i k => i = sid /\ a <= k < a + zlen bs).
Proof.
  intros (W1 & W2 & W3 & W4 & W5 & W6 & _) Hs. split.
  - intros i Hi. destruct (Z.eq_dec i sid) as [->|Hne]; [lia|]. unfold mem. rewrite W4 by assumption. lia.
  - intros i k Hi Hk Hn. destruct (Z.eq_dec i sid) as [->|Hne].
    + rewrite W3. rewrite write_bytes_nth by lia.
      destruct ((Z.to_nat a <=? Z.to_nat k)%nat && (Z.to_nat k <? Z.to_nat a + length bs)%nat) eqn:E; auto.
      exfalso. apply Hn. unfold zlen. split; auto. lia.
    + unfold mem. rewrite W4 by assumption. reflexivity.
Qed.

Lemma writeRawPointer_keeps m sid off v m' :
  0 <= sid -> inv m -> writeRawPointer m sid off v = Ok m' ->
  keeps m m' (Rword sid off) /\ inv m' /\ nsegs m' = nsegs m /\
  bm_arena m' = bm_arena m /\ bm_caps m' = bm_caps m /\ bm_rl m' = bm_rl m.
Proof.
  intros Hs Hi H. apply writeRawPointer_wrote in H; auto.
  split; [|split; [eapply wrote_inv; eauto|]].
  - apply wrote_keeps in H; auto.
  - destruct H as (_ & _ & _ & _ & _ & _ & W7 & W8 & W9 & W10). unfold nsegs. auto.
Qed.

Lemma alloc_keeps m sid sz m' sid' addr :
  inv m -> 0 <= sid < nsegs m -> 0 <= sz ->
  alloc m sid sz = Ok (m', sid', addr) ->
  keeps m m' Rnone /\ inv m' /\ nsegs m <= nsegs m' /\ 0 <= sid' < nsegs m' /\
  addr = zlen (mem m sid') /\ zlen (mem m' sid') = addr + padToWord sz /\
  bm_caps m' = bm_caps m /\ bm_rl m' = bm_rl m /\ bm_arena m' = bm_arena m /\
  zlen (mem m' sid') <= maxSegmentSize.
Proof.
  intros [Hwf Har] Hsid Hsz H.
  destruct (alloc_mem _ _ _ _ _ _ Hwf Har Hsid Hsz H) as (A1 & A2 & A3 & A4 & A5 & A6 & A7 & A8 & A9 & A10 & A11 & A12 & A13).
  unfold nsegs, inv. repeat split; auto; try lia.
  - intros i Hi. destruct (A1 i Hi) as [t Et]. rewrite Et, zlen_app. pose proof (zlen_nonneg t). lia.
  - intros i k Hi Hk _. destruct (A1 i Hi) as [t Et]. rewrite Et. apply app_nth1. unfold zlen in Hk. lia.
Qed.

(* ------------------------------------------------------------------ place *)
Lemma place_keeps w dsid off tsid taddr raw w' :
  inv (w_dst w) -> 0 <= dsid < nsegs (w_dst w) -> 0 <= tsid < nsegs (w_dst w) ->
  place w dsid off tsid taddr raw = Ok w' ->
  keeps (w_dst w) (w_dst w') (Rword dsid off) /\ inv (w_dst w') /\ nsegs (w_dst w) <= nsegs (w_dst w') /\
  w_src w' = w_src w /\ w_src_rl w' = w_src_rl w /\
  bm_caps (w_dst w') = bm_caps (w_dst w) /\ bm_rl (w_dst w') = bm_rl (w_dst w).
Proof.
  intros Hinv Hd Ht. set (m := w_dst w) in *. unfold place. fold m.
  destruct (tsid =? dsid) eqn:ETD.
  - unfold lift0. destruct (writeRawPointer m dsid off _) as [m'| |] eqn:EW; cbn [bind]; try discriminate.
    intros H. apply Ok_inj in H. subst w'. cbn [w_dst w_set_dst w_src w_src_rl].
    destruct (writeRawPointer_keeps m dsid off _ m' ltac:(lia) Hinv EW) as (K & I & N & _ & C & RL).
    repeat split; auto; try apply K; try apply I. lia.
  - destruct (hasCapacity (get_seg m tsid) 8) eqn:EC.
    + destruct (alloc m tsid 8) as [[[m1 s1] padAddr]| |] eqn:EA; cbn [bind]; try discriminate.
      assert (s1 = tsid) by (eapply alloc_in_place; [rewrite padToWord_8; exact EC|exact EA]). subst s1.
      destruct (alloc_keeps m tsid 8 m1 tsid padAddr Hinv Ht ltac:(lia) EA) as (K1 & I1 & N1 & S1 & AD & L1 & C1 & RL1 & _).
      destruct (writeRawPointer m1 tsid padAddr _) as [m2| |] eqn:EW2; cbn [bind]; try discriminate.
      unfold lift0. destruct (writeRawPointer m2 dsid off _) as [m3| |] eqn:EW3; cbn [bind]; try discriminate.
      intros H. apply Ok_inj in H. subst w'. cbn [w_dst w_set_dst w_src w_src_rl].
      destruct (writeRawPointer_keeps m1 tsid padAddr _ m2 ltac:(lia) I1 EW2) as (K2 & I2 & N2 & _ & C2 & RL2).
      destruct (writeRawPointer_keeps m2 dsid off _ m3 ltac:(lia) I2 EW3) as (K3 & I3 & N3 & _ & C3 & RL3).
      split; [|repeat split; try apply I3; try lia; congruence].
      eapply keeps_step; [eapply keeps_step; [eapply keeps_weaken; [|exact K1]|exact K2|]|exact K3|].
      * intros i k _ _ [].
      * intros i k Hi Hk [-> Hr]. exfalso. lia.
      * intros i k Hi Hk X. exact X.
    + destruct (alloc m dsid 16) as [[[m1 psid] padAddr]| |] eqn:EA; cbn [bind]; try discriminate.
      destruct (alloc_keeps m dsid 16 m1 psid padAddr Hinv Hd ltac:(lia) EA) as (K1 & I1 & N1 & S1 & AD & L1 & C1 & RL1 & _).
      destruct (writeRawPointer m1 psid padAddr _) as [m2| |] eqn:EW2; cbn [bind]; try discriminate.
      destruct (writeRawPointer m2 psid (addSizeUnchecked padAddr 8) raw) as [m3| |] eqn:EW3; cbn [bind]; try discriminate.
      unfold lift0. destruct (writeRawPointer m3 dsid off _) as [m4| |] eqn:EW4; cbn [bind]; try discriminate.
      intros H. apply Ok_inj in H. subst w'. cbn [w_dst w_set_dst w_src w_src_rl].
      destruct (writeRawPointer_keeps m1 psid padAddr _ m2 ltac:(lia) I1 EW2) as (K2 & I2 & N2 & _ & C2 & RL2).
      destruct (writeRawPointer_keeps m2 psid (addSizeUnchecked padAddr 8) raw m3 ltac:(lia) I2 EW3) as (K3 & I3 & N3 & _ & C3 & RL3).
      destruct (writeRawPointer_keeps m3 dsid off _ m4 ltac:(lia) I3 EW4) as (K4 & I4 & N4 & _ & C4 & RL4).
      split; [|repeat split; try apply I4; try lia; congruence].
      (* the second pad word: its address is padAddr + 8 unless it wrapped, in which case the
         write would have been out of bounds *)
      assert (Hp8 : padAddr <= addSizeUnchecked padAddr 8).
      { apply writeRawPointer_wrote in EW3; [|lia]. destruct EW3 as (X1 & X2 & _).
        apply writeRawPointer_wrote in EW2; [|lia]. destruct EW2 as (Y1 & Y2 & _).
        unfold addSizeUnchecked, u32 in *.
        assert (zlen (mem m1 psid) = padAddr + 16) by (rewrite L1; reflexivity).
        pose proof (zlen_nonneg (mem m psid)).
        (* padAddr + 16 <= maxSegmentSize from alloc *)
        destruct Hinv as [Hwf Har].
        destruct (alloc_mem m dsid 16 m1 psid padAddr Hwf Har Hd ltac:(lia) EA) as (_ & _ & _ & _ & _ & _ & _ & _ & B9 & _).
        unfold maxSegmentSize in B9. lia. }
      eapply keeps_step; [eapply keeps_step; [eapply keeps_step; [eapply keeps_weaken; [|exact K1]|exact K2|]|exact K3|]|exact K4|].
      * intros i k _ _ [].
      * intros i k Hi Hk [-> Hr]. exfalso. lia.
      * intros i k Hi Hk [-> Hr]. exfalso. lia.
      * intros i k Hi Hk X. exact X.
Qed.

(* ------------------------------------------------------------------ helpers for the recursion *)
Definition G (m0 : bmsg) (s0 : segs) (w' : world) (R : Z -> Z -> Prop) : Prop :=
  keeps m0 (w_dst w') R /\ inv (w_dst w') /\ nsegs m0 <= nsegs (w_dst w') /\ w_src w' = s0.

Lemma G_step m0 s0 w1 w2 (R R2 : Z -> Z -> Prop) :
  G m0 s0 w1 R -> G (w_dst w1) (w_src w1) w2 R2 ->
  (forall i k, 0 <= i -> 0 <= k < zlen (mem m0 i) -> R2 i k -> R i k) ->
  G m0 s0 w2 R.
Proof.
  intros (K1 & I1 & N1 & S1) (K2 & I2 & N2 & S2) H. unfold G. repeat split; try apply I2.
  - eapply keeps_step; eauto.
  - eapply keeps_step; eauto.
  - lia.
  - congruence.
Qed.

Lemma fold_res_inv {A} (P : A -> Prop) l (f : A -> Z -> res A) : forall a a',
  (forall x b b', In x l -> P b -> f b x = Ok b' -> P b') -> P a -> fold_res l a f = Ok a' -> P a'.
Proof.
  induction l as [|x l IH]; intros a a' Hf Ha H; cbn [fold_res] in H.
  - apply Ok_inj in H. now subst.
  - destruct (f a x) as [b| |] eqn:E; cbn [bind] in H; try discriminate.
    eapply IH; [|eapply Hf; [left; reflexivity|exact Ha|exact E]|exact H].
    intros y c c' Hy. apply Hf. now right.
Qed.

Lemma in_iota x n : In x (iota n) -> 0 <= x < Z.of_nat n.
Proof. unfold iota. intros H. apply in_map_iff in H. destruct H as (k & <- & Hk). apply in_seq in Hk. lia. Qed.

Definition sz_ok (p : Ptr) : Prop := p_valid p = true -> wf_size (p_size p).

Lemma wf_size_00 : wf_size (mkOS 0 0).
Proof. unfold wf_size. cbn. lia. Qed.

Lemma pointerAddress_ge p j : wf_size (p_size p) -> 0 <= j -> 0 <= p_off p <= 4294967295 ->
  p_off p <= pointerAddress p j.
Proof.
  intros [[H1 H2] [H3 H4]] Hj Ho. unfold pointerAddress, addSize, element. cbv zeta.
  destruct (p_off p + DataSize (p_size p) >? maxSegmentSize) eqn:E1.
  - destruct ((4294967295 + j * 8 >? maxSegmentSize) || (4294967295 + j * 8 <? 0)) eqn:E2; lia.
  - destruct ((p_off p + DataSize (p_size p) + j * 8 >? maxSegmentSize) || (p_off p + DataSize (p_size p) + j * 8 <? 0)) eqn:E2; lia.
Qed.

(* sizes of what readPtr returns *)
Lemma readPtr_size_wf strict m rl sid s paddr depth q rl' :
  readPtr strict m rl sid s paddr depth = (Ok q, rl') -> sz_ok q.
Proof.
  unfold readPtr. destruct (resolveFarPointer strict m sid s paddr) as [[[[dsid dst] base] val]| |]; try (intros [= <- _]; discriminate).
  destruct (val =? 0); [intros [= <- _]; intros X; discriminate X|].
  destruct (depth =? 0); [intros H; inversion H|]. cbv zeta.
  destruct (pointerType val =? structPointer).
  { unfold readStructPtr. destruct (element base (ptr_offset val) 8); [|intros H; inversion H].
    destruct (negb _); [intros H; inversion H|].
    destruct (canRead _ _) as [[|] r]; intros H; inversion H; subst. intros _. cbn. apply structSize_wf. }
  destruct (pointerType val =? listPointer).
  { unfold readListPtr. destruct (element base (ptr_offset val) 8); [|intros H; inversion H].
    destruct (totalListSize val) as [[lsz|]|]; try (intros H; inversion H; fail).
    destruct (negb _); [intros H; inversion H|]. cbv zeta.
    destruct (listType val =? 7).
    - destruct (readRawPointer dst z) as [hdr| |]; cbn [bind]; try (intros H; inversion H; fail).
      destruct (addSize z 8); [|intros H; inversion H].
      destruct (negb _); [intros H; inversion H|].
      destruct (strict && _); [intros H; inversion H|].
      destruct (times _ _); [|intros H; inversion H].
      destruct (negb _); [intros H; inversion H|].
      destruct (canRead _ _) as [[|] r]; intros H; inversion H; subst. intros _. cbn. apply structSize_wf.
    - destruct (listType val =? 1).
      + destruct (canRead _ _) as [[|] r]; intros H; inversion H; subst. intros _. cbn. apply wf_size_00.
      + destruct (elementSize val) as [es|] eqn:EE; [|intros H; inversion H].
        destruct (canRead _ _) as [[|] r]; intros H; inversion H; subst. intros _. cbn.
        apply (elementSize_wf val es EE). }
  destruct (pointerType val =? otherPointer); [|intros H; inversion H].
  destruct (negb _); intros H; inversion H; subst. intros _. cbn. apply wf_size_00.
Qed.

Lemma w_set_rl_dst w l rl :
  bm_segs (w_dst (w_set_rl w l rl)) = bm_segs (w_dst w) /\ bm_arena (w_dst (w_set_rl w l rl)) = bm_arena (w_dst w) /\
  w_src (w_set_rl w l rl) = w_src w.
Proof. destruct l; cbn; auto. Qed.

Lemma G_same_segs m0 s0 w w2 R :
  bm_segs (w_dst w2) = bm_segs (w_dst w) -> bm_arena (w_dst w2) = bm_arena (w_dst w) -> w_src w2 = w_src w ->
  G m0 s0 w R -> G m0 s0 w2 R.
Proof.
  intros E1 E2 E3 ((K1 & K2) & (I1 & I2) & N & S). unfold G, keeps, inv, bmsg_wf, arena_wf, nsegs, mem, get_seg in *.
  rewrite E1, E2, E3. repeat split; auto.
Qed.

Lemma G_refl w R : inv (w_dst w) -> G (w_dst w) (w_src w) w R.
Proof. intros H. unfold G. split; [apply keeps_refl|]. split; [exact H|]. split; [lia|reflexivity]. Qed.

Lemma G_weaken m0 s0 w (R R' : Z -> Z -> Prop) :
  (forall i k, 0 <= i -> 0 <= k < zlen (mem m0 i) -> R i k -> R' i k) -> G m0 s0 w R -> G m0 s0 w R'.
Proof. intros H (K & X). split; auto. eapply keeps_weaken; eauto. Qed.

(* single steps as G facts *)
Lemma G_write w sid off v m' :
  inv (w_dst w) -> 0 <= sid -> writeRawPointer (w_dst w) sid off v = Ok m' ->
  G (w_dst w) (w_src w) (w_set_dst w m') (Rword sid off).
Proof.
  intros Hi Hs H. destruct (writeRawPointer_keeps _ _ _ _ _ Hs Hi H) as (K & I & N & _).
  unfold G. cbn [w_dst w_set_dst w_src]. repeat split; try apply K; try apply I. lia.
Qed.

Lemma G_seg_write w sid addr bs m' :
  inv (w_dst w) -> 0 <= sid -> zlen bs < 4294967296 -> seg_write (w_dst w) sid addr bs = Ok m' ->
  G (w_dst w) (w_src w) (w_set_dst w m') (fun i k => i = sid /\ addr <= k).
Proof.
  intros Hi Hs Hl H. apply seg_write_wrote in H; auto.
  pose proof (wrote_inv _ _ _ _ _ H Hs Hi) as I. pose proof (wrote_keeps _ _ _ _ _ H Hs) as K.
  destruct H as (_ & _ & _ & _ & _ & _ & W7 & _).
  unfold G. cbn [w_dst w_set_dst w_src]. repeat split; try apply I.
  - apply K.
  - intros i k Hi' Hk Hn. apply K; auto. intros [-> X]. apply Hn. split; auto. lia.
  - unfold nsegs. lia.
Qed.

Lemma G_place w dsid off tsid taddr raw w' :
  inv (w_dst w) -> 0 <= dsid < nsegs (w_dst w) -> 0 <= tsid < nsegs (w_dst w) ->
  place w dsid off tsid taddr raw = Ok w' -> G (w_dst w) (w_src w) w' (Rword dsid off).
Proof.
  intros Hi Hd Ht H. destruct (place_keeps _ _ _ _ _ _ _ Hi Hd Ht H) as (K & I & N & S & _).
  unfold G. auto.
Qed.

Lemma slice_len s base n b : slice s base n = Ok b -> zlen b < 4294967296 /\ 0 <= base.
Proof.
  intros H. destruct (slice_sub _ _ _ _ H) as (k & -> & H1 & H2 & H3).
  rewrite sub_length by lia. unfold slice in H. cbv zeta in H. unfold addSizeUnchecked, u32 in H.
  destruct (_ && _ && _) eqn:E in H; [|discriminate]. split; [|lia].
  apply Ok_inj in H. unfold sub in H.
  (* k is determined up to the segment length; bound it by the wrapped end *)
  destruct (Z_lt_ge_dec k 4294967296); auto.
  exfalso.
  assert (L1 : zlen (firstn (Z.to_nat ((base + n) mod 4294967296 - base)) (skipn (Z.to_nat base) s)) < 4294967296).
  { unfold zlen. rewrite firstn_length. lia. }
  rewrite H in L1. unfold zlen in L1. rewrite firstn_length, skipn_length in L1. unfold zlen in H3. lia.
Qed.

Lemma copy_struct_invalid_dst fp fuel strict w dst l src w' :
  p_valid dst = false -> copy_struct_gen fp fuel strict w dst l src = Ok w' -> False.
Proof. intros Hv. destruct fuel; cbn [copy_struct_gen]; [discriminate|]. rewrite Hv. cbn. discriminate. Qed.

(* ------------------------------------------------------------------ the frame theorem *)
Definition Rfrom (p : Ptr) : Z -> Z -> Prop := fun i k => i = p_seg p /\ p_off p <= k.

Definition P_wp (fp : bool) (fuel : nat) : Prop := forall strict w dsid off l src fc w',
  inv (w_dst w) -> 0 <= dsid < nsegs (w_dst w) -> sz_ok src ->
  ((fc || is_src l) = false -> p_valid src = true -> 0 <= p_seg src < nsegs (w_dst w)) ->
  write_ptr_gen fp fuel strict w dsid off l src fc = Ok w' ->
  G (w_dst w) (w_src w) w' (Rword dsid off).

Definition P_cs (fp : bool) (fuel : nat) : Prop := forall strict w dst l src w',
  inv (w_dst w) -> 0 <= p_seg dst < nsegs (w_dst w) -> wf_size (p_size dst) -> 0 <= p_off dst <= 4294967295 ->
  sz_ok src ->
  copy_struct_gen fp fuel strict w dst l src = Ok w' ->
  G (w_dst w) (w_src w) w' (Rfrom dst).

Lemma padToWord_nonneg sz : 0 <= padToWord sz.
Proof. unfold padToWord, u32. lia. Qed.

Lemma G_alloc w sid sz m1 nsid naddr :
  inv (w_dst w) -> 0 <= sid < nsegs (w_dst w) -> 0 <= sz ->
  alloc (w_dst w) sid sz = Ok (m1, nsid, naddr) ->
  G (w_dst w) (w_src w) (w_set_dst w m1) Rnone /\ 0 <= nsid < nsegs m1 /\
  naddr = zlen (mem (w_dst w) nsid) /\ 0 <= naddr <= 4294967295.
Proof.
  intros Hi Hs Hz H.
  destruct (alloc_keeps _ _ _ _ _ _ Hi Hs Hz H) as (K1 & I1 & N1 & S1 & AD & L1 & _ & _ & _ & MX).
  unfold G. cbn [w_dst w_set_dst w_src]. repeat split; try apply K1; try apply I1; try lia.
  - subst naddr. apply zlen_nonneg.
  - pose proof (padToWord_nonneg sz). unfold maxSegmentSize in MX. lia.
Qed.

Lemma totalSize_nn sz : 0 <= totalSize sz.
Proof. unfold totalSize, u32. lia. Qed.

Lemma list_struct_facts p i e :
  list_struct true p i = Ok e -> p_valid e = true ->
  p_seg e = p_seg p /\ p_size e = p_size p /\ p_off p <= p_off e <= 4294967295 /\ 0 <= i.
Proof.
  unfold list_struct. destruct (negb (p_valid p) || (i <? 0) || (i >=? p_len p)) eqn:E; [discriminate|].
  destruct (p_bit p); [intros H; apply Ok_inj in H; subst e; discriminate|].
  destruct (element (p_off p) i (totalSize (p_size p))) as [addr|] eqn:EE;
    [|intros H; apply Ok_inj in H; subst e; discriminate].
  intros H _. apply Ok_inj in H. subst e. cbn [p_seg p_size p_off].
  unfold element in EE. cbv zeta in EE. pose proof (totalSize_nn (p_size p)).
  destruct ((p_off p + i * totalSize (p_size p) >? maxSegmentSize) || (p_off p + i * totalSize (p_size p) <? 0)) eqn:E2; [discriminate|].
  injection EE as <-. unfold maxSegmentSize in *. repeat split; auto; nia.
Qed.

Theorem frame_all : forall fp fuel, P_wp fp fuel /\ P_cs fp fuel.
Proof.
  intros fp. induction fuel as [|f [IHwp IHcs]].
  { split; intros ? ? ? ? ? ? ?; cbn; intros; discriminate. }
  split.
  - (* ---------------- write_ptr ---------------- *)
    intros strict w dsid off l src fc w' Hinv Hd Hsz Hsrc. cbn [write_ptr_gen].
    set (m := w_dst w) in *.
    destruct (negb (p_valid src)) eqn:EV.
    { unfold lift0. destruct (writeRawPointer m dsid off 0) as [m'| |] eqn:EW; cbn [bind]; try discriminate.
      intros H. apply Ok_inj in H. subst w'. eapply G_write; [exact Hinv|lia|exact EW]. }
    assert (Hv : p_valid src = true) by (destruct (p_valid src); auto; discriminate).
    specialize (Hsz Hv).
    destruct (p_kind src) eqn:EK.
    + (* struct *)
      destruct (os_isZero (p_size src)) eqn:EZ.
      { destruct (of_opt_panic (rawStructPointer (-1) (mkOS 0 0))) as [v| |]; cbn [bind]; try discriminate.
        unfold lift0. destruct (writeRawPointer m dsid off v) as [m'| |] eqn:EW; cbn [bind]; try discriminate.
        intros H. apply Ok_inj in H. subst w'. eapply G_write; [exact Hinv|lia|exact EW]. }
      destruct (fc || is_src l || p_member src) eqn:EC.
      * cbv zeta.
        set (csz := if fp then mkOS (padToWord (DataSize (p_size src))) (PointerCount (p_size src)) else p_size src).
        assert (Hcsz : wf_size csz).
        { subst csz. destruct fp; [|exact Hsz]. destruct Hsz as [[H1 H2] H3]. unfold wf_size, padToWord, u32.
          cbn [DataSize PointerCount]. lia. }
        destruct (alloc m dsid (totalSize csz)) as [[[m1 nsid] naddr]| |] eqn:EA; cbn [bind]; try discriminate.
        set (dstp := mkPtr true nsid naddr 0 csz maxDepth KStruct false false false).
        destruct (copy_struct_gen fp f strict (w_set_dst w m1) dstp l src) as [w2| |] eqn:ECS; cbn [bind]; try discriminate.
        destruct (of_opt_panic (rawStructPointer 0 (p_size dstp))) as [raw| |]; cbn [bind]; try discriminate.
        intros HP.
        destruct (G_alloc w dsid _ m1 nsid naddr Hinv Hd (totalSize_nn _) EA) as (GA & NS & AD & AR).
        assert (GC : G m1 (w_src w) w2 (Rfrom dstp)).
        { apply (IHcs strict (w_set_dst w m1) dstp l src w2); cbn [w_dst w_set_dst]; auto.
          - apply GA. - intros _. exact Hsz. }
        assert (GP : G (w_dst w2) (w_src w2) w' (Rword dsid off)).
        { destruct GA as (_ & _ & NA & _). destruct GC as (_ & IC & NC & _). cbn [w_dst w_set_dst] in *. subst m.
          apply (G_place w2 dsid off nsid naddr raw w'); auto; try lia. }
        eapply G_step; [eapply G_step; [eapply G_weaken; [|exact GA]|exact GC|]|exact GP|].
        -- intros i k _ _ [].
        -- intros i k Hi Hk [X1 X2]. cbn [p_seg p_off dstp] in *. subst i. subst m. exfalso. lia.
        -- intros i k _ _ X. exact X.
      * assert (HR : 0 <= p_seg src < nsegs m).
        { apply Hsrc; auto. destruct fc; [discriminate|]. destruct (is_src l); [discriminate|]. reflexivity. }
        cbn [bind]. destruct (of_opt_panic (rawStructPointer 0 (p_size src))) as [raw| |]; cbn [bind]; try discriminate.
        intros HP. apply (G_place w dsid off (p_seg src) (p_off src) raw w'); auto.
    + (* list *)
      destruct (fc || is_src l) eqn:EC.
      * destruct (alloc m dsid (list_allocSize src)) as [[[m1 nsid] naddr]| |] eqn:EA; cbn [bind]; try discriminate.
        assert (Hlz : 0 <= list_allocSize src).
        { unfold list_allocSize. destruct (negb (p_valid src)); [lia|]. destruct (p_bit src); [unfold bitListSize, u32; lia|].
          destruct (negb (p_comp src)); [|unfold u32; lia].
          destruct (times (totalSize (p_size src)) (p_len src)) eqn:ET; [|lia].
          unfold times in ET. cbv zeta in ET.
          destruct ((totalSize (p_size src) * p_len src >? maxSegmentSize) || (totalSize (p_size src) * p_len src <? 0)) eqn:EB; [discriminate|].
          injection ET as <-. lia. }
        destruct (G_alloc w dsid _ m1 nsid naddr Hinv Hd Hlz EA) as (GA & NS & AD & AR).
        set (w1 := w_set_dst w m1) in *.
        (* the tag word *)
        match goal with |- context [bind (if p_comp src then ?A else ?B) _] =>
          destruct (if p_comp src then A else B) as [[[w2 doff] sz']| |] eqn:EX; cbn [bind]; try discriminate end.
        assert (G2 : G m1 (w_src w) w2 (Rfrom (mkPtr true nsid naddr 0 (mkOS 0 0) 0 KStruct false false false)) /\ naddr <= doff <= 4294967295).
        { destruct (p_comp src).
          - destruct (readRawPointer _ _) as [tag| |]; cbn [bind] in EX; try discriminate.
            unfold lift0 in EX. destruct (writeRawPointer (w_dst w1) nsid naddr tag) as [m2| |] eqn:EW; cbn [bind] in EX; try discriminate.
            destruct (addSize naddr 8) as [o|] eqn:EO; [|discriminate].
            apply Ok_inj in EX. injection EX as <- <- <-.
            apply addSize_spec in EO. split; [|unfold maxSegmentSize in EO; lia].
            assert (GW := G_write w1 nsid naddr tag m2 ltac:(apply GA) ltac:(lia) EW).
            unfold w1 in GW. cbn [w_dst w_set_dst w_src] in GW. unfold w1. cbn [w_set_dst].
            eapply G_weaken; [|exact GW]. intros i k _ _ [-> X]. split; cbn; lia.
          - apply Ok_inj in EX. injection EX as <- <- <-. split; [|lia].
            unfold w1. apply (G_refl (w_set_dst w m1)). apply GA. }
        destruct G2 as [G2 HDO].
        set (dstl := mkPtr true nsid doff (p_len src) (p_size src) maxDepth KList (p_comp src) (p_bit src) false) in *.
        match goal with |- context [bind (if p_bit src || (PointerCount (p_size src) =? 0) then ?A else ?B) _] =>
          destruct (if p_bit src || (PointerCount (p_size src) =? 0) then A else B) as [w3| |] eqn:E3; cbn [bind]; try discriminate end.
        assert (G3 : G m1 (w_src w) w3 (fun i k => i = nsid /\ naddr <= k)).
        { destruct (p_bit src || (PointerCount (p_size src) =? 0)).
          - (* raw bytes *)
            unfold copy_bytes in E3.
            destruct (slice _ (p_off src) sz') as [b| |] eqn:ES; cbn [bind] in E3; try discriminate.
            unfold lift0 in E3. destruct (seg_write (w_dst w2) nsid doff b) as [m3| |] eqn:EW; cbn [bind] in E3; try discriminate.
            apply Ok_inj in E3. subst w3.
            destruct (slice_len _ _ _ _ ES) as [BL _].
            assert (GW := G_seg_write w2 nsid doff b m3 ltac:(apply G2) ltac:(lia) BL EW).
            eapply G_step; [eapply G_weaken; [|exact G2]|exact GW|].
            + intros i k _ _ [X1 X2]. cbn in X1, X2. auto.
            + intros i k _ _ [-> X]. split; auto. lia.
          - (* element by element *)
            revert E3. apply fold_res_inv with (P := fun wa => G m1 (w_src w) wa (fun i k => i = nsid /\ naddr <= k)).
            + intros i wa wb Hin GA' Hstep.
              destruct (list_struct true dstl i) as [de| |] eqn:ED; cbn [bind] in Hstep; try discriminate.
              destruct (list_struct true src i) as [se| |] eqn:ESE; cbn [bind] in Hstep; try discriminate.
              destruct (p_valid de) eqn:EVD; [|exfalso; eapply copy_struct_invalid_dst; eauto].
              destruct (list_struct_facts _ _ _ ED EVD) as (F1 & F2 & F3 & F4). cbn [p_seg p_size p_off dstl] in *.
              assert (GS : G (w_dst wa) (w_src wa) wb (Rfrom de)).
              { apply (IHcs strict wa de l se wb); auto.
                - apply GA'.
                - destruct GA' as (_ & _ & NA & _). rewrite F1. lia.
                - rewrite F2. exact Hsz.
                - lia.
                - intros Hse. unfold list_struct in ESE.
                  destruct (_ || _ || _) in ESE; [discriminate|]. destruct (p_bit src); [apply Ok_inj in ESE; subst se; discriminate|].
                  destruct (element _ _ _); apply Ok_inj in ESE; subst se; [exact Hsz|discriminate]. }
              eapply G_step; [exact GA'|exact GS|].
              intros j k _ _ [X1 X2]. split; [congruence|lia].
            + eapply G_weaken; [|exact G2]. intros i k _ _ [X1 X2]. cbn in X1, X2. auto. }
        destruct (list_raw dstl) as [raw| |]; cbn [bind]; try discriminate.
        intros HP.
        assert (GP : G (w_dst w3) (w_src w3) w' (Rword dsid off)).
        { destruct GA as (_ & _ & NA & _). destruct G3 as (_ & I3 & N3 & _). subst w1. cbn [w_dst w_set_dst] in *. subst m.
          eapply G_place; [exact I3| | |exact HP]; cbn [p_seg dstl]; lia. }
        eapply G_step; [eapply G_step; [eapply G_weaken; [|exact GA]|exact G3|]|exact GP|].
        -- intros i k _ _ [].
        -- intros i k Hi Hk [X1 X2]. subst i. subst m. exfalso. lia.
        -- intros i k _ _ X. exact X.
      * assert (HR : 0 <= p_seg src < nsegs m) by (apply Hsrc; auto).
        cbn [bind]. destruct (list_raw src) as [raw| |]; cbn [bind]; try discriminate.
        intros HP. eapply G_place; [exact Hinv|exact Hd|exact HR|exact HP].
    + (* interface *)
      destruct (is_src l).
      * unfold lift0.
        set (m1 := mkBM (bm_arena m) (bm_segs m) (bm_caps m ++ [p_len src]) (bm_rl m)).
        destruct (writeRawPointer m1 dsid off _) as [m2| |] eqn:EW; cbn [bind]; try discriminate.
        intros H. apply Ok_inj in H. subst w'.
        assert (GW := G_write (w_set_dst w m1) dsid off _ m2 Hinv ltac:(lia) EW).
        cbn [w_dst w_set_dst w_src] in GW. exact GW.
      * unfold lift0. destruct (writeRawPointer m dsid off _) as [m2| |] eqn:EW; cbn [bind]; try discriminate.
        intros H. apply Ok_inj in H. subst w'. eapply G_write; [exact Hinv|lia|exact EW].
  - (* ---------------- copy_struct ---------------- *)
    intros strict w dst l src w' Hinv Hd Hds Hdo Hsz. cbn [copy_struct_gen].
    set (m := w_dst w) in *.
    destruct (negb (p_valid dst)); [discriminate|].
    destruct (negb (p_valid src)) eqn:EV.
    { intros H. apply Ok_inj in H. subst w'. apply G_refl. exact Hinv. }
    assert (Hv : p_valid src = true) by (destruct (p_valid src); auto; discriminate).
    specialize (Hsz Hv).
    destruct (slice _ (p_off src) _) as [sd| |]; cbn [bind]; try discriminate.
    destruct (slice _ (p_off dst) _) as [dd| |] eqn:ESD; cbn [bind]; try discriminate.
    unfold lift0 at 1.
    destruct (seg_write m (p_seg dst) (p_off dst) _) as [m1| |] eqn:EW; cbn [bind]; try discriminate.
    destruct (slice_len _ _ _ _ ESD) as [DL _].
    assert (G1 : G m (w_src w) (w_set_dst w m1) (Rfrom dst)).
    { unfold Rfrom. eapply G_seg_write; [exact Hinv|lia| |exact EW].
      unfold zlen in *. rewrite app_length, firstn_length, repeat_length. lia. }
    match goal with |- context [bind ?X _] => destruct X as [w2| |] eqn:E2; cbn [bind]; try discriminate end.
    assert (G2 : G m (w_src w) w2 (Rfrom dst)).
    { revert E2. apply fold_res_inv with (P := fun wa => G m (w_src w) wa (Rfrom dst)); [|exact G1].
      intros j wa wb Hin GA Hstep. apply in_iota in Hin.
      destruct (readPtr strict (w_segs wa l) (w_rl wa l) (p_seg src) _ (pointerAddress src j) (p_depth src)) as [r rl'] eqn:ER.
      destruct r as [q| |]; cbn [bind] in Hstep; try discriminate.
      pose proof (readPtr_size_wf _ _ _ _ _ _ _ _ _ ER) as Hq.
      destruct (w_set_rl_dst wa l rl') as (S1 & S2 & S3).
      assert (GA2 : G m (w_src w) (w_set_rl wa l rl') (Rfrom dst)) by (eapply G_same_segs; eauto).
      assert (GS : G (w_dst (w_set_rl wa l rl')) (w_src (w_set_rl wa l rl')) wb (Rword (p_seg dst) (pointerAddress dst j))).
      { apply (IHwp strict _ (p_seg dst) (pointerAddress dst j) l q true wb); auto.
        - apply GA2.
        - destruct GA2 as (_ & _ & NA & _). lia.
        - intros X. cbn in X. discriminate. }
      eapply G_step; [exact GA2|exact GS|].
      intros i k _ _ [-> X]. split; auto. pose proof (pointerAddress_ge dst j Hds ltac:(lia) Hdo). lia. }
    apply fold_res_inv with (P := fun wa => G m (w_src w) wa (Rfrom dst)); [|exact G2].
    intros j wa wb Hin GA Hstep. apply in_map_iff in Hin. destruct Hin as (k0 & <- & Hk0). apply in_iota in Hk0.
    unfold lift0 in Hstep.
    destruct (writeRawPointer (w_dst wa) (p_seg dst) _ 0) as [mb| |] eqn:EWB; cbn [bind] in Hstep; try discriminate.
    apply Ok_inj in Hstep. subst wb.
    assert (GW := G_write wa (p_seg dst) _ 0 mb ltac:(apply GA) ltac:(lia) EWB).
    eapply G_step; [exact GA|exact GW|].
    intros i k _ _ [-> X]. split; auto. destruct Hsz as [_ [Hp _]].
    pose proof (pointerAddress_ge dst (PointerCount (p_size src) + k0) Hds ltac:(lia) Hdo). lia.
Qed.

(* ------------------------------------------------------------------ corollaries *)
(* reads of bytes that existed before and are outside R are unchanged *)
Lemma keeps_slice m m' R i base n :
  keeps m m' R -> 0 <= i -> 0 <= base -> 0 <= n -> base + n <= zlen (mem m i) -> zlen (mem m' i) < 4294967296 ->
  (forall k, base <= k < base + n -> ~ R i k) ->
  slice (mem m' i) base n = slice (mem m i) base n.
Proof.
  intros [K1 K2] Hi Hb Hn Hin Hl HR. specialize (K1 i Hi).
  rewrite !slice_ok by lia. f_equal. unfold sub.
  apply nth_ext with (d := 0) (d' := 0).
  - rewrite !firstn_length, !skipn_length. unfold zlen in *. lia.
  - intros k Hk. rewrite firstn_length, skipn_length in Hk. unfold zlen in *.
    rewrite !nth_firstn_lt by lia. rewrite !nth_skipn_add.
    replace (Z.to_nat base + k)%nat with (Z.to_nat (base + Z.of_nat k)) by lia.
    apply K2; auto; try lia. apply HR. lia.
Qed.

(* [write_ptr_frame]: Struct.SetPtr / PointerList.Set / Message.SetRoot (all are write_ptr with
   forceCopy = false): the only pre-existing byte range that may change is the pointer word;
   the source message is not modified; the message stays well formed and only grows *)
Theorem write_ptr_frame fuel strict w dsid off l src w' :
  inv (w_dst w) -> 0 <= dsid < nsegs (w_dst w) -> sz_ok src ->
  (l = InDst -> p_valid src = true -> 0 <= p_seg src < nsegs (w_dst w)) ->
  write_ptr fuel strict w dsid off l src false = Ok w' ->
  keeps (w_dst w) (w_dst w') (Rword dsid off) /\ inv (w_dst w') /\
  nsegs (w_dst w) <= nsegs (w_dst w') /\ w_src w' = w_src w.
Proof.
  intros Hi Hd Hs Hr H. destruct (frame_all true fuel) as [P _].
  apply (P strict w dsid off l src false w'); auto.
  intros E Hv. apply Hr; auto. destruct l; [reflexivity|discriminate].
Qed.

(* [copy_struct_frame]: List.SetStruct / Struct.CopyFrom change nothing before the start of the
   destination struct in its segment and nothing in any other segment (besides appending) *)
Theorem copy_struct_frame fuel strict w dst l src w' :
  inv (w_dst w) -> 0 <= p_seg dst < nsegs (w_dst w) -> wf_size (p_size dst) -> 0 <= p_off dst <= 4294967295 ->
  sz_ok src ->
  copy_struct fuel strict w dst l src = Ok w' ->
  keeps (w_dst w) (w_dst w') (Rfrom dst) /\ inv (w_dst w') /\
  nsegs (w_dst w) <= nsegs (w_dst w') /\ w_src w' = w_src w.
Proof. intros. destruct (frame_all true fuel) as [_ P]. apply (P strict w dst l src w'); auto. Qed.

(* [copy_fresh]: a deep copy (assignment of a pointer from another message, of a list member,
   or any forced copy) leaves every byte of the source untouched - the source message is
   returned unchanged and, inside the destination, only the pointer word among the bytes that
   existed before the call may differ - so everything the copy consists of lies in storage
   allocated during the call.  Hence any later write into the copy (a range beyond the old
   segment lengths) is disjoint from every source byte range, and any later write into a
   source byte range is disjoint from the copy: by [wrote_slice_other] neither shows through. *)
Theorem copy_fresh fuel strict w dsid off l src fc w' i base n :
  inv (w_dst w) -> 0 <= dsid < nsegs (w_dst w) -> sz_ok src ->
  ((fc || is_src l) = false -> p_valid src = true -> 0 <= p_seg src < nsegs (w_dst w)) ->
  write_ptr fuel strict w dsid off l src fc = Ok w' ->
  w_src w' = w_src w /\
  (0 <= i -> 0 <= base -> 0 <= n -> base + n <= zlen (mem (w_dst w) i) -> zlen (mem (w_dst w') i) < 4294967296 ->
   (i <> dsid \/ base + n <= off \/ off + 8 <= base) ->
   slice (mem (w_dst w') i) base n = slice (mem (w_dst w) i) base n).
Proof.
  intros Hi Hd Hs Hr H. destruct (frame_all true fuel) as [P _].
  destruct (P strict w dsid off l src fc w' Hi Hd Hs Hr H) as (K & _ & _ & S).
  split; [exact S|]. intros H0 H1 H2 H3 H4 H5. eapply keeps_slice; eauto.
  intros k Hk [X1 X2]. lia.
Qed.

(* allocations made at different times never overlap: the later one starts at or after the end
   of the earlier one whenever they are in the same segment (lengths only grow in between) *)
Theorem allocs_disjoint m sid sz m1 s1 a1 m2 sid2 sz2 m3 s2 a2 :
  inv m -> 0 <= sid < nsegs m -> 0 <= sz -> alloc m sid sz = Ok (m1, s1, a1) ->
  (forall i, 0 <= i -> zlen (mem m1 i) <= zlen (mem m2 i)) ->
  inv m2 -> 0 <= sid2 < nsegs m2 -> 0 <= sz2 -> alloc m2 sid2 sz2 = Ok (m3, s2, a2) ->
  s1 <> s2 \/ a1 + padToWord sz <= a2.
Proof.
  intros Hi Hs Hz A1 Hgrow Hi2 Hs2 Hz2 A2.
  destruct (alloc_keeps _ _ _ _ _ _ Hi Hs Hz A1) as (_ & _ & _ & S1 & E1 & L1 & _).
  destruct (alloc_keeps _ _ _ _ _ _ Hi2 Hs2 Hz2 A2) as (_ & _ & _ & S2 & E2 & _).
  destruct (Z.eq_dec s1 s2) as [->|Hne]; [right|left; exact Hne].
  specialize (Hgrow s2 ltac:(lia)). lia.
Qed.
