(* The bytes invariant of the builder: every byte of the message under construction (and of the
   source message) stays in 0..255 - the segments are []byte.  It is what the packed / stream
   serialisation theorems of C14 need besides the geometry the table invariant gives. *)
From CV Require Import Core.Builder Core.Reader Core.ReaderFacts Core.BuilderFacts Core.HeapProofs Core.BuildOps
  Core.BuildInv Core.HeapInv Core.HeapOps Core.HeapSteps Core.HeapMarshal.
Require Import ZArith List Lia Bool. Import ListNotations.
Open Scope Z_scope.

Definition mb (m : bmsg) : Prop := Forall bytes_ok (bm_data m).
Definition wb (w : world) : Prop := mb (w_dst w) /\ Forall bytes_ok (w_src w).

Lemma Forall_set_nth {A} (P : A -> Prop) : forall n l x, Forall P l -> P x -> Forall P (set_nth n l x).
Proof.
  induction n as [|n IH]; intros [|y l] x Hl Hx; cbn [set_nth]; try constructor; inversion Hl; subst; auto.
Qed.

Lemma map_set_nth {A B} (f : A -> B) : forall n l x, map f (set_nth n l x) = set_nth n (map f l) (f x).
Proof. induction n as [|n IH]; intros [|y l] x; cbn [set_nth map]; try reflexivity. now rewrite IH. Qed.

Lemma mb_put_seg m id s : mb m -> bytes_ok (bs_data s) -> mb (put_seg m id s).
Proof.
  unfold mb, put_seg, bm_data. cbn [bm_segs]. intros H Hs. rewrite map_set_nth. now apply Forall_set_nth.
Qed.

Lemma mb_get m id : mb m -> bytes_ok (bs_data (get_seg m id)).
Proof.
  unfold mb, get_seg, bm_data. intros H.
  destruct (nth_in_or_default (Z.to_nat id) (bm_segs m) (mkBS [] 0)) as [Hi|Edf]; [|rewrite Edf; constructor].
  rewrite Forall_forall in H. apply H. now apply in_map.
Qed.

Lemma bytes_ok_app_i a b : bytes_ok a -> bytes_ok b -> bytes_ok (a ++ b).
Proof. intros. apply Forall_app. auto. Qed.
Lemma bytes_ok_firstn n s : bytes_ok s -> bytes_ok (firstn n s).
Proof. intros H. rewrite <- (firstn_skipn n s) in H. apply Forall_app in H. tauto. Qed.
Lemma bytes_ok_skipn n s : bytes_ok s -> bytes_ok (skipn n s).
Proof. intros H. rewrite <- (firstn_skipn n s) in H. apply Forall_app in H. tauto. Qed.
Lemma bytes_ok_repeat0 n : bytes_ok (repeat 0 n).
Proof. apply Forall_forall. intros x Hx. apply repeat_spec in Hx. subst. lia. Qed.

Lemma slice_bytes s base sz b : bytes_ok s -> slice s base sz = Ok b -> bytes_ok b.
Proof.
  unfold slice. intros H. destruct (_ && _); [|discriminate]. intros E. apply Ok_inj in E. subst b.
  apply bytes_ok_firstn, bytes_ok_skipn, H.
Qed.

Lemma nth_bytes_ok (ms : segs) i : Forall bytes_ok ms -> bytes_ok (nth i ms []).
Proof.
  intros H. destruct (nth_in_or_default i ms []) as [Hi|Edf]; [|rewrite Edf; constructor]. rewrite Forall_forall in H. auto.
Qed.

Lemma seg_write_mb m sid addr bs m' : mb m -> bytes_ok bs -> seg_write m sid addr bs = Ok m' -> mb m'.
Proof.
  unfold seg_write. intros H Hb. destruct (_ && _); [|discriminate]. intros E. apply Ok_inj in E. subst m'.
  apply mb_put_seg; [exact H|]. cbn [bs_data]. unfold write_bytes. pose proof (mb_get m sid H).
  apply bytes_ok_app_i; [now apply bytes_ok_firstn|]. apply bytes_ok_app_i; [exact Hb|now apply bytes_ok_skipn].
Qed.

Lemma wrp_mb m sid addr v m' : mb m -> writeRawPointer m sid addr v = Ok m' -> mb m'.
Proof. intros H. apply seg_write_mb; [exact H|apply le_encode_bytes]. Qed.

Lemma allocSegment_mb m sz m' id : mb m -> allocSegment m sz = Ok (m', id) -> mb m'.
Proof.
  unfold allocSegment. intros H. destruct (sz >? maxAllocSize); [discriminate|].
  destruct (bm_arena m).
  - destruct (negb _); [discriminate|]. destruct (hasCapacity _ _).
    + intros E. apply Ok_inj in E. now inversion E; subst.
    + destruct (nextAlloc _ _ _) as [inc| |]; cbn [bind]; try discriminate. intros E. apply Ok_inj in E. inversion E; subst.
      apply mb_put_seg; [exact H|]. cbn [bs_data]. now apply mb_get.
  - destruct (multi_find _ _ _ _) as [[i|] total].
    + intros E. apply Ok_inj in E. now inversion E; subst.
    + destruct (nextAlloc _ _ _) as [n| |]; cbn [bind]; try discriminate. intros E. apply Ok_inj in E. inversion E; subst.
      unfold mb, bm_data. cbn [bm_segs]. rewrite map_app. apply Forall_app. split; [exact H|]. repeat constructor.
Qed.

Lemma alloc_mb m sid sz m' sid' addr : mb m -> alloc m sid sz = Ok (m', sid', addr) -> mb m'.
Proof.
  unfold alloc. intros H. destruct (sz >? maxAllocSize); [discriminate|].
  destruct (hasCapacity _ _).
  - cbn [bind]. destruct (addSize _ _); [|discriminate]. intros E. apply Ok_inj in E. inversion E; subst.
    apply mb_put_seg; [exact H|]. cbn [bs_data]. apply bytes_ok_app_i; [now apply mb_get|apply bytes_ok_repeat0].
  - destruct (allocSegment m (padToWord sz)) as [[m1 s1]| |] eqn:EA; cbn [bind]; try discriminate.
    pose proof (allocSegment_mb _ _ _ _ H EA) as H1.
    destruct (addSize _ _); [|discriminate]. intros E. apply Ok_inj in E. inversion E; subst.
    apply mb_put_seg; [exact H1|]. cbn [bs_data]. apply bytes_ok_app_i; [now apply mb_get|apply bytes_ok_repeat0].
Qed.

(* ------------------------------------------------------------------ constructors *)
Ltac ok_inv E := apply Ok_inj in E; inversion E; subst; clear E.

Lemma newStruct_mb m sid sz m' p : mb m -> newStruct m sid sz = Ok (m', p) -> mb m'.
Proof.
  unfold newStruct. intros H. destruct (negb _); [discriminate|].
  destruct (alloc _ _ _) as [[[m1 s1] a]| |] eqn:EA; cbn [bind]; try discriminate. intros E. ok_inv E.
  eapply alloc_mb; eauto.
Qed.
Lemma newPrim_mb m sid sz n m' p : mb m -> newPrimitiveList m sid sz n = Ok (m', p) -> mb m'.
Proof.
  unfold newPrimitiveList. intros H. destruct (_ || _); [discriminate|].
  destruct (alloc _ _ _) as [[[m1 s1] a]| |] eqn:EA; cbn [bind]; try discriminate. intros E. ok_inv E.
  eapply alloc_mb; eauto.
Qed.
Lemma newBit_mb m sid n m' p : mb m -> newBitList m sid n = Ok (m', p) -> mb m'.
Proof.
  unfold newBitList. intros H. destruct (_ || _); [discriminate|].
  destruct (alloc _ _ _) as [[[m1 s1] a]| |] eqn:EA; cbn [bind]; try discriminate. intros E. ok_inv E.
  eapply alloc_mb; eauto.
Qed.
Lemma newPList_mb m sid n m' p : mb m -> newPointerList m sid n = Ok (m', p) -> mb m'.
Proof.
  unfold newPointerList. intros H. destruct (times 8 n); [|discriminate].
  destruct (alloc _ _ _) as [[[m1 s1] a]| |] eqn:EA; cbn [bind]; try discriminate. intros E. ok_inv E.
  eapply alloc_mb; eauto.
Qed.
Lemma newComp_mb m sid sz n m' p : mb m -> newCompositeList m sid sz n = Ok (m', p) -> mb m'.
Proof.
  unfold newCompositeList. intros H. destruct (negb _); [discriminate|]. destruct (_ || _); [discriminate|].
  destruct (times _ _); [|discriminate]. destruct (_ >? _); [discriminate|].
  destruct (alloc _ _ _) as [[[m1 s1] a]| |] eqn:EA; cbn [bind]; try discriminate.
  destruct (of_opt_panic _) as [tag| |]; cbn [bind]; try discriminate.
  destruct (writeRawPointer _ _ _ _) as [m2| |] eqn:EW; cbn [bind]; try discriminate. intros E. ok_inv E.
  eapply wrp_mb; [|exact EW]. eapply alloc_mb; eauto.
Qed.
Lemma newBytes_mb m sid v nul m' p : mb m -> bytes_ok v -> newBytes m sid v nul = Ok (m', p) -> mb m'.
Proof.
  unfold newBytes. intros H Hv.
  destruct (newPrimitiveList _ _ _ _) as [[m1 q]| |] eqn:EN; cbn [bind]; try discriminate.
  destruct (seg_write _ _ _ _) as [m2| |] eqn:EW; cbn [bind]; try discriminate. intros E. ok_inv E.
  eapply seg_write_mb; [|exact Hv|exact EW]. eapply newPrim_mb; eauto.
Qed.

(* ------------------------------------------------------------------ data setters *)
Lemma struct_set_uint_mb m p off n v m' : mb m -> struct_set_uint m p off n v = Ok m' -> mb m'.
Proof.
  unfold struct_set_uint. intros H. destruct (dataAddress _ _ _) as [[a|]| |]; cbn [bind]; try discriminate.
  apply seg_write_mb; [exact H|apply le_encode_bytes].
Qed.
Lemma list_set_uint_mb m p i n v m' : mb m -> list_set_uint m p i n v = Ok m' -> mb m'.
Proof.
  unfold list_set_uint. intros H. destruct (primitiveElem _ _ _ _) as [a| |]; try discriminate.
  apply seg_write_mb; [exact H|apply le_encode_bytes].
Qed.

Lemma readUintN1_range s addr b : bytes_ok s -> readUintN s addr 1 = Ok b -> 0 <= b < 256.
Proof.
  unfold readUintN. intros Hs. destruct (slice s addr 1) as [l| |] eqn:ES; cbn [bind]; try discriminate.
  intros E. ok_inv E. pose proof (slice_bytes _ _ _ _ Hs ES) as Hl.
  assert (Hlen : (length l <= 1)%nat).
  { unfold slice in ES. destruct (_ && _) eqn:C; [|discriminate]. apply Ok_inj in ES. subst l.
    rewrite firstn_length. unfold addSizeUnchecked, u32 in *.
    assert (0 <= addr) by lia. pose proof (Z.mod_le (addr + 1) 4294967296 ltac:(lia) ltac:(lia)). lia. }
  destruct l as [|x [|y r]]; cbn [le_decode length] in *; [lia| |lia].
  inversion Hl; subst. lia.
Qed.

Lemma set_bit_mb m sid addr b k v m' : mb m -> 0 <= b < 256 -> 0 <= k < 8 ->
  seg_write m sid addr [set_bit_in b k v] = Ok m' -> mb m'.
Proof.
  intros H Hb Hk. apply seg_write_mb; [exact H|]. constructor; [|constructor].
  exact (proj1 (set_bit_in_spec b k v Hb Hk)).
Qed.

Lemma struct_set_bit_mb m p n v m' : mb m -> struct_set_bit m p n v = Ok m' -> mb m'.
Proof.
  unfold struct_set_bit. intros H. destruct (negb _); [discriminate|]. destruct (addOffset _ _) as [a|]; [|discriminate].
  destruct (readUintN _ _ _) as [b| |] eqn:ER; cbn [bind]; try discriminate.
  apply set_bit_mb; [exact H| |apply Z.mod_pos_bound; lia].
  eapply readUintN1_range; [|exact ER]. apply nth_bytes_ok. exact H.
Qed.
Lemma bitlist_set_mb m p i v m' : mb m -> bitlist_set m p i v = Ok m' -> mb m'.
Proof.
  unfold bitlist_set. intros H. destruct (_ || _); [discriminate|]. destruct (negb _); [discriminate|].
  destruct (readUintN _ _ _) as [b| |] eqn:ER; cbn [bind]; try discriminate.
  apply set_bit_mb; [exact H| |apply Z.mod_pos_bound; lia].
  eapply readUintN1_range; [|exact ER]. apply nth_bytes_ok. exact H.
Qed.

(* ------------------------------------------------------------------ writePtr / copyStruct *)
Lemma wb_segs w l : wb w -> Forall bytes_ok (w_segs w l).
Proof. intros [H1 H2]. destruct l; [exact H1|exact H2]. Qed.
Lemma wb_set_dst w m : wb w -> mb m -> wb (w_set_dst w m).
Proof. intros [_ H2] H. split; [exact H|exact H2]. Qed.
Lemma wb_set_rl w l rl : wb w -> wb (w_set_rl w l rl).
Proof. intros [H1 H2]. destruct l; split; cbn; auto. Qed.
Lemma lift0_wb w r w' : wb w -> (forall m', r = Ok m' -> mb m') -> lift0 w r = Ok w' -> wb w'.
Proof.
  unfold lift0. intros H Hr. destruct r as [m'| |]; cbn [bind]; try discriminate. intros E. ok_inv E.
  apply wb_set_dst; auto.
Qed.

Lemma copy_bytes_wb w l ssid soff dsid doff n w' : wb w -> copy_bytes w l ssid soff dsid doff n = Ok w' -> wb w'.
Proof.
  unfold copy_bytes. intros H. destruct (slice _ _ _) as [b| |] eqn:ES; cbn [bind]; try discriminate.
  apply lift0_wb; [exact H|]. intros m' E. eapply seg_write_mb; [exact (proj1 H)| |exact E].
  eapply slice_bytes; [|exact ES]. apply nth_bytes_ok, wb_segs, H.
Qed.

Lemma place_wb w dsid off tsid taddr raw w' : wb w -> place w dsid off tsid taddr raw = Ok w' -> wb w'.
Proof.
  unfold place. intros H. destruct (tsid =? dsid).
  { apply lift0_wb; [exact H|]. intros m' E. eapply wrp_mb; [exact (proj1 H)|exact E]. }
  destruct (hasCapacity _ _).
  - destruct (alloc _ _ _) as [[[m1 s1] a]| |] eqn:EA; cbn [bind]; try discriminate.
    destruct (writeRawPointer m1 _ _ _) as [m2| |] eqn:E2; cbn [bind]; try discriminate.
    apply lift0_wb; [exact H|]. intros m' E. eapply wrp_mb; [|exact E]. eapply wrp_mb; [|exact E2].
    eapply alloc_mb; [exact (proj1 H)|exact EA].
  - destruct (alloc _ _ _) as [[[m1 s1] a]| |] eqn:EA; cbn [bind]; try discriminate.
    destruct (writeRawPointer m1 _ _ _) as [m2| |] eqn:E2; cbn [bind]; try discriminate.
    destruct (writeRawPointer m2 _ _ _) as [m3| |] eqn:E3; cbn [bind]; try discriminate.
    apply lift0_wb; [exact H|]. intros m' E. eapply wrp_mb; [|exact E]. eapply wrp_mb; [|exact E3]. eapply wrp_mb; [|exact E2].
    eapply alloc_mb; [exact (proj1 H)|exact EA].
Qed.

Definition B_wp fp f := forall strict w d o l src fc w', wb w -> write_ptr_gen fp f strict w d o l src fc = Ok w' -> wb w'.
Definition B_cs fp f := forall strict w dst l src w', wb w -> copy_struct_gen fp f strict w dst l src = Ok w' -> wb w'.

Lemma wrp_wb w sid addr v w' : wb w -> lift0 w (writeRawPointer (w_dst w) sid addr v) = Ok w' -> wb w'.
Proof. intros H. apply lift0_wb; [exact H|]. intros m' E. eapply wrp_mb; [exact (proj1 H)|exact E]. Qed.

Theorem bytes_all : forall fp f, B_wp fp f /\ B_cs fp f.
Proof.
  intros fp. induction f as [|f [IHw IHc]]; [split; intros ? ? ? ? ? ? ?; cbn; intros; discriminate|].
  split.
  - intros strict w d o l src fc w' H. cbn [write_ptr_gen].
    destruct (negb (p_valid src)). { apply wrp_wb, H. }
    destruct (p_kind src).
    + (* struct *)
      destruct (os_isZero _).
      { destruct (of_opt_panic _) as [v| |]; cbn [bind]; try discriminate. apply wrp_wb, H. }
      destruct (fc || is_src l || p_member src).
      * cbv zeta.
        destruct (alloc _ _ _) as [[[m1 s1] a]| |] eqn:EA; cbn [bind]; try discriminate.
        destruct (copy_struct_gen _ _ _ _ _ _ _) as [w2| |] eqn:EC; cbn [bind]; try discriminate.
        destruct (of_opt_panic _) as [raw| |]; cbn [bind]; try discriminate.
        apply place_wb. eapply IHc; [|exact EC]. apply wb_set_dst; [exact H|]. eapply alloc_mb; [exact (proj1 H)|exact EA].
      * cbn [bind]. destruct (of_opt_panic _) as [raw| |]; cbn [bind]; try discriminate. apply place_wb, H.
    + (* list *)
      destruct (fc || is_src l).
      * cbv zeta.
        destruct (alloc _ _ _) as [[[m1 s1] a]| |] eqn:EA; cbn [bind]; try discriminate.
        assert (H1 : wb (w_set_dst w m1)) by (apply wb_set_dst; [exact H|eapply alloc_mb; [exact (proj1 H)|exact EA]]).
        set (w1 := w_set_dst w m1) in *.
        assert (Tail : forall w2 doff sz' (dstl : Ptr), wb w2 ->
                  bind (bind (if p_bit src || (PointerCount (p_size src) =? 0)
                              then copy_bytes w2 l (p_seg src) (p_off src) s1 doff sz'
                              else fold_res (iota (Z.to_nat (list_len src))) w2
                                     (fun wa i => do de <- list_struct true dstl i;
                                                  do se <- list_struct true src i;
                                                  copy_struct_gen fp f strict wa de l se))
                             (fun w3 => Ok (w3, dstl)))
                       (fun r => let '(w', lst) := r in
                                 let taddr := if p_comp lst then u32 (p_off lst - 8) else p_off lst in
                                 do raw <- list_raw lst; place w' d o (p_seg lst) taddr raw) = Ok w' -> wb w').
        { intros w2 doff sz' dstl H2.
          destruct (p_bit src || (PointerCount (p_size src) =? 0)).
          - destruct (copy_bytes _ _ _ _ _ _ _) as [w3| |] eqn:EY; cbn [bind]; try discriminate.
            destruct (list_raw _) as [raw| |]; cbn [bind]; try discriminate. apply place_wb.
            eapply copy_bytes_wb; [exact H2|exact EY].
          - destruct (fold_res _ _ _) as [w3| |] eqn:EY; cbn [bind]; try discriminate.
            destruct (list_raw _) as [raw| |]; cbn [bind]; try discriminate. apply place_wb.
            eapply (fold_res_inv wb); [|exact H2|exact EY].
            intros x b b' _ Hb. cbv beta. destruct (list_struct _ _ _) as [de| |]; cbn [bind]; try discriminate.
            destruct (list_struct _ _ _) as [se| |]; cbn [bind]; try discriminate. apply IHc. exact Hb. }
        destruct (p_comp src) eqn:EPC.
        -- destruct (readRawPointer _ _) as [tag| |]; cbn [bind]; try discriminate.
           destruct (lift0 w1 _) as [w2| |] eqn:EL; cbn [bind]; try discriminate.
           destruct (addSize a 8) as [o8|]; cbn [bind]; try discriminate.
           intros E. eapply Tail; [|exact E]. eapply wrp_wb; [exact H1|exact EL].
        -- cbn [bind]. intros E. eapply Tail; [|exact E]. exact H1.
      * cbn [bind]. destruct (list_raw _) as [raw| |]; cbn [bind]; try discriminate. apply place_wb, H.
    + (* capability *)
      destruct (is_src l).
      * apply lift0_wb; [exact H|]. intros m' E. eapply wrp_mb; [|exact E]. exact (proj1 H).
      * apply wrp_wb, H.
  - intros strict w dst l src w' H. cbn [copy_struct_gen].
    destruct (negb (p_valid dst)); [discriminate|]. destruct (negb (p_valid src)). { intros E. ok_inv E. exact H. }
    destruct (slice _ _ _) as [sd| |] eqn:ES; cbn [bind]; try discriminate.
    destruct (slice (nth (Z.to_nat (p_seg dst)) _ _) _ _) as [dd| |] eqn:ED; cbn [bind]; try discriminate.
    destruct (lift0 w _) as [w1| |] eqn:E1; cbn [bind]; try discriminate.
    assert (H1 : wb w1).
    { eapply lift0_wb; [exact H| |exact E1]. intros m' E. eapply seg_write_mb; [exact (proj1 H)| |exact E].
      apply bytes_ok_app_i; [|apply bytes_ok_repeat0]. apply bytes_ok_firstn.
      eapply slice_bytes; [|exact ES]. apply nth_bytes_ok, wb_segs, H. }
    match goal with |- context [bind ?X _] => destruct X as [w2| |] eqn:E2 end; cbn [bind]; try discriminate.
    assert (H2 : wb w2).
    { eapply (fold_res_inv wb); [|exact H1|exact E2].
      intros x b b' _ Hb. cbv beta. destruct (readPtr _ _ _ _ _ _ _) as [r rl']. destruct r as [q| |]; cbn [bind]; try discriminate.
      apply IHw. apply wb_set_rl, Hb. }
    apply (fold_res_inv wb); [|exact H2]. intros x b b' _ Hb. cbv beta. apply wrp_wb, Hb.
Qed.

(* ------------------------------------------------------------------ steps *)
Lemma src_bmsg_data w : bm_data (src_bmsg w) = w_src w.
Proof. unfold src_bmsg, bm_data. cbn [bm_segs]. rewrite map_map. cbn [bs_data]. apply map_id. Qed.

Lemma set_in_wb w l f w' : wb w -> (forall m m', mb m -> f m = Ok m' -> mb m') -> set_in w l f = Ok w' -> wb w'.
Proof.
  intros H Hf. destruct l; cbn [set_in].
  - apply lift0_wb; [exact H|]. intros m' E. eapply Hf; [exact (proj1 H)|exact E].
  - destruct (f (src_bmsg w)) as [m| |] eqn:E; cbn [bind]; try discriminate. intros E1. ok_inv E1.
    split; [exact (proj1 H)|]. cbn [w_src]. eapply Hf; [|exact E]. unfold mb. rewrite src_bmsg_data. exact (proj2 H).
Qed.

Lemma dset_wb st r st' out : wb (st_w st) -> (forall w', r = Ok w' -> wb w') -> dset st r = (Some st', out) -> wb (st_w st').
Proof. intros H Hr. destruct r; cbn [dset]; intros E; inversion E; subst; cbn [st_w]; auto. Qed.
Lemma pset_wb st r st' out : (forall w', r = Ok w' -> wb w') -> pset st r = (Some st', out) -> wb (st_w st').
Proof. intros Hr. destruct r; cbn [pset]; intros E; inversion E; subst; cbn [st_w]; auto. Qed.
Lemma ctor_wb st sid r st' out : wb (st_w st) -> (forall m p, r = Ok (m, p) -> mb m) -> ctor st sid r = (Some st', out) -> wb (st_w st').
Proof.
  intros H Hr. destruct r as [[m p]| |]; cbn [ctor]; intros E; inversion E; subst. cbn [hpush st_w].
  apply wb_set_dst; [exact H|]. eapply Hr. reflexivity.
Qed.

Lemma bstep_wb e st o st' out : wb (st_w st) -> sub_op o = true -> bstep e st o = (Some st', out) -> wb (st_w st').
Proof.
  intros H Hop. pose proof (proj1 H) as Hm. destruct o; cbn [bstep].
  all: try (destruct (negb (valid_sid st sid)); [intros E; inversion E; subst; exact H|]).
  - apply ctor_wb; [exact H|]. intros m p. apply newStruct_mb, Hm.
  - apply ctor_wb; [exact H|]. intros m p. apply newPrim_mb, Hm.
  - apply ctor_wb; [exact H|]. intros m p. apply newBit_mb, Hm.
  - apply ctor_wb; [exact H|]. intros m p. apply newPList_mb, Hm.
  - apply ctor_wb; [exact H|]. intros m p. apply newComp_mb, Hm.
  - destruct (newVoidList sid n); intros E; inversion E; subst; exact H.
  - apply ctor_wb; [exact H|]. intros m p. apply newBytes_mb; [exact Hm|].
    cbn [sub_op] in Hop. apply andb_prop in Hop. destruct Hop as [_ Hv]. rewrite forallb_forall in Hv.
    apply Forall_forall. intros x Hx. specialize (Hv x Hx). lia.
  - intros E; inversion E; subst; exact H.
  - intros E; inversion E; subst. cbn [st_w]. apply wb_set_dst; [exact H|exact Hm].
  - destruct (hget st h) as [l p]. apply dset_wb; [exact H|]. intros w'. apply set_in_wb; [exact H|].
    intros m m' Hmm. apply struct_set_uint_mb, Hmm.
  - destruct (hget st h) as [l p]. apply dset_wb; [exact H|]. intros w'. apply set_in_wb; [exact H|].
    intros m m' Hmm. apply struct_set_bit_mb, Hmm.
  - destruct (hget st h) as [l p]. apply dset_wb; [exact H|]. intros w'. apply set_in_wb; [exact H|].
    intros m m' Hmm. apply list_set_uint_mb, Hmm.
  - destruct (hget st h) as [l p]. apply dset_wb; [exact H|]. intros w'. apply set_in_wb; [exact H|].
    intros m m' Hmm. apply bitlist_set_mb, Hmm.
  - destruct (hget st h) as [l p]. destruct (hget st hs) as [ls q]. destruct (is_src l); [discriminate|].
    apply pset_wb. intros w'. unfold struct_set_ptr. destruct (_ || _); [discriminate|].
    apply (proj1 (bytes_all true _)). exact H.
  - destruct (hget st h) as [l p]. destruct (hget st hs) as [ls q]. destruct (is_src l); [discriminate|].
    apply pset_wb. intros w'. unfold ptrlist_set. destruct (primitiveElem _ _ _ _); cbn [bind]; try discriminate.
    apply (proj1 (bytes_all true _)). exact H.
  - destruct (hget st h) as [l p]. destruct (hget st hs) as [ls q]. destruct (is_src l); [discriminate|].
    apply pset_wb. intros w'. unfold list_set_struct. destruct (p_bit _); [discriminate|].
    destruct (list_struct _ _ _); cbn [bind]; try discriminate.
    apply (proj2 (bytes_all true _)). exact H.
  - destruct (hget st h) as [l p]. destruct (hget st hs) as [ls q]. destruct (is_src l); [discriminate|].
    apply pset_wb. intros w'. apply (proj2 (bytes_all true _)). exact H.
  - destruct (hget st hs) as [ls q]. apply pset_wb. intros w'. unfold set_root, set_root_gen.
    destruct (bm_segs _); [discriminate|]. destruct (negb _); [discriminate|].
    apply (proj1 (bytes_all true _)). exact H.
  - destruct (step _ _ _ _ _) as [rs' v]. intros E; inversion E; subst. cbn [st_w]. apply wb_set_rl, H.
  - destruct (root _ _ _) as [r rl]. intros E; inversion E; subst; exact H.
  - destruct l; intros E; inversion E; subst; exact H.
  - intros E; inversion E; subst. cbn [st_w]. apply wb_set_dst; [exact H|].
    unfold mb, bm_data. cbn [bm_segs]. rewrite map_map. cbn [bs_data]. rewrite map_id. exact Hm.
Qed.

Lemma bstates_wb e : forall ops st, wb (st_w st) -> sub_prog ops = true ->
  Forall (fun st => wb (st_w st)) (bstates e st ops).
Proof.
  induction ops as [|o r IH]; intros st H Hp; cbn [bstates]; constructor; auto.
  unfold sub_prog in Hp. cbn [forallb] in Hp. apply andb_prop in Hp. destruct Hp as [Ho Hr].
  destruct (bstep e st o) as [[st1|] out] eqn:E; [|constructor].
  apply IH; [|exact Hr]. eapply bstep_wb; eauto.
Qed.

(* ------------------------------------------------------------------ the initial message *)
Lemma raw_mb k caps T : mb (mkBM k (map (fun c => mkBS [] c) caps) [] T).
Proof. unfold mb, bm_data. cbn [bm_segs]. rewrite map_map. cbn [bs_data]. apply Forall_forall. intros x Hx. apply in_map_iff in Hx. destruct Hx as (c & <- & _). constructor. Qed.

Lemma new_message_mb k caps T m : new_message k caps T = Ok m -> mb m.
Proof.
  unfold new_message. cbv zeta.
  match goal with |- context [bind ?X _] => destruct X as [m1| |] eqn:E1 end; cbn [bind]; try discriminate.
  assert (H1 : mb m1).
  { destruct caps as [|c [|c2 r]]; try discriminate.
    - destruct k.
      + ok_inv E1. repeat constructor.
      + destruct (allocSegment _ _) as [[m0 i]| |] eqn:EA; cbn [bind] in E1; try discriminate. ok_inv E1. cbn [fst].
        eapply allocSegment_mb; [|exact EA]. apply (raw_mb AMulti []).
    - ok_inv E1. apply raw_mb. }
  destruct (alloc m1 0 8) as [[[m2 sid] a]| |] eqn:EA; cbn [bind]; try discriminate.
  destruct (sid =? 0); [|discriminate]. intros E. ok_inv E. eapply alloc_mb; eauto.
Qed.

Lemma create_mb a rl m : create a rl = Ok m -> mb m.
Proof.
  unfold create. destruct a as [[c|]|[c|]|cs]; try apply new_message_mb.
  destruct cs; [discriminate|]. destruct (newStruct _ _ _) as [[m1 p]| |] eqn:EN; cbn [bind]; try discriminate.
  intros E. ok_inv E. cbn [fst]. eapply newStruct_mb; [|exact EN]. apply raw_mb.
Qed.

(* every byte of every reachable state is a byte *)
Theorem bytes_inv_sublang a cfgd cfgs ncaps fuel src ops m :
  create a (init_rlimit cfgd) = Ok m -> sub_prog ops = true -> msg_ok src ->
  Forall (fun st => wb (st_w st)) (bstates (mkEnv cfgd cfgs ncaps fuel) (mkBSt (mkW m src (init_rlimit cfgs)) []) ops).
Proof.
  intros Hc Hp Hs. apply bstates_wb; [|exact Hp]. split; [eapply create_mb; exact Hc|].
  cbn [st_w w_src]. eapply Forall_impl; [|exact Hs]. intros s Hsk. exact (proj2 Hsk).
Qed.
