(* C04: the frame of every op of the interpreter ([bstep_frame]): what a step may change among the
   bytes that existed, as a function [touch] of the state before the step and the op; hence every
   run of the interpreter is a chain of frames (HeapHistory.v). *)
From CV Require Import Core.Builder Core.ReaderFacts Core.ArithFacts Core.BuilderFacts Core.AllocProofs
  Core.WritePtrProofs Core.HeapProofs Core.CopyProofs Core.BuildOps Core.BuildValid Core.BuildInv Core.HeapInv Core.ReadBridge
  Core.HeapOps Core.HeapCopy Core.HeapCopySrc Core.HeapSteps Core.HeapHistory.
From Coq Require Import ZifyBool ZifyNat.
Open Scope Z_scope.

Ltac Zify.zify_post_hook ::= Z.div_mod_to_equations.

Definition fr (m m' : bmsg) (R : Z -> Z -> Prop) : Prop := keeps m m' R /\ nsegs m <= nsegs m'.

Lemma fr_refl m R : fr m m R.
Proof. split; [apply keeps_refl|lia]. Qed.

Lemma fr_weaken m m' (R R' : Z -> Z -> Prop) : (forall i k, R i k -> R' i k) -> fr m m' R -> fr m m' R'.
Proof. intros H [K N]. split; [|exact N]. eapply keeps_weaken; [|exact K]. intros i k _ _ X. apply H. exact X. Qed.

(* messages with the same segments *)
Lemma fr_same_mem m m' R : (forall i, mem m' i = mem m i) -> nsegs m' = nsegs m -> fr m m' R.
Proof.
  intros E N. split; [|lia]. split.
  - intros i _. rewrite E. lia.
  - intros i k _ _ _. rewrite E. reflexivity.
Qed.

Lemma fr_wrote m m' sid a bs : wrote m m' sid a bs -> 0 <= sid -> fr m m' (fun i k => i = sid /\ a <= k < a + zlen bs).
Proof.
  intros W Hs. split; [apply wrote_keeps; auto|]. unfold nsegs. rewrite (wrote_nsegs _ _ _ _ _ W). lia.
Qed.

(* ------------------------------------------------------------------ constructors *)
Lemma alloc_fr m sid sz m1 s1 a : inv m -> 0 <= sid < nsegs m -> 0 <= sz -> alloc m sid sz = Ok (m1, s1, a) -> fr m m1 Rnone.
Proof. intros Hi Hs Hz E. destruct (alloc_keeps _ _ _ _ _ _ Hi Hs Hz E) as (K & _ & N & _). split; auto. Qed.

(* an allocation followed by a write inside the fresh storage *)
Lemma alloc_write_fr m sid sz m1 s1 a m2 addr bs :
  inv m -> 0 <= sid < nsegs m -> 0 <= sz -> alloc m sid sz = Ok (m1, s1, a) ->
  wrote m1 m2 s1 addr bs -> a <= addr -> fr m m2 Rnone.
Proof.
  intros Hi Hs Hz E W Ha. destruct (alloc_keeps _ _ _ _ _ _ Hi Hs Hz E) as (K & I1 & N & S1 & AD & _).
  split.
  - apply (keeps_step m m1 m2 Rnone (fun i k => i = s1 /\ addr <= k < addr + zlen bs)); auto.
    + apply wrote_keeps; auto. lia.
    + intros i k Hi0 Hk [X1 X2]. subst i. lia.
  - unfold nsegs in *. rewrite (wrote_nsegs _ _ _ _ _ W). exact N.
Qed.

Lemma newStruct_fr m sid sz m' p : inv m -> 0 <= sid < nsegs m -> newStruct m sid sz = Ok (m', p) -> fr m m' Rnone.
Proof.
  intros Hi Hs. unfold newStruct. destruct (negb _); [discriminate|].
  destruct (alloc m sid _) as [[[m1 s1] a]| |] eqn:EA; cbn [bind]; try discriminate.
  intros E. apply Ok_inj in E. assert (m1 = m') by congruence. subst m1. eapply alloc_fr; eauto. apply totalSize_nn.
Qed.

Lemma newPrim_fr m sid sz n m' p : inv m -> 0 <= sid < nsegs m -> newPrimitiveList m sid sz n = Ok (m', p) -> fr m m' Rnone.
Proof.
  intros Hi Hs. unfold newPrimitiveList. destruct (_ || _); [discriminate|].
  destruct (alloc m sid _) as [[[m1 s1] a]| |] eqn:EA; cbn [bind]; try discriminate.
  intros E. apply Ok_inj in E. assert (m1 = m') by congruence. subst m1. eapply alloc_fr; eauto. unfold timesUnchecked, u32. lia.
Qed.

Lemma newBit_fr m sid n m' p : inv m -> 0 <= sid < nsegs m -> newBitList m sid n = Ok (m', p) -> fr m m' Rnone.
Proof.
  intros Hi Hs. unfold newBitList. destruct (_ || _); [discriminate|].
  destruct (alloc m sid _) as [[[m1 s1] a]| |] eqn:EA; cbn [bind]; try discriminate.
  intros E. apply Ok_inj in E. assert (m1 = m') by congruence. subst m1. eapply alloc_fr; eauto. unfold bitListSize, u32. lia.
Qed.

Lemma newPList_fr m sid n m' p : inv m -> 0 <= sid < nsegs m -> newPointerList m sid n = Ok (m', p) -> fr m m' Rnone.
Proof.
  intros Hi Hs. unfold newPointerList. destruct (times 8 n) as [t|] eqn:ET; [|discriminate].
  destruct (alloc m sid t) as [[[m1 s1] a]| |] eqn:EA; cbn [bind]; try discriminate.
  intros E. apply Ok_inj in E. assert (m1 = m') by congruence. subst m1. eapply alloc_fr; eauto.
  apply times_spec in ET. lia.
Qed.

Lemma newComp_fr m sid sz n m' p : inv m -> 0 <= sid < nsegs m -> newCompositeList m sid sz n = Ok (m', p) -> fr m m' Rnone.
Proof.
  intros Hi Hs. unfold newCompositeList. destruct (negb _); [discriminate|]. destruct (_ || _); [discriminate|].
  destruct (times _ n) as [t|] eqn:ET; [|discriminate]. destruct (t >? _); [discriminate|].
  destruct (alloc m sid _) as [[[m1 s1] a]| |] eqn:EA; cbn [bind]; try discriminate.
  destruct (of_opt_panic _) as [tag| |]; cbn [bind]; try discriminate.
  destruct (writeRawPointer m1 s1 a tag) as [m2| |] eqn:EW; cbn [bind]; try discriminate.
  intros E. apply Ok_inj in E. assert (m2 = m') by congruence. subst m2.
  assert (Hz : 0 <= u32 (8 + t)) by (unfold u32; lia).
  destruct (alloc_keeps _ _ _ _ _ _ Hi Hs Hz EA) as (_ & _ & _ & S1 & _).
  apply writeRawPointer_wrote in EW; [|lia].
  apply (alloc_write_fr m sid (u32 (8 + t)) m1 s1 a m' a _ Hi Hs Hz EA EW). lia.
Qed.

Lemma newBytes_fr m sid v nul m' p : inv m -> 0 <= sid < nsegs m -> zlen v < 4294967296 -> newBytes m sid v nul = Ok (m', p) -> fr m m' Rnone.
Proof.
  intros Hi Hs Hv. unfold newBytes, newPrimitiveList. destruct (_ || _); [discriminate|].
  destruct (alloc m sid _) as [[[m1 s1] a]| |] eqn:EA; cbn [bind]; try discriminate. cbn [p_seg p_off].
  destruct (seg_write m1 s1 a v) as [m2| |] eqn:EW; cbn [bind]; try discriminate.
  intros E. apply Ok_inj in E. assert (m2 = m') by congruence. subst m2.
  assert (Hz : 0 <= timesUnchecked 1 (s32 (zlen v + (if nul then 1 else 0)))) by (unfold timesUnchecked, u32; lia).
  destruct (alloc_keeps _ _ _ _ _ _ Hi Hs Hz EA) as (_ & _ & _ & S1 & _).
  apply seg_write_wrote in EW; [|lia|exact Hv].
  apply (alloc_write_fr m sid _ m1 s1 a m' a v Hi Hs Hz EA EW). lia.
Qed.

(* ------------------------------------------------------------------ pointer setters *)
Lemma view_sz_seg m objs pads p : hinv m objs pads -> view objs p -> p_valid p = true ->
  (p_kind p = KStruct /\ p_size p = mkOS 0 0) \/ p_kind p = KIface \/
  (wf_size (p_size p) /\ 0 <= p_seg p < nsegs m).
Proof.
  intros H V Hv. destruct V as [V|[[M V]|[(h & i & Hh & MA)|[(Ek & Esz & Em & _)|(Ek & _)]]]]; [congruence| | | |auto].
  - right. right. destruct (obj_bounds _ _ _ _ H V) as (B1 & _). cbn [core p_seg] in B1. split; [|exact B1].
    destruct (p_kind p) eqn:Ek.
    + apply (struct_wf m objs pads p H (or_intror (or_introl (conj M V))) Hv Ek).
    + destruct (list_obj_facts _ _ _ _ H V ltac:(cbn [core p_kind]; exact Ek)) as (_ & Wf & _). exact Wf.
    + exfalso. destruct (core_facts p) as (_ & _ & _ & _ & _ & _ & C7).
      destruct (hi_good _ _ _ H _ V) as [_ (Sh & _)]. apply (proj1 C7) in Sh. unfold shape_ok in Sh. rewrite Ek in Sh. exact Sh.
  - right. right. pose proof MA as (_ & _ & _ & _ & Es & _ & _ & Ek & _).
    split; [apply (struct_wf m objs pads p H (or_intror (or_intror (or_introl (ex_intro _ h (ex_intro _ i (conj Hh MA)))))) Hv Ek)|].
    destruct (obj_bounds _ _ _ _ H Hh) as (B1 & _). rewrite Es. exact B1.
  - left. auto.
Qed.

Lemma write_ptr_fr st objs pads f sd ad hs w1 :
  sinv st objs pads -> spool st -> In (sd, ad) ((0, 0) :: flat_map slots objs) ->
  write_ptr f true (st_w st) sd ad (fst (hget st hs)) (snd (hget st hs)) false = Ok w1 ->
  fr (w_dst (st_w st)) (w_dst w1) (Rword sd ad).
Proof.
  intros S SP Hq HW. pose proof S as (H & P & C).
  destruct (slot_geometry _ _ _ _ H Hq) as (Q1 & _). cbn [fst] in Q1.
  pose proof (hi_inv _ _ _ H) as Hinv.
  destruct (frame_all true f) as [FW _].
  assert (Gen : forall l q, sz_ok q -> (is_src l = false -> p_valid q = true -> 0 <= p_seg q < nsegs (w_dst (st_w st))) ->
           write_ptr f true (st_w st) sd ad l q false = Ok w1 -> fr (w_dst (st_w st)) (w_dst w1) (Rword sd ad)).
  { intros l q Sz Rg E. destruct (FW true (st_w st) sd ad l q false w1 Hinv Q1 Sz Rg E) as (K & _ & N & _). split; auto. }
  destruct (fst (hget st hs)) eqn:El.
  - pose proof (hget_view st objs pads hs S El) as Vw. set (q := snd (hget st hs)) in *.
    destruct (p_valid q) eqn:Hv.
    2:{ apply (Gen InDst q); auto; [intros X; congruence|intros _ X; congruence]. }
    destruct (view_sz_seg _ _ _ q H Vw Hv) as [[Ek Esz]|[Ek|[Wf Rg]]].
    + (* the empty struct: one inline word *)
      destruct f as [|f]; [discriminate HW|]. unfold write_ptr in HW. cbn [write_ptr_gen] in HW.
      rewrite Hv, Ek, Esz in HW. cbn [negb os_isZero DataSize PointerCount] in HW.
      change ((0 =? 0) && (0 =? 0)) with true in HW. cbv iota in HW.
      rewrite empty_struct_word_eq in HW. cbn [of_opt_panic bind] in HW. unfold lift0 in HW.
      destruct (writeRawPointer (w_dst (st_w st)) sd ad empty_struct_word) as [m'| |] eqn:EW; cbn [bind] in HW; try discriminate.
      apply Ok_inj in HW. subst w1. cbn [w_dst w_set_dst].
      destruct (writeRawPointer_keeps _ _ _ _ _ (proj1 Q1) Hinv EW) as (K & _ & N & _). split; [exact K|lia].
    + (* a capability: one inline word *)
      destruct f as [|f]; [discriminate HW|]. unfold write_ptr in HW. cbn [write_ptr_gen] in HW.
      rewrite Hv, Ek in HW. cbn [negb is_src] in HW. unfold lift0 in HW.
      destruct (writeRawPointer (w_dst (st_w st)) sd ad _) as [m'| |] eqn:EW; cbn [bind] in HW; try discriminate.
      apply Ok_inj in HW. subst w1. cbn [w_dst w_set_dst].
      destruct (writeRawPointer_keeps _ _ _ _ _ (proj1 Q1) Hinv EW) as (K & _ & N & _). split; [exact K|lia].
    + apply (Gen InDst q); auto. intros _. exact Wf.
  - pose proof (hget_sview st hs SP El) as Vw.
    apply (Gen InSrc (snd (hget st hs))); auto.
    + intros V. apply (proj1 (Vw V)).
    + discriminate.
Qed.

Lemma Rexact_empty p : p_size p = mkOS 0 0 -> forall i k, ~ Rexact p i k.
Proof. intros E i k [_ [X|(j & Hj & _)]]; rewrite E in *; cbn [DataSize PointerCount] in *; lia. Qed.

Lemma copy_struct_fr st objs pads f dst hs w1 :
  sinv st objs pads -> spool st -> view objs dst -> (p_valid dst = true -> p_kind dst = KStruct) ->
  copy_struct f true (st_w st) dst (fst (hget st hs)) (as_struct (snd (hget st hs))) = Ok w1 ->
  fr (w_dst (st_w st)) (w_dst w1) (Rexact dst).
Proof.
  intros Si SP Vd Kd HW. pose proof Si as (H & P & C). pose proof (hi_inv _ _ _ H) as Hinv.
  destruct f as [|f]; [discriminate HW|].
  set (src := as_struct (snd (hget st hs))) in *. set (l := fst (hget st hs)) in *.
  destruct (p_valid dst) eqn:Hvd.
  2:{ unfold copy_struct in HW. cbn [copy_struct_gen] in HW. rewrite Hvd in HW. discriminate. }
  destruct (p_valid src) eqn:Hvs.
  2:{ unfold copy_struct in HW. cbn [copy_struct_gen] in HW. rewrite Hvd, Hvs in HW. cbn [negb] in HW. apply Ok_inj in HW. subst w1. apply fr_refl. }
  specialize (Kd eq_refl).
  (* the source: a struct with a legal size in a segment of addressable length *)
  assert (Src : sz_ok src /\ zlen (nth (Z.to_nat (p_seg src)) (w_segs (st_w st) l) []) < 4294967296).
  { unfold l, src in *. destruct (fst (hget st hs)) eqn:El.
    - pose proof (hget_view st objs pads hs Si El) as Vq. destruct (view_as_struct objs _ Vq) as [Vsq Ksq].
      split; [intros V; apply (struct_wf _ _ _ _ H Vsq V (Ksq V))|].
      cbn [w_segs]. rewrite nth_bm_data. pose proof (hi_small _ _ _ H (p_seg (as_struct (snd (hget st hs))))) as X. unfold maxSegmentSize in X. lia.
    - pose proof (hget_sview st hs SP El) as Vq. destruct (sview_as_struct _ _ Vq) as [Vsq Ksq].
      split; [intros V; apply (proj1 (Vsq V))|]. cbn [w_segs].
      pose proof (msg_ok_nth _ (Z.to_nat (p_seg (as_struct (snd (hget st hs))))) (proj1 SP)) as [X _]. unfold maxSegmentSize in X. lia. }
  destruct Src as [Szs Ls].
  destruct (struct_view_geom _ _ _ dst H Vd Hvd Kd) as [[E0d Sgd]|(hd & Hind & Esegd & D0d & P0d & Olod & Ohid & _)].
  - (* the empty struct as destination: a write of no bytes *)
    apply (fr_weaken _ _ (fun i k => i = p_seg dst /\ p_off dst <= k < p_off dst + zlen (@nil Z))); [intros i k [_ X]; cbn in X; lia|].
    unfold copy_struct in HW. cbn [copy_struct_gen] in HW. rewrite Hvd, Hvs in HW. cbn [negb] in HW.
    destruct (slice _ _ _) as [sd| |]; cbn [bind] in HW; try discriminate.
    rewrite E0d in HW. cbn [DataSize PointerCount] in HW.
    destruct (slice _ (p_off dst) 0) as [dd| |] eqn:ESd; cbn [bind] in HW; try discriminate.
    apply slice_zero in ESd. subst dd. cbn [length] in HW. rewrite Nat.min_0_r in HW. cbn [firstn Nat.sub repeat app] in HW.
    unfold lift0 in HW.
    destruct (seg_write (w_dst (st_w st)) (p_seg dst) (p_off dst) []) as [m1| |] eqn:EW; cbn [bind] in HW; try discriminate.
    apply seg_write_wrote in EW; [|lia|cbn; lia].
    destruct (Szs Hvs) as (_ & Ns & _).
    replace (Z.min (PointerCount (p_size src)) 0) with 0 in HW by lia. change (Z.to_nat 0) with O in HW.
    change (iota 0) with (@nil Z) in HW. cbn [fold_res bind] in HW.
    replace (Z.to_nat (0 - PointerCount (p_size src))) with O in HW by lia. change (iota 0) with (@nil Z) in HW. cbn [map fold_res] in HW.
    apply Ok_inj in HW. subst w1. cbn [w_dst w_set_dst]. apply fr_wrote; auto.
  - destruct (obj_bounds _ _ _ _ H Hind) as (B1 & B2 & B3 & B4 & B5). rewrite Esegd in *.
    pose proof (struct_wf _ _ _ dst H Vd Hvd Kd) as Wfd.
    assert (HW' := HW).
    apply (copy_struct_ptrs f true (st_w st) dst l src w1) in HW; auto; try lia; try (unfold maxSegmentSize; lia).
    destruct HW as (K & _).
    destruct (frame_all true (S f)) as [_ FC].
    destruct (FC true (st_w st) dst l src w1 Hinv B1 Wfd ltac:(lia) Szs HW') as (_ & _ & N & _).
    split; auto.
Qed.

(* ------------------------------------------------------------------ the frame of every op *)
Definition touch (st : bstate) (o : bop) : Z -> Z -> Prop :=
  match o with
  | BSetUint h off n _ => let p := as_struct (snd (hget st h)) in
      fun i k => i = p_seg p /\ exists addr, dataAddress p off n = Ok (Some addr) /\ addr <= k < addr + n
  | BSetBit h n _ => let p := as_struct (snd (hget st h)) in
      fun i k => i = p_seg p /\ addOffset (p_off p) (bitOffset_offset n) = Some k
  | BListSetUint h i n _ => let p := as_list (snd (hget st h)) in
      fun s k => s = p_seg p /\ exists addr, primitiveElem true p i (mkOS n 0) = Ok addr /\ addr <= k < addr + n
  | BBitSet h i _ => let p := as_list (snd (hget st h)) in
      fun s k => s = p_seg p /\ k = u32 (p_off p + bitOffset_offset i)
  | BSetPtr h i _ => let p := as_struct (snd (hget st h)) in Rword (p_seg p) (pointerAddress p i)
  | BPLSet h i _ => let p := as_list (snd (hget st h)) in
      fun s k => exists addr, primitiveElem true p i (mkOS 0 1) = Ok addr /\ Rword (p_seg p) addr s k
  | BSetStruct h i _ => fun s k => exists de, list_struct true (as_list (snd (hget st h))) i = Ok de /\ Rexact de s k
  | BCopyFrom h _ => Rexact (as_struct (snd (hget st h)))
  | BSetRoot _ => Rword 0 0
  | _ => Rnone
  end.

Lemma view_seg_nonneg m objs pads p : hinv m objs pads -> view objs p -> p_valid p = true ->
  (p_kind p = KStruct \/ p_kind p = KList) -> 0 <= p_seg p.
Proof.
  intros H V Hv Hk. destruct V as [V|[[M V]|[(h & i & Hh & MA)|[(_ & _ & _ & Sg)|(Ek & _)]]]]; [congruence| | |exact Sg|destruct Hk; congruence].
  - destruct (obj_bounds _ _ _ _ H V) as (B1 & _). cbn [core p_seg] in B1. lia.
  - destruct MA as (_ & _ & _ & _ & Es & _). destruct (obj_bounds _ _ _ _ H Hh) as (B1 & _). lia.
Qed.

Theorem bstep_frame e st objs pads o st' out :
  sinv st objs pads -> spool st -> sub_op o = true -> dst_only st o -> bstep e st o = (Some st', out) ->
  fr (w_dst (st_w st)) (w_dst (st_w st')) (touch st o).
Proof.
  intros Si SP Hop Hdo. pose proof Si as (H & P & C). pose proof (hi_inv _ _ _ H) as Hinv. unfold bstep.
  assert (CT : forall sid (r : res (bmsg * Ptr)), valid_sid st sid = true ->
             (forall m' p, r = Ok (m', p) -> fr (w_dst (st_w st)) m' Rnone) ->
             ctor st sid r = (Some st', out) -> fr (w_dst (st_w st)) (w_dst (st_w st')) Rnone).
  { intros sid r Vs Hr E. unfold ctor in E. destruct r as [[m' p]| |]; try discriminate. injection E as <- _. cbn [hpush st_w w_dst w_set_dst]. eauto. }
  (* a data setter that wrote [bs] at [addr] of the handle's segment *)
  assert (DS : forall h (F : bmsg -> res bmsg) (R : Z -> Z -> Prop), fst (hget st h) = InDst ->
             (forall m1, F (w_dst (st_w st)) = Ok m1 -> fr (w_dst (st_w st)) m1 R) ->
             dset st (set_in (st_w st) (fst (hget st h)) F) = (Some st', out) -> fr (w_dst (st_w st)) (w_dst (st_w st')) R).
  { intros h F R El HF E. rewrite El in E. unfold dset, set_in, lift0 in E.
    destruct (F (w_dst (st_w st))) as [m1| |] eqn:EF; cbn [bind] in E; injection E as <- _; try apply fr_refl.
    cbn [st_w w_dst w_set_dst]. auto. }
  assert (PS : forall r R, (forall w1, r = Ok w1 -> fr (w_dst (st_w st)) (w_dst w1) R) -> pset st r = (Some st', out) ->
             fr (w_dst (st_w st)) (w_dst (st_w st')) R).
  { intros r R Hr E. unfold pset in E. destruct r as [w1| |]; try discriminate. injection E as <- _. cbn [st_w]. auto. }
  destruct o; cbv zeta; cbn [touch].
  - (* NewStruct *) destruct (negb (valid_sid st sid)) eqn:EV; [intros E; injection E as <- _; apply fr_refl|].
    assert (Vs : valid_sid st sid = true) by (destruct (valid_sid st sid); auto; discriminate).
    apply (CT sid); auto. intros m' p E. eapply newStruct_fr; eauto. apply valid_sid_range. exact Vs.
  - destruct (negb (valid_sid st sid)) eqn:EV; [intros E; injection E as <- _; apply fr_refl|].
    assert (Vs : valid_sid st sid = true) by (destruct (valid_sid st sid); auto; discriminate).
    apply (CT sid); auto. intros m' p E. eapply newPrim_fr; eauto. apply valid_sid_range. exact Vs.
  - destruct (negb (valid_sid st sid)) eqn:EV; [intros E; injection E as <- _; apply fr_refl|].
    assert (Vs : valid_sid st sid = true) by (destruct (valid_sid st sid); auto; discriminate).
    apply (CT sid); auto. intros m' p E. eapply newBit_fr; eauto. apply valid_sid_range. exact Vs.
  - destruct (negb (valid_sid st sid)) eqn:EV; [intros E; injection E as <- _; apply fr_refl|].
    assert (Vs : valid_sid st sid = true) by (destruct (valid_sid st sid); auto; discriminate).
    apply (CT sid); auto. intros m' p E. eapply newPList_fr; eauto. apply valid_sid_range. exact Vs.
  - destruct (negb (valid_sid st sid)) eqn:EV; [intros E; injection E as <- _; apply fr_refl|].
    assert (Vs : valid_sid st sid = true) by (destruct (valid_sid st sid); auto; discriminate).
    apply (CT sid); auto. intros m' p E. eapply newComp_fr; eauto. apply valid_sid_range. exact Vs.
  - (* NewVoid *) destruct (negb (valid_sid st sid)); [intros E; injection E as <- _; apply fr_refl|].
    destruct (newVoidList sid n); intros E; injection E as <- _; apply fr_refl.
  - (* NewBytes *) destruct (negb (valid_sid st sid)) eqn:EV; [intros E; injection E as <- _; apply fr_refl|].
    assert (Vs : valid_sid st sid = true) by (destruct (valid_sid st sid); auto; discriminate).
    cbn [sub_op] in Hop. apply (CT sid); auto. intros m' p E. eapply newBytes_fr; eauto; [apply valid_sid_range; exact Vs|lia].
  - (* NewInterface *) destruct (negb (valid_sid st sid)); intros E; injection E as <- _; apply fr_refl.
  - (* AddCap *) intros E. injection E as <- _. cbn [st_w w_dst w_set_dst]. apply fr_same_mem; reflexivity.
  - (* SetUint *)
    destruct (hget st h) as [l p] eqn:EH. intros E. cbn [sub_op] in Hop.
    assert (Ep : p = snd (hget st h)) by (rewrite EH; reflexivity). cbn [snd].
    apply (DS h (fun m0 => struct_set_uint m0 (as_struct p) off n v)); [exact Hdo| |rewrite EH; exact E].
    intros m1 EF. unfold struct_set_uint in EF.
    destruct (dataAddress (as_struct p) off n) as [[addr|]| |] eqn:ED; cbn [bind] in EF; try discriminate.
    assert (Hvp : p_valid (as_struct p) = true).
    { unfold dataAddress in ED. destruct (p_valid (as_struct p)); auto. cbn in ED. discriminate. }
    destruct (as_struct_valid p Hvp) as [Eas Ek].
    pose proof (hget_view st objs pads h Si Hdo) as Vw. rewrite <- Ep in Vw. rewrite Eas in *.
    pose proof (view_seg_nonneg _ _ _ p H Vw Hvp (or_introl Ek)) as Sg.
    assert (Hn : n = 1 \/ n = 2 \/ n = 4 \/ n = 8) by (apply width_b_ok; apply andb_prop in Hop; apply Hop).
    apply seg_write_wrote in EF; [|lia|rewrite zlen_le_encode; lia].
    eapply fr_weaken; [|exact (fr_wrote _ _ _ _ _ EF Sg)].
    intros i0 k [X1 X2]. split; [exact X1|]. exists addr. split; [reflexivity|]. rewrite zlen_le_encode in X2 by lia. exact X2.
  - (* SetBit *)
    destruct (hget st h) as [l p] eqn:EH. intros E.
    assert (Ep : p = snd (hget st h)) by (rewrite EH; reflexivity). cbn [snd].
    apply (DS h (fun m0 => struct_set_bit m0 (as_struct p) n v)); [exact Hdo| |rewrite EH; exact E].
    intros m1 EF. unfold struct_set_bit in EF.
    destruct (negb (p_valid (as_struct p) && _)) eqn:EV; [discriminate|].
    assert (Hvp : p_valid (as_struct p) = true) by (destruct (p_valid (as_struct p)); auto; discriminate).
    destruct (addOffset _ _) as [addr|] eqn:EA; [|discriminate].
    destruct (readUintN _ addr 1) as [b| |]; cbn [bind] in EF; try discriminate.
    destruct (as_struct_valid p Hvp) as [Eas Ek].
    pose proof (hget_view st objs pads h Si Hdo) as Vw. rewrite <- Ep in Vw. rewrite Eas in *.
    pose proof (view_seg_nonneg _ _ _ p H Vw Hvp (or_introl Ek)) as Sg.
    apply seg_write_wrote in EF; [|lia|cbn; lia].
    eapply fr_weaken; [|exact (fr_wrote _ _ _ _ _ EF Sg)].
    intros i0 k [X1 X2]. change (zlen [set_bit_in b (n mod 8) v]) with 1 in X2. split; [exact X1|]. f_equal. lia.
  - (* UIntNList.Set *)
    destruct (hget st h) as [l p] eqn:EH. intros E. cbn [sub_op] in Hop.
    assert (Ep : p = snd (hget st h)) by (rewrite EH; reflexivity). cbn [snd].
    apply (DS h (fun m0 => list_set_uint m0 (as_list p) i n v)); [exact Hdo| |rewrite EH; exact E].
    intros m1 EF. unfold list_set_uint in EF.
    destruct (primitiveElem true (as_list p) i (mkOS n 0)) as [addr| |] eqn:PE; try discriminate.
    assert (Hvp : p_valid (as_list p) = true).
    { unfold primitiveElem in PE. destruct (p_valid (as_list p)); auto. cbn in PE. discriminate. }
    destruct (as_list_valid p Hvp) as [Eas Ek].
    pose proof (hget_view st objs pads h Si Hdo) as Vw. rewrite <- Ep in Vw. rewrite Eas in *.
    pose proof (view_seg_nonneg _ _ _ p H Vw Hvp (or_intror Ek)) as Sg.
    assert (Hn : n = 1 \/ n = 2 \/ n = 4 \/ n = 8) by (apply width_b_ok; exact Hop).
    apply seg_write_wrote in EF; [|lia|rewrite zlen_le_encode; lia].
    eapply fr_weaken; [|exact (fr_wrote _ _ _ _ _ EF Sg)].
    intros s0 k [X1 X2]. split; [exact X1|]. exists addr. split; [reflexivity|]. rewrite zlen_le_encode in X2 by lia. exact X2.
  - (* BitList.Set *)
    destruct (hget st h) as [l p] eqn:EH. intros E.
    assert (Ep : p = snd (hget st h)) by (rewrite EH; reflexivity). cbn [snd].
    apply (DS h (fun m0 => bitlist_set m0 (as_list p) i v)); [exact Hdo| |rewrite EH; exact E].
    intros m1 EF. unfold bitlist_set in EF.
    destruct (negb (p_valid (as_list p)) || _ || _) eqn:EV; [discriminate|].
    assert (Hvp : p_valid (as_list p) = true) by (destruct (p_valid (as_list p)); auto; discriminate).
    destruct (negb (p_bit (as_list p))); [discriminate|]. cbv zeta in EF.
    destruct (readUintN _ _ 1) as [b| |]; cbn [bind] in EF; try discriminate.
    destruct (as_list_valid p Hvp) as [Eas Ek].
    pose proof (hget_view st objs pads h Si Hdo) as Vw. rewrite <- Ep in Vw. rewrite Eas in *.
    pose proof (view_seg_nonneg _ _ _ p H Vw Hvp (or_intror Ek)) as Sg.
    apply seg_write_wrote in EF; [|lia|cbn; lia].
    eapply fr_weaken; [|exact (fr_wrote _ _ _ _ _ EF Sg)].
    intros s0 k [X1 X2]. change (zlen [set_bit_in b (i mod 8) v]) with 1 in X2. split; [exact X1|lia].
  - (* SetPtr *)
    destruct (hget st h) as [l p] eqn:EH. destruct (hget st hs) as [ls q] eqn:EQ. cbn [sub_op] in Hop.
    assert (Ep : p = snd (hget st h)) by (rewrite EH; reflexivity). cbn [snd].
    destruct (is_src l) eqn:EL; [discriminate|]. apply PS. intros w1 ES.
    unfold struct_set_ptr in ES. destruct (negb (p_valid (as_struct p)) || (i >=? PointerCount (p_size (as_struct p)))) eqn:EE; [discriminate|].
    assert (Hvp : p_valid (as_struct p) = true) by (destruct (p_valid (as_struct p)); auto; discriminate).
    destruct (as_struct_valid p Hvp) as [Eas Ek]. rewrite Eas in *.
    destruct l; [|discriminate EL].
    pose proof (hget_view st objs pads h Si) as Vw. rewrite EH in Vw. cbn [fst snd] in Vw. specialize (Vw eq_refl).
    destruct (struct_view_slots _ _ _ p H Vw Hvp Ek) as [_ Sl]. destruct (Sl i ltac:(lia)) as [_ Hq0].
    apply (write_ptr_fr st objs pads (e_fuel e) (p_seg p) (pointerAddress p i) hs w1); auto. rewrite EQ. exact ES.
  - (* PointerList.Set *)
    destruct (hget st h) as [l p] eqn:EH. destruct (hget st hs) as [ls q] eqn:EQ.
    assert (Ep : p = snd (hget st h)) by (rewrite EH; reflexivity). cbn [snd].
    destruct (is_src l) eqn:EL; [discriminate|]. apply PS. intros w1 ES.
    unfold ptrlist_set in ES. destruct (primitiveElem true (as_list p) i (mkOS 0 1)) as [addr| |] eqn:PE; cbn [bind] in ES; try discriminate.
    assert (Hvp : p_valid (as_list p) = true).
    { unfold primitiveElem in PE. destruct (p_valid (as_list p)); auto. cbn in PE. discriminate. }
    destruct (as_list_valid p Hvp) as [Eas Ek]. rewrite Eas in *.
    destruct l; [|discriminate EL].
    pose proof (hget_view st objs pads h Si) as Vw. rewrite EH in Vw. cbn [fst snd] in Vw. specialize (Vw eq_refl).
    destruct (list_view objs p Vw Hvp Ek) as [Hin _].
    destruct (list_elem_geom _ _ _ p i (mkOS 0 1) addr H Hin Hvp Ek PE ltac:(left; reflexivity)) as (_ & _ & E3 & _).
    assert (Hq0 : In (p_seg p, addr) ((0, 0) :: flat_map slots objs)).
    { right. apply in_flat_map. exists (core p). split; [exact Hin|]. apply E3. reflexivity. }
    apply (fr_weaken _ _ (Rword (p_seg p) addr)); [intros s k X; exists addr; auto|].
    apply (write_ptr_fr st objs pads (e_fuel e) (p_seg p) addr hs w1); auto. rewrite EQ. exact ES.
  - (* List.SetStruct *)
    destruct (hget st h) as [l p] eqn:EH. destruct (hget st hs) as [ls q] eqn:EQ.
    assert (Ep : p = snd (hget st h)) by (rewrite EH; reflexivity). cbn [snd].
    destruct (is_src l) eqn:EL; [discriminate|]. apply PS. intros w1 ES.
    unfold list_set_struct in ES. destruct (p_bit (as_list p)); [discriminate|].
    destruct (list_struct true (as_list p) i) as [de| |] eqn:ED; cbn [bind] in ES; try discriminate.
    assert (Hvp : p_valid (as_list p) = true).
    { unfold list_struct in ED. destruct (p_valid (as_list p)); auto. cbn in ED. discriminate. }
    destruct (as_list_valid p Hvp) as [Eas Ek]. rewrite Eas in *.
    destruct l; [|discriminate EL].
    pose proof (hget_view st objs pads h Si) as Vw. rewrite EH in Vw. cbn [fst snd] in Vw. specialize (Vw eq_refl).
    destruct (list_view objs p Vw Hvp Ek) as [Hin _].
    destruct (list_struct_view objs p i de Hin Hvp Ek ED) as [Vde Kde].
    apply (fr_weaken _ _ (Rexact de)); [intros s k X; exists de; auto|].
    apply (copy_struct_fr st objs pads (e_fuel e) de hs w1); auto.
    + intros X. apply Kde. exact X.
    + rewrite EQ. exact ES.
  - (* Struct.CopyFrom *)
    destruct (hget st h) as [l p] eqn:EH. destruct (hget st hs) as [ls q] eqn:EQ.
    assert (Ep : p = snd (hget st h)) by (rewrite EH; reflexivity). cbn [snd].
    destruct (is_src l) eqn:EL; [discriminate|]. apply PS. intros w1 ES.
    destruct l; [|discriminate EL].
    pose proof (hget_view st objs pads h Si) as Vp. rewrite EH in Vp. cbn [fst snd] in Vp. specialize (Vp eq_refl).
    destruct (view_as_struct objs p Vp) as [Vsp Ksp].
    apply (copy_struct_fr st objs pads (e_fuel e) (as_struct p) hs w1); auto. rewrite EQ. exact ES.
  - (* SetRoot *)
    destruct (hget st hs) as [ls q] eqn:EQ. apply PS. intros w1 ES.
    unfold set_root, set_root_gen in ES. destruct (bm_segs (w_dst (st_w st))); [discriminate|]. destruct (negb _); [discriminate|].
    apply (write_ptr_fr st objs pads (e_fuel e) 0 0 hs w1); auto; [left; reflexivity|]. rewrite EQ. exact ES.
  - (* read ops *)
    destruct (step _ _ _ _ _) as [rs' v0]. intros E. injection E as <- _. cbn [st_w].
    apply fr_same_mem; [|destruct (match op_handle o with Some h => fst (hget st h) | None => l end); reflexivity].
    intros i. destruct (match op_handle o with Some h => fst (hget st h) | None => l end); reflexivity.
  - destruct (root _ _ _) as [r rl]. intros E. injection E as <- _. apply fr_refl.
  - destruct l; intros E; injection E as <- _; apply fr_refl.
  - (* reopen *)
    intros E. injection E as <- _. cbn [st_w w_dst w_set_dst].
    set (m1 := mkBM AMulti (map (fun d => mkBS d (zlen d)) (bm_data (w_dst (st_w st)))) [] (init_rlimit (e_cfgd e))).
    assert (ED : bm_data m1 = bm_data (w_dst (st_w st))).
    { unfold bm_data at 1. cbn [bm_segs m1]. rewrite map_map. cbn [bs_data]. apply map_id. }
    apply fr_same_mem.
    + intros i. rewrite <- !nth_bm_data. now rewrite ED.
    + rewrite <- !zlen_bm. now rewrite ED.
Qed.

(* ------------------------------------------------------------------ every run is a chain of frames *)
Fixpoint touches (e : benv) (st : bstate) (ops : list bop) : list (Z -> Z -> Prop) :=
  match ops with
  | [] => []
  | o :: r => match bstep e st o with
              | (Some st1, _) => touch st o :: touches e st1 r
              | (None, _) => []
              end
  end.

(* the last state of the run (the run stops at a failing pointer setter / constructor) *)
Fixpoint final (e : benv) (st : bstate) (ops : list bop) : bstate :=
  match ops with
  | [] => st
  | o :: r => match bstep e st o with
              | (Some st1, _) => final e st1 r
              | (None, _) => st
              end
  end.

Lemma final_in e : forall ops st, In (final e st ops) (bstates e st ops).
Proof.
  induction ops as [|o r IH]; intros st; cbn [final bstates]; [left; reflexivity|].
  destruct (bstep e st o) as [[st1|] v]; [right; apply IH|left; reflexivity].
Qed.

(* [brun_chain]: for every program of the interpreter (every arena configuration with a root word
   behind [sinv], any source message), the messages under construction along the run form a
   chain whose frames are [touch state op] *)
Theorem brun_chain e : cfg_strict (e_cfgs e) = true -> forall ops st objs pads,
  sinv st objs pads -> spool st -> sub_prog ops = true -> dst_run e st ops -> Forall seg_bound (bstates e st ops) ->
  chain (w_dst (st_w st)) (touches e st ops) (w_dst (st_w (final e st ops))).
Proof.
  intros Hcs. induction ops as [|o r IH]; intros st objs pads Si SP Hp Hd Hb; cbn [touches final]; [constructor|].
  cbn [sub_prog forallb] in Hp. apply andb_prop in Hp. destruct Hp as [Ho Hr].
  cbn [bstates] in Hb. inversion Hb as [|? ? _ Hb']; subst. destruct Hd as [Hd1 Hd2].
  destruct (bstep e st o) as [[st1|] v] eqn:E; [|constructor].
  assert (B1 : seg_bound st1) by (destruct r; cbn [bstates] in Hb'; inversion Hb'; assumption).
  destruct (bstep_hinv e st objs pads o st1 v Si SP Ho Hd1 E B1) as (objs1 & pads1 & S1 & _).
  pose proof (bstep_spool e st o st1 v Hcs SP Hd1 E) as SP1.
  destruct (bstep_frame e st objs pads o st1 v Si SP Ho Hd1 E) as [K N].
  econstructor; [exact K|exact N|]. eapply IH; eauto.
Qed.

(* [run_last_write_wins]: at the level of the interpreter - what a data setter wrote into a field
   (any [wrote], e.g. T3's) is what is read back at the end of ANY program that follows, provided
   no later op touches the field: setters on other fields or objects, pointer setters with all
   their copies, constructors, capabilities, reads, reopen *)
Theorem run_last_write_wins e m0 st1 objs pads ops sid addr bs :
  cfg_strict (e_cfgs e) = true ->
  wrote m0 (w_dst (st_w st1)) sid addr bs -> 0 <= sid -> zlen (mem m0 sid) < 4294967296 ->
  sinv st1 objs pads -> spool st1 -> sub_prog ops = true -> dst_run e st1 ops -> Forall seg_bound (bstates e st1 ops) ->
  Forall (fun R : Z -> Z -> Prop => forall k, addr <= k < addr + zlen bs -> ~ R sid k) (touches e st1 ops) ->
  slice (mem (w_dst (st_w (final e st1 ops))) sid) addr (zlen bs) = Ok bs.
Proof.
  intros Hcs W Hs Hl Si SP Hp Hd Hb F.
  pose proof (brun_chain e Hcs ops st1 objs pads Si SP Hp Hd Hb) as Ch.
  pose proof (brun_hinv e Hcs ops st1 objs pads Si SP Hp Hd Hb) as All.
  rewrite Forall_forall in All. destruct (All _ (final_in e ops st1)) as (objs' & pads' & (H' & _)).
  apply (last_write_wins m0 (w_dst (st_w st1)) (touches e st1 ops)); auto.
  pose proof (hi_small _ _ _ H' sid) as X. unfold maxSegmentSize in X. lia.
Qed.

(* the tables of the last state extend the tables of the first *)
Theorem brun_final_ext e : cfg_strict (e_cfgs e) = true -> forall ops st objs pads,
  sinv st objs pads -> spool st -> sub_prog ops = true -> dst_run e st ops -> Forall seg_bound (bstates e st ops) ->
  exists objs' pads', sinv (final e st ops) objs' pads' /\ ext objs pads objs' pads'.
Proof.
  intros Hcs. induction ops as [|o r IH]; intros st objs pads Si SP Hp Hd Hb; cbn [final].
  { exists objs, pads. split; [exact Si|apply ext_refl]. }
  cbn [sub_prog forallb] in Hp. apply andb_prop in Hp. destruct Hp as [Ho Hr].
  cbn [bstates] in Hb. inversion Hb as [|? ? _ Hb']; subst. destruct Hd as [Hd1 Hd2].
  destruct (bstep e st o) as [[st1|] v] eqn:E.
  2:{ exists objs, pads. split; [exact Si|apply ext_refl]. }
  assert (B1 : seg_bound st1) by (destruct r; cbn [bstates] in Hb'; inversion Hb'; assumption).
  destruct (bstep_hinv e st objs pads o st1 v Si SP Ho Hd1 E B1) as (objs1 & pads1 & S1 & X1).
  pose proof (bstep_spool e st o st1 v Hcs SP Hd1 E) as SP1.
  destruct (IH st1 objs1 pads1 S1 SP1 Hr Hd2 Hb') as (objs2 & pads2 & S2 & X2).
  exists objs2, pads2. split; [exact S2|eapply ext_trans; eauto].
Qed.

(* [run_last_pointer_wins]: at the level of the interpreter - the words a pointer setter stored
   for table object [ht] at slot [q] (state st1); then ANY program none of whose ops touches the
   slot word or its landing pads; at the end Segment.readPtr at [q] returns the handle of [ht] *)
Theorem run_last_pointer_wins e st1 objs pads ops q ht raw oldlen ps strict rl depth p rl' :
  cfg_strict (e_cfgs e) = true ->
  sinv st1 objs pads -> spool st1 -> sub_prog ops = true -> dst_run e st1 ops -> Forall seg_bound (bstates e st1 ops) ->
  placed (bm_data (w_dst (st_w st1))) (fst q) (snd q) (p_seg ht) (obj_start ht) raw oldlen ps ->
  In ht objs -> incl ps pads -> snd q mod 8 = 0 ->
  raw_of ht = Ok raw -> (p_kind ht = KStruct -> os_isZero (p_size ht) = false) ->
  Forall (fun R : Z -> Z -> Prop => (forall k, snd q <= k < snd q + 8 -> ~ R (fst q) k) /\
            (forall r, In r ps -> forall k, r_start r <= k < r_start r + r_size r -> ~ R (r_seg r) k)) (touches e st1 ops) ->
  let m' := w_dst (st_w (final e st1 ops)) in
  readPtr strict (bm_data m') rl (fst q) (nth (Z.to_nat (fst q)) (bm_data m') []) (snd q) depth = (Ok p, rl') ->
  p = handle_of ht depth.
Proof.
  intros Hcs Si SP Hp Hd Hb Pl Hht Ips Hqa Hraw Hnz F m' HR.
  pose proof (brun_chain e Hcs ops st1 objs pads Si SP Hp Hd Hb) as Ch.
  destruct (brun_final_ext e Hcs ops st1 objs pads Si SP Hp Hd Hb) as (objs' & pads' & (H' & _) & [[eo ->] [ep ->]]).
  apply (last_pointer_wins (w_dst (st_w st1)) (touches e st1 ops) m' (objs ++ eo) (pads ++ ep) q ht raw oldlen ps strict rl depth p rl'); auto.
  - apply in_or_app. left. exact Hht.
  - intros x Hx. apply in_or_app. left. apply Ips. exact Hx.
Qed.
