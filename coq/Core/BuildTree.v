(* C05/C04 tree layer, part 2: the single-level results over programs.
     tree_slots_sublang : in every reachable state of every program accepted by sub_prog (all
       arena configurations with a root word; premises of heap_inv_sublang) there are an object
       table and a pad table such that the SPECIFICATION resolver (Spec.spec_resolve, strict
       mode) maps every pointer slot of every table object and the root word to null, a
       capability, a zero-sized target or exactly the specification target of one table object
       (pointer half of "decode_object_eq_abs");
     spec_struct_data / spec_list_byte : the specification decoder's view of the data of a
       struct / the bytes of a list is the segment content at the object's address (data half;
       what the bytes ARE after a run is C04's read-back theorems, data_write_read_back).
   NOT proved here (see docs/C05.md "tree layer"): the abstract store interpreter, abs_step, and
   the whole-tree equality by induction on fuel. *)
From CV Require Import Core.Builder Core.ReaderFacts Core.BuilderFacts Core.AllocProofs
  Core.WritePtrProofs Core.HeapProofs Core.BuildOps Core.BuildValid Core.BuildInv Core.HeapInv Core.HeapOps
  Core.HeapCopy Core.HeapSteps Core.BuildTreeBridge.
From CV Require Core.BuildExamples Spec.Spec.
From Coq Require Import ZifyBool ZifyNat Lia.
Open Scope Z_scope.

Ltac Zify.zify_post_hook ::= Z.div_mod_to_equations.

(* what the specification resolver returns at a slot, in terms of the tables *)
Definition slot_spec_ok (ms : segs) (objs : list Ptr) (pads : list region) (q : Z * Z) : Prop :=
  exists t rs, resolve_ptr ms (fst q) (snd q) = (t, rs) /\
    S.spec_resolve true ms (fst q) (snd q / 8) = Some (conv t) /\ simple_target t /\
    (rs = [] /\ no_tag t \/ exists ps r, rs = ps ++ [r] /\ incl ps pads /\
        (r_size r = 0 /\ no_tag t \/ exists h, In h objs /\ r = obj_reg h /\ t = tgt_of h)).

Theorem tree_slots_sublang a cfgd cfgs ncaps fuel src ops m :
  arena_spec_wf a -> root_cap_ok a -> create a (init_rlimit cfgd) = Ok m -> sub_prog ops = true ->
  msg_ok src -> cfg_strict cfgs = true ->
  let st0 := mkBSt (mkW m src (init_rlimit cfgs)) [] in
  dst_run (mkEnv cfgd cfgs ncaps fuel) st0 ops ->
  Forall seg_bound (bstates (mkEnv cfgd cfgs ncaps fuel) st0 ops) ->
  Forall (fun st => exists objs pads, sinv st objs pads /\
            forall q, In q ((0, 0) :: flat_map slots objs) ->
              slot_spec_ok (bm_data (w_dst (st_w st))) objs pads q)
         (bstates (mkEnv cfgd cfgs ncaps fuel) st0 ops).
Proof.
  intros Ha Hr Hc Hp Hms Hcs st0 Hd Hb.
  pose proof (heap_inv_sublang a cfgd cfgs ncaps fuel src ops m Ha Hr Hc Hp Hms Hcs Hd Hb) as H.
  eapply Forall_impl; [|exact H]. intros st (objs & pads & Hs).
  exists objs, pads. split; [exact Hs|]. intros q Hq. destruct Hs as (Hh & _).
  exact (hinv_slot_spec _ _ _ _ Hh Hq).
Qed.

(* data half, structs: byte o of the data section the specification decoder reports for the
   struct at word a of segment sid is byte 8a+o of that segment *)
Lemma spec_struct_data (ms : segs) sid a dw pc o :
  0 <= sid < zlen ms -> 0 <= o < 8 * dw ->
  S.sv_uint ms (S.sv_of_struct sid a dw pc) o 1 = S.byte_at (nth (Z.to_nat sid) ms []) (8 * a + o).
Proof.
  intros Hs Ho. unfold S.sv_uint, S.sv_of_struct. cbn [S.sv_db S.sv_seg S.sv_boff].
  assert (C : (0 <=? o) && (o + 1 <=? 8 * dw) = true) by lia. rewrite C.
  unfold S.seg_or_nil, S.seg_at. unfold zlen, segs, seg in *.
  match goal with |- context [if ?c then None else _] => destruct c eqn:E3 end; [lia|].
  change (Z.to_nat 1) with 1%nat. cbn [S.le_num]. lia.
Qed.

(* data half, lists: element i of a list of w-byte values *)
Lemma spec_list_elem (ms : segs) sid a e n i :
  0 <= sid < zlen ms -> 0 <= i < n -> e <> 7 -> S.esz_bytes e <> 0 ->
  S.l_uint ms (S.TgtList sid a e n 0 0) i (S.esz_bytes e) =
  S.le_num (nth (Z.to_nat sid) ms []) (8 * a + i * S.esz_bytes e) (Z.to_nat (S.esz_bytes e)).
Proof.
  intros Hs Hi He Hw. unfold S.l_uint.
  assert (C : (0 <=? i) && (i <? n) = true) by lia. rewrite C.
  destruct (e =? 7) eqn:E7; [lia|]. rewrite Z.eqb_refl.
  unfold S.seg_or_nil, S.seg_at. unfold zlen, segs, seg in *.
  match goal with |- context [if ?c then None else _] => destruct c eqn:E3 end; [lia|reflexivity].
Qed.

(* ------------------------------------------------------------------ non-vacuity *)
(* one message with a near struct pointer (root), a DOUBLE-FAR pointer (slot 0 of the root struct:
   segment 1 is full), a FAR pointer with a one-word pad to a COMPOSITE list allocated in a new
   segment (slot 1), a null slot and a far pointer inside the composite list's elements.  The
   specification resolver returns, at each of these slots, the converted result of the validator's
   resolver (the conclusion of resolve_ptr_spec), the targets are the objects the program created,
   and the specification decoder's tree of the root is the tree of the written values. *)
Definition tree_ex_prog : list bop :=
  [BNewStruct 0 0 2; BNewStruct 1 8 0; BSetUint 1 0 8 258; BSetPtr 0 0 1;
   BNewComp 2 8 1 2; BSetPtr 0 1 2; BRead InDst (OLStruct 2 1); BNewStruct 2 8 0; BSetUint 4 0 8 77; BSetPtr 3 0 4;
   BSetRoot 0; BDump InDst].
Definition tree_ex_segs : segs :=
  BuildExamples.last_dump (run_build (ArRaw [40; 8; 24]) BuildExamples.ex_cfg BuildExamples.ex_cfg 0 100 [] tree_ex_prog).
Definition tree_ex_slots : list (Z * Z) := [(0, 0); (0, 8); (0, 16); (3, 16); (3, 32)].

Example tree_example :
  sub_prog tree_ex_prog = true /\
  map (fun q => let w := match word_at tree_ex_segs (fst q) (snd q) with Some w => w | None => 0 end in (f_A w, f_B w))
      tree_ex_slots = [(0, 0); (2, 1); (2, 0); (0, 0); (2, 0)] /\
  map (fun q => S.spec_resolve true tree_ex_segs (fst q) (snd q / 8)) tree_ex_slots =
  map (fun q => Some (conv (fst (resolve_ptr tree_ex_segs (fst q) (snd q))))) tree_ex_slots /\
  map (fun q => S.spec_resolve true tree_ex_segs (fst q) (snd q / 8)) tree_ex_slots =
  [Some (S.TgtStruct 0 1 0 2); Some (S.TgtStruct 1 0 1 0); Some (S.TgtList 3 1 7 2 1 1); Some S.TgtNull;
   Some (S.TgtStruct 2 0 1 0)] /\
  S.spec_decode_root true 8 64 64 tree_ex_segs =
  S.TStruct [] [S.TStruct [2; 1; 0; 0; 0; 0; 0; 0] [];
                S.TComp 2 (S.mkSize 8 1) [S.TStruct [0; 0; 0; 0; 0; 0; 0; 0] [S.TNull];
                                          S.TStruct [0; 0; 0; 0; 0; 0; 0; 0] [S.TStruct [77; 0; 0; 0; 0; 0; 0; 0] []]]].
Proof. vm_compute. repeat split; reflexivity. Qed.
