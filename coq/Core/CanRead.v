(* C02, concurrent part: a small-step model of Message.canRead's compare-and-swap loop
   (message.go) for any number of threads sharing one rlimit word.

     for { curr := atomic.Load(&m.rlimit)                 -- step "Load"
           ok := curr >= sz; new := ok ? curr-sz : 0      -- local computation (= Reader.canRead)
           if atomic.CompareAndSwap(&m.rlimit, curr, new) { return ok }   -- step "CAS"
         }                                                 -- failed CAS: retry from Load

   Each thread has a list of request sizes it will issue one after the other (the sizes of the
   objects it dereferences).  The model is executable ([cstep] is a function); the theorems
   are in CanReadProofs.v.  No proofs in this file. *)
From CV Require Export Core.Reader.
Open Scope Z_scope.

Inductive pc := Idle | Loaded (curr : Z).

Record thread := mkTh {
  t_pc : pc;
  t_pending : list Z;            (* sizes of the requests still to be made; head = current *)
  t_done : list (Z * bool)       (* returned requests (size, result), newest first *)
}.

Record cconf := mkCC { c_rlimit : Z; c_threads : list thread }.

Fixpoint upd {A} (n : nat) (x : A) (l : list A) : list A :=
  match l, n with
  | [], _ => []
  | _ :: r, O => x :: r
  | y :: r, S n' => y :: upd n' x r
  end.

(* one atomic step of thread [tid]; None: no such thread or it has no request left *)
Definition cstep (cf : cconf) (tid : nat) : option cconf :=
  match nth_error (c_threads cf) tid with
  | None => None
  | Some th =>
    match t_pending th with
    | [] => None
    | sz :: rest =>
      match t_pc th with
      | Idle => Some (mkCC (c_rlimit cf) (upd tid (mkTh (Loaded (c_rlimit cf)) (sz :: rest) (t_done th)) (c_threads cf)))
      | Loaded curr =>
        let '(ok, new) := canRead curr sz in
        if c_rlimit cf =? curr
        then Some (mkCC new (upd tid (mkTh Idle rest ((sz, ok) :: t_done th)) (c_threads cf)))
        else Some (mkCC (c_rlimit cf) (upd tid (mkTh Idle (sz :: rest) (t_done th)) (c_threads cf)))
      end
    end
  end.

(* a schedule is a list of thread ids; None when it names a thread that cannot step *)
Fixpoint exec (cf : cconf) (sched : list nat) : option cconf :=
  match sched with
  | [] => Some cf
  | tid :: r => match cstep cf tid with Some cf' => exec cf' r | None => None end
  end.

(* every configuration reachable under ANY interleaving *)
Inductive reach (cf0 : cconf) : cconf -> Prop :=
| reach_refl : reach cf0 cf0
| reach_step cf tid cf' : reach cf0 cf -> cstep cf tid = Some cf' -> reach cf0 cf'.

Definition cinit (T0 : Z) (reqs : list (list Z)) : cconf :=
  mkCC T0 (map (fun l => mkTh Idle l []) reqs).

(* observables *)
Definition sumZ {A} (f : A -> Z) (l : list A) : Z := fold_right (fun x s => f x + s) 0 l.
Definition th_granted (th : thread) : Z := sumZ (fun r : Z * bool => if snd r then fst r else 0) (t_done th).
Definition th_refused (th : thread) : Z := sumZ (fun r : Z * bool => if snd r then 0 else 1) (t_done th).
Definition granted (cf : cconf) : Z := sumZ th_granted (c_threads cf).     (* sizes of requests that returned true *)
Definition nrefused (cf : cconf) : Z := sumZ th_refused (c_threads cf).    (* number of requests that returned false *)
Definition npending (cf : cconf) : Z := sumZ (fun th => zlen (t_pending th)) (c_threads cf).
