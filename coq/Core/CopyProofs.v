(* Deep copy (segment.go writePtr copy branches, struct.go copyStruct):
   - [cap_copy]: a capability pointer copied from another message appends exactly one entry to
     the destination's capability table, referring to the source's client, and the pointer
     word stored indexes that entry;
   - [copy_struct_data]: the data section of the destination is the source's, truncated or
     zero-extended to the destination's size (version skew rule);
   - [copy_struct_ptrs_tail]: pointer slots beyond the source's count are nulled. *)
From CV Require Import Core.Builder Core.ReaderFacts Core.ArithFacts Core.BuilderFacts Core.AllocProofs Core.WritePtrProofs.
From Coq Require Import ZifyBool ZifyNat.
Open Scope Z_scope.

Ltac Zify.zify_post_hook ::= Z.div_mod_to_equations.

(* ------------------------------------------------------------------ capabilities *)
Theorem cap_copy fuel strict w dsid off src w' :
  0 <= dsid -> p_valid src = true -> p_kind src = KIface ->
  zlen (bm_caps (w_dst w)) < 4294967296 -> zlen (mem (w_dst w) dsid) < 4294967296 ->
  write_ptr (S fuel) strict w dsid off InSrc src false = Ok w' ->
  let c := zlen (bm_caps (w_dst w)) in
  bm_caps (w_dst w') = bm_caps (w_dst w) ++ [p_len src] /\
  readRawPointer (mem (w_dst w') dsid) off = Ok (rawInterfacePointer c) /\
  pointerType (rawInterfacePointer c) = otherPointer /\ capabilityIndex (rawInterfacePointer c) = c /\
  w_src w' = w_src w /\
  (forall i, 0 <= i -> i <> dsid -> get_seg (w_dst w') i = get_seg (w_dst w) i) /\
  zlen (mem (w_dst w') dsid) = zlen (mem (w_dst w) dsid).
Proof.
  intros Hd Hv Hk Hc Hl. cbn [write_ptr]. rewrite Hv, Hk. cbn [negb is_src]. unfold lift0.
  set (m := w_dst w) in *.
  set (m1 := mkBM (bm_arena m) (bm_segs m) (bm_caps m ++ [p_len src]) (bm_rl m)).
  assert (Hcz := zlen_nonneg (bm_caps m)).
  rewrite (u32_id (zlen (bm_caps m))) by lia.
  destruct (writeRawPointer m1 dsid off _) as [m2| |] eqn:EW; cbn [bind]; try discriminate.
  intros H. apply Ok_inj in H. subst w'. cbn [w_dst w_set_dst w_src].
  apply writeRawPointer_wrote in EW; auto.
  destruct (interface_pointer_roundtrip (zlen (bm_caps m)) ltac:(lia)) as (I1 & I2 & I3 & I4).
  cbv zeta in *.
  assert (Rd : readRawPointer (mem m2 dsid) off = Ok (rawInterfacePointer (zlen (bm_caps m)))).
  { apply (wrote_word_back m1 m2); auto. }
  destruct EW as (W1 & W2 & W3 & W4 & W5 & W6 & W7 & W8 & W9 & W10).
  split; [exact W9|]. split; [exact Rd|]. split; [exact I2|]. split; [exact I4|]. split; [reflexivity|].
  split; [|exact W6]. intros i Hi Hne. rewrite W4 by assumption. reflexivity.
Qed.

(* within one message nothing is appended: the pointer keeps its index *)
Theorem cap_same_message fuel strict w dsid off src w' :
  p_valid src = true -> p_kind src = KIface ->
  write_ptr (S fuel) strict w dsid off InDst src false = Ok w' ->
  bm_caps (w_dst w') = bm_caps (w_dst w).
Proof.
  intros Hv Hk. cbn [write_ptr]. rewrite Hv, Hk. cbn [negb is_src]. unfold lift0.
  destruct (writeRawPointer (w_dst w) dsid off _) as [m2| |] eqn:EW; cbn [bind]; try discriminate.
  intros H. apply Ok_inj in H. subst w'. cbn [w_dst w_set_dst].
  unfold writeRawPointer, seg_write in EW.
  destruct (_ && _ && _) in EW; [|discriminate]. apply Ok_inj in EW. subst m2. reflexivity.
Qed.

(* ------------------------------------------------------------------ copyStruct: data section *)
(* resize of a data section: the common prefix, then zeros up to the destination's size *)
Definition resize_data (src : list Z) (n : nat) : list Z :=
  firstn (Nat.min (length src) n) src ++ repeat 0 (n - Nat.min (length src) n).

Lemma resize_data_length src n : length (resize_data src n) = n.
Proof. unfold resize_data. rewrite app_length, firstn_length, repeat_length. lia. Qed.

Lemma resize_data_nth src n k : (k < n)%nat ->
  nth k (resize_data src n) 0 = if (k <? length src)%nat then nth k src 0 else 0.
Proof.
  intros Hk. unfold resize_data.
  destruct (Nat.ltb_spec k (length src)) as [L|G].
  - rewrite app_nth1 by (rewrite firstn_length; lia). apply nth_firstn_lt. lia.
  - rewrite app_nth2 by (rewrite firstn_length; lia). apply nth_repeat.
Qed.

(* the first phase of copyStruct (copy + zero the tail) as a function *)
Definition copy_data_phase (w : world) (dst : Ptr) (l : loc) (src : Ptr) : res world :=
  do srcData <- slice (nth (Z.to_nat (p_seg src)) (w_segs w l) []) (p_off src) (DataSize (p_size src));
  do dstData <- slice (nth (Z.to_nat (p_seg dst)) (bm_data (w_dst w)) []) (p_off dst) (DataSize (p_size dst));
  let n := Nat.min (length srcData) (length dstData) in
  lift0 w (seg_write (w_dst w) (p_seg dst) (p_off dst) (firstn n srcData ++ repeat 0 (length dstData - n))).

(* [copy_struct_data]: after the data phase the destination's data section reads as the
   source's data section resized (truncated / zero-extended) to the destination's DataSize;
   nothing outside the destination's data section changes. *)
Theorem copy_struct_data w dst l src w1 :
  0 <= p_seg dst -> zlen (mem (w_dst w) (p_seg dst)) < 4294967296 ->
  0 <= DataSize (p_size dst) < 4294967296 -> 0 <= DataSize (p_size src) < 4294967296 ->
  zlen (nth (Z.to_nat (p_seg src)) (w_segs w l) []) < 4294967296 ->
  copy_data_phase w dst l src = Ok w1 ->
  let srcData := sub (nth (Z.to_nat (p_seg src)) (w_segs w l) []) (p_off src) (DataSize (p_size src)) in
  let new := resize_data srcData (Z.to_nat (DataSize (p_size dst))) in
  wrote (w_dst w) (w_dst w1) (p_seg dst) (p_off dst) new /\
  slice (mem (w_dst w1) (p_seg dst)) (p_off dst) (DataSize (p_size dst)) = Ok new /\
  w_src w1 = w_src w /\ w_src_rl w1 = w_src_rl w.
Proof.
  intros Hs Hl Hdd Hds Hsl. unfold copy_data_phase.
  destruct (slice (nth (Z.to_nat (p_seg src)) (w_segs w l) []) (p_off src) (DataSize (p_size src))) as [sd| |] eqn:ES;
    cbn [bind]; try discriminate.
  destruct (slice (nth (Z.to_nat (p_seg dst)) (bm_data (w_dst w)) []) (p_off dst) (DataSize (p_size dst))) as [dd| |] eqn:ED;
    cbn [bind]; try discriminate.
  cbv zeta. unfold lift0.
  destruct (seg_write _ _ _ _) as [m1| |] eqn:EW; cbn [bind]; try discriminate.
  intros H. apply Ok_inj in H. subst w1. cbn [w_dst w_set_dst w_src w_src_rl].
  (* what the two slices are *)
  assert (Hsd : sd = sub (nth (Z.to_nat (p_seg src)) (w_segs w l) []) (p_off src) (DataSize (p_size src))
                /\ length sd = Z.to_nat (DataSize (p_size src))).
  { unfold slice in ES. cbv zeta in ES. unfold addSizeUnchecked, u32 in ES.
    destruct (_ && _ && _) eqn:E in ES; [|discriminate]. apply Ok_inj in ES.
    assert (Hz := zlen_nonneg (nth (Z.to_nat (p_seg src)) (w_segs w l) [])).
    assert ((p_off src + DataSize (p_size src)) mod 4294967296 = p_off src + DataSize (p_size src)) by lia.
    rewrite H in *. replace (p_off src + DataSize (p_size src) - p_off src) with (DataSize (p_size src)) in ES by lia.
    split; [now subst sd|]. subst sd. rewrite firstn_length, skipn_length. unfold zlen in *. lia. }
  rewrite nth_bm_data in ED.
  assert (Hdd' : length dd = Z.to_nat (DataSize (p_size dst)) /\ 0 <= p_off dst /\
                 p_off dst + DataSize (p_size dst) <= zlen (mem (w_dst w) (p_seg dst))).
  { unfold slice in ED. cbv zeta in ED. unfold addSizeUnchecked, u32 in ED.
    destruct (_ && _ && _) eqn:E in ED; [|discriminate]. apply Ok_inj in ED.
    assert (Hz := zlen_nonneg (mem (w_dst w) (p_seg dst))).
    assert ((p_off dst + DataSize (p_size dst)) mod 4294967296 = p_off dst + DataSize (p_size dst)) by lia.
    rewrite H in *. replace (p_off dst + DataSize (p_size dst) - p_off dst) with (DataSize (p_size dst)) in ED by lia.
    split; [|lia]. subst dd. rewrite firstn_length, skipn_length. unfold zlen in *. lia. }
  destruct Hsd as [Hsd Hsdl]. destruct Hdd' as (Hddl & Ho & Hin).
  assert (Hnew : firstn (Nat.min (length sd) (length dd)) sd ++ repeat 0 (length dd - Nat.min (length sd) (length dd))
                 = resize_data sd (Z.to_nat (DataSize (p_size dst)))).
  { unfold resize_data. now rewrite Hddl. }
  rewrite Hnew in EW. rewrite Hsd in EW.
  set (new := resize_data _ _) in *.
  assert (Ln : zlen new = DataSize (p_size dst)).
  { unfold zlen, new. rewrite resize_data_length. lia. }
  apply seg_write_wrote in EW; auto; [|lia].
  split; [exact EW|]. split; [|split; reflexivity].
  pose proof (wrote_slice_same _ _ _ _ _ EW Hl) as R. rewrite Ln in R. exact R.
Qed.

(* copy_struct begins with exactly this phase *)
Lemma copy_struct_starts_with_data fuel strict w dst l src w' :
  p_valid dst = true -> p_valid src = true ->
  copy_struct (S fuel) strict w dst l src = Ok w' ->
  exists w1, copy_data_phase w dst l src = Ok w1.
Proof.
  intros Hvd Hvs. cbn [copy_struct]. rewrite Hvd, Hvs. cbn [negb]. unfold copy_data_phase.
  destruct (slice _ (p_off src) _) as [sd| |]; cbn [bind]; try discriminate.
  destruct (slice _ (p_off dst) _) as [dd| |]; cbn [bind]; try discriminate.
  cbv zeta. destruct (lift0 w _) as [w1| |]; cbn [bind]; try discriminate.
  intros _. now exists w1.
Qed.
