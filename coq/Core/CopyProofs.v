(* Deep copy (segment.go writePtr copy branches, struct.go copyStruct):
   - [cap_copy]: a capability pointer copied from another message appends exactly one entry to
     the destination's capability table, referring to the source's client, and the pointer
     word stored indexes that entry;
   - [copy_struct_data]: the data section of the destination is the source's, truncated or
     zero-extended to the destination's size (version skew rule);
   - [copy_struct_ptrs_tail]: pointer slots beyond the source's count are nulled. *)
From CV Require Import Core.Builder Core.ReaderFacts Core.ArithFacts Core.BuilderFacts Core.AllocProofs Core.WritePtrProofs Core.HeapProofs.
From Coq Require Import ZifyBool ZifyNat.
Open Scope Z_scope.

Ltac Zify.zify_post_hook ::= Z.div_mod_to_equations.

(* ------------------------------------------------------------------ capabilities *)
Theorem cap_copy fuel strict w dsid off src w' :
  0 <= dsid -> p_valid src = true -> p_kind src = KIface ->
  zlen (bm_caps (w_dst w)) < 4294967296 -> zlen (mem (w_dst w) dsid) < 4294967296 ->
  write_ptr (S fuel) strict w dsid off InSrc src false = Ok w' ->
  let c := zlen (bm_caps (w_dst w)) in
  bm_caps (w_dst w') = bm_caps (w_dst w) ++ [p_len src] /\
  readRawPointer (mem (w_dst w') dsid) off = Ok (rawInterfacePointer c) /\
  pointerType (rawInterfacePointer c) = otherPointer /\ capabilityIndex (rawInterfacePointer c) = c /\
  w_src w' = w_src w /\
  (forall i, 0 <= i -> i <> dsid -> get_seg (w_dst w') i = get_seg (w_dst w) i) /\
  zlen (mem (w_dst w') dsid) = zlen (mem (w_dst w) dsid).
Proof.
  intros Hd Hv Hk Hc Hl. unfold write_ptr. cbn [write_ptr_gen]. rewrite Hv, Hk. cbn [negb is_src]. unfold lift0.
  set (m := w_dst w) in *.
  set (m1 := mkBM (bm_arena m) (bm_segs m) (bm_caps m ++ [p_len src]) (bm_rl m)).
  assert (Hcz := zlen_nonneg (bm_caps m)).
  rewrite (u32_id (zlen (bm_caps m))) by lia.
  destruct (writeRawPointer m1 dsid off _) as [m2| |] eqn:EW; cbn [bind]; try discriminate.
  intros H. apply Ok_inj in H. subst w'. cbn [w_dst w_set_dst w_src].
  apply writeRawPointer_wrote in EW; auto.
  destruct (interface_pointer_roundtrip (zlen (bm_caps m)) ltac:(lia)) as (I1 & I2 & I3 & I4).
  cbv zeta in *.
  assert (Rd : readRawPointer (mem m2 dsid) off = Ok (rawInterfacePointer (zlen (bm_caps m)))).
  { apply (wrote_word_back m1 m2); auto. }
  destruct EW as (W1 & W2 & W3 & W4 & W5 & W6 & W7 & W8 & W9 & W10).
  split; [exact W9|]. split; [exact Rd|]. split; [exact I2|]. split; [exact I4|]. split; [reflexivity|].
  split; [|exact W6]. intros i Hi Hne. rewrite W4 by assumption. reflexivity.
Qed.

(* within one message nothing is appended: the pointer keeps its index *)
Theorem cap_same_message fuel strict w dsid off src w' :
  p_valid src = true -> p_kind src = KIface ->
  write_ptr (S fuel) strict w dsid off InDst src false = Ok w' ->
  bm_caps (w_dst w') = bm_caps (w_dst w).
Proof.
  intros Hv Hk. unfold write_ptr. cbn [write_ptr_gen]. rewrite Hv, Hk. cbn [negb is_src]. unfold lift0.
  destruct (writeRawPointer (w_dst w) dsid off _) as [m2| |] eqn:EW; cbn [bind]; try discriminate.
  intros H. apply Ok_inj in H. subst w'. cbn [w_dst w_set_dst].
  unfold writeRawPointer, seg_write in EW.
  destruct (_ && _ && _) in EW; [|discriminate]. apply Ok_inj in EW. subst m2. reflexivity.
Qed.

(* ------------------------------------------------------------------ copyStruct: data section *)
(* resize of a data section: the common prefix, then zeros up to the destination's size *)
Definition resize_data (src : list Z) (n : nat) : list Z :=
  firstn (Nat.min (length src) n) src ++ repeat 0 (n - Nat.min (length src) n).

Lemma resize_data_length src n : length (resize_data src n) = n.
Proof. unfold resize_data. rewrite app_length, firstn_length, repeat_length. lia. Qed.

Lemma resize_data_nth src n k : (k < n)%nat ->
  nth k (resize_data src n) 0 = if (k <? length src)%nat then nth k src 0 else 0.
Proof.
  intros Hk. unfold resize_data.
  destruct (Nat.ltb_spec k (length src)) as [L|G].
  - rewrite app_nth1 by (rewrite firstn_length; lia). apply nth_firstn_lt. lia.
  - rewrite app_nth2 by (rewrite firstn_length; lia). apply nth_repeat.
Qed.

(* the first phase of copyStruct (copy + zero the tail) as a function *)
Definition copy_data_phase (w : world) (dst : Ptr) (l : loc) (src : Ptr) : res world :=
  do srcData <- slice (nth (Z.to_nat (p_seg src)) (w_segs w l) []) (p_off src) (DataSize (p_size src));
  do dstData <- slice (nth (Z.to_nat (p_seg dst)) (bm_data (w_dst w)) []) (p_off dst) (DataSize (p_size dst));
  let n := Nat.min (length srcData) (length dstData) in
  lift0 w (seg_write (w_dst w) (p_seg dst) (p_off dst) (firstn n srcData ++ repeat 0 (length dstData - n))).

(* [copy_struct_data]: after the data phase the destination's data section reads as the
   source's data section resized (truncated / zero-extended) to the destination's DataSize;
   nothing outside the destination's data section changes. *)
Theorem copy_struct_data w dst l src w1 :
  0 <= p_seg dst -> zlen (mem (w_dst w) (p_seg dst)) < 4294967296 ->
  0 <= DataSize (p_size dst) < 4294967296 -> 0 <= DataSize (p_size src) < 4294967296 ->
  zlen (nth (Z.to_nat (p_seg src)) (w_segs w l) []) < 4294967296 ->
  copy_data_phase w dst l src = Ok w1 ->
  let srcData := sub (nth (Z.to_nat (p_seg src)) (w_segs w l) []) (p_off src) (DataSize (p_size src)) in
  let new := resize_data srcData (Z.to_nat (DataSize (p_size dst))) in
  wrote (w_dst w) (w_dst w1) (p_seg dst) (p_off dst) new /\
  slice (mem (w_dst w1) (p_seg dst)) (p_off dst) (DataSize (p_size dst)) = Ok new /\
  w_src w1 = w_src w /\ w_src_rl w1 = w_src_rl w.
Proof.
  intros Hs Hl Hdd Hds Hsl. unfold copy_data_phase.
  destruct (slice (nth (Z.to_nat (p_seg src)) (w_segs w l) []) (p_off src) (DataSize (p_size src))) as [sd| |] eqn:ES;
    cbn [bind]; try discriminate.
  destruct (slice (nth (Z.to_nat (p_seg dst)) (bm_data (w_dst w)) []) (p_off dst) (DataSize (p_size dst))) as [dd| |] eqn:ED;
    cbn [bind]; try discriminate.
  cbv zeta. unfold lift0.
  destruct (seg_write _ _ _ _) as [m1| |] eqn:EW; cbn [bind]; try discriminate.
  intros H. apply Ok_inj in H. subst w1. cbn [w_dst w_set_dst w_src w_src_rl].
  (* what the two slices are *)
  assert (Hsd : sd = sub (nth (Z.to_nat (p_seg src)) (w_segs w l) []) (p_off src) (DataSize (p_size src))
                /\ length sd = Z.to_nat (DataSize (p_size src))).
  { unfold slice in ES. cbv zeta in ES. unfold addSizeUnchecked, u32 in ES.
    destruct (_ && _ && _) eqn:E in ES; [|discriminate]. apply Ok_inj in ES.
    assert (Hz := zlen_nonneg (nth (Z.to_nat (p_seg src)) (w_segs w l) [])).
    assert ((p_off src + DataSize (p_size src)) mod 4294967296 = p_off src + DataSize (p_size src)) by lia.
    rewrite H in *. replace (p_off src + DataSize (p_size src) - p_off src) with (DataSize (p_size src)) in ES by lia.
    split; [now subst sd|]. subst sd. rewrite firstn_length, skipn_length. unfold zlen in *. lia. }
  rewrite nth_bm_data in ED.
  assert (Hdd' : length dd = Z.to_nat (DataSize (p_size dst)) /\ 0 <= p_off dst /\
                 p_off dst + DataSize (p_size dst) <= zlen (mem (w_dst w) (p_seg dst))).
  { unfold slice in ED. cbv zeta in ED. unfold addSizeUnchecked, u32 in ED.
    destruct (_ && _ && _) eqn:E in ED; [|discriminate]. apply Ok_inj in ED.
    assert (Hz := zlen_nonneg (mem (w_dst w) (p_seg dst))).
    assert ((p_off dst + DataSize (p_size dst)) mod 4294967296 = p_off dst + DataSize (p_size dst)) by lia.
    rewrite H in *. replace (p_off dst + DataSize (p_size dst) - p_off dst) with (DataSize (p_size dst)) in ED by lia.
    split; [|lia]. subst dd. rewrite firstn_length, skipn_length. unfold zlen in *. lia. }
  destruct Hsd as [Hsd Hsdl]. destruct Hdd' as (Hddl & Ho & Hin).
  assert (Hnew : firstn (Nat.min (length sd) (length dd)) sd ++ repeat 0 (length dd - Nat.min (length sd) (length dd))
                 = resize_data sd (Z.to_nat (DataSize (p_size dst)))).
  { unfold resize_data. now rewrite Hddl. }
  rewrite Hnew in EW. rewrite Hsd in EW.
  set (new := resize_data _ _) in *.
  assert (Ln : zlen new = DataSize (p_size dst)).
  { unfold zlen, new. rewrite resize_data_length. lia. }
  apply seg_write_wrote in EW; auto; [|lia].
  split; [exact EW|]. split; [|split; reflexivity].
  pose proof (wrote_slice_same _ _ _ _ _ EW Hl) as R. rewrite Ln in R. exact R.
Qed.

(* copy_struct begins with exactly this phase *)
Lemma copy_struct_starts_with_data fuel strict w dst l src w' :
  p_valid dst = true -> p_valid src = true ->
  copy_struct (S fuel) strict w dst l src = Ok w' ->
  exists w1, copy_data_phase w dst l src = Ok w1.
Proof.
  intros Hvd Hvs. unfold copy_struct. cbn [copy_struct_gen]. rewrite Hvd, Hvs. cbn [negb]. unfold copy_data_phase.
  destruct (slice _ (p_off src) _) as [sd| |]; cbn [bind]; try discriminate.
  destruct (slice _ (p_off dst) _) as [dd| |]; cbn [bind]; try discriminate.
  cbv zeta. destruct (lift0 w _) as [w1| |]; cbn [bind]; try discriminate.
  intros _. now exists w1.
Qed.

(* ------------------------------------------------------------------ copyStruct: the whole struct *)
(* slice without a bound on the segment length *)
Lemma slice_in_range s base n :
  0 <= base -> 0 <= n -> base + n <= zlen s -> base + n < 4294967296 -> slice s base n = Ok (sub s base n).
Proof.
  intros Hb Hn He Hl. unfold slice, addSizeUnchecked, sub. cbv zeta.
  rewrite (u32_id (base + n)) by lia.
  destruct (0 <=? base) eqn:E1; [|lia]. destruct (base <=? base + n) eqn:E2; [|lia].
  destruct (base + n <=? zlen s) eqn:E3; [|lia].
  cbn [andb]. replace (base + n - base) with n by lia. reflexivity.
Qed.

Lemma keeps_sub m m' R i base n :
  keeps m m' R -> 0 <= i -> 0 <= base -> 0 <= n -> base + n <= zlen (mem m i) ->
  (forall k, base <= k < base + n -> ~ R i k) ->
  sub (mem m' i) base n = sub (mem m i) base n.
Proof.
  intros [K1 K2] Hi Hb Hn Hin HR. specialize (K1 i Hi). unfold sub.
  apply nth_ext with (d := 0) (d' := 0).
  - rewrite !firstn_length, !skipn_length. unfold zlen in *. lia.
  - intros k Hk. rewrite firstn_length, skipn_length in Hk. unfold zlen in *.
    rewrite !nth_firstn_lt by lia. rewrite !nth_skipn_add.
    replace (Z.to_nat base + k)%nat with (Z.to_nat (base + Z.of_nat k)) by lia.
    apply K2; auto; try lia. apply HR. lia.
Qed.

Lemma keeps_slice' m m' R i base n :
  keeps m m' R -> 0 <= i -> 0 <= base -> 0 <= n -> base + n <= zlen (mem m i) -> base + n < 4294967296 ->
  (forall k, base <= k < base + n -> ~ R i k) ->
  slice (mem m' i) base n = slice (mem m i) base n.
Proof.
  intros K Hi Hb Hn Hin Hl HR. pose proof (proj1 K i Hi).
  rewrite !slice_in_range by lia. f_equal. eapply keeps_sub; eauto.
Qed.

Lemma wrote_sub_same m m' sid addr bs :
  wrote m m' sid addr bs -> sub (mem m' sid) addr (zlen bs) = bs.
Proof. intros (W1 & W2 & W3 & _). rewrite W3. apply sub_write_same; lia. Qed.

(* pointerAddress of a struct that lies inside an addressable segment *)
Lemma pointerAddress_eq p j :
  0 <= p_off p -> 0 <= DataSize (p_size p) -> 0 <= j ->
  p_off p + DataSize (p_size p) + 8 * j <= maxSegmentSize ->
  pointerAddress p j = p_off p + DataSize (p_size p) + 8 * j.
Proof.
  intros H1 H2 H3 H4. unfold pointerAddress, addSize, element. cbv zeta.
  destruct (p_off p + DataSize (p_size p) >? maxSegmentSize) eqn:E1; [lia|].
  destruct ((p_off p + DataSize (p_size p) + j * 8 >? maxSegmentSize) || (p_off p + DataSize (p_size p) + j * 8 <? 0)) eqn:E2; lia.
Qed.

(* fold with the list of processed elements *)
Lemma fold_res_inv2 {A} (P : list Z -> A -> Prop) (f : A -> Z -> res A) l : forall done a a',
  (forall dn x b b', P dn b -> In x l -> f b x = Ok b' -> P (dn ++ [x]) b') ->
  P done a -> fold_res l a f = Ok a' -> P (done ++ l) a'.
Proof.
  induction l as [|x l IH]; intros done a a' Hf Ha H; cbn [fold_res] in H.
  - apply Ok_inj in H. subst. now rewrite app_nil_r.
  - destruct (f a x) as [b| |] eqn:E; cbn [bind] in H; try discriminate.
    replace (done ++ x :: l) with ((done ++ [x]) ++ l) by (rewrite <- app_assoc; reflexivity).
    eapply IH; [|eapply Hf; [exact Ha|left; reflexivity|exact E]|exact H].
    intros dn y c c' Hc Hy. apply Hf; auto. now right.
Qed.

(* the exact footprint of a struct: its data section and its pointer slots *)
Definition Rexact (p : Ptr) : Z -> Z -> Prop := fun i k =>
  i = p_seg p /\
  (p_off p <= k < p_off p + DataSize (p_size p) \/
   exists j, 0 <= j < PointerCount (p_size p) /\ pointerAddress p j <= k < pointerAddress p j + 8).

(* [copy_struct_ptrs]: copyStruct as a whole, for every source, arena and capacity.
   (1) exact frame: among the bytes that existed, only the destination's data section and its
       own pointer slots can change - in particular nothing is written for source pointers beyond
       the destination's count (they are dropped) - and the source message is unchanged;
   (2) every destination slot beyond the source's pointer count is null afterwards;
   (3) the data section afterwards is the source's, truncated / zero-extended. *)
Theorem copy_struct_ptrs fuel strict w dst l src w' :
  inv (w_dst w) -> 0 <= p_seg dst < nsegs (w_dst w) -> wf_size (p_size dst) -> sz_ok src ->
  p_valid dst = true -> p_valid src = true ->
  0 <= p_off dst ->
  p_off dst + DataSize (p_size dst) + 8 * PointerCount (p_size dst) <= zlen (mem (w_dst w) (p_seg dst)) ->
  zlen (mem (w_dst w) (p_seg dst)) <= maxSegmentSize ->
  zlen (nth (Z.to_nat (p_seg src)) (w_segs w l) []) < 4294967296 ->
  copy_struct (S fuel) strict w dst l src = Ok w' ->
  let seg := p_seg dst in
  let srcData := sub (nth (Z.to_nat (p_seg src)) (w_segs w l) []) (p_off src) (DataSize (p_size src)) in
  keeps (w_dst w) (w_dst w') (Rexact dst) /\ inv (w_dst w') /\ w_src w' = w_src w /\
  (forall j, PointerCount (p_size src) <= j < PointerCount (p_size dst) ->
     readRawPointer (mem (w_dst w') seg) (pointerAddress dst j) = Ok 0) /\
  slice (mem (w_dst w') seg) (p_off dst) (DataSize (p_size dst)) =
    Ok (resize_data srcData (Z.to_nat (DataSize (p_size dst)))).
Proof.
  intros Hinv Hd Hds Hsz Hvd Hvs Ho Hin Hmax Hsl. cbv zeta.
  specialize (Hsz Hvs).
  set (m := w_dst w) in *. set (seg := p_seg dst) in *.
  set (dsz := DataSize (p_size dst)) in *. set (nd := PointerCount (p_size dst)) in *.
  set (ns := PointerCount (p_size src)) in *.
  destruct Hds as [[Hd1 Hd2] [Hp1 Hp2]]. fold dsz in Hd1, Hd2. fold nd in Hp1, Hp2.
  assert (Hns : 0 <= ns) by (destruct Hsz as [_ [X _]]; exact X).
  unfold maxSegmentSize in Hmax.
  assert (PA : forall j, 0 <= j < nd -> pointerAddress dst j = p_off dst + dsz + 8 * j).
  { intros j Hj. apply pointerAddress_eq; auto; unfold maxSegmentSize; fold dsz; lia. }
  intros H.
  (* the data phase, as in copy_struct_data *)
  destruct (copy_struct_starts_with_data _ _ _ _ _ _ _ Hvd Hvs H) as [w1 E1].
  assert (Hsd : 0 <= DataSize (p_size src) < 4294967296) by (destruct Hsz as [[X Y] _]; lia).
  destruct (copy_struct_data w dst l src w1 ltac:(lia) ltac:(fold m seg; lia) ltac:(fold dsz; lia) Hsd Hsl E1)
    as (W1 & S1 & Src1 & _).
  cbv zeta in W1, S1. fold m seg dsz in W1, S1.
  set (new := resize_data _ (Z.to_nat dsz)) in *.
  assert (Ln : zlen new = dsz) by (unfold zlen, new; rewrite resize_data_length; lia).
  (* unfold copy_struct along the same path *)
  unfold copy_struct in H. cbn [copy_struct_gen] in H. rewrite Hvd, Hvs in H. cbn [negb] in H.
  unfold copy_data_phase in E1.
  destruct (slice _ (p_off src) _) as [sd| |]; cbn [bind] in H, E1; try discriminate.
  destruct (slice _ (p_off dst) _) as [dd| |]; cbn [bind] in H, E1; try discriminate.
  cbv zeta in E1. rewrite E1 in H. cbn [bind] in H.
  match type of H with bind ?X _ = _ => destruct X as [w2| |] eqn:E2; cbn [bind] in H; try discriminate end.
  destruct (frame_all true fuel) as [Pwp _].
  (* state invariant shared by both loops *)
  set (I := fun wa : world =>
              G m (w_src w) wa (Rexact dst) /\
              sub (mem (w_dst wa) seg) (p_off dst) dsz = new).
  assert (I1 : I w1).
  { split.
    - pose proof (wrote_inv _ _ _ _ _ W1 ltac:(lia) Hinv) as Iv. pose proof (wrote_keeps _ _ _ _ _ W1 ltac:(lia)) as K.
      destruct W1 as (_ & _ & _ & _ & _ & _ & W7 & _).
      unfold G. split; [|split; [exact Iv|split; [unfold nsegs; lia|exact Src1]]].
      eapply keeps_weaken; [|exact K]. intros i k _ _ [-> X]. split; auto. left. lia.
    - rewrite <- Ln. apply (wrote_sub_same m). exact W1. }
  (* one pointer-word step keeps the invariant *)
  assert (Step : forall wa wb j, 0 <= j < nd -> I wa ->
            G (w_dst wa) (w_src wa) wb (Rword seg (pointerAddress dst j)) -> I wb).
  { intros wa wb j Hj [GA SA] GS. split.
    - eapply G_step; [exact GA|exact GS|]. intros i k _ _ [-> X]. split; auto. right. exists j. split; [lia|exact X].
    - rewrite <- SA. destruct GA as (KA & _). destruct GS as (KS & _).
      eapply keeps_sub; [exact KS|lia|lia|lia| |].
      + pose proof (proj1 KA seg ltac:(lia)). fold m in H0. lia.
      + intros k Hk [_ X]. rewrite PA in X by lia. lia. }
  assert (I2 : I w2).
  { revert E2. apply fold_res_inv with (P := I); [|exact I1].
    intros j wa wb Hj IA Hstep. apply in_iota in Hj.
    destruct (readPtr strict (w_segs wa l) (w_rl wa l) (p_seg src) _ (pointerAddress src j) (p_depth src)) as [r rl'] eqn:ER.
    destruct r as [q| |]; cbn [bind] in Hstep; try discriminate.
    pose proof (readPtr_size_wf _ _ _ _ _ _ _ _ _ ER) as Hq.
    destruct (w_set_rl_dst wa l rl') as (T1 & T2 & T3).
    assert (IA2 : I (w_set_rl wa l rl')).
    { destruct IA as [GA SA]. split; [eapply G_same_segs; eauto|].
      unfold mem, get_seg in *. rewrite T1. exact SA. }
    apply (Step (w_set_rl wa l rl') wb j); [lia|exact IA2|].
    apply (Pwp strict _ seg (pointerAddress dst j) l q true wb); auto.
    - apply IA2.
    - destruct IA2 as [(_ & _ & NA & _) _]. fold m in Hd. lia.
    - intros X. cbn in X. discriminate. }
  (* the null tail: processed slots are null *)
  set (J := fun (dn : list Z) (wa : world) =>
              I wa /\ forall j, In j dn -> ns <= j < nd /\
                                 readRawPointer (mem (w_dst wa) seg) (pointerAddress dst j) = Ok 0).
  assert (JF : J ([] ++ map (fun k => ns + k) (iota (Z.to_nat (nd - ns)))) w').
  { revert H. apply fold_res_inv2 with (P := J).
    - intros dn x wa wb [IA ZA] Hx Hstep.
      apply in_map_iff in Hx. destruct Hx as (k0 & <- & Hk0). apply in_iota in Hk0.
      unfold lift0 in Hstep. fold seg in Hstep.
      destruct (writeRawPointer (w_dst wa) seg _ 0) as [mb| |] eqn:EWB; cbn [bind] in Hstep; try discriminate.
      apply Ok_inj in Hstep. subst wb.
      assert (GW := G_write wa seg _ 0 mb ltac:(apply IA) ltac:(lia) EWB).
      assert (IB : I (w_set_dst wa mb)) by (apply (Step wa _ (ns + k0)); auto; lia).
      split; [exact IB|]. intros j Hj. cbn [w_dst w_set_dst].
      apply writeRawPointer_wrote in EWB; [|lia].
      assert (Hjr : ns <= j < nd).
      { apply in_app_or in Hj. destruct Hj as [Hj|[<-|[]]]; [apply (ZA j Hj)|lia]. }
      split; [exact Hjr|].
      rewrite (PA j) by lia. rewrite (PA (ns + k0)) in EWB by lia.
      destruct (Z.eq_dec j (ns + k0)) as [->|Ne].
      + pose proof (wrote_sub_same _ _ _ _ _ EWB) as SB. change (zlen (le_encode 8 0)) with 8 in SB.
        destruct EWB as (X1 & X2 & _ & _ & _ & X6 & _). change (zlen (le_encode 8 0)) with 8 in X2.
        unfold readRawPointer, readUintN. rewrite slice_in_range by lia. rewrite SB. reflexivity.
      + apply in_app_or in Hj. destruct Hj as [Hj|[Hj|[]]]; [|lia].
        destruct (ZA j Hj) as [_ Z0]. rewrite (PA j) in Z0 by lia. rewrite <- Z0.
        unfold readRawPointer. eapply wrote_readUintN_other; [exact EWB|lia|lia|].
        right. change (zlen (le_encode 8 0)) with 8. lia.
    - split; [exact I2|]. intros j []. }
  destruct JF as [[GF SF] ZF]. cbn [app] in ZF.
  destruct GF as (KF & IF & _ & SrcF).
  split; [exact KF|]. split; [exact IF|]. split; [exact SrcF|]. split.
  - intros j Hj. apply ZF. apply in_map_iff. exists (j - ns). split; [lia|].
    change (iota (Z.to_nat (nd - ns))) with (zrange (Z.to_nat (nd - ns))). apply in_zrange. lia.
  - pose proof (proj1 KF seg ltac:(lia)) as LF. fold m in LF.
    rewrite slice_in_range by lia. rewrite SF. reflexivity.
Qed.
