(* An invariant of the op-list interpreter (BuildOps.brun): for every arena configuration and
   every well-formed op list, every state reached has a well-formed destination message
   (all segments whole words, len <= cap, single-segment arenas have their one segment) and a
   handle pool whose valid handles have encodable sizes and - for handles into the message
   being built - existing segments and addressable offsets.  This is the skeleton of C05's
   heap_inv over op lists (its allocation / segment-level part); see docs/C05.md for what the
   full invariant still needs. *)
From CV Require Import Core.Builder Core.ReaderFacts Core.ArithFacts Core.BuilderFacts Core.AllocProofs
  Core.WritePtrProofs Core.HeapProofs Core.BuildOps Core.BuildValid.
From Coq Require Import ZifyBool ZifyNat.
Open Scope Z_scope.

Ltac Zify.zify_post_hook ::= Z.div_mod_to_equations.

(* ------------------------------------------------------------------ what the reader returns *)
Definition pick_ok (m : segs) (sid : Z) (d : Z) (r : res seg) : Prop :=
  forall dst, r = Ok dst -> 0 <= d < zlen m.

Lemma pick_range m sid s d dst :
  0 <= sid < zlen m -> (if d =? sid then Ok s else lookup_segment m d) = Ok dst -> 0 <= d < zlen m.
Proof.
  intros Hs. destruct (d =? sid) eqn:E; [intros _; lia|].
  intros H. apply lookup_segment_spec in H. lia.
Qed.

Lemma resolve_seg_range strict m sid s paddr d dst base val :
  0 <= sid < zlen m -> resolveFarPointer strict m sid s paddr = Ok (d, dst, base, val) -> 0 <= d < zlen m.
Proof.
  intros Hs. unfold resolveFarPointer.
  destruct (readRawPointer s paddr) as [v| |]; cbn [bind]; try discriminate. cbv zeta.
  destruct (pointerType v =? doubleFarPointer).
  - destruct (if farSegment v =? sid then Ok s else lookup_segment m (farSegment v)) as [ps| |]; cbn [bind]; try discriminate.
    destruct (negb _); [discriminate|].
    destruct (readRawPointer ps (farAddress v)) as [far| |]; cbn [bind]; try discriminate.
    destruct (negb _); [discriminate|].
    destruct (addSize (farAddress v) 8); [|discriminate].
    destruct (readRawPointer ps z) as [tag| |]; cbn [bind]; try discriminate.
    destruct (_ || _); [discriminate|].
    destruct (if farSegment far =? sid then Ok s else lookup_segment m (farSegment far)) as [ds| |] eqn:EP; cbn [bind]; try discriminate.
    apply pick_range in EP; auto.
    destruct (strict && _).
    + destruct (rawStructPointer (-1) (mkOS 0 0)); [|discriminate]. intros H. apply Ok_inj in H. injection H as <- _ _ _. exact EP.
    + intros H. apply Ok_inj in H. injection H as <- _ _ _. exact EP.
  - destruct (pointerType v =? farPointer).
    + destruct (if farSegment v =? sid then Ok s else lookup_segment m (farSegment v)) as [ds| |] eqn:EP; cbn [bind]; try discriminate.
      apply pick_range in EP; auto.
      destruct (negb _); [discriminate|]. destruct (addSize (farAddress v) 8); [|discriminate].
      destruct (readRawPointer ds (farAddress v)) as [x| |]; cbn [bind]; try discriminate.
      intros H. apply Ok_inj in H. injection H as <- _ _ _. exact EP.
    + destruct (addSize paddr 8); [|discriminate]. intros H. apply Ok_inj in H. injection H as <- _ _ _. exact Hs.
Qed.

Definition addr_ok (p : Ptr) : Prop := 0 <= p_off p <= 4294967295.

Lemma readPtr_handle strict m rl sid s paddr depth q rl' :
  0 <= sid < zlen m -> readPtr strict m rl sid s paddr depth = (Ok q, rl') -> p_valid q = true ->
  0 <= p_seg q < zlen m /\ addr_ok q.
Proof.
  intros Hs. unfold readPtr.
  destruct (resolveFarPointer strict m sid s paddr) as [[[[d dst] base] val]| |] eqn:ER; try (intros H; inversion H; fail).
  pose proof (resolve_seg_range _ _ _ _ _ _ _ _ _ Hs ER) as Hd.
  destruct (val =? 0); [intros H; inversion H; subst; discriminate|].
  destruct (depth =? 0); [intros H; inversion H|]. cbv zeta.
  destruct (pointerType val =? structPointer).
  { unfold readStructPtr. destruct (element base (ptr_offset val) 8) as [a|] eqn:EE; [|intros H; inversion H].
    apply element_spec in EE. unfold maxSegmentSize in EE.
    destruct (negb _); [intros H; inversion H|].
    destruct (canRead _ _) as [[|] r]; intros H; inversion H; subst. intros _. unfold addr_ok. cbn. lia. }
  destruct (pointerType val =? listPointer).
  { unfold readListPtr. destruct (element base (ptr_offset val) 8) as [a|] eqn:EE; [|intros H; inversion H].
    apply element_spec in EE. unfold maxSegmentSize in EE.
    destruct (totalListSize val) as [[lsz|]|]; try (intros H; inversion H; fail).
    destruct (negb _); [intros H; inversion H|]. cbv zeta.
    destruct (listType val =? 7).
    - destruct (readRawPointer dst a) as [hdr| |]; cbn [bind]; try (intros H; inversion H; fail).
      destruct (addSize a 8) as [a'|] eqn:EA; [|intros H; inversion H].
      apply addSize_spec in EA. unfold maxSegmentSize in EA.
      destruct (negb _); [intros H; inversion H|].
      destruct (strict && _); [intros H; inversion H|].
      destruct (times _ _); [|intros H; inversion H].
      destruct (negb _); [intros H; inversion H|].
      destruct (canRead _ _) as [[|] r]; intros H; inversion H; subst. intros _. unfold addr_ok. cbn. lia.
    - destruct (listType val =? 1).
      + destruct (canRead _ _) as [[|] r]; intros H; inversion H; subst. intros _. unfold addr_ok. cbn. lia.
      + destruct (elementSize val) as [es|]; [|intros H; inversion H].
        destruct (canRead _ _) as [[|] r]; intros H; inversion H; subst. intros _. unfold addr_ok. cbn. lia. }
  destruct (pointerType val =? otherPointer); [|intros H; inversion H].
  destruct (negb _); intros H; inversion H; subst. intros _. unfold addr_ok. cbn. lia.
Qed.

(* ------------------------------------------------------------------ handles *)
(* [hp rng n p]: a valid handle has an encodable size and, when [rng] (handles into the message
   being built), an existing segment and an addressable offset *)
Definition hp (rng : bool) (n : Z) (p : Ptr) : Prop :=
  sz_ok p /\ (rng = true -> p_valid p = true -> 0 <= p_seg p < n /\ addr_ok p).

Lemma hp_null rng n : hp rng n nullPtr.
Proof. split; [intros X; discriminate X|intros _ X; discriminate X]. Qed.

Lemma hp_mono rng n n' p : n <= n' -> hp rng n p -> hp rng n' p.
Proof. intros Hn [H1 H2]. split; auto. intros R V. destruct (H2 R V). split; [lia|auto]. Qed.

Lemma hp_as_struct rng n p : hp rng n p -> hp rng n (as_struct p).
Proof. unfold as_struct. destruct (is_struct p); auto using hp_null. Qed.
Lemma hp_as_list rng n p : hp rng n p -> hp rng n (as_list p).
Proof. unfold as_list. destruct (is_list p); auto using hp_null. Qed.

Lemma hp_nth rng n hs k : Forall (hp rng n) hs -> hp rng n (nth k hs nullPtr).
Proof.
  intros H. destruct (Nat.lt_ge_cases k (length hs)) as [L|G].
  - rewrite Forall_forall in H. apply H. now apply nth_In.
  - rewrite nth_overflow by lia. apply hp_null.
Qed.

Lemma hp_readPtr rng strict m rl sid s paddr depth q rl' :
  (rng = true -> 0 <= sid < zlen m) ->
  readPtr strict m rl sid s paddr depth = (Ok q, rl') -> hp rng (zlen m) q.
Proof.
  intros Hs H. split.
  - eapply readPtr_size_wf; eauto.
  - intros R V. eapply readPtr_handle; eauto.
Qed.

Lemma hp_list_struct rng n p i e : hp rng n p -> list_struct true p i = Ok e -> hp rng n e.
Proof.
  intros [H1 H2] H. unfold list_struct in H.
  destruct (negb (p_valid p) || (i <? 0) || (i >=? p_len p)) eqn:E; [discriminate|].
  assert (Hv : p_valid p = true) by (destruct (p_valid p); auto; discriminate).
  destruct (p_bit p); [apply Ok_inj in H; subst e; apply hp_null|].
  destruct (element (p_off p) i (totalSize (p_size p))) as [addr|] eqn:EE; [|apply Ok_inj in H; subst e; apply hp_null].
  apply Ok_inj in H. subst e. apply element_spec in EE. unfold maxSegmentSize in EE. split.
  - intros _. cbn. exact (H1 Hv).
  - intros R _. destruct (H2 R Hv) as [S _]. cbn. unfold addr_ok. cbn. split; [exact S|lia].
Qed.

(* the handles a read op adds *)
Lemma step_new_handles rng c ms hs rl o rs' v :
  (forall h, op_handle o = Some h -> hp rng (zlen ms) (nth (Z.to_nat h) hs nullPtr)) ->
  step c all_fixes ms (mkRS hs rl) o = (rs', v) ->
  Forall (hp rng (zlen ms)) (skipn (length hs) (rs_handles rs')).
Proof.
  intros Hh. set (n := zlen ms) in *.
  assert (Hpush : forall (r : res Ptr) rl1, (forall q, r = Ok q -> hp rng n q) ->
            Forall (hp rng n) (skipn (length hs) (rs_handles (push (mkRS hs rl) r rl1)))).
  { intros r rl1 Hr. unfold push. cbn [rs_handles]. rewrite skipn_app, skipn_all, Nat.sub_diag. cbn [skipn app].
    constructor; [|constructor]. destruct r; auto using hp_null. }
  assert (Hsame : Forall (hp rng n) (skipn (length hs) hs)) by (rewrite skipn_all; constructor).
  destruct o; cbn [step]; unfold handle, all_fixes; cbn [rs_handles rs_rl fx_upgrade fx_depth fx_bit].
  - (* root *)
    destruct (root c ms rl) as [r rl1] eqn:ER. intros H. inversion H; subst. apply Hpush.
    intros q ->. unfold root in ER.
    destruct (lookup_segment ms 0) as [s0| |] eqn:EL; try (inversion ER; fail).
    apply lookup_segment_spec in EL.
    destruct (negb _); [destruct (cfg_root c); inversion ER|].
    eapply hp_readPtr; [|exact ER]. intros _. lia.
  - (* struct ptr *)
    destruct (struct_ptr c ms rl (as_struct (nth (Z.to_nat h) hs nullPtr)) i) as [r rl1] eqn:ER.
    intros H. inversion H; subst. apply Hpush. intros q ->.
    pose proof (hp_as_struct _ _ _ (Hh h eq_refl)) as [P1 P2].
    unfold struct_ptr in ER. destruct (negb _ || _) eqn:E; [inversion ER; apply hp_null|].
    eapply hp_readPtr; [|exact ER]. intros R. apply P2; auto.
    destruct (p_valid (as_struct (nth (Z.to_nat h) hs nullPtr))); auto; discriminate.
  - intros H. inversion H; subst. exact Hsame.
  - intros H. inversion H; subst. exact Hsame.
  - intros H. inversion H; subst. exact Hsame.
  - (* list struct *)
    intros H. inversion H; subst. apply Hpush. intros q Hq.
    eapply hp_list_struct; [|exact Hq]. apply hp_as_list. apply (Hh h eq_refl).
  - (* pointer list at *)
    destruct (ptrlist_at c true ms rl (as_list (nth (Z.to_nat h) hs nullPtr)) i) as [r rl1] eqn:ER.
    intros H. inversion H; subst. apply Hpush. intros q ->.
    pose proof (hp_as_list _ _ _ (Hh h eq_refl)) as [P1 P2].
    unfold ptrlist_at in ER.
    destruct (primitiveElem true (as_list (nth (Z.to_nat h) hs nullPtr)) i (mkOS 0 1)) as [a| |] eqn:EP; try (inversion ER; fail).
    eapply hp_readPtr; [|exact ER]. intros R. apply P2; auto.
    unfold primitiveElem in EP. destruct (p_valid (as_list (nth (Z.to_nat h) hs nullPtr))); auto. cbn in EP. discriminate.
  - intros H. inversion H; subst. exact Hsame.
  - intros H. inversion H; subst. exact Hsame.
  - intros H. inversion H; subst. exact Hsame.
  - intros H. inversion H; subst. exact Hsame.
  - intros H. inversion H; subst. exact Hsame.
  - intros H. inversion H; subst. exact Hsame.
  - destruct (walk _ _ _ _ _ _ _ _) as [t rl1]. intros H. inversion H; subst. exact Hsame.
  - (* reset: the read-op pool is emptied, no handle is added *)
    intros H. inversion H; subst. cbn [rs_handles]. rewrite skipn_nil. constructor.
  - (* ResetReadLimit / Unread: handles unchanged *) intros H. inversion H; subst. exact Hsame.
  - intros H. inversion H; subst. exact Hsame.
Qed.

(* ------------------------------------------------------------------ constructors *)
Definition new_ok (m m' : bmsg) (p : Ptr) : Prop :=
  inv m' /\ nsegs m <= nsegs m' /\ hp true (nsegs m') p.

Lemma alloc_new m sid sz m1 s1 a :
  inv m -> 0 <= sid < nsegs m -> 0 <= sz -> alloc m sid sz = Ok (m1, s1, a) ->
  inv m1 /\ nsegs m <= nsegs m1 /\ 0 <= s1 < nsegs m1 /\ 0 <= a <= 4294967295.
Proof.
  intros Hi Hs Hz H.
  destruct (alloc_keeps _ _ _ _ _ _ Hi Hs Hz H) as (_ & I1 & N1 & S1 & AD & L1 & _ & _ & _ & MX).
  split; [exact I1|]. split; [exact N1|]. split; [exact S1|].
  pose proof (zlen_nonneg (mem m s1)). pose proof (padToWord_nonneg sz). unfold maxSegmentSize in MX. lia.
Qed.

Lemma hp_new n s a len sz k comp bit :
  wf_size sz -> 0 <= s < n -> 0 <= a <= 4294967295 ->
  hp true n (mkPtr true s a len sz maxDepth k comp bit false).
Proof. intros Hw Hs Ha. split; [intros _; exact Hw|]. intros _ _. split; [exact Hs|exact Ha]. Qed.

Lemma newStruct_ok m sid sz m' p :
  inv m -> 0 <= sid < nsegs m -> 0 <= DataSize sz -> 0 <= PointerCount sz < 65536 ->
  newStruct m sid sz = Ok (m', p) -> new_ok m m' p.
Proof.
  intros Hi Hs Hd Hp. unfold newStruct. destruct (negb (os_isValid sz)) eqn:EV; [discriminate|].
  unfold os_isValid in EV.
  destruct (alloc m sid _) as [[[m1 s1] a]| |] eqn:EA; cbn [bind]; try discriminate.
  intros H. apply Ok_inj in H. injection H as <- <-.
  destruct (alloc_new _ _ _ _ _ _ Hi Hs (totalSize_nn _) EA) as (I1 & N1 & S1 & A1).
  split; [exact I1|]. split; [exact N1|]. apply hp_new; auto.
  unfold wf_size, padToWord, u32. cbn [DataSize PointerCount]. lia.
Qed.

Lemma newPrimitiveList_ok m sid sz n m' p :
  inv m -> 0 <= sid < nsegs m -> 0 <= sz <= 8 ->
  newPrimitiveList m sid sz n = Ok (m', p) -> new_ok m m' p.
Proof.
  intros Hi Hs Hz. unfold newPrimitiveList. destruct ((n <? 0) || (n >=? 536870912)); [discriminate|].
  destruct (alloc m sid _) as [[[m1 s1] a]| |] eqn:EA; cbn [bind]; try discriminate.
  intros H. apply Ok_inj in H. injection H as <- <-.
  assert (Hnn : 0 <= timesUnchecked sz n) by (unfold timesUnchecked, u32; lia).
  destruct (alloc_new _ _ _ _ _ _ Hi Hs Hnn EA) as (I1 & N1 & S1 & A1).
  split; [exact I1|]. split; [exact N1|]. apply hp_new; auto. unfold wf_size. cbn. lia.
Qed.

Lemma newCompositeList_ok m sid sz n m' p :
  inv m -> 0 <= sid < nsegs m -> 0 <= DataSize sz -> 0 <= PointerCount sz < 65536 ->
  newCompositeList m sid sz n = Ok (m', p) -> new_ok m m' p.
Proof.
  intros Hi Hs Hd Hp. unfold newCompositeList. destruct (negb (os_isValid sz)) eqn:EV; [discriminate|].
  unfold os_isValid in EV. destruct ((n <? 0) || (n >=? 536870912)); [discriminate|].
  destruct (times _ n) as [total|]; [|discriminate]. destruct (total >? _); [discriminate|].
  destruct (alloc m sid _) as [[[m1 s1] a]| |] eqn:EA; cbn [bind]; try discriminate.
  destruct (of_opt_panic _) as [tag| |]; cbn [bind]; try discriminate.
  destruct (writeRawPointer m1 s1 a tag) as [m2| |] eqn:EW; cbn [bind]; try discriminate.
  intros H. apply Ok_inj in H. injection H as <- <-.
  assert (Hnn : 0 <= u32 (8 + total)) by (unfold u32; lia).
  destruct (alloc_new _ _ _ _ _ _ Hi Hs Hnn EA) as (I1 & N1 & S1 & A1).
  destruct (writeRawPointer_keeps m1 s1 a tag m2 ltac:(lia) I1 EW) as (_ & I2 & N2 & _).
  split; [exact I2|]. split; [lia|]. apply hp_new; auto; try lia.
  - unfold wf_size, padToWord, u32. cbn [DataSize PointerCount]. lia.
  - unfold addSizeUnchecked, u32. lia.
Qed.

Lemma newBitList_ok m sid n m' p :
  inv m -> 0 <= sid < nsegs m -> newBitList m sid n = Ok (m', p) -> new_ok m m' p.
Proof.
  intros Hi Hs. unfold newBitList. destruct ((n <? 0) || (n >=? 536870912)); [discriminate|].
  destruct (alloc m sid _) as [[[m1 s1] a]| |] eqn:EA; cbn [bind]; try discriminate.
  intros H. apply Ok_inj in H. injection H as <- <-.
  assert (Hnn : 0 <= bitListSize n) by (unfold bitListSize, u32; lia).
  destruct (alloc_new _ _ _ _ _ _ Hi Hs Hnn EA) as (I1 & N1 & S1 & A1).
  split; [exact I1|]. split; [exact N1|]. apply hp_new; auto. apply wf_size_00.
Qed.

Lemma newPointerList_ok m sid n m' p :
  inv m -> 0 <= sid < nsegs m -> newPointerList m sid n = Ok (m', p) -> new_ok m m' p.
Proof.
  intros Hi Hs. unfold newPointerList. destruct (times 8 n) as [total|] eqn:ET; [|discriminate].
  destruct (alloc m sid total) as [[[m1 s1] a]| |] eqn:EA; cbn [bind]; try discriminate.
  intros H. apply Ok_inj in H. injection H as <- <-.
  assert (Hnn : 0 <= total).
  { unfold times in ET. cbv zeta in ET. destruct ((8 * n >? maxSegmentSize) || (8 * n <? 0)) eqn:E; [discriminate|].
    apply Bool.orb_false_elim in E. destruct E as [_ E]. assert (total = 8 * n) by congruence. lia. }
  destruct (alloc_new _ _ _ _ _ _ Hi Hs Hnn EA) as (I1 & N1 & S1 & A1).
  split; [exact I1|]. split; [exact N1|]. apply hp_new; auto. unfold wf_size. cbn. lia.
Qed.

Lemma seg_write_inv m sid a bs m' :
  inv m -> 0 <= sid -> zlen bs < 4294967296 -> seg_write m sid a bs = Ok m' ->
  inv m' /\ nsegs m' = nsegs m.
Proof.
  intros Hi Hs Hl H. apply seg_write_wrote in H; auto. split; [eapply wrote_inv; eauto|].
  destruct H as (_ & _ & _ & _ & _ & _ & W7 & _). exact W7.
Qed.

Lemma newBytes_ok m sid v nul m' p :
  inv m -> 0 <= sid < nsegs m -> zlen v < 4294967296 ->
  newBytes m sid v nul = Ok (m', p) -> new_ok m m' p.
Proof.
  intros Hi Hs Hv. unfold newBytes.
  destruct (newPrimitiveList m sid 1 _) as [[m1 q]| |] eqn:EN; cbn [bind]; try discriminate.
  assert (H18 : 0 <= 1 <= 8) by lia.
  destruct (newPrimitiveList_ok _ _ _ _ _ _ Hi Hs H18 EN) as (I1 & N1 & H1).
  destruct (seg_write m1 (p_seg q) (p_off q) v) as [m2| |] eqn:EW; cbn [bind]; try discriminate.
  intros H. apply Ok_inj in H. injection H as <- <-.
  assert (Hq : p_valid q = true).
  { unfold newPrimitiveList in EN. destruct (_ || _) in EN; [discriminate|].
    destruct (alloc _ _ _) as [[[? ?] ?]| |] in EN; cbn [bind] in EN; try discriminate.
    apply Ok_inj in EN. injection EN as _ <-. reflexivity. }
  destruct H1 as [Z1 Z2]. destruct (Z2 eq_refl Hq) as [Sq Aq].
  assert (Hq0 : 0 <= p_seg q) by lia.
  destruct (seg_write_inv _ _ _ _ _ I1 Hq0 Hv EW) as [I2 N2].
  split; [exact I2|]. split; [lia|]. rewrite N2. split; auto.
Qed.

(* ------------------------------------------------------------------ data setters *)
Lemma data_setter_inv m s m' :
  inv m -> (p_valid (setter_ptr s) = true -> 0 <= p_seg (setter_ptr s)) ->
  0 <= setter_width s <= 8 -> run_setter m s = Ok m' -> inv m' /\ nsegs m' = nsegs m.
Proof.
  intros Hi Hs Hw. destruct s as [p off n v|p n v|p i n v|p i v]; cbn [run_setter setter_ptr setter_width] in *.
  - unfold struct_set_uint, dataAddress.
    destruct (negb (p_valid p) || _) eqn:E; cbn [bind]; [discriminate|].
    assert (Hv : p_valid p = true) by (destruct (p_valid p); auto; discriminate).
    destruct (addOffset _ _); cbn [bind]; [|discriminate].
    apply seg_write_inv; auto. unfold zlen. rewrite le_encode_length. lia.
  - unfold struct_set_bit. destruct (negb (p_valid p && _)) eqn:E; [discriminate|].
    assert (Hv : p_valid p = true) by (destruct (p_valid p); auto; discriminate).
    destruct (addOffset _ _); [|discriminate].
    destruct (readUintN _ _ 1) as [b| |]; cbn [bind]; try discriminate.
    apply seg_write_inv; auto. cbn. lia.
  - unfold list_set_uint. destruct (primitiveElem true p i (mkOS n 0)) as [a| |] eqn:EP; try discriminate.
    assert (Hv : p_valid p = true).
    { unfold primitiveElem in EP. destruct (p_valid p); auto. cbn in EP. discriminate. }
    apply seg_write_inv; auto. unfold zlen. rewrite le_encode_length. lia.
  - unfold bitlist_set. destruct (negb (p_valid p) || _ || _) eqn:E; [discriminate|].
    assert (Hv : p_valid p = true) by (destruct (p_valid p); auto; discriminate).
    destruct (negb (p_bit p)); [discriminate|].
    destruct (readUintN _ _ 1) as [b| |]; cbn [bind]; try discriminate.
    apply seg_write_inv; auto. cbn. lia.
Qed.

(* ------------------------------------------------------------------ the interpreter's invariant *)
Definition rng_of (l : loc) : bool := negb (is_src l).
Definition hk (m : bmsg) (h : loc * Ptr) : Prop := hp (rng_of (fst h)) (nsegs m) (snd h).
Definition binv (st : bstate) : Prop :=
  inv (w_dst (st_w st)) /\ Forall (hk (w_dst (st_w st))) (st_h st).

Definition op_wf (o : bop) : Prop :=
  match o with
  | BNewStruct _ dsz pc | BNewComp _ dsz pc _ => 0 <= dsz /\ 0 <= pc < 65536
  | BNewPrim _ sz _ => 0 <= sz <= 8
  | BNewBytes _ v _ => zlen v < 4294967296
  | BSetUint _ _ n _ | BListSetUint _ _ n _ => 0 <= n <= 8
  | _ => True
  end.

Lemma hk_mono m m' h : nsegs m <= nsegs m' -> hk m h -> hk m' h.
Proof. intros. eapply hp_mono; eauto. Qed.

Lemma hks_mono m m' hs : nsegs m <= nsegs m' -> Forall (hk m) hs -> Forall (hk m') hs.
Proof. intros Hn H. eapply Forall_impl; [|exact H]. intros a. now apply hk_mono. Qed.

Lemma hget_hk st h : binv st -> hk (w_dst (st_w st)) (hget st h).
Proof.
  intros [_ H]. unfold hget. destruct (Nat.lt_ge_cases (Z.to_nat h) (length (st_h st))) as [L|G].
  - rewrite Forall_forall in H. apply H. now apply nth_In.
  - rewrite nth_overflow by lia. apply hp_null.
Qed.

Lemma binv_push st w' l p :
  inv (w_dst w') -> nsegs (w_dst (st_w st)) <= nsegs (w_dst w') -> binv st -> hk (w_dst w') (l, p) ->
  binv (hpush st w' l p).
Proof.
  intros Hi Hn [_ Hh] Hp. split; [exact Hi|]. cbn [st_h hpush st_w]. apply Forall_app. split.
  - eapply hks_mono; eauto.
  - constructor; [exact Hp|constructor].
Qed.

Lemma binv_set st w' :
  inv (w_dst w') -> nsegs (w_dst (st_w st)) <= nsegs (w_dst w') -> binv st -> binv (mkBSt w' (st_h st)).
Proof. intros Hi Hn [_ Hh]. split; [exact Hi|]. cbn [st_h st_w]. eapply hks_mono; eauto. Qed.

Lemma ctor_binv st sid r st' v :
  binv st -> (forall m' p, r = Ok (m', p) -> new_ok (w_dst (st_w st)) m' p) ->
  ctor st sid r = (Some st', v) -> binv st'.
Proof.
  intros Hb Hr. unfold ctor. destruct r as [[m' p]| |]; try discriminate.
  intros H. injection H as <- _. destruct (Hr m' p eq_refl) as (I & N & Hp).
  apply binv_push; auto.
Qed.

Lemma null_push_binv st : binv st -> binv (hpush st (st_w st) InDst nullPtr).
Proof. intros Hb. apply binv_push; auto; [apply Hb|lia|apply hp_null]. Qed.

Lemma valid_sid_range st sid : valid_sid st sid = true -> 0 <= sid < nsegs (w_dst (st_w st)).
Proof. unfold valid_sid, nsegs. lia. Qed.

Lemma dset_binv st st' v (r : res world) :
  binv st -> (forall w1, r = Ok w1 -> inv (w_dst w1) /\ nsegs (w_dst w1) = nsegs (w_dst (st_w st))) ->
  dset st r = (Some st', v) -> binv st'.
Proof.
  intros Hb Hr. unfold dset. destruct r as [w1| |]; intros H; injection H as <- _; auto.
  destruct (Hr w1 eq_refl) as [I N]. apply binv_set; auto. lia.
Qed.

Lemma pset_binv st st' v (r : res world) :
  binv st -> (forall w1, r = Ok w1 -> inv (w_dst w1) /\ nsegs (w_dst (st_w st)) <= nsegs (w_dst w1)) ->
  pset st r = (Some st', v) -> binv st'.
Proof.
  intros Hb Hr. unfold pset. destruct r as [w1| |]; try discriminate. intros H; injection H as <- _.
  destruct (Hr w1 eq_refl) as [I N]. apply binv_set; auto.
Qed.

Lemma set_in_inv w l f s w1 :
  inv (w_dst w) -> (p_valid (setter_ptr s) = true -> l = InDst -> 0 <= p_seg (setter_ptr s)) ->
  0 <= setter_width s <= 8 -> (forall m0, f m0 = run_setter m0 s) ->
  set_in w l f = Ok w1 -> inv (w_dst w1) /\ nsegs (w_dst w1) = nsegs (w_dst w).
Proof.
  intros Hi Hs Hw Hf. unfold set_in. destruct l.
  - unfold lift0. rewrite Hf. destruct (run_setter (w_dst w) s) as [m1| |] eqn:E; cbn [bind]; try discriminate.
    intros H. apply Ok_inj in H. subst w1. cbn [w_dst w_set_dst].
    eapply data_setter_inv; eauto.
  - destruct (f (src_bmsg w)); cbn [bind]; try discriminate. intros H. apply Ok_inj in H. subst w1. cbn [w_dst]. auto.
Qed.

(* every step of the interpreter keeps the invariant *)
Theorem bstep_binv e st o st' out :
  binv st -> op_wf o -> bstep e st o = (Some st', out) -> binv st'.
Proof.
  intros Hb Hwf. pose proof Hb as [Hi Hh]. unfold bstep.
  destruct o; cbv zeta.
  - (* newstruct *) destruct (negb (valid_sid st sid)) eqn:EV.
    + intros H. injection H as <- _. now apply null_push_binv.
    + apply ctor_binv; auto. intros m' p Hr. cbn [op_wf] in Hwf. destruct Hwf as [W1 W2].
      eapply (newStruct_ok _ sid (mkOS dsz pc)); [exact Hi| |cbn [DataSize PointerCount]; lia|cbn [DataSize PointerCount]; lia|exact Hr].
      apply valid_sid_range. destruct (valid_sid st sid); auto; discriminate.
  - destruct (negb (valid_sid st sid)) eqn:EV.
    + intros H. injection H as <- _. now apply null_push_binv.
    + apply ctor_binv; auto. intros m' p Hr.
      eapply newPrimitiveList_ok; eauto. apply valid_sid_range. destruct (valid_sid st sid); auto; discriminate.
  - destruct (negb (valid_sid st sid)) eqn:EV.
    + intros H. injection H as <- _. now apply null_push_binv.
    + apply ctor_binv; auto. intros m' p Hr.
      eapply newBitList_ok; eauto. apply valid_sid_range. destruct (valid_sid st sid); auto; discriminate.
  - destruct (negb (valid_sid st sid)) eqn:EV.
    + intros H. injection H as <- _. now apply null_push_binv.
    + apply ctor_binv; auto. intros m' p Hr.
      eapply newPointerList_ok; eauto. apply valid_sid_range. destruct (valid_sid st sid); auto; discriminate.
  - destruct (negb (valid_sid st sid)) eqn:EV.
    + intros H. injection H as <- _. now apply null_push_binv.
    + apply ctor_binv; auto. intros m' p Hr. cbn [op_wf] in Hwf. destruct Hwf as [W1 W2].
      eapply (newCompositeList_ok _ sid (mkOS dsz pc)); [exact Hi| |cbn [DataSize PointerCount]; lia|cbn [DataSize PointerCount]; lia|exact Hr].
      apply valid_sid_range. destruct (valid_sid st sid); auto; discriminate.
  - (* void list *) destruct (negb (valid_sid st sid)) eqn:EV.
    + intros H. injection H as <- _. now apply null_push_binv.
    + assert (HR := valid_sid_range st sid ltac:(destruct (valid_sid st sid); auto; discriminate)).
      unfold newVoidList. destruct ((n <? 0) || (n >=? 536870912)).
      * intros H. injection H as <- _. now apply null_push_binv.
      * intros H. injection H as <- _. apply binv_push; auto; [lia|].
        apply hp_new; auto; [apply wf_size_00|lia].
  - destruct (negb (valid_sid st sid)) eqn:EV.
    + intros H. injection H as <- _. now apply null_push_binv.
    + apply ctor_binv; auto. intros m' p Hr.
      eapply newBytes_ok; eauto. apply valid_sid_range. destruct (valid_sid st sid); auto; discriminate.
  - (* cap *) destruct (negb (valid_sid st sid)) eqn:EV.
    + intros H. injection H as <- _. now apply null_push_binv.
    + assert (HR := valid_sid_range st sid ltac:(destruct (valid_sid st sid); auto; discriminate)).
      intros H. injection H as <- _. apply binv_push; auto; [lia|].
      split; [intros _; apply wf_size_00|]. intros _ _. split; [exact HR|unfold addr_ok; cbn; lia].
  - (* addcap *) intros H. injection H as <- _. apply binv_set; auto; cbn; auto. unfold nsegs. cbn. lia.
  - destruct (hget st h) as [l p] eqn:EH. pose proof (hget_hk st h Hb) as HK. rewrite EH in HK.
    apply dset_binv; auto. intros w1 Hr.
    eapply (set_in_inv _ _ _ (DSUint (as_struct p) off n v)); [exact Hi| |cbn [setter_width]; cbn [op_wf] in Hwf; lia|intros; reflexivity|exact Hr].
    cbn [setter_ptr]. intros V ->. destruct (hp_as_struct _ _ _ HK) as [_ K]. cbn [fst snd rng_of is_src negb] in K.
    destruct (K eq_refl V). lia.
  - destruct (hget st h) as [l p] eqn:EH. pose proof (hget_hk st h Hb) as HK. rewrite EH in HK.
    apply dset_binv; auto. intros w1 Hr.
    eapply (set_in_inv _ _ _ (DSBit (as_struct p) n v)); [exact Hi| |cbn [setter_width]; lia|intros; reflexivity|exact Hr].
    cbn [setter_ptr]. intros V ->. destruct (hp_as_struct _ _ _ HK) as [_ K]. cbn [fst snd rng_of is_src negb] in K.
    destruct (K eq_refl V). lia.
  - destruct (hget st h) as [l p] eqn:EH. pose proof (hget_hk st h Hb) as HK. rewrite EH in HK.
    apply dset_binv; auto. intros w1 Hr.
    eapply (set_in_inv _ _ _ (DSListUint (as_list p) i n v)); [exact Hi| |cbn [setter_width]; cbn [op_wf] in Hwf; lia|intros; reflexivity|exact Hr].
    cbn [setter_ptr]. intros V ->. destruct (hp_as_list _ _ _ HK) as [_ K]. cbn [fst snd rng_of is_src negb] in K.
    destruct (K eq_refl V). lia.
  - destruct (hget st h) as [l p] eqn:EH. pose proof (hget_hk st h Hb) as HK. rewrite EH in HK.
    apply dset_binv; auto. intros w1 Hr.
    eapply (set_in_inv _ _ _ (DSListBit (as_list p) i v)); [exact Hi| |cbn [setter_width]; lia|intros; reflexivity|exact Hr].
    cbn [setter_ptr]. intros V ->. destruct (hp_as_list _ _ _ HK) as [_ K]. cbn [fst snd rng_of is_src negb] in K.
    destruct (K eq_refl V). lia.
  - (* setptr *)
    destruct (hget st h) as [l p] eqn:EH. pose proof (hget_hk st h Hb) as HK. rewrite EH in HK.
    destruct (hget st hs) as [ls q] eqn:EQ. pose proof (hget_hk st hs Hb) as HQ. rewrite EQ in HQ.
    destruct (is_src l) eqn:EL; [discriminate|].
    apply pset_binv; auto. intros w1 Hr. unfold struct_set_ptr in Hr.
    destruct (negb (p_valid (as_struct p)) || _) eqn:E; [discriminate|].
    assert (V : p_valid (as_struct p) = true) by (destruct (p_valid (as_struct p)); auto; discriminate).
    destruct (hp_as_struct _ _ _ HK) as [_ K]. cbn [fst snd] in K. unfold rng_of in K. rewrite EL in K. cbn [negb] in K.
    destruct (K eq_refl V) as [SR _].
    destruct (frame_all true (e_fuel e)) as [P _].
    assert (GG : G (w_dst (st_w st)) (w_src (st_w st)) w1 (Rword (p_seg (as_struct p)) (pointerAddress (as_struct p) i))).
    { apply (P true (st_w st) (p_seg (as_struct p)) (pointerAddress (as_struct p) i) ls q false w1); auto.
      - exact (proj1 HQ).
      - intros E2 Vq. destruct HQ as [_ KQ]. cbn [fst snd] in KQ. unfold rng_of in KQ.
        cbn [orb] in E2. rewrite E2 in KQ. apply KQ; auto. }
    destruct GG as (_ & I & N & _). split; assumption.
  - (* plset *)
    destruct (hget st h) as [l p] eqn:EH. pose proof (hget_hk st h Hb) as HK. rewrite EH in HK.
    destruct (hget st hs) as [ls q] eqn:EQ. pose proof (hget_hk st hs Hb) as HQ. rewrite EQ in HQ.
    destruct (is_src l) eqn:EL; [discriminate|].
    apply pset_binv; auto. intros w1 Hr. unfold ptrlist_set in Hr.
    destruct (primitiveElem true (as_list p) i (mkOS 0 1)) as [a| |] eqn:EP; cbn [bind] in Hr; try discriminate.
    assert (V : p_valid (as_list p) = true).
    { unfold primitiveElem in EP. destruct (p_valid (as_list p)); auto. cbn in EP. discriminate. }
    destruct (hp_as_list _ _ _ HK) as [_ K]. cbn [fst snd] in K. unfold rng_of in K. rewrite EL in K. cbn [negb] in K.
    destruct (K eq_refl V) as [SR _].
    destruct (frame_all true (e_fuel e)) as [P _].
    assert (GG : G (w_dst (st_w st)) (w_src (st_w st)) w1 (Rword (p_seg (as_list p)) a)).
    { apply (P true (st_w st) (p_seg (as_list p)) a ls q false w1); auto.
      - exact (proj1 HQ).
      - intros E2 Vq. destruct HQ as [_ KQ]. cbn [fst snd] in KQ. unfold rng_of in KQ.
        cbn [orb] in E2. rewrite E2 in KQ. apply KQ; auto. }
    destruct GG as (_ & I & N & _). split; assumption.
  - (* setstruct *)
    destruct (hget st h) as [l p] eqn:EH. pose proof (hget_hk st h Hb) as HK. rewrite EH in HK.
    destruct (hget st hs) as [ls q] eqn:EQ. pose proof (hget_hk st hs Hb) as HQ. rewrite EQ in HQ.
    destruct (is_src l) eqn:EL; [discriminate|].
    apply pset_binv; auto. intros w1 Hr. unfold list_set_struct in Hr.
    destruct (p_bit (as_list p)); [discriminate|].
    destruct (list_struct true (as_list p) i) as [el| |] eqn:ELS; cbn [bind] in Hr; try discriminate.
    destruct (p_valid el) eqn:EVE; [|exfalso; eapply copy_struct_invalid_dst; eauto].
    pose proof (hp_list_struct _ _ _ _ _ (hp_as_list _ _ _ HK) ELS) as [K1 K2].
    cbn [fst snd] in K2. unfold rng_of in K2. rewrite EL in K2. cbn [negb] in K2. destruct (K2 eq_refl EVE) as [SR AR].
    destruct (frame_all true (e_fuel e)) as [_ P].
    assert (GG : G (w_dst (st_w st)) (w_src (st_w st)) w1 (Rfrom el)).
    { apply (P true (st_w st) el ls (as_struct q) w1); auto. apply (hp_as_struct _ _ _ HQ). }
    destruct GG as (_ & I & N & _). split; assumption.
  - (* copyfrom *)
    destruct (hget st h) as [l p] eqn:EH. pose proof (hget_hk st h Hb) as HK. rewrite EH in HK.
    destruct (hget st hs) as [ls q] eqn:EQ. pose proof (hget_hk st hs Hb) as HQ. rewrite EQ in HQ.
    destruct (is_src l) eqn:EL; [discriminate|].
    apply pset_binv; auto. intros w1 Hr.
    destruct (p_valid (as_struct p)) eqn:EVE; [|exfalso; eapply copy_struct_invalid_dst; eauto].
    destruct (hp_as_struct _ _ _ HK) as [K1 K2].
    cbn [fst snd] in K2. unfold rng_of in K2. rewrite EL in K2. cbn [negb] in K2. destruct (K2 eq_refl EVE) as [SR AR].
    destruct (frame_all true (e_fuel e)) as [_ P].
    assert (GG : G (w_dst (st_w st)) (w_src (st_w st)) w1 (Rfrom (as_struct p))).
    { apply (P true (st_w st) (as_struct p) ls (as_struct q) w1); auto. apply (hp_as_struct _ _ _ HQ). }
    destruct GG as (_ & I & N & _). split; assumption.
  - (* setroot *)
    destruct (hget st hs) as [ls q] eqn:EQ. pose proof (hget_hk st hs Hb) as HQ. rewrite EQ in HQ.
    apply pset_binv; auto. intros w1 Hr. unfold set_root, set_root_gen in Hr.
    destruct (bm_segs (w_dst (st_w st))) as [|s0 r0] eqn:ES; [discriminate|].
    destruct (negb _); [discriminate|].
    assert (SR : 0 <= 0 < nsegs (w_dst (st_w st))) by (unfold nsegs, zlen; rewrite ES; cbn [length]; lia).
    destruct (frame_all true (e_fuel e)) as [P _].
    assert (GG : G (w_dst (st_w st)) (w_src (st_w st)) w1 (Rword 0 0)).
    { apply (P true (st_w st) 0 0 ls q false w1); auto.
      - exact (proj1 HQ).
      - intros E2 Vq. destruct HQ as [_ KQ]. cbn [fst snd] in KQ. unfold rng_of in KQ.
        cbn [orb] in E2. rewrite E2 in KQ. apply KQ; auto. }
    destruct GG as (_ & I & N & _). split; assumption.
  - (* read ops *)
    set (l1 := match op_handle o with Some h => fst (hget st h) | None => l end).
    destruct (step (cfg_of e l1) all_fixes (w_segs (st_w st) l1) (mkRS (map snd (st_h st)) (w_rl (st_w st) l1)) o)
      as [rs' v0] eqn:ES.
    intros H. injection H as <- _.
    destruct (w_set_rl_dst (st_w st) l1 (rs_rl rs')) as (T1 & T2 & T3).
    assert (Hn : nsegs (w_dst (w_set_rl (st_w st) l1 (rs_rl rs'))) = nsegs (w_dst (st_w st))) by (unfold nsegs; now rewrite T1).
    split; cbn [st_w st_h].
    + destruct Hi as [I1 I2]. unfold inv, bmsg_wf, arena_wf. rewrite T1, T2. split; auto.
    + apply Forall_app. split; [eapply hks_mono; [|exact Hh]; lia|].
      apply Forall_forall. intros [l2 q] Hin. apply in_map_iff in Hin. destruct Hin as (q0 & Eq & Hq0).
      injection Eq as <- <-.
      assert (HU : forall h, op_handle o = Some h ->
                hp (rng_of l1) (zlen (w_segs (st_w st) l1)) (nth (Z.to_nat h) (map snd (st_h st)) nullPtr)).
      { intros h Hop. subst l1. rewrite Hop. pose proof (hget_hk st h Hb) as HK. unfold hk, hget in *.
        replace (nth (Z.to_nat h) (map snd (st_h st)) nullPtr) with (snd (nth (Z.to_nat h) (st_h st) (InDst, nullPtr)))
          by (symmetry; apply (map_nth snd (st_h st) (InDst, nullPtr))).
        destruct (fst (nth (Z.to_nat h) (st_h st) (InDst, nullPtr))); cbn [rng_of is_src negb w_segs] in *.
        - unfold bm_data. rewrite zlen_map. exact HK.
        - destruct HK as [Z1 _]. split; [exact Z1|intros X; discriminate X]. }
      assert (HF := step_new_handles (rng_of l1) _ _ _ _ _ _ _ HU ES).
      unfold hk. cbn [fst snd]. rewrite Hn.
      rewrite map_length in HF.
      rewrite Forall_forall in HF. specialize (HF q0 Hq0).
      destruct l1; cbn [rng_of is_src negb w_segs] in *.
      * unfold bm_data in HF. rewrite zlen_map in HF. exact HF.
      * destruct HF as [Z1 _]. split; [exact Z1|intros X; discriminate X].
  - intros H. destruct (root _ _ _) as [r rl]. injection H as <- _. exact Hb.
  - destruct l; intros H; injection H as <- _; exact Hb.
  - (* reopen *)
    intros H. injection H as <- _. cbn [st_w st_h w_dst w_set_dst].
    assert (Hn : nsegs (mkBM AMulti (map (fun d => mkBS d (zlen d)) (bm_data (w_dst (st_w st)))) [] (init_rlimit (e_cfgd e)))
                 = nsegs (w_dst (st_w st))).
    { unfold nsegs, bm_data. cbn [bm_segs]. now rewrite !zlen_map. }
    split.
    + split.
      * unfold bmsg_wf. cbn [bm_segs]. apply Forall_forall. intros s Hs. apply in_map_iff in Hs.
        destruct Hs as (d & <- & Hd). unfold bm_data in Hd. apply in_map_iff in Hd. destruct Hd as (b & <- & Hbs).
        destruct Hi as [Hw0 _]. unfold bmsg_wf in Hw0. rewrite Forall_forall in Hw0. destruct (Hw0 b Hbs) as [_ H8].
        unfold seg_wf, blen in *. cbn [bs_data bs_cap]. lia.
      * unfold arena_wf. cbn [bm_arena]. discriminate.
    + apply Forall_forall. intros h Hin. apply in_map_iff in Hin. destruct Hin as ([l0 p0] & <- & Hin0).
      rewrite Forall_forall in Hh. specialize (Hh _ Hin0). cbn [fst].
      destruct l0; [apply hp_null|]. unfold hk in *. cbn [fst snd] in *.
      eapply hp_mono; [|exact Hh]. cbn [st_w w_dst w_set_dst]. rewrite Hn. lia.
Qed.

(* ------------------------------------------------------------------ initial states *)
Definition caps_ok (cs : list Z) : Prop := Forall (fun c => 0 <= c) cs.
Definition arena_spec_wf (a : arena_spec) : Prop :=
  match a with
  | ArSingle (Some c) | ArMulti (Some c) => 0 <= c
  | ArRaw cs => caps_ok cs
  | _ => True
  end.

Lemma raw_inv k cs rl : caps_ok cs -> (k = ASingle -> length cs = 1%nat) -> inv (mkBM k (map (fun c => mkBS [] c) cs) [] rl).
Proof.
  intros Hc Hk. split.
  - unfold bmsg_wf. cbn [bm_segs]. apply Forall_forall. intros s Hs. apply in_map_iff in Hs.
    destruct Hs as (c & <- & Hin). unfold caps_ok in Hc. rewrite Forall_forall in Hc. specialize (Hc c Hin).
    unfold seg_wf, blen, zlen. cbn. lia.
  - unfold arena_wf. cbn [bm_arena bm_segs]. intros E. unfold zlen. rewrite map_length. rewrite (Hk E). reflexivity.
Qed.

Lemma new_message_inv k caps rl m :
  caps_ok caps -> new_message k caps rl = Ok m -> inv m.
Proof.
  intros Hc. unfold new_message. cbv zeta.
  match goal with |- context [bind ?X _] => destruct X as [m1| |] eqn:E1; cbn [bind]; try discriminate end.
  assert (I1 : inv m1 /\ 0 < nsegs m1).
  { destruct caps as [|c [|c2 r]]; try discriminate.
    - destruct k.
      + apply Ok_inj in E1. subst m1. split; [|unfold nsegs, zlen; cbn; lia].
        apply (raw_inv ASingle [0] rl); [repeat constructor; lia|reflexivity].
      + destruct (allocSegment _ 8) as [[m2 id]| |] eqn:EA; cbn [bind] in E1; try discriminate.
        apply Ok_inj in E1. cbn [fst] in E1. subst m2.
        pose proof (raw_inv AMulti [] rl ltac:(constructor) ltac:(discriminate)) as [W A].
        apply allocSegment_spec in EA; auto; [|lia].
        destruct EA as (A1 & A2 & A3 & _). split; [split; assumption|unfold nsegs; lia].
    - apply Ok_inj in E1. subst m1. split; [|unfold nsegs, zlen; cbn; lia].
      apply raw_inv; auto. }
  destruct I1 as [I1 N1].
  destruct (alloc m1 0 8) as [[[m2 sid] a]| |] eqn:EA; cbn [bind]; try discriminate.
  destruct (sid =? 0); [|discriminate]. intros H. apply Ok_inj in H. subst m2.
  assert (H08 : 0 <= 8) by lia. assert (H0 : 0 <= 0 < nsegs m1) by lia.
  destruct (alloc_new _ _ _ _ _ _ I1 H0 H08 EA) as (I2 & _). exact I2.
Qed.

Lemma create_inv a rl m : arena_spec_wf a -> create a rl = Ok m -> inv m.
Proof.
  intros Hw. unfold create. destruct a as [[c|]|[c|]|cs]; cbn [arena_spec_wf] in Hw.
  - apply new_message_inv. repeat constructor. exact Hw.
  - apply new_message_inv. constructor.
  - apply new_message_inv. repeat constructor. exact Hw.
  - apply new_message_inv. constructor.
  - destruct cs as [|c r]; [discriminate|].
    destruct (newStruct _ 0 _) as [[m1 p]| |] eqn:EN; cbn [bind]; try discriminate.
    intros H. apply Ok_inj in H. cbn [fst] in H. subst m1.
    pose proof (raw_inv AMulti (c :: r) rl Hw ltac:(discriminate)) as I0.
    assert (H0 : 0 <= 0 < nsegs (raw_message AMulti (c :: r) rl)).
    { unfold nsegs, raw_message, zlen. cbn [bm_segs map length]. lia. }
    eapply (newStruct_ok _ 0 (mkOS 8 0)); [exact I0|exact H0|cbn; lia|cbn; lia|exact EN].
Qed.

(* ------------------------------------------------------------------ all reachable states *)
Fixpoint bstates (e : benv) (st : bstate) (ops : list bop) : list bstate :=
  st :: match ops with
        | [] => []
        | o :: r => match bstep e st o with
                    | (Some st1, _) => bstates e st1 r
                    | (None, _) => []
                    end
        end.

Theorem brun_binv e : forall ops st, binv st -> Forall op_wf ops -> Forall binv (bstates e st ops).
Proof.
  induction ops as [|o r IH]; intros st Hb Hw; cbn [bstates]; constructor; auto.
  inversion Hw as [|? ? Ho Hr]; subst.
  destruct (bstep e st o) as [[st1|] v] eqn:E; [|constructor].
  apply IH; auto. eapply bstep_binv; eauto.
Qed.

(* what the invariant says about the bytes: every segment is a whole number of words (the first
   check of [valid_message] never fails on a reachable state) and lies within its capacity *)
Lemma binv_words st : binv st ->
  forallb (fun s => zlen s mod 8 =? 0) (bm_data (w_dst (st_w st))) = true /\
  Forall (fun s => blen s <= bs_cap s) (bm_segs (w_dst (st_w st))).
Proof.
  intros [[Hwf _] _]. unfold bmsg_wf in Hwf. split.
  - apply forallb_forall. intros s Hs. unfold bm_data in Hs. apply in_map_iff in Hs.
    destruct Hs as (b & <- & Hb). rewrite Forall_forall in Hwf. destruct (Hwf b Hb) as [_ H]. unfold blen in H. lia.
  - eapply Forall_impl; [|exact Hwf]. intros b [H _]. exact H.
Qed.

(* [heap_inv_partial]: for every arena configuration, every well-formed op list and every state
   the interpreter reaches (stopping at a failed allocating / pointer-writing op), the message
   under construction has whole-word segments inside their capacities *)
Theorem heap_inv_partial a cfgd cfgs ncaps fuel src ops m :
  arena_spec_wf a -> Forall op_wf ops -> create a (init_rlimit cfgd) = Ok m ->
  Forall (fun st => binv st /\
            forallb (fun s => zlen s mod 8 =? 0) (bm_data (w_dst (st_w st))) = true /\
            Forall (fun s => blen s <= bs_cap s) (bm_segs (w_dst (st_w st))))
         (bstates (mkEnv cfgd cfgs ncaps fuel) (mkBSt (mkW m src (init_rlimit cfgs)) []) ops).
Proof.
  intros Ha Ho Hc.
  assert (B0 : binv (mkBSt (mkW m src (init_rlimit cfgs)) [])).
  { split; [eapply create_inv; eauto|constructor]. }
  pose proof (brun_binv (mkEnv cfgd cfgs ncaps fuel) ops _ B0 Ho) as H.
  eapply Forall_impl; [|exact H]. intros st Hb. split; [exact Hb|]. now apply binv_words.
Qed.
