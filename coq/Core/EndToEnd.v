(* C01 from raw bytes: "for any byte strings supplied as the segments of a message (any segment
   count, any arena, packed or unpacked framing) ...".  The framing models (Frame/Frame.v:
   Unmarshal, Decoder.Decode over any chunking; Frame/FramePacked.v: UnmarshalPacked over
   Packed/Packed.v unpack) are composed with the reader theorems of Core/SafetyProofs.v and the
   consumer theorems (Value/EqualSafe.v, Value/CanonSafe.v, Core/CopySafe.v).
   Until now [msg_ok] (every segment <= maxSegmentSize bytes, every byte 0..255) was a trusted
   hypothesis of all C01/C02 theorems; here it is DISCHARGED for every message the framing
   layer hands out: the only remaining hypothesis is that the input is a string of bytes
   ([bytes_ok b]: each element is 0..255, i.e. it is a []byte).
   The two layers have their own result types (Frame.res carries an error class); the Frame
   side is referred to by qualified names. *)
From CV Require Import Core.SafetyProofs Core.LimitProofs.
From CV Require Frame.Frame Frame.FrameProofs Frame.FrameSafe Frame.FrameStream Frame.FrameAlloc Frame.FramePacked
               Packed.Packed Packed.PackedProofs.
From Coq Require Import ZifyBool ZifyNat.
Open Scope Z_scope.
Ltac Zify.zify_post_hook ::= Z.div_mod_to_equations.

Module FR := CV.Frame.Frame.
Module FP := CV.Frame.FramePacked.
Module PK := CV.Packed.Packed.

(* the framing layer's and the reader's "string of bytes" / "length" are the same notions *)
Lemma bytes_ok_same l : PK.bytes_ok l <-> bytes_ok l.
Proof. reflexivity. Qed.
Lemma len_same {A} (l : list A) : FR.len l = zlen l.
Proof. reflexivity. Qed.
Lemma max_seg_same : FR.max_segment_size = maxSegmentSize.
Proof. reflexivity. Qed.

(* ------------------------------------------------------------------ segments made of input bytes *)
Lemma bytes_ok_concat_inv segs : bytes_ok (concat segs) -> Forall bytes_ok segs.
Proof.
  induction segs as [|s r IH]; cbn [concat]; intros H; [constructor|].
  apply Forall_app in H. destruct H as [H1 H2]. constructor; [exact H1|apply IH; exact H2].
Qed.

Lemma frame_msg_ok segs : CV.Frame.FrameProofs.segs_ok segs -> Forall bytes_ok segs -> msg_ok segs.
Proof.
  intros H1 H2. unfold msg_ok, CV.Frame.FrameProofs.segs_ok in *. rewrite Forall_forall in *. intros s Hs.
  destruct (H1 s Hs) as [_ Hl]. split; [exact Hl|apply H2; exact Hs].
Qed.

(* ------------------------------------------------------------------ Unmarshal *)
(* (1) every message Unmarshal returns satisfies msg_ok, for ALL byte strings: segmentSize
   rejects a size word whose 8-fold exceeds 2^32-8 or is negative as int32 (Size.times), so no
   segment is longer than maxSegmentSize; the segments are slices of the input. *)
Theorem unmarshal_msg_ok b segs : bytes_ok b -> FR.unmarshal b = FR.Ok segs -> msg_ok segs.
Proof.
  intros Hb E. destruct (CV.Frame.FrameSafe.unmarshal_cases b Hb) as [[e H]|(segs' & k & H & _ & _ & Hok & Hc)].
  - rewrite E in H. discriminate.
  - rewrite E in H. inversion H; subst segs'. apply frame_msg_ok; [exact Hok|].
    apply bytes_ok_concat_inv. rewrite Hc.
    apply CV.Frame.FrameSafe.bytes_ok_firstn. apply CV.Frame.FrameAlloc.bytes_ok_skipn. exact Hb.
Qed.

Theorem unmarshal_nopanic b : bytes_ok b -> FR.unmarshal b <> FR.Panic.
Proof. exact (CV.Frame.FrameSafe.unmarshal_safe b). Qed.

(* ------------------------------------------------------------------ UnmarshalPacked *)
Lemma take_bits_bytes : forall n tag src w s', bytes_ok src -> PK.take_bits n tag src = Some (w, s') ->
  bytes_ok w /\ bytes_ok s'.
Proof.
  induction n as [|n IH]; intros tag src w s' Hb H; cbn [PK.take_bits] in H.
  - inversion H; subst. split; [constructor|exact Hb].
  - destruct (Z.odd tag).
    + destruct src as [|x s]; [discriminate|]. inversion Hb as [|? ? Hx Hs]; subst.
      destruct (PK.take_bits n (tag / 2) s) as [[w0 s0]|] eqn:E; [|discriminate]. inversion H; subst.
      destruct (IH _ _ _ _ Hs E) as [A B]. split; [constructor; assumption|exact B].
    + destruct (PK.take_bits n (tag / 2) src) as [[w0 s0]|] eqn:E; [|discriminate]. inversion H; subst.
      destruct (IH _ _ _ _ Hb E) as [A B]. split; [constructor; [unfold PK.byte_ok; lia|assumption]|exact B].
Qed.

Lemma bytes_ok_zeros n : bytes_ok (PK.zeros n).
Proof. unfold PK.zeros. induction n; cbn; constructor; [lia|assumption]. Qed.

(* whatever Unpack returns is a string of bytes (input bytes and zeros) *)
Lemma unpack_s_bytes strict : forall n src out, (length src <= n)%nat -> bytes_ok src ->
  CV.Packed.PackedProofs.unpack_s strict src = Some out -> bytes_ok out.
Proof.
  induction n as [|n IH]; intros src out Hn Hb H.
  - destruct src; [|cbn in Hn; lia]. inversion H; subst. constructor.
  - destruct src as [|tag s]; [inversion H; subst; constructor|].
    rewrite CV.Packed.PackedProofs.unpack_s_cons in H. cbn [length] in Hn.
    inversion Hb as [|? ? Htag Hs]; subst.
    destruct (PK.take_bits 8 tag s) as [[w s1]|] eqn:E; [|discriminate].
    pose proof (CV.Packed.PackedProofs.take_bits_length _ _ _ _ _ E) as (Hw & Hle & _).
    destruct (take_bits_bytes _ _ _ _ _ Hs E) as [Bw Bs1].
    destruct (tag =? 0).
    { destruct s1 as [|c s2]; [discriminate|]. inversion Bs1 as [|? ? Hc Hs2]; subst.
      destruct (CV.Packed.PackedProofs.unpack_s strict s2) as [r|] eqn:E2; [|discriminate]. inversion H; subst.
      apply IH in E2; [|cbn [length] in Hle; lia|assumption].
      apply Forall_app. split; [exact Bw|]. apply Forall_app. split; [apply bytes_ok_zeros|exact E2]. }
    destruct (tag =? 255).
    { destruct s1 as [|c s2]; [discriminate|]. inversion Bs1 as [|? ? Hc Hs2]; subst. cbv zeta in H.
      destruct (strict && _); [discriminate|].
      destruct (CV.Packed.PackedProofs.unpack_s strict (skipn (8 * Z.to_nat c) s2)) as [r|] eqn:E2; [|discriminate].
      inversion H; subst.
      apply IH in E2; [|rewrite skipn_length; cbn [length] in Hle; lia|apply CV.Frame.FrameAlloc.bytes_ok_skipn; assumption].
      apply Forall_app. split; [exact Bw|]. apply Forall_app. split; [apply CV.Frame.FrameSafe.bytes_ok_firstn; assumption|].
      apply Forall_app. split; [apply bytes_ok_zeros|exact E2]. }
    destruct (CV.Packed.PackedProofs.unpack_s strict s1) as [r|] eqn:E2; [|discriminate]. inversion H; subst.
    apply IH in E2; [|lia|assumption]. apply Forall_app. split; assumption.
Qed.

Theorem unpack_bytes_ok p b : bytes_ok p -> PK.unpack p = Some b -> bytes_ok b.
Proof. intros Hp H. apply (unpack_s_bytes true (length p) p b (le_n _) Hp H). Qed.

Theorem unmarshal_packed_msg_ok p segs : bytes_ok p -> FP.unmarshal_packed p = FR.Ok segs -> msg_ok segs.
Proof.
  intros Hp. unfold FP.unmarshal_packed. destruct (FR.len p =? 0); [discriminate|].
  destruct (PK.unpack p) as [b|] eqn:E; [|discriminate].
  apply unmarshal_msg_ok. eapply unpack_bytes_ok; eassumption.
Qed.

Theorem unmarshal_packed_nopanic p : bytes_ok p -> FP.unmarshal_packed p <> FR.Panic.
Proof.
  intros Hp. unfold FP.unmarshal_packed. destruct (FR.len p =? 0); [discriminate|].
  destruct (PK.unpack p) as [b|] eqn:E; [|discriminate].
  apply unmarshal_nopanic. eapply unpack_bytes_ok; eassumption.
Qed.

(* ------------------------------------------------------------------ Decoder.Decode, any chunking *)
Lemma demux_loop_bytes : forall n hb i data segs, bytes_ok data ->
  FR.demux_loop n hb i data = FR.Ok segs -> Forall bytes_ok segs.
Proof.
  induction n as [|n IH]; intros hb i data segs Hb H; cbn [FR.demux_loop] in H.
  - inversion H. constructor.
  - destruct (FR.segment_size hb (FR.wrap32 i)) as [sz| |]; cbn [FR.bind] in H; try discriminate.
    destruct (FR.len data <? sz); [discriminate|].
    destruct (FR.demux_loop n hb (i + 1) (skipn (Z.to_nat sz) data)) as [r| |] eqn:E; cbn [FR.bind] in H; try discriminate.
    inversion H; subst. constructor.
    + apply CV.Frame.FrameSafe.bytes_ok_firstn. exact Hb.
    + eapply IH; [|exact E]. apply CV.Frame.FrameAlloc.bytes_ok_skipn. exact Hb.
Qed.

Lemma demux_arena_bytes hb data segs : bytes_ok data -> FR.demux_arena hb data = FR.Ok segs -> Forall bytes_ok segs.
Proof.
  intros Hb. unfold FR.demux_arena. destruct (FR.max_segment hb); cbn [FR.bind]; try discriminate.
  apply demux_loop_bytes. exact Hb.
Qed.

Lemma decode_body_bytes st maxSize maxSeg hb log st' segs log' :
  bytes_ok (concat (FR.r_chunks (FR.d_rd st))) ->
  FR.decode_body st maxSize maxSeg hb log = (st', FR.DMsg segs, log') -> Forall bytes_ok segs.
Proof.
  intros Hb. unfold FR.decode_body, FR.gdecode_body.
  destruct (FR.total_size hb) as [total| |]; try (intros X; inversion X; fail).
  destruct (_ || _); [intros X; inversion X|].
  destruct (negb (FR.d_reuse st)).
  - destruct (FR.read_full (FR.d_rd st) total) as [o r'] eqn:Er.
    destruct (CV.Frame.FrameAlloc.read_full_bytes_ok _ _ _ _ Hb Er) as [_ Hbuf].
    destruct o as [buf| |]; try (intros X; inversion X; fail).
    destruct (FR.demux_arena hb buf) as [s| |] eqn:Ed; intros X; inversion X; subst.
    eapply demux_arena_bytes; [apply Hbuf; reflexivity|exact Ed].
  - destruct (FR.resize (FR.d_bufcap st) total) as [cap' fresh]. cbn [FR.d_rd].
    destruct (FR.read_full (FR.d_rd st) total) as [o r'] eqn:Er.
    destruct (CV.Frame.FrameAlloc.read_full_bytes_ok _ _ _ _ Hb Er) as [_ Hbuf].
    destruct o as [buf| |]; try (intros X; inversion X; fail).
    destruct (maxSeg =? 0).
    + intros X; inversion X; subst. constructor; [apply Hbuf; reflexivity|constructor].
    + destruct (FR.demux_arena hb buf) as [s| |] eqn:Ed; intros X; inversion X; subst.
      eapply demux_arena_bytes; [apply Hbuf; reflexivity|exact Ed].
Qed.

Lemma decode1_bytes st st' segs log :
  bytes_ok (concat (FR.r_chunks (FR.d_rd st))) ->
  FR.decode1 st = (st', FR.DMsg segs, log) -> Forall bytes_ok segs.
Proof.
  intros Hb. unfold FR.decode1, FR.decode1_gen, FR.gdecode1_gen.
  change (@FR.gdecode_body FR.reader FR.read_full) with FR.decode_body.
  destruct (_ && _); [intros X; inversion X|].
  destruct (FR.read_full (FR.d_rd st) FR.word_size) as [o r'] eqn:Er.
  destruct (CV.Frame.FrameAlloc.read_full_bytes_ok _ _ _ _ Hb Er) as [Hr' _].
  destruct o as [w| |]; try (intros X; inversion X; fail).
  destruct (_ >? _); [intros X; inversion X|].
  destruct (FR.le32_get w =? 0).
  - apply decode_body_bytes. cbn [FR.with_rd FR.d_rd]. exact Hr'.
  - destruct (_ || _); [intros X; inversion X|].
    destruct (FR.resize _ _) as [cap' fresh]. cbn [FR.d_rd FR.with_rd].
    destruct (FR.read_full r' _) as [o2 r2] eqn:Er2.
    destruct (CV.Frame.FrameAlloc.read_full_bytes_ok _ _ _ _ Hr' Er2) as [Hr2 _].
    destruct o2 as [rest| |]; try (intros X; inversion X; fail).
    apply decode_body_bytes. cbn [FR.with_rd FR.d_rd]. exact Hr2.
Qed.

(* one Decode on ANY byte stream, cut into ANY chunks, any decoder state: no panic, and a
   decoded message satisfies msg_ok; the rest of the stream is still a byte stream *)
Theorem decode1_msg_ok cs fin hc bc ru mx st' out log :
  bytes_ok (concat cs) -> 0 <= mx < FR.two64 ->
  FR.decode1 (FR.mkD (FR.mkReader cs fin) hc bc ru mx) = (st', out, log) ->
  out <> FR.DPanic /\ (forall segs, out = FR.DMsg segs -> msg_ok segs) /\
  CV.Frame.FrameAlloc.st_ok st'.
Proof.
  intros Hb Hmx E.
  destruct (CV.Frame.FrameAlloc.alloc_bound cs fin hc bc ru mx st' out log Hb Hmx E) as (_ & _ & NP & Hm & Hb' & Hmx').
  split; [exact NP|]. split.
  - intros segs ->. destruct (Hm segs eq_refl) as (_ & Hok & _). apply frame_msg_ok; [exact Hok|].
    eapply decode1_bytes; [|exact E]. exact Hb.
  - split; [exact Hb'|]. rewrite Hmx'. exact Hmx.
Qed.

(* any history of Decode / ReuseBuffer / MaxMessageSize assignments on any chunked byte stream *)
Theorem decode_history_msg_ok : forall ops st st' outs,
  CV.Frame.FrameAlloc.st_ok st -> FR.run_history st ops = (st', outs) ->
  Forall (fun ol => fst ol <> FR.DPanic /\ forall segs, fst ol = FR.DMsg segs -> msg_ok segs) outs.
Proof.
  induction ops as [|o ops IH]; intros st st' outs Hst E; cbn [FR.run_history] in E.
  - inversion E. constructor.
  - destruct (FR.dstep st o) as [st1 r] eqn:Es. destruct (FR.run_history st1 ops) as [st2 outs2] eqn:Er.
    inversion E; subst. clear E. unfold FR.dstep, FR.dstep_gen in Es. destruct o.
    + change (FR.decode1_gen true st) with (FR.decode1 st) in Es.
      destruct (FR.decode1 st) as [[st1' out] log] eqn:Ed. inversion Es; subst. clear Es.
      destruct st as [[cs fin] hc bc ru mx]. destruct Hst as [Hb Hmx]. cbn [FR.d_rd FR.r_chunks FR.d_max] in *.
      destruct (decode1_msg_ok cs fin hc bc ru mx st1 out log Hb Hmx Ed) as (NP & Hm & Hst1).
      constructor; [cbn [fst]; split; assumption|]. eapply IH; eassumption.
    + inversion Es; subst. eapply IH; [|exact Er]. exact Hst.
    + inversion Es; subst. eapply IH; [|exact Er]. destruct Hst as [Hb _]. split; [exact Hb|].
      cbn [FR.d_max]. unfold FR.wrap64, FR.two64. lia.
Qed.

(* ================================================================== reading what was decoded *)
From CV Require Import Value.EqualM Value.EqualSafe Value.CanonM Value.CanonSafe Core.Builder Core.CopySafe.

(* the repaired configuration of the reader *)
Definition repaired (c : config) (fx : fixes) : Prop :=
  cfg_strict c = true /\ cfg_root c = true /\ fx_bit fx = true.

(* every in-domain read-side API call sequence on [segs] is panic-free and only creates
   well-formed handles *)
Definition read_safe (c : config) (fx : fixes) (m : segs) : Prop :=
  forall ops, run_dom c fx m (init_state c) ops = true ->
    Forall oval_ok (run_ops c fx m ops) /\ state_wf m (fst (run c fx m (init_state c) ops)).

Lemma msg_ok_read_safe c fx m : repaired c fx -> msg_ok m -> read_safe c fx m.
Proof. intros (H1 & H2 & H3) Hm ops Hd. apply run_safe; assumption. Qed.

(* (2) Unmarshal never panics and everything read from its result is safe *)
Theorem unmarshal_then_read_safe b c fx : bytes_ok b -> repaired c fx ->
  match FR.unmarshal b with
  | FR.Ok segs => msg_ok segs /\ read_safe c fx segs
  | FR.Err _ => True
  | FR.Panic => False
  end.
Proof.
  intros Hb Hr. pose proof (unmarshal_nopanic b Hb) as NP.
  destruct (FR.unmarshal b) as [segs|e|] eqn:E; [|exact I|congruence].
  pose proof (unmarshal_msg_ok b segs Hb E) as Hm. split; [exact Hm|apply msg_ok_read_safe; assumption].
Qed.

Theorem unmarshal_packed_then_read_safe p c fx : bytes_ok p -> repaired c fx ->
  match FP.unmarshal_packed p with
  | FR.Ok segs => msg_ok segs /\ read_safe c fx segs
  | FR.Err _ => True
  | FR.Panic => False
  end.
Proof.
  intros Hb Hr. pose proof (unmarshal_packed_nopanic p Hb) as NP.
  destruct (FP.unmarshal_packed p) as [segs|e|] eqn:E; [|exact I|congruence].
  pose proof (unmarshal_packed_msg_ok p segs Hb E) as Hm. split; [exact Hm|apply msg_ok_read_safe; assumption].
Qed.

(* the streaming Decoder on any byte stream in any chunking, any history of Decode / ReuseBuffer /
   MaxMessageSize: no Decode panics, every decoded message is msg_ok and safe to read *)
Theorem decode_then_read_safe cs fin hc bc ru mx ops c fx st' outs :
  bytes_ok (concat cs) -> 0 <= mx < FR.two64 -> repaired c fx ->
  FR.run_history (FR.mkD (FR.mkReader cs fin) hc bc ru mx) ops = (st', outs) ->
  Forall (fun ol => fst ol <> FR.DPanic /\
                    forall segs, fst ol = FR.DMsg segs -> msg_ok segs /\ read_safe c fx segs) outs.
Proof.
  intros Hb Hmx Hr E.
  pose proof (decode_history_msg_ok ops (FR.mkD (FR.mkReader cs fin) hc bc ru mx) st' outs (conj Hb Hmx) E) as H.
  eapply Forall_impl; [|exact H]. cbv beta. intros ol [NP Hm]. split; [exact NP|].
  intros segs Es. specialize (Hm segs Es). split; [exact Hm|apply msg_ok_read_safe; assumption].
Qed.

(* ================================================================== the consumers, from raw bytes *)
Lemma root_shape c m rl p : fst (root c m rl) = Ok p -> shape_ok p.
Proof.
  unfold root. destruct (lookup_segment m 0); try discriminate.
  destruct (negb _); [destruct (cfg_root c); discriminate|]. apply readPtr_shape.
Qed.

(* the harness selector (root, or field i of the root struct) hands out a well-formed pointer *)
Lemma select_safe c m rl s : msg_ok m -> cfg_strict c = true -> cfg_root c = true -> 0 <= rl ->
  (match s with SelField i => 0 <= i | SelRoot => True end) ->
  res_sat (fst (select c m rl s)) (wf_ptr m) /\ 0 <= snd (select c m rl s) <= rl.
Proof.
  intros Hm Hs Hr Hrl Hi. unfold select.
  pose proof (root_safe c m rl Hm Hr) as R. pose proof (root_charge c m rl Hrl) as [RC _].
  destruct s as [|i].
  - split; [eapply res_sat_weaken; [exact R|auto]|exact RC].
  - destruct (root c m rl) as [r rl1]. cbn [fst snd] in *.
    destruct r as [p| |]; cbn [res_sat fst snd] in *; [|split; [exact I|lia]|destruct R].
    pose proof (struct_ptr_safe c m rl1 (as_struct p) i Hm (wf_struct_as_struct m p (R Hs)) Hi) as S.
    pose proof (struct_ptr_charge c m rl1 (as_struct p) i ltac:(lia)) as [SC _].
    split; [eapply res_sat_weaken; [exact S|auto]|lia].
Qed.

(* capnp.Equal on the roots (or root fields) of two messages obtained from raw bytes *)
Theorem equal_from_bytes_safe b1 b2 sa sb fuel ca cb fx capsa capsb same sela selb :
  bytes_ok b1 -> bytes_ok b2 -> FR.unmarshal b1 = FR.Ok sa -> FR.unmarshal b2 = FR.Ok sb ->
  cfg_strict ca = true -> cfg_root ca = true -> cfg_strict cb = true -> cfg_root cb = true ->
  0 <= cfg_T ca -> 0 <= cfg_T cb ->
  (match sela with SelField i => 0 <= i | SelRoot => True end) ->
  (match selb with SelField i => 0 <= i | SelRoot => True end) ->
  fst (fst (run_equal fuel ca cb fx sa capsa sb capsb same sela selb)) <> EPanic.
Proof.
  intros Hb1 Hb2 E1 E2 Sa Ra Sb Rb Ta Tb Hia Hib.
  pose proof (unmarshal_msg_ok b1 sa Hb1 E1) as Ma. pose proof (unmarshal_msg_ok b2 sb Hb2 E2) as Mb.
  unfold run_equal.
  destruct (select_safe ca sa (init_rlimit ca) sela Ma Sa Ra (init_rlimit_nonneg ca Ta) Hia) as [P1 P2].
  destruct (select ca sa (init_rlimit ca) sela) as [rp rla]. cbn [fst snd] in *.
  assert (res_sat (fst (if same then select ca sa rla selb else select cb sb (init_rlimit cb) selb))
                  (wf_ptr (if same then sa else sb)) /\
          0 <= snd (if same then select ca sa rla selb else select cb sb (init_rlimit cb) selb)) as [Q1 Q2].
  { destruct same.
    - destruct (select_safe ca sa rla selb Ma Sa Ra ltac:(lia) Hib) as [A B]. split; [exact A|lia].
    - destruct (select_safe cb sb (init_rlimit cb) selb Mb Sb Rb (init_rlimit_nonneg cb Tb) Hib) as [A B]. split; [exact A|lia]. }
  destruct (if same then select ca sa rla selb else select cb sb (init_rlimit cb) selb) as [rq rlb]. cbn [fst snd] in *.
  destruct rp as [p| |]; cbn [res_sat] in P1; [|destruct rq; cbn; try discriminate; destruct Q1|destruct P1].
  destruct rq as [q| |]; cbn [res_sat] in Q1; [|cbn; discriminate|destruct Q1].
  set (x := mkEC sa capsa sb capsb same).
  assert (ectx_ok x) as Hx.
  { split; [rewrite segs_of_SA; exact Ma|]. unfold segs_of, on_a, x. cbn [ec_same ec_segs_a ec_segs_b].
    destruct same; cbn [orb]; assumption. }
  assert (wf_ptr (segs_of x SB) q) as Hq.
  { unfold segs_of, on_a, x. cbn [ec_same ec_segs_a ec_segs_b]. destruct same; cbn [orb]; exact Q1. }
  assert (lims_nonneg (if same then (rlb, 0) else (rla, rlb))) as Hw
    by (destruct same; unfold lims_nonneg; cbn [fst snd]; lia).
  pose proof (equal_m_good ca fx x Hx Sa fuel _ p q ltac:(rewrite segs_of_SA; exact P1) Hq Hw) as [G _].
  destruct (equal_m fuel ca fx x _ p q) as [r w']. cbn [fst] in *. exact G.
Qed.

(* capnp.Canonicalize on the root struct (or a root field) of a message obtained from raw bytes *)
Theorem canon_from_bytes_safe b segs fuel c fx sel :
  bytes_ok b -> FR.unmarshal b = FR.Ok segs ->
  cfg_strict c = true -> cfg_root c = true -> cx_complist fx = true -> 0 <= cfg_T c ->
  (match sel with SelField i => 0 <= i | SelRoot => True end) ->
  run_canon fuel c fx segs sel <> KPanic.
Proof.
  intros Hb E Hs Hr Hc HT Hi. pose proof (unmarshal_msg_ok b segs Hb E) as Hm. unfold run_canon.
  destruct (select_safe c segs (init_rlimit c) sel Hm Hs Hr (init_rlimit_nonneg c HT) Hi) as [P1 P2].
  destruct (select c segs (init_rlimit c) sel) as [rp rl]. cbn [fst snd] in *.
  destruct rp as [p| |]; cbn [res_sat] in P1; [|discriminate|destruct P1].
  apply (canonicalize_safe c fx fuel segs rl (as_struct p) Hs Hc Hm (wf_struct_as_struct segs p P1)). lia.
Qed.

(* deep copy into a fresh message (Message.SetRoot across messages) of the root of a message
   obtained from raw bytes *)
Definition copy_root (fuel : nat) (c : config) (segs : segs) : res world :=
  match root c segs (init_rlimit c) with
  | (Ok p, rl) =>
    match new_message ASingle [] 0 with
    | Ok m0 => set_root fuel (mkW m0 segs rl) InSrc p
    | _ => Err
    end
  | (Err, _) => Err
  | (Panic, _) => Panic
  end.

Lemma new_single_region : exists m0, new_message ASingle [] 0 = Ok m0 /\ dok m0 /\ region_ok m0 0 0 8.
Proof.
  eexists. split; [vm_compute; reflexivity|]. split.
  - split; [split|].
    + repeat constructor; cbn; lia.
    + intros _. reflexivity.
    + intros i. unfold BuilderFacts.mem, get_seg. cbn. destruct (Z.to_nat i) as [|[|n]]; cbn; unfold maxSegmentSize; lia.
  - unfold region_ok. cbn. lia.
Qed.

Theorem copy_from_bytes_safe b segs fuel c :
  bytes_ok b -> FR.unmarshal b = FR.Ok segs ->
  cfg_strict c = true -> cfg_root c = true -> 0 <= cfg_T c ->
  copy_root fuel c segs <> Panic.
Proof.
  intros Hb E Hs Hr HT. pose proof (unmarshal_msg_ok b segs Hb E) as Hm. unfold copy_root.
  pose proof (root_safe c segs (init_rlimit c) Hm Hr) as R.
  pose proof (root_charge c segs (init_rlimit c) (init_rlimit_nonneg c HT)) as [[RC _] _].
  pose proof (root_shape c segs (init_rlimit c)) as SH.
  destruct (root c segs (init_rlimit c)) as [r rl]. cbn [fst snd] in *.
  destruct r as [p| |]; cbn [res_sat] in R; [|discriminate|destruct R].
  destruct new_single_region as (m0 & -> & D0 & R0).
  unfold set_root, set_root_gen. cbv zeta. cbn [w_dst].
  destruct (bm_segs m0) as [|s0 rest]; [discriminate|].
  destruct (negb _); [discriminate|].
  pose proof (write_ptr_safe fuel (mkW m0 segs rl) 0 0 p false D0 Hm RC R0 (R Hs) (SH p eq_refl)) as W.
  destruct (write_ptr fuel true (mkW m0 segs rl) 0 0 InSrc p false); [discriminate|discriminate|destruct W].
Qed.

(* ================================================================== NewPackedDecoder (streaming) *)
(* The streaming Decoder over packed.Reader, for a packed stream P that unpacks (unpack P = Some
   U, arbitrary content U): by the simulation of Frame/FrameSim.v it behaves like the plain
   Decoder over U as long as messages come out, so every decoded message is msg_ok and safe to
   read.  (For a packed stream that does NOT unpack the one-shot UnmarshalPacked reports an
   error, see unmarshal_packed_then_read_safe; the streaming decoder on such a stream is covered
   by C14's no-panic theorems only up to the point of corruption.) *)
From CV Require Frame.FrameSim Frame.FramePackedThms Frame.FrameThms.

Theorem pdecode_n_then_read_safe P U orc hc bc ru mx c fx n k :
  bytes_ok P -> PK.unpack P = Some U -> 0 <= mx < FR.two64 -> repaired c fx -> (k < n)%nat ->
  let outs_plain := snd (FR.decode_n (FR.mkD (FR.mkReader [U] PK.EOF) hc bc ru mx) n) in
  let outs_packed := snd (FP.pdecode_n (FR.mkD (FP.p_init orc P) hc bc ru mx) n) in
  CV.Frame.FrameSim.all_msgs (firstn k outs_plain) = true ->
  let o := nth k outs_packed (FR.DEof, []) in
  nth k outs_packed (FR.DEof, []) = nth k outs_plain (FR.DEof, []) /\
  fst o <> FR.DPanic /\ forall segs, fst o = FR.DMsg segs -> msg_ok segs /\ read_safe c fx segs.
Proof.
  intros HP HU Hmx Hr Hk outs_plain outs_packed Hall o.
  assert (bytes_ok (concat [U])) as HbU by (cbn [concat]; rewrite app_nil_r; eapply unpack_bytes_ok; eassumption).
  pose proof (CV.Frame.FramePackedThms.st_sim_init orc P U [U] hc bc ru mx HP HU ltac:(cbn [concat]; apply app_nil_r)) as Hs.
  pose proof (CV.Frame.FrameSim.gdecode_n_sim FP.preader FR.reader FP.pread_full FR.read_full CV.Frame.FrameSim.psim
                CV.Frame.FramePackedThms.psim_rf n _ _ Hs) as [_ H2].
  cbv zeta in H2. specialize (H2 k Hk).
  rewrite <- CV.Frame.FramePackedThms.decode_n_gdecode_n in H2.
  change (CV.Frame.FramePacked.gdecode_n FP.pread_full) with FP.pdecode_n in H2.
  fold outs_plain in H2. fold outs_packed in H2. specialize (H2 Hall).
  assert (nth k outs_packed (FR.DEof, []) = nth k outs_plain (FR.DEof, [])) as En.
  { rewrite <- (CV.Core.BuilderFacts.nth_firstn_lt k (S k) outs_packed (FR.DEof, [])) by lia.
    rewrite <- (CV.Core.BuilderFacts.nth_firstn_lt k (S k) outs_plain (FR.DEof, [])) by lia. rewrite H2. reflexivity. }
  split; [exact En|]. subst o. rewrite En.
  destruct (FR.decode_n (FR.mkD (FR.mkReader [U] PK.EOF) hc bc ru mx) n) as [st' outs] eqn:Ed.
  unfold FR.decode_n in Ed.
  pose proof (decode_then_read_safe [U] PK.EOF hc bc ru mx (repeat FR.OpDecode n) c fx st' outs HbU Hmx Hr Ed) as F.
  assert (length outs = n) as Ln.
  { pose proof (CV.Frame.FramePackedThms.gdecode_n_length FR.read_full n (FR.mkD (FR.mkReader [U] PK.EOF) hc bc ru mx)) as L.
    rewrite <- CV.Frame.FramePackedThms.decode_n_gdecode_n in L. unfold FR.decode_n in L. rewrite Ed in L. exact L. }
  cbn [snd] in outs_plain. subst outs_plain.
  rewrite Forall_forall in F. apply F. apply nth_In. lia.
Qed.

(* ================================================================== non-vacuity *)
(* 72 raw bytes: a one-segment stream frame (table: 1 segment of 8 words) holding a struct with a
   data word, a text field "hi" and a composite list; Unmarshal, then the read API *)
Definition raw_example : list Z :=
  [0;0;0;0; 8;0;0;0;
   0;0;0;0;1;0;2;0;  42;0;0;0;0;0;0;0;  5;0;0;0;26;0;0;0;  5;0;0;0;23;0;0;0;
   104;105;0;0;0;0;0;0;  8;0;0;0;1;0;0;0;  1;0;0;0;0;0;0;0;  2;0;0;0;0;0;0;0].

Example raw_example_reads :
  bytes_ok raw_example /\
  exists segs, FR.unmarshal raw_example = FR.Ok segs /\
  let c := mkCfg 1000 4 true true in let fx := mkFix true true true in
  let ops := [ORoot; OSPtr 0 0; OText 1; OUint 0 0 4] in
  run_dom c fx segs (init_state c) ops = true /\
  exists p0 p1, run_ops c fx segs ops = [VPtr (Ok p0); VPtr (Ok p1); VBytes (Ok (Some [104; 105])); VNum (Ok 42)].
Proof.
  split; [repeat constructor; lia|].
  eexists. split; [vm_compute; reflexivity|]. cbv zeta. split; [vm_compute; reflexivity|].
  do 2 eexists. vm_compute. reflexivity.
Qed.

(* the same bytes packed (packed.Pack of the frame) go through UnmarshalPacked *)
Example raw_example_packed :
  exists p, PK.pack_bytes raw_example = Some p /\ bytes_ok p /\
  FP.unmarshal_packed p = FR.unmarshal raw_example.
Proof.
  eexists. split; [vm_compute; reflexivity|]. split; [repeat constructor; lia|]. vm_compute. reflexivity.
Qed.
