(* General facts about the L0 arithmetic (Arith.v) and the memory primitives of Reader.v.
   Everything here is stated for ALL arguments in the stated ranges (no sampling). *)
From CV Require Export Core.ReadOps.
From Coq Require Import ZifyBool.
From CV Require Import Core.ArithFacts.
Open Scope Z_scope.
Ltac Zify.zify_post_hook ::= Z.div_mod_to_equations.

(* case split on the condition of the first [if] of the goal *)
Ltac dif := match goal with |- context [if ?b then _ else _] => destruct b eqn:? end.

(* ------------------------------------------------------------------ standing ranges *)
Definition two32 := 4294967296.
Definition two64 := 18446744073709551616.

Definition bytes_ok (s : seg) : Prop := Forall (fun b => 0 <= b < 256) s.
(* a segment the Go code can hold: at most maxSegmentSize bytes, each a uint8 *)
Definition seg_ok (s : seg) : Prop := zlen s <= maxSegmentSize /\ bytes_ok s.
Definition msg_ok (m : segs) : Prop := Forall seg_ok m.

Definition wf_size (sz : ObjectSize) : Prop :=
  0 <= DataSize sz <= 524280 /\ 0 <= PointerCount sz < 65536.

(* ------------------------------------------------------------------ wrap-around *)
Lemma u32_id z : 0 <= z < 4294967296 -> u32 z = z.
Proof. unfold u32. intros. apply Z.mod_small. lia. Qed.
Lemma u64_id z : 0 <= z < 18446744073709551616 -> u64 z = z.
Proof. unfold u64. intros. apply Z.mod_small. lia. Qed.
Lemma u32_range z : 0 <= u32 z < 4294967296.
Proof. unfold u32. lia. Qed.
Lemma u64_range z : 0 <= u64 z < 18446744073709551616.
Proof. unfold u64. lia. Qed.
Lemma s32_range z : -2147483648 <= s32 z < 2147483648.
Proof. unfold s32. cbv zeta. destruct (_ <? _) eqn:E; lia. Qed.
Lemma s32_id z : -2147483648 <= z < 2147483648 -> s32 z = z.
Proof. unfold s32. cbv zeta. intros. destruct (_ <? _) eqn:E; lia. Qed.

(* ------------------------------------------------------------------ address.go *)
Lemma addSize_spec a sz x :
  addSize a sz = Some x <-> (x = a + sz /\ a + sz <= maxSegmentSize).
Proof.
  unfold addSize, maxSegmentSize. cbv zeta. destruct (_ >? _) eqn:E; split; intros H.
  - discriminate.
  - lia.
  - inversion H. lia.
  - destruct H as [-> _]. reflexivity.
Qed.
Lemma addSize_none a sz : addSize a sz = None <-> a + sz > maxSegmentSize.
Proof. unfold addSize, maxSegmentSize. cbv zeta. destruct (_ >? _) eqn:E; split; intros; try discriminate; try reflexivity; lia. Qed.

Lemma element_spec a i sz x :
  element a i sz = Some x <-> (x = a + i * sz /\ 0 <= a + i * sz <= maxSegmentSize).
Proof.
  unfold element, maxSegmentSize. cbv zeta.
  destruct (_ >? _) eqn:E1; destruct (_ <? _) eqn:E2; cbn [orb]; split; intros H;
    try discriminate; try lia; try (inversion H; lia); try (destruct H as [-> _]; reflexivity).
Qed.
Lemma element_none a i sz :
  element a i sz = None <-> (a + i * sz > maxSegmentSize \/ a + i * sz < 0).
Proof.
  unfold element, maxSegmentSize. cbv zeta.
  destruct (_ >? _) eqn:E1; destruct (_ <? _) eqn:E2; cbn [orb]; split; intros H;
    try discriminate; try reflexivity; lia.
Qed.

Lemma times_spec sz n x :
  times sz n = Some x <-> (x = sz * n /\ 0 <= sz * n <= maxSegmentSize).
Proof.
  unfold times, maxSegmentSize. cbv zeta.
  destruct (_ >? _) eqn:E1; destruct (_ <? _) eqn:E2; cbn [orb]; split; intros H;
    try discriminate; try lia; try (inversion H; lia); try (destruct H as [-> _]; reflexivity).
Qed.

Lemma addOffset_spec a o x : addOffset a o = Some x <-> (o < 524288 /\ x = u32 (a + o)).
Proof.
  unfold addOffset. destruct (_ >=? _) eqn:E; split; intros H; try discriminate; try lia.
  - inversion H. lia.
  - destruct H as [_ ->]. reflexivity.
Qed.
Lemma addOffset_none a o : addOffset a o = None <-> o >= 524288.
Proof. unfold addOffset. destruct (_ >=? _) eqn:E; split; intros H; try discriminate; try reflexivity; lia. Qed.

Lemma totalSize_wf sz : wf_size sz -> totalSize sz = DataSize sz + 8 * PointerCount sz.
Proof.
  unfold wf_size, totalSize, pointerSize. intros [H1 H2].
  rewrite (u32_id (8 * _)) by lia. apply u32_id. lia.
Qed.
Lemma totalSize_nonneg sz : 0 <= totalSize sz < 4294967296.
Proof. apply u32_range. Qed.
Lemma totalSize_bound sz : wf_size sz -> 0 <= totalSize sz <= 1048560.
Proof. intros H. rewrite totalSize_wf by assumption. unfold wf_size in H. lia. Qed.

(* ------------------------------------------------------------------ rawpointer.go *)
Lemma pointerType_cases p :
  pointerType p = 0 \/ pointerType p = 1 \/ pointerType p = 2 \/ pointerType p = 3 \/ pointerType p = 6.
Proof. unfold pointerType. cbv zeta. destruct (_ =? _) eqn:E; lia. Qed.

Lemma pointerType_mod4 p t : (t = 0 \/ t = 1 \/ t = 3) -> (pointerType p = t <-> p mod 4 = t).
Proof. unfold pointerType. cbv zeta. intros Ht. destruct (_ =? _) eqn:E; lia. Qed.

Lemma ptr_offset_range p : -536870912 <= ptr_offset p < 536870912.
Proof. unfold ptr_offset. pose proof (s32_range p). lia. Qed.

Lemma structSize_wf p : wf_size (structSize p).
Proof.
  unfold wf_size, structSize, timesUnchecked. cbn [DataSize PointerCount].
  set (c := (p / 4294967296) mod 65536).
  assert (0 <= c < 65536) by (subst c; lia).
  rewrite (u32_id c) by lia. rewrite u32_id by lia. lia.
Qed.
Lemma structSize_data p : DataSize (structSize p) = 8 * ((p / 4294967296) mod 65536).
Proof.
  unfold structSize, timesUnchecked. cbn [DataSize].
  set (c := (p / 4294967296) mod 65536).
  assert (0 <= c < 65536) by (subst c; lia).
  rewrite (u32_id c) by lia. rewrite u32_id by lia. reflexivity.
Qed.

Lemma listType_range p : 0 <= listType p < 8.
Proof. unfold listType. lia. Qed.

Lemma numListElements_range p : 0 <= p < 18446744073709551616 -> 0 <= numListElements p < 536870912.
Proof.
  unfold numListElements. intros H.
  assert (0 <= p / 34359738368 < 536870912) by lia.
  rewrite s32_id by lia. assumption.
Qed.

Lemma elementSize_total p : listType p <> 7 -> exists es, elementSize p = Some es.
Proof.
  intros H. pose proof (listType_range p) as R. unfold elementSize. cbv zeta.
  repeat (dif; [eexists; reflexivity|]). lia.
Qed.

(* the element sizes of the non-composite list kinds *)
Lemma elementSize_cases p es : elementSize p = Some es ->
  es = mkOS 0 0 \/ es = mkOS 1 0 \/ es = mkOS 2 0 \/ es = mkOS 4 0 \/ es = mkOS 8 0 \/ es = mkOS 0 1.
Proof.
  unfold elementSize. cbv zeta.
  repeat (dif; [intros H; inversion H; tauto|]). discriminate.
Qed.
Lemma elementSize_wf p es : elementSize p = Some es -> wf_size es /\ 0 <= totalSize es <= 8.
Proof.
  intros H. apply elementSize_cases in H.
  destruct H as [ -> | [ -> | [ -> | [ -> | [ -> | -> ] ] ] ] ]; unfold wf_size; cbn; lia.
Qed.

(* the panic marker of totalListSize is unreachable: elementSize is only called on
   non-composite list types *)
Lemma totalListSize_total p : totalListSize p <> None.
Proof.
  unfold totalListSize. cbv zeta.
  destruct (listType p =? 1) eqn:E1; [discriminate|].
  destruct (listType p =? 7) eqn:E7; [discriminate|].
  destruct (elementSize_total p) as [es ->]; [lia|]. discriminate.
Qed.

Lemma bitListSize_spec n : 0 <= n < 536870912 -> bitListSize n = (n + 7) / 8.
Proof. intros H. unfold bitListSize. apply u32_id. lia. Qed.

Lemma farAddress_range p : 0 <= farAddress p <= 4294967288 /\ farAddress p mod 8 = 0.
Proof. unfold farAddress, u32. split; [lia|]. apply Z.mod_mul. lia. Qed.
Lemma farSegment_range p : 0 <= farSegment p < 4294967296.
Proof. apply u32_range. Qed.

(* landingPadNearPointer keeps the tag's pointer type and upper half, and takes the word
   offset from the far pointer's (byte) address.  The type is only kept because the first
   landing-pad word was checked to be a (single) far pointer: bit 2 of [far] is then 0. *)
Lemma pointerType_far p : pointerType p = farPointer <-> p mod 8 = 2.
Proof. unfold pointerType, farPointer. cbv zeta. destruct (_ =? _) eqn:E; lia. Qed.
(* Go ORs the two fields (Arith.landingPadNearPointer is a Z.lor); for a far pointer the
   fields are disjoint and the OR is the sum (ArithFacts.landingPadNearPointer_sum). *)
Lemma landingPad_mod4 far tag : far mod 8 = 2 -> landingPadNearPointer far tag mod 4 = tag mod 4.
Proof. intros H. rewrite landingPadNearPointer_sum by (left; exact H). unfold u32. lia. Qed.
Lemma landingPad_type far tag : far mod 8 = 2 -> (tag mod 4 = 0 \/ tag mod 4 = 1) ->
  pointerType (landingPadNearPointer far tag) = pointerType tag.
Proof.
  intros Hf H. unfold pointerType. cbv zeta. rewrite landingPad_mod4 by assumption.
  destruct (tag mod 4 =? 2) eqn:E; [lia|reflexivity].
Qed.
Lemma landingPad_hi far tag : far mod 8 = 2 -> 0 <= tag ->
  landingPadNearPointer far tag / 4294967296 = tag / 4294967296.
Proof. intros H. rewrite landingPadNearPointer_sum by (left; exact H). unfold u32. lia. Qed.
Lemma landingPad_range far tag : far mod 8 = 2 -> 0 <= tag < 18446744073709551616 ->
  0 <= landingPadNearPointer far tag < 18446744073709551616.
Proof. intros H. rewrite landingPadNearPointer_sum by (left; exact H). unfold u32. lia. Qed.
Lemma landingPad_offset far tag : far mod 8 = 2 ->
  ptr_offset (landingPadNearPointer far tag) = farAddress far / 8.
Proof.
  intros Hf. rewrite landingPadNearPointer_sum by (left; exact Hf).
  unfold ptr_offset, farAddress, s32, u32. cbv zeta.
  destruct (_ <? _) eqn:E; lia.
Qed.

(* ------------------------------------------------------------------ memory *)
Lemma zlen_nonneg {A} (l : list A) : 0 <= zlen l.
Proof. unfold zlen. lia. Qed.

Lemma regionInBounds_spec s base sz :
  regionInBounds s base sz = true <-> (base + sz <= maxSegmentSize /\ base + sz <= zlen s).
Proof.
  unfold regionInBounds. destruct (addSize base sz) as [e|] eqn:E.
  - apply addSize_spec in E. destruct E as [-> E]. split; intros H; [|destruct H]; lia.
  - apply addSize_none in E. split; intros H; [discriminate|lia].
Qed.
Lemma regionInBounds_false s base sz :
  regionInBounds s base sz = false <-> (base + sz > maxSegmentSize \/ base + sz > zlen s).
Proof.
  pose proof (regionInBounds_spec s base sz) as H.
  destruct (regionInBounds s base sz); split; intros G; try discriminate; try reflexivity.
  - exfalso. assert (true = true) as T by reflexivity. apply H in T. lia.
  - destruct (Z_le_gt_dec (base + sz) maxSegmentSize); [|lia].
    destruct (Z_le_gt_dec (base + sz) (zlen s)); [|lia].
    assert (false = true) by (apply H; lia). discriminate.
Qed.

(* the slice primitive: when the requested range lies inside the segment the Go slice
   expression does not panic, and what it yields is a sub-list of the segment *)
Definition sub (s : seg) (base sz : Z) : list Z := firstn (Z.to_nat sz) (skipn (Z.to_nat base) s).

Lemma slice_ok s base sz :
  0 <= base -> 0 <= sz -> base + sz <= zlen s -> zlen s < 4294967296 ->
  slice s base sz = Ok (sub s base sz).
Proof.
  intros Hb Hs He Hl. unfold slice, addSizeUnchecked, sub. cbv zeta.
  rewrite (u32_id (base + sz)) by lia.
  destruct (0 <=? base) eqn:E1; [|lia].
  destruct (base <=? base + sz) eqn:E2; [|lia].
  destruct (base + sz <=? zlen s) eqn:E3; [|lia].
  cbn [andb]. replace (base + sz - base) with sz by lia. reflexivity.
Qed.

(* whatever slice returns, it is a sub-list of the supplied segment *)
Lemma slice_sub s base sz b : slice s base sz = Ok b ->
  exists n, b = sub s base n /\ 0 <= base /\ 0 <= n /\ base + n <= zlen s.
Proof.
  unfold slice, sub. cbv zeta. dif; [|discriminate]. intros H. inversion H; subst b; clear H.
  exists (addSizeUnchecked base sz - base). split; [reflexivity|]. lia.
Qed.
Lemma slice_not_err s base sz : slice s base sz <> Err.
Proof. unfold slice. cbv zeta. dif; discriminate. Qed.

Lemma sub_length s base n : 0 <= base -> 0 <= n -> base + n <= zlen s -> zlen (sub s base n) = n.
Proof.
  unfold sub, zlen. intros. rewrite firstn_length, skipn_length. lia.
Qed.

Lemma In_firstn {A} (x : A) n l : In x (firstn n l) -> In x l.
Proof. intros H. rewrite <- (firstn_skipn n l). apply in_or_app. left. assumption. Qed.
Lemma In_skipn {A} (x : A) n l : In x (skipn n l) -> In x l.
Proof. intros H. rewrite <- (firstn_skipn n l). apply in_or_app. right. assumption. Qed.

Lemma bytes_ok_sub s base n : bytes_ok s -> bytes_ok (sub s base n).
Proof.
  unfold bytes_ok, sub. intros H. rewrite Forall_forall in *. intros x Hx.
  apply H. apply In_firstn in Hx. apply In_skipn in Hx. assumption.
Qed.

Lemma le_decode_range l : bytes_ok l -> 0 <= le_decode l < 256 ^ zlen l.
Proof.
  unfold bytes_ok, zlen. induction 1 as [|b l Hb Hl IH].
  - cbn. lia.
  - cbn [le_decode length]. rewrite Nat2Z.inj_succ, Z.pow_succ_r by lia. lia.
Qed.

Lemma readUintN_ok s addr n : seg_ok s ->
  0 <= addr -> 0 <= n -> addr + n <= zlen s ->
  readUintN s addr n = Ok (le_decode (sub s addr n)) /\ 0 <= le_decode (sub s addr n) < 256 ^ n.
Proof.
  intros [Hl Hb] Ha Hn He. unfold readUintN. unfold maxSegmentSize in Hl.
  rewrite slice_ok by lia. cbn [bind]. split; [reflexivity|].
  pose proof (le_decode_range (sub s addr n) (bytes_ok_sub s addr n Hb)) as R.
  rewrite sub_length in R by lia. exact R.
Qed.

Lemma readRawPointer_ok s addr : seg_ok s -> 0 <= addr -> addr + 8 <= zlen s ->
  exists w, readRawPointer s addr = Ok w /\ 0 <= w < 18446744073709551616.
Proof.
  intros Hs Ha He. destruct (readUintN_ok s addr 8 Hs Ha ltac:(lia) He) as [E R].
  eexists. split; [exact E|]. change (256 ^ 8) with 18446744073709551616 in R. exact R.
Qed.

(* ------------------------------------------------------------------ segments of a message *)
Lemma msg_ok_nth m i : msg_ok m -> seg_ok (nth i m []).
Proof.
  unfold msg_ok. intros H. destruct (Nat.lt_ge_cases i (length m)) as [L|G].
  - rewrite Forall_forall in H. apply H. apply nth_In. assumption.
  - rewrite nth_overflow by assumption. split; [cbn; unfold maxSegmentSize; lia|constructor].
Qed.

Lemma lookup_segment_spec m id s : lookup_segment m id = Ok s ->
  0 <= id < zlen m /\ s = nth (Z.to_nat id) m [].
Proof.
  unfold lookup_segment. dif; [|discriminate]. intros H. inversion H. split; [lia|reflexivity].
Qed.
Lemma lookup_segment_nopanic m id : lookup_segment m id <> Panic.
Proof. unfold lookup_segment. dif; discriminate. Qed.
