(* L0, hand-written: the pure fixed-width integer functions of address.go and rawpointer.go,
   over Z with Go's wrap-around written explicitly, using only +,-,*,/,mod and comparisons
   (so that [lia] with the div/mod hook decides most goals about them).
   coq/Gen/GoArith.v (regenerated from the Go source by gotrans on every run) is proved
   equal to these definitions on the functions' domains in coq/Gen/GoArithAgree.v. *)
From Coq Require Export ZArith List Bool Lia.
Export ListNotations.
Open Scope Z_scope.

Definition u8 (z : Z) := z mod 256.
Definition u16 (z : Z) := z mod 65536.
Definition u32 (z : Z) := z mod 4294967296.
Definition u64 (z : Z) := z mod 18446744073709551616.
Definition s32 (z : Z) := let m := z mod 4294967296 in if m <? 2147483648 then m else m - 4294967296.
Definition s64 (z : Z) := let m := z mod 18446744073709551616 in
  if m <? 9223372036854775808 then m else m - 18446744073709551616.

(* ---- address.go ---- *)
Definition wordSize := 8.
Definition maxSegmentSize := 4294967288.        (* 1<<32 - 8 *)

(* (a address).addSize(sz Size): int64 arithmetic, no overflow for 32-bit operands *)
Definition addSize (a sz : Z) : option Z :=
  let x := a + sz in if x >? maxSegmentSize then None else Some x.
Definition addSizeUnchecked (a sz : Z) : Z := u32 (a + sz).
(* (a address).element(i int32, sz Size) *)
Definition element (a i sz : Z) : option Z :=
  let x := a + i * sz in if (x >? maxSegmentSize) || (x <? 0) then None else Some x.
(* (sz Size).times(n int32) *)
Definition times (sz n : Z) : option Z :=
  let x := sz * n in if (x >? maxSegmentSize) || (x <? 0) then None else Some x.
(* sz * Size(n) in uint32 *)
Definition timesUnchecked (sz n : Z) : Z := u32 (sz * u32 n).
(* (sz + 7) &^ 7 in uint32 *)
Definition padToWord (sz : Z) : Z := u32 (sz + 7) / 8 * 8.
(* addOffset panics for o >= 1<<19 *)
Definition addOffset (a o : Z) : option Z := if o >=? 524288 then None else Some (u32 (a + o)).

Record ObjectSize := mkOS { DataSize : Z; PointerCount : Z }.
Definition os_eqb (a b : ObjectSize) := (DataSize a =? DataSize b) && (PointerCount a =? PointerCount b).
Definition os_isZero (s : ObjectSize) := (DataSize s =? 0) && (PointerCount s =? 0).
Definition os_isOneByte (s : ObjectSize) := (DataSize s =? 1) && (PointerCount s =? 0).
Definition os_isValid (s : ObjectSize) := DataSize s <=? 65535 * 8.
Definition pointerSize (s : ObjectSize) := u32 (8 * PointerCount s).
Definition totalSize (s : ObjectSize) := u32 (DataSize s + pointerSize s).
(* dataWordCount panics when DataSize is not word aligned *)
Definition dataWordCount (s : ObjectSize) : option Z :=
  if DataSize s mod 8 =? 0 then Some (DataSize s / 8) else None.
Definition totalWordCount (s : ObjectSize) : option Z :=
  match dataWordCount s with Some d => Some (s32 (d + PointerCount s)) | None => None end.

Definition bitOffset_offset (bit : Z) := bit / 8.
Definition bitOffset_mask (bit : Z) := 2 ^ (bit mod 8).

(* ---- rawpointer.go ---- *)
Definition structPointer := 0.
Definition listPointer := 1.
Definition farPointer := 2.
Definition otherPointer := 3.
Definition doubleFarPointer := 6.

Definition pointerType (p : Z) : Z := let t := p mod 4 in if t =? 2 then p mod 8 else t.
(* pointerOffset(int32(p) >> 2): arithmetic shift of the low 32 bits *)
Definition ptr_offset (p : Z) : Z := s32 p / 4.
Definition structSize (p : Z) : ObjectSize :=
  mkOS (timesUnchecked 8 ((p / 4294967296) mod 65536)) ((p / 281474976710656) mod 65536).
Definition listType (p : Z) : Z := (p / 4294967296) mod 8.
Definition numListElements (p : Z) : Z := s32 (p / 34359738368).
Definition bitListSize (n : Z) : Z := u32 ((n + 7) / 8).        (* n >= 0 *)
(* elementSize panics on composite *)
Definition elementSize (p : Z) : option ObjectSize :=
  let t := listType p in
  if t =? 0 then Some (mkOS 0 0) else if t =? 1 then Some (mkOS 0 0)
  else if t =? 2 then Some (mkOS 1 0) else if t =? 3 then Some (mkOS 2 0)
  else if t =? 4 then Some (mkOS 4 0) else if t =? 5 then Some (mkOS 8 0)
  else if t =? 6 then Some (mkOS 0 1) else None.
(* totalListSize: (size, ok); None = the panic of elementSize (unreachable) *)
Definition totalListSize (p : Z) : option (option Z) :=
  let n := numListElements p in
  let t := listType p in
  if t =? 1 then Some (Some (bitListSize n))
  else if t =? 7 then Some (times 8 (s32 (n + 1)))
  else match elementSize p with
       | Some es => Some (Some (timesUnchecked (totalSize es) n))
       | None => None
       end.
Definition farAddress (p : Z) : Z := u32 p / 8 * 8.
Definition farSegment (p : Z) : Z := u32 (p / 4294967296).
Definition otherPointerType (p : Z) : Z := u32 p / 4.
Definition capabilityIndex (p : Z) : Z := u32 (p / 4294967296).
(* tag &^ 0xfffffffc | uint32(far &^ 3) >> 1.
   The two operands overlap in bit 1 when far has bit 2 set (a double-far pointer word) and tag
   has bit 1 set (far/other pointer word), so this is an OR, not a sum: e.g. far = 4, tag = 2
   gives 2 (the sum would be 4).  For a far-pointer landing pad (far mod 8 = 2) or a
   struct/list tag (tag mod 4 < 2) it is the sum, see ArithFacts.landingPadNearPointer_sum. *)
Definition landingPadNearPointer (far tag : Z) : Z :=
  Z.lor ((tag / 4294967296) * 4294967296 + tag mod 4) ((u32 far / 4 * 4) / 2).

(* constructors *)
Definition nearPointerOffset (paddr addr : Z) : Z := s32 (addr / 8 - paddr / 8 - 1).
(* The constructors OR fields together (overlap is possible for out-of-range arguments,
   so [Z.lor] is kept; for in-range arguments the fields are disjoint, see ArithFacts). *)
(* rawStructPointer: None when dataWordCount panics *)
Definition rawStructPointer (off : Z) (sz : ObjectSize) : option Z :=
  match dataWordCount sz with
  | None => None
  | Some d => Some (Z.lor (Z.lor (Z.lor structPointer (u32 (u32 off * 4)))
                                 (u64 (u64 (s32 d) * 4294967296)))
                          (u64 (PointerCount sz * 281474976710656)))
  end.
Definition rawListPointer (off lt length : Z) : Z :=
  Z.lor (Z.lor (Z.lor listPointer (u32 (u32 off * 4))) (u64 (lt * 4294967296)))
        (u64 (u64 length * 34359738368)).
Definition rawInterfacePointer (cap : Z) : Z := Z.lor otherPointer (u64 (cap * 4294967296)).
Definition rawFarPointer (segID off : Z) : Z :=
  Z.lor (Z.lor farPointer (off / 8 * 8)) (u64 (segID * 4294967296)).
Definition rawDoubleFarPointer (segID off : Z) : Z :=
  Z.lor (Z.lor doubleFarPointer (off / 8 * 8)) (u64 (segID * 4294967296)).
(* p &^ 0xfffffffc | uint32(off<<2) *)
Definition withOffset (p off : Z) : Z :=
  Z.lor ((p / 4294967296) * 4294967296 + p mod 4) (u32 (s32 (off * 4))).
