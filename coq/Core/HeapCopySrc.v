(* C05: copies from another message.  What Segment.readPtr hands out for ANY source bytes
   (0..255) has the shape the copy branches of writePtr need ([sview], closed under readPtr and
   List.Struct); the copy paths with a source-message handle keep the table invariant of the
   message under construction. *)
From CV Require Import Core.Builder Core.ReaderFacts Core.ArithFacts Core.BuilderFacts Core.AllocProofs
  Core.WritePtrProofs Core.HeapProofs Core.CopyProofs Core.BuildOps Core.BuildValid Core.BuildInv Core.HeapInv Core.ReadBridge
  Core.HeapOps Core.HeapCopy.
From CV Require Core.SafetyProofs.
From Coq Require Import ZifyBool ZifyNat.
Open Scope Z_scope.

Ltac Zify.zify_post_hook ::= Z.div_mod_to_equations.

(* ------------------------------------------------------------------ handles of the source message *)
(* a tag word is the struct pointer word of its count and sizes *)
Lemma tag_word_eq hdr : word64 hdr -> pointerType hdr = structPointer -> 0 <= s32 (ptr_offset hdr) ->
  rawStructPointer (s32 (ptr_offset hdr)) (structSize hdr) = Some hdr.
Proof.
  intros Hw Ht Hn.
  assert (Wf : os_wf (structSize hdr)).
  { pose proof (structSize_wf hdr) as [W1 W2]. unfold os_wf. rewrite structSize_data in *. lia. }
  rewrite rawStructPointer_sum by exact Wf. f_equal.
  pose proof (ptr_offset_range hdr) as Ro. rewrite s32_id in * by lia.
  rewrite structSize_data. unfold structSize. cbn [PointerCount].
  unfold word64 in Hw. unfold pointerType, structPointer in Ht. cbv zeta in Ht.
  unfold ptr_offset, s32 in *. cbv zeta in *.
  destruct (hdr mod 4 =? 2) eqn:E2; destruct (hdr mod 4294967296 <? 2147483648) eqn:E3; lia.
Qed.

Lemma read_bounds s addr w : readRawPointer s addr = Ok w -> 0 <= addr /\ addr + 8 <= zlen s.
Proof.
  unfold readRawPointer, readUintN, slice. cbv zeta. unfold addSizeUnchecked, u32.
  destruct ((0 <=? addr) && (addr <=? (addr + 8) mod 4294967296) && ((addr + 8) mod 4294967296 <=? zlen s)) eqn:E; [|discriminate].
  intros _. lia.
Qed.

(* [readPtr_sview]: whatever readPtr returns for source bytes 0..255 is a source view *)
Theorem readPtr_sview (sm : segs) rl sid addr depth q rl' :
  msg_ok sm -> 0 <= sid < zlen sm ->
  readPtr true sm rl sid (nth (Z.to_nat sid) sm []) addr depth = (Ok q, rl') -> sview sm q.
Proof.
  intros Hm Hs HR Hvq.
  assert (Is : SafetyProofs.is_seg sm sid (nth (Z.to_nat sid) sm [])) by (split; [exact Hs|reflexivity]).
  destruct (resolveFarPointer true sm sid (nth (Z.to_nat sid) sm []) addr) as [[[[dsid dst] base] val]| |] eqn:ER.
  2,3: unfold readPtr in HR; rewrite ER in HR; discriminate HR.
  assert (FP : SafetyProofs.far_post sm (dsid, dst, base, val)).
  { assert (RB : exists w, readRawPointer (nth (Z.to_nat sid) sm []) addr = Ok w).
    { unfold resolveFarPointer in ER. destruct (readRawPointer (nth (Z.to_nat sid) sm []) addr) as [w| |]; cbn [bind] in ER; try discriminate. eauto. }
    destruct RB as [w0 RB]. destruct (read_bounds _ _ _ RB) as [B0 B1].
    pose proof (SafetyProofs.resolveFarPointer_safe true sm sid _ addr Hm Is B0 B1) as X. rewrite ER in X. exact X. }
  destruct FP as ((Hd & Edst) & Hbase & Hval).
  destruct (val =? 0) eqn:Hv0.
  { unfold readPtr in HR. rewrite ER, Hv0 in HR. apply (f_equal fst) in HR. cbn [fst] in HR. apply Ok_inj in HR. subst q. discriminate Hvq. }
  destruct (readPtr_inv _ _ _ _ _ _ _ _ _ _ _ _ _ ER Hv0 HR) as [(_ & sp & ES & ->)|[(_ & lp & EL & ->)|(_ & _ & ->)]].
  - (* struct *)
    destruct (readStructPtr_inv _ _ _ _ _ ES) as (a & _ & ->). cbn [p_size p_seg p_kind].
    split; [apply structSize_wf|]. split; [exact Hd|exact I].
  - (* list *)
    destruct (readListPtr_inv _ _ _ _ _ _ EL) as (a & EA & D). apply element_spec in EA. destruct EA as [Ea Ra].
    pose proof (numListElements_range val Hval) as Rn.
    destruct D as [(_ & hdr & ERd & Pt & Ha8 & Hn0 & (ts & ET & ERB) & ->)|[(_ & ->)|(_ & _ & es & Ees & ->)]];
      cbn [p_size p_seg p_kind p_off p_len p_comp p_bit].
    + (* composite *)
      specialize (Hn0 eq_refl).
      destruct (read_bounds _ _ _ ERd) as [B0 B1].
      assert (Hok : seg_ok dst) by (rewrite Edst; apply msg_ok_nth; exact Hm).
      destruct (readRawPointer_ok dst a Hok B0 B1) as (h' & Eh' & Wh). rewrite ERd in Eh'. apply Ok_inj in Eh'. subst h'.
      assert (Wf : os_wf (structSize hdr)).
      { pose proof (structSize_wf hdr) as [W1 W2]. unfold os_wf. rewrite structSize_data in *. lia. }
      pose proof (ptr_offset_range hdr) as Ro. set (n := s32 (ptr_offset hdr)) in *.
      assert (Rn' : 0 <= n < 536870912) by (unfold n in *; rewrite s32_id in * by lia; lia).
      apply times_spec in ET. destruct ET as [-> Rt]. rewrite (totalSize_wf _ Wf) in *.
      apply regionInBounds_spec in ERB. unfold maxSegmentSize in *.
      split; [apply structSize_wf|]. split; [exact Hd|]. split.
      * unfold shape_ok. cbn [p_kind p_len p_comp p_bit p_size]. split; [exact Rn'|]. right.
        split; [reflexivity|]. split; [reflexivity|]. split; [exact Wf|]. unfold wc_of. cbn [p_size]. lia.
      * intros _. exists hdr. split; [apply tag_word_eq; auto|].
        replace (a + 8 - 8) with a by lia. rewrite Edst in ERd. apply word_at_of_read; auto. lia.
    + (* bit list *)
      split; [unfold wf_size; cbn; lia|]. split; [exact Hd|]. split; [|discriminate].
      unfold shape_ok. cbn [p_kind p_len p_comp p_bit p_size]. split; [exact Rn|]. left. split; [reflexivity|]. left. auto.
    + (* primitive and pointer lists *)
      pose proof (elementSize_cases val es Ees) as Hes.
      split; [destruct Hes as [->|[->|[->|[->|[->| ->]]]]]; unfold wf_size; cbn; lia|]. split; [exact Hd|]. split; [|discriminate].
      unfold shape_ok. cbn [p_kind p_len p_comp p_bit p_size]. split; [exact Rn|]. left. split; [reflexivity|]. right. split; [reflexivity|].
      destruct Hes as [->|[->|[->|[->|[->| ->]]]]]; [right; exists 0|right; exists 1|right; exists 2|right; exists 4|right; exists 8|left; reflexivity];
        (split; [reflexivity|lia]).
  - (* capability *)
    cbn [p_size p_seg p_kind p_len]. split; [unfold wf_size; cbn; lia|]. split; [exact Hd|].
    unfold capabilityIndex. apply u32_range.
Qed.

(* List.Struct(i) of a source list *)
Lemma list_struct_sview sm p i e : sview sm p -> p_kind p = KList -> list_struct true p i = Ok e ->
  sview sm e /\ (p_valid e = true -> p_kind e = KStruct).
Proof.
  intros V Ek ELS. unfold list_struct in ELS.
  destruct (negb (p_valid p) || (i <? 0) || (i >=? p_len p)) eqn:EI; [discriminate|].
  assert (Hv : p_valid p = true) by (destruct (p_valid p); auto; discriminate).
  destruct (V Hv) as (Wf & Sg & _).
  destruct (p_bit p); [apply Ok_inj in ELS; subst e; split; [apply sview_null|discriminate]|].
  destruct (element (p_off p) i (totalSize (p_size p))) as [a0|]; apply Ok_inj in ELS; subst e; [|split; [apply sview_null|discriminate]].
  split; [|intros _; reflexivity]. intros _. cbn [p_size p_seg p_kind]. auto.
Qed.

(* ------------------------------------------------------------------ the statements *)
Definition R_wp (f : nat) : Prop := forall w objs pads q src fc w',
  tinv w objs pads -> msg_ok (w_src w) -> In q ((0, 0) :: flat_map slots objs) -> sview (w_src w) src ->
  write_ptr f true w (fst q) (snd q) InSrc src fc = Ok w' -> nsegs (w_dst w') < B32 ->
  exists eo ep, tinv w' (objs ++ eo) (pads ++ ep).

Definition R_cs (f : nat) : Prop := forall w objs pads dst src w',
  tinv w objs pads -> msg_ok (w_src w) -> view objs dst -> (p_valid dst = true -> p_kind dst = KStruct) ->
  sview (w_src w) src -> (p_valid src = true -> p_kind src = KStruct) ->
  copy_struct f true w dst InSrc src = Ok w' -> nsegs (w_dst w') < B32 ->
  exists eo ep, tinv w' (objs ++ eo) (pads ++ ep).

(* a loop whose steps extend the tables, with a frame invariant that is not a consequence of the
   table invariant (here: the source message stays what it is) *)
Lemma fold_thread2 (I : world -> Prop) objs0 pads0 l (f : world -> Z -> res world) :
  (forall wa j wb, In j l -> I wa -> f wa j = Ok wb -> I wb /\ nsegs (w_dst wa) <= nsegs (w_dst wb)) ->
  (forall wa eo ep j wb, In j l -> I wa -> tinv wa (objs0 ++ eo) (pads0 ++ ep) -> f wa j = Ok wb -> nsegs (w_dst wb) < B32 ->
     exists eo' ep', tinv wb (objs0 ++ eo ++ eo') (pads0 ++ ep ++ ep')) ->
  forall wa eo ep w2, I wa -> tinv wa (objs0 ++ eo) (pads0 ++ ep) -> fold_res l wa f = Ok w2 -> nsegs (w_dst w2) < B32 ->
  exists eo' ep', tinv w2 (objs0 ++ eo ++ eo') (pads0 ++ ep ++ ep').
Proof.
  induction l as [|j r IH]; intros Hm Hs wa eo ep w2 Ia T H Hb; cbn [fold_res] in H.
  - apply Ok_inj in H. subst. exists [], []. now rewrite !app_nil_r.
  - destruct (f wa j) as [wb| |] eqn:E; cbn [bind] in H; try discriminate.
    destruct (Hm wa j wb (or_introl eq_refl) Ia E) as [Ib Nb].
    destruct (fold_mono I r f (fun wa j wb Hj => Hm wa j wb (or_intror Hj)) wb w2 Ib H) as [_ N2].
    destruct (Hs wa eo ep j wb (or_introl eq_refl) Ia T E ltac:(lia)) as (eo1 & ep1 & T1).
    destruct (IH (fun wa j wb Hj => Hm wa j wb (or_intror Hj))
                 (fun wa eo ep j wb Hj => Hs wa eo ep j wb (or_intror Hj)) wb (eo ++ eo1) (ep ++ ep1) w2) as (eo2 & ep2 & T2); auto.
    exists (eo1 ++ eo2), (ep1 ++ ep2). rewrite <- !app_assoc in T2. exact T2.
Qed.

(* ------------------------------------------------------------------ copyStruct from the source message *)
Lemma rs_step f : R_wp f -> R_cs (S f).
Proof.
  intros QW w objs pads dst src w' [H C] Hms Vd Kd Vs Ks HW Hb.
  unfold copy_struct in HW. cbn [copy_struct_gen] in HW.
  destruct (p_valid dst) eqn:Hvd; cbn [negb] in HW; [|discriminate].
  destruct (p_valid src) eqn:Hvs; cbn [negb] in HW.
  2:{ apply Ok_inj in HW. subst w'. apply tinv_ext. split; auto. }
  specialize (Kd eq_refl). specialize (Ks eq_refl).
  destruct (Vs Hvs) as ((_ & Ns) & Sgs & _).
  cbn [w_segs] in HW. rewrite nth_bm_data in HW.
  set (sm := w_src w) in *.
  set (ns := PointerCount (p_size src)) in *. set (nd := PointerCount (p_size dst)) in *.
  destruct (slice (nth (Z.to_nat (p_seg src)) sm []) (p_off src) (DataSize (p_size src))) as [sd| |] eqn:ESl; cbn [bind] in HW; try discriminate.
  destruct (struct_view_geom _ _ _ dst H Vd Hvd Kd) as [[E0d Sgd]|(hd & Hind & Esegd & D0d & P0d & Olod & Ohid & Hsepd & Hsld)].
  - (* the empty struct as destination: nothing is written *)
    assert (End : nd = 0) by (unfold nd; rewrite E0d; reflexivity).
    rewrite E0d in HW. cbn [DataSize] in HW.
    destruct (slice (mem (w_dst w) (p_seg dst)) (p_off dst) 0) as [dd| |] eqn:ESd; cbn [bind] in HW; try discriminate.
    apply slice_zero in ESd. subst dd. cbn [length] in HW. rewrite Nat.min_0_r in HW. cbn [firstn Nat.sub repeat app] in HW.
    unfold lift0 in HW.
    destruct (seg_write (w_dst w) (p_seg dst) (p_off dst) []) as [m1| |] eqn:EW; cbn [bind] in HW; try discriminate.
    apply seg_write_wrote in EW; [|lia|cbn; lia].
    rewrite End in HW. replace (Z.min ns 0) with 0 in HW by lia. change (Z.to_nat 0) with O in HW.
    change (iota 0) with (@nil Z) in HW. cbn [fold_res bind] in HW.
    replace (Z.to_nat (0 - ns)) with O in HW by lia. change (iota 0) with (@nil Z) in HW. cbn [map fold_res] in HW.
    apply Ok_inj in HW. subst w'. apply tinv_ext. split; [|exact C]. cbn [w_dst w_set_dst].
    apply (hinv_wrote_nil (w_dst w) objs pads m1 (p_seg dst) (p_off dst)); auto.
  - destruct (obj_bounds _ _ _ _ H Hind) as (B1 & B2 & B3 & B4 & B5). rewrite Esegd in *.
    set (DSd := DataSize (p_size dst)) in *.
    assert (DstSl : forall j, 0 <= j < nd -> forall eo, In (p_seg dst, pointerAddress dst j) ((0, 0) :: flat_map slots (objs ++ eo))).
    { intros j Hj eo. apply slots_app. right. apply in_flat_map. exists hd. split; [exact Hind|].
      rewrite pointerAddress_eq by (unfold maxSegmentSize; fold DSd; lia). apply Hsld. exact Hj. }
    rewrite (slice_ok (mem (w_dst w) (p_seg dst)) (p_off dst) DSd) in HW by lia. cbn [bind] in HW.
    set (dd := sub (mem (w_dst w) (p_seg dst)) (p_off dst) DSd) in *.
    assert (Ldd : length dd = Z.to_nat DSd).
    { pose proof (sub_length (mem (w_dst w) (p_seg dst)) (p_off dst) DSd ltac:(lia) ltac:(lia) ltac:(lia)) as X. unfold zlen in X. fold dd in X. lia. }
    set (bs := firstn (Nat.min (length sd) (length dd)) sd ++ repeat 0 (length dd - Nat.min (length sd) (length dd))) in *.
    assert (Lb : zlen bs = DSd).
    { unfold bs, zlen. rewrite app_length, firstn_length, repeat_length. lia. }
    unfold lift0 in HW.
    destruct (seg_write (w_dst w) (p_seg dst) (p_off dst) bs) as [m1| |] eqn:EW; cbn [bind] in HW; try discriminate.
    apply seg_write_wrote in EW; [|lia|lia].
    assert (H1 : hinv m1 objs pads).
    { apply (hinv_data_write (w_dst w) objs pads m1 hd (p_off dst) bs); auto; try lia.
      - rewrite Esegd. exact EW.
      - intros x Hx. apply (Hsepd x (p_off dst) (p_off dst + zlen bs)); auto; lia. }
    set (w1 := w_set_dst w m1) in *.
    set (step1 := fun (wa : world) (j : Z) =>
           let '(r, rl') := readPtr true (w_src wa) (w_rl wa InSrc) (p_seg src)
                                    (nth (Z.to_nat (p_seg src)) (w_src wa) []) (pointerAddress src j) (p_depth src) in
           do q <- r; write_ptr_gen true f true (w_set_rl wa InSrc rl') (p_seg dst) (pointerAddress dst j) InSrc q true) in *.
    set (step2 := fun (wa : world) (j : Z) => lift0 wa (writeRawPointer (w_dst wa) (p_seg dst) (pointerAddress dst j) 0)) in *.
    set (l1 := iota (Z.to_nat (Z.min ns nd))) in *. set (l2 := map (fun k => ns + k) (iota (Z.to_nat (nd - ns)))) in *.
    destruct (fold_res l1 w1 step1) as [w2| |] eqn:EL1; cbn [bind] in HW; try discriminate.
    set (I := fun wa : world => inv (w_dst wa) /\ 0 <= p_seg dst < nsegs (w_dst wa) /\ w_src wa = sm).
    assert (I1 : I w1).
    { split; [exact (hi_inv _ _ _ H1)|]. unfold w1. cbn [w_dst w_set_dst w_src].
      assert (N : nsegs m1 = nsegs (w_dst w)) by (unfold nsegs; apply (wrote_nsegs _ _ _ _ _ EW)). split; [lia|reflexivity]. }
    assert (Fm1 : forall wa j wb, In j l1 -> I wa -> step1 wa j = Ok wb -> I wb /\ nsegs (w_dst wa) <= nsegs (w_dst wb)).
    { intros wa j wb _ (Ia & Ra & Sa) E. unfold step1 in E.
      destruct (readPtr _ _ _ _ _ _ _) as [r rl'] eqn:ER. destruct r as [qq| |]; cbn [bind] in E; try discriminate.
      destruct (frame_all true f) as [FW _].
      assert (G0 := FW true (w_set_rl wa InSrc rl') (p_seg dst) (pointerAddress dst j) InSrc qq true wb Ia Ra
                      (readPtr_size_wf _ _ _ _ _ _ _ _ _ ER) ltac:(discriminate) E).
      destruct G0 as (_ & Ib & Nb & Sb). cbn [w_dst w_src w_set_rl] in Nb, Sb.
      split; [split; [exact Ib|split; [lia|congruence]]|exact Nb]. }
    assert (Fm2 : forall wa j wb, In j l2 -> I wa -> step2 wa j = Ok wb -> I wb /\ nsegs (w_dst wa) <= nsegs (w_dst wb)).
    { intros wa j wb _ (Ia & Ra & Sa) E. unfold step2, lift0 in E.
      destruct (writeRawPointer (w_dst wa) (p_seg dst) (pointerAddress dst j) 0) as [mb| |] eqn:EWb; cbn [bind] in E; try discriminate.
      apply Ok_inj in E. subst wb. unfold I. cbn [w_dst w_set_dst w_src].
      destruct (writeRawPointer_keeps _ _ _ _ _ (proj1 Ra) Ia EWb) as (_ & Ib & Nb & _). split; [split; [exact Ib|split; [lia|exact Sa]]|lia]. }
    destruct (fold_mono I l1 step1 Fm1 w1 w2 I1 EL1) as [I2 N12].
    destruct (fold_mono I l2 step2 Fm2 w2 w' I2 HW) as [_ N2'].
    destruct (fold_thread2 I objs pads l1 step1 Fm1) with (wa := w1) (eo := @nil Ptr) (ep := @nil region) (w2 := w2)
      as (eo1 & ep1 & T2); auto; try (unfold B32 in *; lia).
    { intros wa eo ep j wb Hj (Ia & Ra & Sa) [Ha Ca] E Hbb. unfold step1 in E. apply in_iota in Hj.
      destruct (readPtr _ _ _ _ _ _ _) as [r rl'] eqn:ER. destruct r as [qq| |]; cbn [bind] in E; try discriminate.
      rewrite Sa in ER.
      assert (Vq : sview sm qq) by (apply (readPtr_sview sm _ _ _ _ _ _ Hms Sgs ER)).
      destruct (QW (w_set_rl wa InSrc rl') (objs ++ eo) (pads ++ ep) (p_seg dst, pointerAddress dst j) qq true wb) as (eo' & ep' & T'); auto.
      - split; auto.
      - cbn [w_src w_set_rl]. rewrite Sa. exact Hms.
      - apply DstSl. lia.
      - cbn [w_src w_set_rl]. rewrite Sa. exact Vq.
      - exists eo', ep'. rewrite <- !app_assoc in T'. exact T'. }
    { rewrite !app_nil_r. split; [exact H1|exact C]. }
    cbn [app] in T2.
    exists eo1, ep1.
    apply (fold_res_inv (fun wa => tinv wa (objs ++ eo1) (pads ++ ep1)) l2 step2 w2 w'); auto.
    intros j wa wb Hj [Ha Ca] E. unfold step2, lift0 in E.
    destruct (writeRawPointer (w_dst wa) (p_seg dst) (pointerAddress dst j) 0) as [mb| |] eqn:EWb; cbn [bind] in E; try discriminate.
    apply Ok_inj in E. subst wb. split; [|exact Ca]. cbn [w_dst w_set_dst].
    unfold l2 in Hj. apply in_map_iff in Hj. destruct Hj as (k & <- & Hk). apply in_iota in Hk.
    apply (hinv_write_inline (w_dst wa) (objs ++ eo1) (pads ++ ep1) mb (p_seg dst, pointerAddress dst (ns + k)) 0); auto.
    apply DstSl. lia.
Qed.

(* ------------------------------------------------------------------ writePtr from the source: struct *)
Lemma rstruct_copy f : R_cs f -> forall w objs pads q src fc w',
  tinv w objs pads -> msg_ok (w_src w) -> In q ((0, 0) :: flat_map slots objs) -> sview (w_src w) src ->
  p_valid src = true -> p_kind src = KStruct -> os_isZero (p_size src) = false ->
  write_ptr (S f) true w (fst q) (snd q) InSrc src fc = Ok w' -> nsegs (w_dst w') < B32 ->
  exists eo ep, tinv w' (objs ++ eo) (pads ++ ep).
Proof.
  intros QC w objs pads q src fc w' [H C] Hms Hq Vs Hv Ek EZ HW Hb. unfold B32 in *.
  destruct (Vs Hv) as ([Wd Wp] & _).
  destruct (slot_geometry _ _ _ _ H Hq) as (Q1 & Q2 & Q3 & Q4 & _).
  set (DS := DataSize (p_size src)) in *. set (pc := PointerCount (p_size src)) in *.
  unfold write_ptr in HW. cbn [write_ptr_gen] in HW. rewrite Hv, Ek, EZ in HW. cbn [negb is_src] in HW.
  assert (Ecp : fc || true || p_member src = true) by (destruct fc; reflexivity).
  rewrite Ecp in HW. cbn [bind] in HW. fold DS pc in HW.
  set (csz := mkOS (padToWord DS) pc) in *.
  assert (PW : padToWord DS mod 8 = 0 /\ DS <= padToWord DS <= DS + 7) by (unfold padToWord, u32; lia).
  assert (TS : totalSize csz = padToWord DS + 8 * pc) by (unfold totalSize, pointerSize, u32, csz; cbn [DataSize PointerCount]; lia).
  rewrite TS in HW.
  destruct (alloc (w_dst w) (fst q) (padToWord DS + 8 * pc)) as [[[m1 nsid] naddr]| |] eqn:EA; cbn [bind] in HW; try discriminate.
  set (dstp := mkPtr true nsid naddr 0 csz maxDepth KStruct false false false) in *.
  destruct (copy_struct_gen true f true (w_set_dst w m1) dstp InSrc src) as [w2| |] eqn:EC; cbn [bind] in HW; try discriminate.
  unfold dstp in HW. cbn [p_size p_seg p_off] in HW. fold dstp in HW.
  destruct (of_opt_panic (rawStructPointer 0 csz)) as [raw| |] eqn:ER; cbn [bind] in HW; try discriminate.
  assert (Hz : 0 <= padToWord DS + 8 * pc) by lia.
  pose proof (hi_inv _ _ _ H) as Hinv.
  destruct (alloc_keeps _ _ _ _ _ _ Hinv Q1 Hz EA) as (K1 & I1 & N1 & S1 & AD & L1 & _ & _ & _ & MX).
  unfold maxSegmentSize in MX. pose proof (zlen_nonneg (mem (w_dst w) nsid)) as Z0.
  destruct (frame_all true f) as [_ FC].
  assert (Wc : wf_size csz) by (unfold wf_size, csz; cbn [DataSize PointerCount]; lia).
  assert (Ho : 0 <= p_off dstp <= 4294967295).
  { unfold dstp. cbn [p_off]. pose proof (padToWord_nonneg (padToWord DS + 8 * pc)). lia. }
  assert (G2 := FC true (w_set_dst w m1) dstp InSrc src w2 I1 S1 Wc Ho (fun _ => conj Wd Wp) EC).
  destruct G2 as (_ & I2 & N2 & _). cbn [w_dst w_set_dst] in N2.
  destruct (place_keeps w2 (fst q) (snd q) nsid naddr raw w' I2 ltac:(lia) ltac:(lia) HW) as (_ & _ & N3 & _).
  assert (H1 : hinv m1 (objs ++ [core dstp]) pads).
  { apply (hinv_alloc_obj (w_dst w) objs pads (fst q) (padToWord DS + 8 * pc) m1 nsid naddr (core dstp)); auto; try reflexivity; try lia.
    all: unfold shape_ok, obj_bytes, core, dstp, os_wf; cbn [p_kind p_size p_comp p_len p_bit]; try exact TS; try discriminate.
    all: try (unfold csz; cbn [DataSize PointerCount]; split; [lia|]; split; [reflexivity|]; split; reflexivity). }
  assert (T2 : exists eo ep, tinv w2 ((objs ++ [core dstp]) ++ eo) (pads ++ ep)).
  { apply (QC (w_set_dst w m1) (objs ++ [core dstp]) pads dstp src w2); auto; unfold B32; try lia.
    - split; [exact H1|apply cores_snoc; exact C].
    - right. left. split; [reflexivity|]. apply in_or_app. right. left. reflexivity. }
  destruct T2 as (eo & ep & [H2 C2]).
  assert (Hq2 : In q ((0, 0) :: flat_map slots ((objs ++ [core dstp]) ++ eo))) by (apply slots_app, slots_app; exact Hq).
  assert (Hd2 : In (core dstp) ((objs ++ [core dstp]) ++ eo)).
  { apply in_or_app. left. apply in_or_app. right. left. reflexivity. }
  destruct (hinv_place (w_dst w2) ((objs ++ [core dstp]) ++ eo) (pads ++ ep) w2 q (core dstp) raw w') as [pads' H'];
    auto; try lia.
  all: try (unfold core, dstp; cbn [p_size]; intros _; unfold os_isZero, csz in *; cbn [DataSize PointerCount]; fold DS pc in EZ; lia).
  all: try (unfold raw_of, core, dstp; cbn [p_kind p_size]; exact ER).
  exists ([core dstp] ++ eo), (ep ++ pads'). rewrite !app_assoc. split; [exact H'|exact C2].
Qed.

(* ------------------------------------------------------------------ writePtr from the source: list *)
Lemma slice_len_le s base sz b : slice s base sz = Ok b -> 0 <= sz -> zlen b <= sz.
Proof.
  unfold slice. cbv zeta. unfold addSizeUnchecked, u32.
  destruct ((0 <=? base) && (base <=? (base + sz) mod 4294967296) && ((base + sz) mod 4294967296 <=? zlen s)) eqn:E; [|discriminate].
  intros H Hs. apply Ok_inj in H. subst b. unfold zlen. rewrite firstn_length. lia.
Qed.

Lemma list_shape_facts p : p_valid p = true -> p_kind p = KList -> shape_ok p ->
  0 <= list_allocSize p <= 4294967288 /\
  (p_comp p = true -> list_allocSize p = 8 + 8 * (p_len p * wc_of p) /\ 0 <= p_len p * wc_of p).
Proof.
  intros V Ek Sh0. pose proof Sh0 as Sh. unfold shape_ok in Sh. rewrite Ek in Sh.
  assert (OBE : obj_bytes p = list_allocSize p) by (unfold obj_bytes; now rewrite Ek).
  destruct Sh as (Hn & [(Hc & Hk)|(Hc & Hb & Hw & Ht)]).
  - assert (OB := list_alloc_eq p V Sh0 Ek Hc). rewrite OBE in OB. split; [|congruence].
    destruct Hk as [[Hb Hsz]|[Hb Hsz]]; rewrite Hb in OB.
    + rewrite OB. unfold bitListSize, u32. lia.
    + destruct Hsz as [Hsz|(d & Hsz & Hd)]; rewrite Hsz in OB; cbn [DataSize PointerCount] in OB; rewrite OB; nia.
  - assert (W0 : 0 <= wc_of p) by (unfold wc_of; destruct Hw as (Hd & Hm & Hp); lia).
    assert (K0 : 0 <= p_len p * wc_of p) by nia.
    rewrite (list_alloc_comp p) by (auto; lia). split; [lia|]. intros _. split; [reflexivity|exact K0].
Qed.

Lemma rlist_copy f : R_cs f -> forall w objs pads q src fc w',
  tinv w objs pads -> msg_ok (w_src w) -> In q ((0, 0) :: flat_map slots objs) -> sview (w_src w) src ->
  p_valid src = true -> p_kind src = KList ->
  write_ptr (S f) true w (fst q) (snd q) InSrc src fc = Ok w' -> nsegs (w_dst w') < B32 ->
  exists eo ep, tinv w' (objs ++ eo) (pads ++ ep).
Proof.
  intros QC w objs pads q src fc w' [H C] Hms Hq Vs Hv Ek HW Hb. unfold B32 in *.
  set (sm := w_src w) in *.
  destruct (Vs Hv) as (Wf & Sgs & X). rewrite Ek in X. destruct X as [Sh Tg].
  destruct (list_shape_facts src Hv Ek Sh) as (Sz & Fc). set (sz := list_allocSize src) in *.
  destruct (slot_geometry _ _ _ _ H Hq) as (Q1 & Q2 & Q3 & Q4 & _).
  pose proof (hi_inv _ _ _ H) as Hinv.
  unfold write_ptr in HW. cbn [write_ptr_gen] in HW. rewrite Hv, Ek in HW. cbn [negb is_src] in HW.
  assert (Ecp : fc || true = true) by (destruct fc; reflexivity). rewrite Ecp in HW. cbn [bind] in HW. fold sz in HW.
  destruct (alloc (w_dst w) (fst q) sz) as [[[m1 nsid] naddr]| |] eqn:EA; cbn [bind] in HW; try discriminate.
  destruct (alloc_keeps _ _ _ _ _ _ Hinv Q1 (proj1 Sz) EA) as (K1 & I1 & N1 & S1 & AD & L1 & _ & _ & _ & MX).
  unfold maxSegmentSize in MX. pose proof (zlen_nonneg (mem (w_dst w) nsid)) as Z0.
  pose proof (padToWord_nonneg sz) as PZ.
  set (dl0 := fun (cb : bool) (doff : Z) => mkPtr true nsid doff (p_len src) (p_size src) maxDepth KList cb (p_bit src) false).
  set (I := fun wa : world => inv (w_dst wa) /\ 0 <= nsid < nsegs (w_dst wa) /\ w_src wa = sm).
  assert (Tail : forall cb w2 doff sz' w3, cb = p_comp src -> let dl := dl0 cb in
     (nsegs (w_dst w2) < 4294967296 -> tinv w2 (objs ++ [core (dl doff)]) pads) -> I w2 -> nsegs (w_dst w) <= nsegs (w_dst w2) ->
     0 <= sz' -> doff + sz' <= obj_start (dl doff) + padToWord sz ->
     obj_start (dl doff) = naddr -> obj_start (dl doff) <= doff -> 0 <= doff <= 4294967288 ->
     (if p_bit src || (PointerCount (p_size src) =? 0)
      then copy_bytes w2 InSrc (p_seg src) (p_off src) nsid doff sz'
      else fold_res (iota (Z.to_nat (list_len src))) w2
             (fun wa i => do de <- list_struct true (dl doff) i; do se <- list_struct true src i;
                          copy_struct_gen true f true wa de InSrc se)) = Ok w3 ->
     (do raw <- list_raw (dl doff); place w3 (fst q) (snd q) nsid naddr raw) = Ok w' ->
     exists eo ep, tinv w' (objs ++ eo) (pads ++ ep)).
  { intros cb w2 doff sz' w3 Ecb dl T2 I2 N02 Hs0 Hrd Eos Hod Hdo E3 EP. subst cb.
    set (cd := core (dl doff)) in *.
    set (estep := fun (wa : world) (i : Z) => do de <- list_struct true (dl doff) i; do se <- list_struct true src i;
                                               copy_struct_gen true f true wa de InSrc se) in *.
    destruct (list_raw (dl doff)) as [raw| |] eqn:ER; cbn [bind] in EP; try discriminate.
    assert (FrE : forall wa i wb, I wa -> estep wa i = Ok wb -> I wb /\ nsegs (w_dst wa) <= nsegs (w_dst wb)).
    { intros wa i wb (Ia & Ra & Sa) E. unfold estep in E.
      destruct (list_struct true (dl doff) i) as [de| |] eqn:ED; cbn [bind] in E; try discriminate.
      destruct (list_struct true src i) as [se| |] eqn:ESe; cbn [bind] in E; try discriminate.
      destruct (p_valid de) eqn:Vde.
      2:{ destruct f; cbn [copy_struct_gen] in E; [discriminate|]. rewrite Vde in E. discriminate. }
      destruct (list_struct_facts _ _ _ ED Vde) as (F1 & F2 & F3 & _). unfold dl, dl0 in F1, F2, F3. cbn [p_seg p_size p_off] in F1, F2, F3.
      destruct (frame_all true f) as [_ FC].
      assert (Wde : wf_size (p_size de)) by (rewrite F2; exact Wf).
      assert (Rde : 0 <= p_seg de < nsegs (w_dst wa)) by (rewrite F1; exact Ra).
      assert (Ode : 0 <= p_off de <= 4294967295) by lia.
      assert (Sse : sz_ok se).
      { intros Vse. destruct (list_struct_facts _ _ _ ESe Vse) as (_ & X & _). rewrite X. exact Wf. }
      destruct (FC true wa de InSrc se wb Ia Rde Wde Ode Sse E) as (_ & Ib & Nb & Sb).
      split; [split; [exact Ib|split; [lia|congruence]]|exact Nb]. }
    assert (M3 : I w3 /\ nsegs (w_dst w2) <= nsegs (w_dst w3)).
    { destruct (p_bit src || (PointerCount (p_size src) =? 0)) eqn:EBP.
      - unfold copy_bytes in E3. destruct (slice _ _ _) as [b| |] eqn:ES; cbn [bind] in E3; try discriminate.
        unfold lift0 in E3. destruct (seg_write (w_dst w2) nsid doff b) as [m3| |] eqn:EW; cbn [bind] in E3; try discriminate.
        apply Ok_inj in E3. subst w3. destruct I2 as (Ia & Ra & Sa).
        apply seg_write_wrote in EW; [|lia|apply (slice_len _ _ _ _ ES)].
        assert (N : nsegs m3 = nsegs (w_dst w2)) by (unfold nsegs; apply (wrote_nsegs _ _ _ _ _ EW)).
        unfold I. cbn [w_dst w_set_dst w_src]. split; [split; [apply (wrote_inv _ _ _ _ _ EW); [lia|exact Ia]|split; [lia|exact Sa]]|lia].
      - apply (fold_mono I (iota (Z.to_nat (list_len src))) estep) with (wa := w2); auto.
        intros wa i wb _. apply FrE. }
    destruct M3 as [(I3 & R3 & S3) N23].
    destruct (place_keeps w3 (fst q) (snd q) nsid naddr raw w' I3 ltac:(lia) R3 EP) as (_ & _ & N3' & _).
    destruct (T2 ltac:(lia)) as [H2 Cc2].
    assert (Hcd : In cd (objs ++ [cd])) by (apply in_or_app; right; left; reflexivity).
    assert (ROcd : r_size (obj_reg cd) = padToWord sz).
    { unfold obj_reg, obj_bytes, cd, core, dl, dl0. cbn [r_size p_kind]. unfold list_allocSize. cbn [p_valid p_bit p_size p_len p_comp negb].
      unfold sz, list_allocSize. rewrite Hv. reflexivity. }
    assert (T3 : exists eo ep, tinv w3 ((objs ++ [cd]) ++ eo) (pads ++ ep)).
    { destruct (p_bit src || (PointerCount (p_size src) =? 0)) eqn:EBP.
      - unfold copy_bytes in E3. destruct (slice _ _ _) as [b| |] eqn:ES; cbn [bind] in E3; try discriminate.
        pose proof (slice_len_le _ _ _ _ ES Hs0) as Lb. pose proof (zlen_nonneg b) as Zb.
        unfold lift0 in E3. destruct (seg_write (w_dst w2) nsid doff b) as [m3| |] eqn:EW; cbn [bind] in E3; try discriminate.
        apply Ok_inj in E3. subst w3. apply seg_write_wrote in EW; [|lia|apply (slice_len _ _ _ _ ES)].
        apply tinv_ext. split; [|exact Cc2]. cbn [w_dst w_set_dst].
        apply (hinv_data_write (w_dst w2) (objs ++ [cd]) pads m3 cd doff b); auto.
        + unfold cd, core, dl, dl0. cbn [p_seg]. lia.
        + unfold cd, core, dl, dl0. cbn [p_off]. lia.
        + rewrite ROcd. change (obj_start cd) with (obj_start (dl doff)). lia.
        + intros x Hx. exfalso.
          assert (SN : slots cd = []).
          { destruct (list_obj_facts _ _ _ _ H2 Hcd eq_refl) as (_ & _ & _ & X). apply X.
            unfold cd, core, dl, dl0. cbn [p_bit p_size]. destruct (p_bit src); [left; reflexivity|right]. cbn [orb] in EBP. lia. }
          rewrite SN in Hx. destruct Hx.
      - destruct (fold_thread2 I (objs ++ [cd]) pads (iota (Z.to_nat (list_len src))) estep)
          with (wa := w2) (eo := @nil Ptr) (ep := @nil region) (w2 := w3) as (eo1 & ep1 & T3); auto; try lia.
        + intros wa i wb _. apply FrE.
        + intros wa eo ep i wb _ (Ia & Ra & Sa) [Ha Ca] E Hbb. unfold estep in E.
          destruct (list_struct true (dl doff) i) as [de| |] eqn:ED; cbn [bind] in E; try discriminate.
          destruct (list_struct true src i) as [se| |] eqn:ESe; cbn [bind] in E; try discriminate.
          destruct (list_struct_view ((objs ++ [cd]) ++ eo) (dl doff) i de) as [Vde Kde]; auto.
          { apply in_or_app. left. exact Hcd. }
          destruct (list_struct_sview sm src i se Vs Ek ESe) as [Vse Kse].
          destruct (QC wa ((objs ++ [cd]) ++ eo) (pads ++ ep) de se wb) as (eo' & ep' & T'); auto.
          * split; auto.
          * rewrite Sa. exact Hms.
          * intros X. apply Kde. exact X.
          * rewrite Sa. exact Vse.
          * exists eo', ep'. rewrite <- !app_assoc in T'. rewrite <- !app_assoc. exact T'.
        + rewrite !app_nil_r. split; auto.
        + unfold B32. lia.
        + cbn [app] in T3. exists eo1, ep1. exact T3. }
    destruct T3 as (eo & ep & [H3 Cc3]).
    assert (Hq3 : In q ((0, 0) :: flat_map slots ((objs ++ [cd]) ++ eo))) by (apply slots_app, slots_app; exact Hq).
    assert (Hcd3 : In cd ((objs ++ [cd]) ++ eo)) by (apply in_or_app; left; exact Hcd).
    destruct (hinv_place (w_dst w3) ((objs ++ [cd]) ++ eo) (pads ++ ep) w3 q cd raw w') as [pads' H']; auto; try lia.
    all: try (unfold cd, core, dl, dl0; cbn [p_kind]; discriminate).
    all: try (unfold raw_of, cd, core, dl, dl0; cbn [p_kind]; exact ER).
    all: try (change (obj_start cd) with (obj_start (dl doff)); rewrite Eos; unfold cd, core, dl, dl0; cbn [p_seg]; exact EP).
    exists ([cd] ++ eo), (ep ++ pads'). rewrite !app_assoc. split; [exact H'|exact Cc3]. }
  assert (PS : sz <= padToWord sz <= sz + 7) by (unfold padToWord, u32; lia).
  assert (ShD : forall doff, shape_ok (core (dl0 (p_comp src) doff))).
  { intros doff. unfold shape_ok in *. unfold core, dl0. cbn [p_kind p_len p_comp p_bit p_size]. rewrite Ek in Sh.
    unfold wc_of in *. cbn [p_size]. exact Sh. }
  assert (ObD : forall doff, obj_bytes (core (dl0 (p_comp src) doff)) = sz).
  { intros doff. unfold obj_bytes, core, dl0. cbn [p_kind]. unfold sz, list_allocSize. cbn [p_valid p_bit p_size p_len p_comp negb].
    rewrite Hv. reflexivity. }
  cbn [w_segs w_dst w_set_dst w_src] in HW. fold sm in HW.
  destruct (p_comp src) eqn:Hc.
  - (* composite list: the tag word is copied first *)
    destruct (Fc eq_refl) as (Esz & K0).
    destruct (Tg eq_refl) as (tag & Etag & Wtag).
    destruct (word_at_range _ _ _ _ Wtag) as (G1 & G2 & G3).
    assert (SL : seg_len sm (p_seg src) <= 4294967288).
    { unfold seg_len. pose proof (msg_ok_nth sm (Z.to_nat (p_seg src)) Hms) as [X _]. unfold maxSegmentSize in X. exact X. }
    assert (U8 : u32 (p_off src - 8) = p_off src - 8) by (unfold u32; lia). rewrite U8 in HW.
    rewrite (read_of_word_at _ _ _ _ Wtag) in HW by lia. cbn [bind] in HW. unfold lift0 in HW.
    destruct (writeRawPointer m1 nsid naddr tag) as [m2| |] eqn:EW; cbn [bind] in HW; try discriminate.
    destruct (addSize naddr 8) as [o|] eqn:EO; [|discriminate]. apply addSize_spec in EO. destruct EO as [-> EO].
    cbn [bind] in HW. cbv beta iota in HW.
    match type of HW with context [bind (if p_bit src || _ then ?A else ?B) _] =>
      destruct (if p_bit src || (PointerCount (p_size src) =? 0) then A else B) as [w3| |] eqn:E3 end;
      cbn [bind] in HW; try discriminate.
    cbv beta iota in HW. cbn [p_comp p_off p_seg] in HW.
    assert (S10 : 0 <= nsid) by lia.
    destruct (writeRawPointer_keeps _ _ _ _ _ S10 I1 EW) as (K2 & I2 & N2 & _).
    assert (U2 : u32 (sz - 8) = sz - 8) by (unfold u32; lia).
    assert (U3 : u32 (naddr + 8 - 8) = naddr) by (unfold u32; lia). rewrite U3 in HW.
    apply (Tail true (w_set_dst (w_set_dst w m1) m2) (naddr + 8) (u32 (sz - 8)) w3); auto; cbv zeta; cbn [w_dst w_set_dst]; try lia.
    + intros Hb2. split; [|apply cores_snoc; exact C].
      apply (hinv_alloc_comp (w_dst w) objs pads (fst q) sz m1 nsid naddr tag m2 (core (dl0 true (naddr + 8)))); auto; try reflexivity; try lia.
    + unfold I. cbn [w_dst w_set_dst w_src]. split; [exact I2|split; [lia|reflexivity]].
    + unfold obj_start, dl0. cbn [p_comp p_off]. lia.
    + unfold obj_start, dl0. cbn [p_comp p_off]. lia.
    + unfold obj_start, dl0. cbn [p_comp p_off]. lia.
  - (* plain list *)
    cbn [bind] in HW. cbv beta iota in HW.
    match type of HW with context [bind (if p_bit src || _ then ?A else ?B) _] =>
      destruct (if p_bit src || (PointerCount (p_size src) =? 0) then A else B) as [w3| |] eqn:E3 end;
      cbn [bind] in HW; try discriminate.
    cbv beta iota in HW. cbn [p_comp p_off p_seg] in HW.
    apply (Tail false (w_set_dst w m1) naddr sz w3); auto; cbv zeta; cbn [w_dst w_set_dst]; try lia.
    + intros Hb2. split; [|apply cores_snoc; exact C].
      apply (hinv_alloc_obj (w_dst w) objs pads (fst q) sz m1 nsid naddr (core (dl0 false naddr))); auto; try reflexivity; try lia.
    + unfold I. cbn [w_dst w_set_dst w_src]. split; [exact I1|split; [lia|reflexivity]].
    + unfold obj_start, dl0. cbn [p_comp p_off]. lia.
    + unfold obj_start, dl0. cbn [p_comp p_off]. lia.
Qed.

(* ------------------------------------------------------------------ writePtr from the source, all branches *)
Lemma rp_step f : R_cs f -> R_wp (S f).
Proof.
  intros QC w objs pads q src fc w' [H C] Hms Hq Vs HW Hb.
  destruct (p_valid src) eqn:Hv.
  2:{ rewrite write_ptr_invalid_loc in HW by exact Hv.
      destruct (write_ptr_hinv_gen f w objs pads q src fc w' H Hq (or_introl Hv) HW Hb) as [pads' H'].
      exists [], pads'. rewrite app_nil_r. split; auto. }
  destruct (p_kind src) eqn:Ek.
  - (* struct *)
    destruct (os_isZero (p_size src)) eqn:EZ.
    + unfold write_ptr in HW. cbn [write_ptr_gen] in HW. rewrite Hv, Ek, EZ in HW. cbn [negb] in HW.
      rewrite empty_struct_word_eq in HW. cbn [of_opt_panic bind] in HW. unfold lift0 in HW.
      destruct (writeRawPointer (w_dst w) (fst q) (snd q) empty_struct_word) as [m'| |] eqn:EW; cbn [bind] in HW; try discriminate.
      apply Ok_inj in HW. subst w'. apply tinv_ext. split; [|exact C]. cbn [w_dst w_set_dst].
      apply (hinv_write_inline (w_dst w) objs pads m' q empty_struct_word); auto.
    + apply (rstruct_copy f QC w objs pads q src fc w'); auto. split; auto.
  - (* list *)
    apply (rlist_copy f QC w objs pads q src fc w'); auto. split; auto.
  - (* capability: the client is appended to the capability table of the message under
       construction, the pointer holds its new index *)
    destruct (Vs Hv) as (_ & _ & X). rewrite Ek in X.
    unfold write_ptr in HW. cbn [write_ptr_gen] in HW. rewrite Hv, Ek in HW. cbn [negb is_src] in HW.
    set (m1 := mkBM (bm_arena (w_dst w)) (bm_segs (w_dst w)) (bm_caps (w_dst w) ++ [p_len src]) (bm_rl (w_dst w))) in *.
    unfold lift0 in HW.
    destruct (writeRawPointer m1 (fst q) (snd q) (rawInterfacePointer (u32 (zlen (bm_caps (w_dst w)))))) as [m'| |] eqn:EW; cbn [bind] in HW; try discriminate.
    apply Ok_inj in HW. subst w'. apply tinv_ext. split; [|exact C]. cbn [w_dst w_set_dst].
    assert (H1 : hinv m1 objs pads).
    { apply (hinv_same_data (w_dst w)); auto; try reflexivity. exact (hi_inv _ _ _ H). }
    apply (hinv_write_inline m1 objs pads m' q (rawInterfacePointer (u32 (zlen (bm_caps (w_dst w)))))); auto.
    right. right. exists (u32 (zlen (bm_caps (w_dst w)))). split; [apply u32_range|reflexivity].
Qed.

(* [copy_src_all]: writePtr and copyStruct with a handle of another message as source - any bytes
   0..255, any pointer graph that readPtr accepts - keep the table invariant of the message
   under construction *)
Theorem copy_src_all : forall f, R_wp f /\ R_cs f.
Proof.
  induction f as [|f [IW IC]].
  - split.
    + intros w objs pads q src fc w' _ _ _ _ HW. discriminate HW.
    + intros w objs pads dst src w' _ _ _ _ _ _ HW. discriminate HW.
  - split; [apply rp_step; exact IC|apply rs_step; exact IW].
Qed.

(* ------------------------------------------------------------------ the source message is never written *)
Lemma lift0_src w r w' : lift0 w r = Ok w' -> w_src w' = w_src w.
Proof. unfold lift0. destruct r; cbn [bind]; try discriminate. intros H. apply Ok_inj in H. subst. reflexivity. Qed.

Lemma place_src w d o t ta raw w' : place w d o t ta raw = Ok w' -> w_src w' = w_src w.
Proof.
  unfold place. destruct (t =? d); [apply lift0_src|].
  destruct (hasCapacity _ _).
  - destruct (alloc _ _ _) as [[[m1 s1] pa]| |]; cbn [bind]; try discriminate.
    destruct (writeRawPointer m1 _ _ _); cbn [bind]; try discriminate. apply lift0_src.
  - destruct (alloc _ _ _) as [[[m1 s1] pa]| |]; cbn [bind]; try discriminate.
    destruct (writeRawPointer m1 _ _ _) as [m2| |]; cbn [bind]; try discriminate.
    destruct (writeRawPointer m2 _ _ _); cbn [bind]; try discriminate. apply lift0_src.
Qed.

Lemma fold_src l (f : world -> Z -> res world) :
  (forall wa j wb, f wa j = Ok wb -> w_src wb = w_src wa) ->
  forall wa w2, fold_res l wa f = Ok w2 -> w_src w2 = w_src wa.
Proof.
  intros Hf. induction l as [|j r IH]; intros wa w2 H; cbn [fold_res] in H.
  - apply Ok_inj in H. now subst.
  - destruct (f wa j) as [wb| |] eqn:E; cbn [bind] in H; try discriminate.
    rewrite (IH _ _ H). apply (Hf _ _ _ E).
Qed.

Theorem src_pres : forall fp f,
  (forall strict w d o l src fc w', write_ptr_gen fp f strict w d o l src fc = Ok w' -> w_src w' = w_src w) /\
  (forall strict w dst l src w', copy_struct_gen fp f strict w dst l src = Ok w' -> w_src w' = w_src w).
Proof.
  intros fp. induction f as [|f [IW IC]]; [split; intros; discriminate|]. split.
  - intros strict w d o l src fc w' HW. cbn [write_ptr_gen] in HW.
    destruct (negb (p_valid src)); [apply (lift0_src _ _ _ HW)|].
    destruct (p_kind src).
    + destruct (os_isZero (p_size src)).
      { destruct (of_opt_panic _); cbn [bind] in HW; try discriminate. apply (lift0_src _ _ _ HW). }
      destruct (fc || is_src l || p_member src).
      * cbn [bind] in HW. destruct (alloc _ _ _) as [[[m1 s1] a1]| |]; cbn [bind] in HW; try discriminate.
        destruct (copy_struct_gen fp f strict _ _ l src) as [w2| |] eqn:EC; cbn [bind] in HW; try discriminate.
        destruct (of_opt_panic _); cbn [bind] in HW; try discriminate.
        rewrite (place_src _ _ _ _ _ _ _ HW). rewrite (IC _ _ _ _ _ _ EC). reflexivity.
      * cbn [bind] in HW. destruct (of_opt_panic _); cbn [bind] in HW; try discriminate. apply (place_src _ _ _ _ _ _ _ HW).
    + destruct (fc || is_src l).
      * cbn [bind] in HW. destruct (alloc _ _ _) as [[[m1 s1] a1]| |]; cbn [bind] in HW; try discriminate.
        match type of HW with context [bind (if p_comp src then ?A else ?B) _] =>
          destruct (if p_comp src then A else B) as [[[w2 doff] sz']| |] eqn:EX end; cbn [bind] in HW; try discriminate.
        assert (S2 : w_src w2 = w_src w).
        { destruct (p_comp src).
          - destruct (readRawPointer _ _); cbn [bind] in EX; try discriminate.
            destruct (lift0 _ _) as [w2'| |] eqn:EL; cbn [bind] in EX; try discriminate.
            destruct (addSize _ _); [|discriminate]. apply Ok_inj in EX.
            assert (w2 = w2') by congruence. subst w2'. apply (lift0_src _ _ _ EL).
          - apply Ok_inj in EX. assert (w2 = w_set_dst w m1) by congruence. subst w2. reflexivity. }
        match type of HW with context [bind (if p_bit src || _ then ?A else ?B) _] =>
          destruct (if p_bit src || (PointerCount (p_size src) =? 0) then A else B) as [w3| |] eqn:E3 end; cbn [bind] in HW; try discriminate.
        assert (S3 : w_src w3 = w_src w2).
        { destruct (p_bit src || (PointerCount (p_size src) =? 0)).
          - unfold copy_bytes in E3. destruct (slice _ _ _); cbn [bind] in E3; try discriminate. apply (lift0_src _ _ _ E3).
          - apply (fold_src _ _) with (wa := w2) in E3; auto.
            intros wa j wb E. destruct (list_struct _ _ _); cbn [bind] in E; try discriminate.
            destruct (list_struct _ _ _); cbn [bind] in E; try discriminate. apply (IC _ _ _ _ _ _ E). }
        cbv beta iota in HW. destruct (list_raw _); cbn [bind] in HW; try discriminate.
        rewrite (place_src _ _ _ _ _ _ _ HW). congruence.
      * cbn [bind] in HW. destruct (list_raw _); cbn [bind] in HW; try discriminate. apply (place_src _ _ _ _ _ _ _ HW).
    + destruct (is_src l); apply (lift0_src _ _ _ HW).
  - intros strict w dst l src w' HW. cbn [copy_struct_gen] in HW.
    destruct (negb (p_valid dst)); [discriminate|].
    destruct (negb (p_valid src)); [apply Ok_inj in HW; now subst|].
    destruct (slice _ _ _); cbn [bind] in HW; try discriminate.
    destruct (slice _ _ _); cbn [bind] in HW; try discriminate.
    destruct (lift0 w _) as [w1| |] eqn:E1; cbn [bind] in HW; try discriminate.
    match type of HW with context [bind (fold_res ?L w1 ?F) _] => destruct (fold_res L w1 F) as [w2| |] eqn:E2 end; cbn [bind] in HW; try discriminate.
    apply fold_src in HW. 2:{ intros wa j wb E. apply (lift0_src _ _ _ E). }
    apply fold_src in E2.
    2:{ intros wa j wb E. destruct (readPtr _ _ _ _ _ _ _) as [r rl']. destruct r; cbn [bind] in E; try discriminate.
        rewrite (IW _ _ _ _ _ _ _ _ E). destruct l; reflexivity. }
    rewrite HW, E2. apply (lift0_src _ _ _ E1).
Qed.
