(* Extraction of the generated L0 arithmetic for the translation validation (harness/cmd/l0,
   ocaml/l0_driver.ml): the extracted definitions are run against the real Go functions. *)
From CV Require Import Core.Arith Gen.GoArith.
From Coq Require Import ExtrOcamlBasic.
Extraction Language OCaml.
(* Nat.pred only brings the type nat into the extracted file (ocaml/zutil.ml mentions it) *)
Extraction "goarith_model.ml" Nat.pred
  go_addSize go_addSizeUnchecked go_element go_addOffset go_times go_timesUnchecked 
  go_padToWord go_isZero go_isOneByte go_isValid go_pointerSize go_totalSize 
  go_dataWordCount go_totalWordCount go_BitOffset_offset go_BitOffset_mask go_bitListSize 
  go_resolve go_nearPointerOffset go_rawStructPointer go_rawListPointer 
  go_rawInterfacePointer go_rawFarPointer go_rawDoubleFarPointer go_landingPadNearPointer 
  go_pointerType go_structSize go_listType go_numListElements go_elementSize 
  go_totalListSize go_rawPointer_offset go_withOffset go_farAddress go_farSegment 
  go_otherPointerType go_capabilityIndex go_inBounds go_regionInBounds go_pointerAddress 
  go_bitInData go_dataAddress go_canRead_step.
