From CV Require Import Cap.Cap.
From Coq Require Import ExtrOcamlBasic.
Extraction Language OCaml.
Extraction "cap_model.ml" init step step_early enabled unfinished in_callout run run_seq.
