From CV Require Import Core.Arith Core.Reader Core.ReadOps Core.Builder Value.ValueEq Value.EqualM.
From Coq Require Import ExtrOcamlBasic.
Extraction Language OCaml.
Extraction "value_model.ml" run_equal spec_equal mkCfg mkFix mkEFix.
