From CV Require Import Core.Arith Core.Reader Core.ReadOps Core.Builder Value.ValueEq Value.EqualM Value.CanonSpec Value.CanonM Value.Harness.
From Coq Require Import ExtrOcamlBasic.
Extraction Language OCaml.
Extraction "value_model.ml" run_equal spec_equal spec_equal_v spec_equal_big run_canon spec_canon spec_canon_v spec_canon_big spec_recanon select select_member run_canon_p spec_canon_v_p init_rlimit mkCfg mkFix mkEFix mkCFix.
