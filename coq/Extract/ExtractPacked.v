From CV Require Import Packed.Packed Packed.PackSpec.
From Coq Require Import ExtrOcamlBasic.
Extraction Language OCaml.
Extraction "packed_model.ml" pack_bytes unpack unpack_prefix spec_unpack stream_unpack read_calls b_init.
