From CV Require Import Server.Server.
From Coq Require Import ExtrOcamlBasic ZArith.
Extraction Language OCaml.
Extraction "server_model.ml" init step run mkParams
  ongoing starting full drain spc ipc ppc shpc cancelled icanc acked gate_rel idone slot ierr gotp
  aq_q aq_ph penq proot pbasis tret compl trace panicked shcount rel
  Z.of_nat Z.to_nat in_impl holds_slot count_slots pipe_target pred_done ready_closed.
