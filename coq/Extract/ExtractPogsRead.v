From CV Require Import Pogs.PogsRead.
From Coq Require Import ExtrOcamlBasic.
Extraction Language OCaml.
Extraction "pogsread_model.ml" extract_msg rschema_ok PogsM.bits_of_z PogsM.z_of_bits PogsM.mk_struct.
