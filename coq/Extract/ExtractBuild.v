From CV Require Import Core.Arith Core.Reader Core.ReadOps Core.Builder Core.BuildOps.
From Coq Require Import ExtrOcamlBasic.
Extraction Language OCaml.
Extraction "build_model.ml" run_build mkCfg.
