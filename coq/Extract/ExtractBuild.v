From CV Require Import Core.Arith Core.Reader Core.ReadOps Core.Builder Core.BuildOps Core.BuildValid.
From Coq Require Import ExtrOcamlBasic.
Extraction Language OCaml.
Extraction "build_model.ml" run_build mkCfg valid_message spec_root_tree.
