From CV Require Import Rpc.Rpc.
From Coq Require Import ExtrOcamlBasic.
Extraction Language OCaml.
Extraction "rpc_model.ml" init step view cfg_fixed s_lrefs s_handles cget.
