From CV Require Import Text.Strquote Text.TextSpec Text.TextM.
From Coq Require Import ExtrOcamlBasic.
Extraction Language OCaml.
Extraction "text_model.ml" append quote quote_prefix hex_digit parse_literal parse_text parse_value
  print shown render encode run_history encode_again cfg_prefix cfg_fixed enc_init use_registry encode_e encode_list_e encode_list shown_list run_ops.
