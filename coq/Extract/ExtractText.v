From CV Require Import Text.Strquote Text.TextSpec.
From Coq Require Import ExtrOcamlBasic.
Extraction Language OCaml.
Extraction "text_model.ml" append quote quote_prefix hex_digit parse_literal.
