(* Extraction of the second group of generated definitions (Gen/GoArith2.v) for the
   translation validation (harness/cmd/l0 -group 2, ocaml/l0b_driver.ml). *)
From CV Require Import Base.GoSem Core.Arith Gen.GoArith Gen.GoArith2.
From Coq Require Import ExtrOcamlBasic.
Extraction Language OCaml.
(* Nat.pred only brings the type nat into the extracted file (ocaml/zutil.ml mentions it) *)
Extraction "goarith2_model.ml" Nat.pred
  go_maxAllocSize go_nextAlloc go_hasCapacity go_streamHeaderSize go_segmentSize
  go_needsEscape go_hexDigit go_packed_min go_isFieldInBounds go_gen_Offset go_intbits
  go_intFieldDefaultMask.
