From CV Require Import Transport.Transport.
From Coq Require Import ExtrOcamlBasic.
Extraction Language OCaml.
Extraction "transport_model.ml" run_tbl orc_of run t_init.
