From CV Require Import Transport.Transport Transport.CtxWrite.
From Coq Require Import ExtrOcamlBasic.
Extraction Language OCaml.
Extraction "transport_model.ml" run_tbl orc_of run t_init cw_run_tbl.
