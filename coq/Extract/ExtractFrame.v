From CV Require Import Frame.Frame.
From CV Require Import Frame.FramePacked.
From CV Require Import Frame.FrameReaders.
From Coq Require Import ExtrOcamlBasic.
Extraction Language OCaml.
Extraction "frame_model.ml" xdstep xread_full xread_full_drop marshal_packed unmarshal_packed pdstep p_init pdecode1_gen encode_packed_stream marshal unmarshal unmarshal_alloc encode encode_packed decode1 decode1_gen dstep dstep_gen run_history
  d_init packed_reader alloc_bytes alloc_table eff_max stream_header_size segment_size segment_size_nowrap total_size
  max_stream_segments len.
