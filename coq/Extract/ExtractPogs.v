From CV Require Import Pogs.PogsM.
From Coq Require Import ExtrOcamlBasic.
Extraction Language OCaml.
Extraction "pogs_model.ml" insert_struct extract_struct gen_struct schema_ok
  struct_bytes struct_ptrs mk_struct z_of_bits bits_of_z.
