From CV Require Import Core.Arith Core.Reader Core.ReadOps.
From Coq Require Import ExtrOcamlBasic.
Extraction Language OCaml.
Extraction "core_model.ml" run_ops mkCfg mkFix.
