From CV Require Import Promise.Promise Promise.PromiseJoin.
From Coq Require Import ExtrOcamlBasic.
Extraction Language OCaml.
Extraction "promise_model.ml" init step enabled finished wants_mu quiesce run as_found f11_fixed late_fixed fixed mu_free
  jinit jstep jenabled jfinished jmutex_blocked jquiesce jrun jfixed jseed3 jf11c jrefs1 all_mu_free.
