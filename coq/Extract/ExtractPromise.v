From CV Require Import Promise.Promise.
From Coq Require Import ExtrOcamlBasic.
Extraction Language OCaml.
Extraction "promise_model.ml" init step enabled finished wants_mu quiesce run as_found f11_fixed fixed mu_free.
