From CV Require Import Layout.Layout.
From Coq Require Import ExtrOcamlBasic.
Extraction Language OCaml.
Extraction "layout_model.ml" spec_get spec_set spec_has spec_which spec_future gen_objsize
  get_of set_of has_of new_of getbytes_of gen_node Z.add Z.mul Z.div Z.modulo Z.opp Z.ltb.
