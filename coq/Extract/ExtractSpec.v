(* extraction of the specification-level decoder (the independent reference decoder of C03) *)
From CV Require Import Spec.Spec Spec.SpecOps Spec.SpecValid.
From Coq Require Import ExtrOcamlBasic.
Extraction Language OCaml.
Extraction "spec_model.ml" spec_run_ops spec_decode_root strict_valid_message.
