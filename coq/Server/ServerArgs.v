(* C12 / C07 — r.ReleaseArgs(): on every path of Server.start, of the method goroutine and of the
   answerQueue (enqueue, fulfill, reject, pass-through, cancelled waits, "call after shutdown") the
   arguments of a call are released exactly once, and no later than the call's completion
   (Returner.Return).  [rel c x] (ghost field of the model) counts the ReleaseArgs of call x.

   The invariant: the counter is a function of the program counters - it is 1 exactly from the
   stage on at which the code has passed its r.ReleaseArgs() / r.Reject(..) / the target's r.Return(). *)
From CV Require Import Server.Server Server.ServerProofs Server.ServerSteps Server.ServerStart Server.ServerTheorems
  Server.ServerOnce Server.AqInv Server.AqTheorems Server.OnceTheorems.
From Coq Require Import List Arith Bool Lia.
Import ListNotations.

(* direct call: rejected by start (no goroutine, start has returned), or its goroutine is past
   "err := m.Impl(ctx, call); r.ReleaseArgs()" *)
Definition args_done_direct (c : config) (x : cid) : bool :=
  match ipc c x with
  | IDrain | IReturn | ISlot | IClose | IDone => true
  | INone => match spc c x with SDone => true | _ => false end
  | _ => false
  end.

(* pipelined call: rejected (ctx / answer's error / error of the call it was pipelined on), or the
   capability it was delivered to has returned (r.Return() / r.Reject(e) release the arguments) *)
Definition args_done_pipe (c : config) (x : cid) : bool :=
  match ppc c x with PEmbRet | PDone => true | _ => false end.

Definition args_done (P : params) (c : config) (x : cid) : bool :=
  match p_kind P x with Direct => args_done_direct c x | Pipe _ => args_done_pipe c x end.

Definition b2n (b : bool) : nat := if b then 1 else 0.

Record invR (P : params) (c : config) : Prop := {
  r_rel : forall x, rel c x = b2n (args_done_direct c x) + b2n (args_done_pipe c x);
  r_pipe : forall x, p_kind P x <> Direct -> ipc c x = INone
}.

Lemma invR_init : forall P, invR P (init P).
Proof. intros P. constructor; simpl; intros; auto. Qed.

Lemma invR_eq : forall P c c', rel c' = rel c -> ipc c' = ipc c -> spc c' = spc c -> ppc c' = ppc c ->
  invR P c -> invR P c'.
Proof.
  intros P c c' E1 E2 E3 E4 [R1 R2]. constructor; unfold args_done_direct, args_done_pipe in *; intros;
    rewrite ?E1, ?E2, ?E3, ?E4; auto.
Qed.

Ltac rw_pcs :=
  repeat match goal with E : spc _ _ = _ |- _ => rewrite E in * end;
  repeat match goal with E : ipc _ _ = _ |- _ => rewrite E in * end;
  repeat match goal with E : ppc _ _ = _ |- _ => rewrite E in * end.

Ltac spec_refl :=
  repeat match goal with
  | H : ?a = ?a -> _ |- _ => specialize (H eq_refl)
  | H : ?a <> ?a |- _ => exfalso; apply H; reflexivity
  end.

Ltac split_pcs :=
  repeat match goal with
  | |- context [match ipc ?c ?x with _ => _ end] => destruct (ipc c x) eqn:?
  | H : context [match ipc ?c ?x with _ => _ end] |- _ => destruct (ipc c x) eqn:?
  | |- context [match spc ?c ?x with _ => _ end] => destruct (spc c x) eqn:?
  | H : context [match spc ?c ?x with _ => _ end] |- _ => destruct (spc c x) eqn:?
  | |- context [match ppc ?c ?x with _ => _ end] => destruct (ppc c x) eqn:?
  | H : context [match ppc ?c ?x with _ => _ end] |- _ => destruct (ppc c x) eqn:?
  end.

Ltac rfin I R :=
  constructor;
  [ intros y; pose proof (r_rel _ _ R y) as Hy; pose proof (i_pre _ _ I y) as Hpre; pose proof (i_ack _ _ I y) as Hack
  | intros y Ky; pose proof (r_pipe _ _ R y Ky) as Hy ];
  unfold args_done_direct, args_done_pipe, b2n, pre_impl in *;
  cbn -[nth_error next_id has_ongoing set_nth] in *; unfold upd in *;
  eqb_cases; rw_pcs;
  cbn -[nth_error next_id has_ongoing set_nth] in *; spec_refl; rw_pcs;
  cbn -[nth_error next_id has_ongoing set_nth] in *;
  try solve [ assumption | congruence | lia ];
  try solve [ split_pcs; cbn in *; spec_refl; solve [ assumption | congruence | lia ] ].

Lemma invR_if_ph : forall P c2 (b : bool) f, invR P c2 -> invR P (if b then set_aq_ph f c2 else c2).
Proof. intros P c2 b f H. destruct b; auto. eapply invR_eq; [..|exact H]; reflexivity. Qed.

(* bases[b].recv(..) on a call that has not been released yet *)
Lemma invR_deliver : forall P a p b k emb c, inv P c -> invR P c ->
  (ppc c p = PQueued \/ ppc c p = PWaitReady) -> invR P (deliver a p b k emb c).
Proof.
  intros P a p b k emb c I R Hp. unfold deliver, reject_call, release, complete, panic.
  destruct b; [|destruct (Nat.ltb b k); [destruct (nth_error (aq_q c a) b); [destruct (tret c c0); [| |destruct emb]|]|]];
    try destruct emb; destruct Hp as [Hp|Hp]; rfin I R.
Qed.

Lemma invR_step : forall P c t c', p_relfix P = true -> inv P c -> invA P c -> invR P c ->
  step P c t = Some c' -> invR P c'.
Proof.
  intros P c t c' Fx I A R H. destruct t; simpl in H.
  - (* start *)
    unfold step_start in H. destruct (p_kind P c0) eqn:Ek; try discriminate.
    destruct (spc c c0) eqn:Es; try discriminate.
    + destruct (pred_done P c c0); inv_some. unfold enter_start, start_reject, take_slot, reject_call, release, complete.
      cbn -[next_id]. destruct (drain c); [destruct (starting c); [|cbn -[next_id]; destruct (next_id (ongoing c))]|..].
      all: rfin I R.
    + destruct (gate_rel c h); inv_some. unfold enter_start, start_reject, take_slot, reject_call, release, complete.
      cbn -[next_id]. destruct (drain c); [destruct (starting c); [|cbn -[next_id]; destruct (next_id (ongoing c))]|..].
      all: rfin I R.
    + destruct (next_id (ongoing c)); [destruct (drain c)|]; inv_some;
        unfold start_reject, release_gate, take_slot, panic, reject_call, release, complete.
      all: rfin I R.
    + destruct (acked c c0 || idone c c0); inv_some. unfold release_gate.
      rfin I R.
  - (* start, ctx arm *)
    unfold step_start_ctx in H. destruct (p_kind P c0) eqn:Ek; try discriminate.
    destruct (cancelled c c0); try discriminate. rewrite Fx in H.
    destruct (spc c c0) eqn:Es; inv_some; unfold start_reject, start_reject_if, release_if, release_gate, reject_call, release, complete.
    all: rfin I R.
  - unfold step_ack in H. destruct (ipc c c0) eqn:Ei; inv_some. rfin I R.
  - unfold step_ret in H. destruct (ipc c c0) eqn:Ei; inv_some. all: rfin I R.
  - (* the method goroutine *)
    unfold step_impl in H. destruct (ipc c c0) eqn:Ei; try discriminate.
    + inv_some. unfold release. rfin I R.
    + destruct (aq_ph c c0) eqn:Eph; try discriminate. destruct (nth_error (aq_q c c0) k) eqn:En.
      * assert (Eq : ppc c c1 = PQueued).
        { destruct (a_q1 _ _ A _ _ _ En) as [_ Hq]. rewrite Eph in Hq. apply Hq. cbn. lia. }
        destruct (ierr c c0); inv_some.
        -- unfold reject_call, release, complete. rfin I R.
        -- apply invR_if_ph. apply invR_deliver; auto.
           { eapply inv_core_eq; [|exact I]. core. }
           { eapply invR_eq; [..|exact R]; reflexivity. }
      * inv_some. rfin I R.
    + inv_some. rfin I R.
    + inv_some. unfold all_free, panic. cbn -[set_nth has_ongoing].
      destruct (drain c); cbn -[set_nth has_ongoing]; try destruct (has_ongoing _); cbn -[set_nth has_ongoing];
        destruct (full c) eqn:Ef; cbn -[set_nth has_ongoing].
      all: try (pose proof (i_full1 _ _ I _ Ef) as Ew).
      all: rfin I R.
    + inv_some. rfin I R.
  - (* pipelined call *)
    unfold step_pipe in H. destruct (p_kind P p) eqn:Ek; try discriminate.
    destruct (ppc c p) eqn:Ep; try discriminate.
    + destruct (pred_done P c p); try discriminate.
      destruct (pipe_target P c on) as [[a b]|]; try discriminate.
      cbn in H. destruct (aq_ph c a); [destruct (Nat.eqb _ _)|..]; inv_some.
      all: rfin I R.
    + destruct (aq_ph c (proot c p)); inv_some.
      all: rfin I R.
    + destruct (ready_closed c (proot c p)); inv_some.
      unfold passthrough. destruct (ierr c (proot c p)).
      * unfold reject_call, release, complete. rfin I R.
      * apply invR_deliver; auto.
  - unfold step_pipe_ctx in H. destruct (p_kind P p) eqn:Ek; try discriminate.
    destruct (cancelled c p); try discriminate.
    destruct (ppc c p) eqn:Ep; inv_some; unfold reject_call, release, complete.
    all: rfin I R.
  - unfold step_target_ret in H. destruct (ppc c p) eqn:Ep; inv_some; unfold reject_call, release, complete.
    all: rfin I R.
  - unfold step_emb in H. destruct (ppc c p) eqn:Ep; try discriminate.
    destruct (aq_ph c (proot c p)); try discriminate. destruct (tret c p); inv_some.
    all: rfin I R.
  - unfold step_cancel in H. destruct (cancelled c c0); inv_some.
    eapply invR_eq; [..|exact R]; reflexivity.
  - unfold step_shutdown in H. destruct (shpc c); try discriminate.
    + destruct (drain c); [destruct (has_ongoing (ongoing c))|..]; inv_some; unfold panic.
      all: eapply invR_eq; [..|exact R]; reflexivity.
    + destruct (drain c); inv_some. eapply invR_eq; [..|exact R]; reflexivity.
    + inv_some. eapply invR_eq; [..|exact R]; reflexivity.
  - unfold step_drain_ack in H. destruct (aq_ph c a); inv_some. eapply invR_eq; [..|exact R]; reflexivity.
Qed.

Lemma invR_reachable : forall P c, p_relfix P = true -> reachable P c -> invR P c.
Proof.
  intros P c Fx. induction 1. apply invR_init.
  eapply invR_step; eauto. apply inv_reachable; auto. apply invA_reachable; auto.
Qed.

(* ------------------------------------------------------------------ the theorem *)

Lemma rel_is_stage : forall P c x, p_relfix P = true -> reachable P c ->
  rel c x = b2n (args_done P c x).
Proof.
  intros P c x Fx Rc. pose proof (invR_reachable P c Fx Rc) as R. pose proof (invA_reachable P c Rc) as A.
  rewrite (r_rel _ _ R x). unfold args_done. destruct (p_kind P x) eqn:Ek.
  - unfold args_done_pipe. rewrite (a_kp _ _ A x Ek). simpl. lia.
  - assert (K : p_kind P x <> Direct) by congruence.
    unfold args_done_direct. rewrite (r_pipe _ _ R x K), (a_ks _ _ A x K). simpl. reflexivity.
Qed.

Lemma finished_args_done : forall P c x, finished P c x = true -> args_done P c x = true.
Proof.
  intros P c x. unfold finished, args_done, finished_direct, args_done_direct, args_done_pipe, pdone.
  destruct (p_kind P x); [destruct (ipc c x); auto; discriminate | destruct (ppc c x); auto; discriminate].
Qed.

(* For the code as it is (p_relfix = true), in every reachable configuration (all schedules, all
   MaxConcurrentCalls / queue sizes / call sets): the arguments of every call have been released
   at most once; exactly once iff the call is at or past the stage [args_done] (rejected by start,
   goroutine past m.Impl, rejected by the answerQueue, target returned); and whenever the call has
   completed (its Returner.Return was called: compl non-empty / [finished]) they HAVE been released:
   release happens no later than completion, on every path. *)
Lemma args_released_once_lemma : forall P c x, p_relfix P = true -> reachable P c ->
  rel c x <= 1 /\
  (rel c x = 1 <-> args_done P c x = true) /\
  (compl c x <> [] -> rel c x = 1) /\
  (finished P c x = true -> rel c x = 1).
Proof.
  intros P c x Fx Rc. rewrite (rel_is_stage P c x Fx Rc).
  assert (Hf : finished P c x = true -> b2n (args_done P c x) = 1).
  { intros Hfin. rewrite (finished_args_done _ _ _ Hfin). reflexivity. }
  repeat split.
  - destruct (args_done P c x); simpl; lia.
  - destruct (args_done P c x); simpl; auto; discriminate.
  - intros ->. reflexivity.
  - intros Hc. apply Hf. destruct (each_call_once_lemma P c x Rc) as (Hle & Hiff). apply Hiff.
    destruct (compl c x); [congruence|]. simpl in *. lia.
  - exact Hf.
Qed.

(* release and completion are different steps of the method goroutine: between "m.Impl returned"
   and Returner.Return the arguments are already released and the call has not completed yet *)
Lemma args_released_before_return_lemma : forall P c x, p_relfix P = true -> reachable P c ->
  p_kind P x = Direct -> (ipc c x = IDrain \/ ipc c x = IReturn) -> rel c x = 1 /\ compl c x = [].
Proof.
  intros P c x Fx Rc K Hi. split.
  - rewrite (rel_is_stage P c x Fx Rc). unfold args_done, args_done_direct. rewrite K.
    destruct Hi as [-> | ->]; reflexivity.
  - apply (direct_once_lemma P c x Rc K). unfold finished_direct. destruct Hi as [-> | ->]; reflexivity.
Qed.

(* ------------------------------------------------------------------ examples *)

(* MaxConcurrentCalls = 1; call 0 runs (acked), call 1 waits for the slot, its context is cancelled *)
Definition ex_params_rel (relfix : bool) : params :=
  mkParams 1 1 (fun x => match x with 3 => Pipe 0 | _ => Direct end) (fun _ => None) true (fun _ => false) relfix.
Definition ex_sched_rel : list tid :=
  [TStart 0; TAck 0; TStart 0; TStart 1; TCancel 1; TStartCtx 1].

(* non-vacuity: the code as it is, cancelled while waiting for a slot: completed with ctx.Err(), released once *)
Lemma args_released_example :
  let c := run (ex_params_rel true) (init (ex_params_rel true)) ex_sched_rel in
  compl c 1 = [CCtx] /\ rel c 1 = 1 /\ spc c 1 = SDone /\ rel c 0 = 0.
Proof. vm_compute. repeat split. Qed.

(* ... and every other path: a queued pipelined call delivered and returned by its target, the
   method goroutine, a call rejected after Shutdown *)
Lemma args_released_example_paths :
  let c := run (ex_params_rel true) (init (ex_params_rel true))
               (ex_sched_rel ++ [TPipe 3; TRet 0 false; TImpl 0; TImpl 0; TTargetRet 3 false; TImpl 0; TImpl 0; TImpl 0; TImpl 0;
                                 TEmb 3; TShutdown; TShutdown; TStart 2]) in
  rel c 0 = 1 /\ rel c 1 = 1 /\ rel c 2 = 1 /\ rel c 3 = 1 /\
  compl c 0 = [COk] /\ compl c 2 = [CFail] /\ compl c 3 = [COk].
Proof. vm_compute. repeat split. Qed.

(* the variant that calls r.Returner.Return(ctx.Err()) instead of r.Reject(ctx.Err()) on the
   "cancelled while waiting for a free slot" branch: the call completes, its arguments are never released *)
Lemma args_released_once_refuted_lemma :
  exists P c x, p_relfix P = false /\ reachable P c /\ compl c x <> [] /\ finished P c x = true /\ rel c x = 0 /\
                spc c x = SDone /\ ipc c x = INone.    (* start has returned, no goroutine: nobody is left to release *)
Proof.
  exists (ex_params_rel false), (run (ex_params_rel false) (init (ex_params_rel false)) ex_sched_rel), 1.
  split; [reflexivity|]. split; [apply run_reachable; apply reach_init|].
  vm_compute. repeat split; auto; discriminate.
Qed.
