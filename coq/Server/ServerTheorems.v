(* C12 — theorems about the server core over all schedules. *)
From CV Require Import Server.Server Server.ServerProofs Server.ServerSteps Server.ServerStart.
From Coq Require Import List Arith Bool Lia.
Import ListNotations.

Lemma inv_step : forall P c t c', inv P c -> step P c t = Some c' -> inv P c'.
Proof.
  intros P c t c' I H. destruct t; simpl in H.
  - eapply inv_start; eauto.
  - eapply inv_start_ctx; eauto.
  - eapply inv_ack; eauto.
  - eapply inv_ret; eauto.
  - eapply inv_impl; eauto.
  - eapply inv_pipe; eauto.
  - eapply inv_pipe_ctx; eauto.
  - eapply inv_target_ret; eauto.
  - eapply inv_emb; eauto.
  - eapply inv_cancel; eauto.
  - eapply inv_shutdown; eauto.
Qed.

Lemma inv_reachable : forall P c, reachable P c -> inv P c.
Proof. induction 1. apply inv_init. eapply inv_step; eauto. Qed.

Lemma run_reachable : forall P s c, reachable P c -> reachable P (run P c s).
Proof.
  induction s as [|t s IH]; simpl; intros c H; auto.
  destruct (step P c t) eqn:E; auto. apply IH. econstructor; eauto.
Qed.

(* ------------------------------------------------------------------ running <= MaxConcurrentCalls *)

Lemma slot_injective : forall P c x y, inv P c ->
  holds_slot (ipc c x) = true -> holds_slot (ipc c y) = true -> slot c x = slot c y -> x = y.
Proof.
  intros P c x y I Hx Hy E. pose proof (i_slot2 _ _ I x Hx) as A. pose proof (i_slot2 _ _ I y Hy) as B.
  rewrite E in A. congruence.
Qed.

Lemma NoDup_map_inj : forall (f : cid -> nat) l,
  (forall x y, In x l -> In y l -> f x = f y -> x = y) -> NoDup l -> NoDup (map f l).
Proof.
  induction l as [|a l IH]; simpl; intros Hinj Hnd; constructor.
  - inversion Hnd; subst. intros Hin. apply in_map_iff in Hin. destruct Hin as (y & E & Hy).
    assert (y = a) by (apply Hinj; auto). subst. contradiction.
  - inversion Hnd; subst. apply IH; auto.
Qed.

(* every set of distinct calls that hold a slot — in particular every set of calls whose
   implementation function is executing — has at most MaxConcurrentCalls elements *)
Lemma running_le_max_lemma : forall P c, reachable P c ->
  forall l, NoDup l -> (forall x, In x l -> holds_slot (ipc c x) = true) -> length l <= p_max P.
Proof.
  intros P c R l Hnd Hl. pose proof (inv_reachable _ _ R) as I.
  rewrite <- (map_length (slot c) l). rewrite <- (seq_length (p_max P) 0).
  apply NoDup_incl_length.
  - apply NoDup_map_inj; auto. intros x y Hx Hy. apply (slot_injective P c); auto.
  - intros i Hi. apply in_map_iff in Hi. destruct Hi as (x & E & Hx). subst.
    apply in_seq. split; [lia|]. simpl. rewrite <- (i_len _ _ I).
    apply nth_error_Some. rewrite (i_slot2 _ _ I x (Hl x Hx)). discriminate.
Qed.

Lemma in_impl_holds_slot : forall i, in_impl i = true -> holds_slot i = true.
Proof. destruct i; simpl; auto. Qed.

(* ------------------------------------------------------------------ the gate *)

(* at most one implementation is started and has neither acknowledged nor returned, and the
   call it belongs to holds the starting gate *)
Lemma unacked_unique : forall P c, reachable P c ->
  forall i j, ipc c i = IRun -> ipc c j = IRun -> i = j.
Proof.
  intros P c R i j Hi Hj. pose proof (inv_reachable _ _ R) as I.
  pose proof (i_run _ _ I i Hi) as Si. pose proof (i_run _ _ I j Hj) as Sj.
  pose proof (i_gate1 _ _ I i) as Gi. pose proof (i_gate1 _ _ I j) as Gj.
  rewrite Si in Gi. rewrite Sj in Gj. specialize (Gi eq_refl). specialize (Gj eq_refl). congruence.
Qed.

Lemma core_eq_ipc : forall c c' x, core_eq c c' -> ipc c' x = ipc c x.
Proof. intros c c' x (_ & _ & E & _). rewrite E. reflexivity. Qed.

Lemma take_slot_ipc : forall x id c j, ipc c j = INone -> ipc (take_slot x id c) j <> INone -> j = x.
Proof. intros x id c j H. cbn. unfold upd. eqb_cases; auto. congruence. Qed.

(* an implementation is only ever started by its own start goroutine, while srv.drain is nil *)
Lemma begin_step : forall P c t c' j, step P c t = Some c' ->
  ipc c j = INone -> ipc c' j <> INone -> ipc c' j = IRun /\ drain c = DNil /\ t = TStart j.
Proof.
  intros P c t c' j H Hn Hs. destruct t; simpl in H.
  - (* TStart *)
    unfold step_start in H. destruct (p_kind P c0); try discriminate.
    destruct (spc c c0) eqn:Es; try discriminate.
    + destruct (pred_done P c c0); inv_some. unfold enter_start in *. cbn -[take_slot next_id] in *.
      destruct (drain c) eqn:Ed; [destruct (starting c)|..].
      * exfalso. apply Hs. cbn. auto.
      * cbn -[take_slot next_id] in *. destruct (next_id (ongoing c)).
        -- assert (j = c0) by (match goal with Hq : ipc (take_slot ?x ?id ?cc) j <> INone |- _ => apply (take_slot_ipc x id cc j); [exact Hn | exact Hq] end). subst. split; [|auto].
           cbn. unfold upd. rewrite Nat.eqb_refl. reflexivity.
        -- exfalso. apply Hs. cbn. auto.
      * exfalso. apply Hs. cbn. auto.
      * exfalso. apply Hs. cbn. auto.
    + destruct (gate_rel c h); inv_some. unfold enter_start in *.
      destruct (drain c) eqn:Ed; [destruct (starting c)|..].
      * exfalso. apply Hs. cbn. auto.
      * cbn -[take_slot next_id] in *. destruct (next_id (ongoing c)).
        -- assert (j = c0) by (match goal with Hq : ipc (take_slot ?x ?id ?cc) j <> INone |- _ => apply (take_slot_ipc x id cc j); [exact Hn | exact Hq] end). subst. split; [|auto].
           cbn. unfold upd. rewrite Nat.eqb_refl. reflexivity.
        -- exfalso. apply Hs. cbn. auto.
      * exfalso. apply Hs. cbn. auto.
      * exfalso. apply Hs. cbn. auto.
    + destruct (next_id (ongoing c)); inv_some.
      * destruct (drain c) eqn:Ed; inv_some.
        -- assert (j = c0) by (match goal with Hq : ipc (take_slot ?x ?id ?cc) j <> INone |- _ => apply (take_slot_ipc x id cc j); [exact Hn | exact Hq] end). subst. split; [|auto].
           cbn. unfold upd. rewrite Nat.eqb_refl. reflexivity.
        -- exfalso. apply Hs. cbn. auto.
        -- exfalso. apply Hs. cbn. auto.
      * exfalso. apply Hs. cbn. auto.
    + destruct (acked c c0 || idone c c0); inv_some. exfalso. apply Hs. cbn. auto.
  - exfalso. unfold step_start_ctx in H. destruct (p_kind P c0); try discriminate.
    destruct (cancelled c c0); try discriminate.
    destruct (spc c c0); inv_some; apply Hs; cbn; auto.
  - exfalso. unfold step_ack in H. destruct (ipc c c0) eqn:E; inv_some.
    apply Hs. cbn. unfold upd. eqb_cases; congruence.
  - exfalso. unfold step_ret in H. destruct (ipc c c0) eqn:E; inv_some;
    apply Hs; cbn; unfold upd; eqb_cases; congruence.
  - exfalso. unfold step_impl in H. destruct (ipc c c0) eqn:E; try discriminate.
    + inv_some. apply Hs; cbn; unfold upd; eqb_cases; congruence.
    + destruct (aq_ph c c0); try discriminate. destruct (nth_error (aq_q c c0) k).
      * destruct (ierr c c0); inv_some.
        -- apply Hs; cbn; auto.
        -- apply Hs. match goal with |- context [ipc (deliver ?a ?p ?b ?k ?e ?cc) j] => rewrite (core_eq_ipc _ _ j (core_eq_deliver a p b k e cc)) end. cbn. auto.
      * inv_some. apply Hs; cbn; unfold upd; eqb_cases; congruence.
    + inv_some. apply Hs; cbn; unfold upd; eqb_cases; congruence.
    + inv_some. apply Hs. cbn -[set_nth]. unfold upd.
      destruct (drain c); cbn -[set_nth]; try destruct (all_free _); cbn -[set_nth];
        destruct (full c); cbn -[set_nth]; eqb_cases; congruence.
    + inv_some. apply Hs; cbn; unfold upd; eqb_cases; congruence.
  - exfalso. apply Hs. assert (I0 : core_eq c c').
    { unfold step_pipe in H. destruct (p_kind P p); try discriminate.
      destruct (ppc c p) eqn:Ep; try discriminate.
      - destruct (pred_done P c p); try discriminate.
        destruct (pipe_target P c on) as [[a b]|]; try discriminate.
        cbn in H. destruct (aq_ph c a); [destruct (Nat.eqb _ _)|..]; inv_some; core.
      - destruct (aq_ph c (proot c p)); inv_some; core.
      - destruct (ready_closed c (proot c p)); inv_some.
        unfold passthrough. destruct (ierr c (proot c p)); [core|apply core_eq_deliver]. }
    rewrite (core_eq_ipc _ _ j I0). auto.
  - exfalso. apply Hs. unfold step_pipe_ctx in H. destruct (p_kind P p); try discriminate.
    destruct (cancelled c p); try discriminate. destruct (ppc c p); inv_some; cbn; auto.
  - exfalso. apply Hs. unfold step_target_ret in H. destruct (ppc c p); inv_some; cbn; auto.
  - exfalso. apply Hs. unfold step_emb in H. destruct (ppc c p); try discriminate.
    destruct (aq_ph c (proot c p)); try discriminate. destruct (tret c p); inv_some; cbn; auto.
  - exfalso. apply Hs. unfold step_cancel in H. destruct (cancelled c c0); inv_some; cbn; auto.
  - exfalso. apply Hs. unfold step_shutdown in H. destruct (shpc c); try discriminate.
    + destruct (drain c); [destruct (has_ongoing (ongoing c))|..]; inv_some; cbn; auto.
    + destruct (drain c); inv_some; cbn; auto.
    + inv_some; cbn; auto.
Qed.

(* gate: when the implementation of call j is started, every other call whose implementation
   was started earlier has acknowledged delivery or returned *)
Lemma gate_lemma : forall P c t c' j, reachable P c -> step P c t = Some c' ->
  ipc c j = INone -> ipc c' j <> INone ->
  forall i, i <> j -> ipc c' i <> IRun.
Proof.
  intros P c t c' j R H Hn Hs i Ni Hi.
  destruct (begin_step _ _ _ _ _ H Hn Hs) as (Hj & _).
  apply Ni. apply (unacked_unique P c'); auto. econstructor; eauto.
Qed.

(* ------------------------------------------------------------------ Shutdown *)

Lemma shutdown_once_lemma : forall P c, reachable P c ->
  shcount c <= 1 /\ (shpc c = ShDone -> shcount c = 1).
Proof.
  intros P c R. pose proof (i_shcount _ _ (inv_reachable _ _ R)) as H.
  destruct (shpc c); split; intros; try discriminate; lia.
Qed.

(* when the user's Shutdown runs no call holds a slot: every started implementation has
   returned, delivered its results and freed its slot *)
Lemma shutdown_after_calls_lemma : forall P c, reachable P c ->
  (shpc c = ShUser \/ shpc c = ShDone) -> forall x, holds_slot (ipc c x) = false.
Proof.
  intros P c R Hs x. pose proof (inv_reachable _ _ R) as I.
  destruct (holds_slot (ipc c x)) eqn:E; auto. exfalso.
  pose proof (i_slot2 _ _ I x E) as A.
  assert (Hh : has_ongoing (ongoing c) = true) by (apply has_ongoing_true; eauto).
  destruct (drain c) eqn:Ed.
  - apply (i_dnil _ _ I) in Ed. destruct Hs; congruence.
  - apply (i_dopen _ _ I) in Ed. destruct Ed. destruct Hs; congruence.
  - apply (i_dclosed _ _ I) in Ed. congruence.
Qed.

(* no implementation is started once Shutdown has executed its first critical section *)
Lemma no_start_after_shutdown_lemma : forall P c t c' j, reachable P c -> step P c t = Some c' ->
  shpc c <> ShInit -> ipc c j = INone -> ipc c' j = INone.
Proof.
  intros P c t c' j R H Hs Hn. pose proof (inv_reachable _ _ R) as I.
  destruct (ipc c' j) eqn:E; auto; exfalso.
  all: assert (Hne : ipc c' j <> INone) by congruence.
  all: destruct (begin_step _ _ _ _ _ H Hn Hne) as (_ & Hd & _).
  all: apply (i_dnil _ _ I) in Hd; congruence.
Qed.

(* Shutdown cancels the context of every call that holds a slot *)
Lemma shutdown_cancels_lemma : forall P c c', reachable P c -> step P c TShutdown = Some c' ->
  shpc c = ShInit -> forall x, holds_slot (ipc c x) = true -> icanc c' x = true.
Proof.
  intros P c c' R H Hs x Hx. pose proof (inv_reachable _ _ R) as I.
  simpl in H. unfold step_shutdown in H. rewrite Hs in H.
  pose proof (i_slot2 _ _ I x Hx) as A.
  assert (Hh : has_ongoing (ongoing c) = true) by (apply has_ongoing_true; eauto).
  destruct (drain c) eqn:Ed.
  - rewrite Hh in H. inv_some. cbn. eapply cancel_all_in; eauto.
  - apply (i_dopen _ _ I) in Ed. destruct Ed; congruence.
  - apply (i_dclosed _ _ I) in Ed. congruence.
Qed.
