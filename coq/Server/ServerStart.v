(* C12 — preservation of the core invariant by the steps of Server.start. *)
From CV Require Import Server.Server Server.ServerProofs.
From Coq Require Import List Arith Bool Lia.
Import ListNotations.

Section TakeSlot.
  Variable P : params.
  Variable c : config.
  Variable x : cid.
  Variable id : nat.
  Hypothesis I : inv P c.
  Hypothesis Hid : next_id (ongoing c) = Some id.
  Hypothesis Hx : ipc c x = INone.
  Let og := set_nth (ongoing c) id (Some x).

  Lemma ts_at : nth_error (ongoing c) id = Some None.
  Proof. apply next_id_some; auto. Qed.

  Lemma ts_lt : id < length (ongoing c).
  Proof. apply nth_error_Some. rewrite ts_at. discriminate. Qed.

  Lemma ts_self : nth_error og id = Some (Some x).
  Proof. apply nth_error_set_nth_eq. apply ts_lt. Qed.

  Lemma ts_other : forall i y, nth_error og i = Some (Some y) ->
    (i = id /\ y = x) \/ (i <> id /\ y <> x /\ nth_error (ongoing c) i = Some (Some y)).
  Proof.
    intros i y H. destruct (Nat.eq_dec i id) as [->|N].
    - rewrite ts_self in H. left. split; congruence.
    - right. unfold og in H. rewrite nth_error_set_nth_neq in H by auto. split; auto. split; auto.
      intros ->. destruct (i_slot1 _ _ I _ _ H) as [E _]. rewrite Hx in E. discriminate.
  Qed.

  Lemma ts_keep : forall y, y <> x -> holds_slot (ipc c y) = true -> nth_error og (slot c y) = Some (Some y).
  Proof.
    intros y N H. pose proof (i_slot2 _ _ I y H) as E.
    unfold og. rewrite nth_error_set_nth_neq; auto.
    intros Q. rewrite <- Q in E. rewrite ts_at in E. congruence.
  Qed.

  Lemma ts_len : length og = p_max P.
  Proof. unfold og. rewrite set_nth_length. apply (i_len _ _ I). Qed.
End TakeSlot.

Lemma inv_take_slot : forall P c x id,
  inv P c -> next_id (ongoing c) = Some id -> drain c = DNil ->
  (starting c = None \/ starting c = Some x) -> pre_impl (spc c x) = true ->
  full c = None ->
  inv P (take_slot x id (set_starting (Some x) c)).
Proof.
  intros P c x id I Hid Hd Hs Hp Hf.
  assert (Hx : ipc c x = INone) by (apply (i_pre _ _ I); auto).
  assert (Hself : nth_error (set_nth (ongoing c) id (Some x)) id = Some (Some x)) by (eapply ts_self; eauto).
  assert (Hoth : forall i y, nth_error (set_nth (ongoing c) id (Some x)) i = Some (Some y) ->
    (i = id /\ y = x) \/ (i <> id /\ y <> x /\ nth_error (ongoing c) i = Some (Some y))) by (eapply ts_other; eauto).
  assert (Hkeep : forall y, y <> x -> holds_slot (ipc c y) = true ->
    nth_error (set_nth (ongoing c) id (Some x)) (slot c y) = Some (Some y)) by (eapply ts_keep; eauto).
  assert (Hlen : length (set_nth (ongoing c) id (Some x)) = p_max P) by (eapply ts_len; eauto).
  unfold take_slot.
  prep; fin; sat I.
  all: try solve [ match goal with H : nth_error (set_nth _ _ _) _ = Some (Some _) |- _ =>
                     apply Hoth in H; destruct H as [(? & ?)|(? & ? & H)]; subst; use_slot1 I; intuition congruence end ].
Qed.

Lemma inv_ev : forall P c e, inv P c -> inv P (ev e c).
Proof. intros. eapply inv_core_eq; [|eassumption]. core. Qed.

Lemma take_slot_starting : forall x id c, starting c = Some x ->
  take_slot x id (set_starting (Some x) c) = take_slot x id c.
Proof. intros x id c H. destruct c; simpl in *; subst; reflexivity. Qed.

Lemma inv_enter_start : forall P c x,
  inv P c -> (spc c x = S0 \/ exists h, spc c x = SWaitGate h) -> inv P (enter_start x c).
Proof.
  intros P c x I Hs. unfold enter_start.
  assert (Hp : pre_impl (spc c x) = true) by (destruct Hs as [->|[h ->]]; reflexivity).
  assert (Hng : holds_gate (spc c x) = false) by (destruct Hs as [->|[h ->]]; reflexivity).
  destruct (drain c) eqn:Ed.
  - destruct (starting c) eqn:Est.
    + destruct Hs as [Es|[h' Es]]; prep; fin; sat I.
    + assert (Hf : full c = None).
      { destruct (full c) eqn:Ef; auto. pose proof (i_full1 _ _ I _ Ef) as E.
        pose proof (i_gate1 _ _ I c0) as G. rewrite E in G. specialize (G eq_refl). congruence. }
      cbn -[next_id take_slot]. destruct (next_id (ongoing c)) eqn:En.
      * apply inv_take_slot; auto.
      * destruct Hs as [Es|[h' Es]]; prep; fin; sat I.
  - unfold start_reject. destruct Hs as [Es|[h' Es]]; prep; fin; sat I.
  - unfold start_reject. destruct Hs as [Es|[h' Es]]; prep; fin; sat I.
Qed.

Lemma inv_start : forall P c x c', inv P c -> step_start P c x = Some c' -> inv P c'.
Proof.
  intros P c x c' I H. unfold step_start in H.
  destruct (p_kind P x); try discriminate.
  destruct (spc c x) eqn:Es; try discriminate.
  - destruct (pred_done P c x); inv_some. apply inv_enter_start.
    + apply inv_ev; auto.
    + left. exact Es.
  - destruct (gate_rel c h); inv_some. apply inv_enter_start; eauto.
  - (* SFullWoken *)
    assert (Hst : starting c = Some x) by (apply (i_gate1 _ _ I); rewrite Es; reflexivity).
    assert (Hf : full c = None).
    { destruct (full c) eqn:Ef; auto. pose proof (i_full1 _ _ I _ Ef) as E.
      pose proof (i_gate1 _ _ I c0) as G. rewrite E in G. specialize (G eq_refl).
      assert (c0 = x) by congruence. subst. congruence. }
    destruct (next_id (ongoing c)) eqn:En.
    + destruct (drain c) eqn:Ed; inv_some.
      * rewrite <- take_slot_starting by auto. apply inv_take_slot; auto. rewrite Es. reflexivity.
      * unfold start_reject, release_gate. prep; fin; sat I.
      * unfold start_reject, release_gate. prep; fin; sat I.
    + exfalso. apply (i_woken _ _ I _ Es). exact En.
  - (* SWaitAck *)
    destruct (acked c x || idone c x) eqn:Ea; inv_some.
    apply orb_true_iff in Ea. unfold release_gate. destruct Ea as [Ea|Ea]; prep; fin; sat I.
Qed.

Lemma inv_start_ctx : forall P c x c', inv P c -> step_start_ctx P c x = Some c' -> inv P c'.
Proof.
  intros P c x c' I H. unfold step_start_ctx in H.
  destruct (p_kind P x); try discriminate.
  destruct (cancelled c x); try discriminate.
  destruct (p_relfix P); destruct (spc c x) eqn:Es; inv_some.
  all: unfold start_reject, start_reject_if, release_gate; prep; fin; sat I.
Qed.
