(* C12 — termination measures: every step a thread takes itself strictly decreases that
   thread's measure; the only exception is the wait loop on the starting gate in Server.start,
   where a goroutine woken by the release of the gate it waited for (gate_rel c h = true) may find
   the gate taken again (starting c = Some h') and waits for that holder; every call takes and
   releases the gate at most once, so the loop is bounded by the number of competing calls (not
   stated as a theorem: params has no bound on the number of calls). *)
From CV Require Import Server.Server Server.ServerProofs Server.AqInv.
From Coq Require Import List Arith Bool Lia.
Import ListNotations.

Definition impl_measure (c : config) (x : cid) : nat :=
  match ipc c x with
  | IRet => 5 + length (aq_q c x)
  | IDrain => 4 + (length (aq_q c x) - qidx (aq_ph c x) (length (aq_q c x)))
  | IReturn => 3
  | ISlot => 2
  | IClose => 1
  | _ => 0
  end.

Definition pipe_measure (c : config) (p : cid) : nat :=
  match ppc c p with PInit => 3 | PWaitDrain => 2 | PWaitReady => 1 | _ => 0 end.

Definition shut_measure (c : config) : nat :=
  match shpc c with ShInit => 3 | ShWait => 2 | ShUser => 1 | ShDone => 0 end.

Definition start_measure (c : config) (x : cid) : nat :=
  match spc c x with
  | S0 => 5 | SWaitGate _ => 4 | SWaitFull => 3 | SFullWoken => 2 | SWaitAck => 1 | SDone => 0
  end.

Lemma deliver_aq : forall a p b k e c,
  aq_q (deliver a p b k e c) = aq_q c /\ aq_ph (deliver a p b k e c) = aq_ph c /\ ipc (deliver a p b k e c) = ipc c.
Proof.
  intros. unfold deliver. destruct b; [|destruct (Nat.ltb b k); [destruct (nth_error (aq_q c a) b); [destruct (tret c c0)|]|]].
  all: destruct e; repeat split.
Qed.

Lemma impl_measure_lemma : forall P c x c', invA P c -> step P c (TImpl x) = Some c' ->
  impl_measure c' x < impl_measure c x.
Proof.
  intros P c x c' A H. simpl in H. unfold step_impl in H. unfold impl_measure.
  destruct (ipc c x) eqn:Ei; try discriminate.
  - inv_some. cbn. unfold upd. rewrite !Nat.eqb_refl. simpl. lia.
  - destruct (aq_ph c x) eqn:Eph; try discriminate.
    destruct (nth_error (aq_q c x) k) eqn:En.
    + assert (Hl : k < length (aq_q c x)) by (apply nth_error_Some; rewrite En; discriminate).
      destruct (ierr c x); inv_some.
      * cbn. unfold upd. rewrite !Nat.eqb_refl. rewrite Ei. simpl. lia.
      * match goal with |- context [if ?b then _ else _] => destruct b end;
          cbn [ipc aq_q aq_ph set_aq_ph];
          match goal with |- context [deliver ?a ?p ?b ?k ?e ?cc] =>
            destruct (deliver_aq a p b k e cc) as (E1 & E2 & E3); rewrite ?E1, ?E2, ?E3 end;
          cbn; unfold upd; rewrite !Nat.eqb_refl; rewrite Ei; simpl; lia.
    + inv_some. cbn. unfold upd. rewrite !Nat.eqb_refl. simpl. lia.
  - inv_some. cbn. unfold upd. rewrite !Nat.eqb_refl. lia.
  - inv_some. cbn -[set_nth has_ongoing]. unfold all_free.
    destruct (drain c); cbn -[set_nth has_ongoing]; try destruct (has_ongoing _); cbn -[set_nth has_ongoing];
      destruct (full c); cbn -[set_nth has_ongoing]; unfold upd; rewrite !Nat.eqb_refl; lia.
  - inv_some. cbn. unfold upd. rewrite !Nat.eqb_refl. lia.
Qed.

Lemma deliver_ppc_measure : forall a p b k c,
  match ppc (deliver a p b k false c) p with PInit | PWaitDrain | PWaitReady => ppc c p = ppc (deliver a p b k false c) p | _ => True end.
Proof.
  intros. unfold deliver. destruct b; [|destruct (Nat.ltb b k); [destruct (nth_error (aq_q c a) b); [destruct (tret c c0)|]|]].
  all: cbn; unfold upd; rewrite ?Nat.eqb_refl; auto.
  all: destruct (ppc c p); auto.
Qed.

Lemma pipe_measure_lemma : forall P c p c', panicked c' = false ->
  (step P c (TPipe p) = Some c' \/ step P c (TPipeCtx p) = Some c') ->
  pipe_measure c' p < pipe_measure c p.
Proof.
  intros P c p c' Hnp [H|H]; simpl in H; unfold pipe_measure.
  - unfold step_pipe in H. destruct (p_kind P p); try discriminate.
    destruct (ppc c p) eqn:Ep; try discriminate.
    + destruct (pred_done P c p); try discriminate.
      destruct (pipe_target P c on) as [[a b]|]; try discriminate.
      cbn in H. destruct (aq_ph c a); [destruct (Nat.eqb _ _)|..]; inv_some; cbn; unfold upd; rewrite Nat.eqb_refl; lia.
    + destruct (aq_ph c (proot c p)); inv_some; cbn; unfold upd; rewrite Nat.eqb_refl; lia.
    + destruct (ready_closed c (proot c p)); inv_some. unfold passthrough in *.
      destruct (ierr c (proot c p)).
      * cbn. unfold upd. rewrite Nat.eqb_refl. lia.
      * unfold deliver in *.
        destruct (pbasis c p); [|destruct (Nat.ltb n _); [destruct (nth_error _ n); [destruct (tret c c0)|]|]].
        all: cbn in *; unfold upd; rewrite ?Nat.eqb_refl; try lia; discriminate.
  - unfold step_pipe_ctx in H. destruct (p_kind P p); try discriminate.
    destruct (cancelled c p); try discriminate.
    destruct (ppc c p); inv_some; cbn; unfold upd; rewrite Nat.eqb_refl; lia.
Qed.

Lemma shut_measure_lemma : forall P c c', panicked c' = false -> step P c TShutdown = Some c' ->
  shut_measure c' < shut_measure c.
Proof.
  intros P c c' Hnp H. simpl in H. unfold step_shutdown in H. unfold shut_measure.
  destruct (shpc c); try discriminate.
  - destruct (drain c); [destruct (has_ongoing (ongoing c))|..]; inv_some; cbn in *; try lia; discriminate.
  - destruct (drain c); inv_some. cbn. lia.
  - inv_some. cbn. lia.
Qed.

(* start: every own step decreases the measure, except a re-wait on the gate, which waits for a
   call that has not released the gate while the one waited for before has *)
Lemma start_measure_lemma : forall P c x c', panicked c' = false ->
  (step P c (TStart x) = Some c' \/ step P c (TStartCtx x) = Some c') ->
  start_measure c' x < start_measure c x
  \/ (exists h h', spc c x = SWaitGate h /\ spc c' x = SWaitGate h' /\
                   gate_rel c h = true /\ starting c = Some h').
Proof.
  intros P c x c' Hnp [H|H]; simpl in H; unfold start_measure.
  - unfold step_start in H. destruct (p_kind P x); try discriminate.
    destruct (spc c x) eqn:Es; try discriminate.
    + left. destruct (pred_done P c x); inv_some. unfold enter_start, start_reject, take_slot.
      cbn -[next_id]. destruct (drain c); [destruct (starting c); [|cbn -[next_id]; destruct (next_id (ongoing c))]|..];
        cbn; unfold upd; rewrite Nat.eqb_refl; lia.
    + destruct (gate_rel c h) eqn:Eg; inv_some. unfold enter_start, start_reject, take_slot.
      cbn -[next_id]. destruct (drain c); [destruct (starting c) eqn:Est; [|cbn -[next_id]; destruct (next_id (ongoing c))]|..].
      * right. exists h, c0. cbn. unfold upd. rewrite Nat.eqb_refl. repeat split; auto.
      * left. cbn; unfold upd; rewrite Nat.eqb_refl; lia.
      * left. cbn; unfold upd; rewrite Nat.eqb_refl; lia.
      * left. cbn; unfold upd; rewrite Nat.eqb_refl; lia.
      * left. cbn; unfold upd; rewrite Nat.eqb_refl; lia.
    + left. destruct (next_id (ongoing c)); [destruct (drain c)|]; inv_some; cbn in *; unfold upd; rewrite ?Nat.eqb_refl; try lia; discriminate.
    + left. destruct (acked c x || idone c x); inv_some. cbn; unfold upd; rewrite Nat.eqb_refl; lia.
  - left. unfold step_start_ctx in H. destruct (p_kind P x); try discriminate.
    destruct (cancelled c x); try discriminate.
    destruct (p_relfix P); destruct (spc c x); inv_some; cbn; unfold upd; rewrite Nat.eqb_refl; lia.
Qed.
