(* C12 — executable small-step model of server.Server (server/server.go: start, the
   implementation goroutine, Shutdown) and of server.answerQueue (server/answer.go:
   queueCaller.PipelineRecv, fulfill, reject, returnEmbargoer).

   Threads are program counters over the atomic sections of the Go code (a section is the
   code between two blocking operations / mutex hand-overs; srv.mu and aq.mu critical
   sections are single steps).  [step P c t] fires the next section of thread [t] in
   configuration [c], or is [None] when the thread is blocked / finished / does not exist.
   Where a Go [select] has a ctx.Done() arm, the thread has a second thread id for taking
   that arm ([TStartCtx], [TPipeCtx]); when both arms are ready both ids are enabled (Go
   picks randomly).  Decisions of the application and of the environment are steps too:
   [TAck]/[TRet] (the method implementation acknowledges / returns), [TTargetRet] (the
   capability a pipelined call was delivered to returns), [TCancel] (a caller's context is
   cancelled).  Reachability under any schedule = any list of thread ids ([run]).

   This file contains no proofs (it must extract even when a proof breaks). *)
From Coq Require Import List Arith Bool.
Import ListNotations.

Definition cid := nat.

(* What a call is.  [Direct]: a call on the server itself (Server.Send / Server.Recv).
   [Pipe on]: a call pipelined on the not-yet-returned answer of call [on]; [on] is either a
   direct call (PipelineSend/Recv on the answerQueue returned by start) or itself a
   pipelined call that was queued (the queueCaller returned by queueCaller.PipelineRecv). *)
Inductive kind := Direct | Pipe (on : cid).

(* Static part of a history: queue sizes, who calls what, program order of each caller
   ([p_pred c = Some d]: the same caller goroutine issued d immediately before c, so c's
   Send/Recv is entered only after d's has returned), and the variant of the code:
   [p_fixed = false] is the code before the fix of the basis off-by-one in
   queueCaller.PipelineRecv (basis := len(q)-1), [true] the repaired code (basis := len(q)). *)
Record params := mkParams {
  p_max : nat;            (* Policy.MaxConcurrentCalls, >= 1 after New *)
  p_qsize : nat;          (* Policy.AnswerQueueSize, >= 1 after New *)
  p_kind : cid -> kind;
  p_pred : cid -> option cid;
  p_fixed : bool;
  p_slow : cid -> bool;    (* the capability a queued call is delivered to withholds its delivery
                              acknowledgement (its Recv blocks) until the environment lets it *)
  p_relfix : bool          (* [true]: the code as it is: start's "cancelled while waiting for a free slot" branch
                              does r.Reject(ctx.Err()) (= r.ReleaseArgs(); r.Returner.Return(..)).  [false]: the
                              variant that does r.Returner.Return(ctx.Err()) there (arguments never released) *)
}.

(* program counters *)
Inductive spc_t :=          (* a goroutine inside Server.start *)
| S0                        (* not yet entered *)
| SWaitGate (h : cid)       (* select { <-wait (starting channel of h) ; <-ctx.Done } *)
| SWaitFull                 (* gate held; select { <-full ; <-ctx.Done }, full still open *)
| SFullWoken                (* same select, full has been closed by a returning call *)
| SWaitAck                  (* gate and slot held, goroutine spawned; select { <-ack ; <-done } *)
| SDone.                    (* start has returned *)

Inductive ipc_t :=          (* the goroutine spawned by start *)
| INone                     (* not spawned *)
| IRun                      (* inside m.Impl, Ack not called *)
| IAcked                    (* inside m.Impl, after Call.Ack *)
| IRet                      (* m.Impl returned; before aq.fulfill / aq.reject *)
| IDrain                    (* inside fulfill/reject, queue being drained *)
| IReturn                   (* before r.Returner.Return *)
| ISlot                     (* before the srv.mu section that frees the slot *)
| IClose                    (* before close(done) *)
| IDone.

Inductive ppc_t :=          (* a pipelined call: the goroutine inside queueCaller.PipelineRecv, then the call itself *)
| PInit
| PWaitDrain                (* queue full: select { <-aq.draining ; <-ctx.Done } *)
| PWaitReady                (* draining/drained: select { <-b.ready ; <-ctx.Done } *)
| PQueued                   (* entry in aq.q; PipelineRecv has returned a queueCaller *)
| PDelivered                (* delivered by fulfill to its target behind a returnEmbargoer; target has not returned *)
| PEmbRet                   (* embargoed return recorded; waiting for the goroutine that forwards it *)
| PDirect                   (* delivered pass-through (queue drained) with the caller's own Returner *)
| PDone.                    (* its Returner.Return has been called *)

Inductive shpc_t := ShInit | ShWait | ShUser | ShDone.

Inductive dstate := DNil | DOpen | DClosed.          (* srv.drain: nil / open channel / closed channel *)
(* ADrainWait k: the drain loop has delivered entry k-1 and is blocked inside the target's Recv
   (the target has not acknowledged delivery yet) *)
Inductive aqphase := AQueueing | ADraining (k : nat) | ADrained | ADrainWait (k : nat).
(* result of a pipelined call as seen by its returnEmbargoer / its caller *)
Inductive tres := TNone | TOk | TErr (origin : cid).

(* completion classes (what Returner.Return received) *)
Inductive cls :=
| COk
| CErr (origin : cid)       (* the error returned by the implementation / target of call [origin] *)
| CCtx                      (* ctx.Err() *)
| CFail.                    (* "call after shutdown" *)

(* where a pipelined call is delivered *)
Inductive dest :=
| DRes (c : cid)            (* a capability in the result struct of call c (transform applied) *)
| DFwd (c : cid).           (* the PipelineCaller of the still-running delivered call c *)

Inductive event :=
| EvIssue (c : cid)         (* a caller enters start for c *)
| EvBegin (c : cid)         (* m.Impl invoked for c *)
| EvAck (c : cid)
| EvImplRet (c : cid) (err : bool)
| EvComplete (c : cid) (k : cls)
| EvStartRet (c : cid) (pcall : bool)   (* start returns to the caller; pcall = non-nil PipelineCaller *)
| EvSlotFree (c : cid)
| EvEnq (p : cid) (root : cid) (basis : nat)
| EvDeliver (p : cid) (d : dest)
| EvProc (a : cid) (p : cid)   (* ghost: the drain loop of a's answerQueue processes queue entry p *)
| EvShutCall
| EvShutUser.

Record config := mkConfig {
  ongoing : list (option cid);
  starting : option cid;
  full : option cid;
  drain : dstate;
  spc : cid -> spc_t;
  ipc : cid -> ipc_t;
  ppc : cid -> ppc_t;
  shpc : shpc_t;
  cancelled : cid -> bool;
  icanc : cid -> bool;
  acked : cid -> bool;
  gate_rel : cid -> bool;
  idone : cid -> bool;
  slot : cid -> nat;
  ierr : cid -> bool;
  gotp : cid -> bool;
  aq_q : cid -> list cid;
  aq_ph : cid -> aqphase;
  penq : cid -> option nat;
  proot : cid -> cid;
  pbasis : cid -> nat;
  tret : cid -> tres;
  compl : cid -> list cls;
  trace : list event;
  panicked : bool;
  shcount : nat;
  rel : cid -> nat          (* ghost: how many times r.ReleaseArgs() has run for each call *)
}.
Definition set_ongoing (v : list (option cid)) (c : config) : config := mkConfig v (starting c) (full c) (drain c) (spc c) (ipc c) (ppc c) (shpc c) (cancelled c) (icanc c) (acked c) (gate_rel c) (idone c) (slot c) (ierr c) (gotp c) (aq_q c) (aq_ph c) (penq c) (proot c) (pbasis c) (tret c) (compl c) (trace c) (panicked c) (shcount c) (rel c).
Definition set_starting (v : option cid) (c : config) : config := mkConfig (ongoing c) v (full c) (drain c) (spc c) (ipc c) (ppc c) (shpc c) (cancelled c) (icanc c) (acked c) (gate_rel c) (idone c) (slot c) (ierr c) (gotp c) (aq_q c) (aq_ph c) (penq c) (proot c) (pbasis c) (tret c) (compl c) (trace c) (panicked c) (shcount c) (rel c).
Definition set_full (v : option cid) (c : config) : config := mkConfig (ongoing c) (starting c) v (drain c) (spc c) (ipc c) (ppc c) (shpc c) (cancelled c) (icanc c) (acked c) (gate_rel c) (idone c) (slot c) (ierr c) (gotp c) (aq_q c) (aq_ph c) (penq c) (proot c) (pbasis c) (tret c) (compl c) (trace c) (panicked c) (shcount c) (rel c).
Definition set_drain (v : dstate) (c : config) : config := mkConfig (ongoing c) (starting c) (full c) v (spc c) (ipc c) (ppc c) (shpc c) (cancelled c) (icanc c) (acked c) (gate_rel c) (idone c) (slot c) (ierr c) (gotp c) (aq_q c) (aq_ph c) (penq c) (proot c) (pbasis c) (tret c) (compl c) (trace c) (panicked c) (shcount c) (rel c).
Definition set_spc (v : cid -> spc_t) (c : config) : config := mkConfig (ongoing c) (starting c) (full c) (drain c) v (ipc c) (ppc c) (shpc c) (cancelled c) (icanc c) (acked c) (gate_rel c) (idone c) (slot c) (ierr c) (gotp c) (aq_q c) (aq_ph c) (penq c) (proot c) (pbasis c) (tret c) (compl c) (trace c) (panicked c) (shcount c) (rel c).
Definition set_ipc (v : cid -> ipc_t) (c : config) : config := mkConfig (ongoing c) (starting c) (full c) (drain c) (spc c) v (ppc c) (shpc c) (cancelled c) (icanc c) (acked c) (gate_rel c) (idone c) (slot c) (ierr c) (gotp c) (aq_q c) (aq_ph c) (penq c) (proot c) (pbasis c) (tret c) (compl c) (trace c) (panicked c) (shcount c) (rel c).
Definition set_ppc (v : cid -> ppc_t) (c : config) : config := mkConfig (ongoing c) (starting c) (full c) (drain c) (spc c) (ipc c) v (shpc c) (cancelled c) (icanc c) (acked c) (gate_rel c) (idone c) (slot c) (ierr c) (gotp c) (aq_q c) (aq_ph c) (penq c) (proot c) (pbasis c) (tret c) (compl c) (trace c) (panicked c) (shcount c) (rel c).
Definition set_shpc (v : shpc_t) (c : config) : config := mkConfig (ongoing c) (starting c) (full c) (drain c) (spc c) (ipc c) (ppc c) v (cancelled c) (icanc c) (acked c) (gate_rel c) (idone c) (slot c) (ierr c) (gotp c) (aq_q c) (aq_ph c) (penq c) (proot c) (pbasis c) (tret c) (compl c) (trace c) (panicked c) (shcount c) (rel c).
Definition set_cancelled (v : cid -> bool) (c : config) : config := mkConfig (ongoing c) (starting c) (full c) (drain c) (spc c) (ipc c) (ppc c) (shpc c) v (icanc c) (acked c) (gate_rel c) (idone c) (slot c) (ierr c) (gotp c) (aq_q c) (aq_ph c) (penq c) (proot c) (pbasis c) (tret c) (compl c) (trace c) (panicked c) (shcount c) (rel c).
Definition set_icanc (v : cid -> bool) (c : config) : config := mkConfig (ongoing c) (starting c) (full c) (drain c) (spc c) (ipc c) (ppc c) (shpc c) (cancelled c) v (acked c) (gate_rel c) (idone c) (slot c) (ierr c) (gotp c) (aq_q c) (aq_ph c) (penq c) (proot c) (pbasis c) (tret c) (compl c) (trace c) (panicked c) (shcount c) (rel c).
Definition set_acked (v : cid -> bool) (c : config) : config := mkConfig (ongoing c) (starting c) (full c) (drain c) (spc c) (ipc c) (ppc c) (shpc c) (cancelled c) (icanc c) v (gate_rel c) (idone c) (slot c) (ierr c) (gotp c) (aq_q c) (aq_ph c) (penq c) (proot c) (pbasis c) (tret c) (compl c) (trace c) (panicked c) (shcount c) (rel c).
Definition set_gate_rel (v : cid -> bool) (c : config) : config := mkConfig (ongoing c) (starting c) (full c) (drain c) (spc c) (ipc c) (ppc c) (shpc c) (cancelled c) (icanc c) (acked c) v (idone c) (slot c) (ierr c) (gotp c) (aq_q c) (aq_ph c) (penq c) (proot c) (pbasis c) (tret c) (compl c) (trace c) (panicked c) (shcount c) (rel c).
Definition set_idone (v : cid -> bool) (c : config) : config := mkConfig (ongoing c) (starting c) (full c) (drain c) (spc c) (ipc c) (ppc c) (shpc c) (cancelled c) (icanc c) (acked c) (gate_rel c) v (slot c) (ierr c) (gotp c) (aq_q c) (aq_ph c) (penq c) (proot c) (pbasis c) (tret c) (compl c) (trace c) (panicked c) (shcount c) (rel c).
Definition set_slot (v : cid -> nat) (c : config) : config := mkConfig (ongoing c) (starting c) (full c) (drain c) (spc c) (ipc c) (ppc c) (shpc c) (cancelled c) (icanc c) (acked c) (gate_rel c) (idone c) v (ierr c) (gotp c) (aq_q c) (aq_ph c) (penq c) (proot c) (pbasis c) (tret c) (compl c) (trace c) (panicked c) (shcount c) (rel c).
Definition set_ierr (v : cid -> bool) (c : config) : config := mkConfig (ongoing c) (starting c) (full c) (drain c) (spc c) (ipc c) (ppc c) (shpc c) (cancelled c) (icanc c) (acked c) (gate_rel c) (idone c) (slot c) v (gotp c) (aq_q c) (aq_ph c) (penq c) (proot c) (pbasis c) (tret c) (compl c) (trace c) (panicked c) (shcount c) (rel c).
Definition set_gotp (v : cid -> bool) (c : config) : config := mkConfig (ongoing c) (starting c) (full c) (drain c) (spc c) (ipc c) (ppc c) (shpc c) (cancelled c) (icanc c) (acked c) (gate_rel c) (idone c) (slot c) (ierr c) v (aq_q c) (aq_ph c) (penq c) (proot c) (pbasis c) (tret c) (compl c) (trace c) (panicked c) (shcount c) (rel c).
Definition set_aq_q (v : cid -> list cid) (c : config) : config := mkConfig (ongoing c) (starting c) (full c) (drain c) (spc c) (ipc c) (ppc c) (shpc c) (cancelled c) (icanc c) (acked c) (gate_rel c) (idone c) (slot c) (ierr c) (gotp c) v (aq_ph c) (penq c) (proot c) (pbasis c) (tret c) (compl c) (trace c) (panicked c) (shcount c) (rel c).
Definition set_aq_ph (v : cid -> aqphase) (c : config) : config := mkConfig (ongoing c) (starting c) (full c) (drain c) (spc c) (ipc c) (ppc c) (shpc c) (cancelled c) (icanc c) (acked c) (gate_rel c) (idone c) (slot c) (ierr c) (gotp c) (aq_q c) v (penq c) (proot c) (pbasis c) (tret c) (compl c) (trace c) (panicked c) (shcount c) (rel c).
Definition set_penq (v : cid -> option nat) (c : config) : config := mkConfig (ongoing c) (starting c) (full c) (drain c) (spc c) (ipc c) (ppc c) (shpc c) (cancelled c) (icanc c) (acked c) (gate_rel c) (idone c) (slot c) (ierr c) (gotp c) (aq_q c) (aq_ph c) v (proot c) (pbasis c) (tret c) (compl c) (trace c) (panicked c) (shcount c) (rel c).
Definition set_proot (v : cid -> cid) (c : config) : config := mkConfig (ongoing c) (starting c) (full c) (drain c) (spc c) (ipc c) (ppc c) (shpc c) (cancelled c) (icanc c) (acked c) (gate_rel c) (idone c) (slot c) (ierr c) (gotp c) (aq_q c) (aq_ph c) (penq c) v (pbasis c) (tret c) (compl c) (trace c) (panicked c) (shcount c) (rel c).
Definition set_pbasis (v : cid -> nat) (c : config) : config := mkConfig (ongoing c) (starting c) (full c) (drain c) (spc c) (ipc c) (ppc c) (shpc c) (cancelled c) (icanc c) (acked c) (gate_rel c) (idone c) (slot c) (ierr c) (gotp c) (aq_q c) (aq_ph c) (penq c) (proot c) v (tret c) (compl c) (trace c) (panicked c) (shcount c) (rel c).
Definition set_tret (v : cid -> tres) (c : config) : config := mkConfig (ongoing c) (starting c) (full c) (drain c) (spc c) (ipc c) (ppc c) (shpc c) (cancelled c) (icanc c) (acked c) (gate_rel c) (idone c) (slot c) (ierr c) (gotp c) (aq_q c) (aq_ph c) (penq c) (proot c) (pbasis c) v (compl c) (trace c) (panicked c) (shcount c) (rel c).
Definition set_compl (v : cid -> list cls) (c : config) : config := mkConfig (ongoing c) (starting c) (full c) (drain c) (spc c) (ipc c) (ppc c) (shpc c) (cancelled c) (icanc c) (acked c) (gate_rel c) (idone c) (slot c) (ierr c) (gotp c) (aq_q c) (aq_ph c) (penq c) (proot c) (pbasis c) (tret c) v (trace c) (panicked c) (shcount c) (rel c).
Definition set_trace (v : list event) (c : config) : config := mkConfig (ongoing c) (starting c) (full c) (drain c) (spc c) (ipc c) (ppc c) (shpc c) (cancelled c) (icanc c) (acked c) (gate_rel c) (idone c) (slot c) (ierr c) (gotp c) (aq_q c) (aq_ph c) (penq c) (proot c) (pbasis c) (tret c) (compl c) v (panicked c) (shcount c) (rel c).
Definition set_panicked (v : bool) (c : config) : config := mkConfig (ongoing c) (starting c) (full c) (drain c) (spc c) (ipc c) (ppc c) (shpc c) (cancelled c) (icanc c) (acked c) (gate_rel c) (idone c) (slot c) (ierr c) (gotp c) (aq_q c) (aq_ph c) (penq c) (proot c) (pbasis c) (tret c) (compl c) (trace c) v (shcount c) (rel c).
Definition set_shcount (v : nat) (c : config) : config := mkConfig (ongoing c) (starting c) (full c) (drain c) (spc c) (ipc c) (ppc c) (shpc c) (cancelled c) (icanc c) (acked c) (gate_rel c) (idone c) (slot c) (ierr c) (gotp c) (aq_q c) (aq_ph c) (penq c) (proot c) (pbasis c) (tret c) (compl c) (trace c) (panicked c) v (rel c).
Definition set_rel (v : cid -> nat) (c : config) : config := mkConfig (ongoing c) (starting c) (full c) (drain c) (spc c) (ipc c) (ppc c) (shpc c) (cancelled c) (icanc c) (acked c) (gate_rel c) (idone c) (slot c) (ierr c) (gotp c) (aq_q c) (aq_ph c) (penq c) (proot c) (pbasis c) (tret c) (compl c) (trace c) (panicked c) (shcount c) v.

Definition upd {A} (f : cid -> A) (c : cid) (v : A) : cid -> A :=
  fun x => if Nat.eqb x c then v else f x.

Definition ev (e : event) (c : config) : config := set_trace (e :: trace c) c.
Definition panic (c : config) : config := set_panicked true c.

(* Returner.Return(k) on call x *)
Definition complete (x : cid) (k : cls) (c : config) : config :=
  ev (EvComplete x k) (set_compl (upd (compl c) x (k :: compl c x)) c).

(* r.ReleaseArgs() of call x *)
Definition release (x : cid) (c : config) : config :=
  set_rel (upd (rel c) x (S (rel c x))) c.

(* r.Reject(e) = r.ReleaseArgs(); r.Returner.Return(e)   (capability.go, Recv.Reject) *)
Definition reject_call (x : cid) (k : cls) (c : config) : config := complete x k (release x c).

Definition init (P : params) : config :=
  mkConfig (repeat None (p_max P)) None None DNil
           (fun _ => S0) (fun _ => INone) (fun _ => PInit) ShInit
           (fun _ => false) (fun _ => false) (fun _ => false) (fun _ => false)
           (fun _ => false) (fun _ => 0) (fun _ => false) (fun _ => false)
           (fun _ => []) (fun _ => AQueueing) (fun _ => None) (fun _ => 0)
           (fun _ => 0) (fun _ => TNone)
           (fun _ => []) [] false 0 (fun _ => 0).

(* ---- srv.nextID / srv.hasOngoing / slot update *)
Fixpoint next_id (l : list (option cid)) : option nat :=
  match l with
  | [] => None
  | None :: _ => Some 0
  | Some _ :: r => match next_id r with Some i => Some (S i) | None => None end
  end.

Fixpoint has_ongoing (l : list (option cid)) : bool :=
  match l with [] => false | Some _ :: _ => true | None :: r => has_ongoing r end.

Fixpoint set_nth {A} (l : list A) (i : nat) (v : A) : list A :=
  match l, i with
  | [], _ => []
  | _ :: r, 0 => v :: r
  | x :: r, S j => x :: set_nth r j v
  end.

(* has the caller-order predecessor finished its Send/Recv/PipelineRecv? *)
Definition call_returned (P : params) (c : config) (d : cid) : bool :=
  match p_kind P d with
  | Direct => match spc c d with SDone => true | _ => false end
  | Pipe _ => match ppc c d with PInit | PWaitDrain | PWaitReady => false | _ => true end
  end.

Definition pred_done (P : params) (c : config) (x : cid) : bool :=
  match p_pred P x with None => true | Some d => call_returned P c d end.

(* ------------------------------------------------------------------ Server.start *)

(* release the gate: srv.starting = nil; close(starting) *)
Definition release_gate (x : cid) (c : config) : config :=
  set_starting None (set_gate_rel (upd (gate_rel c) x true) c).

(* r.Reject(e); return nil *)
Definition start_reject (x : cid) (k : cls) (c : config) : config :=
  ev (EvStartRet x false) (set_spc (upd (spc c) x SDone) (reject_call x k c)).

(* the same with the ReleaseArgs made conditional: [b = false] is the variant of the branch that only
   does r.Returner.Return(e); return nil *)
Definition release_if (b : bool) (x : cid) (c : config) : config :=
  set_rel (upd (rel c) x (if b then S (rel c x) else rel c x)) c.
Definition start_reject_if (b : bool) (x : cid) (k : cls) (c : config) : config :=
  ev (EvStartRet x false) (set_spc (upd (spc c) x SDone) (complete x k (release_if b x c))).

(* srv.ongoing[id] = cstate{cancel}; unlock; go func(){...}() *)
Definition take_slot (x : cid) (id : nat) (c : config) : config :=
  ev (EvBegin x)
     (set_spc (upd (spc c) x SWaitAck)
     (set_ipc (upd (ipc c) x IRun)
     (set_slot (upd (slot c) x id)
     (set_ongoing (set_nth (ongoing c) id (Some x)) c)))).

(* the critical section at the top of start: the for-loop iteration under srv.mu, and, when
   the gate is free, everything up to the next Unlock *)
Definition enter_start (x : cid) (c : config) : config :=
  match drain c with
  | DNil =>
    match starting c with
    | Some h => set_spc (upd (spc c) x (SWaitGate h)) c
    | None =>
      let c1 := set_starting (Some x) c in
      match next_id (ongoing c1) with
      | Some id => take_slot x id c1
      | None => set_spc (upd (spc c1) x SWaitFull) (set_full (Some x) c1)
      end
    end
  | _ => start_reject x CFail c
  end.

Definition step_start (P : params) (c : config) (x : cid) : option config :=
  match p_kind P x with
  | Pipe _ => None
  | Direct =>
    match spc c x with
    | S0 => if pred_done P c x then Some (enter_start x (ev (EvIssue x) c)) else None
    | SWaitGate h => if gate_rel c h then Some (enter_start x c) else None
    | SWaitFull => None
    | SFullWoken =>
      (* srv.mu.Lock(); id = srv.nextID(); if srv.drain != nil {...} *)
      match next_id (ongoing c) with
      | None => Some (panic c)                        (* srv.ongoing[-1] *)
      | Some id =>
        match drain c with
        | DNil => Some (take_slot x id c)
        | _ => Some (start_reject x CFail (release_gate x c))
        end
      end
    | SWaitAck =>
      if acked c x || idone c x then
        (* pcall = aq iff the ack arm was taken; when both are ready the ack arm is modelled *)
        Some (ev (EvStartRet x (acked c x))
                 (set_spc (upd (spc c) x SDone) (set_gotp (upd (gotp c) x (acked c x)) (release_gate x c))))
      else None
    | SDone => None
    end
  end.

(* the ctx.Done() arm of the select the start goroutine is blocked in *)
Definition step_start_ctx (P : params) (c : config) (x : cid) : option config :=
  match p_kind P x with
  | Pipe _ => None
  | Direct =>
    if cancelled c x then
      match spc c x with
      | SWaitGate _ => Some (start_reject x CCtx c)
      | SWaitFull | SFullWoken =>
        Some (start_reject_if (p_relfix P) x CCtx (set_full None (release_gate x c)))
      | _ => None
      end
    else None
  end.

(* ------------------------------------------------------------------ the implementation *)

Definition step_ack (c : config) (x : cid) : option config :=
  match ipc c x with
  | IRun => Some (ev (EvAck x) (set_ipc (upd (ipc c) x IAcked) (set_acked (upd (acked c) x true) c)))
  | _ => None
  end.

Definition step_ret (c : config) (x : cid) (e : bool) : option config :=
  match ipc c x with
  | IRun | IAcked =>
    Some (ev (EvImplRet x e) (set_ipc (upd (ipc c) x IRet) (set_ierr (upd (ierr c) x e) c)))
  | _ => None
  end.

(* status of the queue entry at index j of a's queue, as bases[j+1].recv sees it *)
Definition entry_status (c : config) (a : cid) (j : nat) : option tres :=
  match nth_error (aq_q c a) j with
  | None => None
  | Some e => Some (tret c e)
  end.

(* bases[b].recv(ctx, transform, r) for call p on the fulfilled answer a.
   [k] = number of queue entries already processed (bases[1..k] assigned).
   [emb]: r's Returner is a returnEmbargoer (p is a queue entry) or p's own Returner. *)
Definition deliver (a p b k : nat) (emb : bool) (c : config) : config :=
  let delivered d := ev (EvDeliver p d) (set_ppc (upd (ppc c) p (if emb then PDelivered else PDirect)) c) in
  let rejected o :=
    (* r.Reject(re.err): ReleaseArgs, then the Returner (the returnEmbargoer / p's own) *)
    if emb then set_ppc (upd (ppc c) p PEmbRet) (set_tret (upd (tret c) p (TErr o)) (release p c))
    else set_ppc (upd (ppc c) p PDone) (reject_call p (CErr o) c) in
  match b with
  | 0 => delivered (DRes a)
  | S j =>
    if Nat.ltb j k then
      match nth_error (aq_q c a) j with
      | None => panic c
      | Some e =>
        match tret c e with
        | TNone => delivered (DFwd e)
        | TOk => delivered (DRes e)
        | TErr o => rejected o
        end
      end
    else panic c                                     (* bases[b].recv is still nil *)
  end.

Definition all_free (l : list (option cid)) : bool := negb (has_ongoing l).

Definition step_impl (P : params) (c : config) (x : cid) : option config :=
  match ipc c x with
  | IRet =>
    (* r.ReleaseArgs(); then the aq.mu section of fulfill / reject: q := aq.q; aq.q = nil; bases...; close(aq.draining) *)
    Some (set_ipc (upd (ipc c) x IDrain) (set_aq_ph (upd (aq_ph c) x (ADraining 0)) (release x c)))
  | IDrain =>
    match aq_ph c x with
    | ADraining k =>
      match nth_error (aq_q c x) k with
      | Some p =>
        let c1 := ev (EvProc x p) (set_aq_ph (upd (aq_ph c) x (ADraining (S k))) c) in
        if ierr c x then
          (* reject: q[i].Reject(e) *)
          Some (set_ppc (upd (ppc c1) p PDone) (set_tret (upd (tret c1) p (TErr x)) (reject_call p (CErr x) c1)))
        else
          let c2 := deliver x p (pbasis c p) k true c1 in
          (* recv(...) returns only when the target has acknowledged delivery *)
          Some (if p_slow P p && (match ppc c2 p with PDelivered => true | _ => false end)
                then set_aq_ph (upd (aq_ph c2) x (ADrainWait (S k))) c2 else c2)
      | None =>
        (* end of the loop; fulfill: spawn the return forwarders, close(ready) *)
        Some (set_ipc (upd (ipc c) x IReturn) (set_aq_ph (upd (aq_ph c) x ADrained) c))
      end
    | _ => None
    end
  | IReturn =>
    Some (set_ipc (upd (ipc c) x ISlot) (complete x (if ierr c x then CErr x else COk) c))
  | ISlot =>
    (* srv.mu section after Return *)
    let og := set_nth (ongoing c) (slot c x) None in
    let c1 := set_ongoing og c in
    let c2 := match drain c1 with
              | DNil => c1
              | DOpen => if all_free og then set_drain DClosed c1 else c1
              | DClosed => if all_free og then panic c1 else c1      (* close of closed channel *)
              end in
    let c3 := match full c2 with
              | Some w => set_full None (set_spc (upd (spc c2) w SFullWoken) c2)
              | None => c2
              end in
    Some (ev (EvSlotFree x) (set_ipc (upd (ipc c3) x IClose) c3))
  | IClose =>
    Some (set_ipc (upd (ipc c) x IDone) (set_idone (upd (idone c) x true) c))
  | _ => None
  end.

(* ------------------------------------------------------------------ answerQueue callers *)

Definition ready_closed (c : config) (a : cid) : bool :=
  match aq_ph c a with
  | AQueueing => false
  | ADraining _ | ADrainWait _ => ierr c a   (* reject closes ready at once, fulfill at the end *)
  | ADrained => true
  end.

(* the target (root answer, basis) of pipelined call p, known once the call it is made on has
   a PipelineCaller of ours *)
Definition pipe_target (P : params) (c : config) (on : cid) : option (cid * nat) :=
  match p_kind P on with
  | Direct => match spc c on with
              | SDone => if gotp c on then Some (on, 0) else None
              | _ => None
              end
  | Pipe _ => match penq c on with
              | Some idx => Some (proot c on, if p_fixed P then S idx else idx)
              | None => None
              end
  end.

Definition passthrough (a p : cid) (c : config) : config :=
  if ierr c a then set_ppc (upd (ppc c) p PDone) (reject_call p (CErr a) c)
  else deliver a p (pbasis c p) (length (aq_q c a)) false c.

Definition step_pipe (P : params) (c : config) (p : cid) : option config :=
  match p_kind P p with
  | Direct => None
  | Pipe on =>
    match ppc c p with
    | PInit =>
      if pred_done P c p then
        match pipe_target P c on with
        | None => None
        | Some (a, b) =>
          let c0 := set_proot (upd (proot c) p a) (set_pbasis (upd (pbasis c) p b) (ev (EvIssue p) c)) in
          match aq_ph c0 a with
          | AQueueing =>
            if Nat.eqb (length (aq_q c0 a)) (p_qsize P) then
              Some (set_ppc (upd (ppc c0) p PWaitDrain) c0)
            else
              Some (ev (EvEnq p a b)
                   (set_ppc (upd (ppc c0) p PQueued)
                   (set_penq (upd (penq c0) p (Some (length (aq_q c0 a))))
                   (set_aq_q (upd (aq_q c0) a (aq_q c0 a ++ [p])) c0))))
          | _ => Some (set_ppc (upd (ppc c0) p PWaitReady) c0)
          end
        end
      else None
    | PWaitDrain =>
      match aq_ph c (proot c p) with
      | AQueueing => None
      | _ => Some (set_ppc (upd (ppc c) p PWaitReady) c)
      end
    | PWaitReady =>
      if ready_closed c (proot c p) then Some (passthrough (proot c p) p c) else None
    | _ => None
    end
  end.

Definition step_pipe_ctx (P : params) (c : config) (p : cid) : option config :=
  match p_kind P p with
  | Direct => None
  | Pipe _ =>
    if cancelled c p then
      match ppc c p with
      | PWaitDrain | PWaitReady => Some (set_ppc (upd (ppc c) p PDone) (reject_call p CCtx c))
      | _ => None
      end
    else None
  end.

(* the capability a pipelined call was delivered to returns: r.Return() / r.Reject(e), i.e. it releases the
   arguments it was handed (ReleaseArgs travels with the Recv) and then calls the Returner *)
Definition step_target_ret (c : config) (p : cid) (e : bool) : option config :=
  let r := if e then TErr p else TOk in
  match ppc c p with
  | PDelivered => Some (set_ppc (upd (ppc c) p PEmbRet) (set_tret (upd (tret c) p r) (release p c)))
  | PDirect => Some (set_ppc (upd (ppc c) p PDone) (set_tret (upd (tret c) p r) (reject_call p (if e then CErr p else COk) c)))
  | _ => None
  end.

(* go func(e, ret){ <-e.returned; ret.Return(err) }, spawned at the end of fulfill *)
Definition step_emb (c : config) (p : cid) : option config :=
  match ppc c p with
  | PEmbRet =>
    match aq_ph c (proot c p) with
    | ADrained =>
      match tret c p with
      | TOk => Some (set_ppc (upd (ppc c) p PDone) (complete p COk c))
      | TErr o => Some (set_ppc (upd (ppc c) p PDone) (complete p (CErr o) c))
      | TNone => None
      end
    | _ => None
    end
  | _ => None
  end.

(* ------------------------------------------------------------------ Shutdown *)

Fixpoint cancel_all (l : list (option cid)) (f : cid -> bool) : cid -> bool :=
  match l with
  | [] => f
  | Some x :: r => cancel_all r (upd f x true)
  | None :: r => cancel_all r f
  end.

Definition step_shutdown (c : config) : option config :=
  match shpc c with
  | ShInit =>
    match drain c with
    | DNil =>
      if has_ongoing (ongoing c) then
        Some (ev EvShutCall (set_shpc ShWait (set_drain DOpen (set_icanc (cancel_all (ongoing c) (icanc c)) c))))
      else
        Some (ev EvShutCall (set_shpc ShUser (set_drain DClosed c)))
    | _ => Some (panic c)               (* "Shutdown called multiple times" *)
    end
  | ShWait => match drain c with DClosed => Some (set_shpc ShUser c) | _ => None end
  | ShUser => Some (ev EvShutUser (set_shpc ShDone (set_shcount (S (shcount c)) c)))
  | ShDone => None
  end.

(* the target the drain loop of a is blocked in acknowledges delivery: recv(...) returns *)
Definition step_drain_ack (c : config) (a : cid) : option config :=
  match aq_ph c a with
  | ADrainWait k => Some (set_aq_ph (upd (aq_ph c) a (ADraining k)) c)
  | _ => None
  end.

Definition step_cancel (c : config) (x : cid) : option config :=
  if cancelled c x then None else Some (set_cancelled (upd (cancelled c) x true) c).

(* ------------------------------------------------------------------ the step function *)

Inductive tid :=
| TStart (c : cid) | TStartCtx (c : cid)
| TAck (c : cid) | TRet (c : cid) (err : bool)
| TImpl (c : cid)
| TPipe (p : cid) | TPipeCtx (p : cid)
| TTargetRet (p : cid) (err : bool)
| TEmb (p : cid)
| TCancel (c : cid)
| TShutdown
| TDrainAck (a : cid).

Definition step (P : params) (c : config) (t : tid) : option config :=
  match t with
  | TStart x => step_start P c x
  | TStartCtx x => step_start_ctx P c x
  | TAck x => step_ack c x
  | TRet x e => step_ret c x e
  | TImpl x => step_impl P c x
  | TPipe p => step_pipe P c p
  | TPipeCtx p => step_pipe_ctx P c p
  | TTargetRet p e => step_target_ret c p e
  | TEmb p => step_emb c p
  | TCancel x => step_cancel c x
  | TShutdown => step_shutdown c
  | TDrainAck a => step_drain_ack c a
  end.

(* a schedule is a list of thread ids; steps that are not enabled are skipped *)
Fixpoint run (P : params) (c : config) (s : list tid) : config :=
  match s with
  | [] => c
  | t :: r => match step P c t with Some c' => run P c' r | None => run P c r end
  end.

Inductive reachable (P : params) : config -> Prop :=
| reach_init : reachable P (init P)
| reach_step : forall c t c', reachable P c -> step P c t = Some c' -> reachable P c'.

(* ------------------------------------------------------------------ observation (for the driver) *)

(* number of implementations currently executing m.Impl *)
Definition in_impl (i : ipc_t) : bool := match i with IRun | IAcked => true | _ => false end.
Definition holds_slot (i : ipc_t) : bool :=
  match i with IRun | IAcked | IRet | IDrain | IReturn | ISlot => true | _ => false end.

Fixpoint count_slots (l : list (option cid)) : nat :=
  match l with [] => 0 | Some _ :: r => S (count_slots r) | None :: r => count_slots r end.
