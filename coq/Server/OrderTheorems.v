(* C12 — same-caller order theorems. *)
From CV Require Import Server.Server Server.ServerProofs Server.ServerSteps Server.ServerStart Server.ServerTheorems
  Server.AqInv Server.AqFrame Server.AqSteps Server.AqPreserve Server.AqTheorems Server.ServerOrder.
From Coq Require Import List Arith Bool Lia.
Import ListNotations.

Lemma invK_reachable : forall P c, reachable P c -> invK P c.
Proof.
  induction 1. apply invK_init.
  eapply invK_step; eauto. apply inv_reachable; auto. apply invA_reachable; auto.
Qed.

(* i was issued before j by the same caller (transitive closure of p_pred) *)
Inductive before (P : params) : cid -> cid -> Prop :=
| before_pred : forall i j, p_pred P j = Some i -> before P i j
| before_trans : forall i d j, before P i d -> p_pred P j = Some d -> before P i j.

Lemma returned_entered : forall P c d, call_returned P c d = true -> entered P c d.
Proof.
  intros P c d H. unfold call_returned, entered in *. destruct (p_kind P d).
  - destruct (spc c d); discriminate.
  - destruct (ppc c d); discriminate.
Qed.

(* a call is entered (its Send/Recv/PipelineRecv begins) only after every call issued earlier by
   the same caller has returned from its Send/Recv/PipelineRecv *)
Lemma program_order_lemma : forall P c i j, reachable P c -> before P i j -> entered P c j ->
  call_returned P c i = true.
Proof.
  intros P c i j R B. pose proof (invK_reachable _ _ R) as K. induction B; intros E.
  - eapply K; eauto.
  - apply IHB. apply returned_entered. eapply K; eauto.
Qed.

(* gate, same caller: when the implementation of direct call j has been started, every direct
   call i issued earlier by the same caller has returned from start: it was rejected, or its
   implementation has acknowledged delivery or returned (it is not started-and-unacknowledged) *)
Lemma gate_same_caller_lemma : forall P c i j, reachable P c -> before P i j ->
  p_kind P i = Direct -> p_kind P j = Direct -> ipc c j <> INone ->
  spc c i = SDone /\ ipc c i <> IRun.
Proof.
  intros P c i j R B Ki Kj Hj. pose proof (inv_reachable _ _ R) as I.
  assert (E : entered P c j).
  { unfold entered. rewrite Kj. intros E0. apply Hj. apply (i_pre _ _ I). rewrite E0. reflexivity. }
  pose proof (program_order_lemma P c i j R B E) as H. unfold call_returned in H. rewrite Ki in H.
  destruct (spc c i) eqn:Es; try discriminate. split; auto.
  intros Hr. apply (i_run _ _ I) in Hr. congruence.
Qed.

(* calls are seen in the order they were made: the implementation of an earlier call i can only be
   started while a later call j of the same caller has not even been entered *)
Lemma seen_in_order_lemma : forall P c t c' i j, reachable P c -> before P i j -> p_kind P i = Direct ->
  step P c t = Some c' -> ipc c i = INone -> ipc c' i <> INone -> ~ entered P c j.
Proof.
  intros P c t c' i j R B Ki H Hn Hs E.
  destruct (begin_step _ _ _ _ _ H Hn Hs) as (_ & _ & ->).
  pose proof (program_order_lemma P c i j R B E) as Hr. unfold call_returned in Hr. rewrite Ki in Hr.
  destruct (spc c i) eqn:Es; try discriminate.
  simpl in H. unfold step_start in H. rewrite Ki, Es in H. discriminate.
Qed.
