(* C12 — theorems about the answerQueue over all schedules: exactly-once for pipelined calls,
   queue order. *)
From CV Require Import Server.Server Server.ServerProofs Server.ServerSteps Server.ServerStart Server.ServerTheorems
  Server.AqInv Server.AqFrame Server.AqSteps Server.AqPreserve.
From Coq Require Import List Arith Bool Lia.
Import ListNotations.

Lemma invA_reachable : forall P c, reachable P c -> invA P c.
Proof.
  induction 1. apply invA_init. eapply invA_step; eauto. apply inv_reachable; auto.
Qed.

(* ------------------------------------------------------------------ exactly once, pipelined calls *)

(* a pipelined call never completes twice, and its Returner.Return has been called exactly once
   from the step on that moves it to PDone (rejected with ctx / the parent's error / the error of
   the call it was pipelined on, or returned by the capability it was delivered to) *)
Lemma pipe_once_lemma : forall P c p, reachable P c -> p_kind P p <> Direct ->
  length (compl c p) <= 1 /\ (ppc c p = PDone <-> length (compl c p) = 1).
Proof.
  intros P c p R K. pose proof (a_j3 _ _ (invA_reachable _ _ R) p K) as J.
  destruct (ppc c p); simpl in J; rewrite J; split; try lia; split; intros; try discriminate; auto.
Qed.

(* ------------------------------------------------------------------ queue order *)

(* the calls queued on answer a are processed by fulfill / reject in the order in which they were
   queued: at any time the processed calls are a prefix of the queued ones ... *)
Lemma queue_order_prefix_lemma : forall P c a, reachable P c ->
  procs a (trace c) = firstn (qidx (aq_ph c a) (length (aq_q c a))) (enqs a (trace c)).
Proof. intros P c a R. pose proof (invA_reachable _ _ R) as A. rewrite (a_t1 _ _ A). apply (a_t2 _ _ A). Qed.

(* ... and once the drain loop has ended every queued call has been processed *)
Lemma queue_order_complete_lemma : forall P c a, reachable P c -> aq_ph c a = ADrained ->
  procs a (trace c) = enqs a (trace c).
Proof.
  intros P c a R H. rewrite (queue_order_prefix_lemma P c a R). rewrite H. simpl.
  rewrite (a_t1 _ _ (invA_reachable _ _ R)). apply firstn_all.
Qed.

(* what processing a queue entry means: if the answer failed the call fails with the answer's
   error; otherwise it is delivered (to the answer's result, to the result of the queued call it
   was pipelined on, or to that call's pipeline caller), or fails with the error of the queued call
   it was pipelined on *)
Lemma process_step_lemma : forall P c a c' k p, reachable P c -> step P c (TImpl a) = Some c' ->
  ipc c a = IDrain -> aq_ph c a = ADraining k -> nth_error (aq_q c a) k = Some p ->
  ppc c p = PQueued /\ compl c p = [] /\
  procs a (trace c') = procs a (trace c) ++ [p] /\
  if ierr c a then ppc c' p = PDone /\ compl c' p = [CErr a]
  else (ppc c' p = PDelivered /\ exists d, hd_error (trace c') = Some (EvDeliver p d))
       \/ (ppc c' p = PEmbRet /\ exists o, tret c' p = TErr o).
Proof.
  intros P c a c' k p R H Hi Hph Hn. pose proof (invA_reachable _ _ R) as A.
  assert (Hq : ppc c p = PQueued) by (apply (a_q1 _ _ A _ _ _ Hn); rewrite Hph; simpl; lia).
  assert (Hl : compl c p = []).
  { assert (length (compl c p) = 0) by (apply (compl_len0 P); auto; congruence).
    destruct (compl c p); auto; discriminate. }
  split; auto. split; auto.
  simpl in H. unfold step_impl in H. rewrite Hi, Hph, Hn in H.
  destruct (ierr c a); inv_some.
  - cbn. unfold upd. rewrite !Nat.eqb_refl. rewrite Hl. auto.
  - set (c1 := ev (EvProc a p) (set_aq_ph (upd (aq_ph c) a (ADraining (S k))) c)).
    assert (Hb : pbasis c p <= k) by (eapply (a_q8 _ _ A); eauto).
    assert (Hk : k <= length (aq_q c1 a)).
    { cbn. apply Nat.lt_le_incl. apply nth_error_Some. rewrite Hn. discriminate. }
    destruct (deliver_cases a p (pbasis c p) k true c1 Hb Hk) as [(d & E)|(o & E)]; rewrite E.
    + match goal with |- context [if ?b then _ else _] => destruct b end;
        cbn; unfold upd; rewrite !Nat.eqb_refl; (split; auto); left; split; eauto.
    + match goal with |- context [if ?b then _ else _] => destruct b end;
        cbn; unfold upd; rewrite !Nat.eqb_refl; (split; auto); right; split; eauto.
Qed.

(* a call that arrived while the queue was draining is passed through only when the drain loop
   has ended (all queued calls processed), or fails with the answer's error *)
Lemma passthrough_after_queue_lemma : forall P c p c', reachable P c -> step P c (TPipe p) = Some c' ->
  ppc c p = PWaitReady ->
  if ierr c (proot c p) then ppc c' p = PDone /\ hd_error (compl c' p) = Some (CErr (proot c p))
  else aq_ph c (proot c p) = ADrained /\ procs (proot c p) (trace c) = enqs (proot c p) (trace c).
Proof.
  intros P c p c' R H Hp. simpl in H. unfold step_pipe in H.
  destruct (p_kind P p); try discriminate. rewrite Hp in H.
  destruct (ready_closed c (proot c p)) eqn:Er; inv_some.
  unfold passthrough. destruct (ierr c (proot c p)) eqn:Ee.
  - cbn. unfold upd. rewrite !Nat.eqb_refl. auto.
  - unfold ready_closed in Er. destruct (aq_ph c (proot c p)) eqn:Eph; try congruence.
    split; auto. apply (queue_order_complete_lemma P); auto.
Qed.

(* a call that arrives while the queue of its answer is draining (also while the drain loop is
   blocked in a target that has not acknowledged delivery) is neither queued nor delivered: it
   waits for the end of the drain (PWaitReady), see passthrough_after_queue_lemma *)
Lemma arrival_during_drain_lemma : forall P c p c' on a b, step P c (TPipe p) = Some c' ->
  p_kind P p = Pipe on -> ppc c p = PInit -> pipe_target P c on = Some (a, b) -> aq_ph c a <> AQueueing ->
  ppc c' p = PWaitReady /\ proot c' p = a /\ trace c' = EvIssue p :: trace c.
Proof.
  intros P c p c' on a b H K Hp Ht Hph. simpl in H. unfold step_pipe in H. rewrite K, Hp, Ht in H.
  destruct (pred_done P c p); try discriminate.
  cbn in H. destruct (aq_ph c a); try congruence; inv_some; cbn; unfold upd; rewrite !Nat.eqb_refl; auto.
Qed.

(* ------------------------------------------------------------------ liveness of the drain *)

Definition waiting_caller (s : ppc_t) : Prop := s = PWaitDrain \/ s = PWaitReady.

(* a caller blocked on a full queue (select on aq.draining) can move as soon as the drain has
   STARTED (close(aq.draining) is the first thing fulfill / reject do, before any queued call is
   delivered or rejected); a caller blocked on ready can move as soon as ready is closed *)
Lemma blocked_caller_enabled_lemma : forall P c p, reachable P c ->
  (ppc c p = PWaitDrain -> aq_ph c (proot c p) <> AQueueing -> step P c (TPipe p) <> None) /\
  (ppc c p = PWaitReady -> ready_closed c (proot c p) = true -> step P c (TPipe p) <> None).
Proof.
  intros P c p R. pose proof (invA_reachable _ _ R) as A.
  assert (K : ppc c p <> PInit -> exists on, p_kind P p = Pipe on).
  { intros H. destruct (p_kind P p) eqn:E; eauto. exfalso. apply H. apply (a_kp _ _ A); auto. }
  split; intros Hp Hph.
  - destruct K as (on & K); [congruence|]. simpl. unfold step_pipe. rewrite K, Hp.
    destruct (aq_ph c (proot c p)); try congruence; discriminate.
  - destruct K as (on & K); [congruence|]. simpl. unfold step_pipe. rewrite K, Hp, Hph. discriminate.
Qed.

(* reject: from the moment the goroutine of a is inside aq.reject (and ever after) every caller
   blocked on a's answerQueue can move - the queued calls are rejected only after the blocked
   callers have been released *)
Lemma reject_releases_callers_lemma : forall P c a p, reachable P c ->
  ierr c a = true -> iclass (ipc c a) <> 0 -> proot c p = a -> waiting_caller (ppc c p) ->
  step P c (TPipe p) <> None.
Proof.
  intros P c a p R He Hi Hr Hw. pose proof (invA_reachable _ _ R) as A.
  pose proof (a_q5 _ _ A a) as Q.
  destruct (blocked_caller_enabled_lemma P c p R) as (H1 & H2). rewrite Hr in *.
  destruct Hw as [Hw|Hw].
  - apply H1; auto. intros E. rewrite E in Q. simpl in Q. congruence.
  - apply H2; auto. unfold ready_closed. destruct (aq_ph c a); simpl in Q; auto; congruence.
Qed.

(* fulfill and reject: once the drain of a has ended no caller stays blocked on a's answerQueue *)
Lemma drained_releases_callers_lemma : forall P c a p, reachable P c ->
  aq_ph c a = ADrained -> proot c p = a -> waiting_caller (ppc c p) -> step P c (TPipe p) <> None.
Proof.
  intros P c a p R Hd Hr Hw.
  destruct (blocked_caller_enabled_lemma P c p R) as (H1 & H2). rewrite Hr in *.
  destruct Hw as [Hw|Hw].
  - apply H1; auto. congruence.
  - apply H2; auto. unfold ready_closed. rewrite Hd. reflexivity.
Qed.
