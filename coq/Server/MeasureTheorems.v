(* C12 — the termination measures stated for reachable configurations (panic-freedom supplies the
   premise the per-step lemmas of Measure.v need). *)
From CV Require Import Server.Server Server.ServerProofs Server.ServerSteps Server.ServerStart Server.ServerTheorems
  Server.AqInv Server.AqTheorems Server.NoPanic Server.Measure.
From Coq Require Import List Arith Bool Lia.
Import ListNotations.

Lemma step_nopanic : forall P c t c', reachable P c -> step P c t = Some c' -> panicked c' = false.
Proof. intros P c t c' R H. apply (reachable_nopanic P). econstructor; eauto. Qed.

Lemma impl_measure_reach : forall P c x c', reachable P c -> step P c (TImpl x) = Some c' ->
  impl_measure c' x < impl_measure c x.
Proof. intros P c x c' R H. eapply impl_measure_lemma; eauto. apply invA_reachable; auto. Qed.

Lemma pipe_measure_reach : forall P c p c', reachable P c ->
  (step P c (TPipe p) = Some c' \/ step P c (TPipeCtx p) = Some c') ->
  pipe_measure c' p < pipe_measure c p.
Proof.
  intros P c p c' R H. eapply pipe_measure_lemma; eauto.
  destruct H as [H|H]; eapply step_nopanic; eauto.
Qed.

Lemma shut_measure_reach : forall P c c', reachable P c -> step P c TShutdown = Some c' ->
  shut_measure c' < shut_measure c.
Proof. intros P c c' R H. eapply shut_measure_lemma; eauto. eapply step_nopanic; eauto. Qed.

Lemma start_measure_reach : forall P c x c', reachable P c ->
  (step P c (TStart x) = Some c' \/ step P c (TStartCtx x) = Some c') ->
  start_measure c' x < start_measure c x
  \/ (exists h h', spc c x = SWaitGate h /\ spc c' x = SWaitGate h' /\
                   gate_rel c h = true /\ starting c = Some h').
Proof.
  intros P c x c' R H. eapply start_measure_lemma; eauto.
  destruct H as [H|H]; eapply step_nopanic; eauto.
Qed.
