(* C12 — every direct call completes (its Returner.Return is called) exactly once. *)
From CV Require Import Server.Server Server.ServerProofs Server.ServerSteps Server.ServerStart Server.ServerTheorems.
From Coq Require Import List Arith Bool Lia.
Import ListNotations.

(* the stage of a direct call at which its Returner.Return has been called *)
Definition finished_direct (c : config) (x : cid) : bool :=
  match ipc c x with
  | ISlot | IClose | IDone => true
  | INone => match spc c x with SDone => true | _ => false end
  | _ => false
  end.

Record inv2 (P : params) (c : config) : Prop := {
  j_kind_q : forall a p, In p (aq_q c a) -> p_kind P p <> Direct;
  j_kind_p : forall p, p_kind P p = Direct -> ppc c p = PInit;
  j_once : forall x, p_kind P x = Direct -> length (compl c x) = if finished_direct c x then 1 else 0
}.

Lemma inv2_init : forall P, inv2 P (init P).
Proof. intros P. constructor; simpl; intros; auto. Qed.

Ltac prep2 :=
  constructor; unfold finished_direct in *; cbn -[nth_error next_id has_ongoing set_nth In] in *; intros; unfold upd in *; eqb_cases.

Ltac sat2 I J :=
  repeat match goal with
  | y : cid |- _ =>
    lazymatch goal with
    | _ : seen_marker y |- _ => fail
    | _ => pose proof (j_kind_p _ _ J y); pose proof (j_once _ _ J y); pose proof (i_pre _ _ I y);
           pose proof (i_ack _ _ I y); assert (seen_marker y) by exact Logic.I
    end
  end;
  unfold finished_direct in *;
  repeat match goal with E : spc _ _ = _ |- _ => rewrite E in * end;
  repeat match goal with E : ppc _ _ = _ |- _ => rewrite E in * end;
  cbn -[nth_error next_id has_ongoing set_nth In] in *;
  repeat match goal with
  | H : ?a = ?a -> _ |- _ => specialize (H eq_refl)
  | H : ?a -> _, K : ?a |- _ => specialize (H K)
  end;
  repeat match goal with E : ipc _ _ = _ |- _ => rewrite E in * end;
  cbn -[nth_error next_id has_ongoing set_nth In] in *;
  try solve [ eauto | lia | intuition (congruence || discriminate || eauto || lia) ];
  try solve [ repeat match goal with
              | |- context [match ipc ?c ?x with _ => _ end] => destruct (ipc c x) eqn:?
              | H : context [match ipc ?c ?x with _ => _ end] |- _ => destruct (ipc c x) eqn:?
              end; cbn in *; intuition (congruence || discriminate || lia) ].

Lemma inv2_deliver : forall P a p b k emb c, inv P c -> inv2 P c -> p_kind P p <> Direct -> inv2 P (deliver a p b k emb c).
Proof.
  intros P a p b k emb c I J Hp. unfold deliver.
  destruct b; [|destruct (Nat.ltb b k); [destruct (nth_error (aq_q c a) b); [destruct (tret c c0); [| |destruct emb]|]|]].
  all: prep2; try solve [eapply (j_kind_q _ _ J); eauto]; sat2 I J.
  all: try solve [ destruct (j_kind_p _ _ J p); congruence ].
Qed.

Lemma inv2_step : forall P c t c', inv P c -> inv2 P c -> step P c t = Some c' -> inv2 P c'.
Proof.
  intros P c t c' I J H. destruct t; simpl in H.
  - (* start *)
    unfold step_start in H. destruct (p_kind P c0) eqn:Ek; try discriminate.
    destruct (spc c c0) eqn:Es; try discriminate.
    + destruct (pred_done P c c0); inv_some. unfold enter_start, start_reject, take_slot.
      cbn -[next_id]. destruct (drain c); [destruct (starting c); [|cbn -[next_id]; destruct (next_id (ongoing c))]|..].
      all: prep2; try solve [eapply (j_kind_q _ _ J); eauto]; sat2 I J.
    + destruct (gate_rel c h); inv_some. unfold enter_start, start_reject, take_slot.
      cbn -[next_id]. destruct (drain c); [destruct (starting c); [|cbn -[next_id]; destruct (next_id (ongoing c))]|..].
      all: prep2; try solve [eapply (j_kind_q _ _ J); eauto]; sat2 I J.
    + destruct (next_id (ongoing c)); [destruct (drain c)|]; inv_some; unfold start_reject, release_gate, take_slot, panic.
      all: prep2; try solve [eapply (j_kind_q _ _ J); eauto]; sat2 I J.
    + destruct (acked c c0 || idone c c0); inv_some. unfold release_gate.
      prep2; try solve [eapply (j_kind_q _ _ J); eauto]; sat2 I J.
  - unfold step_start_ctx in H. destruct (p_kind P c0) eqn:Ek; try discriminate.
    destruct (cancelled c c0); try discriminate.
    destruct (spc c c0) eqn:Es; inv_some; unfold start_reject, release_gate.
    all: prep2; try solve [eapply (j_kind_q _ _ J); eauto]; sat2 I J.
  - unfold step_ack in H. destruct (ipc c c0) eqn:Ei; inv_some.
    prep2; try solve [eapply (j_kind_q _ _ J); eauto]; sat2 I J.
  - unfold step_ret in H. destruct (ipc c c0) eqn:Ei; inv_some.
    all: prep2; try solve [eapply (j_kind_q _ _ J); eauto]; sat2 I J.
  - (* impl *)
    unfold step_impl in H. destruct (ipc c c0) eqn:Ei; try discriminate.
    + inv_some. prep2; try solve [eapply (j_kind_q _ _ J); eauto]; sat2 I J.
    + destruct (aq_ph c c0); try discriminate. destruct (nth_error (aq_q c c0) k) eqn:En.
      * assert (Hk : p_kind P c1 <> Direct) by (eapply (j_kind_q _ _ J); eapply nth_error_In; eauto).
        destruct (ierr c c0); inv_some.
        -- prep2; try solve [eapply (j_kind_q _ _ J); eauto]; sat2 I J.
        -- apply inv2_deliver; auto.
           { eapply inv_core_eq; [|exact I]. core. }
           prep2; try solve [eapply (j_kind_q _ _ J); eauto]; sat2 I J.
      * inv_some. prep2; try solve [eapply (j_kind_q _ _ J); eauto]; sat2 I J.
    + inv_some. prep2; try solve [eapply (j_kind_q _ _ J); eauto]; sat2 I J.
    + inv_some. unfold all_free, panic. cbn -[set_nth has_ongoing].
      destruct (drain c); cbn -[set_nth has_ongoing]; try destruct (has_ongoing _); cbn -[set_nth has_ongoing];
        destruct (full c) eqn:Ef; cbn -[set_nth has_ongoing].
      all: try (pose proof (i_full1 _ _ I _ Ef) as Ew; pose proof (i_pre _ _ I c1) as Ew2; rewrite Ew in Ew2; specialize (Ew2 eq_refl)).
      all: prep2; try solve [eapply (j_kind_q _ _ J); eauto]; sat2 I J.
    + inv_some. prep2; try solve [eapply (j_kind_q _ _ J); eauto]; sat2 I J.
  - (* pipe *)
    unfold step_pipe in H. destruct (p_kind P p) eqn:Ek; try discriminate.
    assert (Hk : p_kind P p <> Direct) by congruence.
    destruct (ppc c p) eqn:Ep; try discriminate.
    + destruct (pred_done P c p); try discriminate.
      destruct (pipe_target P c on) as [[a b]|]; try discriminate.
      cbn in H. destruct (aq_ph c a); [destruct (Nat.eqb _ _)|..]; inv_some.
      all: prep2; try solve [eapply (j_kind_q _ _ J); eauto]; sat2 I J.
      all: try solve [ match goal with Hin : In _ (_ ++ _) |- _ => apply in_app_or in Hin; destruct Hin as [Hin|[Hin|[]]]; subst;
                         [eapply (j_kind_q _ _ J); eauto | congruence] end ].
    + destruct (aq_ph c (proot c p)); inv_some.
      all: prep2; try solve [eapply (j_kind_q _ _ J); eauto]; sat2 I J.
    + destruct (ready_closed c (proot c p)); inv_some.
      unfold passthrough. destruct (ierr c (proot c p)).
      * prep2; try solve [eapply (j_kind_q _ _ J); eauto]; sat2 I J.
      * apply inv2_deliver; auto.
  - unfold step_pipe_ctx in H. destruct (p_kind P p) eqn:Ek; try discriminate.
    destruct (cancelled c p); try discriminate.
    destruct (ppc c p) eqn:Ep; inv_some.
    all: prep2; try solve [eapply (j_kind_q _ _ J); eauto]; sat2 I J.
  - unfold step_target_ret in H. destruct (ppc c p) eqn:Ep; inv_some.
    all: prep2; try solve [eapply (j_kind_q _ _ J); eauto]; sat2 I J.
  - unfold step_emb in H. destruct (ppc c p) eqn:Ep; try discriminate.
    destruct (aq_ph c (proot c p)); try discriminate. destruct (tret c p); inv_some.
    all: prep2; try solve [eapply (j_kind_q _ _ J); eauto]; sat2 I J.
  - unfold step_cancel in H. destruct (cancelled c c0); inv_some.
    prep2; try solve [eapply (j_kind_q _ _ J); eauto]; sat2 I J.
  - unfold step_shutdown in H. destruct (shpc c); try discriminate.
    + destruct (drain c); [destruct (has_ongoing (ongoing c))|..]; inv_some; unfold panic.
      all: prep2; try solve [eapply (j_kind_q _ _ J); eauto]; sat2 I J.
    + destruct (drain c); inv_some. prep2; try solve [eapply (j_kind_q _ _ J); eauto]; sat2 I J.
    + inv_some. prep2; try solve [eapply (j_kind_q _ _ J); eauto]; sat2 I J.
Qed.

Lemma inv2_reachable : forall P c, reachable P c -> inv2 P c.
Proof.
  induction 1. apply inv2_init. eapply inv2_step; eauto. apply inv_reachable; auto.
Qed.

(* a direct call never completes twice, and it has completed exactly once as soon as it was
   rejected by start or its goroutine has passed r.Returner.Return *)
Lemma direct_once_lemma : forall P c x, reachable P c -> p_kind P x = Direct ->
  length (compl c x) <= 1 /\ (finished_direct c x = true -> length (compl c x) = 1) /\
  (finished_direct c x = false -> compl c x = []).
Proof.
  intros P c x R K. pose proof (j_once _ _ (inv2_reachable _ _ R) x K) as H.
  destruct (finished_direct c x); repeat split; intros; try discriminate; try lia.
  destruct (compl c x); auto; discriminate.
Qed.

(* a direct call whose Send/Recv has returned and whose goroutine (if any) has terminated
   has completed exactly once *)
Lemma direct_done_once_lemma : forall P c x, reachable P c -> p_kind P x = Direct ->
  spc c x = SDone -> (ipc c x = INone \/ ipc c x = IDone) -> length (compl c x) = 1.
Proof.
  intros P c x R K Hs Hi. apply (direct_once_lemma P c x R K). unfold finished_direct.
  destruct Hi as [-> | ->]; auto. rewrite Hs. reflexivity.
Qed.
