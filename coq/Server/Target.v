(* C12 — WHERE a pipelined call is delivered (repaired code, p_fixed = true): a call pipelined on
   the answer of call [on] is delivered to a capability in the result of [on] (DRes on) or, while the
   delivered call [on] is still running, to [on]'s pipeline caller (DFwd on) - never to another
   answer. The invariant ties the recorded basis (index in aq.bases) to the queue position of the
   call it was pipelined on. *)
From CV Require Import Server.Server Server.ServerProofs Server.AqInv Server.AqFrame Server.AqSteps Server.AqPreserve
  Server.ServerOrder.
From Coq Require Import List Arith Bool Lia.
Import ListNotations.

(* the target recorded for p when it entered queueCaller.PipelineRecv is the right one *)
Definition basis_ok (P : params) (c : config) (p on : cid) : Prop :=
  (p_kind P on = Direct /\ proot c p = on /\ pbasis c p = 0)
  \/ (p_kind P on <> Direct /\ exists i, penq c on = Some i /\ pbasis c p = S i /\ proot c p = proot c on).

Definition dest_ok (P : params) (p : cid) (d : dest) : Prop :=
  exists on, p_kind P p = Pipe on /\ (d = DRes on \/ (d = DFwd on /\ p_kind P on <> Direct)).

Record invB (P : params) (c : config) : Prop := {
  b_basis : forall p on, p_kind P p = Pipe on -> ppc c p <> PInit -> basis_ok P c p on;
  b_deliv : forall p d, In (p, d) (delivs (trace c)) -> dest_ok P p d
}.

Lemma invB_init : forall P, invB P (init P).
Proof. intros P. constructor; simpl; intros; [congruence|contradiction]. Qed.

Lemma delivs_in : forall tr p d, In (EvDeliver p d) tr <-> In (p, d) (delivs tr).
Proof.
  induction tr as [|e tr IH]; simpl; intros p d; [tauto|].
  destruct e; simpl; rewrite <- IH; split; intros H; try (destruct H as [H|H]; [discriminate|auto]); auto.
  - destruct H as [H|H]; [inversion H; auto|auto].
  - destruct H as [H|H]; [inversion H; auto|auto].
Qed.

(* steps that neither record a target nor deliver *)
Lemma invB_same : forall P c c', invB P c ->
  proot c' = proot c -> pbasis c' = pbasis c -> penq c' = penq c ->
  (forall x, ppc c' x <> PInit -> ppc c x <> PInit) ->
  delivs (trace c') = delivs (trace c) -> invB P c'.
Proof.
  intros P c c' B E1 E2 E3 Hp Ed. constructor.
  - intros p on K H. pose proof (b_basis _ _ B p on K (Hp _ H)) as Q.
    unfold basis_ok in *. rewrite E1, E2, E3. exact Q.
  - intros p d H. rewrite Ed in H. apply (b_deliv _ _ B); auto.
Qed.

(* what deliver adds to the trace *)
Lemma deliver_delivs : forall a p b k emb c x d,
  In (x, d) (delivs (trace (deliver a p b k emb c))) ->
  In (x, d) (delivs (trace c))
  \/ (x = p /\ ((b = 0 /\ d = DRes a)
                \/ exists j e, b = S j /\ nth_error (aq_q c a) j = Some e /\ (d = DRes e \/ d = DFwd e))).
Proof.
  intros a p b k emb c x d. unfold deliver.
  destruct b as [|j].
  - cbn. intros [H|H]; auto. inversion H; subst. right. auto.
  - destruct (Nat.ltb j k); [|cbn; auto].
    destruct (nth_error (aq_q c a) j) eqn:En; [|cbn; auto].
    destruct (tret c c0).
    + cbn. intros [H|H]; auto. inversion H; subst. right. split; auto. right. exists j, c0. auto.
    + cbn. intros [H|H]; auto. inversion H; subst. right. split; auto. right. exists j, c0. auto.
    + destruct emb; cbn; auto.
Qed.

Lemma deliver_fields : forall a p b k emb c,
  proot (deliver a p b k emb c) = proot c /\ pbasis (deliver a p b k emb c) = pbasis c /\
  penq (deliver a p b k emb c) = penq c.
Proof.
  intros. unfold deliver. destruct b; [|destruct (Nat.ltb b k); [destruct (nth_error (aq_q c a) b); [destruct (tret c c0)|]|]].
  all: destruct emb; repeat split.
Qed.

(* the two clauses of invA used here (they survive the ghost/phase updates made before deliver) *)
Definition invA' (P : params) (c : config) : Prop :=
  (forall p, p_kind P p = Direct -> ppc c p = PInit)
  /\ (forall p i, penq c p = Some i -> nth_error (aq_q c (proot c p)) i = Some p).

Lemma invA_invA' : forall P c, invA P c -> invA' P c.
Proof. intros P c A. split; [apply (a_kp _ _ A)|apply (a_q2 _ _ A)]. Qed.

(* a delivery through bases[pbasis p] of the answer p was recorded for reaches the right target *)
Lemma delivery_dest_ok : forall P c p a d, invA' P c -> invB P c ->
  ppc c p <> PInit -> proot c p = a ->
  ((pbasis c p = 0 /\ d = DRes a)
   \/ exists j e, pbasis c p = S j /\ nth_error (aq_q c a) j = Some e /\ (d = DRes e \/ d = DFwd e)) ->
  dest_ok P p d.
Proof.
  intros P c p a d (A1 & A2) B Hp Hr Hd.
  destruct (p_kind P p) eqn:K; [exfalso; apply Hp; apply A1; auto|].
  exists on. split; auto.
  destruct (b_basis _ _ B p on K Hp) as [(K1 & R1 & B1)|(K1 & i & Q1 & B1 & R1)].
  - destruct Hd as [(_ & ->)|(j & e & Hb & _)]; [left; congruence|congruence].
  - destruct Hd as [(Hb & _)|(j & e & Hb & Hn & Hd)]; [congruence|].
    assert (j = i) by congruence. subst j.
    pose proof (A2 _ _ Q1) as Hon. rewrite <- R1, Hr in Hon.
    assert (e = on) by congruence. subst e. destruct Hd as [Hd|Hd]; auto.
Qed.

Lemma deliver_ppc_init : forall a p b k emb c x, ppc c p <> PInit ->
  ppc (deliver a p b k emb c) x <> PInit -> ppc c x <> PInit.
Proof.
  intros a p b k emb c x Hp H. destruct (deliver_ppc a p b k emb c x) as [E|(-> & _)]; congruence.
Qed.

Lemma invB_deliver : forall P c p k emb, invA' P c -> invB P c -> ppc c p <> PInit ->
  invB P (deliver (proot c p) p (pbasis c p) k emb c).
Proof.
  intros P c p k emb A B Hp.
  destruct (deliver_fields (proot c p) p (pbasis c p) k emb c) as (E1 & E2 & E3).
  constructor.
  - intros x on K H. apply deliver_ppc_init in H; auto.
    pose proof (b_basis _ _ B x on K H) as Q. unfold basis_ok in *. rewrite E1, E2, E3. exact Q.
  - intros x d H. apply deliver_delivs in H. destruct H as [H|(-> & H)].
    + apply (b_deliv _ _ B); auto.
    + eapply delivery_dest_ok; eauto.
Qed.

Lemma invB_if_ph : forall P c2 (b : bool) f, invB P c2 -> invB P (if b then set_aq_ph f c2 else c2).
Proof. intros P c2 b f H. destruct b; auto. destruct H; constructor; auto. Qed.

Lemma invB_step : forall P c t c', p_fixed P = true -> inv P c -> invA P c -> invB P c ->
  step P c t = Some c' -> invB P c'.
Proof.
  intros P c t c' F I A B H.
  assert (Fr : forall c2, aq_frame P c c2 -> invB P c2).
  { intros c2 Fc. apply (invB_same P c c2 B); try (destruct Fc; assumption).
    - intros x. rewrite (f_ppc _ _ _ Fc). auto. }
  destruct t as [x|x|x|x e|x|p|p|p e|p|x| |a]; simpl in H.
  - apply Fr. eapply frame_start; eauto.
  - apply Fr. eapply frame_start_ctx; eauto.
  - apply Fr. eapply frame_ack; eauto.
  - apply Fr. eapply frame_ret; eauto.
  - (* impl *)
    destruct (ipc c x) eqn:Ei;
      try (apply Fr; eapply frame_impl_tail; eauto; tauto);
      unfold step_impl in H; rewrite Ei in H; try discriminate.
    + inv_some. apply (invB_same P c _ B); auto.
    + destruct (aq_ph c x) eqn:Eph; try discriminate.
      destruct (nth_error (aq_q c x) k) as [q1|] eqn:En.
      * assert (Hq : ppc c q1 = PQueued) by (apply (a_q1 _ _ A _ _ _ En); rewrite Eph; simpl; lia).
        destruct (ierr c x); inv_some.
        -- apply (invB_same P c _ B); auto. intros y. cbn. unfold upd. destruct (Nat.eqb_spec y q1); subst; congruence.
        -- apply invB_if_ph. destruct (a_q3 _ _ A _ _ _ En) as (_ & Hr).
           set (cc := ev (EvProc x q1) (set_aq_ph (upd (aq_ph c) x (ADraining (S k))) c)).
           assert (B1 : invB P cc) by (destruct B; constructor; auto).
           assert (A1 : invA' P cc) by (apply (invA_invA' P c A)).
           replace x with (proot cc q1) at 1 by exact Hr.
           change (pbasis c q1) with (pbasis cc q1).
           apply invB_deliver; auto. cbn. congruence.
      * inv_some. apply (invB_same P c _ B); auto.
  - (* pipe *)
    unfold step_pipe in H. destruct (p_kind P p) eqn:Ek; try discriminate.
    destruct (ppc c p) eqn:Ep; try discriminate.
    + destruct (pred_done P c p); try discriminate.
      destruct (pipe_target P c on) as [[a b]|] eqn:Et; try discriminate.
      (* the recorded target is the right one *)
      assert (Hb : forall c2, proot c2 = upd (proot c) p a -> pbasis c2 = upd (pbasis c) p b ->
                   (forall x, x <> p -> penq c2 x = penq c x) ->
                   (forall x, x <> p -> ppc c2 x = ppc c x) ->
                   delivs (trace c2) = delivs (trace c) -> invB P c2).
      { intros c2 E1 E2 E3 E4 E5. constructor.
        - intros x on' K Hx. unfold basis_ok. rewrite E1, E2. unfold upd.
          destruct (Nat.eqb_spec x p) as [->|Nx].
          + assert (on' = on) by congruence. subst on'.
            unfold pipe_target in Et. destruct (p_kind P on) eqn:Kon.
            * destruct (spc c on); try discriminate. destruct (gotp c on); inv_some. left. auto.
            * destruct (penq c on) eqn:Eq; inv_some. rewrite F. right. split; [congruence|].
              assert (Non : on <> p) by (intros ->; rewrite (a_q4 _ _ A _ Ep) in Eq; discriminate).
              exists n. rewrite (E3 _ Non). destruct (Nat.eqb_spec on p); [congruence|]. auto.
          + rewrite E4 in Hx by auto.
            destruct (b_basis _ _ B x on' K Hx) as [Q|(K1 & i & Q1 & Q2 & Q3)]; [left; exact Q|].
            right. split; auto.
            assert (Non : on' <> p) by (intros ->; rewrite (a_q4 _ _ A _ Ep) in Q1; discriminate).
            exists i. rewrite (E3 _ Non). destruct (Nat.eqb_spec on' p); [congruence|]. auto.
        - intros x d Hd. rewrite E5 in Hd. apply (b_deliv _ _ B); auto. }
      cbn in H. destruct (aq_ph c a); [destruct (Nat.eqb _ _)|..]; inv_some.
      all: apply Hb; try reflexivity; intros x Nx; cbn; unfold upd; destruct (Nat.eqb_spec x p); congruence.
    + destruct (aq_ph c (proot c p)); inv_some.
      all: apply (invB_same P c _ B); auto; intros x; cbn; unfold upd; destruct (Nat.eqb_spec x p); subst; congruence.
    + destruct (ready_closed c (proot c p)); inv_some. unfold passthrough.
      destruct (ierr c (proot c p)).
      * apply (invB_same P c _ B); auto. intros x. cbn. unfold upd. destruct (Nat.eqb_spec x p); subst; congruence.
      * apply invB_deliver; auto. apply invA_invA'; auto. congruence.
  - unfold step_pipe_ctx in H. destruct (p_kind P p); try discriminate.
    destruct (cancelled c p); try discriminate.
    destruct (ppc c p) eqn:Ep; inv_some.
    all: apply (invB_same P c _ B); auto; intros x; cbn; unfold upd; destruct (Nat.eqb_spec x p); subst; congruence.
  - unfold step_target_ret in H. destruct (ppc c p) eqn:Ep; inv_some.
    all: apply (invB_same P c _ B); auto; intros x; cbn; unfold upd; destruct (Nat.eqb_spec x p); subst; congruence.
  - unfold step_emb in H. destruct (ppc c p) eqn:Ep; try discriminate.
    destruct (aq_ph c (proot c p)); try discriminate. destruct (tret c p); inv_some.
    all: apply (invB_same P c _ B); auto; intros x; cbn; unfold upd; destruct (Nat.eqb_spec x p); subst; congruence.
  - apply Fr. eapply frame_cancel; eauto.
  - apply Fr. eapply frame_shutdown; eauto.
  - unfold step_drain_ack in H. destruct (aq_ph c a); inv_some. apply (invB_same P c _ B); auto.
Qed.
