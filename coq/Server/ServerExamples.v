(* C12 — non-vacuity examples and the pre-fix variant of queueCaller.PipelineRecv. *)
From CV Require Import Server.Server.
From Coq Require Import List Arith Bool.
Import ListNotations.

Definition ex_params (fixed : bool) : params :=
  mkParams 2 2 (fun x => match x with 0 => Direct | 1 => Pipe 0 | 2 => Pipe 1 | _ => Direct end)
           (fun _ => None) fixed.

(* call 0 is acknowledged and pending; call 1 is pipelined on its answer, call 2 on the answer of
   call 1; then call 0 returns and its queue is drained *)
Definition ex_sched : list tid :=
  [TStart 0; TAck 0; TStart 0; TPipe 1; TPipe 2; TRet 0 false; TImpl 0; TImpl 0; TImpl 0].

(* repaired code: call 2 is forwarded to the pipeline caller of call 1 *)
Example basis_fixed :
  hd_error (trace (run (ex_params true) (init (ex_params true)) ex_sched)) = Some (EvDeliver 2 (DFwd 1)).
Proof. vm_compute. reflexivity. Qed.

(* code before the fix (basis := len(q)-1): call 2 is delivered to the result of call 0 *)
Example basis_refuted :
  hd_error (trace (run (ex_params false) (init (ex_params false)) ex_sched)) = Some (EvDeliver 2 (DRes 0)).
Proof. vm_compute. reflexivity. Qed.

(* the cap is reached: two implementations run at once with MaxConcurrentCalls = 2, and a third
   call waits for a slot *)
Definition ex_params2 : params := mkParams 2 1 (fun _ => Direct) (fun _ => None) true.
Definition ex_sched2 : list tid := [TStart 0; TAck 0; TStart 0; TStart 1; TAck 1; TStart 1; TStart 2].
Example cap_reached :
  let c := run ex_params2 (init ex_params2) ex_sched2 in
  (in_impl (ipc c 0) && in_impl (ipc c 1) = true) /\ spc c 2 = SWaitFull /\ count_slots (ongoing c) = 2.
Proof. vm_compute. auto. Qed.

(* Shutdown with a running call: the user's Shutdown runs only after the call has freed its slot *)
Definition ex_sched3 : list tid :=
  [TStart 0; TShutdown; TShutdown; TRet 0 true; TImpl 0; TImpl 0; TImpl 0; TShutdown; TImpl 0; TShutdown; TShutdown].
Example shutdown_waits :
  let c1 := run ex_params2 (init ex_params2) (firstn 3 ex_sched3) in
  let c2 := run ex_params2 (init ex_params2) ex_sched3 in
  shpc c1 = ShWait /\ shcount c1 = 0 /\ shpc c2 = ShDone /\ shcount c2 = 1 /\ compl c2 0 = [CErr 0].
Proof. vm_compute. auto. Qed.
