(* C12 — non-vacuity examples and the pre-fix variant of queueCaller.PipelineRecv. *)
From CV Require Import Server.Server.
From Coq Require Import List Arith Bool.
Import ListNotations.

Definition ex_params (fixed : bool) : params :=
  mkParams 2 2 (fun x => match x with 0 => Direct | 1 => Pipe 0 | 2 => Pipe 1 | _ => Direct end)
           (fun _ => None) fixed (fun _ => false) true.

(* call 0 is acknowledged and pending; call 1 is pipelined on its answer, call 2 on the answer of
   call 1; then call 0 returns and its queue is drained *)
Definition ex_sched : list tid :=
  [TStart 0; TAck 0; TStart 0; TPipe 1; TPipe 2; TRet 0 false; TImpl 0; TImpl 0; TImpl 0].

(* repaired code: call 2 is forwarded to the pipeline caller of call 1 *)
Example basis_fixed :
  hd_error (trace (run (ex_params true) (init (ex_params true)) ex_sched)) = Some (EvDeliver 2 (DFwd 1)).
Proof. vm_compute. reflexivity. Qed.

(* code before the fix (basis := len(q)-1): call 2 is delivered to the result of call 0 *)
Example basis_refuted :
  hd_error (trace (run (ex_params false) (init (ex_params false)) ex_sched)) = Some (EvDeliver 2 (DRes 0)).
Proof. vm_compute. reflexivity. Qed.

(* the cap is reached: two implementations run at once with MaxConcurrentCalls = 2, and a third
   call waits for a slot *)
Definition ex_params2 : params := mkParams 2 1 (fun _ => Direct) (fun _ => None) true (fun _ => false) true.
Definition ex_sched2 : list tid := [TStart 0; TAck 0; TStart 0; TStart 1; TAck 1; TStart 1; TStart 2].
Example cap_reached :
  let c := run ex_params2 (init ex_params2) ex_sched2 in
  (in_impl (ipc c 0) && in_impl (ipc c 1) = true) /\ spc c 2 = SWaitFull /\ count_slots (ongoing c) = 2.
Proof. vm_compute. auto. Qed.

(* Shutdown with a running call: the user's Shutdown runs only after the call has freed its slot *)
Definition ex_sched3 : list tid :=
  [TStart 0; TShutdown; TShutdown; TRet 0 true; TImpl 0; TImpl 0; TImpl 0; TShutdown; TImpl 0; TShutdown; TShutdown].
Example shutdown_waits :
  let c1 := run ex_params2 (init ex_params2) (firstn 3 ex_sched3) in
  let c2 := run ex_params2 (init ex_params2) ex_sched3 in
  shpc c1 = ShWait /\ shcount c1 = 0 /\ shpc c2 = ShDone /\ shcount c2 = 1 /\ compl c2 0 = [CErr 0].
Proof. vm_compute. auto. Qed.

(* the known finding "self-pipelining deadlock" on the model: MaxConcurrentCalls = 1, call 0 is
   acknowledged, call 1 is queued on its answer, call 0 returns ok and its goroutine is inside the
   drain loop (IDrain) holding the only slot. If the result capability is the server itself, the
   delivery of call 1 is a nested Server.start executed BY THAT GOROUTINE; in the model this nested
   start is the start thread of call 2: it takes the gate, finds no free slot and waits on full
   (SWaitFull); its next step is not enabled, and the only thread that could free a slot is
   TImpl 0 - the goroutine that, in the implementation, is the one blocked in the nested start. *)
Definition ex_params_self : params :=
  mkParams 1 1 (fun x => match x with 1 => Pipe 0 | _ => Direct end) (fun _ => None) true (fun _ => false) true.
Definition ex_sched_self : list tid :=
  [TStart 0; TAck 0; TStart 0; TPipe 1; TRet 0 false; TImpl 0; TStart 2].
Example self_pipe_blocked :
  let c := run ex_params_self (init ex_params_self) ex_sched_self in
  ipc c 0 = IDrain /\ ongoing c = [Some 0] /\ spc c 2 = SWaitFull /\ full c = Some 2 /\
  step ex_params_self c (TStart 2) = None /\ step ex_params_self c (TStartCtx 2) = None.
Proof. vm_compute. repeat split. Qed.

(* a call arriving during the drain: call 1 (slow target) and call 2 are queued on answer 0; the
   drain loop delivers 1 and blocks (ADrainWait); call 3 arrives now: it waits (PWaitReady) and
   cannot be delivered; after the acknowledgement the loop delivers 2, ends, and only then 3 is
   passed through: delivery order 1, 2, 3 *)
Definition ex_params_mid : params :=
  mkParams 1 2 (fun x => match x with 0 => Direct | _ => Pipe 0 end) (fun _ => None) true
           (fun x => Nat.eqb x 1) true.
Definition ex_sched_mid : list tid :=
  [TStart 0; TAck 0; TStart 0; TPipe 1; TPipe 2; TRet 0 false; TImpl 0; TImpl 0; TPipe 3; TPipe 3; TImpl 0].
Example mid_drain_blocked :
  let c := run ex_params_mid (init ex_params_mid) ex_sched_mid in
  aq_ph c 0 = ADrainWait 1 /\ ppc c 1 = PDelivered /\ ppc c 2 = PQueued /\ ppc c 3 = PWaitReady /\
  step ex_params_mid c (TPipe 3) = None /\ step ex_params_mid c (TImpl 0) = None.
Proof. vm_compute. repeat split. Qed.
Example mid_drain_order :
  let c := run ex_params_mid (init ex_params_mid) (ex_sched_mid ++ [TDrainAck 0; TPipe 3; TImpl 0; TPipe 3; TImpl 0; TPipe 3]) in
  filter (fun e => match e with EvDeliver _ _ => true | _ => false end) (rev (trace c))
  = [EvDeliver 1 (DRes 0); EvDeliver 2 (DRes 0); EvDeliver 3 (DRes 0)].
Proof. vm_compute. reflexivity. Qed.

(* queue full (AnswerQueueSize 1): call 1 is queued on answer 0, call 2 (pipelined on the answer
   of the queued call 1, second level) and call 3 (on answer 0, first level) block on aq.draining;
   call 0 returns an error: as soon as the goroutine is inside reject both callers can move, before
   any queued call has been rejected; in the end every call has completed with the error of 0 *)
Definition ex_params_full : params :=
  mkParams 1 1 (fun x => match x with 0 => Direct | 2 => Pipe 1 | _ => Pipe 0 end) (fun _ => None) true
           (fun _ => false) true.
Definition ex_sched_full : list tid :=
  [TStart 0; TAck 0; TStart 0; TPipe 1; TPipe 2; TPipe 3; TRet 0 true; TImpl 0].
Example full_queue_reject_releases :
  let c := run ex_params_full (init ex_params_full) ex_sched_full in
  ppc c 1 = PQueued /\ ppc c 2 = PWaitDrain /\ ppc c 3 = PWaitDrain /\ aq_ph c 0 = ADraining 0 /\
  step ex_params_full c (TPipe 2) <> None /\ step ex_params_full c (TPipe 3) <> None.
Proof. vm_compute. repeat split; discriminate. Qed.
Example full_queue_reject_completes :
  let c := run ex_params_full (init ex_params_full)
             (ex_sched_full ++ [TPipe 2; TPipe 3; TPipe 2; TPipe 3; TImpl 0; TImpl 0; TImpl 0; TImpl 0; TImpl 0]) in
  compl c 0 = [CErr 0] /\ compl c 1 = [CErr 0] /\ compl c 2 = [CErr 0] /\ compl c 3 = [CErr 0] /\ ipc c 0 = IDone.
Proof. vm_compute. repeat split. Qed.
