(* C12 — the answerQueue invariant: queue entries, drain index, enqueue / processing order,
   exactly-once for pipelined calls. Definitions, list lemmas and the frame lemma for steps that
   do not touch the answerQueue state. *)
From CV Require Import Server.Server Server.ServerProofs.
From Coq Require Import List Arith Bool Lia.
Import ListNotations.

(* how many queue entries the drain loop has processed *)
Definition qidx (ph : aqphase) (n : nat) : nat :=
  match ph with AQueueing => 0 | ADraining k | ADrainWait k => k | ADrained => n end.
Definition iclass (i : ipc_t) : nat :=
  match i with INone | IRun | IAcked | IRet => 0 | IDrain => 1 | _ => 2 end.
Definition pclass (ph : aqphase) : nat :=
  match ph with AQueueing => 0 | ADraining _ | ADrainWait _ => 1 | ADrained => 2 end.
Definition pdone (s : ppc_t) : bool := match s with PDone => true | _ => false end.

(* chronological projections of the (newest-first) trace *)
Fixpoint enqs (a : cid) (tr : list event) : list cid :=
  match tr with
  | [] => []
  | EvEnq p r _ :: t => if Nat.eqb r a then enqs a t ++ [p] else enqs a t
  | _ :: t => enqs a t
  end.
Fixpoint procs (a : cid) (tr : list event) : list cid :=
  match tr with
  | [] => []
  | EvProc r p :: t => if Nat.eqb r a then procs a t ++ [p] else procs a t
  | _ :: t => procs a t
  end.

(* the deliveries recorded in the trace (newest first) *)
Fixpoint delivs (tr : list event) : list (cid * dest) :=
  match tr with
  | [] => []
  | EvDeliver p d :: t => (p, d) :: delivs t
  | _ :: t => delivs t
  end.

Record invA (P : params) (c : config) : Prop := {
  a_kp : forall p, p_kind P p = Direct -> ppc c p = PInit;
  a_ks : forall p, p_kind P p <> Direct -> spc c p = S0;
  a_q1 : forall a i p, nth_error (aq_q c a) i = Some p ->
         (ppc c p = PQueued <-> qidx (aq_ph c a) (length (aq_q c a)) <= i);
  a_q1b : forall a, qidx (aq_ph c a) (length (aq_q c a)) <= length (aq_q c a);
  a_q2 : forall p i, penq c p = Some i -> nth_error (aq_q c (proot c p)) i = Some p;
  a_q2' : forall p, ppc c p = PQueued -> penq c p <> None;
  a_q3 : forall a i p, nth_error (aq_q c a) i = Some p -> penq c p = Some i /\ proot c p = a;
  a_q4 : forall p, ppc c p = PInit -> penq c p = None;
  a_q5 : forall a, iclass (ipc c a) = pclass (aq_ph c a);
  a_q8 : forall a m p, nth_error (aq_q c a) m = Some p -> pbasis c p <= m;
  a_q9 : forall p, ppc c p <> PInit -> pbasis c p <= length (aq_q c (proot c p));
  a_j3 : forall p, p_kind P p <> Direct -> length (compl c p) = if pdone (ppc c p) then 1 else 0;
  a_t1 : forall a, enqs a (trace c) = aq_q c a;
  a_t2 : forall a, procs a (trace c) = firstn (qidx (aq_ph c a) (length (aq_q c a))) (aq_q c a)
}.

Lemma invA_init : forall P, invA P (init P).
Proof.
  intros P. constructor; simpl; intros; auto; try discriminate; try lia.
  all: try (destruct i; discriminate). all: try (destruct m; discriminate).
Qed.

(* queue entries are pipelined calls *)
Lemma a_kq : forall P c a p, invA P c -> In p (aq_q c a) -> p_kind P p <> Direct.
Proof.
  intros P c a p A Hin K. apply In_nth_error in Hin. destruct Hin as (i & Hi).
  destruct (a_q3 _ _ A _ _ _ Hi) as (E & _). pose proof (a_q4 _ _ A p (a_kp _ _ A p K)). congruence.
Qed.

(* ------------------------------------------------------------------ list lemmas *)

Lemma nth_error_snoc_lt : forall A (l : list A) x i, i < length l -> nth_error (l ++ [x]) i = nth_error l i.
Proof. intros. apply nth_error_app1. auto. Qed.

Lemma nth_error_snoc_eq : forall A (l : list A) x, nth_error (l ++ [x]) (length l) = Some x.
Proof. intros. rewrite nth_error_app2 by lia. rewrite Nat.sub_diag. reflexivity. Qed.

Lemma nth_error_snoc_inv : forall A (l : list A) x i y, nth_error (l ++ [x]) i = Some y ->
  (i < length l /\ nth_error l i = Some y) \/ (i = length l /\ y = x).
Proof.
  intros A l x i y H. destruct (lt_dec i (length l)).
  - left. rewrite nth_error_app1 in H by auto. auto.
  - right. rewrite nth_error_app2 in H by lia. destruct (i - length l) eqn:E.
    + simpl in H. inversion H. split; auto. lia.
    + simpl in H. destruct n0; discriminate.
Qed.

Lemma firstn_snoc_nth : forall A (l : list A) k x, nth_error l k = Some x -> firstn (S k) l = firstn k l ++ [x].
Proof.
  induction l as [|a l IH]; intros k x H; destruct k; simpl in *; try discriminate.
  - inversion H. destruct l; reflexivity.
  - rewrite (IH _ _ H). reflexivity.
Qed.

Lemma firstn_app_le : forall A (l l' : list A) k, k <= length l -> firstn k (l ++ l') = firstn k l.
Proof. intros. rewrite firstn_app. replace (k - length l) with 0 by lia. simpl. apply app_nil_r. Qed.

(* ------------------------------------------------------------------ frame lemma *)

Record aq_frame (P : params) (c c' : config) : Prop := {
  f_ppc : ppc c' = ppc c;
  f_q : aq_q c' = aq_q c;
  f_ph : aq_ph c' = aq_ph c;
  f_penq : penq c' = penq c;
  f_proot : proot c' = proot c;
  f_pbasis : pbasis c' = pbasis c;
  f_icl : forall x, iclass (ipc c' x) = iclass (ipc c x);
  f_spc : forall p, p_kind P p <> Direct -> spc c' p = spc c p;
  f_compl : forall p, p_kind P p <> Direct -> compl c' p = compl c p;
  f_enqs : forall a, enqs a (trace c') = enqs a (trace c);
  f_procs : forall a, procs a (trace c') = procs a (trace c);
  f_delivs : delivs (trace c') = delivs (trace c)
}.

Lemma invA_frame : forall P c c', aq_frame P c c' -> invA P c -> invA P c'.
Proof.
  intros P c c' F A. destruct F. destruct A.
  constructor; intros;
    rewrite ?f_ppc0, ?f_q0, ?f_ph0, ?f_penq0, ?f_proot0, ?f_pbasis0, ?f_icl0, ?f_enqs0, ?f_procs0 in *;
    try (rewrite f_spc0 by auto); try (rewrite f_compl0 by auto); eauto.
Qed.
