(* C12 — every step preserves the answerQueue invariant. *)
From CV Require Import Server.Server Server.ServerProofs Server.AqInv Server.AqFrame Server.AqSteps.
From Coq Require Import List Arith Bool Lia.
Import ListNotations.

Lemma not_direct : forall P c p, invA P c -> ppc c p <> PInit -> p_kind P p <> Direct.
Proof. intros P c p A H K. apply H. apply (a_kp _ _ A); auto. Qed.

Lemma compl_len0 : forall P c p, invA P c -> ppc c p <> PInit -> ppc c p <> PDone -> length (compl c p) = 0.
Proof.
  intros P c p A H1 H2. rewrite (a_j3 _ _ A p (not_direct _ _ _ A H1)).
  destruct (ppc c p); simpl; auto. congruence.
Qed.

Lemma deliver_cases : forall a p b k emb c,
  b <= k -> k <= length (aq_q c a) ->
  (exists d, deliver a p b k emb c =
             ev (EvDeliver p d) (set_ppc (upd (ppc c) p (if emb then PDelivered else PDirect)) c))
  \/ (exists o, deliver a p b k emb c =
                if emb then set_ppc (upd (ppc c) p PEmbRet) (set_tret (upd (tret c) p (TErr o)) (release p c))
                else set_ppc (upd (ppc c) p PDone) (reject_call p (CErr o) c)).
Proof.
  intros a p b k emb c Hb Hk. unfold deliver. destruct b as [|j].
  - left. eexists. reflexivity.
  - assert (Hj : Nat.ltb j k = true) by (apply Nat.ltb_lt; lia). rewrite Hj.
    destruct (nth_error (aq_q c a) j) eqn:En.
    + destruct (tret c c0).
      * left. eexists. reflexivity.
      * left. eexists. reflexivity.
      * right. exists origin. reflexivity.
    + exfalso. apply nth_error_None in En. lia.
Qed.

Lemma pipe_target_bound : forall P c on a b, invA P c -> pipe_target P c on = Some (a, b) ->
  b <= length (aq_q c a).
Proof.
  intros P c on a b A H. unfold pipe_target in H. destruct (p_kind P on).
  - destruct (spc c on); try discriminate. destruct (gotp c on); inv_some. lia.
  - destruct (penq c on) eqn:E; inv_some. pose proof (a_q2 _ _ A _ _ E) as Q.
    assert (n < length (aq_q c (proot c on))) by (apply nth_error_Some; rewrite Q; discriminate).
    destruct (p_fixed P); lia.
Qed.

Ltac side :=
  try reflexivity;
  try (split; discriminate);
  try (intros; cbn; reflexivity);
  try (intros; cbn; unfold upd; eqb_cases; (reflexivity || congruence));
  try (cbn; unfold upd; rewrite ?Nat.eqb_refl; simpl; lia).

Lemma invA_impl : forall P c x c', inv P c -> invA P c -> step_impl P c x = Some c' -> invA P c'.
Proof.
  intros P c x c' I A H.
  destruct (ipc c x) eqn:Ei;
    try (eapply invA_frame; [eapply frame_impl_tail; eauto; tauto|auto]; fail);
    unfold step_impl in H; rewrite Ei in H; try discriminate.
  - (* IRet *)
    inv_some. pose proof (a_q5 _ _ A x) as Q. rewrite Ei in Q.
    eapply (invA_phase P c _ x IDrain (ADraining 0)); eauto; side.
    destruct (aq_ph c x); simpl in *; try discriminate; reflexivity.
  - (* IDrain *)
    destruct (aq_ph c x) eqn:Eph; try discriminate.
    destruct (nth_error (aq_q c x) k) eqn:En.
    + assert (Hq : ppc c c0 = PQueued) by (apply (a_q1 _ _ A _ _ _ En); rewrite Eph; simpl; lia).
      assert (Hl : length (compl c c0) = 0) by (apply (compl_len0 P); auto; congruence).
      destruct (ierr c x); inv_some.
      * eapply (invA_process P c _ x c0 k PDone (ADraining (S k))); eauto; side.
      * set (c1 := ev (EvProc x c0) (set_aq_ph (upd (aq_ph c) x (ADraining (S k))) c)).
        assert (Hb : pbasis c c0 <= k) by (eapply (a_q8 _ _ A); eauto).
        assert (Hk : k <= length (aq_q c1 x)).
        { cbn. apply Nat.lt_le_incl. apply nth_error_Some. rewrite En. discriminate. }
        destruct (deliver_cases x c0 (pbasis c c0) k true c1 Hb Hk) as [(d & E)|(o & E)]; rewrite E.
        -- match goal with |- context [if ?b then _ else _] => destruct b end.
           ++ eapply (invA_process P c _ x c0 k PDelivered (ADrainWait (S k))); eauto; side.
           ++ eapply (invA_process P c _ x c0 k PDelivered (ADraining (S k))); eauto; side.
        -- match goal with |- context [if ?b then _ else _] => destruct b end.
           ++ eapply (invA_process P c _ x c0 k PEmbRet (ADrainWait (S k))); eauto; side.
           ++ eapply (invA_process P c _ x c0 k PEmbRet (ADraining (S k))); eauto; side.
    + inv_some. pose proof (a_q1b _ _ A x) as Q. rewrite Eph in Q. simpl in Q.
      apply nth_error_None in En.
      eapply (invA_phase P c _ x IReturn ADrained); eauto; side.
      rewrite Eph. simpl. lia.
Qed.

Lemma invA_pipe : forall P c p c', invA P c -> step_pipe P c p = Some c' -> invA P c'.
Proof.
  intros P c p c' A H. unfold step_pipe in H.
  destruct (p_kind P p) eqn:Ek; try discriminate.
  assert (Kp : p_kind P p <> Direct) by congruence.
  destruct (ppc c p) eqn:Ep; try discriminate.
  - (* PInit *)
    destruct (pred_done P c p); try discriminate.
    destruct (pipe_target P c on) as [[a b]|] eqn:Et; try discriminate.
    pose proof (pipe_target_bound _ _ _ _ _ A Et) as Hb.
    cbn in H. destruct (aq_ph c a) eqn:Eph; [destruct (Nat.eqb _ _)|..]; inv_some.
    + eapply (invA_enter P c _ p a b PWaitDrain); eauto; side.
    + eapply (invA_enqueue P c _ p a b); eauto; side.
    + eapply (invA_enter P c _ p a b PWaitReady); eauto; side.
    + eapply (invA_enter P c _ p a b PWaitReady); eauto; side.
    + eapply (invA_enter P c _ p a b PWaitReady); eauto; side.
  - (* PWaitDrain *)
    assert (Hl : length (compl c p) = 0) by (apply (compl_len0 P); auto; congruence).
    destruct (aq_ph c (proot c p)); inv_some.
    all: eapply (invA_move P c _ p PWaitReady); eauto; side; rewrite Ep; split; discriminate.
  - (* PWaitReady *)
    assert (Hl : length (compl c p) = 0) by (apply (compl_len0 P); auto; congruence).
    assert (Hm : movable (ppc c p)) by (rewrite Ep; split; discriminate).
    destruct (ready_closed c (proot c p)); inv_some. unfold passthrough.
    destruct (ierr c (proot c p)).
    + eapply (invA_move P c _ p PDone); eauto; side.
    + assert (Hb : pbasis c p <= length (aq_q c (proot c p))) by (apply (a_q9 _ _ A); congruence).
      destruct (deliver_cases (proot c p) p (pbasis c p) (length (aq_q c (proot c p))) false c Hb (le_n _))
        as [(d & E)|(o & E)]; rewrite E.
      * eapply (invA_move P c _ p PDirect); eauto; side.
      * eapply (invA_move P c _ p PDone); eauto; side.
Qed.

Lemma invA_pipe_ctx : forall P c p c', invA P c -> step_pipe_ctx P c p = Some c' -> invA P c'.
Proof.
  intros P c p c' A H. unfold step_pipe_ctx in H.
  destruct (p_kind P p) eqn:Ek; try discriminate.
  destruct (cancelled c p); try discriminate.
  destruct (ppc c p) eqn:Ep; inv_some.
  all: assert (Hl : length (compl c p) = 0) by (apply (compl_len0 P); auto; congruence).
  all: eapply (invA_move P c _ p PDone); eauto; side; rewrite Ep; split; discriminate.
Qed.

Lemma invA_target_ret : forall P c p e c', invA P c -> step_target_ret c p e = Some c' -> invA P c'.
Proof.
  intros P c p e c' A H. unfold step_target_ret in H.
  destruct (ppc c p) eqn:Ep; inv_some.
  all: assert (Hl : length (compl c p) = 0) by (apply (compl_len0 P); auto; congruence).
  - eapply (invA_move P c _ p PEmbRet); eauto; side; rewrite Ep; split; discriminate.
  - eapply (invA_move P c _ p PDone); eauto; side; rewrite Ep; split; discriminate.
Qed.

Lemma invA_emb : forall P c p c', invA P c -> step_emb c p = Some c' -> invA P c'.
Proof.
  intros P c p c' A H. unfold step_emb in H.
  destruct (ppc c p) eqn:Ep; try discriminate.
  assert (Hl : length (compl c p) = 0) by (apply (compl_len0 P); auto; congruence).
  destruct (aq_ph c (proot c p)); try discriminate. destruct (tret c p); inv_some.
  all: eapply (invA_move P c _ p PDone); eauto; side; rewrite Ep; split; discriminate.
Qed.

Lemma invA_step : forall P c t c', inv P c -> invA P c -> step P c t = Some c' -> invA P c'.
Proof.
  intros P c t c' I A H. destruct t; simpl in H.
  - eapply invA_frame; [eapply frame_start; eauto|auto].
  - eapply invA_frame; [eapply frame_start_ctx; eauto|auto].
  - eapply invA_frame; [eapply frame_ack; eauto|auto].
  - eapply invA_frame; [eapply frame_ret; eauto|auto].
  - eapply invA_impl; eauto.
  - eapply invA_pipe; eauto.
  - eapply invA_pipe_ctx; eauto.
  - eapply invA_target_ret; eauto.
  - eapply invA_emb; eauto.
  - eapply invA_frame; [eapply frame_cancel; eauto|auto].
  - eapply invA_frame; [eapply frame_shutdown; eauto|auto].
  - unfold step_drain_ack in H. destruct (aq_ph c a) eqn:Eph; inv_some.
    eapply (invA_rephase P c _ a (ADraining k)); eauto; side; rewrite Eph; reflexivity.
Qed.
