(* C12 — the same-caller half of the gate: a call is entered only after the call issued just
   before by the same caller has returned from Send/Recv/PipelineRecv; hence the implementation
   of a later direct call is never started while an earlier direct call of the same caller is
   started-and-unacknowledged, and earlier calls are seen first. *)
From CV Require Import Server.Server Server.ServerProofs Server.AqInv Server.AqFrame Server.AqSteps Server.AqPreserve.
From Coq Require Import List Arith Bool Lia.
Import ListNotations.

Definition returned_st (s : ppc_t) : bool :=
  match s with PInit | PWaitDrain | PWaitReady => false | _ => true end.

Definition entered (P : params) (c : config) (j : cid) : Prop :=
  match p_kind P j with Direct => spc c j <> S0 | Pipe _ => ppc c j <> PInit end.

(* how spc can change in one step *)
Lemma spc_step : forall P c t c' x, inv P c -> invA P c -> step P c t = Some c' ->
  spc c' x = spc c x
  \/ (p_kind P x = Direct /\ spc c x <> SDone /\ (spc c x = S0 -> pred_done P c x = true)).
Proof.
  intros P c t c' x I A H. destruct t; simpl in H.
  - unfold step_start in H. destruct (p_kind P c0) eqn:Ek; try discriminate.
    destruct (Nat.eq_dec x c0) as [->|N].
    + right. split; auto. destruct (spc c c0) eqn:Es; try discriminate; split; try congruence.
      intros _. destruct (pred_done P c c0); auto; discriminate.
    + left. destruct (spc c c0) eqn:Es; try discriminate.
      * destruct (pred_done P c c0); inv_some. unfold enter_start, start_reject, take_slot.
        cbn -[next_id]. destruct (drain c); [destruct (starting c); [|cbn -[next_id]; destruct (next_id (ongoing c))]|..];
          cbn; unfold upd; eqb_cases; congruence.
      * destruct (gate_rel c h); inv_some. unfold enter_start, start_reject, take_slot.
        cbn -[next_id]. destruct (drain c); [destruct (starting c); [|cbn -[next_id]; destruct (next_id (ongoing c))]|..];
          cbn; unfold upd; eqb_cases; congruence.
      * destruct (next_id (ongoing c)); [destruct (drain c)|]; inv_some; cbn; unfold upd; eqb_cases; congruence.
      * destruct (acked c c0 || idone c c0); inv_some. cbn; unfold upd; eqb_cases; congruence.
  - unfold step_start_ctx in H. destruct (p_kind P c0) eqn:Ek; try discriminate.
    destruct (cancelled c c0); try discriminate.
    destruct (Nat.eq_dec x c0) as [->|N].
    + right. split; auto. destruct (spc c c0); try discriminate; split; congruence.
    + left. destruct (spc c c0); inv_some; cbn; unfold upd; eqb_cases; congruence.
  - left. unfold step_ack in H. destruct (ipc c c0); inv_some. reflexivity.
  - left. unfold step_ret in H. destruct (ipc c c0); inv_some; reflexivity.
  - unfold step_impl in H. destruct (ipc c c0) eqn:Ei; try discriminate.
    + left. inv_some. reflexivity.
    + left. destruct (aq_ph c c0); try discriminate. destruct (nth_error (aq_q c c0) k).
      * destruct (ierr c c0); inv_some; [reflexivity|].
        match goal with |- context [if ?b then _ else _] => destruct b end; cbn [spc set_aq_ph];
        match goal with |- spc (deliver ?a ?p ?b ?k ?e ?cc) _ = _ =>
          destruct (core_eq_deliver a p b k e cc) as (_ & _ & _ & E & _); rewrite E end; reflexivity.
      * inv_some. reflexivity.
    + left. inv_some. reflexivity.
    + inv_some. cbn -[set_nth has_ongoing]. unfold all_free.
      destruct (full c) eqn:Ef.
      * pose proof (i_full1 _ _ I _ Ef) as Ew.
        destruct (Nat.eq_dec x c1) as [->|N].
        -- right. pose proof (i_gate1 _ _ I c1) as G. rewrite Ew in G.
           split; [|split; congruence].
           destruct (p_kind P c1) eqn:Ek; auto. exfalso. clear G.
           assert (K : p_kind P c1 <> Direct) by congruence.
           pose proof (a_ks _ _ A c1 K). congruence.
        -- left. destruct (drain c); cbn -[set_nth has_ongoing]; try destruct (has_ongoing _);
             cbn -[set_nth has_ongoing]; rewrite ?Ef; cbn -[set_nth has_ongoing]; unfold upd; eqb_cases; congruence.
      * left. destruct (drain c); cbn -[set_nth has_ongoing]; try destruct (has_ongoing _);
          cbn -[set_nth has_ongoing]; rewrite ?Ef; reflexivity.
    + left. inv_some. reflexivity.
  - left. unfold step_pipe in H. destruct (p_kind P p); try discriminate.
    destruct (ppc c p); try discriminate.
    + destruct (pred_done P c p); try discriminate.
      destruct (pipe_target P c on) as [[a b]|]; try discriminate.
      cbn in H. destruct (aq_ph c a); [destruct (Nat.eqb _ _)|..]; inv_some; reflexivity.
    + destruct (aq_ph c (proot c p)); inv_some; reflexivity.
    + destruct (ready_closed c (proot c p)); inv_some. unfold passthrough.
      destruct (ierr c (proot c p)); [reflexivity|].
      match goal with |- spc (deliver ?a ?p ?b ?k ?e ?cc) _ = _ =>
        destruct (core_eq_deliver a p b k e cc) as (_ & _ & _ & E & _); rewrite E end. reflexivity.
  - left. unfold step_pipe_ctx in H. destruct (p_kind P p); try discriminate.
    destruct (cancelled c p); try discriminate. destruct (ppc c p); inv_some; reflexivity.
  - left. unfold step_target_ret in H. destruct (ppc c p); inv_some; reflexivity.
  - left. unfold step_emb in H. destruct (ppc c p); try discriminate.
    destruct (aq_ph c (proot c p)); try discriminate. destruct (tret c p); inv_some; reflexivity.
  - left. unfold step_cancel in H. destruct (cancelled c c0); inv_some; reflexivity.
  - left. unfold step_shutdown in H. destruct (shpc c); try discriminate.
    + destruct (drain c); [destruct (has_ongoing (ongoing c))|..]; inv_some; reflexivity.
    + destruct (drain c); inv_some; reflexivity.
    + inv_some; reflexivity.
  - left. unfold step_drain_ack in H. destruct (aq_ph c a); inv_some; reflexivity.
Qed.

Lemma deliver_ppc : forall a p b k emb c y,
  ppc (deliver a p b k emb c) y = ppc c y \/ (y = p /\ returned_st (ppc (deliver a p b k emb c) y) = true).
Proof.
  intros. unfold deliver. destruct b; [|destruct (Nat.ltb b k); [destruct (nth_error (aq_q c a) b); [destruct (tret c c0)|]|]].
  all: destruct emb; cbn; unfold upd; destruct (Nat.eqb_spec y p); auto.
Qed.

(* how ppc can change in one step *)
Lemma ppc_step : forall P c t c' y, inv P c -> invA P c -> step P c t = Some c' ->
  ppc c' y = ppc c y
  \/ (ppc c y = PInit /\ p_kind P y <> Direct /\ pred_done P c y = true)
  \/ (ppc c y <> PInit /\ returned_st (ppc c' y) = true)
  \/ (ppc c y = PWaitDrain /\ ppc c' y = PWaitReady).
Proof.
  intros P c t c' y I A H. destruct t; simpl in H.
  - left. rewrite (f_ppc _ _ _ (frame_start _ _ _ _ I A H)). reflexivity.
  - left. rewrite (f_ppc _ _ _ (frame_start_ctx P _ _ _ H)). reflexivity.
  - left. rewrite (f_ppc _ _ _ (frame_ack P _ _ _ H)). reflexivity.
  - left. rewrite (f_ppc _ _ _ (frame_ret P _ _ _ _ H)). reflexivity.
  - unfold step_impl in H. destruct (ipc c c0) eqn:Ei; try discriminate.
    + left. inv_some. reflexivity.
    + destruct (aq_ph c c0) eqn:Eph; try discriminate. destruct (nth_error (aq_q c c0) k) eqn:En.
      * assert (Hq : ppc c c1 = PQueued) by (apply (a_q1 _ _ A _ _ _ En); rewrite Eph; simpl; lia).
        destruct (ierr c c0); inv_some.
        -- cbn. unfold upd. destruct (Nat.eqb_spec y c1) as [->|N]; auto.
           right. right. left. split; [congruence|reflexivity].
        -- match goal with |- context [if ?b then _ else _] => destruct b end; cbn [ppc set_aq_ph];
           match goal with |- context [deliver ?a ?p ?b ?k ?e ?cc] =>
             destruct (deliver_ppc a p b k e cc y) as [E|(-> & E)] end.
           all: try (left; rewrite E; reflexivity).
           all: right; right; left; (split; [congruence|exact E]).
      * left. inv_some. reflexivity.
    + left. inv_some. reflexivity.
    + left. inv_some. cbn -[set_nth has_ongoing]. unfold all_free.
      destruct (drain c); cbn -[set_nth has_ongoing]; try destruct (has_ongoing _); cbn -[set_nth has_ongoing];
        destruct (full c); reflexivity.
    + left. inv_some. reflexivity.
  - unfold step_pipe in H. destruct (p_kind P p) eqn:Ek; try discriminate.
    assert (Kp : p_kind P p <> Direct) by congruence.
    destruct (ppc c p) eqn:Ep; try discriminate.
    + destruct (pred_done P c p) eqn:Epd; try discriminate.
      destruct (pipe_target P c on) as [[a b]|]; try discriminate.
      destruct (Nat.eq_dec y p) as [->|N]; [right; left; auto|].
      left. cbn in H. destruct (aq_ph c a); [destruct (Nat.eqb _ _)|..]; inv_some; cbn; unfold upd; eqb_cases; congruence.
    + destruct (Nat.eq_dec y p) as [->|N].
      * right. right. right. destruct (aq_ph c (proot c p)); inv_some; cbn; unfold upd; rewrite Nat.eqb_refl; auto.
      * left. destruct (aq_ph c (proot c p)); inv_some; cbn; unfold upd; eqb_cases; congruence.
    + destruct (ready_closed c (proot c p)); inv_some. unfold passthrough.
      destruct (ierr c (proot c p)).
      * cbn. unfold upd. destruct (Nat.eqb_spec y p) as [->|N]; auto.
        right. right. left. split; [congruence|reflexivity].
      * match goal with |- context [deliver ?a ?p ?b ?k ?e ?cc] =>
          destruct (deliver_ppc a p b k e cc y) as [E|(-> & E)] end.
        -- left. exact E.
        -- right. right. left. split; [congruence|exact E].
  - unfold step_pipe_ctx in H. destruct (p_kind P p); try discriminate.
    destruct (cancelled c p); try discriminate.
    destruct (ppc c p) eqn:Ep; inv_some; cbn; unfold upd; destruct (Nat.eqb_spec y p) as [->|N]; auto;
      right; right; left; (split; [congruence|reflexivity]).
  - unfold step_target_ret in H.
    destruct (ppc c p) eqn:Ep; inv_some; cbn; unfold upd; destruct (Nat.eqb_spec y p) as [->|N]; auto;
      right; right; left; (split; [congruence|reflexivity]).
  - unfold step_emb in H. destruct (ppc c p) eqn:Ep; try discriminate.
    destruct (aq_ph c (proot c p)); try discriminate.
    destruct (tret c p); inv_some; cbn; unfold upd; destruct (Nat.eqb_spec y p) as [->|N]; auto;
      right; right; left; (split; [congruence|reflexivity]).
  - left. rewrite (f_ppc _ _ _ (frame_cancel P _ _ _ H)). reflexivity.
  - left. rewrite (f_ppc _ _ _ (frame_shutdown P _ _ H)). reflexivity.
  - left. unfold step_drain_ack in H. destruct (aq_ph c a); inv_some; reflexivity.
Qed.

(* ------------------------------------------------------------------ the program-order invariant *)

Definition invK (P : params) (c : config) : Prop :=
  forall j d, p_pred P j = Some d -> entered P c j -> call_returned P c d = true.

Lemma invK_init : forall P, invK P (init P).
Proof. intros P j d _ E. unfold entered in E. simpl in E. destruct (p_kind P j); congruence. Qed.

Lemma call_returned_mono : forall P c t c' d, inv P c -> invA P c -> step P c t = Some c' ->
  call_returned P c d = true -> call_returned P c' d = true.
Proof.
  intros P c t c' d I A H R. unfold call_returned in *. destruct (p_kind P d) eqn:Ek.
  - destruct (spc_step P c t c' d I A H) as [E|(_ & N & _)].
    + rewrite E. exact R.
    + destruct (spc c d); try discriminate. congruence.
  - fold (returned_st (ppc c d)) in R. fold (returned_st (ppc c' d)).
    destruct (ppc_step P c t c' d I A H) as [E|[(E & _)|[(_ & E)|(E & _)]]].
    + rewrite E. exact R.
    + rewrite E in R. discriminate.
    + exact E.
    + rewrite E in R. discriminate.
Qed.

Lemma invK_step : forall P c t c', inv P c -> invA P c -> invK P c -> step P c t = Some c' -> invK P c'.
Proof.
  intros P c t c' I A K H j d Hp E.
  assert (Hcases : entered P c j \/ pred_done P c j = true).
  { unfold entered in *. destruct (p_kind P j) eqn:Ek.
    - destruct (spc_step P c t c' j I A H) as [Es|(_ & _ & Es)].
      + left. congruence.
      + destruct (spc c j) eqn:E0; try (left; congruence). right. auto.
    - destruct (ppc_step P c t c' j I A H) as [Es|[(_ & _ & Es)|[(Es & _)|(Es & _)]]].
      + left. congruence.
      + right. exact Es.
      + left. exact Es.
      + left. congruence. }
  eapply call_returned_mono; eauto.
  destruct Hcases as [E0|E0].
  - apply K with (j := j); auto.
  - unfold pred_done in E0. rewrite Hp in E0. exact E0.
Qed.
