(* C12 — invariants of the Server model over all schedules. *)
From CV Require Import Server.Server.
From Coq Require Import List Arith Bool Lia.
Import ListNotations.

Lemma set_nth_length : forall A (l : list A) i v, length (set_nth l i v) = length l.
Proof. induction l; destruct i; simpl; intros; auto. Qed.
