(* C12 — invariants of the Server model (coq/Server/Server.v) over all schedules:
   the server core (slots, gate, full, drain, Shutdown). *)
From CV Require Import Server.Server.
From Coq Require Import List Arith Bool Lia.
Import ListNotations.

(* ------------------------------------------------------------------ lists *)

Lemma set_nth_length : forall A (l : list A) i v, length (set_nth l i v) = length l.
Proof. induction l; destruct i; simpl; intros; auto. Qed.

Lemma nth_error_set_nth_eq : forall A (l : list A) i v, i < length l -> nth_error (set_nth l i v) i = Some v.
Proof. induction l; destruct i; simpl; intros; try lia; auto. apply IHl. lia. Qed.

Lemma nth_error_set_nth_neq : forall A (l : list A) i j v, i <> j -> nth_error (set_nth l i v) j = nth_error l j.
Proof. induction l; destruct i; destruct j; simpl; intros; try congruence; auto. Qed.

Lemma next_id_some : forall l i, next_id l = Some i -> nth_error l i = Some None.
Proof.
  induction l as [|a l IH]; simpl; intros i H; try discriminate.
  destruct a.
  - destruct (next_id l) eqn:E; try discriminate. inversion H; subst. simpl. auto.
  - inversion H; subst. reflexivity.
Qed.

Lemma next_id_none : forall l, next_id l = None -> forall i, nth_error l i <> Some None.
Proof.
  induction l as [|a l IH]; simpl; intros H i.
  - destruct i; discriminate.
  - destruct a; try discriminate. destruct (next_id l) eqn:E; try discriminate.
    destruct i; simpl; [discriminate|]. apply IH. reflexivity.
Qed.

Lemma next_id_none_iff : forall l, next_id l = None <-> (forall i, nth_error l i <> Some None).
Proof.
  split. apply next_id_none.
  induction l as [|a l IH]; simpl; intros H; auto.
  destruct a.
  - rewrite IH; auto. intros i. apply (H (S i)).
  - exfalso. apply (H 0). reflexivity.
Qed.

Lemma has_ongoing_true : forall l, has_ongoing l = true <-> exists i x, nth_error l i = Some (Some x).
Proof.
  induction l as [|a l IH]; simpl.
  - split; [discriminate|]. intros (i & x & H). destruct i; discriminate.
  - destruct a.
    + split; auto. intros _. exists 0, c. reflexivity.
    + rewrite IH. split; intros (i & x & H).
      * exists (S i), x. exact H.
      * destruct i; simpl in H; [discriminate|]. eauto.
Qed.

Lemma has_ongoing_false : forall l, has_ongoing l = false <-> forall i x, nth_error l i <> Some (Some x).
Proof.
  intros l. split.
  - intros H i x E. assert (has_ongoing l = true) by (apply has_ongoing_true; eauto). congruence.
  - intros H. destruct (has_ongoing l) eqn:E; auto. apply has_ongoing_true in E. destruct E as (i & x & E).
    exfalso. eapply H; eauto.
Qed.

Lemma repeat_nth_error : forall A (v : A) n i, i < n -> nth_error (repeat v n) i = Some v.
Proof. induction n; simpl; intros; try lia. destruct i; simpl; auto. apply IHn. lia. Qed.

Lemma repeat_nth_error_inv : forall A (v w : A) n i, nth_error (repeat v n) i = Some w -> w = v.
Proof. induction n; destruct i; simpl; intros; try discriminate. congruence. eauto. Qed.

Lemma cancel_all_other : forall l f, forall x, f x = true -> cancel_all l f x = true.
Proof.
  induction l as [|a l IH]; simpl; intros; auto. destruct a; auto. apply IH. unfold upd.
  destruct (Nat.eqb x c); auto.
Qed.

Lemma cancel_all_in : forall l f i x, nth_error l i = Some (Some x) -> cancel_all l f x = true.
Proof.
  induction l as [|a l IH]; intros f i x H; destruct i; simpl in *; try discriminate.
  - inversion H; subst. apply cancel_all_other. unfold upd. rewrite Nat.eqb_refl. reflexivity.
  - destruct a; eauto.
Qed.

(* ------------------------------------------------------------------ tactics *)

Ltac eqb_cases :=
  repeat match goal with
  | |- context [Nat.eqb ?a ?b] => destruct (Nat.eqb_spec a b); subst
  | H : context [Nat.eqb ?a ?b] |- _ => destruct (Nat.eqb_spec a b); subst
  end.

Ltac inv_some :=
  repeat match goal with
  | H : Some _ = Some _ |- _ => inversion H; subst; clear H
  | H : None = Some _ |- _ => discriminate H
  | H : Some _ = None |- _ => discriminate H
  end.

Definition holds_gate (s : spc_t) : bool :=
  match s with SWaitFull | SFullWoken | SWaitAck => true | _ => false end.

Definition pre_impl (s : spc_t) : bool :=
  match s with S0 | SWaitGate _ | SWaitFull | SFullWoken => true | _ => false end.

(* ------------------------------------------------------------------ the core invariant *)

Record inv (P : params) (c : config) : Prop := {
  i_len : length (ongoing c) = p_max P;
  i_slot1 : forall i x, nth_error (ongoing c) i = Some (Some x) -> holds_slot (ipc c x) = true /\ slot c x = i;
  i_slot2 : forall x, holds_slot (ipc c x) = true -> nth_error (ongoing c) (slot c x) = Some (Some x);
  i_gate1 : forall x, holds_gate (spc c x) = true -> starting c = Some x;
  i_gate2 : forall x, starting c = Some x -> holds_gate (spc c x) = true;
  i_run : forall x, ipc c x = IRun -> spc c x = SWaitAck;
  i_pre : forall x, pre_impl (spc c x) = true -> ipc c x = INone;
  i_ack : forall x, spc c x = SWaitAck -> ipc c x <> INone;
  i_full1 : forall w, full c = Some w -> spc c w = SWaitFull;
  i_full2 : forall w, spc c w = SWaitFull -> full c = Some w;
  i_fullslots : forall w, spc c w = SWaitFull -> next_id (ongoing c) = None;
  i_woken : forall w, spc c w = SFullWoken -> next_id (ongoing c) <> None;
  i_dnil : drain c = DNil <-> shpc c = ShInit;
  i_dopen : drain c = DOpen -> shpc c = ShWait /\ has_ongoing (ongoing c) = true;
  i_dclosed : drain c = DClosed -> has_ongoing (ongoing c) = false;
  i_shwait : shpc c = ShWait -> drain c <> DNil;
  i_shcount : shcount c = match shpc c with ShDone => 1 | _ => 0 end;
  i_gaterel : forall x h, spc c x = SWaitGate h -> gate_rel c h = true \/ starting c = Some h;
  i_idone : forall x, idone c x = true <-> ipc c x = IDone;
  i_acked : forall x, acked c x = true -> ipc c x <> INone /\ ipc c x <> IRun
}.

Lemma inv_init : forall P, inv P (init P).
Proof.
  intros P. constructor; simpl; intros; try discriminate; try tauto; auto.
  - apply repeat_length.
  - apply repeat_nth_error_inv in H. discriminate.
  - split; intros; discriminate.
Qed.

(* steps that leave the server core untouched *)
Definition core_eq (c c' : config) : Prop :=
  ongoing c' = ongoing c /\ slot c' = slot c /\ ipc c' = ipc c /\ spc c' = spc c /\ starting c' = starting c /\
  full c' = full c /\ drain c' = drain c /\ shpc c' = shpc c /\ shcount c' = shcount c /\
  gate_rel c' = gate_rel c /\ idone c' = idone c /\ acked c' = acked c.

Lemma inv_core_eq : forall P c c', core_eq c c' -> inv P c -> inv P c'.
Proof.
  intros P c c' (E1 & E2 & E3 & E4 & E5 & E6 & E7 & E8 & E9 & E10 & E11 & E12) I.
  destruct I. constructor; rewrite ?E1, ?E2, ?E3, ?E4, ?E5, ?E6, ?E7, ?E8, ?E9, ?E10, ?E11, ?E12; auto.
Qed.

Lemma core_eq_refl : forall c, core_eq c c.
Proof. intros; repeat split. Qed.

Ltac core := repeat split; reflexivity.

Definition seen_marker (y : cid) := True.

Ltac inst I y :=
  pose proof (i_slot2 _ _ I y); pose proof (i_gate1 _ _ I y); pose proof (i_gate2 _ _ I y);
  pose proof (i_run _ _ I y); pose proof (i_pre _ _ I y); pose proof (i_ack _ _ I y);
  pose proof (i_full1 _ _ I y); pose proof (i_full2 _ _ I y); pose proof (i_fullslots _ _ I y);
  pose proof (i_woken _ _ I y); pose proof (i_idone _ _ I y); pose proof (i_acked _ _ I y).

Ltac inst_all I :=
  repeat match goal with
  | y : cid |- _ =>
    lazymatch goal with
    | _ : seen_marker y |- _ => fail
    | _ => inst I y; assert (seen_marker y) by exact Logic.I
    end
  end;
  pose proof (i_len _ _ I); pose proof (i_dnil _ _ I); pose proof (i_dopen _ _ I);
  pose proof (i_dclosed _ _ I); pose proof (i_shwait _ _ I); pose proof (i_shcount _ _ I).

Ltac use_slot1 I :=
  repeat match goal with
  | H : nth_error (ongoing _) ?i = Some (Some ?x) |- _ =>
    lazymatch goal with
    | _ : slot _ x = i |- _ => fail
    | _ => let N := fresh "N" in pose proof (i_slot1 _ _ I i x H) as N; destruct N
    end
  end.

Ltac use_gaterel I :=
  repeat match goal with
  | H : spc _ ?x = SWaitGate ?h |- _ =>
    lazymatch goal with
    | _ : gate_rel _ h = true \/ _ |- _ => fail
    | _ => pose proof (i_gaterel _ _ I x h H)
    end
  end.

Ltac prep :=
  constructor; cbn -[nth_error next_id has_ongoing set_nth] in *; intros; unfold upd in *; eqb_cases.

Ltac fin :=
  try solve [ eauto | congruence | discriminate | tauto | intuition congruence | intuition discriminate ].

Ltac sat I :=
  use_slot1 I; use_gaterel I; inst_all I;
  repeat match goal with E : ipc _ _ = _ |- _ => rewrite E in * end;
  repeat match goal with E : spc _ _ = _ |- _ => rewrite E in * end;
  repeat match goal with E : shpc _ = _ |- _ => rewrite E in * end;
  repeat match goal with E : drain _ = _ |- _ => rewrite E in * end;
  cbn -[nth_error next_id has_ongoing set_nth] in *;
  try solve [ intuition (congruence || discriminate || eauto) ].

Lemma inv_ack : forall P c x c', inv P c -> step_ack c x = Some c' -> inv P c'.
Proof.
  intros P c x c' I H. unfold step_ack in H. destruct (ipc c x) eqn:Ex; inv_some.
  prep; fin; sat I.
Qed.

Lemma inv_ret : forall P c x e c', inv P c -> step_ret c x e = Some c' -> inv P c'.
Proof.
  intros P c x e c' I H. unfold step_ret in H. destruct (ipc c x) eqn:Ex; inv_some.
  all: prep; fin; sat I.
Qed.

Lemma core_eq_complete : forall c x k, core_eq c (complete x k c).
Proof. intros; core. Qed.

Lemma core_eq_trans : forall a b c, core_eq a b -> core_eq b c -> core_eq a c.
Proof.
  unfold core_eq; intros a b c H1 H2.
  destruct H1 as (A1 & A2 & A3 & A4 & A5 & A6 & A7 & A8 & A9 & A10 & A11 & A12).
  destruct H2 as (B1 & B2 & B3 & B4 & B5 & B6 & B7 & B8 & B9 & B10 & B11 & B12).
  repeat split; congruence.
Qed.

Lemma core_eq_deliver : forall a p b k emb c, core_eq c (deliver a p b k emb c).
Proof.
  intros. unfold deliver. destruct b; [core|].
  destruct (Nat.ltb b k); [|core].
  destruct (nth_error (aq_q c a) b); [|core].
  destruct (tret c c0); try core. destruct emb; core.
Qed.

Lemma inv_pipe : forall P c p c', inv P c -> step_pipe P c p = Some c' -> inv P c'.
Proof.
  intros P c p c' I H. apply inv_core_eq with (c := c); auto.
  unfold step_pipe in H. destruct (p_kind P p); try discriminate.
  destruct (ppc c p) eqn:Ep; try discriminate.
  - destruct (pred_done P c p); try discriminate.
    destruct (pipe_target P c on) as [[a b]|]; try discriminate.
    cbn in H. destruct (aq_ph c a); [destruct (Nat.eqb _ _)|..]; inv_some; core.
  - destruct (aq_ph c (proot c p)); inv_some; core.
  - destruct (ready_closed c (proot c p)); inv_some.
    unfold passthrough. destruct (ierr c (proot c p)); [core|apply core_eq_deliver].
Qed.

Lemma inv_pipe_ctx : forall P c p c', inv P c -> step_pipe_ctx P c p = Some c' -> inv P c'.
Proof.
  intros P c p c' I H. apply inv_core_eq with (c := c); auto.
  unfold step_pipe_ctx in H. destruct (p_kind P p); try discriminate.
  destruct (cancelled c p); try discriminate.
  destruct (ppc c p); inv_some; core.
Qed.

Lemma inv_target_ret : forall P c p e c', inv P c -> step_target_ret c p e = Some c' -> inv P c'.
Proof.
  intros P c p e c' I H. apply inv_core_eq with (c := c); auto.
  unfold step_target_ret in H. destruct (ppc c p); inv_some; core.
Qed.

Lemma inv_emb : forall P c p c', inv P c -> step_emb c p = Some c' -> inv P c'.
Proof.
  intros P c p c' I H. apply inv_core_eq with (c := c); auto.
  unfold step_emb in H. destruct (ppc c p); try discriminate.
  destruct (aq_ph c (proot c p)); try discriminate. destruct (tret c p); inv_some; core.
Qed.

Lemma inv_cancel : forall P c x c', inv P c -> step_cancel c x = Some c' -> inv P c'.
Proof.
  intros P c x c' I H. apply inv_core_eq with (c := c); auto.
  unfold step_cancel in H. destruct (cancelled c x); inv_some; core.
Qed.

Lemma inv_shutdown : forall P c c', inv P c -> step_shutdown c = Some c' -> inv P c'.
Proof.
  intros P c c' I H. unfold step_shutdown in H.
  destruct (shpc c) eqn:Es.
  - destruct (drain c) eqn:Ed.
    + destruct (has_ongoing (ongoing c)) eqn:Eh; inv_some; prep; fin; sat I.
    + exfalso. pose proof (i_dnil _ _ I). intuition congruence.
    + exfalso. pose proof (i_dnil _ _ I). intuition congruence.
  - destruct (drain c) eqn:Ed; inv_some. prep; fin; sat I.
  - inv_some. prep; fin; sat I.
  - discriminate.
Qed.

