(* C12 — preservation of the core invariant by the steps of the implementation goroutine,
   of start, and the main theorems about the server core. *)
From CV Require Import Server.Server Server.ServerProofs.
From Coq Require Import List Arith Bool Lia.
Import ListNotations.

Section SlotFree.
  Variable P : params.
  Variable c : config.
  Variable x : cid.
  Hypothesis I : inv P c.
  Hypothesis Hx : holds_slot (ipc c x) = true.
  Let og := set_nth (ongoing c) (slot c x) None.

  Lemma sf_at : nth_error (ongoing c) (slot c x) = Some (Some x).
  Proof. apply (i_slot2 _ _ I); auto. Qed.

  Lemma sf_lt : slot c x < length (ongoing c).
  Proof. apply nth_error_Some. rewrite sf_at. discriminate. Qed.

  Lemma sf_self : nth_error og (slot c x) = Some None.
  Proof. apply nth_error_set_nth_eq. apply sf_lt. Qed.

  Lemma sf_other : forall i y, nth_error og i = Some (Some y) ->
    i <> slot c x /\ y <> x /\ nth_error (ongoing c) i = Some (Some y).
  Proof.
    intros i y H. destruct (Nat.eq_dec i (slot c x)) as [->|N].
    - rewrite sf_self in H. discriminate.
    - unfold og in H. rewrite nth_error_set_nth_neq in H by auto. split; auto. split; auto.
      intros ->. destruct (i_slot1 _ _ I _ _ H). congruence.
  Qed.

  Lemma sf_keep : forall y, y <> x -> holds_slot (ipc c y) = true -> nth_error og (slot c y) = Some (Some y).
  Proof.
    intros y N H. pose proof (i_slot2 _ _ I y H) as E.
    unfold og. rewrite nth_error_set_nth_neq; auto.
    intros Q. rewrite <- Q in E. rewrite sf_at in E. congruence.
  Qed.

  Lemma sf_next : next_id og <> None.
  Proof. intros H. apply (next_id_none _ H (slot c x)). apply sf_self. Qed.

  Lemma sf_len : length og = p_max P.
  Proof. unfold og. rewrite set_nth_length. apply (i_len _ _ I). Qed.

  Lemma sf_has : has_ongoing og = true -> has_ongoing (ongoing c) = true.
  Proof.
    intros H. apply has_ongoing_true in H. destruct H as (i & y & H). apply sf_other in H.
    apply has_ongoing_true. exists i, y. tauto.
  Qed.
End SlotFree.

Lemma inv_impl : forall P c x c', inv P c -> step_impl P c x = Some c' -> inv P c'.
Proof.
  intros P c x c' I H. unfold step_impl in H.
  destruct (ipc c x) eqn:Ex; try discriminate.
  - (* IRet *) inv_some. prep; fin; sat I.
  - (* IDrain *)
    destruct (aq_ph c x); try discriminate.
    destruct (nth_error (aq_q c x) k) eqn:En.
    + destruct (ierr c x); inv_some.
      * apply inv_core_eq with (c := c); auto. core.
      * apply inv_core_eq with (c := c); auto.
        eapply core_eq_trans; [|apply core_eq_deliver]. core.
    + inv_some. prep; fin; sat I.
  - (* IReturn *) inv_some. prep; fin; sat I.
  - (* ISlot *)
    assert (Hx : holds_slot (ipc c x) = true) by (rewrite Ex; reflexivity).
    pose proof (sf_at P c x I Hx) as Hat.
    pose proof (sf_self P c x I Hx) as Hself.
    pose proof (sf_other P c x I Hx) as Hoth.
    pose proof (sf_keep P c x I Hx) as Hkeep.
    pose proof (sf_next P c x I Hx) as Hnext.
    pose proof (sf_len P c x I) as Hlen.
    pose proof (sf_has P c x I Hx) as Hhas.
    assert (Hon : has_ongoing (ongoing c) = true) by (apply has_ongoing_true; eauto).
    cbn -[nth_error next_id has_ongoing set_nth] in H.
    unfold all_free in H.
    destruct (drain c) eqn:Ed; [| destruct (has_ongoing (set_nth (ongoing c) (slot c x) None)) eqn:Eh; cbn -[nth_error next_id has_ongoing set_nth] in H
                               | exfalso; pose proof (i_dclosed _ _ I Ed); congruence ].
    all: cbn -[nth_error next_id has_ongoing set_nth] in H; destruct (full c) eqn:Ef; inv_some.
    all: try (pose proof (i_full1 _ _ I _ Ef) as Ew; pose proof (i_pre _ _ I c0) as Ew2; rewrite Ew in Ew2;
              specialize (Ew2 eq_refl); pose proof (i_gate1 _ _ I c0) as Ew3; rewrite Ew in Ew3; specialize (Ew3 eq_refl)).
    all: prep; fin; sat I.
    all: try solve [ match goal with H : nth_error (set_nth _ _ _) _ = Some (Some _) |- _ => apply Hoth in H; destruct H as (? & ? & H); use_slot1 I; intuition congruence end ].
  - (* IClose *) inv_some. prep; fin; sat I.
Qed.
