(* C12 — invariants used for deadlock freedom: the answer a pipelined call was made on belongs
   to a call whose implementation was started; an embargoed return carries a result. *)
From CV Require Import Server.Server Server.ServerProofs Server.AqInv Server.AqFrame Server.AqSteps Server.AqPreserve.
From Coq Require Import List Arith Bool Lia.
Import ListNotations.

Record invD (P : params) (c : config) : Prop := {
  d_gotp : forall a, gotp c a = true -> ipc c a <> INone;
  d_root : forall p, ppc c p <> PInit -> ipc c (proot c p) <> INone;
  d_tret : forall p, ppc c p = PEmbRet -> tret c p <> TNone
}.

Lemma invD_init : forall P, invD P (init P).
Proof. intros P. constructor; simpl; intros; congruence. Qed.

Ltac dfin D :=
  constructor; cbn -[set_nth has_ongoing next_id]; intros; unfold upd in *; eqb_cases;
  try solve [ eauto using (d_gotp _ _ D), (d_root _ _ D), (d_tret _ _ D)
            | congruence | discriminate
            | match goal with H : _ |- _ => apply (d_gotp _ _ D) in H; congruence end
            | match goal with H : _ |- _ => apply (d_root _ _ D) in H; congruence end
            | match goal with H : _ |- _ => apply (d_tret _ _ D) in H; congruence end ].

Lemma invD_deliver : forall P a p b k emb c, invD P c -> ppc c p <> PInit ->
  invD P (deliver a p b k emb c).
Proof.
  intros P a p b k emb c D Hp. unfold deliver.
  destruct b; [|destruct (Nat.ltb b k); [destruct (nth_error (aq_q c a) b); [destruct (tret c c0)|]|]].
  all: destruct emb; unfold panic; dfin D.
Qed.

Lemma invD_if_ph : forall P c2 (b : bool) f, invD P c2 -> invD P (if b then set_aq_ph f c2 else c2).
Proof. intros P c2 b f H. destruct b; auto. destruct H; constructor; auto. Qed.

Lemma invD_step : forall P c t c', inv P c -> invA P c -> invD P c -> step P c t = Some c' -> invD P c'.
Proof.
  intros P c t c' I A D H. destruct t; simpl in H.
  - (* start *)
    unfold step_start in H. destruct (p_kind P c0) eqn:Ek; try discriminate.
    destruct (spc c c0) eqn:Es; try discriminate.
    + destruct (pred_done P c c0); inv_some. unfold enter_start, start_reject, take_slot.
      cbn -[next_id]. destruct (drain c); [destruct (starting c); [|cbn -[next_id]; destruct (next_id (ongoing c))]|..].
      all: dfin D.
    + destruct (gate_rel c h); inv_some. unfold enter_start, start_reject, take_slot.
      cbn -[next_id]. destruct (drain c); [destruct (starting c); [|cbn -[next_id]; destruct (next_id (ongoing c))]|..].
      all: dfin D.
    + destruct (next_id (ongoing c)); [destruct (drain c)|]; inv_some; unfold start_reject, release_gate, take_slot, panic.
      all: dfin D.
    + destruct (acked c c0 || idone c c0); inv_some. unfold release_gate.
      pose proof (i_ack _ _ I _ Es). dfin D.
  - unfold step_start_ctx in H. destruct (p_kind P c0) eqn:Ek; try discriminate.
    destruct (cancelled c c0); try discriminate.
    destruct (spc c c0) eqn:Es; inv_some; unfold start_reject, release_gate; dfin D.
  - unfold step_ack in H. destruct (ipc c c0) eqn:Ei; inv_some. dfin D.
  - unfold step_ret in H. destruct (ipc c c0) eqn:Ei; inv_some; dfin D.
  - unfold step_impl in H. destruct (ipc c c0) eqn:Ei; try discriminate.
    + inv_some. dfin D.
    + destruct (aq_ph c c0) eqn:Eph; try discriminate. destruct (nth_error (aq_q c c0) k) eqn:En.
      * assert (Hq : ppc c c1 = PQueued) by (apply (a_q1 _ _ A _ _ _ En); rewrite Eph; simpl; lia).
        destruct (ierr c c0); inv_some.
        -- assert (Hr : ipc c (proot c c1) <> INone) by (apply (d_root _ _ D); congruence). dfin D.
        -- assert (Hr : ipc c (proot c c1) <> INone) by (apply (d_root _ _ D); congruence).
           apply invD_if_ph. apply invD_deliver; [|cbn; congruence]. dfin D.
      * inv_some. dfin D.
    + inv_some. dfin D.
    + inv_some. unfold all_free, panic. cbn -[set_nth has_ongoing].
      destruct (drain c); cbn -[set_nth has_ongoing]; try destruct (has_ongoing _); cbn -[set_nth has_ongoing];
        destruct (full c) eqn:Ef; cbn -[set_nth has_ongoing].
      all: dfin D.
    + inv_some. dfin D.
  - (* pipe *)
    unfold step_pipe in H. destruct (p_kind P p) eqn:Ek; try discriminate.
    destruct (ppc c p) eqn:Ep; try discriminate.
    + destruct (pred_done P c p); try discriminate.
      destruct (pipe_target P c on) as [[a b]|] eqn:Et; try discriminate.
      assert (Ha : ipc c a <> INone).
      { unfold pipe_target in Et. destruct (p_kind P on).
        - destruct (spc c on); try discriminate. destruct (gotp c on) eqn:Eg; inv_some.
          apply (d_gotp _ _ D); auto.
        - destruct (penq c on) eqn:Eq; inv_some. apply (d_root _ _ D).
          intros E0. rewrite (a_q4 _ _ A _ E0) in Eq. discriminate. }
      cbn in H. destruct (aq_ph c a); [destruct (Nat.eqb _ _)|..]; inv_some.
      all: dfin D.
    + assert (Hr : ipc c (proot c p) <> INone) by (apply (d_root _ _ D); congruence).
      destruct (aq_ph c (proot c p)); inv_some; dfin D.
    + assert (Hr : ipc c (proot c p) <> INone) by (apply (d_root _ _ D); congruence).
      destruct (ready_closed c (proot c p)); inv_some. unfold passthrough.
      destruct (ierr c (proot c p)).
      * dfin D.
      * apply invD_deliver; auto. congruence.
  - unfold step_pipe_ctx in H. destruct (p_kind P p); try discriminate.
    destruct (cancelled c p); try discriminate.
    destruct (ppc c p) eqn:Ep; inv_some; (assert (Hr : ipc c (proot c p) <> INone) by (apply (d_root _ _ D); congruence)); dfin D.
  - unfold step_target_ret in H. destruct (ppc c p) eqn:Ep; inv_some; (assert (Hr : ipc c (proot c p) <> INone) by (apply (d_root _ _ D); congruence)); destruct err; dfin D.
  - unfold step_emb in H. destruct (ppc c p) eqn:Ep; try discriminate.
    assert (Hr : ipc c (proot c p) <> INone) by (apply (d_root _ _ D); congruence).
    destruct (aq_ph c (proot c p)); try discriminate. destruct (tret c p); inv_some; dfin D.
  - unfold step_cancel in H. destruct (cancelled c c0); inv_some. dfin D.
  - unfold step_shutdown in H. destruct (shpc c); try discriminate.
    + destruct (drain c); [destruct (has_ongoing (ongoing c))|..]; inv_some; unfold panic; dfin D.
    + destruct (drain c); inv_some. dfin D.
    + inv_some. dfin D.
  - unfold step_drain_ack in H. destruct (aq_ph c a); inv_some. dfin D.
Qed.
